(* Proofs about the persisted record format (C15). *)
From MQ Require Import Bytes Record.
From Coq Require Import ZArith ZifyN ZifyNat ZifyBool.
Ltac Zify.zify_post_hook ::= Z.div_mod_to_equations.

Lemma M32_pow : M32 = 2 ^ 32. Proof. reflexivity. Qed.
Lemma M32_nz : M32 <> 0. Proof. discriminate. Qed.

(* ---------- list helpers ---------- *)

Lemma firstn_length_app {A} (a b : list A) : firstn (length a) (a ++ b) = a.
Proof. induction a as [|x a IH]; cbn; [destruct b; reflexivity | now rewrite IH]. Qed.

Lemma skipn_length_app {A} (a b : list A) : skipn (length a) (a ++ b) = b.
Proof. induction a as [|x a IH]; cbn; [reflexivity | exact IH]. Qed.

Lemma upd_length i b l : length (upd i b l) = length l.
Proof. revert i; induction l as [|x l IH]; intros [|i]; cbn; auto. Qed.

Lemma upd_app_l i b l r : (i < length l)%nat -> upd i b (l ++ r) = upd i b l ++ r.
Proof.
  revert i; induction l as [|x l IH]; intros [|i] H; cbn in *; try lia; auto.
  rewrite IH by lia. reflexivity.
Qed.

Lemma upd_app_r i b l r : (length l <= i)%nat -> upd i b (l ++ r) = l ++ upd (i - length l) b r.
Proof.
  revert i; induction l as [|x l IH]; intros i H; cbn in *.
  - now rewrite Nat.sub_0_r.
  - destruct i as [|i]; [lia|]. cbn. rewrite IH by lia. reflexivity.
Qed.

Lemma nth_app_l {A} i (l r : list A) d : (i < length l)%nat -> nth i (l ++ r) d = nth i l d.
Proof. intros; now apply app_nth1. Qed.

Lemma nth_app_r {A} i (l r : list A) d : (length l <= i)%nat -> nth i (l ++ r) d = nth (i - length l) r d.
Proof. intros; now apply app_nth2. Qed.

Lemma bytes_app a b : bytes a -> bytes b -> bytes (a ++ b).
Proof. unfold bytes; intros; apply Forall_app; auto. Qed.

(* ---------- integer codecs ---------- *)

Lemma le_n_length n x : length (le_enc n x) = n.
Proof. revert x; induction n as [|n IH]; intros x; cbn; auto. Qed.

Lemma le_n_bytes n x : bytes (le_enc n x).
Proof.
  revert x; induction n as [|n IH]; intros x; cbn; constructor.
  - unfold isbyte. apply N.mod_lt. discriminate.
  - apply IH.
Qed.

Lemma le_decode_enc n x : x < 256 ^ N.of_nat n -> le_decode (le_enc n x) = x.
Proof.
  revert x; induction n as [|n IH]; intros x H.
  - cbn in *. lia.
  - cbn [le_enc le_decode]. rewrite IH.
    + lia.
    + rewrite Nat2N.inj_succ, N.pow_succ_r' in H. lia.
Qed.

Lemma le64_dec x : x < M64 -> le_decode (le64 x) = x.
Proof. intros H. apply le_decode_enc. exact H. Qed.

Lemma be32_bytes x : bytes (be32 x).
Proof. unfold be32, bytes; repeat constructor; unfold isbyte; lia. Qed.

Lemma be32dec_be32 x : x < M32 -> be32dec (be32 x) = x.
Proof. unfold M32, be32, be32dec. intros H. lia. Qed.

Lemma be32_length x : length (be32 x) = 4%nat.
Proof. reflexivity. Qed.

(* ---------- FNV-1a algebra ---------- *)

Definition fnv_inv : N := 899433627.
Lemma prime_inv : (fnv_prime * fnv_inv) mod M32 = 1.
Proof. vm_compute. reflexivity. Qed.

Lemma mul_prime_inj a b :
  a < M32 -> b < M32 -> (a * fnv_prime) mod M32 = (b * fnv_prime) mod M32 -> a = b.
Proof.
  intros Ha Hb H.
  assert (E : forall x, x < M32 -> x = (((x * fnv_prime) mod M32) * fnv_inv) mod M32).
  { intros x Hx.
    rewrite N.mul_mod_idemp_l by exact M32_nz.
    rewrite <- N.mul_assoc.
    rewrite <- N.mul_mod_idemp_r by exact M32_nz.
    rewrite prime_inv, N.mul_1_r.
    symmetry; apply N.mod_small; exact Hx. }
  rewrite (E a Ha), (E b Hb), H. reflexivity.
Qed.

Lemma lt_M32_log2 a : a < M32 -> a = 0 \/ N.log2 a < 32.
Proof.
  intros H. destruct (N.eq_dec a 0) as [->|Hz]; [now left|right].
  apply N.log2_lt_pow2; [lia|]. rewrite <- M32_pow. exact H.
Qed.

Lemma lxor_lt a b : a < M32 -> b < M32 -> N.lxor a b < M32.
Proof.
  intros Ha Hb.
  destruct (N.eq_dec (N.lxor a b) 0) as [E|E]; [rewrite E; reflexivity|].
  rewrite M32_pow. apply N.log2_lt_pow2; [lia|].
  pose proof (N.log2_lxor a b) as L.
  destruct (lt_M32_log2 a Ha) as [->|La], (lt_M32_log2 b Hb) as [->|Lb];
    try rewrite N.lxor_0_l in *; try rewrite N.lxor_0_r in *; try contradiction;
    cbn in L; lia.
Qed.

Lemma lxor_cancel_l a b c : N.lxor a b = N.lxor a c -> b = c.
Proof.
  intros H. apply (f_equal (N.lxor a)) in H.
  now rewrite <- !N.lxor_assoc, N.lxor_nilpotent, !N.lxor_0_l in H.
Qed.

Lemma lxor_cancel_r a b c : N.lxor b a = N.lxor c a -> b = c.
Proof. rewrite (N.lxor_comm b a), (N.lxor_comm c a). apply lxor_cancel_l. Qed.

Lemma fnv_step_spec h b : fnv_step h b = (N.lxor h b * fnv_prime) mod M32.
Proof.
  unfold fnv_step. change 4294967295 with (N.ones 32). rewrite N.land_ones. reflexivity.
Qed.

Lemma fnv_step_lt h b : fnv_step h b < M32.
Proof. rewrite fnv_step_spec. apply N.mod_lt. exact M32_nz. Qed.

(* injective in the byte for a fixed state ... *)
Lemma fnv_step_inj_b h b b' :
  h < M32 -> b < M32 -> b' < M32 -> fnv_step h b = fnv_step h b' -> b = b'.
Proof.
  rewrite !fnv_step_spec. intros Hh Hb Hb' E.
  apply mul_prime_inj in E; try (apply lxor_lt; assumption).
  eapply lxor_cancel_l; exact E.
Qed.

(* ... and in the state for a fixed byte *)
Lemma fnv_step_inj_h h h' b :
  h < M32 -> h' < M32 -> b < M32 -> fnv_step h b = fnv_step h' b -> h = h'.
Proof.
  rewrite !fnv_step_spec. intros Hh Hh' Hb E.
  apply mul_prime_inj in E; try (apply lxor_lt; assumption).
  eapply lxor_cancel_r; exact E.
Qed.

Lemma fnv_fold_lt l h : h < M32 -> fold_left fnv_step l h < M32.
Proof.
  revert h; induction l as [|x l IH]; intros h H; cbn; [exact H|].
  apply IH, fnv_step_lt.
Qed.

Lemma fnv1a_lt l : fnv1a l < M32.
Proof. apply fnv_fold_lt. reflexivity. Qed.

Lemma byte_lt_M32 b : isbyte b -> b < M32.
Proof. unfold isbyte, M32; lia. Qed.

Lemma fnv_fold_inj l h h' :
  bytes l -> h < M32 -> h' < M32 -> h <> h' ->
  fold_left fnv_step l h <> fold_left fnv_step l h'.
Proof.
  revert h h'; induction l as [|x l IH]; intros h h' Hl Hh Hh' Hne; cbn; [exact Hne|].
  inversion Hl as [|? ? Hx Hl']; subst.
  apply IH.
  - exact Hl'.
  - apply fnv_step_lt.
  - apply fnv_step_lt.
  - intros E. apply Hne. apply (fnv_step_inj_h h h' x); auto using byte_lt_M32.
Qed.

Lemma fnv_fold_upd_neq l i b' h :
  bytes l -> h < M32 -> isbyte b' -> (i < length l)%nat -> nth i l 0 <> b' ->
  fold_left fnv_step (upd i b' l) h <> fold_left fnv_step l h.
Proof.
  revert i h; induction l as [|x l IH]; intros i h Hl Hh Hb Hi Hne; cbn in Hi; [lia|].
  inversion Hl as [|? ? Hx Hl']; subst.
  destruct i as [|i]; cbn [upd fold_left nth] in *.
  - apply fnv_fold_inj.
    + exact Hl'.
    + apply fnv_step_lt.
    + apply fnv_step_lt.
    + intros E. apply Hne. symmetry. apply (fnv_step_inj_b h b' x); auto using byte_lt_M32.
  - apply IH.
    + exact Hl'.
    + apply fnv_step_lt.
    + exact Hb.
    + lia.
    + exact Hne.
Qed.

(* ---------- the record format ---------- *)

Lemma encode_length p s : length (encode_value p s) = (length p + 12)%nat.
Proof. unfold encode_value. rewrite !app_length, be32_length. unfold le64. rewrite le_n_length. lia. Qed.

Lemma encode_bytes p s : bytes p -> bytes (encode_value p s).
Proof.
  intros H. unfold encode_value. apply bytes_app; [apply bytes_app; [exact H|apply le_n_bytes]|apply be32_bytes].
Qed.

Lemma decode_of_parts body tr :
  length tr = 4%nat -> (8 <= length body)%nat ->
  decode_value (body ++ tr) =
    if N.eqb (fnv1a body) (be32dec tr)
    then DecOk (firstn (length body - 8) body) (le_decode (skipn (length body - 8) body))
    else DecCorrupt.
Proof.
  intros Ht Hb. unfold decode_value.
  rewrite app_length, Ht.
  destruct (Nat.ltb_spec (length body + 4) 12) as [L|L]; [lia|].
  replace (length body + 4 - 4)%nat with (length body) by lia.
  rewrite firstn_length_app, skipn_length_app.
  destruct (N.eqb _ _); [|reflexivity].
  f_equal.
  - replace (length body + 4 - 12)%nat with (length body - 8)%nat by lia.
    rewrite firstn_app. replace (length body - 8 - length body)%nat with 0%nat by lia.
    cbn. now rewrite app_nil_r.
  - replace (length body + 4 - 12)%nat with (length body - 8)%nat by lia. reflexivity.
Qed.

Lemma decode_encode p s : s < M64 -> decode_value (encode_value p s) = DecOk p s.
Proof.
  intros Hs. unfold encode_value.
  assert (L : (length (p ++ le64 s) - 8 = length p)%nat).
  { rewrite app_length. unfold le64. rewrite le_n_length. lia. }
  rewrite decode_of_parts.
  - rewrite be32dec_be32 by apply fnv1a_lt. rewrite N.eqb_refl.
    rewrite L, firstn_length_app, skipn_length_app, le64_dec by exact Hs. reflexivity.
  - reflexivity.
  - rewrite app_length. unfold le64. rewrite le_n_length. lia.
Qed.

Lemma short_rejected v : (length v < 12)%nat -> decode_value v = DecTruncated.
Proof.
  intros H. unfold decode_value. destruct (Nat.ltb_spec (length v) 12); [reflexivity|lia].
Qed.

Lemma be32dec_upd_neq a b c d j b' :
  isbyte a -> isbyte b -> isbyte c -> isbyte d -> isbyte b' -> (j < 4)%nat ->
  nth j [a; b; c; d] 0 <> b' ->
  be32dec (upd j b' [a; b; c; d]) <> be32dec [a; b; c; d].
Proof.
  unfold isbyte. intros Ha Hb Hc Hd Hb' Hj Hne.
  destruct j as [|[|[|[|j]]]]; cbn [upd be32dec nth] in *; lia.
Qed.

Lemma single_byte_damage p s i b' :
  bytes p -> isbyte b' -> (i < length (encode_value p s))%nat ->
  nth i (encode_value p s) 0 <> b' ->
  decode_value (upd i b' (encode_value p s)) = DecCorrupt.
Proof.
  intros Hp Hb' Hi Hne. unfold encode_value in *.
  set (body := p ++ le64 s) in *.
  assert (Hbody : bytes body) by (apply bytes_app; [exact Hp|apply le_n_bytes]).
  assert (Hlen : (8 <= length body)%nat).
  { unfold body. rewrite app_length. unfold le64. rewrite le_n_length. lia. }
  rewrite app_length, be32_length in Hi.
  destruct (Nat.lt_ge_cases i (length body)) as [L|L].
  - rewrite upd_app_l by exact L.
    rewrite nth_app_l in Hne by exact L.
    rewrite decode_of_parts; [|reflexivity|rewrite upd_length; exact Hlen].
    rewrite be32dec_be32 by apply fnv1a_lt.
    destruct (N.eqb_spec (fnv1a (upd i b' body)) (fnv1a body)) as [E|E]; [|reflexivity].
    exfalso. revert E. apply fnv_fold_upd_neq; auto. reflexivity.
  - rewrite upd_app_r by exact L.
    rewrite nth_app_r in Hne by exact L.
    rewrite decode_of_parts; [|rewrite upd_length; reflexivity|exact Hlen].
    destruct (N.eqb_spec (fnv1a body) (be32dec (upd (i - length body) b' (be32 (fnv1a body))))) as [E|E];
      [|reflexivity].
    exfalso. rewrite <- (be32dec_be32 (fnv1a body)) in E at 1 by apply fnv1a_lt.
    symmetry in E. revert E. unfold be32 in *.
    apply be32dec_upd_neq; try exact Hb'; try lia; try exact Hne; unfold isbyte; lia.
Qed.
