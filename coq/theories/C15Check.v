(* C15: executable case checker used by the correspondence run. *)
From MQ Require Export Bytes Record.

(* what the implementation's decodeValue reported: value+sequence, or some error *)
Inductive obs_dec :=
| ObsOk (p : list N) (seq : N)
| ObsErr.

Inductive c15case :=
(* impl: encodeValue(p, seq) = enc *)
| EncCase (p : list N) (seq : N) (enc : list N)
(* impl: decodeValue(v) = r, v arbitrary bytes *)
| DecCase (v : list N) (r : obs_dec)
(* impl: decodeValue(damage i b' (encodeValue(p, seq))) = r ; b' differs from the original byte *)
| DamCase (p : list N) (seq : N) (i : nat) (b' : N) (r : obs_dec)
(* impl: decodeValue(first n bytes of encodeValue(p, seq)) = r *)
| TruncCase (p : list N) (seq : N) (n : nat) (r : obs_dec)
(* impl: decodeValue(encodeValue(p,seq)) = r *)
| RtCase (p : list N) (seq : N) (r : obs_dec).

Definition obs_of (d : dec_result) : obs_dec :=
  match d with DecOk p s => ObsOk p s | _ => ObsErr end.

Definition obs_eqb (a b : obs_dec) : bool :=
  match a, b with
  | ObsOk p s, ObsOk p' s' => list_eqb p p' && N.eqb s s'
  | ObsErr, ObsErr => true
  | _, _ => false
  end.

(* model prediction equals the observation *)
Definition c15_agree (c : c15case) : bool :=
  match c with
  | EncCase p s enc => list_eqb (encode_value p s) enc
  | DecCase v r => obs_eqb (obs_of (decode_value v)) r
  | DamCase p s i b' r => obs_eqb (obs_of (decode_value (upd i b' (encode_value p s)))) r
  | TruncCase p s n r => obs_eqb (obs_of (decode_value (firstn n (encode_value p s)))) r
  | RtCase p s r => obs_eqb (obs_of (decode_value (encode_value p s))) r
  end.

(* the property, judged on the observation alone (independent layout spec) *)
Definition c15_ok (c : c15case) : bool :=
  match c with
  | EncCase p s enc =>
      let body := p ++ le64 s in list_eqb enc (body ++ be32 (fnv1a body))
  | DecCase v r =>
      (* a value shorter than 12 bytes must be refused *)
      if Nat.ltb (length v) 12 then obs_eqb r ObsErr else true
  | DamCase p s i b' r =>
      if Nat.ltb i (length p + 12) && negb (N.eqb (nth i (encode_value p s) 0) b')
      then obs_eqb r ObsErr else true
  | TruncCase p s n r =>
      if Nat.ltb n (length p + 12) then
        (* never the original content under a shorter value; shorter than 12: refused *)
        if Nat.ltb n 12 then obs_eqb r ObsErr
        else match r with ObsOk p' _ => negb (list_eqb p' p) | ObsErr => true end
      else true
  | RtCase p s r => obs_eqb r (ObsOk p s)
  end.

Fixpoint idx_filter {A} (f : A -> bool) (l : list A) (i : N) : list N :=
  match l with
  | [] => []
  | x :: r => if f x then idx_filter f r (i + 1) else i :: idx_filter f r (i + 1)
  end.

(* (indices where model and implementation disagree,
    indices where the property fails on the observation,
    (index, finding number) for failures that match a recorded finding) *)
Definition c15_run (l : list c15case) : list N * list N * list (N * N) :=
  (idx_filter c15_agree l 0, idx_filter c15_ok l 0, []).
