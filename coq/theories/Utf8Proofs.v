(* Proofs about UTF-8 validation and the string checks (C09, pure part). *)
From MQ Require Import Bytes Utf8.
From Coq Require Import ZArith ZifyN ZifyNat ZifyBool.
Ltac Zify.zify_post_hook ::= Z.div_mod_to_equations.

(* ---------- byte classes as arithmetic ---------- *)

Lemma u_ascii_true b : u_ascii b = true <-> b < 128.
Proof. unfold u_ascii. lia. Qed.
Lemma u_ascii_false b : u_ascii b = false <-> 128 <= b.
Proof. unfold u_ascii. lia. Qed.
Lemma u_cont_true b : u_cont b = true <-> 128 <= b <= 191.
Proof. unfold u_cont. lia. Qed.
Lemma u_lead2_true b : u_lead2 b = true <-> 194 <= b <= 223.
Proof. unfold u_lead2. lia. Qed.
Lemma u_lead2_false b : u_lead2 b = false <-> b < 194 \/ 223 < b.
Proof. unfold u_lead2. lia. Qed.
Lemma u_lead3_true b : u_lead3 b = true <-> 224 <= b <= 239.
Proof. unfold u_lead3. lia. Qed.
Lemma u_lead3_false b : u_lead3 b = false <-> b < 224 \/ 239 < b.
Proof. unfold u_lead3. lia. Qed.
Lemma u_lead4_true b : u_lead4 b = true <-> 240 <= b <= 244.
Proof. unfold u_lead4. lia. Qed.

(* the accept range of the second byte *)
Lemma u_second_true b0 b1 :
  u_second b0 b1 = true <->
  128 <= b1 <= 191 /\ (b0 = 224 -> 160 <= b1) /\ (b0 = 237 -> b1 <= 159)
  /\ (b0 = 240 -> 144 <= b1) /\ (b0 = 244 -> b1 <= 143).
Proof.
  unfold u_second, u_lo, u_hi.
  destruct (N.eqb_spec b0 224) as [E0|E0];
  destruct (N.eqb_spec b0 240) as [F0|F0];
  destruct (N.eqb_spec b0 237) as [ED|ED];
  destruct (N.eqb_spec b0 244) as [F4|F4]; lia.
Qed.

(* ---------- the encoder, per length class ---------- *)

Lemma utf8_encode_1 cp : cp < 128 -> utf8_encode cp = [cp].
Proof.
  intros H. unfold utf8_encode.
  destruct (N.ltb_spec cp 128) as [L1|L1]; [reflexivity|lia].
Qed.

Lemma utf8_encode_2 cp :
  128 <= cp < 2048 -> utf8_encode cp = [192 + cp / 64; 128 + cp mod 64].
Proof.
  intros H. unfold utf8_encode.
  destruct (N.ltb_spec cp 128) as [L1|L1]; [lia|].
  destruct (N.ltb_spec cp 2048) as [L2|L2]; [reflexivity|lia].
Qed.

Lemma utf8_encode_3 cp :
  2048 <= cp < 65536 ->
  utf8_encode cp = [224 + cp / 4096; 128 + (cp / 64) mod 64; 128 + cp mod 64].
Proof.
  intros H. unfold utf8_encode.
  destruct (N.ltb_spec cp 128) as [L1|L1]; [lia|].
  destruct (N.ltb_spec cp 2048) as [L2|L2]; [lia|].
  destruct (N.ltb_spec cp 65536) as [L3|L3]; [reflexivity|lia].
Qed.

Lemma utf8_encode_4 cp :
  65536 <= cp ->
  utf8_encode cp = [240 + cp / 262144; 128 + (cp / 4096) mod 64;
                    128 + (cp / 64) mod 64; 128 + cp mod 64].
Proof.
  intros H. unfold utf8_encode.
  destruct (N.ltb_spec cp 128) as [L1|L1]; [lia|].
  destruct (N.ltb_spec cp 2048) as [L2|L2]; [lia|].
  destruct (N.ltb_spec cp 65536) as [L3|L3]; [lia|reflexivity].
Qed.

Lemma utf8_encode_nonempty cp : utf8_encode cp <> [].
Proof.
  unfold utf8_encode.
  destruct (cp <? 128); [discriminate|].
  destruct (cp <? 2048); [discriminate|].
  destruct (cp <? 65536); discriminate.
Qed.

Lemma scalarb_spec cp : scalarb cp = true <-> scalar cp.
Proof. unfold scalarb, scalar. lia. Qed.

Lemma utf8_encode_bytes cp : scalar cp -> bytes (utf8_encode cp).
Proof.
  unfold scalar. intros [Hlt Hsur].
  destruct (N.lt_ge_cases cp 128) as [C1|C1].
  { rewrite utf8_encode_1 by exact C1. repeat constructor; unfold isbyte; lia. }
  destruct (N.lt_ge_cases cp 2048) as [C2|C2].
  { rewrite utf8_encode_2 by lia. repeat constructor; unfold isbyte; lia. }
  destruct (N.lt_ge_cases cp 65536) as [C3|C3].
  { rewrite utf8_encode_3 by lia. repeat constructor; unfold isbyte; lia. }
  rewrite utf8_encode_4 by exact C3. repeat constructor; unfold isbyte; lia.
Qed.

(* ---------- one well-formed sequence: decoder against encoder ---------- *)

(* whatever [utf8_step] accepts is the RFC 3629 encoding of a scalar value *)
Lemma utf8_step_sound s cp r :
  utf8_step s = Some (cp, r) -> scalar cp /\ s = utf8_encode cp ++ r.
Proof.
  unfold scalar.
  destruct s as [|b0 r0]; cbn [utf8_step]; [discriminate|].
  destruct (u_ascii b0) eqn:A0.
  { intros H. injection H as Hcp Hr. subst cp r. apply u_ascii_true in A0.
    rewrite utf8_encode_1 by exact A0. split; [lia|reflexivity]. }
  apply u_ascii_false in A0.
  destruct r0 as [|b1 r1]; [discriminate|].
  destruct (u_lead2 b0) eqn:L2.
  { destruct (u_cont b1) eqn:C1; [|discriminate].
    intros H. injection H as Hcp Hr. subst r.
    apply u_lead2_true in L2. apply u_cont_true in C1.
    assert (R : 128 <= cp < 2048) by lia.
    rewrite utf8_encode_2 by exact R. split; [lia|].
    cbn [app]. f_equal; [lia|]. f_equal. lia. }
  apply u_lead2_false in L2.
  destruct r1 as [|b2 r2]; [discriminate|].
  destruct (u_lead3 b0) eqn:L3.
  { destruct (u_second b0 b1) eqn:S1; [|discriminate].
    destruct (u_cont b2) eqn:C2; [|discriminate].
    cbn [andb]. intros H. injection H as Hcp Hr. subst r.
    apply u_lead3_true in L3. apply u_second_true in S1. apply u_cont_true in C2.
    destruct S1 as (S1 & SE0 & SED & _ & _).
    assert (R : 2048 <= cp < 65536) by lia.
    rewrite utf8_encode_3 by exact R. split; [lia|].
    cbn [app]. f_equal; [lia|]. f_equal; [lia|]. f_equal. lia. }
  apply u_lead3_false in L3.
  destruct r2 as [|b3 r3]; [discriminate|].
  destruct (u_lead4 b0) eqn:L4; [|discriminate].
  destruct (u_second b0 b1) eqn:S1; [|discriminate].
  destruct (u_cont b2) eqn:C2; [|discriminate].
  destruct (u_cont b3) eqn:C3; [|discriminate].
  cbn [andb]. intros H. injection H as Hcp Hr. subst r.
  apply u_lead4_true in L4. apply u_second_true in S1.
  apply u_cont_true in C2. apply u_cont_true in C3.
  destruct S1 as (S1 & _ & _ & SF0 & SF4).
  assert (R : 65536 <= cp < 1114112) by lia.
  rewrite utf8_encode_4 by lia. split; [lia|].
  cbn [app]. f_equal; [lia|]. f_equal; [lia|]. f_equal; [lia|]. f_equal. lia.
Qed.

(* and it accepts every such encoding, giving back the code point *)
Lemma utf8_step_complete cp r :
  scalar cp -> utf8_step (utf8_encode cp ++ r) = Some (cp, r).
Proof.
  unfold scalar. intros [Hlt Hsur].
  destruct (N.lt_ge_cases cp 128) as [C1|C1].
  { rewrite utf8_encode_1 by exact C1. cbn [app utf8_step].
    rewrite (proj2 (u_ascii_true cp)) by exact C1. reflexivity. }
  destruct (N.lt_ge_cases cp 2048) as [C2|C2].
  { rewrite utf8_encode_2 by lia. cbn [app utf8_step].
    rewrite (proj2 (u_ascii_false _)) by lia.
    rewrite (proj2 (u_lead2_true _)) by lia.
    rewrite (proj2 (u_cont_true _)) by lia.
    do 2 f_equal. lia. }
  destruct (N.lt_ge_cases cp 65536) as [C3|C3].
  { rewrite utf8_encode_3 by lia. cbn [app utf8_step].
    rewrite (proj2 (u_ascii_false _)) by lia.
    rewrite (proj2 (u_lead2_false _)) by lia.
    rewrite (proj2 (u_lead3_true _)) by lia.
    rewrite (proj2 (u_second_true _ _)) by lia.
    rewrite (proj2 (u_cont_true _)) by lia.
    cbn [andb]. do 2 f_equal. lia. }
  rewrite utf8_encode_4 by lia. cbn [app utf8_step].
  rewrite (proj2 (u_ascii_false _)) by lia.
  rewrite (proj2 (u_lead2_false _)) by lia.
  rewrite (proj2 (u_lead3_false _)) by lia.
  rewrite (proj2 (u_lead4_true _)) by lia.
  rewrite (proj2 (u_second_true _ _)) by lia.
  rewrite (proj2 (u_cont_true _)) by lia.
  rewrite (proj2 (u_cont_true _)) by lia.
  cbn [andb]. do 2 f_equal. lia.
Qed.

(* ---------- the validator is the iteration of [utf8_step] ---------- *)

Lemma utf8_valid_unfold s :
  utf8_valid s =
  match s with
  | [] => true
  | _ :: _ => match utf8_step s with
              | Some (_, r) => utf8_valid r
              | None => false
              end
  end.
Proof.
  destruct s as [|b0 r0]; [reflexivity|].
  cbn [utf8_valid utf8_step].
  destruct (u_ascii b0); [reflexivity|].
  destruct r0 as [|b1 r1]; [reflexivity|].
  destruct (u_lead2 b0).
  { destruct (u_cont b1); reflexivity. }
  destruct r1 as [|b2 r2]; [reflexivity|].
  destruct (u_lead3 b0).
  { destruct (u_second b0 b1 && u_cont b2); reflexivity. }
  destruct r2 as [|b3 r3]; [reflexivity|].
  destruct (u_lead4 b0); [|reflexivity].
  destruct (u_second b0 b1 && u_cont b2 && u_cont b3); reflexivity.
Qed.

Theorem utf8_encode_valid cp rest :
  scalar cp -> utf8_valid (utf8_encode cp ++ rest) = utf8_valid rest.
Proof.
  intros Hcp. rewrite utf8_valid_unfold.
  rewrite (utf8_step_complete cp rest Hcp).
  destruct (utf8_encode cp ++ rest) as [|x l] eqn:E; [|reflexivity].
  apply app_eq_nil in E. destruct E as [E _].
  exfalso. exact (utf8_encode_nonempty cp E).
Qed.

Lemma utf8_valid_encodes cps :
  Forall scalar cps -> utf8_valid (flat_map utf8_encode cps) = true.
Proof.
  induction cps as [|cp cps IH]; intros H; [reflexivity|].
  inversion H as [|? ? Hcp Hcps]; subst.
  cbn [flat_map]. rewrite utf8_encode_valid by exact Hcp. exact (IH Hcps).
Qed.

Lemma utf8_valid_decodes n : forall s,
  (length s <= n)%nat -> utf8_valid s = true ->
  exists cps, Forall scalar cps /\ s = flat_map utf8_encode cps.
Proof.
  induction n as [|n IH]; intros s Hn Hv.
  - destruct s as [|x l]; [|cbn in Hn; lia].
    exists []. split; [constructor|reflexivity].
  - destruct s as [|x l].
    { exists []. split; [constructor|reflexivity]. }
    rewrite utf8_valid_unfold in Hv.
    destruct (utf8_step (x :: l)) as [[cp r]|] eqn:St; [|discriminate].
    apply utf8_step_sound in St. destruct St as [Hcp Hs].
    assert (Hr : (length r <= n)%nat).
    { pose proof (utf8_encode_nonempty cp) as Hne.
      apply (f_equal (@length N)) in Hs. rewrite app_length in Hs.
      destruct (utf8_encode cp) as [|y e]; [contradiction|].
      cbn [length] in Hs, Hn. lia. }
    destruct (IH r Hr Hv) as (cps & Hcps & Er).
    exists (cp :: cps). split; [constructor; assumption|].
    cbn [flat_map]. rewrite <- Er. exact Hs.
Qed.

(* The validator accepts exactly the concatenations of RFC 3629 encodings of
   Unicode scalar values.  No [bytes s] needed: numbers >= 256 are rejected. *)
Theorem utf8_valid_spec s :
  utf8_valid s = true <->
  exists cps, Forall scalar cps /\ s = flat_map utf8_encode cps.
Proof.
  split.
  - intros Hv. exact (utf8_valid_decodes (length s) s (le_n _) Hv).
  - intros (cps & Hcps & Es). subst s. exact (utf8_valid_encodes cps Hcps).
Qed.

Theorem utf8_valid_iff : forall s, bytes s ->
  (utf8_valid s = true <->
   exists cps, Forall scalar cps /\ s = flat_map utf8_encode cps).
Proof. intros s _. exact (utf8_valid_spec s). Qed.

Lemma flat_map_encode_bytes cps :
  Forall scalar cps -> bytes (flat_map utf8_encode cps).
Proof.
  induction cps as [|cp cps IH]; intros H; [constructor|].
  inversion H as [|? ? Hcp Hcps]; subst.
  cbn [flat_map]. unfold bytes. apply Forall_app. split.
  - exact (utf8_encode_bytes cp Hcp).
  - exact (IH Hcps).
Qed.

Theorem utf8_valid_bytes s : utf8_valid s = true -> bytes s.
Proof.
  intros Hv. apply utf8_valid_spec in Hv. destruct Hv as (cps & Hcps & Es).
  subst s. exact (flat_map_encode_bytes cps Hcps).
Qed.

(* ---------- NUL ---------- *)

(* the only encoding containing byte 0 is that of U+0000 *)
Lemma utf8_encode_nul cp : In 0 (utf8_encode cp) <-> cp = 0.
Proof.
  destruct (N.lt_ge_cases cp 128) as [C1|C1].
  { rewrite utf8_encode_1 by exact C1. cbn [In]. split.
    - intros [E|[]]. exact E.
    - intros E. left. exact E. }
  split; [|lia]. intros Hin. exfalso.
  destruct (N.lt_ge_cases cp 2048) as [C2|C2].
  { rewrite utf8_encode_2 in Hin by lia. cbn [In] in Hin.
    destruct Hin as [E|[E|[]]]; lia. }
  destruct (N.lt_ge_cases cp 65536) as [C3|C3].
  { rewrite utf8_encode_3 in Hin by lia. cbn [In] in Hin.
    destruct Hin as [E|[E|[E|[]]]]; lia. }
  rewrite utf8_encode_4 in Hin by lia. cbn [In] in Hin.
  destruct Hin as [E|[E|[E|[E|[]]]]]; lia.
Qed.

Lemma flat_map_encode_nul cps : In 0 (flat_map utf8_encode cps) <-> In 0 cps.
Proof.
  rewrite in_flat_map. split.
  - intros (cp & Hin & H0). apply utf8_encode_nul in H0. subst cp. exact Hin.
  - intros Hin. exists 0. split; [exact Hin|]. apply utf8_encode_nul. reflexivity.
Qed.

Lemma has_nul_true s : has_nul s = true <-> In 0 s.
Proof.
  unfold has_nul. rewrite existsb_exists. split.
  - intros (x & Hin & E). apply N.eqb_eq in E. subst x. exact Hin.
  - intros Hin. exists 0. split; [exact Hin|reflexivity].
Qed.

Lemma has_nul_false s : has_nul s = false <-> ~ In 0 s.
Proof.
  rewrite <- has_nul_true. destruct (has_nul s); split; intros H; congruence.
Qed.

(* ---------- stringCheck ---------- *)

Theorem string_check_string_max s :
  string_check s = Some DenyStringMax <-> 65535 < N.of_nat (length s).
Proof.
  unfold string_check, string_max.
  destruct (N.ltb_spec 65535 (N.of_nat (length s))) as [L|L].
  - split; [intros _; exact L|reflexivity].
  - destruct (utf8_valid s); cbn [negb]; [destruct (has_nul s)|];
      (split; [discriminate|lia]).
Qed.

Theorem string_check_utf8 s :
  string_check s = Some DenyUTF8 <->
  N.of_nat (length s) <= 65535 /\ utf8_valid s = false.
Proof.
  unfold string_check, string_max.
  destruct (N.ltb_spec 65535 (N.of_nat (length s))) as [L|L].
  - split; [discriminate|lia].
  - destruct (utf8_valid s); cbn [negb].
    + destruct (has_nul s); (split; [discriminate|intros [_ H]; discriminate]).
    + split; [intros _; split; [exact L|reflexivity]|reflexivity].
Qed.

Theorem string_check_null s :
  string_check s = Some DenyNull <->
  N.of_nat (length s) <= 65535 /\ utf8_valid s = true /\ In 0 s.
Proof.
  rewrite <- has_nul_true.
  unfold string_check, string_max.
  destruct (N.ltb_spec 65535 (N.of_nat (length s))) as [L|L].
  - split; [discriminate|lia].
  - destruct (utf8_valid s); cbn [negb].
    + destruct (has_nul s).
      * split; [intros _; auto|reflexivity].
      * split; [discriminate|intros (_ & _ & H); discriminate].
    + split; [discriminate|intros (_ & H & _); discriminate].
Qed.

Theorem string_check_none s :
  string_check s = None <->
  N.of_nat (length s) <= 65535 /\ utf8_valid s = true /\ ~ In 0 s.
Proof.
  rewrite <- has_nul_false.
  unfold string_check, string_max.
  destruct (N.ltb_spec 65535 (N.of_nat (length s))) as [L|L].
  - split; [discriminate|lia].
  - destruct (utf8_valid s); cbn [negb].
    + destruct (has_nul s).
      * split; [discriminate|intros (_ & _ & H); discriminate].
      * split; [intros _; auto|reflexivity].
    + split; [discriminate|intros (_ & H & _); discriminate].
Qed.

(* stringCheck has exactly these four outcomes *)
Theorem string_check_cases s :
  string_check s = None \/ string_check s = Some DenyStringMax \/
  string_check s = Some DenyUTF8 \/ string_check s = Some DenyNull.
Proof.
  unfold string_check.
  destruct (string_max <? N.of_nat (length s)); [auto|].
  destruct (negb (utf8_valid s)); [auto|].
  destruct (has_nul s); auto.
Qed.

Theorem string_check_spec s :
  string_check s = None <->
  N.of_nat (length s) <= 65535 /\
  (exists cps, Forall scalar cps /\ ~ In 0 cps /\ s = flat_map utf8_encode cps).
Proof.
  rewrite string_check_none. split.
  - intros (Hlen & Hv & Hnul). split; [exact Hlen|].
    apply utf8_valid_spec in Hv. destruct Hv as (cps & Hcps & Es).
    exists cps. split; [exact Hcps|]. split; [|exact Es].
    intros Hin. apply Hnul. subst s. apply flat_map_encode_nul. exact Hin.
  - intros (Hlen & cps & Hcps & Hnul & Es). split; [exact Hlen|]. split.
    + apply utf8_valid_spec. exists cps. split; assumption.
    + intros Hin. apply Hnul. subst s. apply flat_map_encode_nul. exact Hin.
Qed.

Theorem string_check_iff : forall s, bytes s ->
  (string_check s = None <->
   N.of_nat (length s) <= 65535 /\
   (exists cps, Forall scalar cps /\ ~ In 0 cps /\ s = flat_map utf8_encode cps)).
Proof. intros s _. exact (string_check_spec s). Qed.

(* the UTF-8 reason in terms of the specification *)
Theorem string_check_utf8_iff : forall s, bytes s ->
  (string_check s = Some DenyUTF8 <->
   N.of_nat (length s) <= 65535 /\
   ~ (exists cps, Forall scalar cps /\ s = flat_map utf8_encode cps)).
Proof.
  intros s _. rewrite string_check_utf8, <- utf8_valid_spec.
  destruct (utf8_valid s); split; intros [Hl H]; split; try exact Hl; congruence.
Qed.

(* the NUL reason in terms of the specification *)
Theorem string_check_null_iff : forall s, bytes s ->
  (string_check s = Some DenyNull <->
   N.of_nat (length s) <= 65535 /\
   (exists cps, Forall scalar cps /\ In 0 cps /\ s = flat_map utf8_encode cps)).
Proof.
  intros s _. rewrite string_check_null. split.
  - intros (Hlen & Hv & Hnul). split; [exact Hlen|].
    apply utf8_valid_spec in Hv. destruct Hv as (cps & Hcps & Es).
    exists cps. split; [exact Hcps|]. split; [|exact Es].
    subst s. apply flat_map_encode_nul. exact Hnul.
  - intros (Hlen & cps & Hcps & Hnul & Es). split; [exact Hlen|]. split.
    + apply utf8_valid_spec. exists cps. split; assumption.
    + subst s. apply flat_map_encode_nul. exact Hnul.
Qed.

(* ---------- topicCheck ---------- *)

Theorem topic_check_zero s : topic_check s = Some DenyZero <-> s = [].
Proof.
  destruct s as [|x l]; cbn [topic_check].
  - split; reflexivity.
  - split; [|discriminate]. intros H.
    destruct (string_check_cases (x :: l)) as [E|[E|[E|E]]];
      rewrite E in H; discriminate.
Qed.

Theorem topic_check_nonempty s : s <> [] -> topic_check s = string_check s.
Proof. destruct s as [|x l]; [contradiction|reflexivity]. Qed.

Theorem topic_check_spec s :
  topic_check s = None <->
  s <> [] /\ N.of_nat (length s) <= 65535 /\
  (exists cps, Forall scalar cps /\ ~ In 0 cps /\ s = flat_map utf8_encode cps).
Proof.
  rewrite <- string_check_spec.
  destruct s as [|x l]; cbn [topic_check].
  - split; [discriminate|intros [H _]; contradiction].
  - split; [intros H; split; [discriminate|exact H]|intros [_ H]; exact H].
Qed.

Theorem topic_check_iff : forall s, bytes s ->
  (topic_check s = None <->
   s <> [] /\ N.of_nat (length s) <= 65535 /\
   (exists cps, Forall scalar cps /\ ~ In 0 cps /\ s = flat_map utf8_encode cps)).
Proof. intros s _. exact (topic_check_spec s). Qed.

(* ---------- examples, one per class ---------- *)

Example utf8_ex_1byte : utf8_valid [0x24] = true.                       (* U+0024 *)
Proof. vm_compute. reflexivity. Qed.
Example utf8_ex_2byte : utf8_valid [0xC2; 0xA2] = true.                 (* U+00A2 *)
Proof. vm_compute. reflexivity. Qed.
Example utf8_ex_3byte : utf8_valid [0xE2; 0x82; 0xAC] = true.           (* U+20AC *)
Proof. vm_compute. reflexivity. Qed.
Example utf8_ex_4byte : utf8_valid [0xF0; 0x9F; 0x98; 0x80] = true.     (* U+1F600 *)
Proof. vm_compute. reflexivity. Qed.
Example utf8_ex_max : utf8_valid [0xF4; 0x8F; 0xBF; 0xBF] = true.       (* U+10FFFF *)
Proof. vm_compute. reflexivity. Qed.
Example utf8_ex_mixed :
  utf8_valid [0x24; 0xC2; 0xA2; 0xE2; 0x82; 0xAC; 0xF0; 0x9F; 0x98; 0x80; 0x00] = true.
Proof. vm_compute. reflexivity. Qed.
Example utf8_ex_ed_9f : utf8_valid [0xED; 0x9F; 0xBF] = true.           (* U+D7FF *)
Proof. vm_compute. reflexivity. Qed.
Example utf8_ex_surrogate : utf8_valid [0xED; 0xA0; 0x80] = false.      (* U+D800 *)
Proof. vm_compute. reflexivity. Qed.
Example utf8_ex_overlong2 : utf8_valid [0xC0; 0x80] = false.
Proof. vm_compute. reflexivity. Qed.
Example utf8_ex_overlong2' : utf8_valid [0xC1; 0xBF] = false.
Proof. vm_compute. reflexivity. Qed.
Example utf8_ex_overlong3 : utf8_valid [0xE0; 0x80; 0x80] = false.
Proof. vm_compute. reflexivity. Qed.
Example utf8_ex_overlong3' : utf8_valid [0xE0; 0x9F; 0xBF] = false.
Proof. vm_compute. reflexivity. Qed.
Example utf8_ex_overlong4 : utf8_valid [0xF0; 0x80; 0x80; 0x80] = false.
Proof. vm_compute. reflexivity. Qed.
Example utf8_ex_overlong4' : utf8_valid [0xF0; 0x8F; 0xBF; 0xBF] = false.
Proof. vm_compute. reflexivity. Qed.
Example utf8_ex_above_max : utf8_valid [0xF4; 0x90; 0x80; 0x80] = false. (* U+110000 *)
Proof. vm_compute. reflexivity. Qed.
Example utf8_ex_f5 : utf8_valid [0xF5; 0x80; 0x80; 0x80] = false.
Proof. vm_compute. reflexivity. Qed.
Example utf8_ex_truncated2 : utf8_valid [0x41; 0xC2] = false.
Proof. vm_compute. reflexivity. Qed.
Example utf8_ex_truncated3 : utf8_valid [0xE2; 0x82] = false.
Proof. vm_compute. reflexivity. Qed.
Example utf8_ex_truncated4 : utf8_valid [0xF0; 0x9F; 0x98] = false.
Proof. vm_compute. reflexivity. Qed.
Example utf8_ex_stray_cont : utf8_valid [0x80] = false.
Proof. vm_compute. reflexivity. Qed.
Example utf8_ex_bad_cont : utf8_valid [0xE2; 0x82; 0x41] = false.
Proof. vm_compute. reflexivity. Qed.
Example utf8_ex_not_byte : utf8_valid [0x141] = false.
Proof. vm_compute. reflexivity. Qed.

Example utf8_ex_encode :
  flat_map utf8_encode [0x24; 0xA2; 0x20AC; 0x1F600; 0x10FFFF; 0xD7FF; 0xE000] =
  [0x24; 0xC2; 0xA2; 0xE2; 0x82; 0xAC; 0xF0; 0x9F; 0x98; 0x80;
   0xF4; 0x8F; 0xBF; 0xBF; 0xED; 0x9F; 0xBF; 0xEE; 0x80; 0x80].
Proof. vm_compute. reflexivity. Qed.

Example string_check_ex_ok : string_check [0x61; 0x2F; 0xC3; 0xA9] = None.
Proof. vm_compute. reflexivity. Qed.
Example string_check_ex_empty : string_check [] = None.
Proof. vm_compute. reflexivity. Qed.
Example string_check_ex_utf8 : string_check [0x61; 0xFF] = Some DenyUTF8.
Proof. vm_compute. reflexivity. Qed.
Example string_check_ex_null : string_check [0x61; 0x00; 0x62] = Some DenyNull.
Proof. vm_compute. reflexivity. Qed.
(* order of the checks: UTF-8 before NUL, length before both *)
Example string_check_ex_utf8_first : string_check [0x00; 0xFF] = Some DenyUTF8.
Proof. vm_compute. reflexivity. Qed.
Example string_check_ex_max_ok : string_check (rep (N.to_nat 65535) 0x61) = None.
Proof. vm_compute. reflexivity. Qed.
Example string_check_ex_max : string_check (rep (N.to_nat 65536) 0x61) = Some DenyStringMax.
Proof. vm_compute. reflexivity. Qed.
Example string_check_ex_max_first :
  string_check (0x00 :: 0xFF :: rep (N.to_nat 65534) 0x61) = Some DenyStringMax.
Proof. vm_compute. reflexivity. Qed.
Example topic_check_ex_zero : topic_check [] = Some DenyZero.
Proof. vm_compute. reflexivity. Qed.
Example topic_check_ex_ok : topic_check [0x61] = None.
Proof. vm_compute. reflexivity. Qed.
Example topic_check_ex_null : topic_check [0x00] = Some DenyNull.
Proof. vm_compute. reflexivity. Qed.
