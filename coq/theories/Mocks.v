(* L4: the doubles of /repo/mqtttest/mqtttest.go as pure functions.
   Definitions only (executable); proofs are in MocksProofs.v.

   Abstractions:
   - messages, topics and topic filters are byte strings (Go string = its bytes);
   - an error value is its class (which sentinel it is / wraps), never its text;
   - a quit channel is one bit: closed or not (a nil channel counts as not closed);
   - the testing.TB is the list of failures recorded per invocation, plus the
     failures recorded by the registered Cleanup function;
   - t.Fatalf ends the calling goroutine (runtime.Goexit): the rest of the
     invocation sequence of that goroutine does not happen, Cleanup still runs;
   - time is absent: an ExchangeBlock with a delay only postpones. *)
From MQ Require Export Bytes.

Definition bstr := list N.
Definition bstr_dec : forall a b : bstr, {a = b} + {a <> b} := list_eq_dec N.eq_dec.

(* Classes of error values, as the harness projects them:
   nil; errors.Is(mqtt.ErrCanceled); == mqtt.ErrClosed; wraps mqtt.ErrClosed;
   errors.As ExchangeBlock with Delay = 0 / Delay > 0; one of the caller's own
   plain errors (numbered); any other non-nil error (made by the double itself). *)
Inductive errclass :=
| CNil | CCanceled | CClosed | CWrapClosed | CBlockIndef | CBlockDelay
| COther (tag : N) | CUnknown.

Definition errclass_dec : forall a b : errclass, {a = b} + {a <> b}.
Proof. decide equality. apply N.eq_dec. Defined.
Definition errclass_eqb (a b : errclass) : bool := if errclass_dec a b then true else false.

(* What a recording testing.TB sees. *)
Inductive failure :=
| FUnwanted                 (* surplus invocation *)
| FMismatch                 (* publish mock: message or topic differs *)
| FWrong (l : list bstr)    (* (un)subscribe mock: filters of the call that were not (or no longer) wanted, call order *)
| FMiss (l : list bstr)     (* (un)subscribe mock: wanted filters the call did not have (a set; order free) *)
| FMissing (n : N)          (* Cleanup: "want n more" *)
| FFatal                    (* Fatalf: invocation without topic filters *)
| FOther.                   (* a report the harness cannot classify; the model never produces it *)

Inductive outcome :=
| ORet (e : errclass)       (* the invocation returned this error *)
| OFatal                    (* the invocation ended in t.Fatalf; its goroutine is gone *)
| OPanic.                   (* the invocation panicked *)

Record callres := mkres { cr_out : outcome; cr_fails : list failure }.

Definition two64 : N := 18446744073709551616.

(* The Cleanup function shared by all three mocks:
   n := uint64(len(want)) - wantIndex; if n > 0 { t.Errorf("want %d more ...") }
   (unsigned: it also fires, with a wrapped-around n, after surplus invocations). *)
Definition cleanup (nwant idx : nat) : list failure :=
  let n := (two64 + N.of_nat nwant - (N.of_nat idx) mod two64) mod two64 in
  if n =? 0 then [] else [FMissing n].

(* A sequence of invocations made by one goroutine against a mock with the
   expectation counter at idx.  Fatalf (and a panic) end the sequence. *)
Fixpoint run_calls {C : Type} (step : nat -> C -> callres * nat) (idx : nat) (calls : list C)
  : list callres * nat :=
  match calls with
  | [] => ([], idx)
  | c :: r =>
      let '(res, idx') := step idx c in
      match cr_out res with
      | ORet _ => let '(rs, fin) := run_calls step idx' r in (res :: rs, fin)
      | _ => ([res], idx')
      end
  end.

(* ---- NewPublishMock ---- *)

Record transfer := mkT { t_msg : bstr; t_topic : bstr; t_err : errclass }.
Record pubcall := mkPC { pc_quit : bool; pc_msg : bstr; pc_topic : bstr }.

Definition pub_step (want : list transfer) (idx : nat) (c : pubcall) : callres * nat :=
  if pc_quit c then (mkres (ORet CCanceled) [], idx)      (* before an expectation is consumed *)
  else match nth_error want idx with
       | None => (mkres (ORet CNil) [FUnwanted], S idx)
       | Some t =>
           (mkres (ORet (t_err t))
                  (if negb (list_eqb (pc_msg c) (t_msg t)) || negb (list_eqb (pc_topic c) (t_topic t))
                   then [FMismatch] else []),
            S idx)
       end.

Definition pub_mock (want : list transfer) (calls : list pubcall) : list callres * list failure :=
  let '(rs, idx) := run_calls (pub_step want) 0 calls in (rs, cleanup (length want) idx).

(* ---- NewSubscribeMock / NewUnsubscribeMock (one function, the name only shows in texts) ---- *)

Record filterexp := mkF { f_topics : list bstr; f_err : errclass }.
Record subcall := mkSC { sc_quit : bool; sc_filters : list bstr }.

(* todo is the key set of the map; per filter of the call, in order:
   present -> delete, else -> wrong.  Result: (what is left of todo, wrong). *)
Fixpoint sub_cmp (todo : list bstr) (fs : list bstr) : list bstr * list bstr :=
  match fs with
  | [] => (todo, [])
  | f :: r =>
      if in_dec bstr_dec f todo then sub_cmp (remove bstr_dec f todo) r
      else let '(t, w) := sub_cmp todo r in (t, f :: w)
  end.

Definition sub_fails (topics : list bstr) (fs : list bstr) : list failure :=
  let '(miss, wrong) := sub_cmp (nodup bstr_dec topics) fs in
  (match wrong with [] => [] | _ => [FWrong wrong] end) ++
  (match miss with [] => [] | _ => [FMiss miss] end).

Definition sub_step (want : list filterexp) (idx : nat) (c : subcall) : callres * nat :=
  match sc_filters c with
  | [] => (mkres OFatal [FFatal], idx)                    (* before the quit check *)
  | _ :: _ =>
      if sc_quit c then (mkres (ORet CCanceled) [], idx)
      else match nth_error want idx with
           | None => (mkres (ORet CNil) [FUnwanted], S idx)
           | Some f => (mkres (ORet (f_err f)) (sub_fails (f_topics f) (sc_filters c)), S idx)
           end
  end.

Definition sub_mock (want : list filterexp) (calls : list subcall) : list callres * list failure :=
  let '(rs, idx) := run_calls (sub_step want) 0 calls in (rs, cleanup (length want) idx).

(* ---- NewReadSlicesStub / NewReadSlicesMock ---- *)

Record rsres := mkRs { rs_msg : bstr; rs_topic : bstr; rs_err : errclass; rs_fails : list failure }.

(* stateless: every invocation returns (copies of) the fixed values *)
Definition rs_stub (fx : transfer) : rsres := mkRs (t_msg fx) (t_topic fx) (t_err fx) [].

Definition rs_step (want : list transfer) (idx : nat) : rsres * nat :=
  match nth_error want idx with
  | None => (mkRs [] [] CUnknown [FUnwanted], S idx)
  | Some t => (rs_stub t, S idx)
  end.

Fixpoint rs_run (want : list transfer) (idx n : nat) : list rsres * nat :=
  match n with
  | O => ([], idx)
  | S n' => let '(r, idx') := rs_step want idx in
            let '(rs, fin) := rs_run want idx' n' in (r :: rs, fin)
  end.

Definition rs_mock (want : list transfer) (ncalls : nat) : list rsres * list failure :=
  let '(rs, idx) := rs_run want 0 ncalls in (rs, cleanup (length want) idx).

(* ---- NewPublishStub, NewSubscribeStub, NewUnsubscribeStub ---- *)

Definition pub_stub (fx : errclass) (quit : bool) : outcome :=
  ORet (if quit then CCanceled else fx).

Definition sub_stub (fx : errclass) (quit : bool) (filters : list bstr) : outcome :=
  match filters with
  | [] => OPanic                                           (* documented panic, before the quit check *)
  | _ :: _ => ORet (if quit then CCanceled else fx)
  end.

(* ---- NewPublishExchangeStub ---- *)

(* A script entry is an error value; its class decides how it is treated. *)
Inductive entry_kind := KNil | KErr | KClosed | KBlockIndef | KBlockDelay.

Definition kind_of (e : errclass) : entry_kind :=
  match e with
  | CNil => KNil
  | CClosed | CWrapClosed => KClosed           (* errors.Is(err, mqtt.ErrClosed) *)
  | CBlockIndef => KBlockIndef                 (* errors.As ExchangeBlock, Delay == 0 *)
  | CBlockDelay => KBlockDelay
  | _ => KErr
  end.

(* the constructor's loop: panics at the first offending entry *)
Fixpoint entries_ok (s : list errclass) : bool :=
  match s with
  | [] => true
  | e :: r =>
      match kind_of e with
      | KNil => false
      | KClosed | KBlockIndef => match r with [] => true | _ :: _ => false end
      | _ => entries_ok r
      end
  end.

Definition script_accepted (errfix : errclass) (s : list errclass) : bool :=
  match errfix, s with
  | CNil, _ => entries_ok s
  | _, [] => true
  | _, _ :: _ => false                         (* "exchangeFix entries with non-nil errFix" *)
  end.

Inductive chan_end := Closed | LeftOpen.

(* the goroutine behind the channel: what is sent, and how it ends *)
Fixpoint exch_go (s : list errclass) : list errclass * chan_end :=
  match s with
  | [] => ([], Closed)
  | e :: r =>
      match kind_of e with
      | KClosed => ([e], LeftOpen)
      | KBlockIndef => ([], LeftOpen)
      | KBlockDelay => exch_go r
      | _ => let '(ev, fin) := exch_go r in (e :: ev, fin)
      end
  end.

Inductive exch_result :=
| ExRejected                                   (* the constructor panicked *)
| ExErr (c : errclass)                         (* nil channel and this error *)
| ExChan (events : list errclass) (fin : chan_end).

Definition exch_stub (errfix : errclass) (s : list errclass) : exch_result :=
  if script_accepted errfix s then
    match errfix with
    | CNil => let '(ev, fin) := exch_go s in ExChan ev fin
    | c => ExErr c
    end
  else ExRejected.
