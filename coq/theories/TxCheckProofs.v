(* C17: the model side of runner C17TX meets the judgement tx_ok, for every table of pending
   identifiers and every counter — so a case on which the implementation agrees with the model
   (tx_agree) and yet fails tx_ok cannot exist, and a tx_ok failure is a disagreement with a
   model that provably satisfies the property clause. *)
From RecordUpdate Require Import RecordUpdate.
From Coq Require Import Lia ZifyN ZifyNat ZifyBool.
From MQ Require Import Session TxIds TxCheck.

Lemma tx_client_pids pending n : pids (tx_client pending n) = pending.
Proof.
  unfold pids, tx_client. cbn. rewrite map_map. cbn. apply map_id.
Qed.
Lemma tx_client_len pending n : length (k_txs (tx_client pending n)) = length pending.
Proof. unfold tx_client. cbn. apply map_length. Qed.

Lemma in_un_space_range pid space :
  un_space space -> in_un_space pid space -> pid < 65536 ->
  if N.eqb space sub_space then 24576 <= pid < 32768 else 16384 <= pid < 24576.
Proof.
  intros S I L. unfold in_un_space in I. rewrite land_un_mask in I.
  assert (M : pid mod 8192 < 8192) by (apply N.mod_lt; discriminate).
  assert (D : pid = 8192 * (pid / 8192) + pid mod 8192) by (apply N.div_mod; discriminate).
  destruct S as [-> | ->]; cbn [N.eqb]; unfold sub_space, unsub_space in *; cbn; lia.
Qed.

Theorem tx_model_meets_tx_ok pending n sub :
  let '(pid, next, errmax) := tx_model pending n sub in
  tx_ok (TxCase pending n sub pid next errmax) = true.
Proof.
  unfold tx_model. rewrite tx_client_len.
  destruct (511 <? N.of_nat (length pending)) eqn:F.
  - cbn. rewrite F. reflexivity.
  - destruct (tx_pick 1024 (tx_client pending n) (if sub then sub_space else unsub_space)) as [c' pid] eqn:P.
    assert (S : un_space (if sub then sub_space else unsub_space)) by (destruct sub; [left|right]; reflexivity).
    apply tx_pick_1024 in P; [|exact S|rewrite tx_client_len; lia].
    destruct P as (NI & NZ & LT & SP & _). rewrite tx_client_pids in NI.
    pose proof (in_un_space_range _ _ S SP LT) as R.
    cbn [tx_ok]. rewrite F. cbn [negb andb].
    assert (E : existsb (N.eqb pid) pending = false).
    { destruct (existsb (N.eqb pid) pending) eqn:X; [|reflexivity].
      apply existsb_exists in X as (x & Hx & Ex). apply N.eqb_eq in Ex. subst x. contradiction. }
    rewrite E. cbn [negb andb].
    destruct (pid =? 0) eqn:Z; [apply N.eqb_eq in Z; contradiction|]. cbn [negb andb].
    destruct sub; cbn in R; lia.
Qed.
