(* Proofs about the request validation (Requests.v): denied iff invalid in the declarative
   sense, with the reason of the first failing check; every accepted request is emitted as
   a packet the independent parser reads back as exactly the request; a denied request
   leaves no trace in the session model (Session.v). *)
From MQ Require Import Bytes Utf8 Utf8Proofs Packets Spec PacketsProofs Requests.
From Coq Require Import ZArith ZifyN ZifyNat ZifyBool.
Ltac Zify.zify_post_hook ::= Z.div_mod_to_equations.

(* ================================================================== *)
(* 1. The declarative vocabulary                                       *)

(* an MQTT "UTF-8 encoded string": at most 65535 bytes, the concatenation of RFC 3629
   encodings of Unicode scalar values, none of them U+0000 *)
Definition wf_string (s : list N) : Prop :=
  len s <= 65535 /\
  exists cps, Forall scalar cps /\ ~ In 0 cps /\ s = flat_map utf8_encode cps.

(* a topic name or topic filter: such a string of at least one character *)
Definition wf_topic (s : list N) : Prop := s <> [] /\ wf_string s.

(* why a string is not one, in the order the code looks *)
Inductive string_fault : list N -> deny_reason -> Prop :=
| SfMax s : 65535 < len s -> string_fault s DenyStringMax
| SfUTF8 s : len s <= 65535 ->
    ~ (exists cps, Forall scalar cps /\ s = flat_map utf8_encode cps) ->
    string_fault s DenyUTF8
| SfNull s : len s <= 65535 ->
    (exists cps, Forall scalar cps /\ In 0 cps /\ s = flat_map utf8_encode cps) ->
    string_fault s DenyNull.

Inductive topic_fault : list N -> deny_reason -> Prop :=
| TfZero : topic_fault [] DenyZero
| TfString s d : s <> [] -> string_fault s d -> topic_fault s d.

Lemma string_check_wf s : string_check s = None <-> wf_string s.
Proof. exact (string_check_spec s). Qed.

Lemma topic_check_wf s : topic_check s = None <-> wf_topic s.
Proof. exact (topic_check_spec s). Qed.

Lemma string_check_fault s d : string_check s = Some d <-> string_fault s d.
Proof.
  split.
  - intros H.
    destruct (string_check_cases s) as [E|[E|[E|E]]]; rewrite E in H; try discriminate;
      injection H as <-.
    + apply SfMax. apply string_check_string_max. exact E.
    + apply string_check_utf8 in E. destruct E as [L V]. apply SfUTF8; [exact L|].
      intros X. apply utf8_valid_spec in X. congruence.
    + apply string_check_null in E. destruct E as (L & V & I). apply SfNull; [exact L|].
      apply utf8_valid_spec in V. destruct V as (cps & Hc & Es). exists cps.
      split; [exact Hc|]. split; [|exact Es]. subst s. apply flat_map_encode_nul. exact I.
  - intros F. destruct F as [s L|s L X|s L (cps & Hc & I & Es)].
    + apply string_check_string_max. exact L.
    + apply string_check_utf8. split; [exact L|].
      destruct (utf8_valid s) eqn:V; [|reflexivity].
      exfalso. apply X. apply utf8_valid_spec. exact V.
    + apply string_check_null. split; [exact L|]. split.
      * apply utf8_valid_spec. exists cps. split; assumption.
      * subst s. apply flat_map_encode_nul. exact I.
Qed.

Lemma topic_check_fault s d : topic_check s = Some d <-> topic_fault s d.
Proof.
  split.
  - destruct s as [|x l]; cbn [topic_check].
    + intros H. injection H as <-. constructor.
    + intros H. apply TfString; [discriminate|]. apply string_check_fault. exact H.
  - intros F. destruct F as [|s d Hne F]; [reflexivity|].
    rewrite topic_check_nonempty by exact Hne. apply string_check_fault. exact F.
Qed.

(* the two views exclude each other *)
Lemma wf_topic_no_fault s d : wf_topic s -> ~ topic_fault s d.
Proof.
  intros W F. apply topic_check_wf in W. apply topic_check_fault in F. congruence.
Qed.
Lemma wf_string_no_fault s d : wf_string s -> ~ string_fault s d.
Proof.
  intros W F. apply string_check_wf in W. apply string_check_fault in F. congruence.
Qed.

(* the only reasons the string checks give *)
Lemma topic_check_reasons s d :
  topic_check s = Some d ->
  d = DenyZero \/ d = DenyStringMax \/ d = DenyUTF8 \/ d = DenyNull.
Proof.
  intros H. apply topic_check_fault in H. destruct H as [|s d _ F]; [auto|].
  destruct F; auto.
Qed.

(* what "not denied" gives to the round-trip theorems *)
Lemma wf_string_bytes s : wf_string s -> bytes s /\ len s <= 65535.
Proof.
  intros (L & cps & Hc & _ & Es). split; [|exact L].
  subst s. apply flat_map_encode_bytes. exact Hc.
Qed.
Lemma string_check_none_bytes s : string_check s = None -> bytes s /\ len s <= 65535.
Proof.
  intros H. apply string_check_none in H. destruct H as (L & V & _).
  split; [apply utf8_valid_bytes; exact V|exact L].
Qed.
Lemma topic_check_none_bytes s : topic_check s = None -> s <> [] /\ bytes s /\ len s <= 65535.
Proof.
  intros H. destruct s as [|x l]; [discriminate|].
  split; [discriminate|]. apply string_check_none_bytes. exact H.
Qed.

(* ================================================================== *)
(* 2. PUBLISH                                                          *)

Definition publish_valid (topic msg : list N) (space : N) : Prop :=
  wf_topic topic /\ publish_size topic msg space <= 268435455.

Theorem publish_deny_none_iff topic msg space :
  publish_deny topic msg space = None <-> publish_valid topic msg space.
Proof.
  unfold publish_deny, publish_valid, packet_max. rewrite <- topic_check_wf.
  destruct (topic_check topic) as [d|].
  - split; [discriminate|intros [H _]; discriminate].
  - destruct (N.ltb_spec 268435455 (publish_size topic msg space)).
    + split; [discriminate|lia].
    + split; [intros _; split; [reflexivity|assumption]|reflexivity].
Qed.

(* the reason is the first failing check: topic first, then the size *)
Theorem publish_deny_reason topic msg space d :
  publish_deny topic msg space = Some d <->
  topic_fault topic d \/
  (wf_topic topic /\ 268435455 < publish_size topic msg space /\ d = DenyPacketMax).
Proof.
  unfold publish_deny, packet_max. rewrite <- topic_check_wf, <- topic_check_fault.
  destruct (topic_check topic) as [d'|].
  - split; [intros H; left; exact H|]. intros [H|[H _]]; [exact H|discriminate].
  - destruct (N.ltb_spec 268435455 (publish_size topic msg space)).
    + split.
      * intros E. injection E as <-. right. auto.
      * intros [E|(_ & _ & ->)]; [discriminate|reflexivity].
    + split; [discriminate|]. intros [E|(_ & L & _)]; [discriminate|lia].
Qed.

Theorem publish_deny_iff_invalid topic msg space :
  publish_deny topic msg space <> None <-> ~ publish_valid topic msg space.
Proof. rewrite publish_deny_none_iff. reflexivity. Qed.

Theorem publish_no_valid_denied topic msg space :
  publish_valid topic msg space -> publish_deny topic msg space = None.
Proof. apply publish_deny_none_iff. Qed.

(* ================================================================== *)
(* 3. Filter lists                                                     *)

Lemma first_deny_none fs : first_deny fs = None <-> Forall wf_topic fs.
Proof.
  induction fs as [|s r IH]; cbn [first_deny].
  - split; [constructor|reflexivity].
  - destruct (topic_check s) as [d|] eqn:E.
    + split; [discriminate|]. intros H. inversion H as [|? ? W _]; subst.
      apply topic_check_wf in W. congruence.
    + rewrite IH. apply topic_check_wf in E. split.
      * intros H. constructor; assumption.
      * intros H. inversion H; assumption.
Qed.

(* the reason comes from the first filter that is not a topic filter *)
Lemma first_deny_some fs d :
  first_deny fs = Some d <->
  exists pre f post, fs = pre ++ f :: post /\ Forall wf_topic pre /\ topic_fault f d.
Proof.
  induction fs as [|s r IH]; cbn [first_deny].
  - split; [discriminate|]. intros (pre & f & post & E & _). destruct pre; discriminate.
  - destruct (topic_check s) as [d'|] eqn:E.
    + split.
      * intros H. injection H as <-. exists [], s, r. split; [reflexivity|].
        split; [constructor|]. apply topic_check_fault. exact E.
      * intros (pre & f & post & Efs & Hpre & F).
        destruct pre as [|p pre]; cbn [app] in Efs; injection Efs as -> ->.
        -- apply topic_check_fault in F. congruence.
        -- inversion Hpre as [|? ? W _]; subst. apply topic_check_wf in W. congruence.
    + rewrite IH. split.
      * intros (pre & f & post & -> & Hpre & F). exists (s :: pre), f, post.
        split; [reflexivity|]. split; [|exact F].
        constructor; [apply topic_check_wf; exact E|exact Hpre].
      * intros (pre & f & post & Efs & Hpre & F).
        destruct pre as [|p pre]; cbn [app] in Efs; injection Efs as -> ->.
        -- apply topic_check_fault in F. congruence.
        -- inversion Hpre; subst. exists pre, f, post. auto.
Qed.

(* both loops compute the closed form: the order of "size +=" and the check is immaterial *)
Lemma sub_scan_spec fs : forall size,
  sub_scan fs size =
  match first_deny fs with Some d => inl d | None => inr (size + filters_len fs) end.
Proof.
  induction fs as [|s r IH]; intros size; cbn [sub_scan first_deny filters_len].
  - f_equal. lia.
  - destruct (topic_check s); [reflexivity|]. rewrite IH.
    destruct (first_deny r); [reflexivity|]. f_equal. lia.
Qed.

Lemma unsub_scan_spec fs : forall size,
  unsub_scan fs size =
  match first_deny fs with Some d => inl d | None => inr (size + filters_len fs) end.
Proof.
  induction fs as [|s r IH]; intros size; cbn [unsub_scan first_deny filters_len].
  - f_equal. lia.
  - destruct (topic_check s); [reflexivity|]. rewrite IH.
    destruct (first_deny r); [reflexivity|]. f_equal. lia.
Qed.

Lemma subscribe_deny_closed fs :
  subscribe_deny fs =
  match fs with
  | [] => Some DenySubscribeNone
  | _ => match first_deny fs with
         | Some d => Some d
         | None => if packet_max <? subscribe_size fs then Some DenyPacketMax else None
         end
  end.
Proof.
  unfold subscribe_deny. destruct fs as [|s r]; [reflexivity|].
  rewrite sub_scan_spec. destruct (first_deny (s :: r)); [reflexivity|].
  unfold subscribe_size.
  replace (2 + N.of_nat (length (s :: r)) * 3 + filters_len (s :: r))
    with (2 + 3 * N.of_nat (length (s :: r)) + filters_len (s :: r)) by lia.
  reflexivity.
Qed.

Lemma unsubscribe_deny_closed fs :
  unsubscribe_deny fs =
  match fs with
  | [] => Some DenyUnsubscribeNone
  | _ => match first_deny fs with
         | Some d => Some d
         | None => if packet_max <? unsubscribe_size fs then Some DenyPacketMax else None
         end
  end.
Proof.
  unfold unsubscribe_deny. destruct fs as [|s r]; [reflexivity|].
  rewrite unsub_scan_spec. destruct (first_deny (s :: r)); [reflexivity|].
  unfold unsubscribe_size.
  replace (2 + N.of_nat (length (s :: r)) * 2 + filters_len (s :: r))
    with (2 + 2 * N.of_nat (length (s :: r)) + filters_len (s :: r)) by lia.
  reflexivity.
Qed.

(* ================================================================== *)
(* 4. SUBSCRIBE, UNSUBSCRIBE                                           *)

Definition subscribe_valid (fs : list (list N)) : Prop :=
  fs <> [] /\ Forall wf_topic fs /\ subscribe_size fs <= 268435455.
Definition unsubscribe_valid (fs : list (list N)) : Prop :=
  fs <> [] /\ Forall wf_topic fs /\ unsubscribe_size fs <= 268435455.

(* the shared shape of the two proofs *)
Lemma filters_deny_none_iff (fs : list (list N)) (none : deny_reason) (size : N) :
  match fs with
  | [] => Some none
  | _ => match first_deny fs with
         | Some d => Some d
         | None => if packet_max <? size then Some DenyPacketMax else None
         end
  end = None <-> fs <> [] /\ Forall wf_topic fs /\ size <= 268435455.
Proof.
  rewrite <- first_deny_none. unfold packet_max.
  destruct fs as [|s r].
  - split; [discriminate|intros [H _]; contradiction].
  - destruct (first_deny (s :: r)).
    + split; [discriminate|intros (_ & H & _); discriminate].
    + destruct (N.ltb_spec 268435455 size).
      * split; [discriminate|lia].
      * split; [intros _; split; [discriminate|split; [reflexivity|assumption]]|reflexivity].
Qed.

Lemma filters_deny_reason (fs : list (list N)) (none : deny_reason) (size : N) d :
  match fs with
  | [] => Some none
  | _ => match first_deny fs with
         | Some d => Some d
         | None => if packet_max <? size then Some DenyPacketMax else None
         end
  end = Some d <->
  (fs = [] /\ d = none) \/
  (exists pre f post, fs = pre ++ f :: post /\ Forall wf_topic pre /\ topic_fault f d) \/
  (fs <> [] /\ Forall wf_topic fs /\ 268435455 < size /\ d = DenyPacketMax).
Proof.
  rewrite <- first_deny_none, <- first_deny_some. unfold packet_max.
  destruct fs as [|s r].
  - split.
    + intros H. injection H as <-. left. auto.
    + intros [[_ ->]|[H|[H _]]]; [reflexivity|discriminate|contradiction].
  - destruct (first_deny (s :: r)) as [d'|].
    + split; [intros H; right; left; exact H|].
      intros [[H _]|[H|(_ & H & _)]]; [discriminate|exact H|discriminate].
    + destruct (N.ltb_spec 268435455 size).
      * split.
        -- intros E. injection E as <-. right. right.
           split; [discriminate|]. auto.
        -- intros [[E _]|[E|(_ & _ & _ & ->)]]; [discriminate|discriminate|reflexivity].
      * split; [discriminate|].
        intros [[E _]|[E|(_ & _ & L & _)]]; [discriminate|discriminate|lia].
Qed.

Theorem subscribe_deny_none_iff fs : subscribe_deny fs = None <-> subscribe_valid fs.
Proof. rewrite subscribe_deny_closed. apply filters_deny_none_iff. Qed.

(* no filters; else the first filter that is not a topic filter; else the size *)
Theorem subscribe_deny_reason fs d :
  subscribe_deny fs = Some d <->
  (fs = [] /\ d = DenySubscribeNone) \/
  (exists pre f post, fs = pre ++ f :: post /\ Forall wf_topic pre /\ topic_fault f d) \/
  (fs <> [] /\ Forall wf_topic fs /\ 268435455 < subscribe_size fs /\ d = DenyPacketMax).
Proof. rewrite subscribe_deny_closed. apply filters_deny_reason. Qed.

Theorem subscribe_deny_iff_invalid fs : subscribe_deny fs <> None <-> ~ subscribe_valid fs.
Proof. rewrite subscribe_deny_none_iff. reflexivity. Qed.

Theorem subscribe_no_valid_denied fs : subscribe_valid fs -> subscribe_deny fs = None.
Proof. apply subscribe_deny_none_iff. Qed.

Theorem unsubscribe_deny_none_iff fs : unsubscribe_deny fs = None <-> unsubscribe_valid fs.
Proof. rewrite unsubscribe_deny_closed. apply filters_deny_none_iff. Qed.

Theorem unsubscribe_deny_reason fs d :
  unsubscribe_deny fs = Some d <->
  (fs = [] /\ d = DenyUnsubscribeNone) \/
  (exists pre f post, fs = pre ++ f :: post /\ Forall wf_topic pre /\ topic_fault f d) \/
  (fs <> [] /\ Forall wf_topic fs /\ 268435455 < unsubscribe_size fs /\ d = DenyPacketMax).
Proof. rewrite unsubscribe_deny_closed. apply filters_deny_reason. Qed.

Theorem unsubscribe_deny_iff_invalid fs : unsubscribe_deny fs <> None <-> ~ unsubscribe_valid fs.
Proof. rewrite unsubscribe_deny_none_iff. reflexivity. Qed.

Theorem unsubscribe_no_valid_denied fs : unsubscribe_valid fs -> unsubscribe_deny fs = None.
Proof. apply unsubscribe_deny_none_iff. Qed.

(* ================================================================== *)
(* 5. Client identifier and Config                                     *)

Theorem clientid_deny_none_iff cid : clientid_deny cid = None <-> wf_string cid.
Proof. apply string_check_wf. Qed.

Theorem clientid_deny_reason cid d : clientid_deny cid = Some d <-> string_fault cid d.
Proof. apply string_check_fault. Qed.

Definition will_topic_ok (c : config) : Prop :=
  match cf_wmsg c with
  | Some _ => wf_topic (cf_wtopic c)
  | None => wf_string (cf_wtopic c)
  end.
Definition will_topic_fault (c : config) (d : deny_reason) : Prop :=
  match cf_wmsg c with
  | Some _ => topic_fault (cf_wtopic c) d
  | None => string_fault (cf_wtopic c) d
  end.

Definition config_ok (c : config) : Prop :=
  cf_dialer c = true /\ wf_string (cf_user c) /\
  opt_len (cf_pass c) <= 65535 /\ opt_len (cf_wmsg c) <= 65535 /\ will_topic_ok c.

Theorem config_valid_iff c : config_valid c = None <-> config_ok c.
Proof.
  unfold config_valid, config_ok, will_topic_ok, Packets.string_max.
  rewrite <- string_check_wf.
  destruct (cf_dialer c); cbn [negb].
  2:{ split; [discriminate|intros [H _]; discriminate]. }
  destruct (string_check (cf_user c)).
  { split; [discriminate|intros (_ & H & _); discriminate]. }
  destruct (N.ltb_spec 65535 (opt_len (cf_pass c))).
  { split; [discriminate|lia]. }
  destruct (N.ltb_spec 65535 (opt_len (cf_wmsg c))).
  { split; [discriminate|lia]. }
  destruct (cf_wmsg c).
  - rewrite <- topic_check_wf. destruct (topic_check (cf_wtopic c)).
    + split; [discriminate|intros (_ & _ & _ & _ & E); discriminate].
    + split; [auto 6|reflexivity].
  - rewrite <- string_check_wf. destruct (string_check (cf_wtopic c)).
    + split; [discriminate|intros (_ & _ & _ & _ & E); discriminate].
    + split; [auto 6|reflexivity].
Qed.

(* the error is the one of the first failing check, in the order of Config.valid *)
Theorem config_valid_reason c e :
  config_valid c = Some e <->
  (cf_dialer c = false /\ e = CfgNoDialer) \/
  (cf_dialer c = true /\ exists d, string_fault (cf_user c) d /\ e = CfgUserName d) \/
  (cf_dialer c = true /\ wf_string (cf_user c) /\ 65535 < opt_len (cf_pass c) /\ e = CfgPassword) \/
  (cf_dialer c = true /\ wf_string (cf_user c) /\ opt_len (cf_pass c) <= 65535 /\
   65535 < opt_len (cf_wmsg c) /\ e = CfgWillMessage) \/
  (cf_dialer c = true /\ wf_string (cf_user c) /\ opt_len (cf_pass c) <= 65535 /\
   opt_len (cf_wmsg c) <= 65535 /\ exists d, will_topic_fault c d /\ e = CfgWillTopic d).
Proof.
  unfold config_valid, will_topic_fault, Packets.string_max.
  rewrite <- string_check_wf.
  destruct (cf_dialer c); cbn [negb].
  2:{ split.
      - intros H. injection H as <-. left. auto.
      - intros [[_ ->]|[[H _]|[[H _]|[[H _]|[H _]]]]]; [reflexivity|discriminate..]. }
  destruct (string_check (cf_user c)) as [d|] eqn:EU.
  { split.
    - intros H. injection H as <-. right. left. split; [reflexivity|].
      exists d. split; [apply string_check_fault; exact EU|reflexivity].
    - intros [[H _]|[(_ & d' & F & ->)|[(_ & H & _)|[(_ & H & _)|(_ & H & _)]]]];
        try discriminate.
      apply string_check_fault in F. congruence. }
  assert (NU : forall d, ~ string_fault (cf_user c) d).
  { intros d F. apply string_check_fault in F. congruence. }
  destruct (N.ltb_spec 65535 (opt_len (cf_pass c))) as [LP|LP].
  { split.
    - intros H. injection H as <-. right. right. left. auto.
    - intros [[H _]|[(_ & d' & F & _)|[(_ & _ & _ & ->)|[(_ & _ & H & _)|(_ & _ & H & _)]]]];
        [discriminate|exfalso; exact (NU _ F)|reflexivity|lia|lia]. }
  destruct (N.ltb_spec 65535 (opt_len (cf_wmsg c))) as [LW|LW].
  { split.
    - intros H. injection H as <-. right. right. right. left. auto 6.
    - intros [[H _]|[(_ & d' & F & _)|[(_ & _ & H & _)|[(_ & _ & _ & _ & ->)|(_ & _ & _ & H & _)]]]];
        [discriminate|exfalso; exact (NU _ F)|lia|reflexivity|lia]. }
  assert (forall (chk : option deny_reason) (flt : deny_reason -> Prop),
            (forall d, chk = Some d <-> flt d) ->
            (match chk with Some d => Some (CfgWillTopic d) | None => None end = Some e <->
             exists d, flt d /\ e = CfgWillTopic d)) as K.
  { intros chk flt Hc. destruct chk as [d|].
    - split.
      + intros H. injection H as <-. exists d. split; [apply Hc; reflexivity|reflexivity].
      + intros (d' & F & ->). apply Hc in F. congruence.
    - split; [discriminate|]. intros (d' & F & _). apply Hc in F. discriminate. }
  split.
  - intros H. right. right. right. right.
    split; [reflexivity|]. split; [reflexivity|]. split; [exact LP|]. split; [exact LW|].
    destruct (cf_wmsg c).
    + apply (K _ _ (topic_check_fault (cf_wtopic c))). exact H.
    + apply (K _ _ (string_check_fault (cf_wtopic c))). exact H.
  - intros [[H _]|[(_ & d' & F & _)|[(_ & _ & H & _)|[(_ & _ & _ & H & _)|(_ & _ & _ & _ & H)]]]];
      [discriminate|exfalso; exact (NU _ F)|lia|lia|].
    destruct (cf_wmsg c).
    + apply (K _ _ (topic_check_fault (cf_wtopic c))). exact H.
    + apply (K _ _ (string_check_fault (cf_wtopic c))). exact H.
Qed.

Theorem config_deny_iff_invalid c : config_valid c <> None <-> ~ config_ok c.
Proof. rewrite config_valid_iff. reflexivity. Qed.

Theorem config_no_valid_refused c : config_ok c -> config_valid c = None.
Proof. apply config_valid_iff. Qed.

(* initSession: the client identifier first *)
Theorem init_valid_iff cid c : init_valid cid c = None <-> wf_string cid /\ config_ok c.
Proof.
  unfold init_valid. rewrite <- clientid_deny_none_iff, <- config_valid_iff.
  destruct (clientid_deny cid).
  - split; [discriminate|intros [H _]; discriminate].
  - split; [auto|intros [_ H]; exact H].
Qed.

Theorem init_valid_reason cid c e :
  init_valid cid c = Some e <->
  (exists d, string_fault cid d /\ e = CfgClientID d) \/
  (wf_string cid /\ config_valid c = Some e).
Proof.
  unfold init_valid. rewrite <- clientid_deny_none_iff.
  destruct (clientid_deny cid) as [d|] eqn:E.
  - split.
    + intros H. injection H as <-. left. exists d.
      split; [apply clientid_deny_reason; exact E|reflexivity].
    + intros [(d' & F & ->)|[H _]]; [|discriminate].
      apply clientid_deny_reason in F. congruence.
  - split; [auto|]. intros [(d' & F & _)|[_ H]]; [|exact H].
    apply clientid_deny_reason in F. congruence.
Qed.

(* every constructor error but the missing Dialer is in the deny class *)
Theorem config_error_is_deny c e :
  config_valid c = Some e -> e <> CfgNoDialer -> exists d, config_error_class e = Some d.
Proof. intros _ H. destruct e; cbn [config_error_class]; eauto. contradiction. Qed.

(* ================================================================== *)
(* 6. All request kinds at once                                        *)

Definition req_valid (r : request) : Prop :=
  match r with
  | RqPublish _ msg topic => publish_valid topic msg 0
  | RqPublishP level _ msg topic _ => publish_valid topic msg (pub_space level)
  | RqSubscribe _ fs _ => subscribe_valid fs
  | RqUnsubscribe fs _ => unsubscribe_valid fs
  | _ => True
  end.

Theorem deny_none_iff_valid r : req_deny r = None <-> req_valid r.
Proof.
  destruct r; cbn [req_deny req_valid];
    auto using publish_deny_none_iff, subscribe_deny_none_iff, unsubscribe_deny_none_iff;
    split; auto.
Qed.

Theorem deny_iff_invalid r : req_deny r <> None <-> ~ req_valid r.
Proof. rewrite deny_none_iff_valid. reflexivity. Qed.

Theorem no_valid_denied r : req_valid r -> req_deny r = None.
Proof. apply deny_none_iff_valid. Qed.

(* ================================================================== *)
(* 7. Every accepted request is emitted as a packet that reads back    *)
(*    as exactly the request                                           *)

Lemma lor_lt_65536 a b : a < 65536 -> b < 65536 -> N.lor a b < 65536.
Proof.
  intros Ha Hb.
  destruct (N.eq_dec a 0) as [->|Na]; [rewrite N.lor_0_l; exact Hb|].
  destruct (N.eq_dec b 0) as [->|Nb]; [rewrite N.lor_0_r; exact Ha|].
  assert (N.lor a b <> 0) as Nz by (rewrite N.lor_eq_0_iff; tauto).
  change 65536 with (2 ^ 16) in *.
  apply N.log2_lt_pow2; [lia|]. rewrite N.log2_lor.
  apply N.log2_lt_pow2 in Ha; [|lia]. apply N.log2_lt_pow2 in Hb; [|lia]. lia.
Qed.

Lemma land_16383 a : N.land a 16383 < 16384.
Proof. change 16383 with (N.ones 14). rewrite N.land_ones. apply N.mod_lt. discriminate. Qed.
Lemma land_8191 a : N.land a 8191 < 8192.
Proof. change 8191 with (N.ones 13). rewrite N.land_ones. apply N.mod_lt. discriminate. Qed.

Lemma pub_space_cases level : pub_space level = 32768 \/ pub_space level = 49152.
Proof. unfold pub_space. destruct (level =? 1); auto. Qed.

Lemma pub_pid_range level acc : 0 < pub_pid level acc < 65536.
Proof.
  unfold pub_pid. pose proof (land_16383 acc) as L. split.
  - assert (N.lor (pub_space level) (N.land acc 16383) <> 0); [|lia].
    rewrite N.lor_eq_0_iff. destruct (pub_space_cases level) as [E|E]; rewrite E; intros [H _]; discriminate.
  - apply lor_lt_65536; [destruct (pub_space_cases level) as [E|E]; rewrite E; reflexivity|lia].
Qed.

Lemma sub_pid_range txn : 0 < sub_pid txn < 65536.
Proof.
  unfold sub_pid. pose proof (land_8191 txn) as L. split.
  - assert (N.lor (N.land txn 8191) 24576 <> 0); [|lia].
    rewrite N.lor_eq_0_iff. intros [_ H]; discriminate.
  - apply lor_lt_65536; [lia|reflexivity].
Qed.

Lemma unsub_pid_range txn : 0 < unsub_pid txn < 65536.
Proof.
  unfold unsub_pid. pose proof (land_8191 txn) as L. split.
  - assert (N.lor (N.land txn 8191) 16384 <> 0); [|lia].
    rewrite N.lor_eq_0_iff. intros [_ H]; discriminate.
  - apply lor_lt_65536; [lia|reflexivity].
Qed.

(* the size check looks at the identifier space, the packet carries the identifier:
   both are non-zero, so the sizes agree *)
Lemma publish_size_pid level acc topic msg :
  publish_size topic msg (pub_pid level acc) = publish_size topic msg (pub_space level).
Proof.
  unfold publish_size.
  assert (pub_pid level acc =? 0 = false) as -> by (apply N.eqb_neq; pose proof (pub_pid_range level acc); lia).
  assert (pub_space level =? 0 = false) as ->
    by (destruct (pub_space_cases level) as [E|E]; rewrite E; reflexivity).
  reflexivity.
Qed.

Lemma publish_deny_none topic msg space :
  publish_deny topic msg space = None ->
  bytes topic /\ len topic <= 65535 /\ publish_size topic msg space <= packet_max.
Proof.
  unfold publish_deny. destruct (topic_check topic) eqn:E; [discriminate|].
  destruct (N.ltb_spec packet_max (publish_size topic msg space)); [discriminate|].
  intros _. apply topic_check_none_bytes in E. tauto.
Qed.

Theorem emit_publish retain msg topic rest :
  publish_deny topic msg 0 = None -> bytes msg ->
  parse_packet (emit (RqPublish retain msg topic) ++ rest)
  = Some (PPublish false 0 retain topic None msg, rest).
Proof.
  intros D Hm. apply publish_deny_none in D. destruct D as (Bt & Lt & Sz).
  cbn [emit].
  rewrite (publish_roundtrip topic msg 0 retain false 0 rest Bt Hm Lt); try lia; auto.
Qed.

Theorem emit_publish_persisted level retain msg topic acc rest :
  level = 1 \/ level = 2 ->
  publish_deny topic msg (pub_space level) = None -> bytes msg ->
  parse_packet (emit (RqPublishP level retain msg topic acc) ++ rest)
  = Some (PPublish false level retain topic (Some (pub_pid level acc)) msg, rest).
Proof.
  intros Hl D Hm. apply publish_deny_none in D. destruct D as (Bt & Lt & Sz).
  pose proof (pub_pid_range level acc) as Hp.
  cbn [emit].
  rewrite (publish_roundtrip topic msg level retain false (pub_pid level acc) rest Bt Hm Lt);
    try lia.
  - assert (pub_pid level acc =? 0 = false) as -> by (apply N.eqb_neq; lia). reflexivity.
  - rewrite publish_size_pid. exact Sz.
Qed.

Lemma filters_none (fs : list (list N)) :
  first_deny fs = None -> Forall bytes fs /\ Forall (fun f => len f <= 65535) fs.
Proof.
  induction fs as [|s r IH]; cbn [first_deny]; [split; constructor|].
  destruct (topic_check s) eqn:E; [discriminate|]. intros H.
  apply topic_check_none_bytes in E. destruct (IH H). split; constructor; tauto.
Qed.

Lemma subscribe_deny_none fs :
  subscribe_deny fs = None ->
  fs <> [] /\ Forall bytes fs /\ Forall (fun f => len f <= 65535) fs /\
  subscribe_size fs <= packet_max.
Proof.
  rewrite subscribe_deny_closed. destruct fs as [|s r]; [discriminate|].
  destruct (first_deny (s :: r)) eqn:E; [discriminate|].
  destruct (N.ltb_spec packet_max (subscribe_size (s :: r))); [discriminate|]. intros _.
  apply filters_none in E. split; [discriminate|tauto].
Qed.

Lemma unsubscribe_deny_none fs :
  unsubscribe_deny fs = None ->
  fs <> [] /\ Forall bytes fs /\ Forall (fun f => len f <= 65535) fs /\
  unsubscribe_size fs <= packet_max.
Proof.
  rewrite unsubscribe_deny_closed. destruct fs as [|s r]; [discriminate|].
  destruct (first_deny (s :: r)) eqn:E; [discriminate|].
  destruct (N.ltb_spec packet_max (unsubscribe_size (s :: r))); [discriminate|]. intros _.
  apply filters_none in E. split; [discriminate|tauto].
Qed.

Theorem emit_subscribe level fs txn rest :
  subscribe_deny fs = None -> level < 3 ->
  parse_packet (emit (RqSubscribe level fs txn) ++ rest)
  = Some (PSubscribe (sub_pid txn) (map (fun f => (f, level)) fs), rest).
Proof.
  intros D Hl. apply subscribe_deny_none in D. destruct D as (Ne & B & L & S).
  cbn [emit]. apply subscribe_roundtrip; auto using sub_pid_range.
Qed.

Theorem emit_unsubscribe fs txn rest :
  unsubscribe_deny fs = None ->
  parse_packet (emit (RqUnsubscribe fs txn) ++ rest)
  = Some (PUnsubscribe (unsub_pid txn) fs, rest).
Proof.
  intros D. apply unsubscribe_deny_none in D. destruct D as (Ne & B & L & S).
  cbn [emit]. apply unsubscribe_roundtrip; auto using unsub_pid_range.
Qed.

(* --- CONNECT --- *)

Lemma config_valid_wf c :
  config_valid c = None -> cf_keepalive c < 65536 ->
  opt_bytes (cf_pass c) -> opt_bytes (cf_wmsg c) ->
  cfg_wf (cfg_of_config c).
Proof.
  unfold config_valid, Packets.string_max.
  destruct (cf_dialer c); cbn [negb]; [|discriminate].
  destruct (string_check (cf_user c)) eqn:EU; [discriminate|].
  destruct (N.ltb_spec 65535 (opt_len (cf_pass c))) as [|LP]; [discriminate|].
  destruct (N.ltb_spec 65535 (opt_len (cf_wmsg c))) as [|LW]; [discriminate|].
  intros HT HK BP BW.
  apply string_check_none_bytes in EU. destruct EU as [BU LU].
  unfold cfg_wf, cfg_of_config; cbn [cfg_user cfg_pass cfg_will cfg_keepalive].
  split; [exact BU|]. split; [exact LU|]. split.
  { destruct (cf_pass c); [split; [exact BP|exact LP]|exact I]. }
  split; [|exact HK].
  destruct (cf_wmsg c) as [m|]; [|exact I].
  cbn [will_topic will_msg].
  destruct (topic_check (cf_wtopic c)) eqn:ET; [discriminate|].
  apply topic_check_none_bytes in ET. cbn [opt_len] in LW. cbn [opt_bytes] in BW. tauto.
Qed.

Lemma connect_size_small c cid :
  cfg_wf c -> len cid <= 65535 -> connect_size c cid <= packet_max.
Proof.
  intros (_ & LU & HP & HW & _) LC. unfold connect_size, packet_max.
  destruct (has_user c); destruct (cfg_pass c); destruct (cfg_will c); lia.
Qed.

Lemma cfg_will_spec_of_config c : cfg_will_spec (cfg_of_config c) = will_spec_of c.
Proof.
  unfold cfg_will_spec, will_spec_of, cfg_of_config; cbn [cfg_will].
  destruct (cf_wmsg c); reflexivity.
Qed.

Lemma has_user_of_config c :
  (if has_user (cfg_of_config c) then Some (cfg_user (cfg_of_config c)) else None) = user_of c.
Proof.
  unfold has_user, user_of, cfg_of_config; cbn [cfg_user cfg_pass].
  destruct (cf_user c), (cf_pass c); reflexivity.
Qed.

Theorem emit_connect c cid rest :
  init_valid cid c = None ->
  cf_keepalive c < 65536 -> opt_bytes (cf_pass c) -> opt_bytes (cf_wmsg c) ->
  parse_packet (emit (RqConnect c cid) ++ rest)
  = Some (PConnect (cf_clean c) (cf_keepalive c) cid (will_spec_of c) (user_of c) (cf_pass c), rest).
Proof.
  unfold init_valid, clientid_deny.
  destruct (string_check cid) eqn:EC; [discriminate|]. intros V HK BP BW.
  apply string_check_none_bytes in EC. destruct EC as [BC LC].
  pose proof (config_valid_wf c V HK BP BW) as WF.
  cbn [emit].
  rewrite (connect_roundtrip _ cid rest WF BC LC (connect_size_small _ _ WF LC)).
  rewrite cfg_will_spec_of_config, has_user_of_config. reflexivity.
Qed.

(* --- the whole catalogue --- *)

Theorem emitted_well_formed r rest :
  req_accepted r -> req_typed r ->
  parse_packet (emit r ++ rest) = Some (expect r, rest).
Proof.
  destruct r; cbn [req_accepted req_typed req_deny expect].
  - intros D T. apply emit_publish; assumption.
  - intros D [T L]. apply emit_publish_persisted; assumption.
  - intros D T. apply emit_subscribe; assumption.
  - intros D _. apply emit_unsubscribe; assumption.
  - intros D (K & P & W). apply emit_connect; assumption.
  - intros _ T. exact (proj1 (ack_roundtrip id rest T)).
  - intros _ T. exact (proj1 (proj2 (ack_roundtrip id rest T))).
  - intros _ T. exact (proj1 (proj2 (proj2 (ack_roundtrip id rest T)))).
  - intros _ T. exact (proj2 (proj2 (proj2 (ack_roundtrip id rest T)))).
  - intros _ _. exact (proj1 (literal_roundtrip rest)).
  - intros _ _. exact (proj2 (literal_roundtrip rest)).
Qed.

(* ... and consists of bytes *)
Theorem emitted_bytes r : req_accepted r -> req_typed r -> bytes (emit r).
Proof.
  destruct r; cbn [req_accepted req_typed req_deny emit].
  - intros D T. apply publish_deny_none in D.
    apply publish_packet_bytes; [destruct retain; reflexivity|tauto|exact T].
  - intros D [T L]. apply publish_deny_none in D.
    apply publish_packet_bytes; [|tauto|exact T].
    destruct L as [-> | ->]; destruct retain; reflexivity.
  - intros D T. apply subscribe_deny_none in D. apply subscribe_packet_bytes; [tauto|lia].
  - intros D _. apply unsubscribe_deny_none in D. apply unsubscribe_packet_bytes; tauto.
  - unfold init_valid, clientid_deny.
    destruct (string_check cid) eqn:EC; [discriminate|]. intros V (K & P & W).
    apply string_check_none_bytes in EC.
    apply connect_packet_bytes; [apply config_valid_wf; assumption|tauto].
  - intros _ _. apply (ack_packets_bytes id).
  - intros _ _. apply (ack_packets_bytes id).
  - intros _ _. apply (ack_packets_bytes id).
  - intros _ _. apply (ack_packets_bytes id).
  - intros _ _. apply literal_bytes.
  - intros _ _. apply literal_bytes.
Qed.

(* ================================================================== *)
(* 8. The session model (L2) validates with the same functions, and a  *)
(*    denied request leaves no trace                                   *)

From RecordUpdate Require Import RecordUpdate.
From MQ Require Import Session.

Lemma any_denied_first fs : any_denied fs = deny_of (first_deny fs).
Proof.
  induction fs as [|s r IH]; cbn [any_denied first_deny]; [reflexivity|].
  destruct (topic_check s); cbn [deny_of orb]; [reflexivity|exact IH].
Qed.

Lemma session_pub_space level : (if level =? 1 then alo_space else eo_space) = pub_space level.
Proof. reflexivity. Qed.

Lemma session_pub_pid level acc :
  N.lor (if level =? 1 then alo_space else eo_space) (N.land acc id_mask) = pub_pid level acc.
Proof. reflexivity. Qed.

(* the inline checks of Session.v, as one condition *)
Lemma publish_deny_inline topic msg space :
  publish_deny topic msg space = None <->
  deny_of (topic_check topic) = false /\ (packet_max <? publish_size topic msg space) = false.
Proof.
  unfold publish_deny. destruct (topic_check topic); cbn [deny_of].
  - split; [discriminate|intros [H _]; discriminate].
  - destruct (packet_max <? publish_size topic msg space).
    + split; [discriminate|intros [_ H]; discriminate].
    + split; auto.
Qed.

Lemma filters_deny_inline (sub : bool) fs :
  (if sub then subscribe_deny fs else unsubscribe_deny fs) = None <->
  fs <> [] /\ any_denied fs = false /\
  (packet_max <? (if sub then subscribe_size fs else unsubscribe_size fs)) = false.
Proof.
  rewrite any_denied_first.
  assert (forall (none : deny_reason) (size : N),
            match fs with
            | [] => Some none
            | _ => match first_deny fs with
                   | Some d => Some d
                   | None => if packet_max <? size then Some DenyPacketMax else None
                   end
            end = None <->
            fs <> [] /\ deny_of (first_deny fs) = false /\ (packet_max <? size) = false) as K.
  { intros none size. destruct fs as [|s r].
    - split; [discriminate|intros [H _]; contradiction].
    - destruct (first_deny (s :: r)); cbn [deny_of].
      + split; [discriminate|intros (_ & H & _); discriminate].
      + destruct (packet_max <? size).
        * split; [discriminate|intros (_ & _ & H); discriminate].
        * split; [intros _; split; [discriminate|auto]|reflexivity]. }
  destruct sub; [rewrite subscribe_deny_closed|rewrite unsubscribe_deny_closed]; apply K.
Qed.

(* --- a denied request: the exact result --- *)

Theorem op_publish_denied c retain msg topic w d :
  publish_deny topic msg 0 = Some d ->
  op_publish c retain msg topic w = Some (c <| k_nextr ::= N.succ |>, RetErr E_deny, w).
Proof.
  unfold publish_deny, op_publish. destruct (topic_check topic); cbn [deny_of]; [reflexivity|].
  destruct (packet_max <? publish_size topic msg 0); [reflexivity|discriminate].
Qed.

Theorem op_publish_persisted_denied c level retain msg topic w d :
  publish_deny topic msg (pub_space level) = Some d ->
  op_publish_persisted c level retain msg topic w = Some (c, RetErr E_deny, w).
Proof.
  unfold publish_deny, op_publish_persisted. rewrite session_pub_space.
  destruct (topic_check topic); cbn [deny_of]; [reflexivity|].
  destruct (packet_max <? publish_size topic msg (pub_space level)); [reflexivity|discriminate].
Qed.

Theorem op_subscribe_denied c (sub : bool) level fs w d :
  (if sub then subscribe_deny fs else unsubscribe_deny fs) = Some d ->
  op_subscribe c sub level fs w = Some (c <| k_nextr ::= N.succ |>, RetErr E_deny, w).
Proof.
  intros D.
  assert ((if sub then subscribe_deny fs else unsubscribe_deny fs) <> None) as N0 by congruence.
  rewrite filters_deny_inline in N0.
  unfold op_subscribe. destruct fs as [|s r]; [reflexivity|].
  destruct (any_denied (s :: r)); [reflexivity|].
  destruct (packet_max <? (if sub then subscribe_size (s :: r) else unsubscribe_size (s :: r)));
    [reflexivity|].
  exfalso. apply N0. split; [discriminate|auto].
Qed.

(* --- a request that is not denied never returns the deny class --- *)

Lemma E_submit_not_deny r : E_submit r <> E_deny.
Proof. destruct r; vm_compute; discriminate. Qed.

Lemma locked_write_not_deny c cn bufs single w c' e w' :
  locked_write c cn bufs single w = Some (c', e, w') -> e <> E_deny.
Proof.
  unfold locked_write, bind. destruct (conn_write cn bufs single w) as [[r w1]|]; [|discriminate].
  destruct r; cbn; intros H; injection H as _ <- _;
    first [apply E_submit_not_deny | vm_compute; discriminate].
Qed.

Lemma op_write_not_deny c bufs single w c' e w' :
  op_write c bufs single w = Some (c', WrDone e, w') -> e <> E_deny.
Proof.
  unfold op_write. destruct (k_wsem c) as [| |cn|].
  - cbn. discriminate.
  - cbn. intros H. injection H as _ <- _. vm_compute. discriminate.
  - unfold bind. destruct (locked_write c cn bufs single w) as [[[c1 e1] w1]|] eqn:L; [|discriminate].
    cbn. intros H. injection H as _ <- _. exact (locked_write_not_deny _ _ _ _ _ _ _ _ L).
  - cbn. intros H. injection H as _ <- _. vm_compute. discriminate.
Qed.

Theorem op_publish_not_denied c retain msg topic w c' r w' :
  publish_deny topic msg 0 = None ->
  op_publish c retain msg topic w = Some (c', r, w') -> r <> RetErr E_deny.
Proof.
  intros D. apply publish_deny_inline in D. destruct D as [D1 D2].
  unfold op_publish. rewrite D1, D2. unfold bind.
  match goal with |- context [op_write ?a ?b ?s w] =>
    destruct (op_write a b s w) as [[[c1 r1] w1]|] eqn:W end; [|discriminate].
  destruct r1 as [e|]; cbn; intros H; injection H as _ <- _; [|discriminate].
  intros X. injection X as X. exact (op_write_not_deny _ _ _ _ _ _ _ W X).
Qed.

Lemma nowait_write_not_deny c bufs single w c' e w' :
  nowait_write c bufs single w = Some (c', e, w') -> e <> E_deny.
Proof.
  unfold nowait_write. destruct (k_wsem c) as [| |cn|];
    try (cbn; intros H; injection H as _ <- _; vm_compute; discriminate).
  apply locked_write_not_deny.
Qed.

Theorem op_publish_persisted_not_denied c level retain msg topic w c' r w' :
  publish_deny topic msg (pub_space level) = None ->
  op_publish_persisted c level retain msg topic w = Some (c', r, w') -> r <> RetErr E_deny.
Proof.
  intros D. apply publish_deny_inline in D. destruct D as [D1 D2].
  unfold op_publish_persisted. rewrite session_pub_space, D1, D2.
  destruct (k_seqclosed c); [cbn; intros H; injection H as _ <- _; vm_compute; discriminate|].
  destruct (k_closed c); [cbn; intros H; injection H as _ <- _; vm_compute; discriminate|].
  match goal with |- context [if ?b then ret (c, RetErr E_max) else _] => destruct b end;
    [cbn; intros H; injection H as _ <- _; vm_compute; discriminate|].
  unfold bind at 1.
  match goal with |- context [rugged_save ?a ?b ?p w] =>
    destruct (rugged_save a b p w) as [[[c1 ok] w1]|] end; [|discriminate].
  destruct ok; cbn [negb]; [|cbn; intros H; injection H as _ <- _; vm_compute; discriminate].
  match goal with |- context [if ?b then ret (xsend _ _ E_down, _) else _] => destruct b end;
    [cbn; intros H; injection H as _ <- _; discriminate|].
  unfold bind.
  match goal with |- context [nowait_write ?a ?b ?s w1] =>
    destruct (nowait_write a b s w1) as [[[c2 e2] w2]|] end; [|discriminate].
  destruct (negb (e2 =? 0)); cbn; intros H; injection H as _ <- _; discriminate.
Qed.

Theorem op_subscribe_not_denied c (sub : bool) level fs w c' r w' :
  (if sub then subscribe_deny fs else unsubscribe_deny fs) = None ->
  op_subscribe c sub level fs w = Some (c', r, w') -> r <> RetErr E_deny.
Proof.
  intros D. apply filters_deny_inline in D. destruct D as (D0 & D1 & D2).
  unfold op_subscribe. destruct fs as [|s0 r0]; [contradiction|].
  rewrite D1, D2.
  match goal with |- context [if ?b then ret (_, RetErr E_max) else _] => destruct b end;
    [cbn; intros H; injection H as _ <- _; vm_compute; discriminate|].
  match goal with |- context [tx_pick ?f ?a ?sp] => destruct (tx_pick f a sp) as [c1 pid] end.
  unfold bind.
  match goal with |- context [op_write ?a ?b ?sg w] =>
    destruct (op_write a b sg w) as [[[c2 r2] w2]|] eqn:W end; [|discriminate].
  destruct r2 as [e|]; [|cbn; intros H; injection H as _ <- _; discriminate].
  destruct (e =? 0); cbn; intros H; injection H as _ <- _; [discriminate|].
  intros X. injection X as X. exact (op_write_not_deny _ _ _ _ _ _ _ W X).
Qed.

(* the model denies exactly when the validation functions say so *)
Theorem op_publish_deny_iff c retain msg topic w :
  (exists c' w', op_publish c retain msg topic w = Some (c', RetErr E_deny, w')) <->
  publish_deny topic msg 0 <> None.
Proof.
  split.
  - intros (c' & w' & H) D. exact (op_publish_not_denied _ _ _ _ _ _ _ _ D H eq_refl).
  - destruct (publish_deny topic msg 0) as [d|] eqn:D; [|congruence]. intros _.
    eexists. eexists. apply (op_publish_denied _ _ _ _ _ d D).
Qed.

Theorem op_publish_persisted_deny_iff c level retain msg topic w :
  (exists c' w', op_publish_persisted c level retain msg topic w = Some (c', RetErr E_deny, w')) <->
  publish_deny topic msg (pub_space level) <> None.
Proof.
  split.
  - intros (c' & w' & H) D. exact (op_publish_persisted_not_denied _ _ _ _ _ _ _ _ _ D H eq_refl).
  - destruct (publish_deny topic msg (pub_space level)) as [d|] eqn:D; [|congruence]. intros _.
    eexists. eexists. apply (op_publish_persisted_denied _ _ _ _ _ _ d D).
Qed.

Theorem op_subscribe_deny_iff c (sub : bool) level fs w :
  (exists c' w', op_subscribe c sub level fs w = Some (c', RetErr E_deny, w')) <->
  (if sub then subscribe_deny fs else unsubscribe_deny fs) <> None.
Proof.
  split.
  - intros (c' & w' & H) D. exact (op_subscribe_not_denied _ _ _ _ _ _ _ _ D H eq_refl).
  - destruct (if sub then subscribe_deny fs else unsubscribe_deny fs) as [d|] eqn:D; [|congruence].
    intros _. eexists. eexists. apply (op_subscribe_denied _ _ _ _ _ d D).
Qed.

(* --- no trace --- *)

(* the validation an operation of the session model is subject to *)
Definition op_deny (o : op) : option deny_reason :=
  match o with
  | OpPublish _ msg topic => publish_deny topic msg 0
  | OpPubP level _ msg topic => publish_deny topic msg (pub_space level)
  | OpSub _ fs => subscribe_deny fs
  | OpUnsub fs => unsubscribe_deny fs
  | _ => None
  end.

(* requests the model numbers (those that can block) *)
Definition op_numbered (o : op) : bool :=
  match o with OpPublish _ _ _ | OpSub _ _ | OpUnsub _ => true | _ => false end.

(* the client after a denied request: the per-step event lists are reset by [step],
   the request counter of the model advances; nothing else *)
Definition after_deny (c : client) (o : op) : client :=
  let c := c <| k_done := [] |> <| k_xev := [] |> in
  if op_numbered o then c <| k_nextr ::= N.succ |> else c.

Theorem deny_no_trace c o w d :
  op_deny o = Some d ->
  step c o w = Some (after_deny c o, RetErr E_deny, w).
Proof.
  destruct o; cbn [op_deny]; try discriminate; intros D; unfold step, after_deny; cbn [op_numbered].
  - apply (op_publish_denied _ _ _ _ _ d D).
  - apply (op_publish_persisted_denied _ _ _ _ _ _ d D).
  - apply (op_subscribe_denied _ true _ _ _ d D).
  - apply (op_subscribe_denied _ false _ _ _ d D).
Qed.

(* spelled out: nothing written, nothing persisted, no answer consumed ... *)
Corollary deny_world_untouched c o w d c' r w' :
  op_deny o = Some d -> step c o w = Some (c', r, w') ->
  r = RetErr E_deny /\ w' = w /\
  w_log w' = w_log w /\ w_store w' = w_store w /\
  t_st w' = t_st w /\ t_stf w' = t_stf w /\ t_dial w' = t_dial w /\
  t_wr w' = t_wr w /\ t_rd w' = t_rd w.
Proof.
  intros D H. rewrite (deny_no_trace c o w d D) in H. injection H as <- <- <-.
  repeat split; reflexivity.
Qed.

(* ... and no capacity consumed: no queue entry, no sequence number, no transaction
   slot or counter, no ping slot, no parked request, no exchange identifier *)
Corollary deny_client_untouched c o w d c' r w' :
  op_deny o = Some d -> step c o w = Some (c', r, w') ->
  k_q1 c' = k_q1 c /\ k_q2 c' = k_q2 c /\
  k_acc1 c' = k_acc1 c /\ k_sub1 c' = k_sub1 c /\ k_acked c' = k_acked c /\
  k_acc2 c' = k_acc2 c /\ k_sub2 c' = k_sub2 c /\ k_recvd c' = k_recvd c /\ k_compl c' = k_compl c /\
  k_txn c' = k_txn c /\ k_txs c' = k_txs c /\ k_ping c' = k_ping c /\
  k_parked c' = k_parked c /\ k_nextx c' = k_nextx c /\ k_rseq c' = k_rseq c /\
  k_wsem c' = k_wsem c /\ k_csem c' = k_csem c /\ k_rconn c' = k_rconn c /\
  k_nconn c' = k_nconn c /\ k_rbuf c' = k_rbuf c /\ k_rerr c' = k_rerr c /\ k_rarm c' = k_rarm c /\
  k_peekn c' = k_peekn c /\
  k_pack c' = k_pack c /\ k_big c' = k_big c /\ k_online c' = k_online c /\
  k_newsess c' = k_newsess c /\ k_rwait c' = k_rwait c /\
  k_closed c' = k_closed c /\ k_seqclosed c' = k_seqclosed c /\ k_cfg c' = k_cfg c /\
  k_done c' = [] /\ k_xev c' = [] /\
  k_nextr c' = (if op_numbered o then N.succ (k_nextr c) else k_nextr c).
Proof.
  intros D H. rewrite (deny_no_trace c o w d D) in H. injection H as <- _ _.
  unfold after_deny. destruct (op_numbered o); repeat split; reflexivity.
Qed.

(* the converse for the validated operations: the deny class is returned only then *)
Theorem step_deny_only_if_invalid c o w c' w' :
  match o with OpPublish _ _ _ | OpPubP _ _ _ _ | OpSub _ _ | OpUnsub _ => True | _ => False end ->
  step c o w = Some (c', RetErr E_deny, w') -> op_deny o <> None.
Proof.
  destruct o; try contradiction; intros _; unfold step; cbn [op_deny]; intros H D.
  - exact (op_publish_not_denied _ _ _ _ _ _ _ _ D H eq_refl).
  - exact (op_publish_persisted_not_denied _ _ _ _ _ _ _ _ _ D H eq_refl).
  - exact (op_subscribe_not_denied _ true _ _ _ _ _ _ D H eq_refl).
  - exact (op_subscribe_not_denied _ false _ _ _ _ _ _ D H eq_refl).
Qed.

(* InitSession: an illegal client identifier is refused before the Persistence is asked *)
Theorem init_denied_no_trace cf cid w d :
  clientid_deny cid = Some d ->
  op_init cf cid w = Some (None, RetErr E_deny, w).
Proof.
  unfold clientid_deny, op_init. intros ->. reflexivity.
Qed.
