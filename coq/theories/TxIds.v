(* L2: the identifiers of pending SUBSCRIBE/UNSUBSCRIBE requests (request.go
   unorderedTxs.startTx / endTx / breakAll; Session.v k_txn, k_txs, tx_pick, tx_remove).
   The invariant TxInv -- identifiers of pending requests pairwise distinct, non-zero,
   16 bit, in the address space of their kind, at most 512 pending -- holds for a fresh
   client and is preserved by every Session.step, for every operation, every client state
   satisfying it and every world (all tapes / scripts, scripted or genuine Persistence).
   tx_pick never runs out of fuel under the invariant; ErrMax is returned exactly when 512
   requests are pending.  Proofs only. *)
From Coq Require Import ZArith ZifyN ZifyNat ZifyBool Lia List Bool.
From RecordUpdate Require Import RecordUpdate.
From MQ Require Import Session Outbound WriteLoopProofs InboundProofs.
Import ListNotations.
Local Open Scope N_scope.
Ltac Zify.zify_post_hook ::= Z.div_mod_to_equations.

(* ------------------------------------------------------------------ *)
(* 1. The invariant                                                    *)

Notation txent := (N * N * option (list (list N)))%type (only parsing).   (* packet id, request id, filters *)
Definition tx_pid (t : txent) : N := fst (fst t).
(* startTx: filters nil for unsubscribe only *)
Definition tx_space (t : txent) : N := match snd t with Some _ => sub_space | None => unsub_space end.
Definition pids (c : client) : list N := map tx_pid (k_txs c).

(* packetID &^ unorderedIDMask == space, as on_suback / on_unsuback test it *)
Definition in_un_space (pid space : N) : Prop := pid - N.land pid un_mask = space.

Definition tx_wf (t : txent) : Prop :=
  tx_pid t <> 0 /\ tx_pid t < 65536 /\ in_un_space (tx_pid t) (tx_space t).

Definition tx_limit : nat := 512.       (* unorderedIDMask>>4 + 1 *)

Record TxInv (c : client) : Prop := mkTxInv {
  ti_nodup : NoDup (pids c);
  ti_wf : Forall tx_wf (k_txs c);
  ti_len : (length (k_txs c) <= tx_limit)%nat
}.

(* ------------------------------------------------------------------ *)
(* 2. Identifier arithmetic                                            *)

Definition cand (space n : N) : N := N.lor (N.land n un_mask) space.
Definition un_space (space : N) : Prop := space = sub_space \/ space = unsub_space.

Lemma land_un_mask n : N.land n un_mask = n mod 8192.
Proof. change un_mask with (N.ones 13). rewrite N.land_ones. reflexivity. Qed.

Lemma lor_disjoint_add a b : N.land a b = 0 -> N.lor a b = a + b.
Proof.
  intros H. rewrite <- (N.lxor_lor _ _ H). symmetry. apply N.add_nocarry_lxor. exact H.
Qed.

Lemma cand_eq space n : un_space space -> cand space n = n mod 8192 + space.
Proof.
  intros [-> | ->]; unfold cand; rewrite lor_disjoint_add.
  - rewrite land_un_mask. reflexivity.
  - rewrite <- N.land_assoc. change (N.land un_mask sub_space) with 0. apply N.land_0_r.
  - rewrite land_un_mask. reflexivity.
  - rewrite <- N.land_assoc. change (N.land un_mask unsub_space) with 0. apply N.land_0_r.
Qed.

Lemma in_un_space_eq pid space : in_un_space pid space <-> pid - pid mod 8192 = space.
Proof. unfold in_un_space. rewrite land_un_mask. reflexivity. Qed.

Lemma in_sub_range pid : in_un_space pid sub_space <-> 24576 <= pid < 32768.
Proof. rewrite in_un_space_eq. unfold sub_space. lia. Qed.
Lemma in_unsub_range pid : in_un_space pid unsub_space <-> 16384 <= pid < 24576.
Proof. rewrite in_un_space_eq. unfold unsub_space. lia. Qed.

Lemma cand_wf space n : un_space space ->
  cand space n <> 0 /\ cand space n < 65536 /\ in_un_space (cand space n) space.
Proof.
  intros S. rewrite in_un_space_eq, (cand_eq _ _ S).
  destruct S as [-> | ->]; unfold sub_space, unsub_space; lia.
Qed.

Lemma cand_inj space n (j j' : nat) : un_space space -> N.of_nat j < 8192 -> N.of_nat j' < 8192 ->
  cand space (n + N.of_nat j) = cand space (n + N.of_nat j') -> j = j'.
Proof. intros S Hj Hj'. rewrite !(cand_eq _ _ S). lia. Qed.

(* the two kinds never share an identifier, and neither meets the publish spaces *)
Lemma spaces_disjoint pid : in_un_space pid sub_space -> in_un_space pid unsub_space -> False.
Proof. rewrite in_sub_range, in_unsub_range. lia. Qed.
Lemma un_space_not_publish pid space : un_space space -> in_un_space pid space -> pid < alo_space.
Proof. intros [-> | ->]; rewrite ?in_sub_range, ?in_unsub_range; unfold alo_space; lia. Qed.

(* ------------------------------------------------------------------ *)
(* 3. Lists                                                            *)

Lemma NoDup_map_in {A B} (f : A -> B) l :
  (forall x y, In x l -> In y l -> f x = f y -> x = y) -> NoDup l -> NoDup (map f l).
Proof.
  induction l as [|a l IH]; intros Inj ND; cbn [map]; [constructor|].
  inversion ND as [|? ? Hn Hd]; subst. constructor.
  - intros Hin. apply in_map_iff in Hin. destruct Hin as (y & E & Hy).
    assert (y = a) by (apply Inj; [right; exact Hy|left; reflexivity|exact E]). subst. contradiction.
  - apply IH; [|exact Hd]. intros x y Hx Hy. apply Inj; right; assumption.
Qed.

Lemma NoDup_map_filter {A B} (f : A -> B) g l : NoDup (map f l) -> NoDup (map f (filter g l)).
Proof.
  induction l as [|a l IH]; cbn [map filter]; intros ND; [constructor|].
  inversion ND as [|? ? Hn Hd]; subst. destruct (g a); [|apply IH, Hd].
  cbn [map]. constructor; [|apply IH, Hd].
  intros Hin. apply Hn. apply in_map_iff in Hin. destruct Hin as (y & E & Hy).
  apply filter_In in Hy. apply in_map_iff. exists y. tauto.
Qed.

Lemma filter_length_le' {A} (g : A -> bool) l : (length (filter g l) <= length l)%nat.
Proof. induction l as [|a l IH]; cbn [filter length]; [lia|]. destruct (g a); cbn [length]; lia. Qed.

Lemma Forall_filter' {A} (P : A -> Prop) g l : Forall P l -> Forall P (filter g l).
Proof.
  intros H. apply Forall_forall. intros x Hx. apply filter_In in Hx.
  rewrite Forall_forall in H. apply H. tauto.
Qed.

Lemma existsb_pid pid (l : list txent) :
  existsb (fun t => fst (fst t) =? pid) l = true <-> In pid (map tx_pid l).
Proof.
  rewrite existsb_exists, in_map_iff. split.
  - intros (t & Hin & E). apply N.eqb_eq in E. exists t. auto.
  - intros (t & E & Hin). exists t. split; [exact Hin|]. apply N.eqb_eq. exact E.
Qed.

(* if fuel consecutive candidates are all taken, at least fuel identifiers are pending *)
Lemma pigeon space n (fuel : nat) (l : list N) : un_space space -> N.of_nat fuel <= 8192 ->
  (forall j, (j < fuel)%nat -> In (cand space (n + N.of_nat j)) l) -> (fuel <= length l)%nat.
Proof.
  intros S Hf Hall.
  set (cs := map (fun j => cand space (n + N.of_nat j)) (seq 0 fuel)).
  assert (ND : NoDup cs).
  { apply NoDup_map_in; [|apply seq_NoDup]. intros x y Hx Hy E.
    apply in_seq in Hx, Hy. apply (cand_inj space n); try lia; assumption. }
  assert (Inc : incl cs l).
  { intros x Hx. apply in_map_iff in Hx. destruct Hx as (j & <- & Hj). apply in_seq in Hj.
    apply Hall. lia. }
  pose proof (NoDup_incl_length ND Inc) as L. unfold cs in L. rewrite map_length, seq_length in L.
  exact L.
Qed.

(* ------------------------------------------------------------------ *)
(* 4. tx_pick                                                          *)

(* what the loop does: it skips i taken candidates and returns the next one, or (the
   model's fuel bound only; the Go loop has none) gives up with identifier 0 *)
Lemma tx_pick_spec space : forall (fuel : nat) c c' pid,
  tx_pick fuel c space = (c', pid) ->
  c' = c <| k_txn := k_txn c' |> /\
  ((exists i : nat, (i < fuel)%nat /\ pid = cand space (k_txn c + N.of_nat i) /\
                    ~ In pid (pids c) /\
                    (forall j, (j < i)%nat -> In (cand space (k_txn c + N.of_nat j)) (pids c)) /\
                    k_txn c' = k_txn c + N.of_nat i + 1)
   \/ (pid = 0 /\ (forall j, (j < fuel)%nat -> In (cand space (k_txn c + N.of_nat j)) (pids c)) /\
       k_txn c' = k_txn c + N.of_nat fuel)).
Proof.
  induction fuel as [|f IH]; intros c c' pid H; cbn [tx_pick] in H.
  - inversion H; subst. split; [destruct c'; reflexivity|]. right.
    split; [reflexivity|]. split; [intros j Hj; lia|]. cbn. lia.
  - cbv zeta in H.
    change (k_txs (c <| k_txn ::= N.succ |>)) with (k_txs c) in H.
    destruct (existsb _ (k_txs c)) eqn:Ex.
    + apply existsb_pid in Ex. apply IH in H. destruct H as [Ec H].
      change (k_txn (c <| k_txn ::= N.succ |>)) with (N.succ (k_txn c)) in H.
      change (pids (c <| k_txn ::= N.succ |>)) with (pids c) in H.
      split; [exact Ec|].
      assert (Sh : forall j : nat, N.succ (k_txn c) + N.of_nat j = k_txn c + N.of_nat (S j)) by (intros; lia).
      destruct H as [(i & Hi & Ep & Hn & Hsk & En)|(Ep & Hsk & En)].
      * left. exists (S i). split; [lia|]. rewrite <- Sh. split; [exact Ep|]. split; [exact Hn|].
        split; [|lia]. intros [|j] Hj; [rewrite N.add_0_r; exact Ex|]. rewrite <- Sh. apply Hsk. lia.
      * right. split; [exact Ep|]. split; [|lia].
        intros [|j] Hj; [rewrite N.add_0_r; exact Ex|]. rewrite <- Sh. apply Hsk. lia.
    + inversion H; subst. split; [destruct c; reflexivity|]. left. exists O.
      split; [lia|]. rewrite N.add_0_r. split; [reflexivity|]. split.
      * intros Hin. apply existsb_pid in Hin. unfold cand in Hin. rewrite Hin in Ex. discriminate.
      * split; [intros j Hj; lia|]. cbn. lia.
Qed.

Lemma tx_pick_txs space fuel c : k_txs (fst (tx_pick fuel c space)) = k_txs c.
Proof.
  destruct (tx_pick fuel c space) as [c' pid] eqn:H. apply tx_pick_spec in H.
  destruct H as [-> _]. reflexivity.
Qed.

(* (a) with fewer pending requests than fuel (and fuel within the 13-bit space) the
   fuel-exhaustion branch is unreachable: the identifier returned is a candidate of the
   requested space that no pending request holds, found after at most as many skips as
   there are pending requests; nothing but the counter changes *)
Theorem tx_pick_fresh space (fuel : nat) c c' pid :
  un_space space -> (length (k_txs c) < fuel)%nat -> N.of_nat fuel <= 8192 ->
  tx_pick fuel c space = (c', pid) ->
  ~ In pid (pids c) /\ pid <> 0 /\ pid < 65536 /\ in_un_space pid space /\
  c' = c <| k_txn := k_txn c' |> /\
  exists i : nat, (i <= length (k_txs c))%nat /\ pid = cand space (k_txn c + N.of_nat i) /\
                  k_txn c' = k_txn c + N.of_nat i + 1.
Proof.
  intros S Hl Hf H. apply tx_pick_spec in H. destruct H as [Ec [(i & Hi & Ep & Hn & Hsk & En)|(_ & Hsk & _)]].
  - split; [exact Hn|]. subst pid. pose proof (cand_wf space (k_txn c + N.of_nat i) S) as (A & B & C).
    repeat (split; [assumption|]). exists i. split; [|auto].
    pose proof (pigeon space (k_txn c) i (pids c) S ltac:(lia) Hsk) as P.
    unfold pids in P. rewrite map_length in P. exact P.
  - exfalso. pose proof (pigeon space (k_txn c) fuel (pids c) S Hf Hsk) as P.
    unfold pids in P. rewrite map_length in P. lia.
Qed.

(* the fuel of op_subscribe: at most 511 pending when tx_pick 1024 is called *)
Corollary tx_pick_1024 space c c' pid :
  un_space space -> (length (k_txs c) < 1024)%nat -> tx_pick 1024 c space = (c', pid) ->
  ~ In pid (pids c) /\ pid <> 0 /\ pid < 65536 /\ in_un_space pid space /\ k_txs c' = k_txs c.
Proof.
  intros S Hl H. apply tx_pick_fresh in H; [|exact S|exact Hl|cbv; discriminate].
  destruct H as (A & B & C & D & E & _). repeat (split; [assumption|]). rewrite E. reflexivity.
Qed.

(* only at fuel exhaustion is 0 returned, and then fuel identifiers of the space are pending *)
Theorem tx_pick_zero space (fuel : nat) c c' :
  un_space space -> N.of_nat fuel <= 8192 -> tx_pick fuel c space = (c', 0) -> (fuel <= length (k_txs c))%nat.
Proof.
  intros S Hf H. apply tx_pick_spec in H. destruct H as [_ [(i & _ & Ep & _)|(_ & Hsk & _)]].
  - exfalso. pose proof (cand_wf space (k_txn c + N.of_nat i) S) as (A & _). congruence.
  - pose proof (pigeon space (k_txn c) fuel (pids c) S Hf Hsk) as P.
    unfold pids in P. rewrite map_length in P. exact P.
Qed.

(* ------------------------------------------------------------------ *)
(* 5. Pending requests are only ever removed (except by op_subscribe)  *)

Definition txle (c c' : client) : Prop := exists f, k_txs c' = filter f (k_txs c).

Lemma filter_all {A} (l : list A) : filter (fun _ => true) l = l.
Proof. induction l as [|a l IH]; cbn; [reflexivity|]. rewrite IH. reflexivity. Qed.
Lemma filter_none {A} (l : list A) : filter (fun _ => false) l = [].
Proof. induction l as [|a l IH]; cbn; [reflexivity|exact IH]. Qed.
Lemma filter_twice {A} (f g : A -> bool) l : filter g (filter f l) = filter (fun x => f x && g x) l.
Proof.
  induction l as [|a l IH]; cbn [filter]; [reflexivity|].
  destruct (f a); cbn [filter andb]; [destruct (g a)|]; rewrite IH; reflexivity.
Qed.

Lemma txle_eq c c' : k_txs c' = k_txs c -> txle c c'.
Proof. intros E. exists (fun _ => true). rewrite filter_all. exact E. Qed.
Lemma txle_refl c : txle c c.
Proof. apply txle_eq. reflexivity. Qed.
Lemma txle_nil c c' : k_txs c' = [] -> txle c c'.
Proof. intros E. exists (fun _ => false). rewrite filter_none. exact E. Qed.
Lemma txle_trans c c1 c2 : txle c c1 -> txle c1 c2 -> txle c c2.
Proof. intros [f E] [g E']. exists (fun x => f x && g x). rewrite E', E. apply filter_twice. Qed.

Lemma TxInv_txle c c' : TxInv c -> txle c c' -> TxInv c'.
Proof.
  intros [ND WF LE] [f E]. split; unfold pids; rewrite E.
  - apply NoDup_map_filter, ND.
  - apply Forall_filter', WF.
  - pose proof (filter_length_le' f (k_txs c)). lia.
Qed.

Lemma TxInv_fresh c : k_txs c = [] -> TxInv c.
Proof. intros E. split; unfold pids; rewrite E; cbn; [constructor|constructor|unfold tx_limit; lia]. Qed.

(* pure helpers *)

Lemma txle_tx_remove c pid : txle c (tx_remove c pid).
Proof. eexists. reflexivity. Qed.
Lemma txle_lock_cleanup_run c l : txle c (lock_cleanup_run c l).
Proof. destruct l; [apply txle_refl|apply txle_tx_remove|apply txle_eq; reflexivity]. Qed.

Lemma txle_fold_left {X} (f : client -> X -> client) l :
  (forall c x, txle c (f c x)) -> forall c, txle c (fold_left f l c).
Proof.
  intros H. induction l as [|x l IH]; intros c; cbn [fold_left]; [apply txle_refl|].
  eapply txle_trans; [apply H|apply IH].
Qed.

Lemma txle_release_locked c e : txle c (release_locked c e).
Proof.
  unfold release_locked. apply txle_fold_left. intros c' p.
  destruct (snd p); try apply txle_refl.
  eapply txle_trans; [apply txle_lock_cleanup_run|apply txle_eq; reflexivity].
Qed.

Lemma txs_break_pending c : k_txs (break_pending c) = [].
Proof. reflexivity. Qed.
Lemma txs_term_callbacks c : k_txs (term_callbacks c) = [].
Proof. reflexivity. Qed.

Lemma txs_xclose c x : k_txs (xclose c x) = k_txs c.
Proof. unfold xclose. destruct (x =? 0); reflexivity. Qed.
Lemma txs_xsend c x e : k_txs (xsend c x e) = k_txs c.
Proof. unfold xsend. destruct (x =? 0); reflexivity. Qed.

Lemma txle_on_suback c body : txle c (fst (on_suback c body)).
Proof.
  unfold on_suback. cbv zeta.
  repeat match goal with
  | |- txle _ (fst (if ?b then _ else _)) => destruct b; [apply txle_refl|]
  end.
  destruct (tx_find c (u16 body)) as [[rid fso]|]; [|apply txle_refl].
  destruct (negb (_ =? _)%nat).
  - cbn [fst]. destruct (match parked_kind _ _ with Some (PkSub _) => true | _ => false end);
      apply txle_tx_remove.
  - destruct (failed_filters _ _); cbn [fst];
      destruct (match parked_kind _ _ with Some (PkSub _) => true | _ => false end);
      apply txle_tx_remove.
Qed.

Lemma txle_on_unsuback c body : txle c (fst (on_unsuback c body)).
Proof.
  unfold on_unsuback. cbv zeta.
  repeat match goal with
  | |- txle _ (fst (if ?b then _ else _)) => destruct b; [apply txle_refl|]
  end.
  destruct (tx_find c (u16 body)) as [[rid fso]|]; [|apply txle_refl].
  destruct (parked_kind _ _) as [[]|]; apply txle_tx_remove.
Qed.

Lemma txle_on_pingresp c body : txle c (fst (on_pingresp c body)).
Proof.
  unfold on_pingresp. destruct (negb _); [apply txle_refl|].
  destruct (k_ping c); [|apply txle_refl]. cbv zeta.
  destruct (parked_kind _ _) as [[]|]; apply txle_eq; reflexivity.
Qed.

Lemma txs_op_read_backoff c e : k_txs (fst (op_read_backoff c e)) = k_txs c.
Proof.
  unfold op_read_backoff.
  destruct (_ || _); [reflexivity|]. destruct (N.testbit e 1); [reflexivity|].
  destruct (k_rconn c); [reflexivity|]. destruct (N.testbit e 10); reflexivity.
Qed.

(* monadic helpers: te = the pending requests stay as they are, tl = some may be removed *)

Definition te {A} (c : client) (p : client * A) : Prop := k_txs (fst p) = k_txs c.
Definition tl {A} (c : client) (p : client * A) : Prop := txle c (fst p).

Lemma te_tl {A} c (f : M (client * A)) : sat f (te c) -> sat f (tl c).
Proof. intros H. eapply sat_conseq; [exact H|]. intros p E. apply txle_eq, E. Qed.

Lemma tl_pre {A} c c1 (f : M (client * A)) : txle c c1 -> sat f (tl c1) -> sat f (tl c).
Proof. intros L H. eapply sat_conseq; [exact H|]. intros p E. eapply txle_trans; eassumption. Qed.

Ltac te_ret := apply sat_ret; unfold te, tl; cbn [fst]; first [reflexivity | assumption | apply txle_refl | apply txle_eq; reflexivity].

Lemma with_reader_te {A} c (f : rst -> A * rst) : sat (with_reader c f) (te c).
Proof.
  intros w a w' E. unfold with_reader in E. destruct (f (rst_of c w)) as [x s].
  inversion E; subst. split; [eexists; reflexivity|reflexivity].
Qed.

Lemma locked_write_te c cn bufs single : sat (locked_write c cn bufs single) (te c).
Proof.
  unfold locked_write. apply sat_bind_any; [apply conn_write_sat|]. intros r.
  destruct r; try (apply sat_ret; reflexivity);
    (apply sat_bind_any; [first [apply tell_sat | apply sat_ret; exact I]|]);
    intros _; apply sat_ret; reflexivity.
Qed.

Lemma nowait_write_te c bufs single : sat (nowait_write c bufs single) (te c).
Proof.
  unfold nowait_write. destruct (k_wsem c); try (apply sat_ret; reflexivity).
  apply locked_write_te.
Qed.

Lemma op_write_te c bufs single : sat (op_write c bufs single) (te c).
Proof.
  unfold op_write. destruct (k_wsem c); try (apply sat_ret; reflexivity).
  eapply sat_bind; [apply locked_write_te|]. intros [c1 e] H. apply sat_ret. exact H.
Qed.

Lemma to_offline_tl c : sat (to_offline c) (txle c).
Proof.
  unfold to_offline. destruct (k_wsem c);
    try (apply sat_bind_any; [apply tell_sat|]; intros _; apply sat_ret;
         apply txle_nil, txs_break_pending).
  apply sat_bind_any; [apply tell_sat|]. intros _. apply sat_ret, txle_eq. reflexivity.
Qed.

Lemma off_ret_tl {A} c c1 (r : A) :
  txle c c1 -> sat (bind (to_offline c1) (fun c => ret (c, r))) (tl c).
Proof.
  intros L. eapply sat_bind; [apply to_offline_tl|]. intros c' E. apply sat_ret.
  unfold tl. cbn [fst]. eapply txle_trans; eassumption.
Qed.

Lemma handshake_te c cn clean cid : sat (handshake c cn clean cid) (te c).
Proof.
  unfold handshake. cbv zeta. apply sat_bind_any; [apply conn_write_sat|]. intros r.
  destruct r; try (apply sat_ret; reflexivity).
  eapply sat_bind; [apply with_reader_te|]. intros [c1 [p e]] H. unfold te in H. cbn [fst] in H.
  change (k_txs c1 = k_txs c) in H.
  assert (Hc : forall x, k_txs (c1 <| k_rarm := x |>) = k_txs c) by (intros; exact H).
  assert (Hc2 : forall x f, k_txs (c1 <| k_rarm := x |> <| k_rbuf ::= f |>) = k_txs c)
    by (intros; exact H).
  assert (Hc3 : forall x f, k_txs (c1 <| k_rarm := x |> <| k_newsess := true |> <| k_rbuf ::= f |>)
                            = k_txs c) by (intros; exact H).
  destruct e as [[]|]; try apply sat_fail;
  match goal with |- context [if ?b then _ else _] => destruct b end;
    try (apply sat_ret; apply Hc).
  destruct p as [|a [|b [|fl [|code [|]]]]]; try apply sat_fail.
  destruct (negb (code =? 0)); [apply sat_ret, Hc|].
  destruct (fl =? 0); [apply sat_ret, Hc3|].
  destruct (fl =? 1); [|apply sat_ret, Hc].
  destruct clean; apply sat_ret; [apply Hc|apply Hc2].
Qed.

Lemma connect_tl c : sat (connect c) (tl c).
Proof.
  unfold connect. destruct (k_closed c); [te_ret|]. cbv zeta.
  assert (RL : forall c1 e, k_txs c1 = k_txs c -> txle c (release_locked c1 e)).
  { intros c1 e E. eapply txle_trans; [apply txle_eq, E|apply txle_release_locked]. }
  apply sat_bind_any; [apply rugged_load_sat|]. intros l.
  destruct l as [cidv|e]; [|apply sat_ret; unfold tl; cbn [fst]; apply RL; reflexivity].
  apply sat_bind_any; [apply ask_dial_sat|]. intros ok.
  destruct ok; cbn [negb]; [|apply sat_ret; unfold tl; cbn [fst]; apply RL; reflexivity].
  eapply sat_bind; [apply handshake_te|]. intros [c1 h] H. unfold te in H. cbn [fst] in H.
  change (k_txs c1 = k_txs c) in H.
  destruct h as [|e].
  2:{ apply sat_bind_any; [apply tell_sat|]. intros _. apply sat_ret.
      unfold tl; cbn [fst]. apply RL. exact H. }
  apply sat_bind_any; [apply resend_sat|]. intros [s1 e1].
  destruct (negb (e1 =? 0)).
  { apply sat_bind_any; [apply tell_sat|]. intros _. apply sat_ret.
    unfold tl; cbn [fst]. apply RL. exact H. }
  apply sat_bind_any; [apply resend_sat|]. intros [s2 e2].
  destruct (negb (e2 =? 0)).
  { apply sat_bind_any; [apply tell_sat|]. intros _. apply sat_ret.
    unfold tl; cbn [fst]. apply RL. exact H. }
  match goal with |- context [if ?b then _ else _] => destruct b end; [apply sat_fail|].
  apply sat_ret. unfold tl. cbn [fst]. apply txle_eq. exact H.
Qed.

(* packet handlers *)

Lemma on_publish_te c head body : sat (on_publish c head body) (te c).
Proof.
  unfold on_publish. cbv zeta.
  repeat match goal with |- sat (if ?b then _ else _) _ => destruct b; [te_ret|] end.
  match goal with |- sat (if ?b then _ else _) _ => destruct b end.
  { destruct (negb _); te_ret. }
  apply sat_bind_any; [apply rugged_load_sat|]. intros l.
  destruct l as [[v|]|e]; [| |te_ret]; destruct (negb _); te_ret.
Qed.

Lemma on_puback_te c body : sat (on_puback c body) (te c).
Proof.
  unfold on_puback. cbv zeta.
  repeat match goal with |- sat (if ?b then _ else _) _ => destruct b; [te_ret|] end.
  destruct (k_q1 c) as [|x q]; [te_ret|].
  apply sat_bind_any; [apply store_delete_sat|]. intros ok. destruct (negb ok); [te_ret|].
  apply sat_ret. unfold te. cbn [fst]. rewrite txs_xclose. reflexivity.
Qed.

Lemma on_pubcomp_te c body : sat (on_pubcomp c body) (te c).
Proof.
  unfold on_pubcomp. cbv zeta.
  repeat match goal with |- sat (if ?b then _ else _) _ => destruct b; [te_ret|] end.
  destruct (k_q2 c) as [|x q]; [te_ret|].
  apply sat_bind_any; [apply store_delete_sat|]. intros ok. destruct (negb ok); [te_ret|].
  apply sat_ret. unfold te. cbn [fst]. rewrite txs_xclose. reflexivity.
Qed.

Lemma on_pubrec_te c body : sat (on_pubrec c body) (te c).
Proof.
  unfold on_pubrec. cbv zeta.
  repeat match goal with |- sat (if ?b then _ else _) _ => destruct b; [te_ret|] end.
  eapply sat_bind; [apply rugged_save_sat|]. intros [c1 ok] E. cbn [fst] in E. subst c1.
  destruct ok; cbn [negb]; [|te_ret].
  eapply sat_bind; [apply nowait_write_te|]. intros [c2 e] E. unfold te in E. cbn [fst] in E.
  change (k_txs c2 = k_txs c) in E.
  destruct (negb (e =? 0)); apply sat_ret; exact E.
Qed.

Lemma on_pubrel_te c body : sat (on_pubrel c body) (te c).
Proof.
  unfold on_pubrel. cbv zeta.
  repeat match goal with |- sat (if ?b then _ else _) _ => destruct b; [te_ret|] end.
  apply sat_bind_any; [apply store_delete_sat|]. intros ok. destruct (negb ok); [te_ret|].
  destruct (negb (len (k_pack c) =? 0)); [te_ret|].
  eapply sat_bind; [apply nowait_write_te|]. intros [c2 e] E. unfold te in E. cbn [fst] in E.
  change (k_txs c2 = k_txs c) in E.
  destruct (negb (e =? 0)); apply sat_ret; exact E.
Qed.

Lemma dispatch_tl c head body : sat (dispatch c head body) (tl c).
Proof.
  unfold dispatch.
  repeat match goal with
  | |- context [match ?x with _ => _ end] => is_var x; destruct x
  | |- context [match head / 16 with _ => _ end] => destruct (head / 16)
  end;
  first [ solve [te_ret]
        | apply te_tl, on_publish_te | apply te_tl, on_puback_te | apply te_tl, on_pubrec_te
        | apply te_tl, on_pubrel_te | apply te_tl, on_pubcomp_te
        | apply sat_ret, txle_on_suback | apply sat_ret, txle_on_unsuback
        | apply sat_ret, txle_on_pingresp ].
Qed.

(* the read routine *)

Lemma read_loop_tl fuel : forall c, sat (read_loop fuel c) (tl c).
Proof.
  induction fuel as [|f IH]; intros c; cbn [read_loop]; [apply sat_fail|].
  eapply sat_bind; [apply with_reader_te|]. intros [c1 pk] E. unfold te in E. cbn [fst] in E.
  apply (tl_pre c c1); [apply txle_eq, E|]. clear E c.
  destruct pk as [head body|head size partial|e proto|].
  - eapply sat_bind; [apply dispatch_tl|]. intros [c2 h] L. unfold tl in L. cbn [fst] in L.
    destruct h as [|e|topic msg|].
    + apply (tl_pre c1 c2 _ L). eapply tl_pre; [|apply IH]. apply txle_eq. reflexivity.
    + apply off_ret_tl, L.
    + apply sat_ret. unfold tl. cbn [fst]. exact L.
    + eapply sat_bind; [apply nowait_write_te|]. intros [c3 e] E. unfold te in E. cbn [fst] in E.
      assert (L3 : txle c1 c3) by (eapply txle_trans; [exact L|apply txle_eq, E]).
      destruct (negb (e =? 0)); [apply off_ret_tl, L3|].
      apply (tl_pre c1 c3 _ L3). eapply tl_pre; [|apply IH]. apply txle_eq. reflexivity.
  - eapply sat_bind; [apply on_publish_te|]. intros [c2 h] E2. unfold te in E2. cbn [fst] in E2.
    assert (L : txle c1 c2) by apply txle_eq, E2.
    destruct h as [|e|topic msg|].
    + apply sat_fail.
    + apply off_ret_tl, L.
    + apply sat_ret. unfold tl. cbn [fst]. apply txle_eq. exact E2.
    + eapply sat_bind; [apply with_reader_te|]. intros [c3 d] E3. unfold te in E3. cbn [fst] in E3.
      assert (L3 : txle c1 c3) by (apply txle_eq; congruence).
      destruct d as [[]|]; try apply sat_fail; try (apply off_ret_tl, L3).
      eapply sat_bind; [apply nowait_write_te|]. intros [c4 e] E4. unfold te in E4. cbn [fst] in E4.
      assert (L4 : txle c1 c4) by (apply txle_eq; congruence).
      destruct (negb (e =? 0)); [apply off_ret_tl, L4|].
      apply (tl_pre c1 c4 _ L4). eapply tl_pre; [|apply IH]. apply txle_eq. reflexivity.
  - destruct e; try apply sat_fail; try (apply off_ret_tl, txle_refl).
    eapply sat_bind; [apply to_offline_tl|]. intros c2 L2.
    eapply sat_bind; [apply connect_tl|]. intros [c3 e] L3. unfold tl in L3. cbn [fst] in L3.
    assert (L : txle c1 c3) by (eapply txle_trans; eassumption).
    destruct (negb (e =? 0)); [apply sat_ret; exact L|].
    apply (tl_pre c1 c3 _ L). apply IH.
  - apply off_ret_tl, txle_refl.
Qed.

Lemma read_slices_body_tl c : sat (read_slices_body c) (tl c).
Proof.
  unfold read_slices_body.
  eapply sat_bind with (P := tl c).
  { destruct (k_rconn c); [te_ret|apply connect_tl]. }
  intros [c1 e] L1. unfold tl in L1. cbn [fst] in L1.
  apply (tl_pre c c1 _ L1). clear L1 c.
  destruct (negb (e =? 0)); [te_ret|].
  eapply sat_bind with (P := te c1).
  { destruct (k_big c1); [|te_ret]. cbv zeta.
    eapply sat_conseq; [apply with_reader_te|]. intros p H. exact H. }
  intros [c2 e2] E. unfold te in E. cbn [fst] in E.
  apply (tl_pre c1 c2); [apply txle_eq, E|]. clear E c1.
  destruct e2 as [[]|]; try apply sat_fail; try (apply off_ret_tl, txle_refl).
  cbv zeta.
  match goal with |- context [k_pack ?x] => set (c3 := x) end.
  assert (E3 : k_txs c3 = k_txs c2) by reflexivity.
  apply (tl_pre c2 c3); [apply txle_eq, E3|]. clearbody c3. clear E3 c2.
  eapply sat_bind with (P := te c3).
  { destruct (k_pack c3) as [|h t] eqn:K; [te_ret|].
    eapply sat_bind with (P := te c3).
    { destruct (h / 16 =? 5); [|te_ret].
      eapply sat_conseq; [apply rugged_save_sat|]. intros p Ep. unfold te. rewrite Ep. reflexivity. }
    intros [c4 ok] E4. unfold te in E4. cbn [fst] in E4.
    destruct (negb ok); [apply sat_ret; exact E4|].
    eapply sat_bind; [apply nowait_write_te|]. intros [c5 e5] E5. unfold te in E5. cbn [fst] in E5.
    destruct (negb (e5 =? 0)); apply sat_ret; unfold te; cbn [fst]; [congruence|].
    change (k_txs c5 = k_txs c3). congruence. }
  intros [c6 e6] E6. unfold te in E6. cbn [fst] in E6.
  assert (L6 : txle c3 c6) by apply txle_eq, E6.
  destruct e6 as [[e' off]|].
  - destruct off; [apply off_ret_tl, L6|].
    eapply sat_bind with (P := fun x => x = c6); [apply sat_ret; reflexivity|].
    intros ? ->. apply sat_ret. exact L6.
  - apply (tl_pre c3 c6 _ L6).
    apply (sat_world (fun w => S (S (length (t_rd w) + length (t_dial w)))) (fun n => read_loop n c6)).
    intros n. apply read_loop_tl.
Qed.

Lemma read_slices_tl c : sat (read_slices c) (tl c).
Proof.
  unfold read_slices.
  eapply sat_bind; [apply read_slices_body_tl|]. intros [c1 r] L1.
  destruct r; try (apply sat_ret; exact L1).
  destruct (is_closed_err e); apply sat_ret; [|exact L1].
  unfold tl. cbn [fst]. apply txle_nil, txs_term_callbacks.
Qed.

(* the other operations *)

Lemma read_all_op_te c : sat (read_all_op c) (te c).
Proof.
  unfold read_all_op. destruct (k_big c); [|te_ret]. cbv zeta.
  eapply sat_bind; [apply with_reader_te|]. intros [c1 r] E. unfold te in E. cbn [fst] in E.
  change (k_txs c1 = k_txs c) in E.
  destruct r as [bs|[]]; try (apply sat_ret; exact E); try apply sat_fail;
    (apply sat_bind_any; [apply tell_sat|]; intros _; apply sat_ret; exact E).
Qed.

Lemma op_publish_te c retain msg topic : sat (op_publish c retain msg topic) (te c).
Proof.
  unfold op_publish. cbv zeta.
  destruct (deny_of _); [te_ret|].
  destruct (packet_max <? _); [te_ret|].
  eapply sat_bind; [apply op_write_te|]. intros [c1 r] E.
  destruct r; apply sat_ret; exact E.
Qed.

Lemma op_publish_persisted_te c level retain msg topic :
  sat (op_publish_persisted c level retain msg topic) (te c).
Proof.
  unfold op_publish_persisted. cbv zeta.
  repeat match goal with |- sat (if ?b then _ else _) _ => destruct b; [te_ret|] end.
  eapply sat_bind; [apply rugged_save_sat|]. intros [c1 ok] E. cbn [fst] in E. subst c1.
  destruct ok; cbn [negb]; [|te_ret].
  match goal with |- sat (if ?b then _ else _) _ => destruct b end.
  { apply sat_ret. unfold te. cbn [fst]. rewrite txs_xsend. destruct (level =? 1); reflexivity. }
  eapply sat_bind; [apply nowait_write_te|]. intros [c2 e] E. unfold te in E. cbn [fst] in E.
  assert (E' : k_txs c2 = k_txs c) by (destruct (level =? 1); exact E).
  destruct (negb (e =? 0)); apply sat_ret; unfold te; cbn [fst]; rewrite ?txs_xsend; [exact E'|].
  destruct (level =? 1); exact E'.
Qed.

Lemma op_ping_te c : sat (op_ping c) (te c).
Proof.
  unfold op_ping. cbv zeta. change (k_ping (c <| k_nextr ::= N.succ |>)) with (k_ping c).
  destruct (k_ping c); [te_ret|].
  eapply sat_bind; [apply op_write_te|]. intros [c2 r] E.
  destruct r as [e|]; [destruct (e =? 0)|]; apply sat_ret; exact E.
Qed.

Lemma op_quit_tl c rid : sat (op_quit c rid) (tl c).
Proof.
  unfold op_quit. destruct (parked_kind c rid) as [[l|pid|pid|]|]; try te_ret.
  - apply sat_ret. unfold tl. cbn [fst].
    eapply txle_trans; [apply txle_lock_cleanup_run|apply txle_eq; reflexivity].
  - apply sat_ret. apply txle_tx_remove.
  - apply sat_ret. apply txle_tx_remove.
  - destruct (k_ping c); [destruct (_ =? _)|]; te_ret.
Qed.

Lemma op_close_tl c : sat (op_close c) (tl c).
Proof.
  unfold op_close. destruct (k_closed c); [te_ret|].
  apply sat_bind_any.
  { destruct (k_wsem c); first [apply tell_sat|apply sat_ret; exact I]. }
  intros _. apply sat_ret. unfold tl. cbn [fst].
  eapply txle_trans; [|apply txle_release_locked]. apply txle_eq. reflexivity.
Qed.

Lemma op_disconnect_tl c : sat (op_disconnect c) (tl c).
Proof.
  assert (RL : forall c1 e, k_txs c1 = k_txs c -> txle c (release_locked c1 e)).
  { intros c1 e E. eapply txle_trans; [apply txle_eq, E|apply txle_release_locked]. }
  unfold op_disconnect. destruct (k_closed c); [te_ret|].
  destruct (k_wsem c);
    try (apply sat_ret; unfold tl; cbn [fst]; apply RL; reflexivity).
  apply sat_bind_any; [apply conn_write_sat|]. intros r.
  apply sat_bind_any; [apply tell_sat|]. intros _.
  apply sat_ret. unfold tl. cbn [fst]. apply RL. reflexivity.
Qed.

Definition fresh_txs (p : option client * retv) : Prop :=
  match fst p with Some c => k_txs c = [] | None => True end.

Lemma op_adopt_fresh cf z1 z2 : sat (op_adopt cf z1 z2) fresh_txs.
Proof.
  unfold op_adopt. apply sat_bind_any; [apply ask_store_sat|]. intros a.
  destruct a as [keys|v| |]; try apply sat_fail; [|apply sat_ret; exact I].
  apply sat_bind_any; [apply adopt_scan_sat|]. intros r.
  destruct r as [acc|e]; [|apply sat_ret; exact I].
  destruct (clean_seq (keys_of (a_alo acc))) as [alo g1].
  destruct (clean_seq (keys_of (a_eo acc))) as [eo g2].
  destruct (clean_seq (keys_of (a_rel acc))) as [rel g3].
  cbv zeta.
  match goal with |- sat (if ?b then _ else _) _ => destruct b end; [apply sat_ret; exact I|].
  apply sat_ret. unfold fresh_txs. cbn [fst].
  match goal with |- k_txs (?x <| k_q1 := _ |> <| k_q2 := _ |>) = [] => change (k_txs x = []) end.
  match goal with |- context [if ?g then @nil N else rel] =>
    generalize (if g then @nil N else rel) end.
  intros rel'. destruct eo; destruct rel'; destruct alo; reflexivity.
Qed.

Lemma op_init_fresh cf cid : sat (op_init cf cid) fresh_txs.
Proof.
  unfold op_init. destruct (deny_of _); [apply sat_ret; exact I|].
  apply sat_bind_any; [apply ask_store_sat|]. intros a.
  destruct a as [[|k ks]|v| |]; try apply sat_fail; try (apply sat_ret; exact I).
  cbv zeta. eapply sat_bind; [apply rugged_save_sat|]. intros [c ok] E. cbn [fst] in E. subst c.
  destruct ok; apply sat_ret; [reflexivity|exact I].
Qed.

(* ------------------------------------------------------------------ *)
(* 6. Subscribe / Unsubscribe: the only writer that adds an entry      *)

Lemma E_submit_not_max r : E_submit r <> E_max.
Proof. destruct r; vm_compute; discriminate. Qed.

Lemma locked_write_err c cn bufs single :
  sat (locked_write c cn bufs single) (fun p => k_txs (fst p) = k_txs c /\ snd p <> E_max).
Proof.
  unfold locked_write. apply sat_bind_any; [apply conn_write_sat|]. intros r.
  destruct r; try (apply sat_ret; split; [reflexivity|vm_compute; discriminate]);
    (apply sat_bind_any; [first [apply tell_sat | apply sat_ret; exact I]|]);
    intros _; apply sat_ret; (split; [reflexivity|apply E_submit_not_max]).
Qed.

Lemma op_write_err c bufs single :
  sat (op_write c bufs single) (fun p => k_txs (fst p) = k_txs c /\ snd p <> WrDone E_max).
Proof.
  unfold op_write. destruct (k_wsem c); try (apply sat_ret; split; [reflexivity|vm_compute; discriminate]).
  eapply sat_bind; [apply locked_write_err|]. intros [c1 e] [H Hn]. apply sat_ret.
  split; [exact H|]. cbn [snd] in *. intros X. inversion X. contradiction.
Qed.

Definition space_of (sub : bool) : N := if sub then sub_space else unsub_space.

Lemma space_of_ok sub : un_space (space_of sub).
Proof. destruct sub; [left|right]; reflexivity. Qed.

(* endTx of an identifier nobody else holds removes exactly the entry *)
Lemma filter_pid_notin pid (l : list txent) :
  ~ In pid (map tx_pid l) -> filter (fun t => negb (fst (fst t) =? pid)) l = l.
Proof.
  induction l as [|a l IH]; cbn [map filter]; intros H; [reflexivity|].
  destruct (N.eqb_spec (fst (fst a)) pid) as [E|E]; cbn [negb].
  - exfalso. apply H. left. exact E.
  - rewrite IH; [reflexivity|]. intros X. apply H. right. exact X.
Qed.

(* what a Subscribe/Unsubscribe call does to the pending set.  No precondition. *)
Definition sub_post (c : client) (sub : bool) (fs : list (list N)) (p : client * retv) : Prop :=
  (k_txs (fst p) = k_txs c /\
   exists e, snd p = RetErr e /\ e <> 0 /\ (e = E_max -> (tx_limit <= length (k_txs c))%nat))
  \/
  (snd p = RetParked /\ (length (k_txs c) < tx_limit)%nat /\
   exists pid, k_txs (fst p) = (pid, k_nextr c, if sub then Some fs else None) :: k_txs c /\
               ~ In pid (pids c) /\ pid <> 0 /\ pid < 65536 /\ in_un_space pid (space_of sub)).

Lemma op_subscribe_post c sub level fs : sat (op_subscribe c sub level fs) (sub_post c sub fs).
Proof.
  assert (Deny : forall c1 : client, k_txs c1 = k_txs c -> sub_post c sub fs (c1, RetErr E_deny)).
  { intros c1 E. left. split; [exact E|]. exists E_deny. split; [reflexivity|].
    split; vm_compute; [discriminate|intros X; discriminate]. }
  unfold op_subscribe. cbv zeta.
  destruct fs as [|f0 fs0]; [apply sat_ret, Deny; reflexivity|].
  set (fs := f0 :: fs0) in *. clearbody fs.
  destruct (any_denied fs); [apply sat_ret, Deny; reflexivity|].
  destruct (packet_max <? _); [apply sat_ret, Deny; reflexivity|].
  change (k_txs (c <| k_nextr ::= N.succ |>)) with (k_txs c).
  destruct (511 <? N.of_nat (length (k_txs c))) eqn:G.
  { apply sat_ret. left. split; [reflexivity|]. exists E_max. split; [reflexivity|].
    split; [vm_compute; discriminate|]. intros _. apply N.ltb_lt in G. unfold tx_limit. lia. }
  apply N.ltb_ge in G. assert (Hlen : (length (k_txs c) < tx_limit)%nat) by (unfold tx_limit; lia).
  change (if sub then sub_space else unsub_space) with (space_of sub).
  destruct (tx_pick 1024 (c <| k_nextr ::= N.succ |>) (space_of sub)) as [c1 pid] eqn:P.
  apply tx_pick_1024 in P; [|apply space_of_ok|
    change (k_txs (c <| k_nextr ::= N.succ |>)) with (k_txs c); unfold tx_limit in Hlen; lia].
  change (pids (c <| k_nextr ::= N.succ |>)) with (pids c) in P.
  change (k_txs (c <| k_nextr ::= N.succ |>)) with (k_txs c) in P.
  destruct P as (Hn & Hz & Hlt & Hsp & Etx).
  change (k_nextr c) with (k_nextr c) in *.
  set (ent := (pid, k_nextr c, if sub then Some fs else None)).
  eapply sat_bind; [apply op_write_err|]. intros [c2 r] [E Hne]. cbn [fst snd] in E, Hne.
  change (k_txs c2 = ent :: k_txs c1) in E. rewrite Etx in E.
  assert (New : forall c3 : client, k_txs c3 = k_txs c2 -> sub_post c sub fs (c3, RetParked)).
  { intros c3 E3. right. split; [reflexivity|]. split; [exact Hlen|]. exists pid.
    split; [cbn [fst]; rewrite E3; exact E|]. auto. }
  destruct r as [e|]; [|apply sat_ret, New; reflexivity].
  destruct (N.eqb_spec e 0) as [->|Hnz]; [apply sat_ret, New; reflexivity|].
  apply sat_ret. left. cbn [fst snd]. split.
  - unfold tx_remove. cbn. rewrite E. cbn [filter fst]. rewrite N.eqb_refl. cbn [negb].
    apply filter_pid_notin. exact Hn.
  - exists e. split; [reflexivity|]. split; [exact Hnz|]. intros ->. exfalso. apply Hne. reflexivity.
Qed.

Lemma TxInv_eq c c' : k_txs c' = k_txs c -> TxInv c -> TxInv c'.
Proof. intros E H. eapply TxInv_txle; [exact H|apply txle_eq, E]. Qed.

Lemma tx_wf_new pid rid sub fs :
  pid <> 0 -> pid < 65536 -> in_un_space pid (space_of sub) ->
  tx_wf (pid, rid, if sub then Some fs else None).
Proof. intros A B C. unfold tx_wf, tx_pid, tx_space. cbn [fst snd]. destruct sub; auto. Qed.

Lemma sub_post_inv c sub fs p : TxInv c -> sub_post c sub fs p -> TxInv (fst p).
Proof.
  intros Inv [[E _]|(_ & Hlen & pid & E & Hn & Hz & Hlt & Hsp)].
  - eapply TxInv_eq; eassumption.
  - destruct Inv as [ND WF LE]. split; unfold pids; rewrite E.
    + cbn [map]. constructor; assumption.
    + constructor; [apply tx_wf_new; assumption|exact WF].
    + cbn [length]. lia.
Qed.

(* (c) With valid arguments ErrMax is returned exactly when 512 requests are pending;
   the limit is tested before lockWrite, so this holds for a closed or disconnected
   client as well, and nothing is called in that case. *)
Definition sub_args_ok (sub : bool) (fs : list (list N)) : Prop :=
  fs <> [] /\ any_denied fs = false /\
  (packet_max <? (if sub then subscribe_size fs else unsubscribe_size fs)) = false.

Theorem op_subscribe_errmax c sub level fs w c' r w' :
  sub_args_ok sub fs -> op_subscribe c sub level fs w = Some ((c', r), w') ->
  (r = RetErr E_max <-> (tx_limit <= length (k_txs c))%nat).
Proof.
  intros (Hne & Hd & Hs) H. split.
  - intros ->. destruct (proj2 (op_subscribe_post c sub level fs _ _ _ H)) as [[_ (e & Er & _ & Hm)]|[Er _]];
      cbn [snd] in Er; [|discriminate]. inversion Er; subst. apply Hm. reflexivity.
  - intros Hl. unfold op_subscribe in H. cbv zeta in H.
    destruct fs as [|f0 fs0]; [contradiction|]. rewrite Hd, Hs in H.
    change (k_txs (c <| k_nextr ::= N.succ |>)) with (k_txs c) in H.
    assert (G : (511 <? N.of_nat (length (k_txs c))) = true) by (apply N.ltb_lt; unfold tx_limit in Hl; lia).
    rewrite G in H. rinv H. inversion H. reflexivity.
Qed.

Theorem op_subscribe_errmax_silent c sub level fs w c' w' :
  op_subscribe c sub level fs w = Some ((c', RetErr E_max), w') ->
  w' = w /\ k_txs c' = k_txs c /\ (tx_limit <= length (k_txs c))%nat.
Proof.
  intros H. pose proof (proj2 (op_subscribe_post c sub level fs _ _ _ H)) as P.
  destruct P as [[E (e & Er & _ & Hm)]|[Er _]]; cbn [fst snd] in *; [|discriminate].
  inversion Er; subst e. specialize (Hm eq_refl). split; [|auto].
  unfold op_subscribe in H. cbv zeta in H.
  destruct fs as [|f0 fs0]; [rinv H; inversion H|].
  destruct (any_denied _); [rinv H; inversion H|].
  destruct (packet_max <? _); [rinv H; inversion H|].
  change (k_txs (c <| k_nextr ::= N.succ |>)) with (k_txs c) in H.
  assert (G : (511 <? N.of_nat (length (k_txs c))) = true) by (apply N.ltb_lt; unfold tx_limit in Hm; lia).
  rewrite G in H. rinv H. exact E0.
Qed.

(* ------------------------------------------------------------------ *)
(* 7. Every step preserves the invariant                               *)

(* what one API call can do to the pending set *)
Definition step_txs (c : client) (o : op) (p : client * retv) : Prop :=
  match o with
  | OpSub _ fs => sub_post c true fs p
  | OpUnsub fs => sub_post c false fs p
  | OpAdopt _ _ => k_txs (fst p) = [] \/ k_txs (fst p) = k_txs c
  | _ => txle c (fst p)
  end.

Theorem step_txs_sat c o : sat (step c o) (step_txs c o).
Proof.
  unfold step. cbv zeta.
  set (c0 := c <| k_done := [] |> <| k_xev := [] |>).
  assert (E0 : k_txs c0 = k_txs c) by reflexivity.
  assert (K : forall A (f : M (client * A)), sat f (tl c0) -> sat f (fun p => txle c (fst p))).
  { intros A f H. eapply sat_conseq; [exact H|]. intros p L. eapply txle_trans; [apply txle_eq, E0|exact L]. }
  destruct o; unfold step_txs.
  - apply K, read_slices_tl.
  - apply K, te_tl, read_all_op_te.
  - apply K, te_tl, op_publish_te.
  - apply K, te_tl, op_publish_persisted_te.
  - apply (op_subscribe_post c0 true level fs).
  - apply (op_subscribe_post c0 false 0 fs).
  - apply K, te_tl, op_ping_te.
  - apply K, op_quit_tl.
  - apply K, op_close_tl.
  - apply K, op_disconnect_tl.
  - eapply sat_bind; [apply op_adopt_fresh|]. intros [[c1|] r] F; apply sat_ret; cbn [fst]; [|right; exact E0].
    left. unfold fresh_txs in F. cbn [fst] in F. exact F.
  - apply sat_ret. apply txle_eq. rewrite txs_op_read_backoff. exact E0.
Qed.

Lemma step_txs_inv c o p : TxInv c -> step_txs c o p -> TxInv (fst p).
Proof.
  intros Inv H. destruct o; unfold step_txs in H;
    try (eapply TxInv_txle; [exact Inv|exact H]);
    try (eapply sub_post_inv; [exact Inv|exact H]).
  destruct H as [H|H]; [apply TxInv_fresh, H|eapply TxInv_eq; eassumption].
Qed.

(* (b) preservation: every operation, every world *)
Theorem step_TxInv : forall c o w c' r w',
  TxInv c -> step c o w = Some ((c', r), w') -> TxInv c'.
Proof.
  intros c o w c' r w' Inv H.
  exact (step_txs_inv c o (c', r) Inv (proj2 (step_txs_sat c o _ _ _ H))).
Qed.

Theorem new_client_TxInv cf rseq : TxInv (new_client cf rseq).
Proof. apply TxInv_fresh. reflexivity. Qed.

Theorem op_init_TxInv cf cid w c r w' : op_init cf cid w = Some ((Some c, r), w') -> TxInv c.
Proof. intros H. apply TxInv_fresh. exact (proj2 (op_init_fresh cf cid _ _ _ H)). Qed.

Theorem op_adopt_TxInv cf z1 z2 w c r w' : op_adopt cf z1 z2 w = Some ((Some c, r), w') -> TxInv c.
Proof. intros H. apply TxInv_fresh. exact (proj2 (op_adopt_fresh cf z1 z2 _ _ _ H)). Qed.

(* every client state the sequential interface can be in (InboundProofs.reach: any worlds,
   scripted or genuine Persistence) *)
Theorem reach_TxInv c : reach c -> TxInv c.
Proof.
  induction 1 as [cf rseq|cf cid w c r w' H|c o w c' r w' _ IH H].
  - apply new_client_TxInv.
  - exact (op_init_TxInv _ _ _ _ _ _ H).
  - exact (step_TxInv _ _ _ _ _ _ IH H).
Qed.

(* the closed system of Outbound.v: any history of operations (OpAdopt included) under
   any environment scripts *)
Theorem exec_TxInv s o tp s' r log : TxInv (sy_c s) -> exec s o tp = Some (s', r, log) -> TxInv (sy_c s').
Proof.
  unfold exec. intros Inv H.
  destruct (step (sy_c s) o (world_of (sy_m s) tp)) as [[[c' r'] w']|] eqn:St; [|discriminate].
  inversion H; subst. cbn [sy_c]. exact (step_TxInv _ _ _ _ _ _ Inv St).
Qed.

Theorem run_TxInv : forall h s, TxInv (sy_c s) -> TxInv (sy_c (run s h)).
Proof.
  induction h as [|[o tp] h IH]; intros s Inv; cbn [run]; [exact Inv|].
  destruct (exec s o tp) as [[[s' r] log]|] eqn:E; [|apply IH, Inv].
  apply IH. exact (exec_TxInv _ _ _ _ _ _ Inv E).
Qed.

Theorem init_sys_TxInv cf cid tp s0 : init_sys cf cid tp = Some s0 -> TxInv (sy_c s0).
Proof.
  unfold init_sys. intros H.
  destruct (op_init cf cid (world_of [] tp)) as [[[[c|] r] w]|] eqn:I; try discriminate.
  inversion H; subst. cbn [sy_c]. exact (op_init_TxInv _ _ _ _ _ _ I).
Qed.

Theorem reachable_TxInv s : reachable s -> TxInv (sy_c s).
Proof.
  intros (cf & cid & tp0 & h & s0 & Hi & ->). apply run_TxInv. exact (init_sys_TxInv _ _ _ _ Hi).
Qed.

(* ------------------------------------------------------------------ *)
(* 8. What the invariant says, spelled out                             *)

Lemma NoDup_map_inj {A B} (f : A -> B) l x y :
  NoDup (map f l) -> In x l -> In y l -> f x = f y -> x = y.
Proof.
  induction l as [|a l IH]; cbn [map]; intros ND Hx Hy E; [contradiction|].
  inversion ND as [|? ? Hn Hd]; subst.
  destruct Hx as [->|Hx], Hy as [->|Hy]; auto.
  - exfalso. apply Hn. rewrite E. apply in_map, Hy.
  - exfalso. apply Hn. rewrite <- E. apply in_map, Hx.
Qed.

(* two pending requests never share a packet identifier, whatever their kind; a
   Subscribe and an Unsubscribe cannot even come close; identifiers are non-zero 16-bit
   values below the publish spaces *)
Theorem TxInv_distinct c t t' :
  TxInv c -> In t (k_txs c) -> In t' (k_txs c) -> tx_pid t = tx_pid t' -> t = t'.
Proof. intros [ND _ _]. apply NoDup_map_inj. exact ND. Qed.

Theorem TxInv_range c t : TxInv c -> In t (k_txs c) ->
  tx_pid t <> 0 /\
  match snd t with
  | Some _ => 24576 <= tx_pid t < 32768      (* subscribeIDSpace 0x6000..0x7fff *)
  | None => 16384 <= tx_pid t < 24576        (* unsubscribeIDSpace 0x4000..0x5fff *)
  end.
Proof.
  intros [_ WF _] Hin. rewrite Forall_forall in WF. destruct (WF _ Hin) as (A & _ & C).
  split; [exact A|]. unfold tx_space in C.
  destruct (snd t); [apply in_sub_range|apply in_unsub_range]; exact C.
Qed.

Theorem TxInv_limit c : TxInv c -> (length (k_txs c) <= 512)%nat.
Proof. intros [_ _ L]. exact L. Qed.

(* tx_find is the lookup in a map: it returns the only entry with that identifier *)
Theorem TxInv_find c t : TxInv c -> In t (k_txs c) ->
  tx_find c (tx_pid t) = Some (snd (fst t), snd t).
Proof.
  intros Inv Hin. unfold tx_find.
  destruct (filter (fun t0 => fst (fst t0) =? tx_pid t) (k_txs c)) as [|[[p r] f] l] eqn:F.
  - exfalso. assert (X : In t (filter (fun t0 => fst (fst t0) =? tx_pid t) (k_txs c))).
    { apply filter_In. split; [exact Hin|]. apply N.eqb_refl. }
    rewrite F in X. exact X.
  - assert (X : In (p, r, f) (filter (fun t0 => fst (fst t0) =? tx_pid t) (k_txs c))) by (rewrite F; left; reflexivity).
    apply filter_In in X. destruct X as [X1 X2]. apply N.eqb_eq in X2.
    rewrite (TxInv_distinct c _ _ Inv Hin X1 (eq_sym X2)). reflexivity.
Qed.

(* a Subscribe/Unsubscribe that is accepted gets an identifier no pending request holds,
   in every state satisfying the invariant the loop of startTx ends within fuel *)
Theorem op_subscribe_fresh_id c sub level fs w c' w' :
  op_subscribe c sub level fs w = Some ((c', RetParked), w') ->
  exists pid, k_txs c' = (pid, k_nextr c, if sub then Some fs else None) :: k_txs c /\
              ~ In pid (pids c) /\ pid <> 0 /\ pid < 65536 /\ in_un_space pid (space_of sub).
Proof.
  intros H. destruct (proj2 (op_subscribe_post c sub level fs _ _ _ H)) as [[_ (e & Er & _)]|(_ & _ & P)];
    [discriminate|exact P].
Qed.

(* non-vacuity: two Subscribes, then the counter is set back (as after a wrap-around of
   the 13 bits) so that the third Subscribe finds its first two candidates taken and skips
   them; then an Unsubscribe *)
Definition ex_tx_cfg : scfg :=
  mkScfg {| cfg_user := []; cfg_pass := None; cfg_will := None; cfg_keepalive := 0; cfg_clean := false |}
         true 4 4 256 0 0.
Definition ex_tx_client : client :=
  new_client ex_tx_cfg 0 <| k_rconn := Some 0 |> <| k_wsem := WsConn 0 |> <| k_csem := Some 0 |>
             <| k_nconn := 1 |> <| k_online := true |> <| k_txn := 8191 |>.
Definition ex_tx_world : world :=
  mkWorld [] [] (Some []) [] [(100, WOk); (100, WOk); (100, WOk); (100, WOk)] [] [].
Definition ex_tx_run : option (list (N * N * option (list (list N))) * N) :=
  match step ex_tx_client (OpSub 1 [[97]]) ex_tx_world with
  | Some ((c1, _), w1) =>
    match step c1 (OpSub 0 [[98]; [99]]) w1 with
    | Some ((c2, _), w2) =>
      match step (c2 <| k_txn := 8191 |>) (OpSub 2 [[100]]) w2 with
      | Some ((c3, _), w3) =>
        match step c3 (OpUnsub [[97]]) w3 with
        | Some ((c4, _), _) => Some (k_txs c4, k_txn c4)
        | None => None
        end
      | None => None
      end
    | None => None
    end
  | None => None
  end.

Example tx_example :
  ex_tx_run = Some ([(16384 + 2, 3, None); (24576 + 1, 2, Some [[100]]);
                     (24576, 1, Some [[98]; [99]]); (24576 + 8191, 0, Some [[97]])], 8195).
Proof. vm_compute. reflexivity. Qed.
