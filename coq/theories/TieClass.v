(* Tie (b), classifier part: where /repo's sources still declare a constant (or still have the statement
   shape a value is read from), the value is the one the hand-written model uses.
   coq/gen/GenConsts.v is regenerated from mqtt.go, client.go and request.go on every run
   (gen/gen.py) as `option N`: `Some v` is what the source says now, `None` means that the
   declaration was not found (renamed, rewritten) -- which is no disagreement; the behaviour is
   then tied by the correspondence check alone and the run's evidence names what was not found.
   Every lemma is closed by computation, so an edited value breaks this file in the kernel.
   Proofs only. *)
From MQ Require Import Bytes Packets Utf8 Reader Session Requests.
From MQG Require Import GenConsts.
Open Scope N_scope.

Definition agrees (g : option N) (m : N) : Prop := match g with Some v => v = m | None => True end.
Definition gval (g : option N) (m : N) : N := match g with Some v => v | None => m end.
Ltac tie := repeat split; first [reflexivity | exact I].

(* both classifier tables still have the members the class bits were assigned from *)
Lemma tie_class_tables : agrees g_denyErrsLen 7 /\ agrees g_endErrsLen 3. Proof. tie. Qed.
