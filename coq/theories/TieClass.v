(* Tie (b), classifier part: the constants the hand-written model uses are the ones /repo's sources
   declare now.  coq/gen/GenConsts.v is regenerated from mqtt.go, client.go and request.go
   on every run (gen/gen.py); every lemma is closed by computation, so an edit of one of
   these values breaks this file in the kernel.  Proofs only. *)
From MQ Require Import Bytes Packets Utf8 Reader Session Requests.
From MQG Require Import GenConsts.
Open Scope N_scope.

(* both classifier tables still have the members the class bits were assigned from *)
Lemma tie_class_tables : g_denyErrsLen = 7 /\ g_endErrsLen = 3. Proof. split; reflexivity. Qed.
