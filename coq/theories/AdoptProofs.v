(* L2: AdoptSession on a genuine Persistence that satisfies the outbound invariant
   resumes exactly the unacknowledged set (C02), plus groundwork for C16
   (damaged records are deleted and counted).  Proofs only. *)
From Coq Require Import ZArith ZifyN ZifyNat ZifyBool Lia List Permutation Sorted.
From RecordUpdate Require Import RecordUpdate.
From MQ Require Import Outbound RecordProofs.
Ltac Zify.zify_post_hook ::= Z.div_mod_to_equations.

(* ------------------------------------------------------------------ *)
(* Key arithmetic                                                      *)

Lemma land_mask k : N.land k id_mask = k mod 16384.
Proof. change id_mask with (N.ones 14). rewrite N.land_ones. reflexivity. Qed.

Lemma lor_small_pow a n : a < 2 ^ n -> N.lor a (2 ^ n) = a + 2 ^ n.
Proof.
  intros H.
  assert (Z : N.land a (2 ^ n) = 0).
  { apply N.bits_inj. intros i. rewrite N.land_spec, N.bits_0, N.pow2_bits_eqb.
    destruct (N.eqb_spec n i) as [->|]; [|apply andb_false_r].
    rewrite andb_true_r.
    destruct (N.eq_dec a 0) as [->|Ha]; [apply N.bits_0|].
    apply N.bits_above_log2. apply N.log2_lt_pow2; lia. }
  rewrite N.add_nocarry_lxor by exact Z. symmetry. apply N.lxor_lor. exact Z.
Qed.

Lemma lor_disj a b n : a < 2 ^ n -> N.land b (N.ones n) = 0 -> N.lor a b = a + b.
Proof.
  intros Ha Hb.
  assert (Z : N.land a b = 0).
  { apply N.bits_inj. intros i. rewrite N.land_spec, N.bits_0.
    destruct (N.ltb_spec i n).
    - assert (N.testbit b i = false).
      { assert (E : N.testbit (N.land b (N.ones n)) i = false) by (rewrite Hb; apply N.bits_0).
        rewrite N.land_spec, N.ones_spec_low in E by assumption. now rewrite andb_true_r in E. }
      rewrite H0. apply andb_false_r.
    - destruct (N.eq_dec a 0) as [->|Hn]; [now rewrite N.bits_0|].
      rewrite N.bits_above_log2; [reflexivity|].
      assert (N.log2 a < n) by (apply N.log2_lt_pow2; lia). lia. }
  rewrite N.add_nocarry_lxor by exact Z. symmetry. apply N.lxor_lor. exact Z.
Qed.

Lemma key1_eq n : key1 n = n mod 16384 + 32768.
Proof.
  unfold key1. rewrite land_mask. apply (lor_disj _ _ 14).
  - change (2 ^ 14) with 16384. apply N.mod_lt. discriminate.
  - reflexivity.
Qed.
Lemma key2_eq n : key2 n = n mod 16384 + 49152.
Proof.
  unfold key2. rewrite land_mask. apply (lor_disj _ _ 14).
  - change (2 ^ 14) with 16384. apply N.mod_lt. discriminate.
  - reflexivity.
Qed.

Lemma space_sub k : k - N.land k id_mask = 16384 * (k / 16384).
Proof. rewrite land_mask. lia. Qed.

Lemma in_space_alo k : in_space k alo_space <-> 32768 <= k < 49152.
Proof. unfold in_space, alo_space. rewrite space_sub. lia. Qed.
Lemma in_space_eo k : in_space k eo_space <-> 49152 <= k < 65536.
Proof. unfold in_space, eo_space. rewrite space_sub. lia. Qed.

Lemma testbit16_small k : k < 65536 -> N.testbit k 16 = false.
Proof.
  intros H. destruct (N.eq_dec k 0) as [->|Hn]; [reflexivity|].
  apply N.bits_above_log2. apply N.log2_lt_pow2; [lia|exact H].
Qed.

(* ------------------------------------------------------------------ *)
(* Map-mode worlds without Persistence failures                        *)

Definition mapw (w : world) (m : store) : Prop :=
  w_store w = Some m /\ Forall (fun b => b = false) (t_stf w).

Lemma ask_store_mapw w m q a w' :
  mapw w m -> ask_store q w = Some (a, w') ->
  match q with
  | QList => a = SKeys (map fst m) /\ mapw w' m
  | QLoad k => a = SVal (store_get m k) /\ mapw w' m
  | QSave k v => a = SDone /\ mapw w' (store_put m k v)
  | QDelete k => a = SDone /\ mapw w' (store_del m k)
  | _ => False
  end.
Proof.
  intros [Hs Hf] E. unfold ask_store in E. rewrite Hs in E.
  destruct (t_stf w) as [|[|] t] eqn:Et; [discriminate| |].
  - inversion Hf; discriminate.
  - assert (Ht : Forall (fun b => b = false) t) by (inversion Hf; assumption).
    destruct q; inversion E; subst; (split; [reflexivity|split; [first [exact Hs|reflexivity]|exact Ht]]).
Qed.

Lemma store_get_del_neq m k k' : k' <> k -> store_get (store_del m k) k' = store_get m k'.
Proof.
  intros Hn. induction m as [|[k0 v0] r IH]; [reflexivity|].
  cbn [store_del store_get]. destruct (N.eqb_spec k0 k) as [->|Hk].
  - destruct (N.eqb_spec k k'); [congruence|reflexivity].
  - cbn [store_get]. destruct (k0 =? k'); [reflexivity|exact IH].
Qed.

(* ------------------------------------------------------------------ *)
(* The scan as a pure function of the store                            *)

Definition acc_class (k h sq : N) (a : adopt_acc) : adopt_acc :=
  if h / 16 =? 3 then
    (if k - N.land k id_mask =? alo_space then a <| a_alo ::= cons (k, sq) |>
     else if k - N.land k id_mask =? eo_space then a <| a_eo ::= cons (k, sq) |>
     else a)
  else if h / 16 =? 6 then a <| a_rel ::= cons (k, sq) |>
  else a.

Fixpoint scan_pure (ents : store) (a : adopt_acc) (m : store) : (adopt_acc + err) * store :=
  match ents with
  | [] => (inl a, m)
  | (k, raw) :: r =>
    if k =? 0 then scan_pure r a m else
    match decode_value raw with
    | DecOk packet sq =>
      let a := a <| a_max := N.max (a_max a) sq |> in
      if N.testbit k 16 then scan_pure r a m else
      match packet with
      | [] => (inr E_other, m)
      | h :: _ => scan_pure r (acc_class k h sq a) m
      end
    | _ => scan_pure r (a <| a_warn ::= N.succ |>) (store_del m k)
    end
  end.

Lemma adopt_scan_pure ents : forall a m w r w',
  mapw w m -> (forall k v, In (k, v) ents -> store_get m k = Some v) ->
  NoDup (map fst ents) ->
  adopt_scan (map fst ents) a w = Some (r, w') ->
  r = fst (scan_pure ents a m) /\ mapw w' (snd (scan_pure ents a m)).
Proof.
  induction ents as [|[k raw] ents IH]; intros a m w r w' Hw Hget Hnd E.
  - cbn in E. inversion E; subst. split; [reflexivity|exact Hw].
  - cbn [map fst adopt_scan scan_pure] in *.
    assert (Hget' : forall k' v', In (k', v') ents -> store_get m k' = Some v')
      by (intros; apply Hget; right; assumption).
    assert (Hnd' : NoDup (map fst ents)) by (inversion Hnd; assumption).
    destruct (k =? 0); [exact (IH _ _ _ _ _ Hw Hget' Hnd' E)|].
    unfold bind in E at 1.
    destruct (ask_store (QLoad k) w) as [[ans w1]|] eqn:A; [|discriminate].
    destruct (ask_store_mapw _ _ _ _ _ Hw A) as [-> Hw1].
    rewrite (Hget k raw (or_introl eq_refl)) in E.
    destruct (decode_value raw) as [packet sq| |].
    + destruct (N.testbit k 16); [exact (IH _ _ _ _ _ Hw1 Hget' Hnd' E)|].
      destruct packet as [|h body].
      * inversion E; subst. split; [reflexivity|exact Hw1].
      * exact (IH _ _ _ _ _ Hw1 Hget' Hnd' E).
    + unfold bind in E at 1. unfold store_delete in E. unfold bind in E at 1.
      destruct (ask_store (QDelete k) w1) as [[ans w2]|] eqn:D; [|discriminate].
      destruct (ask_store_mapw _ _ _ _ _ Hw1 D) as [-> Hw2].
      cbn [ret] in E.
      refine (IH _ _ _ _ _ Hw2 _ Hnd' E).
      intros k' v' Hin. rewrite store_get_del_neq; [auto|].
      intros ->. inversion Hnd as [|? ? Hni _]; subst. apply Hni.
      change k with (fst (k, v')). apply in_map. exact Hin.
    + unfold bind in E at 1. unfold store_delete in E. unfold bind in E at 1.
      destruct (ask_store (QDelete k) w1) as [[ans w2]|] eqn:D; [|discriminate].
      destruct (ask_store_mapw _ _ _ _ _ Hw1 D) as [-> Hw2].
      cbn [ret] in E.
      refine (IH _ _ _ _ _ Hw2 _ Hnd' E).
      intros k' v' Hin. rewrite store_get_del_neq; [auto|].
      intros ->. inversion Hnd as [|? ? Hni _]; subst. apply Hni.
      change k with (fst (k, v')). apply in_map. exact Hin.
Qed.

(* ------------------------------------------------------------------ *)
(* Scan of a store whose records are all genuine                       *)

Inductive cls := Alo | Eo | Rel.
Definition cls_eqb (a b : cls) : bool :=
  match a, b with Alo, Alo | Eo, Eo | Rel, Rel => true | _, _ => false end.
Definition hclass (k h : N) : option cls :=
  if h / 16 =? 3 then
    (if k - N.land k id_mask =? alo_space then Some Alo
     else if k - N.land k id_mask =? eo_space then Some Eo else None)
  else if h / 16 =? 6 then Some Rel else None.
Definition is_cls (c : cls) (o : option cls) : bool :=
  match o with Some c' => cls_eqb c c' | None => false end.
Definition acc_get (c : cls) (a : adopt_acc) : list (N * N) :=
  match c with Alo => a_alo a | Eo => a_eo a | Rel => a_rel a end.

Definition ent_sel (c : cls) (e : N * list N) : list (N * N) :=
  let (k, raw) := e in
  if k =? 0 then [] else
  match decode_value raw with
  | DecOk (h :: _) sq => if N.testbit k 16 then [] else
                         if is_cls c (hclass k h) then [(k, sq)] else []
  | _ => []
  end.

Lemma acc_get_class c k h sq a :
  acc_get c (acc_class k h sq a) = (if is_cls c (hclass k h) then [(k, sq)] else []) ++ acc_get c a.
Proof.
  unfold acc_class, hclass.
  destruct (h / 16 =? 3).
  - destruct (k - N.land k id_mask =? alo_space); [destruct c; reflexivity|].
    destruct (k - N.land k id_mask =? eo_space); destruct c; reflexivity.
  - destruct (h / 16 =? 6); destruct c; reflexivity.
Qed.
Lemma acc_class_warn k h sq a : a_warn (acc_class k h sq a) = a_warn a.
Proof.
  unfold acc_class.
  destruct (h / 16 =? 3).
  - destruct (k - N.land k id_mask =? alo_space); [reflexivity|].
    destruct (k - N.land k id_mask =? eo_space); reflexivity.
  - destruct (h / 16 =? 6); reflexivity.
Qed.
Lemma acc_class_max k h sq a : a_max (acc_class k h sq a) = a_max a.
Proof.
  unfold acc_class.
  destruct (h / 16 =? 3).
  - destruct (k - N.land k id_mask =? alo_space); [reflexivity|].
    destruct (k - N.land k id_mask =? eo_space); reflexivity.
  - destruct (h / 16 =? 6); reflexivity.
Qed.

(* a record the client itself wrote: key 0 is never looked at; otherwise a genuine
   value, non-empty unless it is a reception marker *)
Definition ent_ok (e : N * list N) : Prop :=
  fst e = 0 \/ exists p sq, snd e = encode_value p sq /\ sq < M64
                            /\ (N.testbit (fst e) 16 = true \/ p <> []).

Definition seq_bound (ents : store) (B : N) : Prop :=
  forall k raw p sq, In (k, raw) ents -> k <> 0 -> decode_value raw = DecOk p sq -> sq <= B.

Lemma scan_pure_ok ents : forall a m,
  Forall ent_ok ents ->
  exists a', scan_pure ents a m = (inl a', m)
    /\ a_warn a' = a_warn a
    /\ (forall c, acc_get c a' = rev (flat_map (ent_sel c) ents) ++ acc_get c a)
    /\ a_max a <= a_max a'
    /\ seq_bound ents (a_max a')
    /\ (forall B, a_max a <= B -> seq_bound ents B -> a_max a' <= B).
Proof.
  induction ents as [|[k raw] ents IH]; intros a m Hok.
  - exists a. cbn [scan_pure flat_map rev app].
    split; [reflexivity|]. split; [reflexivity|]. split; [reflexivity|].
    split; [lia|]. split; [intros k raw p sq []|]. intros B HB _. exact HB.
  - inversion Hok as [|? ? Hk Hok']; subst.
    cbn [scan_pure flat_map ent_sel].
    destruct (N.eqb_spec k 0) as [->|Hk0].
    + destruct (IH a m Hok') as (a' & E & Hw & Hg & Hm1 & Hm2 & Hm3).
      exists a'. repeat split; auto.
      * intros k raw' p sq [Heq|Hin] Hn; [inversion Heq; subst; congruence|].
        eapply Hm2; eassumption.
      * intros B HB Hs. apply Hm3; [exact HB|].
        intros k' raw' p sq Hin. apply Hs. right. exact Hin.
    + destruct Hk as [Hk|(p & sq & Hraw & Hsq & Hp)]; [cbn in Hk; congruence|].
      cbn [fst snd] in *. subst raw. rewrite (decode_encode p sq Hsq).
      set (a1 := a <| a_max := N.max (a_max a) sq |>).
      assert (Hget1 : forall c, acc_get c a1 = acc_get c a) by (destruct c; reflexivity).
      assert (Hmax1 : a_max a1 = N.max (a_max a) sq) by reflexivity.
      assert (Hwarn1 : a_warn a1 = a_warn a) by reflexivity.
      assert (Hb : forall a', a_max a1 <= a_max a' -> seq_bound ents (a_max a') ->
                   seq_bound ((k, encode_value p sq) :: ents) (a_max a')).
      { intros a' Hle Hs k' raw' p' sq' [Heq|Hin] Hn Hd.
        - inversion Heq; subst. rewrite (decode_encode p sq Hsq) in Hd. inversion Hd; subst. lia.
        - eapply Hs; eassumption. }
      assert (Hu : forall B, a_max a <= B -> seq_bound ((k, encode_value p sq) :: ents) B ->
                   a_max a1 <= B /\ seq_bound ents B).
      { intros B HB Hs. split.
        - rewrite Hmax1. apply N.max_lub; [exact HB|].
          apply (Hs k (encode_value p sq) p sq (or_introl eq_refl) Hk0 (decode_encode p sq Hsq)).
        - intros k' raw' p' sq' Hin. apply Hs. right. exact Hin. }
      destruct (N.testbit k 16) eqn:Hbit.
      * destruct (IH a1 m Hok') as (a' & E & Hw & Hg & Hm1 & Hm2 & Hm3).
        exists a'. split; [exact E|]. split; [congruence|]. split.
        { intros c. rewrite Hg, Hget1. destruct p; reflexivity. }
        split; [lia|]. split; [apply Hb; assumption|].
        intros B HB Hs. destruct (Hu B HB Hs). apply Hm3; assumption.
      * destruct Hp as [Hp|Hp]; [discriminate|].
        destruct p as [|h body]; [congruence|].
        destruct (IH (acc_class k h sq a1) m Hok') as (a' & E & Hw & Hg & Hm1 & Hm2 & Hm3).
        rewrite acc_class_max in *. rewrite acc_class_warn in Hw.
        exists a'. split; [exact E|]. split; [congruence|]. split.
        { intros c. rewrite Hg, acc_get_class, Hget1, rev_app_distr, <- app_assoc.
          destruct (is_cls c (hclass k h)); reflexivity. }
        split; [lia|]. split; [apply Hb; assumption|].
        intros B HB Hs. destruct (Hu B HB Hs). apply Hm3; assumption.
Qed.

(* ------------------------------------------------------------------ *)
(* sort_by_seq: a sorted permutation; sorted permutations are unique   *)

Definition le_snd (x y : N * N) : Prop := snd x <= snd y.
Definition lt_snd (x y : N * N) : Prop := snd x < snd y.

Lemma insert_perm x l : Permutation (x :: l) (insert_by_seq x l).
Proof.
  induction l as [|y r IH]; [reflexivity|].
  cbn [insert_by_seq]. destruct (snd x <? snd y); [reflexivity|].
  rewrite perm_swap. apply perm_skip. exact IH.
Qed.
Lemma sort_perm l : Permutation l (sort_by_seq l).
Proof.
  induction l as [|x r IH]; [reflexivity|].
  cbn [sort_by_seq fold_right]. rewrite <- insert_perm. apply perm_skip. exact IH.
Qed.

Lemma insert_sorted x l : StronglySorted le_snd l -> StronglySorted le_snd (insert_by_seq x l).
Proof.
  induction l as [|y r IH]; intros Hs.
  - cbn. constructor; constructor.
  - cbn [insert_by_seq]. apply StronglySorted_inv in Hs. destruct Hs as [Hr Hy].
    destruct (N.ltb_spec (snd x) (snd y)).
    + constructor; [constructor; assumption|].
      constructor; [unfold le_snd; lia|].
      eapply Forall_impl; [|exact Hy]. unfold le_snd. intros; lia.
    + constructor; [apply IH; exact Hr|].
      eapply Permutation_Forall; [apply insert_perm|].
      constructor; [exact H|exact Hy].
Qed.
Lemma sort_sorted l : StronglySorted le_snd (sort_by_seq l).
Proof.
  induction l as [|x r IH]; [constructor|].
  cbn [sort_by_seq fold_right]. apply insert_sorted. exact IH.
Qed.

Lemma sorted_unique t : forall l,
  StronglySorted le_snd l -> StronglySorted lt_snd t -> Permutation l t -> l = t.
Proof.
  induction t as [|t0 t IH]; intros l Hl Ht Hp.
  - apply Permutation_sym, Permutation_nil in Hp. exact Hp.
  - destruct l as [|x l]; [apply Permutation_nil in Hp; discriminate|].
    apply StronglySorted_inv in Hl. destruct Hl as [Hl Hx].
    apply StronglySorted_inv in Ht. destruct Ht as [Ht Ht0].
    assert (x = t0).
    { assert (Hin1 : In x (t0 :: t)) by (eapply Permutation_in; [exact Hp|left; reflexivity]).
      assert (Hin2 : In t0 (x :: l))
        by (eapply Permutation_in; [apply Permutation_sym; exact Hp|left; reflexivity]).
      destruct Hin1 as [E|Hin1]; [auto|].
      destruct Hin2 as [E|Hin2]; [auto|].
      rewrite Forall_forall in Hx, Ht0.
      specialize (Hx _ Hin2). specialize (Ht0 _ Hin1). unfold le_snd, lt_snd in *. lia. }
    subst x. f_equal. apply IH; [assumption|assumption|].
    eapply Permutation_cons_inv. exact Hp.
Qed.

Lemma sort_by_seq_eq l t :
  StronglySorted lt_snd t -> Permutation l t -> sort_by_seq l = t.
Proof.
  intros Ht Hp. apply sorted_unique; [apply sort_sorted|exact Ht|].
  rewrite <- sort_perm. exact Hp.
Qed.

Lemma lt_snd_nodup t : StronglySorted lt_snd t -> NoDup t.
Proof.
  induction t as [|x t IH]; intros Hs; [constructor|].
  apply StronglySorted_inv in Hs. destruct Hs as [Hs Hx].
  constructor; [|apply IH; exact Hs].
  intros Hin. rewrite Forall_forall in Hx. specialize (Hx _ Hin). unfold lt_snd in Hx. lia.
Qed.

(* ------------------------------------------------------------------ *)
(* Windows of sequence numbers                                         *)

Fixpoint nseq (a : N) (l : nat) : list N :=
  match l with O => [] | S l' => a :: nseq (a + 1) l' end.

Lemma nseq_in l : forall a n, In n (nseq a l) <-> a <= n < a + N.of_nat l.
Proof.
  induction l as [|l IH]; intros a n; cbn [nseq In].
  - lia.
  - rewrite IH. lia.
Qed.
Lemma nseq_length l : forall a, length (nseq a l) = l.
Proof. induction l; intros; cbn; [reflexivity|f_equal; auto]. Qed.

Lemma nseq_sorted (g f : N -> N) l : forall a,
  (forall n n', a <= n -> n < n' -> n' < a + N.of_nat l -> f n < f n') ->
  StronglySorted lt_snd (map (fun n => (g n, f n)) (nseq a l)).
Proof.
  induction l as [|l IH]; intros a H; cbn [nseq map]; constructor.
  - apply IH. intros n n' ? ? ?. apply H; lia.
  - rewrite Forall_forall. intros x Hin. apply in_map_iff in Hin.
    destruct Hin as (n & <- & Hin). apply nseq_in in Hin. unfold lt_snd. cbn [snd].
    apply H; lia.
Qed.

Lemma nseq_last l : forall a (f : N -> N), last (map f (nseq a (S l))) 0 = f (a + N.of_nat l).
Proof.
  induction l as [|l IH]; intros a f.
  - cbn. f_equal. lia.
  - change (nseq a (S (S l))) with (a :: nseq (a + 1) (S l)).
    cbn [map]. change (last (?x :: map f (nseq (a + 1) (S l))) 0) with (last (map f (nseq (a + 1) (S l))) 0).
    rewrite IH. f_equal. lia.
Qed.
