(* L2: AdoptSession (Session.op_adopt) on a genuine Persistence.

   C02  adopt_exact            on a store that satisfies the working invariant OInv' (plus
                               known_keys, markers_genuine) a restart resumes exactly the
                               unacknowledged set: same windows, same identifiers, each transfer
                               at its stage, nothing deleted, no warning, and OInv' holds again
        adopt_some             the same whenever a client is returned at all (any failure script)
        adopts_inv             Outbound.adopts keeps OInv', known_keys, markers_genuine, the
                               store and the three window sizes (chains with osteps_a)
        adopt_order_independent  the order of the List answer does not matter (tape mode)
        adopt_recvd_pinned_refuted  the "<" of the pinned tree lost a full PUBREL window
   C16  adopt_total_genuine    (groundwork) any damaged store: termination, every undecodable
                               record deleted and counted, the packet[0] branch needs a forged
                               record with a valid checksum over an empty packet
   adopt_exact_nonvacuous      the hypotheses of adopt_exact are satisfiable with all groups
                               populated.
   Auxiliary definitions (scan_pure, adopt_finish, mk_client ...) are proof devices: each is
   tied to op_adopt by op_adopt_map / op_adopt_genuine / op_adopt_tape.  Proofs only. *)
From Coq Require Import ZArith ZifyN ZifyNat ZifyBool Lia List Permutation Sorted.
From RecordUpdate Require Import RecordUpdate.
From MQ Require Import RecordProofs OutboundInv.
Ltac Zify.zify_post_hook ::= Z.div_mod_to_equations.

(* ------------------------------------------------------------------ *)
(* Key arithmetic                                                      *)

Lemma space_sub k : k - N.land k id_mask = 16384 * (k / 16384).
Proof. rewrite land_mask. lia. Qed.

Lemma testbit16_small k : k < 65536 -> N.testbit k 16 = false.
Proof.
  intros H. destruct (N.eq_dec k 0) as [->|Hn]; [reflexivity|].
  apply N.bits_above_log2. apply N.log2_lt_pow2; [lia|exact H].
Qed.

(* ------------------------------------------------------------------ *)
(* Map-mode worlds without Persistence failures                        *)

Definition mapw (w : world) (m : store) : Prop :=
  w_store w = Some m /\ Forall (fun b => b = false) (t_stf w).

Lemma ask_store_mapw w m q a w' :
  mapw w m -> ask_store q w = Some (a, w') ->
  match q with
  | QList => a = SKeys (map fst m) /\ mapw w' m
  | QLoad k => a = SVal (store_get m k) /\ mapw w' m
  | QSave k v => a = SDone /\ mapw w' (store_put m k v)
  | QDelete k => a = SDone /\ mapw w' (store_del m k)
  | _ => False
  end.
Proof.
  intros [Hs Hf] E. unfold ask_store in E. rewrite Hs in E.
  destruct (t_stf w) as [|[|] t] eqn:Et; [discriminate| |].
  - inversion Hf; discriminate.
  - assert (Ht : Forall (fun b => b = false) t) by (inversion Hf; assumption).
    destruct q; inversion E; subst; (split; [reflexivity|split; [first [exact Hs|reflexivity]|exact Ht]]).
Qed.

Lemma store_get_del_neq m k k' : k' <> k -> store_get (store_del m k) k' = store_get m k'.
Proof.
  intros Hn. induction m as [|[k0 v0] r IH]; [reflexivity|].
  cbn [store_del store_get]. destruct (N.eqb_spec k0 k) as [->|Hk].
  - destruct (N.eqb_spec k k'); [congruence|reflexivity].
  - cbn [store_get]. destruct (k0 =? k'); [reflexivity|exact IH].
Qed.

(* ------------------------------------------------------------------ *)
(* The scan as a pure function of the store                            *)

Definition acc_class (k h sq : N) (a : adopt_acc) : adopt_acc :=
  if h / 16 =? 3 then
    (if k - N.land k id_mask =? alo_space then a <| a_alo ::= cons (k, sq) |>
     else if k - N.land k id_mask =? eo_space then a <| a_eo ::= cons (k, sq) |>
     else a)
  else if h / 16 =? 6 then a <| a_rel ::= cons (k, sq) |>
  else a.

Fixpoint scan_pure (ents : store) (a : adopt_acc) (m : store) : (adopt_acc + err) * store :=
  match ents with
  | [] => (inl a, m)
  | (k, raw) :: r =>
    if k =? 0 then scan_pure r a m else
    match decode_value raw with
    | DecOk packet sq =>
      let a := a <| a_max := N.max (a_max a) sq |> in
      if N.testbit k 16 then scan_pure r a m else
      match packet with
      | [] => (inr E_other, m)
      | h :: _ => scan_pure r (acc_class k h sq a) m
      end
    | _ => scan_pure r (a <| a_warn ::= N.succ |>) (store_del m k)
    end
  end.

Lemma adopt_scan_pure ents : forall a m w r w',
  mapw w m -> (forall k v, In (k, v) ents -> store_get m k = Some v) ->
  NoDup (map fst ents) ->
  adopt_scan (map fst ents) a w = Some (r, w') ->
  r = fst (scan_pure ents a m) /\ mapw w' (snd (scan_pure ents a m)).
Proof.
  induction ents as [|[k raw] ents IH]; intros a m w r w' Hw Hget Hnd E.
  - cbn in E. inversion E; subst. split; [reflexivity|exact Hw].
  - cbn [map fst adopt_scan scan_pure] in *.
    assert (Hget' : forall k' v', In (k', v') ents -> store_get m k' = Some v')
      by (intros; apply Hget; right; assumption).
    assert (Hnd' : NoDup (map fst ents)) by (inversion Hnd; assumption).
    destruct (k =? 0); [exact (IH _ _ _ _ _ Hw Hget' Hnd' E)|].
    unfold bind in E at 1.
    destruct (ask_store (QLoad k) w) as [[ans w1]|] eqn:A; [|discriminate].
    destruct (ask_store_mapw _ _ _ _ _ Hw A) as [-> Hw1].
    rewrite (Hget k raw (or_introl eq_refl)) in E.
    destruct (decode_value raw) as [packet sq| |].
    + destruct (N.testbit k 16); [exact (IH _ _ _ _ _ Hw1 Hget' Hnd' E)|].
      destruct packet as [|h body].
      * inversion E; subst. split; [reflexivity|exact Hw1].
      * exact (IH _ _ _ _ _ Hw1 Hget' Hnd' E).
    + unfold bind in E at 1. unfold store_delete in E. unfold bind in E at 1.
      destruct (ask_store (QDelete k) w1) as [[ans w2]|] eqn:D; [|discriminate].
      destruct (ask_store_mapw _ _ _ _ _ Hw1 D) as [-> Hw2].
      cbn [ret] in E.
      refine (IH _ _ _ _ _ Hw2 _ Hnd' E).
      intros k' v' Hin. rewrite store_get_del_neq; [auto|].
      intros ->. inversion Hnd as [|? ? Hni _]; subst. apply Hni.
      change k with (fst (k, v')). apply in_map. exact Hin.
    + unfold bind in E at 1. unfold store_delete in E. unfold bind in E at 1.
      destruct (ask_store (QDelete k) w1) as [[ans w2]|] eqn:D; [|discriminate].
      destruct (ask_store_mapw _ _ _ _ _ Hw1 D) as [-> Hw2].
      cbn [ret] in E.
      refine (IH _ _ _ _ _ Hw2 _ Hnd' E).
      intros k' v' Hin. rewrite store_get_del_neq; [auto|].
      intros ->. inversion Hnd as [|? ? Hni _]; subst. apply Hni.
      change k with (fst (k, v')). apply in_map. exact Hin.
Qed.

(* ------------------------------------------------------------------ *)
(* Scan of a store whose records are all genuine                       *)

Inductive cls := Alo | Eo | Rel.
Definition cls_eqb (a b : cls) : bool :=
  match a, b with Alo, Alo | Eo, Eo | Rel, Rel => true | _, _ => false end.
Definition hclass (k h : N) : option cls :=
  if h / 16 =? 3 then
    (if k - N.land k id_mask =? alo_space then Some Alo
     else if k - N.land k id_mask =? eo_space then Some Eo else None)
  else if h / 16 =? 6 then Some Rel else None.
Definition is_cls (c : cls) (o : option cls) : bool :=
  match o with Some c' => cls_eqb c c' | None => false end.
Definition acc_get (c : cls) (a : adopt_acc) : list (N * N) :=
  match c with Alo => a_alo a | Eo => a_eo a | Rel => a_rel a end.

Definition ent_sel (c : cls) (e : N * list N) : list (N * N) :=
  let (k, raw) := e in
  if k =? 0 then [] else
  match decode_value raw with
  | DecOk (h :: _) sq => if N.testbit k 16 then [] else
                         if is_cls c (hclass k h) then [(k, sq)] else []
  | _ => []
  end.

Lemma acc_get_class c k h sq a :
  acc_get c (acc_class k h sq a) = (if is_cls c (hclass k h) then [(k, sq)] else []) ++ acc_get c a.
Proof.
  unfold acc_class, hclass.
  destruct (h / 16 =? 3).
  - destruct (k - N.land k id_mask =? alo_space); [destruct c; reflexivity|].
    destruct (k - N.land k id_mask =? eo_space); destruct c; reflexivity.
  - destruct (h / 16 =? 6); destruct c; reflexivity.
Qed.
Lemma acc_class_warn k h sq a : a_warn (acc_class k h sq a) = a_warn a.
Proof.
  unfold acc_class.
  destruct (h / 16 =? 3).
  - destruct (k - N.land k id_mask =? alo_space); [reflexivity|].
    destruct (k - N.land k id_mask =? eo_space); reflexivity.
  - destruct (h / 16 =? 6); reflexivity.
Qed.
Lemma acc_class_max k h sq a : a_max (acc_class k h sq a) = a_max a.
Proof.
  unfold acc_class.
  destruct (h / 16 =? 3).
  - destruct (k - N.land k id_mask =? alo_space); [reflexivity|].
    destruct (k - N.land k id_mask =? eo_space); reflexivity.
  - destruct (h / 16 =? 6); reflexivity.
Qed.

(* a record the client itself wrote: key 0 is never looked at; otherwise a genuine
   value, non-empty unless it is a reception marker *)
Definition ent_ok (e : N * list N) : Prop :=
  fst e = 0 \/ exists p sq, snd e = encode_value p sq /\ sq < M64
                            /\ (N.testbit (fst e) 16 = true \/ p <> []).

Definition seq_bound (ents : store) (B : N) : Prop :=
  forall k raw p sq, In (k, raw) ents -> k <> 0 -> decode_value raw = DecOk p sq -> sq <= B.

Lemma scan_pure_ok ents : forall a m,
  Forall ent_ok ents ->
  exists a', scan_pure ents a m = (inl a', m)
    /\ a_warn a' = a_warn a
    /\ (forall c, acc_get c a' = rev (flat_map (ent_sel c) ents) ++ acc_get c a)
    /\ a_max a <= a_max a'
    /\ seq_bound ents (a_max a')
    /\ (forall B, a_max a <= B -> seq_bound ents B -> a_max a' <= B).
Proof.
  induction ents as [|[k raw] ents IH]; intros a m Hok.
  - exists a. cbn [scan_pure flat_map rev app].
    split; [reflexivity|]. split; [reflexivity|]. split; [reflexivity|].
    split; [lia|]. split; [intros k raw p sq []|]. intros B HB _. exact HB.
  - inversion Hok as [|? ? Hk Hok']; subst.
    cbn [scan_pure flat_map ent_sel].
    destruct (N.eqb_spec k 0) as [->|Hk0].
    + destruct (IH a m Hok') as (a' & E & Hw & Hg & Hm1 & Hm2 & Hm3).
      exists a'. repeat split; auto.
      * intros k raw' p sq [Heq|Hin] Hn; [inversion Heq; subst; congruence|].
        eapply Hm2; eassumption.
      * intros B HB Hs. apply Hm3; [exact HB|].
        intros k' raw' p sq Hin. apply Hs. right. exact Hin.
    + destruct Hk as [Hk|(p & sq & Hraw & Hsq & Hp)]; [cbn in Hk; congruence|].
      cbn [fst snd] in *. subst raw. rewrite (decode_encode p sq Hsq).
      set (a1 := a <| a_max := N.max (a_max a) sq |>).
      assert (Hget1 : forall c, acc_get c a1 = acc_get c a) by (destruct c; reflexivity).
      assert (Hmax1 : a_max a1 = N.max (a_max a) sq) by reflexivity.
      assert (Hwarn1 : a_warn a1 = a_warn a) by reflexivity.
      assert (Hb : forall a', a_max a1 <= a_max a' -> seq_bound ents (a_max a') ->
                   seq_bound ((k, encode_value p sq) :: ents) (a_max a')).
      { intros a' Hle Hs k' raw' p' sq' [Heq|Hin] Hn Hd.
        - inversion Heq; subst. rewrite (decode_encode p sq Hsq) in Hd. inversion Hd; subst. lia.
        - eapply Hs; eassumption. }
      assert (Hu : forall B, a_max a <= B -> seq_bound ((k, encode_value p sq) :: ents) B ->
                   a_max a1 <= B /\ seq_bound ents B).
      { intros B HB Hs. split.
        - rewrite Hmax1. apply N.max_lub; [exact HB|].
          apply (Hs k (encode_value p sq) p sq (or_introl eq_refl) Hk0 (decode_encode p sq Hsq)).
        - intros k' raw' p' sq' Hin. apply Hs. right. exact Hin. }
      destruct (N.testbit k 16) eqn:Hbit.
      * destruct (IH a1 m Hok') as (a' & E & Hw & Hg & Hm1 & Hm2 & Hm3).
        exists a'. split; [exact E|]. split; [congruence|]. split.
        { intros c. rewrite Hg, Hget1. destruct p; reflexivity. }
        split; [lia|]. split; [apply Hb; assumption|].
        intros B HB Hs. destruct (Hu B HB Hs). apply Hm3; assumption.
      * destruct Hp as [Hp|Hp]; [discriminate|].
        destruct p as [|h body]; [congruence|].
        destruct (IH (acc_class k h sq a1) m Hok') as (a' & E & Hw & Hg & Hm1 & Hm2 & Hm3).
        rewrite acc_class_max in *. rewrite acc_class_warn in Hw.
        exists a'. split; [exact E|]. split; [congruence|]. split.
        { intros c. rewrite Hg, acc_get_class, Hget1, rev_app_distr, <- app_assoc.
          destruct (is_cls c (hclass k h)); reflexivity. }
        split; [lia|]. split; [apply Hb; assumption|].
        intros B HB Hs. destruct (Hu B HB Hs). apply Hm3; assumption.
Qed.

(* ------------------------------------------------------------------ *)
(* sort_by_seq: a sorted permutation; sorted permutations are unique   *)

Definition le_snd (x y : N * N) : Prop := snd x <= snd y.
Definition lt_snd (x y : N * N) : Prop := snd x < snd y.

Lemma insert_perm x l : Permutation (x :: l) (insert_by_seq x l).
Proof.
  induction l as [|y r IH]; [reflexivity|].
  cbn [insert_by_seq]. destruct (snd x <? snd y); [reflexivity|].
  rewrite perm_swap. apply perm_skip. exact IH.
Qed.
Lemma sort_perm l : Permutation l (sort_by_seq l).
Proof.
  induction l as [|x r IH]; [reflexivity|].
  cbn [sort_by_seq fold_right]. rewrite <- insert_perm. apply perm_skip. exact IH.
Qed.

Lemma insert_sorted x l : StronglySorted le_snd l -> StronglySorted le_snd (insert_by_seq x l).
Proof.
  induction l as [|y r IH]; intros Hs.
  - cbn. constructor; constructor.
  - cbn [insert_by_seq]. apply StronglySorted_inv in Hs. destruct Hs as [Hr Hy].
    destruct (N.ltb_spec (snd x) (snd y)).
    + constructor; [constructor; assumption|].
      constructor; [unfold le_snd; lia|].
      eapply Forall_impl; [|exact Hy]. unfold le_snd. intros; lia.
    + constructor; [apply IH; exact Hr|].
      eapply Permutation_Forall; [apply insert_perm|].
      constructor; [exact H|exact Hy].
Qed.
Lemma sort_sorted l : StronglySorted le_snd (sort_by_seq l).
Proof.
  induction l as [|x r IH]; [constructor|].
  cbn [sort_by_seq fold_right]. apply insert_sorted. exact IH.
Qed.

Lemma sorted_unique t : forall l,
  StronglySorted le_snd l -> StronglySorted lt_snd t -> Permutation l t -> l = t.
Proof.
  induction t as [|t0 t IH]; intros l Hl Ht Hp.
  - apply Permutation_sym, Permutation_nil in Hp. exact Hp.
  - destruct l as [|x l]; [apply Permutation_nil in Hp; discriminate|].
    apply StronglySorted_inv in Hl. destruct Hl as [Hl Hx].
    apply StronglySorted_inv in Ht. destruct Ht as [Ht Ht0].
    assert (x = t0).
    { assert (Hin1 : In x (t0 :: t)) by (eapply Permutation_in; [exact Hp|left; reflexivity]).
      assert (Hin2 : In t0 (x :: l))
        by (eapply Permutation_in; [apply Permutation_sym; exact Hp|left; reflexivity]).
      destruct Hin1 as [E|Hin1]; [auto|].
      destruct Hin2 as [E|Hin2]; [auto|].
      rewrite Forall_forall in Hx, Ht0.
      specialize (Hx _ Hin2). specialize (Ht0 _ Hin1). unfold le_snd, lt_snd in *. lia. }
    subst x. f_equal. apply IH; [assumption|assumption|].
    eapply Permutation_cons_inv. exact Hp.
Qed.

Lemma sort_by_seq_eq l t :
  StronglySorted lt_snd t -> Permutation l t -> sort_by_seq l = t.
Proof.
  intros Ht Hp. apply sorted_unique; [apply sort_sorted|exact Ht|].
  rewrite <- sort_perm. exact Hp.
Qed.

Lemma lt_snd_nodup t : StronglySorted lt_snd t -> NoDup t.
Proof.
  induction t as [|x t IH]; intros Hs; [constructor|].
  apply StronglySorted_inv in Hs. destruct Hs as [Hs Hx].
  constructor; [|apply IH; exact Hs].
  intros Hin. rewrite Forall_forall in Hx. specialize (Hx _ Hin). unfold lt_snd in Hx. lia.
Qed.

(* ------------------------------------------------------------------ *)
(* Windows of sequence numbers                                         *)

Fixpoint nseq (a : N) (l : nat) : list N :=
  match l with O => [] | S l' => a :: nseq (a + 1) l' end.

Lemma nseq_in l : forall a n, In n (nseq a l) <-> a <= n < a + N.of_nat l.
Proof.
  induction l as [|l IH]; intros a n; cbn [nseq In].
  - lia.
  - rewrite IH. lia.
Qed.
Lemma nseq_length l : forall a, length (nseq a l) = l.
Proof. induction l; intros; cbn; [reflexivity|f_equal; auto]. Qed.

Lemma nseq_sorted (g f : N -> N) l : forall a,
  (forall n n', a <= n -> n < n' -> n' < a + N.of_nat l -> f n < f n') ->
  StronglySorted lt_snd (map (fun n => (g n, f n)) (nseq a l)).
Proof.
  induction l as [|l IH]; intros a H; cbn [nseq map]; constructor.
  - apply IH. intros n n' ? ? ?. apply H; lia.
  - rewrite Forall_forall. intros x Hin. apply in_map_iff in Hin.
    destruct Hin as (n & <- & Hin). apply nseq_in in Hin. unfold lt_snd. cbn [snd].
    apply H; lia.
Qed.

Lemma nseq_last l : forall a (f : N -> N), last (map f (nseq a (S l))) 0 = f (a + N.of_nat l).
Proof.
  induction l as [|l IH]; intros a f.
  - cbn. f_equal. lia.
  - change (nseq a (S (S l))) with (a :: nseq (a + 1) (S l)).
    cbn [map]. change (last (?x :: map f (nseq (a + 1) (S l))) 0) with (last (map f (nseq (a + 1) (S l))) 0).
    rewrite IH. f_equal. lia.
Qed.

(* ------------------------------------------------------------------ *)
(* clean_seq on a window of consecutive identifiers                    *)

Lemma consecutive_succ k k' a :
  k mod 16384 = a mod 16384 -> k' mod 16384 = (a + 1) mod 16384 -> consecutive k k' = true.
Proof.
  intros H H'. unfold consecutive. rewrite !land_mask. unfold id_mask.
  destruct (N.eqb_spec (k' mod 16384) (k mod 16384 + 1)); [reflexivity|].
  destruct (N.eqb_spec (k' mod 16384) 0); destruct (N.eqb_spec (k mod 16384) 16383);
    cbn; try reflexivity; lia.
Qed.

Section Clean.
  Variable key : N -> N.
  Hypothesis Hkey : forall n, key n mod 16384 = n mod 16384.

  Lemma clean_aux_window l : forall a run g,
    clean_seq_aux run (key a) (map key (nseq (a + 1) l)) g
    = (rev run ++ map key (nseq (a + 1) l), g).
  Proof.
    induction l as [|l IH]; intros a run g; cbn [nseq map clean_seq_aux].
    - rewrite app_nil_r. reflexivity.
    - rewrite (consecutive_succ (key a) (key (a + 1)) a) by (rewrite Hkey; reflexivity).
      rewrite IH. cbn [rev]. rewrite <- app_assoc. reflexivity.
  Qed.

  Lemma clean_window l a : clean_seq (map key (nseq a l)) = (map key (nseq a l), 0).
  Proof.
    destruct l as [|l]; [reflexivity|].
    cbn [nseq map clean_seq]. rewrite clean_aux_window. reflexivity.
  Qed.
End Clean.

Lemma key1_mod n : key1 n mod 16384 = n mod 16384.
Proof. rewrite key1_eq. lia. Qed.
Lemma key2_mod n : key2 n mod 16384 = n mod 16384.
Proof. rewrite key2_eq. lia. Qed.

(* ------------------------------------------------------------------ *)
(* Stores with strictly ascending keys                                 *)

Lemma store_get_some_in m k : In k (map fst m) -> store_get m k <> None.
Proof.
  induction m as [|[k0 v0] r IH]; [intros []|].
  cbn [map fst In store_get]. intros [->|Hin].
  - rewrite N.eqb_refl. discriminate.
  - destruct (k0 =? k); [discriminate|exact (IH Hin)].
Qed.

Lemma sorted_nodup m : sorted_keys m -> NoDup (map fst m).
Proof.
  induction m as [|[k v] r IH]; cbn [sorted_keys map fst]; [constructor|].
  intros [Hgt Hs]. constructor; [|exact (IH Hs)].
  intros Hin. apply (store_get_some_in r k Hin). apply Hgt. lia.
Qed.

Lemma store_get_in m k v : NoDup (map fst m) -> (store_get m k = Some v <-> In (k, v) m).
Proof.
  induction m as [|[k0 v0] r IH]; intros Hnd.
  - cbn. split; [discriminate|tauto].
  - cbn [store_get In]. inversion Hnd as [|? ? Hni Hnd']; subst.
    destruct (N.eqb_spec k0 k) as [->|Hk].
    + split.
      * intros E. inversion E. left. reflexivity.
      * intros [E|Hin]; [inversion E; reflexivity|].
        exfalso. apply Hni. change k with (fst (k, v)). apply in_map. exact Hin.
    + rewrite (IH Hnd'). split; [tauto|]. intros [E|Hin]; [inversion E; congruence|exact Hin].
Qed.

Definition sq_at (m : store) (k : N) : N :=
  match store_get m k with
  | Some v => match decode_value v with DecOk _ sq => sq | _ => 0 end
  | None => 0
  end.

Lemma holds_sq_at m k p sq : holds m k p sq -> sq < M64 -> sq_at m k = sq.
Proof. unfold holds, sq_at. intros -> H. rewrite decode_encode by exact H. reflexivity. Qed.

(* membership in the selection of one class *)
Lemma ent_sel_in c k raw k' sq :
  In (k', sq) (ent_sel c (k, raw)) <->
  k' = k /\ k <> 0 /\ N.testbit k 16 = false /\
  exists h body, decode_value raw = DecOk (h :: body) sq /\ is_cls c (hclass k h) = true.
Proof.
  unfold ent_sel. destruct (N.eqb_spec k 0) as [->|Hk].
  - cbn. split; [tauto|]. intros (_ & H & _). congruence.
  - destruct (decode_value raw) as [[|h body] sq0| |].
    + cbn. split; [tauto|]. intros (_ & _ & _ & h & b & E & _). discriminate.
    + destruct (N.testbit k 16).
      * cbn. split; [tauto|]. intros (_ & _ & E & _). discriminate.
      * destruct (is_cls c (hclass k h)) eqn:Hc.
        -- cbn. split.
           ++ intros [E|[]]. inversion E; subst. repeat split; auto. exists h, body. auto.
           ++ intros (-> & _ & _ & h' & b' & E & _). inversion E; subst. left. reflexivity.
        -- cbn. split; [tauto|]. intros (_ & _ & _ & h' & b' & E & Hc'). inversion E; subst. congruence.
    + cbn. split; [tauto|]. intros (_ & _ & _ & h & b & E & _). discriminate.
    + cbn. split; [tauto|]. intros (_ & _ & _ & h & b & E & _). discriminate.
Qed.

Lemma sel_in c m k sq :
  NoDup (map fst m) ->
  (In (k, sq) (flat_map (ent_sel c) m) <->
   exists raw, store_get m k = Some raw /\ In (k, sq) (ent_sel c (k, raw))).
Proof.
  intros Hnd. rewrite in_flat_map. split.
  - intros ([k0 raw] & Hin & Hsel). assert (k = k0) by (apply ent_sel_in in Hsel; tauto). subst k0.
    exists raw. split; [apply store_get_in; assumption|exact Hsel].
  - intros (raw & Hg & Hsel). exists (k, raw). split; [apply store_get_in; assumption|exact Hsel].
Qed.

Lemma sel_nodup c m : NoDup (map fst m) -> NoDup (flat_map (ent_sel c) m).
Proof.
  induction m as [|[k raw] r IH]; intros Hnd; [constructor|].
  inversion Hnd as [|? ? Hni Hnd']; subst. cbn [flat_map].
  assert (Hshape : ent_sel c (k, raw) = [] \/ exists sq, ent_sel c (k, raw) = [(k, sq)]).
  { unfold ent_sel. destruct (k =? 0); [auto|].
    destruct (decode_value raw) as [[|h body] sq| |]; auto.
    destruct (N.testbit k 16); [auto|]. destruct (is_cls c (hclass k h)); eauto. }
  destruct Hshape as [->|(sq & ->)]; [exact (IH Hnd')|].
  cbn [app]. constructor; [|exact (IH Hnd')].
  intros Hin. apply in_flat_map in Hin. destruct Hin as ([k0 raw0] & Hin & Hsel).
  assert (k = k0) by (apply ent_sel_in in Hsel; tauto). subst k0.
  apply Hni. change k with (fst (k, raw0)). apply in_map. exact Hin.
Qed.

(* ------------------------------------------------------------------ *)
(* What the invariant says about every record of the store             *)

Definition known_keys (st : ost) : Prop :=
  forall k v, store_get (o_store st) k = Some v ->
    k = 0 \/ N.testbit k 16 = true \/ in_space k alo_space \/ in_space k eo_space.
Definition markers_genuine (st : ost) : Prop :=
  forall k v, store_get (o_store st) k = Some v -> N.testbit k 16 = true ->
    exists p sq, v = encode_value p sq /\ sq <= o_rseq st.

Lemma pub1_head retain topic msg n :
  exists body, pub1_packet retain topic msg n = head_publish 1 retain false :: body.
Proof. unfold pub1_packet, publish_packet, publish_head_buf. cbn [app]. eexists. reflexivity. Qed.
Lemma pub2_head retain topic msg n :
  exists body, pub2_packet retain topic msg n = head_publish 2 retain false :: body.
Proof. unfold pub2_packet, publish_packet, publish_head_buf. cbn [app]. eexists. reflexivity. Qed.
Lemma pubrel_head k : exists body, packet_pubrel k = 98 :: body.
Proof. unfold packet_pubrel, ack_packet. eexists. reflexivity. Qed.

Lemma key1_sp n : key1 n - N.land (key1 n) id_mask = alo_space.
Proof. rewrite space_sub, key1_eq. unfold alo_space. lia. Qed.
Lemma key2_sp n : key2 n - N.land (key2 n) id_mask = eo_space.
Proof. rewrite space_sub, key2_eq. unfold eo_space. lia. Qed.

Lemma hclass_pub1 n r : hclass (key1 n) (head_publish 1 r false) = Some Alo.
Proof.
  unfold hclass. rewrite key1_sp.
  replace (head_publish 1 r false / 16 =? 3) with true by (destruct r; reflexivity).
  reflexivity.
Qed.
Lemma hclass_pub2 n r : hclass (key2 n) (head_publish 2 r false) = Some Eo.
Proof.
  unfold hclass. rewrite key2_sp.
  replace (head_publish 2 r false / 16 =? 3) with true by (destruct r; reflexivity).
  reflexivity.
Qed.
Lemma hclass_rel k : hclass k 98 = Some Rel.
Proof. reflexivity. Qed.

Lemma ent_sel_genuine c k h body sq :
  k <> 0 -> N.testbit k 16 = false -> sq < M64 ->
  ent_sel c (k, encode_value (h :: body) sq) = if is_cls c (hclass k h) then [(k, sq)] else [].
Proof.
  intros Hk Hb Hs. unfold ent_sel. destruct (N.eqb_spec k 0); [congruence|].
  rewrite decode_encode by exact Hs. rewrite Hb. reflexivity.
Qed.

Lemma key1_nz n : key1 n <> 0. Proof. rewrite key1_eq. lia. Qed.
Lemma key2_nz n : key2 n <> 0. Proof. rewrite key2_eq. lia. Qed.
Lemma key1_bit n : N.testbit (key1 n) 16 = false.
Proof. apply testbit16_small. rewrite key1_eq. lia. Qed.
Lemma key2_bit n : N.testbit (key2 n) 16 = false.
Proof. apply testbit16_small. rewrite key2_eq. lia. Qed.

Section Window.
  Variable st : ost.
  Hypothesis HI : OInv_fixed st.
  Hypothesis Hsorted : sorted_keys (o_store st).
  Hypothesis Hkeys : known_keys st.
  Hypothesis Hmark : markers_genuine st.
  Hypothesis Hseq : o_rseq st < M64.

  Let m := o_store st.

  Lemma Hnd : NoDup (map fst m).
  Proof. apply sorted_nodup. exact Hsorted. Qed.

  Inductive rec_kind (k : N) (v : list N) : Prop :=
  | RK_zero : k = 0 -> rec_kind k v
  | RK_marker p sq : N.testbit k 16 = true -> v = encode_value p sq -> sq <= o_rseq st -> rec_kind k v
  | RK_pub1 n retain topic msg sq :
      o_acked st <= n < o_acc1 st -> k = key1 n ->
      v = encode_value (pub1_packet retain topic msg n) sq -> sq <= o_rseq st -> rec_kind k v
  | RK_rel n sq :
      o_compl st <= n < o_recvd st -> k = key2 n ->
      v = encode_value (packet_pubrel (key2 n)) sq -> sq <= o_rseq st -> rec_kind k v
  | RK_pub2 n retain topic msg sq :
      o_recvd st <= n < o_acc2 st -> k = key2 n ->
      v = encode_value (pub2_packet retain topic msg n) sq -> sq <= o_rseq st -> rec_kind k v.

  Lemma store_kinds k v : store_get m k = Some v -> rec_kind k v.
  Proof.
    intros Hg. destruct (Hkeys k v Hg) as [H0|[Hb|[H1|H2]]].
    - apply RK_zero. exact H0.
    - destruct (Hmark k v Hg Hb) as (p & sq & -> & Hle). eapply RK_marker; eauto.
    - destruct (si_only1 _ _ _ _ _ _ _ (oif_sto st HI) k v Hg H1) as (n & Hn & ->).
      destruct (si_s1 _ _ _ _ _ _ _ (oif_sto st HI) n Hn) as (retain & topic & msg & sq & Hh & Hle).
      unfold holds in Hh. fold m in Hh. rewrite Hh in Hg. inversion Hg; subst v.
      eapply RK_pub1; eauto.
    - destruct (si_only2 _ _ _ _ _ _ _ (oif_sto st HI) k v Hg H2) as (n & Hn & ->).
      destruct (N.ltb_spec n (o_recvd st)).
      + destruct (si_s2r _ _ _ _ _ _ _ (oif_sto st HI) n) as (sq & Hh & Hle); [lia|].
        unfold holds in Hh. fold m in Hh. rewrite Hh in Hg. inversion Hg; subst v.
        eapply RK_rel; eauto. lia.
      + destruct (si_s2p _ _ _ _ _ _ _ (oif_sto st HI) n) as (retain & topic & msg & sq & Hh & Hle); [lia|].
        unfold holds in Hh. fold m in Hh. rewrite Hh in Hg. inversion Hg; subst v.
        eapply RK_pub2; eauto. lia.
  Qed.

  Lemma store_ents_ok : Forall ent_ok m.
  Proof.
    rewrite Forall_forall. intros [k v] Hin.
    apply (store_get_in m k v Hnd) in Hin.
    destruct (store_kinds k v Hin) as [H0|p sq Hb -> Hle|n r t ms sq Hn -> -> Hle|n sq Hn -> -> Hle|n r t ms sq Hn -> -> Hle].
    - left. exact H0.
    - right. exists p, sq. cbn [fst snd]. repeat split; auto. lia.
    - right. eexists _, sq. cbn [fst snd]. split; [reflexivity|]. split; [lia|]. right.
      destruct (pub1_head r t ms n) as (b & ->). discriminate.
    - right. eexists _, sq. cbn [fst snd]. split; [reflexivity|]. split; [lia|]. right.
      destruct (pubrel_head (key2 n)) as (b & ->). discriminate.
    - right. eexists _, sq. cbn [fst snd]. split; [reflexivity|]. split; [lia|]. right.
      destruct (pub2_head r t ms n) as (b & ->). discriminate.
  Qed.

  Definition lo (c : cls) : N :=
    match c with Alo => o_acked st | Rel => o_compl st | Eo => o_recvd st end.
  Definition hi (c : cls) : N :=
    match c with Alo => o_acc1 st | Rel => o_recvd st | Eo => o_acc2 st end.
  Definition keyf (c : cls) : N -> N := match c with Alo => key1 | _ => key2 end.

  Lemma keyf_nz c n : keyf c n <> 0.
  Proof. destruct c; [apply key1_nz|apply key2_nz|apply key2_nz]. Qed.
  Lemma keyf_bit c n : N.testbit (keyf c n) 16 = false.
  Proof. destruct c; [apply key1_bit|apply key2_bit|apply key2_bit]. Qed.
  Lemma keyf_mod c n : keyf c n mod 16384 = n mod 16384.
  Proof. destruct c; [apply key1_mod|apply key2_mod|apply key2_mod]. Qed.

  (* the record of window position n of class c *)
  Lemma window_record c n : lo c <= n < hi c ->
    exists h body sq, holds m (keyf c n) (h :: body) sq /\ sq <= o_rseq st
                      /\ hclass (keyf c n) h = Some c.
  Proof.
    intros Hn. destruct c; cbn [lo hi keyf] in *.
    - destruct (si_s1 _ _ _ _ _ _ _ (oif_sto st HI) n Hn) as (r & t & ms & sq & Hh & Hle).
      destruct (pub1_head r t ms n) as (b & E). rewrite E in Hh.
      eexists _, b, sq. split; [exact Hh|]. split; [exact Hle|]. apply hclass_pub1.
    - destruct (si_s2p _ _ _ _ _ _ _ (oif_sto st HI) n Hn) as (r & t & ms & sq & Hh & Hle).
      destruct (pub2_head r t ms n) as (b & E). rewrite E in Hh.
      eexists _, b, sq. split; [exact Hh|]. split; [exact Hle|]. apply hclass_pub2.
    - destruct (si_s2r _ _ _ _ _ _ _ (oif_sto st HI) n Hn) as (sq & Hh & Hle).
      destruct (pubrel_head (key2 n)) as (b & E). rewrite E in Hh.
      eexists _, b, sq. split; [exact Hh|]. split; [exact Hle|]. apply hclass_rel.
  Qed.

  Lemma sel_window c k sq :
    In (k, sq) (flat_map (ent_sel c) m) <->
    exists n, lo c <= n < hi c /\ k = keyf c n /\ sq = sq_at m k.
  Proof.
    rewrite (sel_in c m k sq Hnd). split.
    - intros (raw & Hg & Hsel). apply ent_sel_in in Hsel.
      destruct Hsel as (_ & Hk0 & Hbit & h & body & Hdec & Hc).
      assert (Hsq : sq = sq_at m k) by (unfold sq_at; rewrite Hg, Hdec; reflexivity).
      destruct (store_kinds k raw Hg) as [H0|p sq' Hb -> Hle|n r t ms sq' Hn -> -> Hle|n sq' Hn -> -> Hle|n r t ms sq' Hn -> -> Hle].
      + congruence.
      + congruence.
      + rewrite decode_encode in Hdec by lia.
        assert (Hp : pub1_packet r t ms n = h :: body) by congruence.
        destruct (pub1_head r t ms n) as (b & E). rewrite E in Hp. injection Hp as <- _.
        rewrite hclass_pub1 in Hc. destruct c; try discriminate. exists n. auto.
      + rewrite decode_encode in Hdec by lia.
        assert (Hp : packet_pubrel (key2 n) = h :: body) by congruence.
        destruct (pubrel_head (key2 n)) as (b & E). rewrite E in Hp. injection Hp as <- _.
        rewrite hclass_rel in Hc. destruct c; try discriminate. exists n. auto.
      + rewrite decode_encode in Hdec by lia.
        assert (Hp : pub2_packet r t ms n = h :: body) by congruence.
        destruct (pub2_head r t ms n) as (b & E). rewrite E in Hp. injection Hp as <- _.
        rewrite hclass_pub2 in Hc. destruct c; try discriminate. exists n. auto.
    - intros (n & Hn & -> & ->).
      destruct (window_record c n Hn) as (h & body & sq & Hh & Hle & Hc).
      exists (encode_value (h :: body) sq). split; [exact Hh|].
      rewrite ent_sel_genuine by (auto using keyf_nz, keyf_bit; lia).
      rewrite Hc. replace (is_cls c (Some c)) with true by (destruct c; reflexivity).
      rewrite (holds_sq_at _ _ _ _ Hh) by lia. left. reflexivity.
  Qed.

  Definition wlen (c : cls) : nat := N.to_nat (hi c - lo c).
  Definition wlist (c : cls) : list (N * N) :=
    map (fun n => (keyf c n, sq_at m (keyf c n))) (nseq (lo c) (wlen c)).

  Lemma wlist_sorted c : StronglySorted lt_snd (wlist c).
  Proof.
    apply nseq_sorted. intros n n' H1 H2 H3. unfold wlen in H3.
    destruct (window_record c n) as (h & body & sq & Hh & Hle & _); [lia|].
    destruct (window_record c n') as (h' & body' & sq' & Hh' & Hle' & _); [lia|].
    rewrite (holds_sq_at _ _ _ _ Hh), (holds_sq_at _ _ _ _ Hh') by lia.
    destruct c; cbn [lo hi keyf] in *.
    - eapply (si_ord1 _ _ _ _ _ _ _ (oif_sto st HI) n n'); [lia|lia|lia| | |exact Hh|exact Hh']; lia.
    - eapply (si_ord2p _ _ _ _ _ _ _ (oif_sto st HI) n n'); [lia|lia|lia| | |exact Hh|exact Hh']; lia.
    - eapply (si_ord2r _ _ _ _ _ _ _ (oif_sto st HI) n n'); [lia|lia|lia| | |exact Hh|exact Hh']; lia.
  Qed.

  Lemma sel_perm c : Permutation (rev (flat_map (ent_sel c) m)) (wlist c).
  Proof.
    rewrite <- Permutation_rev. apply NoDup_Permutation.
    - apply sel_nodup. exact Hnd.
    - apply lt_snd_nodup. apply wlist_sorted.
    - intros [k sq]. rewrite sel_window. unfold wlist. rewrite in_map_iff. split.
      + intros (n & Hn & -> & ->). exists n. split; [reflexivity|].
        apply nseq_in. unfold wlen. lia.
      + intros (n & E & Hin). inversion E; subst. apply nseq_in in Hin. unfold wlen in Hin.
        exists n. split; [lia|]. auto.
  Qed.

  Lemma keys_of_window c :
    keys_of (rev (flat_map (ent_sel c) m)) = map (keyf c) (nseq (lo c) (wlen c)).
  Proof.
    unfold keys_of. rewrite (sort_by_seq_eq _ (wlist c) (wlist_sorted c) (sel_perm c)).
    unfold wlist. rewrite map_map. reflexivity.
  Qed.
End Window.

(* ------------------------------------------------------------------ *)
(* op_adopt = List; scan; pure reconstruction                          *)

Definition gap_of (eo rel0 : list N) : bool :=
  match eo, rel0 with
  | n0 :: _, _ :: _ => negb (consecutive (lastk rel0) n0)
  | _, _ => false
  end.

Definition c_lvl1 (alo : list N) (c : client) : client :=
  match alo with
  | [] => c
  | k0 :: _ =>
    let acked := N.land k0 id_mask in
    let l := N.land (lastk alo) id_mask in
    let l := if l <? acked then l + 16384 else l in
    c <| k_acked := acked |> <| k_acc1 := l + 1 |> <| k_sub1 := l + 1 |>
  end.

Definition c_lvl2 (eo rel : list N) (c : client) : client :=
  match eo, rel with
  | [], [] => c
  | _, _ =>
    let compl := match rel with [] => N.land (first_or eo 0) id_mask | r0 :: _ => N.land r0 id_mask end in
    let recvd := match rel with
                 | [] => compl
                 | _ => let r := N.land (lastk rel) id_mask + 1 in if r <=? compl then r + 16384 else r
                 end in
    let acc := match eo with
               | [] => recvd
               | _ => let l := N.land (lastk eo) id_mask in
                      (if l <? recvd then l + 16384 else l) + 1
               end in
    c <| k_compl := compl |> <| k_recvd := recvd |> <| k_acc2 := acc |> <| k_sub2 := acc |>
  end.

Definition adopt_cfg (cf : scfg) (max1z max2z : Z) : scfg :=
  {| s_cfg := s_cfg cf; s_pause := s_pause cf; s_max1 := norm_max max1z;
     s_max2 := norm_max max2z; s_rcap := s_rcap cf;
     s_wmin := s_wmin cf; s_wmax := s_wmax cf |}.

Definition mk_client (cf' : scfg) (amax : N) (alo eo rel : list N) : client :=
  c_lvl2 eo rel (c_lvl1 alo (new_client cf' amax))
    <| k_q1 := map (fun _ => 0) alo |> <| k_q2 := map (fun _ => 0) (eo ++ rel) |>.

Definition adopt_build2 (cf : scfg) (max1z max2z : Z) (alo eo rel : list N) (warn amax : N)
  : option client * retv :=
  let cf' := adopt_cfg cf max1z max2z in
  if (s_max1 cf' <? len alo) || (s_max2 cf' <? len eo + len rel) then (None, RetAdopt warn E_other)
  else (Some (mk_client cf' amax alo eo rel), RetAdopt warn E_nil).

Definition adopt_build (cf : scfg) (max1z max2z : Z) (alo eo rel0 : list N) (warn0 amax : N)
  : option client * retv :=
  let gap := gap_of eo rel0 in
  adopt_build2 cf max1z max2z alo eo (if gap then [] else rel0) (warn0 + (if gap then 1 else 0)) amax.

Definition adopt_finish (cf : scfg) (max1z max2z : Z) (r : adopt_acc + err) : option client * retv :=
  match r with
  | inr e => (None, RetAdopt 0 e)
  | inl acc =>
    let '(alo, g1) := clean_seq (keys_of (a_alo acc)) in
    let '(eo, g2) := clean_seq (keys_of (a_eo acc)) in
    let '(rel, g3) := clean_seq (keys_of (a_rel acc)) in
    adopt_build cf max1z max2z alo eo rel (a_warn acc + g1 + g2 + g3) (a_max acc)
  end.

Definition acc0 : adopt_acc := mkAcc [] [] [] 0 0.

Lemma op_adopt_map cf max1z max2z w m x w' :
  mapw w m -> NoDup (map fst m) ->
  op_adopt cf max1z max2z w = Some (x, w') ->
  x = adopt_finish cf max1z max2z (fst (scan_pure m acc0 m)) /\ mapw w' (snd (scan_pure m acc0 m)).
Proof.
  intros Hw Hnd E. unfold op_adopt in E. unfold bind in E at 1.
  destruct (ask_store QList w) as [[ans w1]|] eqn:A; [|discriminate].
  destruct (ask_store_mapw _ _ _ _ _ Hw A) as [-> Hw1].
  unfold bind in E at 1.
  destruct (adopt_scan (map fst m) (mkAcc [] [] [] 0 0) w1) as [[r w2]|] eqn:S; [|discriminate].
  destruct (adopt_scan_pure m acc0 m w1 r w2 Hw1) as [-> Hw2];
    [intros k v Hin; apply store_get_in; assumption|exact Hnd|exact S|].
  destruct (fst (scan_pure m acc0 m)) as [acc|e].
  - unfold adopt_finish.
    destruct (clean_seq (keys_of (a_alo acc))) as [alo g1].
    destruct (clean_seq (keys_of (a_eo acc))) as [eo g2].
    destruct (clean_seq (keys_of (a_rel acc))) as [rel g3].
    cbv beta iota zeta in E.
    match type of E with
    | (if ?b then ret ?X else ret ?Y) _ = _ =>
      assert (E' : Some ((if b then X else Y), w2) = Some (x, w'))
        by (rewrite <- E; destruct b; reflexivity)
    end.
    inversion E'; subst. split; [reflexivity|exact Hw2].
  - unfold ret in E. inversion E; subst. split; [reflexivity|exact Hw2].
Qed.

(* ------------------------------------------------------------------ *)
(* Counter reconstruction on windows                                   *)

Lemma len_map_nseq (f : N -> N) a l : len (map f (nseq a l)) = N.of_nat l.
Proof. unfold len. rewrite map_length, nseq_length. reflexivity. Qed.

Lemma lvl1_set_eq c a a' b b' :
  a = a' -> b = b' ->
  c <| k_acked := a |> <| k_acc1 := b |> <| k_sub1 := b |>
  = c <| k_acked := a' |> <| k_acc1 := b' |> <| k_sub1 := b' |>.
Proof. intros; subst; reflexivity. Qed.

Lemma c_lvl1_window a l c :
  N.of_nat (S l) <= 16384 ->
  c_lvl1 (map key1 (nseq a (S l))) c
  = c <| k_acked := a mod 16384 |> <| k_acc1 := a mod 16384 + N.of_nat (S l) |>
      <| k_sub1 := a mod 16384 + N.of_nat (S l) |>.
Proof.
  intros HL. pose proof (nseq_last l a key1) as E.
  unfold c_lvl1, lastk. cbn [nseq map] in E |- *. rewrite E.
  cbv zeta. rewrite !land_mask, !key1_mod.
  apply lvl1_set_eq; [reflexivity|].
  destruct (N.ltb_spec ((a + N.of_nat l) mod 16384) (a mod 16384)); lia.
Qed.

Lemma lvl2_set_eq c a a' b b' d d' :
  a = a' -> b = b' -> d = d' ->
  c <| k_compl := a |> <| k_recvd := b |> <| k_acc2 := d |> <| k_sub2 := d |>
  = c <| k_compl := a' |> <| k_recvd := b' |> <| k_acc2 := d' |> <| k_sub2 := d' |>.
Proof. intros; subst; reflexivity. Qed.

Lemma c_lvl2_window cm lr le c :
  (0 < lr + le)%nat -> N.of_nat lr + N.of_nat le <= 16384 ->
  c_lvl2 (map key2 (nseq (cm + N.of_nat lr) le)) (map key2 (nseq cm lr)) c
  = c <| k_compl := cm mod 16384 |> <| k_recvd := cm mod 16384 + N.of_nat lr |>
      <| k_acc2 := cm mod 16384 + N.of_nat lr + N.of_nat le |>
      <| k_sub2 := cm mod 16384 + N.of_nat lr + N.of_nat le |>.
Proof.
  intros Hpos Hsum.
  destruct lr as [|j]; destruct le as [|l]; [lia| | |].
  - pose proof (nseq_last l (cm + N.of_nat 0) key2) as E.
    unfold c_lvl2, lastk, first_or. cbn [nseq map] in E |- *. rewrite E.
    cbv zeta. rewrite !land_mask, !key2_mod.
    apply lvl2_set_eq; [f_equal; lia|lia|].
    destruct (N.ltb_spec ((cm + N.of_nat 0 + N.of_nat l) mod 16384) ((cm + N.of_nat 0) mod 16384)); lia.
  - pose proof (nseq_last j cm key2) as E.
    unfold c_lvl2, lastk, first_or. cbn [nseq map] in E |- *. rewrite E.
    cbv zeta. rewrite !land_mask, !key2_mod.
    assert (R : (if (cm + N.of_nat j) mod 16384 + 1 <=? cm mod 16384
                 then (cm + N.of_nat j) mod 16384 + 1 + 16384
                 else (cm + N.of_nat j) mod 16384 + 1) = cm mod 16384 + N.of_nat (S j)).
    { destruct (N.leb_spec ((cm + N.of_nat j) mod 16384 + 1) (cm mod 16384)); lia. }
    apply lvl2_set_eq; [reflexivity|exact R|]. rewrite R. lia.
  - pose proof (nseq_last j cm key2) as E.
    pose proof (nseq_last l (cm + N.of_nat (S j)) key2) as E'.
    unfold c_lvl2, lastk, first_or. cbn [nseq map] in E, E' |- *. rewrite E, E'.
    cbv zeta. rewrite !land_mask, !key2_mod.
    assert (R : (if (cm + N.of_nat j) mod 16384 + 1 <=? cm mod 16384
                 then (cm + N.of_nat j) mod 16384 + 1 + 16384
                 else (cm + N.of_nat j) mod 16384 + 1) = cm mod 16384 + N.of_nat (S j)).
    { destruct (N.leb_spec ((cm + N.of_nat j) mod 16384 + 1) (cm mod 16384)); lia. }
    apply lvl2_set_eq; [reflexivity|exact R|]. rewrite R.
    destruct (N.ltb_spec ((cm + N.of_nat (S j) + N.of_nat l) mod 16384) (cm mod 16384 + N.of_nat (S j))); lia.
Qed.

Lemma gap_window cm lr le :
  gap_of (map key2 (nseq (cm + N.of_nat lr) le)) (map key2 (nseq cm lr)) = false.
Proof.
  destruct le as [|l]; [reflexivity|]. destruct lr as [|j]; [reflexivity|].
  pose proof (nseq_last j cm key2) as E.
  unfold gap_of, lastk. cbn [nseq map] in E |- *. rewrite E.
  rewrite (consecutive_succ _ _ (cm + N.of_nat j)); [reflexivity|apply key2_mod|].
  rewrite key2_mod. f_equal. lia.
Qed.

Lemma mk_client_spec cf' amax a l1 cm lr le :
  N.of_nat l1 <= 16384 -> N.of_nat lr + N.of_nat le <= 16384 ->
  let c' := mk_client cf' amax (map key1 (nseq a l1))
                      (map key2 (nseq (cm + N.of_nat lr) le)) (map key2 (nseq cm lr)) in
  k_cfg c' = cf' /\ k_rseq c' = amax /\ k_closed c' = false /\ k_seqclosed c' = false
  /\ k_sub1 c' = k_acc1 c' /\ k_sub2 c' = k_acc2 c'
  /\ len (k_q1 c') = N.of_nat l1 /\ len (k_q2 c') = N.of_nat lr + N.of_nat le
  /\ (l1 = O -> k_acked c' = 0 /\ k_acc1 c' = 0)
  /\ (l1 <> O -> k_acked c' = a mod 16384 /\ k_acc1 c' = a mod 16384 + N.of_nat l1)
  /\ ((lr + le)%nat = O -> k_compl c' = 0 /\ k_recvd c' = 0 /\ k_acc2 c' = 0)
  /\ ((lr + le)%nat <> O ->
      k_compl c' = cm mod 16384 /\ k_recvd c' = cm mod 16384 + N.of_nat lr
      /\ k_acc2 c' = cm mod 16384 + N.of_nat lr + N.of_nat le).
Proof.
  intros H1 H2 c'. subst c'. unfold mk_client.
  assert (Hlen1 : forall (f g : N -> N) x n1, len (map f (map g (nseq x n1))) = N.of_nat n1).
  { intros. unfold len. rewrite !map_length, nseq_length. reflexivity. }
  assert (Hlen2 : forall (f g h : N -> N) y z n2 n3,
            len (map f (map g (nseq y n2) ++ map h (nseq z n3))) = N.of_nat n3 + N.of_nat n2).
  { intros. unfold len. rewrite !map_length, app_length, !map_length, !nseq_length. lia. }
  destruct l1 as [|l1].
  - change (c_lvl1 (map key1 (nseq a 0)) (new_client cf' amax)) with (new_client cf' amax).
    destruct (Nat.eq_dec (lr + le) 0) as [Hz|Hz].
    + assert (lr = O) by lia. assert (le = O) by lia. subst lr le.
      cbn -[len nseq N.of_nat]. repeat split; try reflexivity; try congruence.
    + rewrite c_lvl2_window by lia.
      cbn -[len nseq N.of_nat]. repeat split; try reflexivity; try congruence; try lia; first [apply Hlen1|apply Hlen2].
  - rewrite c_lvl1_window by lia.
    destruct (Nat.eq_dec (lr + le) 0) as [Hz|Hz].
    + assert (lr = O) by lia. assert (le = O) by lia. subst lr le.
      cbn -[len nseq N.of_nat]. repeat split; try reflexivity; try congruence; try lia; first [apply Hlen1|apply Hlen2].
    + rewrite c_lvl2_window by lia.
      cbn -[len nseq N.of_nat]. repeat split; try reflexivity; try congruence; try lia; first [apply Hlen1|apply Hlen2].
Qed.

(* ------------------------------------------------------------------ *)
(* The invariant survives re-basing the counters by multiples of 16384 *)

Lemma key1_shift n q : key1 (n + 16384 * q) = key1 n.
Proof. rewrite !key1_eq. f_equal. rewrite N.mul_comm. apply N.mod_add. discriminate. Qed.
Lemma key2_shift n q : key2 (n + 16384 * q) = key2 n.
Proof. rewrite !key2_eq. f_equal. rewrite N.mul_comm. apply N.mod_add. discriminate. Qed.
Lemma pub1_shift r t ms n q : pub1_packet r t ms (n + 16384 * q) = pub1_packet r t ms n.
Proof. unfold pub1_packet. rewrite key1_shift. reflexivity. Qed.
Lemma pub2_shift r t ms n q : pub2_packet r t ms (n + 16384 * q) = pub2_packet r t ms n.
Proof. unfold pub2_packet. rewrite key2_shift. reflexivity. Qed.

Lemma SInv_rebase ak ac1 cp rc ac2 rs m ak' ac1' cp' rc' ac2' rs' :
  SInv ak ac1 cp rc ac2 rs m ->
  cp <= rc -> rc <= ac2 ->
  ((ak = ac1 /\ ak' = ac1')
   \/ exists q, ak = ak' + 16384 * q /\ ac1 = ac1' + 16384 * q) ->
  ((cp = ac2 /\ cp' = rc' /\ rc' = ac2')
   \/ exists q, cp = cp' + 16384 * q /\ rc = rc' + 16384 * q /\ ac2 = ac2' + 16384 * q) ->
  (forall k p sq, holds m k p sq -> k <> 0 -> sq <= rs -> sq <= rs') ->
  SInv ak' ac1' cp' rc' ac2' rs' m.
Proof.
  intros [Hs1 Hs2r Hs2p Ho1 Ho2 Hd1 Hd2r Hd2p] C2a C2b R1 R2 Hr.
  constructor.
  - intros n Hn. destruct R1 as [[? ?]|(q & E1 & E2)]; [lia|].
    destruct (Hs1 (n + 16384 * q)) as (r & t & ms & sq & Hh & Hle); [lia|].
    rewrite key1_shift, pub1_shift in Hh. exists r, t, ms, sq. split; [exact Hh|].
    eapply Hr; [exact Hh|apply key1_nz|exact Hle].
  - intros n Hn. destruct R2 as [(? & ? & ?)|(q & E1 & E2 & E3)]; [lia|].
    destruct (Hs2r (n + 16384 * q)) as (sq & Hh & Hle); [lia|].
    rewrite key2_shift in Hh. exists sq. split; [exact Hh|].
    eapply Hr; [exact Hh|apply key2_nz|exact Hle].
  - intros n Hn. destruct R2 as [(? & ? & ?)|(q & E1 & E2 & E3)]; [lia|].
    destruct (Hs2p (n + 16384 * q)) as (r & t & ms & sq & Hh & Hle); [lia|].
    rewrite key2_shift, pub2_shift in Hh. exists r, t, ms, sq. split; [exact Hh|].
    eapply Hr; [exact Hh|apply key2_nz|exact Hle].
  - intros k v Hg Hsp. destruct (Ho1 k v Hg Hsp) as (n & Hn & ->).
    destruct R1 as [[? ?]|(q & E1 & E2)]; [lia|].
    exists (n - 16384 * q). split; [lia|].
    rewrite <- (key1_shift (n - 16384 * q) q). f_equal. lia.
  - intros k v Hg Hsp. destruct (Ho2 k v Hg Hsp) as (n & Hn & ->).
    destruct R2 as [(? & ? & ?)|(q & E1 & E2 & E3)]; [lia|].
    exists (n - 16384 * q). split; [lia|].
    rewrite <- (key2_shift (n - 16384 * q) q). f_equal. lia.
  - intros n n' p p' sq sq' H1 H2 H3 Hb Hb' Hh Hh'.
    destruct R1 as [[? ?]|(q & E1 & E2)]; [lia|].
    rewrite <- (key1_shift n q) in Hh. rewrite <- (key1_shift n' q) in Hh'.
    eapply (Hd1 (n + 16384 * q) (n' + 16384 * q)); [lia|lia|lia|exact Hb|exact Hb'|exact Hh|exact Hh'].
  - intros n n' p p' sq sq' H1 H2 H3 Hb Hb' Hh Hh'.
    destruct R2 as [(? & ? & ?)|(q & E1 & E2 & E3)]; [lia|].
    rewrite <- (key2_shift n q) in Hh. rewrite <- (key2_shift n' q) in Hh'.
    eapply (Hd2r (n + 16384 * q) (n' + 16384 * q)); [lia|lia|lia|exact Hb|exact Hb'|exact Hh|exact Hh'].
  - intros n n' p p' sq sq' H1 H2 H3 Hb Hb' Hh Hh'.
    destruct R2 as [(? & ? & ?)|(q & E1 & E2 & E3)]; [lia|].
    rewrite <- (key2_shift n q) in Hh. rewrite <- (key2_shift n' q) in Hh'.
    eapply (Hd2p (n + 16384 * q) (n' + 16384 * q)); [lia|lia|lia|exact Hb|exact Hb'|exact Hh|exact Hh'].
Qed.

(* ------------------------------------------------------------------ *)
(* C02: restart resumes exactly the unacknowledged set                 *)

Lemma norm_max_le z : norm_max z <= 16384.
Proof.
  unfold norm_max. destruct (Z.ltb_spec z 0); cbn [orb]; [lia|].
  destruct (Z.ltb_spec 16383 z); lia.
Qed.

(* map mode with arbitrary injected failures, over a store of genuine records: nothing
   is ever deleted; a failure makes the scan fatal *)
Lemma ask_store_map w m q a w' :
  w_store w = Some m -> ask_store q w = Some (a, w') ->
  exists b t, t_stf w = b :: t /\ t_stf w' = t /\
    if b : bool then a = SFail /\ w_store w' = Some m
    else match q with
         | QList => a = SKeys (map fst m) /\ w_store w' = Some m
         | QLoad k => a = SVal (store_get m k) /\ w_store w' = Some m
         | QSave k v => a = SDone /\ w_store w' = Some (store_put m k v)
         | QDelete k => a = SDone /\ w_store w' = Some (store_del m k)
         | _ => False
         end.
Proof.
  intros Hs E. unfold ask_store in E. rewrite Hs in E.
  destruct (t_stf w) as [|[|] t] eqn:Et; [discriminate| |].
  - inversion E; subst. exists true, t. repeat split; auto.
  - exists false, t. destruct q; inversion E; subst; repeat split; auto.
Qed.

Definition nofail (l : list bool) : Prop := Forall (fun b => b = false) l.

Lemma adopt_scan_genuine ents : forall a m w r w',
  w_store w = Some m -> (forall k v, In (k, v) ents -> store_get m k = Some v) ->
  Forall ent_ok ents ->
  adopt_scan (map fst ents) a w = Some (r, w') ->
  w_store w' = Some m /\ ((~ nofail (t_stf w) /\ r = inr E_store) \/ r = fst (scan_pure ents a m)).
Proof.
  induction ents as [|[k raw] ents IH]; intros a m w r w' Hw Hget Hok E.
  - cbn in E. inversion E; subst. split; [exact Hw|right; reflexivity].
  - cbn [map fst adopt_scan scan_pure] in *.
    assert (Hget' : forall k' v', In (k', v') ents -> store_get m k' = Some v')
      by (intros; apply Hget; right; assumption).
    inversion Hok as [|? ? Hk Hok']; subst.
    destruct (N.eqb_spec k 0) as [->|Hk0]; [exact (IH _ _ _ _ _ Hw Hget' Hok' E)|].
    unfold bind in E at 1.
    destruct (ask_store (QLoad k) w) as [[ans w1]|] eqn:A; [|discriminate].
    destruct (ask_store_map _ _ _ _ _ Hw A) as (b & t & Et & Et1 & Hb).
    destruct b.
    + destruct Hb as [-> Hw1]. unfold ret in E. inversion E; subst.
      split; [exact Hw1|]. left. split; [|reflexivity].
      rewrite Et. intros Hf. inversion Hf; discriminate.
    + destruct Hb as [-> Hw1].
      assert (Hnf : ~ nofail (t_stf w1) -> ~ nofail (t_stf w)).
      { rewrite Et, Et1. intros Hn Hf. apply Hn. inversion Hf; assumption. }
      rewrite (Hget k raw (or_introl eq_refl)) in E.
      destruct Hk as [Hk|(p & sq & Hraw & Hsq & Hp)]; [cbn in Hk; congruence|].
      cbn [fst snd] in *. subst raw. rewrite (decode_encode p sq Hsq) in E |- *.
      destruct (N.testbit k 16).
      * destruct (IH _ _ _ _ _ Hw1 Hget' Hok' E) as [Hs [[Hn Hr]|Hr]]; (split; [exact Hs|]); auto.
      * destruct Hp as [Hp|Hp]; [discriminate|]. destruct p as [|h body]; [congruence|].
        destruct (IH _ _ _ _ _ Hw1 Hget' Hok' E) as [Hs [[Hn Hr]|Hr]]; (split; [exact Hs|]); auto.
Qed.

Lemma op_adopt_genuine cf max1z max2z w m x w' :
  w_store w = Some m -> NoDup (map fst m) -> Forall ent_ok m ->
  op_adopt cf max1z max2z w = Some (x, w') ->
  w_store w' = Some m /\
  ((~ nofail (t_stf w) /\ fst x = None)
   \/ x = adopt_finish cf max1z max2z (fst (scan_pure m acc0 m))).
Proof.
  intros Hw Hnd Hok E. unfold op_adopt in E. unfold bind in E at 1.
  destruct (ask_store QList w) as [[ans w1]|] eqn:A; [|discriminate].
  destruct (ask_store_map _ _ _ _ _ Hw A) as (b & t & Et & Et1 & Hb).
  destruct b.
  - destruct Hb as [-> Hw1]. unfold ret in E. inversion E; subst.
    split; [exact Hw1|]. left. split; [|reflexivity].
    rewrite Et. intros Hf. inversion Hf; discriminate.
  - destruct Hb as [-> Hw1].
    assert (Hnf : ~ nofail (t_stf w1) -> ~ nofail (t_stf w)).
    { rewrite Et, Et1. intros Hn Hf. apply Hn. inversion Hf; assumption. }
    unfold bind in E at 1.
    destruct (adopt_scan (map fst m) (mkAcc [] [] [] 0 0) w1) as [[r w2]|] eqn:S; [|discriminate].
    destruct (adopt_scan_genuine m acc0 m w1 r w2 Hw1) as [Hw2 Hr];
      [intros k v Hin; apply store_get_in; assumption|exact Hok|exact S|].
    destruct Hr as [[Hn ->] | ->].
    + unfold ret in E. inversion E; subst. split; [exact Hw2|]. left. split; [auto|reflexivity].
    + destruct (fst (scan_pure m acc0 m)) as [acc|e].
      * unfold adopt_finish.
        destruct (clean_seq (keys_of (a_alo acc))) as [alo g1].
        destruct (clean_seq (keys_of (a_eo acc))) as [eo g2].
        destruct (clean_seq (keys_of (a_rel acc))) as [rel g3].
        cbv beta iota zeta in E.
        match type of E with
        | (if ?b then ret ?X else ret ?Y) _ = _ =>
          assert (E' : Some ((if b then X else Y), w2) = Some (x, w'))
            by (rewrite <- E; destruct b; reflexivity)
        end.
        inversion E'; subst. split; [exact Hw2|right; reflexivity].
      * unfold ret in E. inversion E; subst. split; [exact Hw2|right; reflexivity].
Qed.

Section AdoptExact.
  Variable st : ost.
  Hypothesis HI : OInv_fixed st.
  Hypothesis Hsorted : sorted_keys (o_store st).
  Hypothesis Hkeys : known_keys st.
  Hypothesis Hmark : markers_genuine st.
  Hypothesis Hseq : o_rseq st < M64.
  Variables (cf : scfg) (m1 m2 : Z).

  Local Notation m := (o_store st).
  Let l1 := wlen st Alo.
  Let lr := wlen st Rel.
  Let le := wlen st Eo.

  (* the three possible outcomes on a store that satisfies the invariant *)
  Lemma adopt_result wd oc r w :
    w_store wd = Some m ->
    op_adopt cf m1 m2 wd = Some ((oc, r), w) ->
    w_store w = Some m /\
    ((~ nofail (t_stf wd) /\ oc = None)
     \/ (~ (o_acc1 st - o_acked st <= norm_max m1 /\ o_acc2 st - o_compl st <= norm_max m2)
         /\ oc = None /\ r = RetAdopt 0 E_other)
     \/ (o_acc1 st - o_acked st <= norm_max m1 /\ o_acc2 st - o_compl st <= norm_max m2 /\
         exists amax,
           oc = Some (mk_client (adopt_cfg cf m1 m2) amax (map key1 (nseq (o_acked st) l1))
                                (map key2 (nseq (o_compl st + N.of_nat lr) le))
                                (map key2 (nseq (o_compl st) lr)))
           /\ r = RetAdopt 0 E_nil /\ seq_bound m amax /\ amax <= o_rseq st)).
  Proof.
    intros Hwd E.
    pose proof (ci_c1 st (oif_cnt st HI)) as C1. pose proof (ci_c2 st (oif_cnt st HI)) as C2.
    assert (Hseq' : o_rseq st < M64) by exact Hseq.
    assert (Hndm : NoDup (map fst m)) by (apply sorted_nodup; exact Hsorted).
    destruct (op_adopt_genuine cf m1 m2 wd m (oc, r) w Hwd Hndm
                (store_ents_ok st HI Hsorted Hkeys Hmark Hseq') E) as [Hw' Ex].
    split; [exact Hw'|].
    destruct Ex as [[Hn Ho]|Ex]; [left; split; [exact Hn|exact Ho]|]. right.
    destruct (scan_pure_ok m acc0 m (store_ents_ok st HI Hsorted Hkeys Hmark Hseq'))
      as (a' & Esp & Hwarn & Hget & _ & Hb1 & Hb2).
    rewrite Esp in Ex. cbn [fst snd] in Ex.
    assert (HA : clean_seq (keys_of (a_alo a')) = (map key1 (nseq (o_acked st) l1), 0)).
    { change (a_alo a') with (acc_get Alo a'). rewrite Hget. cbn [acc_get acc0 a_alo].
      rewrite app_nil_r.
      rewrite (keys_of_window st HI Hsorted Hkeys Hmark Hseq' Alo).
      apply clean_window. apply key1_mod. }
    assert (HE : clean_seq (keys_of (a_eo a')) = (map key2 (nseq (o_compl st + N.of_nat lr) le), 0)).
    { change (a_eo a') with (acc_get Eo a'). rewrite Hget. cbn [acc_get acc0 a_eo].
      rewrite app_nil_r.
      rewrite (keys_of_window st HI Hsorted Hkeys Hmark Hseq' Eo).
      cbn [lo keyf]. replace (o_compl st + N.of_nat lr) with (o_recvd st)
        by (unfold lr, wlen; cbn [lo hi]; lia).
      apply clean_window. apply key2_mod. }
    assert (HR : clean_seq (keys_of (a_rel a')) = (map key2 (nseq (o_compl st) lr), 0)).
    { change (a_rel a') with (acc_get Rel a'). rewrite Hget. cbn [acc_get acc0 a_rel].
      rewrite app_nil_r.
      rewrite (keys_of_window st HI Hsorted Hkeys Hmark Hseq' Rel).
      apply clean_window. apply key2_mod. }
    unfold adopt_finish in Ex. rewrite HA, HE, HR in Ex.
    unfold adopt_build in Ex. rewrite gap_window in Ex.
    unfold adopt_build2 in Ex. cbv zeta in Ex.
    rewrite !len_map_nseq in Ex.
    replace (s_max1 (adopt_cfg cf m1 m2)) with (norm_max m1) in Ex by reflexivity.
    replace (s_max2 (adopt_cfg cf m1 m2)) with (norm_max m2) in Ex by reflexivity.
    rewrite Hwarn in Ex. change (a_warn acc0 + 0 + 0 + 0 + 0) with 0 in Ex.
    assert (El1 : N.of_nat l1 = o_acc1 st - o_acked st) by (unfold l1, wlen; cbn [lo hi]; lia).
    assert (Elr : N.of_nat le + N.of_nat lr = o_acc2 st - o_compl st)
      by (unfold le, lr, wlen; cbn [lo hi]; lia).
    destruct (N.ltb_spec (norm_max m1) (N.of_nat l1)) as [L1|L1].
    { cbn [orb] in Ex. inversion Ex; subst oc r. left. repeat split; auto. lia. }
    destruct (N.ltb_spec (norm_max m2) (N.of_nat le + N.of_nat lr)) as [L2|L2].
    { cbn [orb] in Ex. inversion Ex; subst oc r. left. repeat split; auto. lia. }
    cbn [orb] in Ex. inversion Ex; subst oc r. right.
    split; [lia|]. split; [lia|].
    exists (a_max a'). split; [reflexivity|]. split; [reflexivity|]. split; [exact Hb1|].
    apply Hb2; [cbn; lia|].
    intros k raw p sq Hin Hk Hdec.
    apply (store_get_in m k raw Hndm) in Hin.
    destruct (store_kinds st HI Hkeys Hmark Hseq' k raw Hin)
      as [H0|p' sq' Hb -> Hle|n r' t ms sq' Hn -> -> Hle|n sq' Hn -> -> Hle|n r' t ms sq' Hn -> -> Hle];
      [congruence| | | |];
      rewrite decode_encode in Hdec by lia; inversion Hdec; subst; exact Hle.
  Qed.
End AdoptExact.

(* what [adopt_exact] says about the adopted client *)
Definition adopt_spec (st : ost) (cf : scfg) (m1 m2 : Z) (c' : client) : Prop :=
  k_cfg c' = adopt_cfg cf m1 m2 /\ k_seqclosed c' = false /\ k_closed c' = false
  /\ (o_acked st < o_acc1 st ->
      k_acked c' = o_acked st mod 16384 /\ k_acc1 c' - k_acked c' = o_acc1 st - o_acked st)
  /\ (o_acked st = o_acc1 st -> k_acked c' = 0 /\ k_acc1 c' = 0)
  /\ k_sub1 c' = k_acc1 c'
  /\ (o_compl st < o_acc2 st ->
      k_compl c' = o_compl st mod 16384
      /\ k_recvd c' - k_compl c' = o_recvd st - o_compl st
      /\ k_acc2 c' - k_compl c' = o_acc2 st - o_compl st)
  /\ (o_compl st = o_acc2 st -> k_compl c' = 0 /\ k_recvd c' = 0 /\ k_acc2 c' = 0)
  /\ k_sub2 c' = k_acc2 c'
  /\ len (k_q1 c') = o_acc1 st - o_acked st /\ len (k_q2 c') = o_acc2 st - o_compl st
  /\ (forall sq k v p, k <> 0 -> store_get (o_store st) k = Some v ->
                       decode_value v = DecOk p sq -> sq <= k_rseq c')
  /\ k_rseq c' <= o_rseq st
  /\ OInv' (ost_of (mkSys c' (o_store st))).

Lemma adopted_spec st cf m1 m2 amax :
  OInv' st ->
  o_acc1 st - o_acked st <= norm_max m1 -> o_acc2 st - o_compl st <= norm_max m2 ->
  seq_bound (o_store st) amax -> amax <= o_rseq st ->
  adopt_spec st cf m1 m2
    (mk_client (adopt_cfg cf m1 m2) amax (map key1 (nseq (o_acked st) (wlen st Alo)))
               (map key2 (nseq (o_compl st + N.of_nat (wlen st Rel)) (wlen st Eo)))
               (map key2 (nseq (o_compl st) (wlen st Rel)))).
Proof.
  intros [HF [Hsorted Hseq]] Hlim1 Hlim2 Hb Hle. unfold adopt_spec.
  pose proof (ci_c1 st (oif_cnt st HF)) as C1. pose proof (ci_c2 st (oif_cnt st HF)) as C2.
  pose proof (norm_max_le m1) as N1. pose proof (norm_max_le m2) as N2.
  assert (Hndm : NoDup (map fst (o_store st))) by (apply sorted_nodup; exact Hsorted).
  set (l1 := wlen st Alo) in *. set (lr := wlen st Rel) in *. set (le := wlen st Eo) in *.
  assert (El1 : N.of_nat l1 = o_acc1 st - o_acked st) by (unfold l1, wlen; cbn [lo hi]; lia).
  assert (Elr : N.of_nat lr = o_recvd st - o_compl st) by (unfold lr, wlen; cbn [lo hi]; lia).
  assert (Ele : N.of_nat le = o_acc2 st - o_recvd st) by (unfold le, wlen; cbn [lo hi]; lia).
  pose proof (mk_client_spec (adopt_cfg cf m1 m2) amax (o_acked st) l1 (o_compl st) lr le
                ltac:(lia) ltac:(lia)) as S.
  cbv zeta in S.
  match type of S with k_cfg ?c = _ /\ _ => set (c' := c) in * end.
  destruct S as (Scfg & Srseq & Sclosed & Sterm & Ssub1 & Ssub2 & Sq1 & Sq2 & S10 & S11 & S20 & S21).
  (* hide the remainders from lia *)
  assert (Ham : exists q, o_acked st = o_acked st mod 16384 + 16384 * q)
    by (exists (o_acked st / 16384); clear; lia).
  assert (Hcm : exists q, o_compl st = o_compl st mod 16384 + 16384 * q)
    by (exists (o_compl st / 16384); clear; lia).
  destruct Ham as [q1 Ham]. destruct Hcm as [q2 Hcm].
  set (am := o_acked st mod 16384) in *. set (cm := o_compl st mod 16384) in *.
  clearbody am cm.
  assert (A1 : k_acc1 c' = k_acked c' + N.of_nat l1).
  { destruct (Nat.eq_dec l1 0) as [Z|NZ]; [destruct (S10 Z) as [-> ->]; lia|destruct (S11 NZ) as [-> ->]; lia]. }
  assert (A2 : k_recvd c' = k_compl c' + N.of_nat lr /\ k_acc2 c' = k_compl c' + N.of_nat lr + N.of_nat le).
  { destruct (Nat.eq_dec (lr + le) 0) as [Z|NZ];
      [destruct (S20 Z) as (-> & -> & ->); lia|destruct (S21 NZ) as (-> & -> & ->); lia]. }
  destruct A2 as [A2 A3].
  split; [exact Scfg|]. split; [exact Sterm|]. split; [exact Sclosed|].
  split. { intros Hlt. destruct (S11 ltac:(lia)) as [-> ->]. split; [reflexivity|lia]. }
  split. { intros Heq. apply S10. lia. }
  split; [exact Ssub1|].
  split. { intros Hlt. destruct (S21 ltac:(lia)) as (-> & -> & ->). split; [reflexivity|]. lia. }
  split. { intros Heq. apply S20. lia. }
  split; [exact Ssub2|].
  split; [lia|]. split; [lia|].
  assert (Hsq : forall sq k v p, k <> 0 -> store_get (o_store st) k = Some v ->
                                decode_value v = DecOk p sq -> sq <= k_rseq c').
  { intros sq k v p Hk Hg Hd. rewrite Srseq. apply (Hb k v p sq); [|exact Hk|exact Hd].
    apply store_get_in; assumption. }
  split; [exact Hsq|]. split; [lia|].
  (* the invariant of the adopted state *)
  split; [split|split].
  - constructor; cbn [ost_of sy_c sy_m o_max1 o_max2 o_acked o_sub1 o_acc1 o_q1 o_compl o_recvd
                      o_sub2 o_acc2 o_q2 o_term o_closed o_rseq o_store];
      rewrite ?Scfg; cbn [adopt_cfg s_max1 s_max2];
      clear S10 S11 S20 S21 Hsq Hb; try lia; try (intros; lia).
    rewrite Sterm. discriminate.
  - cbn [ost_of sy_c sy_m o_max1 o_max2 o_acked o_sub1 o_acc1 o_q1 o_compl o_recvd
                o_sub2 o_acc2 o_q2 o_term o_closed o_rseq o_store].
    apply (SInv_rebase _ _ _ _ _ _ _ _ _ _ _ _ _ (oif_sto st HF)); [lia|lia| | |].
    + destruct (Nat.eq_dec l1 0) as [Z|NZ].
      * left. destruct (S10 Z) as [-> ->]. split; [lia|reflexivity].
      * right. exists q1. destruct (S11 NZ) as [-> ->]. lia.
    + destruct (Nat.eq_dec (lr + le) 0) as [Z|NZ].
      * left. destruct (S20 Z) as (-> & -> & ->). split; [lia|]. split; reflexivity.
      * right. exists q2. destruct (S21 NZ) as (-> & -> & ->). lia.
    + intros k p sq Hh Hk Hsle. apply (Hsq sq k _ p Hk Hh). apply decode_encode. lia.
  - exact Hsorted.
  - cbn [ost_of sy_c o_rseq]. lia.
Qed.

(* C02, main statement: no Persistence failure, limits not below the pending windows *)
Theorem adopt_exact : forall st cf m1 m2 tp oc r w,
  OInv' st -> known_keys st -> markers_genuine st ->
  Forall (fun b => b = false) (tp_stf tp) ->
  o_acc1 st - o_acked st <= norm_max m1 -> o_acc2 st - o_compl st <= norm_max m2 ->
  op_adopt cf m1 m2 (world_of (o_store st) tp) = Some ((oc, r), w) ->
  exists c',
    oc = Some c' /\ r = RetAdopt 0 E_nil
    /\ w_store w = Some (o_store st)
    /\ k_cfg c' = adopt_cfg cf m1 m2 /\ k_seqclosed c' = false /\ k_closed c' = false
    /\ (o_acked st < o_acc1 st ->
        k_acked c' = o_acked st mod 16384 /\ k_acc1 c' - k_acked c' = o_acc1 st - o_acked st)
    /\ (o_acked st = o_acc1 st -> k_acked c' = 0 /\ k_acc1 c' = 0)
    /\ k_sub1 c' = k_acc1 c'
    /\ (o_compl st < o_acc2 st ->
        k_compl c' = o_compl st mod 16384
        /\ k_recvd c' - k_compl c' = o_recvd st - o_compl st
        /\ k_acc2 c' - k_compl c' = o_acc2 st - o_compl st)
    /\ (o_compl st = o_acc2 st -> k_compl c' = 0 /\ k_recvd c' = 0 /\ k_acc2 c' = 0)
    /\ k_sub2 c' = k_acc2 c'
    /\ len (k_q1 c') = o_acc1 st - o_acked st /\ len (k_q2 c') = o_acc2 st - o_compl st
    /\ (forall sq k v p, k <> 0 -> store_get (o_store st) k = Some v ->
                         decode_value v = DecOk p sq -> sq <= k_rseq c')
    /\ k_rseq c' <= o_rseq st
    /\ OInv' (ost_of (mkSys c' (o_store st))).
Proof.
  intros st cf m1 m2 tp oc r w HI Hkeys Hmark Hnofail Hlim1 Hlim2 E.
  destruct HI as [HF [Hsorted Hseq]].
  destruct (adopt_result st HF Hsorted Hkeys Hmark Hseq cf m1 m2 (world_of (o_store st) tp) oc r w
              eq_refl E) as [Hst [[Hn _]|[[Hn _]|(_ & _ & amax & -> & -> & Hb & Hle)]]].
  - exfalso. apply Hn. exact Hnofail.
  - exfalso. apply Hn. split; assumption.
  - eexists. split; [reflexivity|]. split; [reflexivity|]. split; [exact Hst|].
    apply (adopted_spec st cf m1 m2 amax); auto. split; auto.
Qed.

(* whenever AdoptSession returns a client at all (any failure script, any limits) *)
Theorem adopt_some : forall st cf m1 m2 tp c' r w,
  OInv' st -> known_keys st -> markers_genuine st ->
  op_adopt cf m1 m2 (world_of (o_store st) tp) = Some ((Some c', r), w) ->
  r = RetAdopt 0 E_nil /\ w_store w = Some (o_store st)
  /\ o_acc1 st - o_acked st <= norm_max m1 /\ o_acc2 st - o_compl st <= norm_max m2
  /\ adopt_spec st cf m1 m2 c'.
Proof.
  intros st cf m1 m2 tp c' r w HI Hkeys Hmark E.
  destruct HI as [HF [Hsorted Hseq]].
  destruct (adopt_result st HF Hsorted Hkeys Hmark Hseq cf m1 m2 (world_of (o_store st) tp) _ r w
              eq_refl E) as [Hst [[_ Ho]|[(_ & Ho & _)|(L1 & L2 & amax & Ec & -> & Hb & Hle)]]];
    [discriminate|discriminate|].
  inversion Ec; subst c'.
  split; [reflexivity|]. split; [exact Hst|]. split; [exact L1|]. split; [exact L2|].
  apply (adopted_spec st cf m1 m2 amax); auto. split; auto.
Qed.

(* composition with the abstract transition system: [adopts] keeps the working
   invariant and its two side conditions; the store and the three windows are unchanged *)
Theorem adopts_inv : forall st st',
  OInv' st -> known_keys st -> markers_genuine st -> adopts st st' ->
  OInv' st' /\ known_keys st' /\ markers_genuine st'
  /\ o_store st' = o_store st
  /\ o_acc1 st' - o_acked st' = o_acc1 st - o_acked st
  /\ o_acc2 st' - o_compl st' = o_acc2 st - o_compl st
  /\ o_recvd st' - o_compl st' = o_recvd st - o_compl st
  /\ o_term st' = false /\ o_closed st' = false.
Proof.
  intros st st' HI Hkeys Hmark (cf & m1 & m2 & tp & c' & r & w & E & ->).
  pose proof (ci_c1 st (oif_cnt st (proj1 HI))) as C1.
  pose proof (ci_c2 st (oif_cnt st (proj1 HI))) as C2.
  assert (Hseq : o_rseq st < M64) by apply HI.
  destruct (adopt_some st cf m1 m2 tp c' r w HI Hkeys Hmark E)
    as (_ & Hst & _ & _ & Hcfg & Hterm & Hclosed & W1 & W1' & _ & W2 & W2' & _ & _ & _ & Hsq & _ & HI').
  unfold store_of_world. rewrite Hst.
  split; [exact HI'|]. split; [exact Hkeys|]. split.
  { intros k v Hg Hb. cbn [ost_of sy_c sy_m o_store o_rseq] in *.
    destruct (Hmark k v Hg Hb) as (p & sq & -> & Hle). exists p, sq. split; [reflexivity|].
    apply (Hsq sq k (encode_value p sq) p); [intros ->; discriminate|exact Hg|apply decode_encode; lia]. }
  split; [reflexivity|].
  cbn [ost_of sy_c sy_m o_acked o_acc1 o_compl o_recvd o_acc2 o_term o_closed].
  assert (Hwin : k_acc1 c' - k_acked c' = o_acc1 st - o_acked st
                 /\ k_acc2 c' - k_compl c' = o_acc2 st - o_compl st
                 /\ k_recvd c' - k_compl c' = o_recvd st - o_compl st).
  { destruct (N.eq_dec (o_acked st) (o_acc1 st)) as [E1|N1];
      [destruct (W1' E1) as [-> ->]|destruct (W1 ltac:(lia)) as [_ ->]];
      (destruct (N.eq_dec (o_compl st) (o_acc2 st)) as [E2|N2];
       [destruct (W2' E2) as (-> & -> & ->)|destruct (W2 ltac:(lia)) as (_ & -> & ->)]);
      repeat split; lia. }
  destruct Hwin as (H1 & H2 & H3).
  split; [exact H1|]. split; [exact H2|]. split; [exact H3|]. split; assumption.
Qed.

(* ------------------------------------------------------------------ *)
(* The pinned tree computed the received counter with "<" instead of "<=" (request.go,
   "if txs.Received < txs.Completed"): with a full window of 16384 pending PUBRELs that
   does not start at an identifier 0, received = completed: the releases were forgotten
   while 16384 placeholders filled the queue.  Repaired in /repo (and in Session.v). *)
Lemma k_recvd_lvl2_set c a b d e :
  k_recvd (c <| k_compl := a |> <| k_recvd := b |> <| k_acc2 := d |> <| k_sub2 := e |>) = b.
Proof. reflexivity. Qed.

Definition recvd_pinned (rel : list N) (compl : N) : N :=
  match rel with
  | [] => compl
  | _ => let r := N.land (lastk rel) id_mask + 1 in if r <? compl then r + 16384 else r
  end.

Lemma pinned_arith x :
  x mod 16384 <> 0 ->
  (if (x + 16383) mod 16384 + 1 <? x mod 16384
   then (x + 16383) mod 16384 + 1 + 16384 else (x + 16383) mod 16384 + 1) = x mod 16384.
Proof. intros H. destruct (N.ltb_spec ((x + 16383) mod 16384 + 1) (x mod 16384)); lia. Qed.

Lemma adopt_recvd_pinned_refuted cm :
  cm mod 16384 <> 0 ->
  let rel := map key2 (nseq cm (N.to_nat 16384)) in
  recvd_pinned rel (N.land (first_or rel 0) id_mask) = cm mod 16384   (* = completed: window lost *)
  /\ forall c, k_recvd (c_lvl2 [] rel c) = cm mod 16384 + 16384.      (* the repaired code *)
Proof.
  intros Hnz. replace (N.to_nat 16384) with (S (N.to_nat 16383)) by lia.
  pose proof (nseq_last (N.to_nat 16383) cm key2) as E. rewrite N2Nat.id in E.
  cbv zeta. split.
  - unfold recvd_pinned, lastk, first_or. cbn [nseq map] in E |- *. rewrite E.
    cbv zeta. rewrite !land_mask, !key2_mod. apply pinned_arith. exact Hnz.
  - intros c.
    pose proof (c_lvl2_window cm (S (N.to_nat 16383)) 0 c ltac:(lia) ltac:(lia)) as W.
    cbn [nseq map] in W |- *. rewrite W, k_recvd_lvl2_set. lia.
Qed.

(* ------------------------------------------------------------------ *)
(* C16 groundwork: adoption of an arbitrarily damaged store            *)

Definition decodable (v : list N) : bool :=
  match decode_value v with DecOk _ _ => true | _ => false end.
Definition bad_ent (e : N * list N) : bool := negb (fst e =? 0) && negb (decodable (snd e)).
Definition count_bad (m : store) : N := N.of_nat (length (filter bad_ent m)).
Definition is_bad (m : store) (k : N) : bool := existsb (fun e => (fst e =? k) && bad_ent e) m.
Definition purge_bad (ents m : store) : store :=
  fold_left (fun m e => if bad_ent e then store_del m (fst e) else m) ents m.
(* a record that carries a valid checksum over an empty packet: never written by the client *)
Definition forged_empty (m : store) : Prop :=
  exists k v sq, In (k, v) m /\ k <> 0 /\ N.testbit k 16 = false /\ decode_value v = DecOk [] sq.

Lemma scan_pure_general ents : forall a m,
  match scan_pure ents a m with
  | (inl a', m') => a_warn a' = a_warn a + N.of_nat (length (filter bad_ent ents))
                    /\ m' = purge_bad ents m
  | (inr e, _) => e = E_other /\ forged_empty ents
  end.
Proof.
  induction ents as [|[k raw] ents IH]; intros a m.
  - cbn. split; [lia|reflexivity].
  - cbn [scan_pure filter purge_bad fold_left].
    assert (Hbe : bad_ent (k, raw) = negb (k =? 0) && negb (decodable raw)) by reflexivity.
    rewrite !Hbe. clear Hbe. unfold decodable. cbn [fst snd].
    assert (Hfe : forall e, e = E_other /\ forged_empty ents ->
                            e = E_other /\ forged_empty ((k, raw) :: ents)).
    { intros e [-> (k' & v' & sq' & Hin & H)]. split; [reflexivity|].
      exists k', v', sq'. split; [right; exact Hin|exact H]. }
    destruct (N.eqb_spec k 0) as [->|Hk]; cbn [negb andb].
    + specialize (IH a m). destruct (scan_pure ents a m) as [[a'|e] m']; auto.
    + destruct (decode_value raw) as [packet sq| |] eqn:Hd; cbn [negb].
      * destruct (N.testbit k 16) eqn:Hbit.
        -- specialize (IH (a <| a_max := N.max (a_max a) sq |>) m).
           destruct (scan_pure ents _ m) as [[a'|e] m']; auto.
        -- destruct packet as [|h body].
           ++ split; [reflexivity|]. exists k, raw, sq. split; [left; reflexivity|auto].
           ++ specialize (IH (acc_class k h sq (a <| a_max := N.max (a_max a) sq |>)) m).
              destruct (scan_pure ents _ m) as [[a'|e] m']; auto.
              rewrite acc_class_warn in IH. exact IH.
      * specialize (IH (a <| a_warn ::= N.succ |>) (store_del m k)).
        destruct (scan_pure ents _ (store_del m k)) as [[a'|e] m']; auto.
        destruct IH as [-> ->]. split; [|reflexivity]. cbn [length a_warn]. cbn. lia.
      * specialize (IH (a <| a_warn ::= N.succ |>) (store_del m k)).
        destruct (scan_pure ents _ (store_del m k)) as [[a'|e] m']; auto.
        destruct IH as [-> ->]. split; [|reflexivity]. cbn [length a_warn]. cbn. lia.
Qed.

Lemma purge_bad_spec ents : forall m,
  sorted_keys m ->
  sorted_keys (purge_bad ents m)
  /\ forall k, store_get (purge_bad ents m) k = if is_bad ents k then None else store_get m k.
Proof.
  induction ents as [|e ents IH]; intros m Hs.
  - split; [exact Hs|reflexivity].
  - cbn [purge_bad fold_left is_bad existsb]. fold (purge_bad ents). fold (is_bad ents).
    destruct (bad_ent e) eqn:Hb.
    + destruct (IH (store_del m (fst e)) (sorted_keys_del _ _ Hs)) as [Hs' Hg].
      split; [exact Hs'|]. intros k. rewrite Hg, (store_get_del _ _ _ Hs).
      rewrite andb_true_r, (N.eqb_sym (fst e) k).
      destruct (k =? fst e); cbn [orb]; [destruct (is_bad ents k); reflexivity|reflexivity].
    + destruct (IH m Hs) as [Hs' Hg]. split; [exact Hs'|]. intros k.
      rewrite Hg, andb_false_r. reflexivity.
Qed.

Lemma ask_store_total w m q :
  mapw w m -> t_stf w <> [] ->
  match q with QList | QLoad _ | QSave _ _ | QDelete _ => True | _ => False end ->
  exists a w', ask_store q w = Some (a, w') /\ length (t_stf w) = S (length (t_stf w')).
Proof.
  intros [Hs Hf] Hne Hq. unfold ask_store. rewrite Hs.
  destruct (t_stf w) as [|[|] t]; [congruence|inversion Hf; discriminate|].
  destruct q; try contradiction; eexists _, _; (split; [reflexivity|reflexivity]).
Qed.

Lemma adopt_scan_total keys : forall a m w,
  mapw w m -> (2 * length keys <= length (t_stf w))%nat ->
  exists r w', adopt_scan keys a w = Some (r, w').
Proof.
  induction keys as [|k keys IH]; intros a m w Hw Hlen.
  - eexists _, _. reflexivity.
  - cbn [adopt_scan]. cbn [length] in Hlen. destruct (k =? 0); [apply (IH _ m); [exact Hw|lia]|].
    unfold bind at 1.
    destruct (ask_store_total w m (QLoad k) Hw) as (ans & w1 & A & L1); [intros Hn; rewrite Hn in Hlen; cbn in Hlen; lia|exact I|].
    rewrite A. destruct (ask_store_mapw _ _ _ _ _ Hw A) as [-> Hw1].
    destruct (decode_value _) as [packet sq| |].
    + destruct (N.testbit k 16); [apply (IH _ m); [exact Hw1|lia]|].
      destruct packet; [eexists _, _; reflexivity|apply (IH _ m); [exact Hw1|lia]].
    + unfold bind at 1. unfold store_delete. unfold bind at 1.
      destruct (ask_store_total w1 m (QDelete k) Hw1) as (ans & w2 & D & L2); [intros Hn; rewrite Hn in L1; cbn in L1; lia|exact I|].
      rewrite D. destruct (ask_store_mapw _ _ _ _ _ Hw1 D) as [-> Hw2]. cbn [ret].
      apply (IH _ (store_del m k)); [exact Hw2|lia].
    + unfold bind at 1. unfold store_delete. unfold bind at 1.
      destruct (ask_store_total w1 m (QDelete k) Hw1) as (ans & w2 & D & L2); [intros Hn; rewrite Hn in L1; cbn in L1; lia|exact I|].
      rewrite D. destruct (ask_store_mapw _ _ _ _ _ Hw1 D) as [-> Hw2]. cbn [ret].
      apply (IH _ (store_del m k)); [exact Hw2|lia].
Qed.

Lemma op_adopt_total cf max1z max2z w m :
  mapw w m -> (2 * length m + 1 <= length (t_stf w))%nat ->
  exists x w', op_adopt cf max1z max2z w = Some (x, w').
Proof.
  intros Hw Hlen. unfold op_adopt. unfold bind at 1.
  destruct (ask_store_total w m QList Hw) as (ans & w1 & A & L1); [intros Hn; rewrite Hn in Hlen; cbn in Hlen; lia|exact I|].
  rewrite A. destruct (ask_store_mapw _ _ _ _ _ Hw A) as [-> Hw1].
  unfold bind at 1.
  destruct (adopt_scan_total (map fst m) (mkAcc [] [] [] 0 0) m w1 Hw1) as (r & w2 & S);
    [rewrite map_length; lia|].
  rewrite S. destruct r as [acc|e]; [|eexists _, _; reflexivity].
  destruct (clean_seq (keys_of (a_alo acc))) as [alo g1].
  destruct (clean_seq (keys_of (a_eo acc))) as [eo g2].
  destruct (clean_seq (keys_of (a_rel acc))) as [rel g3].
  cbv beta iota zeta.
  match goal with |- exists _ _, (if ?b then _ else _) _ = _ => destruct b end;
    eexists _, _; reflexivity.
Qed.

Lemma adopt_finish_warn cf max1z max2z acc :
  exists oc n e, adopt_finish cf max1z max2z (inl acc) = (oc, RetAdopt n e) /\ a_warn acc <= n.
Proof.
  unfold adopt_finish.
  destruct (clean_seq (keys_of (a_alo acc))) as [alo g1].
  destruct (clean_seq (keys_of (a_eo acc))) as [eo g2].
  destruct (clean_seq (keys_of (a_rel acc))) as [rel g3].
  unfold adopt_build, adopt_build2. cbv zeta.
  match goal with |- exists _ _ _, (if ?b then _ else _) = _ /\ _ => destruct b end;
    eexists _, _, _; (split; [reflexivity|lia]).
Qed.

(* Any store with ascending keys, any values (damage), no Persistence failures and a
   long enough failure script: AdoptSession terminates; it takes the branch where the Go
   code indexes an empty packet only if a record with a valid checksum over an empty
   packet exists; otherwise every undecodable record (other than key 0) is deleted,
   everything else is kept, and each deletion is counted in the warnings. *)
Theorem adopt_total_genuine : forall m cf m1 m2 tp,
  sorted_keys m -> Forall (fun b => b = false) (tp_stf tp) ->
  (2 * length m + 1 <= length (tp_stf tp))%nat ->
  exists oc n e w m',
    op_adopt cf m1 m2 (world_of m tp) = Some ((oc, RetAdopt n e), w) /\ w_store w = Some m'
    /\ ((oc = None /\ n = 0 /\ e = E_other /\ forged_empty m)
        \/ (count_bad m <= n /\ sorted_keys m'
            /\ forall k, store_get m' k = if is_bad m k then None else store_get m k)).
Proof.
  intros m cf m1 m2 tp Hs Hnf Hlen.
  assert (Hw : mapw (world_of m tp) m) by (split; [reflexivity|exact Hnf]).
  destruct (op_adopt_total cf m1 m2 _ m Hw Hlen) as (x & w & E).
  destruct (op_adopt_map cf m1 m2 _ m x w Hw (sorted_nodup m Hs) E) as [-> Hw'].
  pose proof (scan_pure_general m acc0 m) as G.
  destruct (scan_pure m acc0 m) as [[a'|e] m'] eqn:Esp; cbn [fst snd] in *.
  - destruct G as [Gw ->].
    destruct (adopt_finish_warn cf m1 m2 a') as (oc & n & e & Ef & Hle).
    rewrite Ef in E. exists oc, n, e, w, (purge_bad m m).
    split; [exact E|]. split; [exact (proj1 Hw')|]. right.
    destruct (purge_bad_spec m m Hs) as [Hs' Hg].
    split; [unfold count_bad; cbn [acc0 a_warn] in Gw; lia|]. split; assumption.
  - destruct G as [-> Hf]. exists None, 0, E_other, w, m'.
    split; [exact E|]. split; [exact (proj1 Hw')|]. left. auto.
Qed.

(* ------------------------------------------------------------------ *)
(* The order in which List returns the keys does not matter            *)

Lemma le_nodup_lt t : StronglySorted le_snd t -> NoDup (map snd t) -> StronglySorted lt_snd t.
Proof.
  induction t as [|x t IH]; intros Hs Hn; [constructor|].
  apply StronglySorted_inv in Hs. destruct Hs as [Hs Hx]. cbn [map] in Hn.
  inversion Hn as [|? ? Hni Hn']; subst.
  constructor; [apply IH; assumption|].
  rewrite Forall_forall in *. intros y Hy. specialize (Hx y Hy). unfold le_snd, lt_snd in *.
  assert (snd x <> snd y) by (intros E; apply Hni; rewrite E; apply in_map; exact Hy). lia.
Qed.

Lemma sort_perm_eq l l' :
  Permutation l l' -> NoDup (map snd l) -> sort_by_seq l = sort_by_seq l'.
Proof.
  intros Hp Hn. apply sorted_unique.
  - apply sort_sorted.
  - apply le_nodup_lt; [apply sort_sorted|].
    eapply Permutation_NoDup; [|exact Hn]. apply Permutation_map.
    rewrite <- sort_perm. exact Hp.
  - rewrite <- !sort_perm. exact Hp.
Qed.

Lemma adopt_finish_ext cf max1z max2z a1 a2 :
  a_warn a1 = a_warn a2 -> a_max a1 = a_max a2 ->
  (forall c, keys_of (acc_get c a1) = keys_of (acc_get c a2)) ->
  adopt_finish cf max1z max2z (inl a1) = adopt_finish cf max1z max2z (inl a2).
Proof.
  intros Hw Hm Hk. unfold adopt_finish.
  change (a_alo a1) with (acc_get Alo a1). change (a_eo a1) with (acc_get Eo a1).
  change (a_rel a1) with (acc_get Rel a1).
  rewrite !Hk, Hw, Hm. reflexivity.
Qed.

(* the pure scan does not depend on the order of the entries, provided the storage
   numbers inside each group are pairwise different (they are: the counter only grows) *)
Lemma scan_pure_perm ents ents' cf max1z max2z m m' :
  Permutation ents ents' -> Forall ent_ok ents ->
  (forall c, NoDup (map snd (flat_map (ent_sel c) ents))) ->
  adopt_finish cf max1z max2z (fst (scan_pure ents acc0 m))
  = adopt_finish cf max1z max2z (fst (scan_pure ents' acc0 m')).
Proof.
  intros Hp Hok Hnd.
  assert (Hok' : Forall ent_ok ents') by (eapply Permutation_Forall; eassumption).
  destruct (scan_pure_ok ents acc0 m Hok) as (a1 & E1 & W1 & G1 & _ & B1 & U1).
  destruct (scan_pure_ok ents' acc0 m' Hok') as (a2 & E2 & W2 & G2 & _ & B2 & U2).
  rewrite E1, E2. cbn [fst].
  assert (Hsb : forall B, seq_bound ents B <-> seq_bound ents' B).
  { intros B. unfold seq_bound. split; intros H k raw p sq Hin; apply H.
    - eapply Permutation_in; [apply Permutation_sym; exact Hp|exact Hin].
    - eapply Permutation_in; [exact Hp|exact Hin]. }
  apply adopt_finish_ext.
  - congruence.
  - apply N.le_antisymm.
    + apply U1; [cbn; lia|]. apply Hsb. exact B2.
    + apply U2; [cbn; lia|]. apply Hsb. exact B1.
  - intros c. rewrite G1, G2. unfold keys_of. f_equal.
    replace (acc_get c acc0) with (@nil (N * N)) by (destruct c; reflexivity).
    rewrite !app_nil_r. apply sort_perm_eq.
    + rewrite <- !Permutation_rev. apply Permutation_flat_map. exact Hp.
    + eapply Permutation_NoDup; [|exact (Hnd c)]. apply Permutation_map. apply Permutation_rev.
Qed.

(* tape mode: the scripted Persistence answers for a list of genuine entries *)
Definition tape_of (ents : store) : list sans :=
  flat_map (fun e => if fst e =? 0 then [] else [SVal (Some (snd e))]) ents.

Lemma adopt_scan_tape ents : forall a w rest m0,
  w_store w = None -> Forall ent_ok ents -> t_st w = tape_of ents ++ rest ->
  exists w', adopt_scan (map fst ents) a w = Some (fst (scan_pure ents a m0), w')
             /\ w_store w' = None /\ t_st w' = rest.
Proof.
  induction ents as [|[k raw] ents IH]; intros a w rest m0 Hw Hok Ht.
  - exists w. cbn in *. auto.
  - inversion Hok as [|? ? Hk Hok']; subst.
    cbn [map fst adopt_scan scan_pure tape_of flat_map] in *. fold (tape_of ents) in Ht.
    destruct (N.eqb_spec k 0) as [->|Hk0]; [apply IH; assumption|].
    destruct Hk as [Hk|(p & sq & Hraw & Hsq & Hp)]; [cbn in Hk; congruence|].
    cbn [fst snd app] in *. subst raw.
    unfold bind at 1. unfold ask_store at 1. rewrite Hw, Ht.
    rewrite (decode_encode p sq Hsq).
    destruct (N.testbit k 16).
    + apply IH; [exact Hw|exact Hok'|reflexivity].
    + destruct Hp as [Hp|Hp]; [discriminate|]. destruct p as [|h body]; [congruence|].
      apply IH; [exact Hw|exact Hok'|reflexivity].
Qed.

Lemma op_adopt_tape cf max1z max2z ents w rest x wr :
  w_store w = None -> Forall ent_ok ents ->
  t_st w = SKeys (map fst ents) :: tape_of ents ++ rest ->
  op_adopt cf max1z max2z w = Some (x, wr) ->
  x = adopt_finish cf max1z max2z (fst (scan_pure ents acc0 [])).
Proof.
  intros Hw Hok Ht E. unfold op_adopt in E. unfold bind in E at 1.
  unfold ask_store in E at 1. rewrite Hw, Ht in E.
  unfold bind in E at 1.
  match type of E with context [adopt_scan _ _ ?w1] =>
    destruct (adopt_scan_tape ents (mkAcc [] [] [] 0 0) w1 rest [] Hw Hok eq_refl) as (w2 & S & _ & _)
  end.
  rewrite S in E. change (mkAcc [] [] [] 0 0) with acc0 in E.
  destruct (fst (scan_pure ents acc0 [])) as [acc|e].
  - unfold adopt_finish.
    destruct (clean_seq (keys_of (a_alo acc))) as [alo g1].
    destruct (clean_seq (keys_of (a_eo acc))) as [eo g2].
    destruct (clean_seq (keys_of (a_rel acc))) as [rel g3].
    cbv beta iota zeta in E.
    match type of E with
    | (if ?b then ret ?X else ret ?Y) _ = _ =>
      assert (E' : Some ((if b then X else Y), w2) = Some (x, wr))
        by (rewrite <- E; destruct b; reflexivity)
    end.
    inversion E'; subst. reflexivity.
  - unfold ret in E. inversion E; subst. reflexivity.
Qed.

(* Two scripted Persistences that hold the same genuine records and answer List in
   different orders give the same client, warnings and error. *)
Theorem adopt_order_independent : forall ents ents' cf m1 m2 w w' rest rest' x x' wr wr',
  Permutation ents ents' -> Forall ent_ok ents ->
  (forall c, NoDup (map snd (flat_map (ent_sel c) ents))) ->
  w_store w = None -> w_store w' = None ->
  t_st w = SKeys (map fst ents) :: tape_of ents ++ rest ->
  t_st w' = SKeys (map fst ents') :: tape_of ents' ++ rest' ->
  op_adopt cf m1 m2 w = Some (x, wr) -> op_adopt cf m1 m2 w' = Some (x', wr') ->
  x = x'.
Proof.
  intros ents ents' cf m1 m2 w w' rest rest' x x' wr wr' Hp Hok Hnd Hw Hw' Ht Ht' E E'.
  assert (Hok' : Forall ent_ok ents') by (eapply Permutation_Forall; eassumption).
  rewrite (op_adopt_tape _ _ _ _ _ _ _ _ Hw Hok Ht E).
  rewrite (op_adopt_tape _ _ _ _ _ _ _ _ Hw' Hok' Ht' E').
  apply scan_pure_perm; assumption.
Qed.

(* ------------------------------------------------------------------ *)
(* Non-vacuity: a reachable abstract state with all three groups populated and a
   reception marker satisfies every hypothesis of [adopt_exact]                    *)

Definition ex_cfg : scfg :=
  {| s_cfg := {| cfg_user := []; cfg_pass := None; cfg_will := None;
                 cfg_keepalive := 0; cfg_clean := false |};
     s_pause := false; s_max1 := 16384; s_max2 := 16384; s_rcap := 4096;
     s_wmin := 0; s_wmax := 0 |}.

Example adopt_exact_nonvacuous :
  exists st tp oc r w,
    OInv' st /\ known_keys st /\ markers_genuine st
    /\ Forall (fun b => b = false) (tp_stf tp)
    /\ o_acc1 st - o_acked st <= norm_max 10 /\ o_acc2 st - o_compl st <= norm_max 10
    /\ o_acked st < o_acc1 st /\ o_compl st < o_recvd st /\ o_recvd st < o_acc2 st
    /\ op_adopt ex_cfg 10 10 (world_of (o_store st) tp) = Some ((oc, r), w).
Proof.
  set (st0 := mkOst 16384 16384 0 0 0 [] 0 0 0 0 [] false false 1 [(0, encode_value [99] 1)]).
  assert (Htc : topic_check [97] = None) by (vm_compute; reflexivity).
  assert (Hsz1 : publish_size [97] [] alo_space <= packet_max) by (vm_compute; discriminate).
  assert (Hsz2 : publish_size [97] [] eo_space <= packet_max) by (vm_compute; discriminate).
  pose proof (OS_accept1 st0 false [97] [] 0 (o_sub1 st0) eq_refl eq_refl eq_refl Htc Hsz1
                (or_introl eq_refl)) as S1.
  match type of S1 with ostep _ ?s => set (st1 := s) in * end.
  pose proof (OS_accept2 st1 false [97] [] 0 (o_sub2 st1) eq_refl eq_refl eq_refl Htc Hsz2
                (or_introl eq_refl)) as S2.
  match type of S2 with ostep _ ?s => set (st2 := s) in * end.
  pose proof (OS_accept2 st2 true [97] [98] 0 (o_sub2 st2) eq_refl eq_refl eq_refl Htc Hsz2
                (or_introl eq_refl)) as S3.
  match type of S3 with ostep _ ?s => set (st3 := s) in * end.
  pose proof (OS_rec2 st3 eq_refl) as S4.
  match type of S4 with ostep _ ?s => set (st4 := s) in * end.
  pose proof (OS_marker_save st4 65537 [80; 2; 0; 1] eq_refl) as S5.
  match type of S5 with ostep _ ?s => set (st5 := s) in * end.
  assert (H0 : OInv' st0) by (apply oinv_init; lia).
  assert (H1 : OInv' st1) by (apply (oinv_step _ _ H0 S1); reflexivity).
  assert (H2 : OInv' st2) by (apply (oinv_step _ _ H1 S2); reflexivity).
  assert (H3 : OInv' st3) by (apply (oinv_step _ _ H2 S3); reflexivity).
  assert (H4 : OInv' st4) by (apply (oinv_step _ _ H3 S4); reflexivity).
  assert (H5 : OInv' st5) by (apply (oinv_step _ _ H4 S5); reflexivity).
  set (tp := mkTapes (repeat false 20) [] [] []).
  assert (Hnf : Forall (fun b => b = false) (tp_stf tp)).
  { unfold tp. cbn [tp_stf]. apply Forall_forall. intros b Hb. exact (repeat_spec _ _ _ Hb). }
  assert (Hw : mapw (world_of (o_store st5) tp) (o_store st5)) by (split; [reflexivity|exact Hnf]).
  destruct (op_adopt_total ex_cfg 10 10 _ _ Hw) as ([oc r] & w & E).
  { vm_compute. repeat constructor. }
  exists st5, tp, oc, r, w.
  split; [exact H5|].
  assert (Estore : exists v0 v1 v2 v3 v4,
             o_store st5 = [(0, v0); (key1 0, v1); (key2 0, v2); (key2 1, v3); (65537, v4)]
             /\ v4 = encode_value [80; 2; 0; 1] 6).
  { do 5 eexists. split; reflexivity. }
  destruct Estore as (v0 & v1 & v2 & v3 & v4 & Es & Ev4).
  split.
  { intros k v Hg. rewrite Es in Hg. cbn [store_get] in Hg.
    destruct (N.eqb_spec 0 k) as [<-|_]; [left; reflexivity|].
    destruct (N.eqb_spec (key1 0) k) as [<-|_]; [right; right; left; apply key1_space|].
    destruct (N.eqb_spec (key2 0) k) as [<-|_]; [right; right; right; apply key2_space|].
    destruct (N.eqb_spec (key2 1) k) as [<-|_]; [right; right; right; apply key2_space|].
    destruct (N.eqb_spec 65537 k) as [<-|_]; [right; left; reflexivity|discriminate]. }
  split.
  { intros k v Hg Hb. rewrite Es in Hg. cbn [store_get] in Hg.
    destruct (N.eqb_spec 0 k) as [<-|_]; [discriminate|].
    destruct (N.eqb_spec (key1 0) k) as [<-|_]; [rewrite key1_bit in Hb; discriminate|].
    destruct (N.eqb_spec (key2 0) k) as [<-|_]; [rewrite key2_bit in Hb; discriminate|].
    destruct (N.eqb_spec (key2 1) k) as [<-|_]; [rewrite key2_bit in Hb; discriminate|].
    destruct (N.eqb_spec 65537 k) as [<-|_]; [|discriminate].
    inversion Hg; subst v. eexists _, 6. split; [exact Ev4|]. vm_compute. discriminate. }
  split; [exact Hnf|].
  repeat split; try (vm_compute; congruence); try reflexivity. exact E.
Qed.
