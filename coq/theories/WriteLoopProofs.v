(* Proofs about the write loops (C08, L1 part). *)
From MQ Require Import Bytes WriteLoop.
From Coq Require Import ZArith ZifyN ZifyNat ZifyBool.

Lemma len_nat (l : list N) : N.to_nat (len l) = length l.
Proof. unfold len. apply Nat2N.id. Qed.

Lemma firstn_firstn_skipn {A} (a b : nat) (l : list A) :
  firstn a l ++ firstn b (skipn a l) = firstn (a + b) l.
Proof.
  revert l; induction a as [|a IH]; intros l; cbn; [reflexivity|].
  destruct l as [|x l]; cbn; [now rewrite firstn_nil|]. now rewrite IH.
Qed.

Lemma accepted_pair p n : accepted (p, n) = firstn (N.to_nat n) p.
Proof. reflexivity. Qed.

Lemma accepted_single p n : accepted_all [(p, n)] = firstn (N.to_nat n) p.
Proof. unfold accepted_all. cbn [flat_map]. now rewrite app_nil_r. Qed.

Lemma accepted_all_cons c cs : accepted_all (c :: cs) = accepted c ++ accepted_all cs.
Proof. reflexivity. Qed.

Lemma accepted_all_app a b : accepted_all (a ++ b) = accepted_all a ++ accepted_all b.
Proof. unfold accepted_all. apply flat_map_app. Qed.

(* ---------- writeTo ---------- *)

Lemma write_to_prefix fuel : forall p tape cs r t,
  write_to fuel p tape = (cs, r, t) ->
  (exists k, accepted_all cs = firstn k p) /\ (r = WOk -> accepted_all cs = p).
Proof.
  induction fuel as [|f IH]; intros p tape cs r t H; cbn [write_to] in H.
  - inversion H; subst. split; [exists 0%nat; reflexivity|discriminate].
  - destruct p as [|x p'].
    + inversion H; subst. split; [exists 0%nat; reflexivity|reflexivity].
    + remember (x :: p') as p eqn:Ep.
      destruct tape as [|[n0 a] tp].
      * inversion H; subst. split; [exists 0%nat; reflexivity|discriminate].
      * destruct a.
        -- inversion H; subst cs r t. rewrite accepted_single, len_nat, firstn_all.
           split; [exists (length p); now rewrite firstn_all|reflexivity].
        -- destruct (N.eqb_spec (N.min n0 (len p)) 0) as [Z|Z].
           ++ inversion H; subst. split; [exists 0%nat; reflexivity|discriminate].
           ++ destruct (write_to f (skipn (N.to_nat (N.min n0 (len p))) p) tp) as [[cs' r'] t'] eqn:E.
              inversion H; subst cs r t.
              destruct (IH _ _ _ _ _ E) as [[k Hk] Hok].
              rewrite accepted_all_cons, accepted_pair.
              split.
              ** exists (N.to_nat (N.min n0 (len p)) + k)%nat. rewrite Hk. apply firstn_firstn_skipn.
              ** intros R. rewrite (Hok R). apply firstn_skipn.
        -- inversion H; subst. rewrite accepted_single.
           split; [eexists; reflexivity|discriminate].
        -- inversion H; subst. rewrite accepted_single.
           split; [eexists; reflexivity|discriminate].
        -- inversion H; subst. rewrite accepted_single.
           split; [eexists; reflexivity|discriminate].
Qed.

(* ---------- net.Buffers.WriteTo and consume ---------- *)

Lemma consume_concat bs : forall n, n <= len (concat bs) ->
  concat (consume bs n) = skipn (N.to_nat n) (concat bs).
Proof.
  induction bs as [|b bs IH]; intros n Hn; cbn [consume concat].
  - now rewrite skipn_nil.
  - cbn [concat] in Hn. unfold len in *. rewrite app_length in Hn.
    destruct (N.ltb_spec n (N.of_nat (length b))) as [L|L].
    + cbn [concat]. rewrite skipn_app.
      replace (N.to_nat n - length b)%nat with 0%nat by lia. reflexivity.
    + rewrite IH by lia. rewrite skipn_app.
      rewrite (skipn_all2 b) by lia. cbn [app]. f_equal. lia.
Qed.

Lemma buffers_write_spec bs : forall tape cs n r t,
  buffers_write bs tape = (cs, n, r, t) ->
  accepted_all cs = firstn (N.to_nat n) (concat bs) /\ n <= len (concat bs)
  /\ (r = WOk -> n = len (concat bs)).
Proof.
  induction bs as [|b bs IH]; intros tape cs n r t H; cbn [buffers_write] in H.
  - inversion H; subst. cbn. repeat split; reflexivity.
  - destruct b as [|x b'].
    + destruct (buffers_write bs tape) as [[[cs' n'] r'] t'] eqn:E. inversion H; subst.
      destruct (IH _ _ _ _ _ E) as (A & B & C). cbn [concat app]. rewrite accepted_all_cons, accepted_pair.
      cbn [N.to_nat firstn app]. auto.
    + cbv beta iota in H. remember (x :: b') as b eqn:Eb. clear Eb x b'.
      destruct tape as [|[n0 a] tp].
      * inversion H; subst. cbn. repeat split; [lia|discriminate].
      * assert (Hother : forall rr, rr <> WOk ->
            ([(b, N.min n0 (len b))], N.min n0 (len b), rr, tp) = (cs, n, r, t) ->
            accepted_all cs = firstn (N.to_nat n) (concat (b :: bs)) /\ n <= len (concat (b :: bs))
            /\ (r = WOk -> n = len (concat (b :: bs)))).
        { intros rr Hrr Heq. inversion Heq; subst. rewrite accepted_single. cbn [concat].
          rewrite firstn_app.
          replace (N.to_nat (N.min n0 (len b)) - length b)%nat with 0%nat by (unfold len; lia).
          cbn [firstn]. rewrite app_nil_r.
          repeat split; [unfold len; rewrite app_length; lia|intros; contradiction]. }
        destruct a; cbv zeta in H; try (eapply Hother; [|exact H]; discriminate).
        destruct (buffers_write bs tp) as [[[cs' n'] r'] t'] eqn:E. inversion H; subst.
        destruct (IH _ _ _ _ _ E) as (A & B & C).
        rewrite accepted_all_cons, accepted_pair. cbn [concat].
        rewrite len_nat, firstn_all, A.
        unfold len in *. rewrite app_length.
        repeat split.
        -- rewrite firstn_app.
           replace (N.to_nat (N.of_nat (length b) + n')) with (length b + N.to_nat n')%nat by lia.
           rewrite (firstn_all2 b) by lia.
           replace (length b + N.to_nat n' - length b)%nat with (N.to_nat n') by lia. reflexivity.
        -- lia.
        -- intros R. specialize (C R). lia.
Qed.

(* ---------- writeBuffersTo ---------- *)

Lemma write_buffers_to_prefix fuel : forall bs tape cs r t,
  write_buffers_to fuel bs tape = (cs, r, t) ->
  (exists k, accepted_all cs = firstn k (concat bs)) /\ (r = WOk -> accepted_all cs = concat bs).
Proof.
  induction fuel as [|f IH]; intros bs tape cs r t H; cbn [write_buffers_to] in H.
  - inversion H; subst. split; [exists 0%nat; reflexivity|discriminate].
  - destruct (buffers_write bs tape) as [[[cs0 n] r0] t0] eqn:E.
    destruct (buffers_write_spec _ _ _ _ _ _ E) as (A & B & C).
    assert (Hother : forall rr, rr <> WOk -> (cs0, rr, t0) = (cs, r, t) ->
              (exists k, accepted_all cs = firstn k (concat bs)) /\ (r = WOk -> accepted_all cs = concat bs)).
    { intros rr Hrr Heq. inversion Heq; subst. split; [eexists; exact A|intros; contradiction]. }
    destruct r0; try (eapply Hother; [|exact H]; discriminate).
    + inversion H; subst. split; [eexists; exact A|].
      intros _. rewrite A, (C eq_refl), len_nat. apply firstn_all.
    + destruct (N.eqb_spec n 0) as [Z|Z].
      * apply (Hother WTimeout); [discriminate|exact H].
      * destruct (write_buffers_to f (consume bs n) t0) as [[cs' r'] t'] eqn:E2.
        inversion H; subst cs r t.
        destruct (IH _ _ _ _ _ E2) as [[k Hk] Hok].
        rewrite accepted_all_app, A. rewrite consume_concat in Hk, Hok by exact B.
        split.
        -- exists (N.to_nat n + k)%nat. rewrite Hk. apply firstn_firstn_skipn.
        -- intros R. rewrite (Hok R). apply firstn_skipn.
Qed.

(* ---------- the loop before the repair loses bytes and reports success (F1) ---------- *)

Lemma write_buffers_to_f1_refuted :
  exists bs tape, let '(cs, r, _) := write_buffers_to_f1 20 bs tape in
                  r = WOk /\ accepted_all cs <> concat bs.
Proof.
  exists [[48; 17; 0; 5; 116; 111; 112; 105; 99]; [72; 69; 76; 76; 79; 87; 79; 82; 76; 68]].
  exists [(3, WTimeout); (0, WOk); (0, WOk)].
  vm_compute. split; [reflexivity|discriminate].
Qed.
