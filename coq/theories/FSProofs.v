(* L4 proofs about the FileSystem model FS.v: names, the map layer, frame/locality of system
   calls, stop points, the shape of Save, atomicity, List soundness, interleavings. *)
From Coq Require Import ZArith ZifyN ZifyNat ZifyBool.
From MQ Require Import Bytes FS.
Ltac Zify.zify_post_hook ::= Z.div_mod_to_equations.

(* ------------------------------------------------------------------ *)
(* names                                                               *)

Lemma name_eqb_true : forall a b, name_eqb a b = true <-> a = b.
Proof.
  intros a b. unfold name_eqb, list_eqb. destruct (list_eq_dec N.eq_dec a b); split; congruence.
Qed.

Lemma name_eqb_refl : forall a, name_eqb a a = true.
Proof. intros a. apply name_eqb_true. reflexivity. Qed.

Lemma name_eqb_false : forall a b, name_eqb a b = false <-> a <> b.
Proof.
  intros a b. unfold name_eqb, list_eqb. destruct (list_eq_dec N.eq_dec a b); split; congruence.
Qed.

Lemma name_eq_dec : forall a b : fname, {a = b} + {a <> b}.
Proof. exact (list_eq_dec N.eq_dec). Qed.

Lemma rep_length : forall n b, length (rep n b) = n.
Proof. induction n; intros; cbn [rep length]; [reflexivity | rewrite IHn; reflexivity]. Qed.

Lemma hexval_hexdigit : forall v, v < 16 -> hexval (hexdigit v) = Some v.
Proof.
  intros v H.
  assert (v = 0 \/ v = 1 \/ v = 2 \/ v = 3 \/ v = 4 \/ v = 5 \/ v = 6 \/ v = 7 \/ v = 8 \/ v = 9
          \/ v = 10 \/ v = 11 \/ v = 12 \/ v = 13 \/ v = 14 \/ v = 15) as C by lia.
  repeat (destruct C as [C | C]; [subst v; reflexivity|]). subst v. reflexivity.
Qed.

Lemma parse_hex_app : forall l1 l2 acc,
  parse_hex_from acc (l1 ++ l2) =
  match parse_hex_from acc l1 with Some a => parse_hex_from a l2 | None => None end.
Proof.
  induction l1 as [|c r IH]; intros l2 acc; cbn [app parse_hex_from]; [reflexivity|].
  destruct (hexval c); [apply IH | reflexivity].
Qed.

Lemma hex_go_acc : forall f k acc, hex_go f k acc = hex_go f k [] ++ acc.
Proof.
  induction f as [|f IH]; intros k acc; cbn [hex_go]; [reflexivity|].
  destruct (k <? 16); [reflexivity|].
  rewrite (IH _ (_ :: acc)), (IH _ [_]), <- app_assoc. reflexivity.
Qed.

Lemma pow2_succ : forall f, 2 ^ N.of_nat (S f) = 2 * 2 ^ N.of_nat f.
Proof. intros f. rewrite Nat2N.inj_succ, N.pow_succ_r'. reflexivity. Qed.

Lemma parse_hex_go : forall f k, k < 2 ^ N.of_nat f -> parse_hex_from 0 (hex_go f k []) = Some k.
Proof.
  induction f as [|f IH]; intros k H.
  - cbn in H. assert (k = 0) by lia. subst. reflexivity.
  - cbn [hex_go]. destruct (N.ltb_spec k 16) as [L|L].
    + cbn [parse_hex_from]. rewrite hexval_hexdigit by exact L. f_equal.
    + rewrite hex_go_acc, parse_hex_app, IH.
      * cbn [parse_hex_from]. rewrite hexval_hexdigit by (apply N.mod_lt; lia). f_equal. lia.
      * rewrite pow2_succ in H. lia.
Qed.

Lemma parse_hex_zeros : forall n l, parse_hex_from 0 (rep n 48 ++ l) = parse_hex_from 0 l.
Proof. induction n as [|n IH]; intros l; cbn [rep app parse_hex_from]; [reflexivity | apply IH]. Qed.

Lemma size_fuel : forall k, k < 2 ^ N.of_nat (5 + N.to_nat (N.size k)).
Proof.
  intros k. rewrite Nat2N.inj_add, N2Nat.id.
  destruct k as [|p]; [apply N.neq_0_lt_0, N.pow_nonzero; lia|].
  eapply N.lt_le_trans; [apply N.size_gt|]. apply N.pow_le_mono_r; lia.
Qed.

(* ParseUint reads back what %05x printed, for every key *)
Lemma parse_key_name : forall k, parse_hex_from 0 (key_name k) = Some k.
Proof.
  intros k. unfold key_name, hex_of. rewrite parse_hex_zeros. apply parse_hex_go, size_fuel.
Qed.

Lemma key_name_inj : forall k k', key_name k = key_name k' -> k = k'.
Proof.
  intros k k' H. pose proof (parse_key_name k) as A. rewrite H, parse_key_name in A. congruence.
Qed.

Lemma parse_spool_name : forall k, parse_hex_from 0 (spool_name k) = None.
Proof.
  intros k. unfold spool_name. rewrite parse_hex_app, parse_key_name. reflexivity.
Qed.

Lemma key_ne_spool : forall k k', key_name k <> spool_name k'.
Proof.
  intros k k' H. pose proof (parse_key_name k) as A. rewrite H, parse_spool_name in A. discriminate.
Qed.

Lemma spool_name_inj : forall k k', spool_name k = spool_name k' -> k = k'.
Proof. intros k k' H. apply app_inv_tail in H. apply key_name_inj, H. Qed.

Lemma parse_key_key : forall k k', parse_key (key_name k) = Some k' -> k = k'.
Proof.
  intros k k'. unfold parse_key. destruct (Nat.eqb _ 5); [|discriminate].
  rewrite parse_key_name. destruct (k <? key_limit); congruence.
Qed.

Lemma parse_key_spool : forall k, parse_key (spool_name k) = None.
Proof.
  intros k. unfold parse_key. destruct (Nat.eqb _ 5); [|reflexivity].
  rewrite parse_spool_name. reflexivity.
Qed.

Lemma hex_go_length : forall n f k acc,
  (1 <= n)%nat -> (n <= f)%nat -> k < 16 ^ N.of_nat n ->
  (length (hex_go f k acc) <= n + length acc)%nat.
Proof.
  induction n as [|n IH]; intros f k acc H1 H2 H; [lia|].
  destruct f as [|f]; [lia|]. cbn [hex_go].
  destruct (N.ltb_spec k 16) as [L|L]; [cbn [length]; lia|].
  destruct n as [|n].
  - cbn in H. lia.
  - eapply Nat.le_trans; [apply IH; try lia|cbn [length]; lia].
    rewrite Nat2N.inj_succ, N.pow_succ_r' in H. lia.
Qed.

Lemma key_name_length : forall k, k < 1048576 -> length (key_name k) = 5%nat.
Proof.
  intros k H. unfold key_name. rewrite app_length, rep_length.
  assert (length (hex_of k) <= 5)%nat; [|lia].
  unfold hex_of. pose proof (hex_go_length 5 (5 + N.to_nat (N.size k)) k []) as A.
  cbn [length] in A. rewrite Nat.add_0_r in A. apply A; first [lia | exact H].
Qed.

(* List's filter keeps the name of every key the client can use *)
Lemma parse_key_name_small : forall k, k < key_limit -> parse_key (key_name k) = Some k.
Proof.
  intros k H. unfold parse_key. unfold key_limit in H. rewrite key_name_length by lia.
  cbn [Nat.eqb]. rewrite parse_key_name.
  destruct (N.ltb_spec k key_limit) as [L|L]; [reflexivity | unfold key_limit in L; lia].
Qed.

(* the names of one key *)
Definition key_names (k : N) (n : fname) : Prop := n = key_name k \/ n = spool_name k.
Definition store_name (n : fname) : Prop := exists k, key_names k n.

Lemma key_names_disjoint : forall k k' n, k <> k' -> key_names k n -> key_names k' n -> False.
Proof.
  intros k k' n D [A|A] [B|B]; subst n.
  - apply D, key_name_inj, B.
  - eapply key_ne_spool, B.
  - eapply key_ne_spool. symmetry. exact B.
  - apply D, spool_name_inj, B.
Qed.

(* ------------------------------------------------------------------ *)
(* the map layer                                                       *)

Lemma lookup_remove : forall n m d,
  lookup n (remove_name m d) = if name_eqb n m then None else lookup n d.
Proof.
  intros n m. induction d as [|[x f] r IH]; cbn [remove_name lookup].
  - destruct (name_eqb n m); reflexivity.
  - destruct (name_eqb m x) eqn:E.
    + apply name_eqb_true in E. subst x. rewrite IH. destruct (name_eqb n m); reflexivity.
    + cbn [lookup]. rewrite IH. destruct (name_eqb n x) eqn:F; [|reflexivity].
      apply name_eqb_true in F. subst x.
      destruct (name_eqb n m) eqn:G; [|reflexivity].
      apply name_eqb_true in G. subst m. rewrite name_eqb_refl in E. discriminate.
Qed.

Lemma lookup_bind : forall n m f d,
  lookup n (bind_name m f d) = if name_eqb n m then Some f else lookup n d.
Proof.
  intros n m f d. unfold bind_name. cbn [lookup]. rewrite lookup_remove.
  destruct (name_eqb n m); reflexivity.
Qed.

Lemma in_lookup : forall n f d, In (n, f) d -> exists f', lookup n d = Some f'.
Proof.
  intros n f. induction d as [|[x g] r IH]; intros H; [contradiction|].
  cbn [lookup]. destruct (name_eqb n x) eqn:E; [eauto|].
  destruct H as [H|H]; [|apply IH, H]. inversion H; subst. rewrite name_eqb_refl in E. discriminate.
Qed.

Lemma in_remove : forall n f m d, In (n, f) (remove_name m d) -> In (n, f) d.
Proof.
  intros n f m. induction d as [|[x g] r IH]; cbn [remove_name]; intros H; [exact H|].
  destruct (name_eqb m x); [right; apply IH, H|].
  destruct H as [H|H]; [left; exact H | right; apply IH, H].
Qed.

(* an entry after a call is an old entry or carries a name the call touches *)
Lemma in_apply : forall n f d c,
  In (n, f) (apply d c) -> In n (touches c) \/ exists f', In (n, f') d.
Proof.
  intros n f d c H. destruct c as [m|m b|m|m|a b|m|m]; cbn [apply touches] in *.
  - destruct H as [H|H]; [inversion H; subst; left; left; reflexivity|].
    right. eexists. eapply in_remove, H.
  - destruct (lookup m d); [|right; eauto].
    destruct H as [H|H]; [inversion H; subst; left; left; reflexivity|].
    right. eexists. eapply in_remove, H.
  - destruct (lookup m d); [|right; eauto].
    destruct H as [H|H]; [inversion H; subst; left; left; reflexivity|].
    right. eexists. eapply in_remove, H.
  - right; eauto.
  - destruct (lookup a d); [|right; eauto].
    destruct H as [H|H]; [inversion H; subst; left; right; left; reflexivity|].
    right. eexists. eapply in_remove, in_remove, H.
  - right. eexists. eapply in_remove, H.
  - right; eauto.
Qed.

(* frame: a call leaves every name it does not touch alone *)
Lemma apply_frame : forall n d c, ~ In n (touches c) -> lookup n (apply d c) = lookup n d.
Proof.
  intros n d c H.
  destruct c as [m|m b|m|m|a b|m|m]; cbn [apply touches In] in *;
    try reflexivity;
    try (assert (name_eqb n m = false) as E by (apply name_eqb_false; intros ->; tauto)).
  - rewrite lookup_bind, E. reflexivity.
  - destruct (lookup m d); [|reflexivity]. rewrite lookup_bind, E. reflexivity.
  - destruct (lookup m d); [|reflexivity]. rewrite lookup_bind, E. reflexivity.
  - assert (name_eqb n a = false) as Ea by (apply name_eqb_false; intros ->; tauto).
    assert (name_eqb n b = false) as Eb by (apply name_eqb_false; intros ->; tauto).
    destruct (lookup a d); [|reflexivity]. rewrite lookup_bind, Eb, lookup_remove, Ea. reflexivity.
  - rewrite lookup_remove, E. reflexivity.
Qed.

(* locality: what a call does to the names it touches depends on those names only *)
Lemma apply_local : forall d d' c,
  (forall m, In m (touches c) -> lookup m d = lookup m d') ->
  forall n, In n (touches c) -> lookup n (apply d c) = lookup n (apply d' c).
Proof.
  intros d d' c H n Hn.
  destruct c as [m|m b|m|m|a b|m|m]; cbn [apply touches In] in *.
  - rewrite !lookup_bind. destruct (name_eqb n m) eqn:E; [reflexivity|].
    apply name_eqb_false in E. destruct Hn as [->|[]]. congruence.
  - destruct Hn as [<-|[]]. pose proof (H m (or_introl eq_refl)) as Hm. rewrite <- Hm.
    destruct (lookup m d) eqn:E; [rewrite !lookup_bind, name_eqb_refl; reflexivity|].
    congruence.
  - destruct Hn as [<-|[]]. pose proof (H m (or_introl eq_refl)) as Hm. rewrite <- Hm.
    destruct (lookup m d) eqn:E; [rewrite !lookup_bind, name_eqb_refl; reflexivity|].
    congruence.
  - apply H, Hn.
  - pose proof (H a (or_introl eq_refl)) as Ha. rewrite <- Ha. destruct (lookup a d) eqn:E.
    + rewrite !lookup_bind, !lookup_remove. destruct (name_eqb n b) eqn:G; [reflexivity|].
      destruct (name_eqb n a) eqn:F; [reflexivity|].
      apply name_eqb_false in F. apply name_eqb_false in G.
      destruct Hn as [->|[->|[]]]; congruence.
    + apply H, Hn.
  - rewrite !lookup_remove. destruct Hn as [<-|[]]. rewrite name_eqb_refl. reflexivity.
  - apply H, Hn.
Qed.

Lemma in_touches_dec : forall n c, {In n (touches c)} + {~ In n (touches c)}.
Proof. intros n c. apply in_dec, name_eq_dec. Qed.

(* all names touched by the calls of l satisfy S *)
Definition calls_on (S : fname -> Prop) (l : list syscall) : Prop :=
  Forall (fun c => forall n, In n (touches c) -> S n) l.

Lemma run_app : forall d l1 l2, run d (l1 ++ l2) = run (run d l1) l2.
Proof. intros. unfold run. apply fold_left_app. Qed.

Lemma run_cons : forall d c l, run d (c :: l) = run (apply d c) l.
Proof. reflexivity. Qed.

Lemma run_single : forall d c, run d [c] = apply d c.
Proof. reflexivity. Qed.

Lemma calls_on_app : forall S l1 l2, calls_on S l1 -> calls_on S l2 -> calls_on S (l1 ++ l2).
Proof. intros. apply Forall_app. split; assumption. Qed.

Lemma calls_on_weaken : forall (S T : fname -> Prop) l,
  (forall n, S n -> T n) -> calls_on S l -> calls_on T l.
Proof. intros S T l H A. eapply Forall_impl; [|exact A]. cbn. intros c Hc n Hn. apply H, Hc, Hn. Qed.

Lemma run_frame : forall S l, calls_on S l -> forall n d, ~ S n -> lookup n (run d l) = lookup n d.
Proof.
  intros S l H. induction H as [|c l Hc _ IH]; intros n d Hn; [reflexivity|].
  rewrite run_cons, IH by exact Hn. apply apply_frame. intros A. apply Hn, Hc, A.
Qed.

(* two directories that agree on S still agree on S after a call inside S *)
Lemma apply_agree : forall (S : fname -> Prop) d d' c,
  (forall n, S n -> lookup n d = lookup n d') ->
  (forall n, In n (touches c) -> S n) ->
  forall n, S n -> lookup n (apply d c) = lookup n (apply d' c).
Proof.
  intros S d d' c A T n Hn. destruct (in_touches_dec n c) as [I|I].
  - apply apply_local; [|exact I]. intros m Hm. apply A, T, Hm.
  - rewrite !apply_frame by exact I. apply A, Hn.
Qed.

(* ------------------------------------------------------------------ *)
(* stop points                                                         *)

(* p is what was executed when the process stopped somewhere in l: any number of whole
   calls, possibly followed by a data write of which only the first j bytes went in. *)
Inductive stop_prefix : list syscall -> list syscall -> Prop :=
| sp_nil : forall l, stop_prefix [] l
| sp_cons : forall c p l, stop_prefix p l -> stop_prefix (c :: p) (c :: l)
| sp_write : forall n b j l, stop_prefix [Write n (firstn j b)] (Write n b :: l).

Lemma stop_prefix_refl : forall l, stop_prefix l l.
Proof. induction l; constructor; assumption. Qed.

Lemma stop_prefix_firstn : forall i l, stop_prefix (firstn i l) l.
Proof.
  induction i as [|i IH]; intros l; [constructor|].
  destruct l; cbn [firstn]; constructor. apply IH.
Qed.

Lemma stop_prefix_cut_bytes : forall l lim, stop_prefix (cut_bytes lim l) l.
Proof.
  induction l as [|c l IH]; intros lim; cbn [cut_bytes]; [constructor|].
  destruct c; try (constructor; apply IH).
  destruct (Nat.leb _ lim); constructor. apply IH.
Qed.

Lemma stop_prefix_app : forall l1 p l2, stop_prefix p l2 -> stop_prefix (l1 ++ p) (l1 ++ l2).
Proof. induction l1; intros; cbn [app]; [assumption | constructor; auto]. Qed.

Lemma stop_prefix_app_inv : forall l1 l2 p,
  stop_prefix p (l1 ++ l2) ->
  stop_prefix p l1 \/ exists p2, p = l1 ++ p2 /\ stop_prefix p2 l2.
Proof.
  induction l1 as [|c l1 IH]; intros l2 p H.
  - right. exists p. split; [reflexivity | exact H].
  - cbn [app] in H. inversion H as [ | c' p' l' Hp | n' b' j' l']; subst.
    + left. constructor.
    + destruct (IH _ _ Hp) as [A|[p2 [-> A]]].
      * left. constructor. exact A.
      * right. exists p2. split; [reflexivity | exact A].
    + left. constructor.
Qed.

Lemma stop_prefix_calls_on : forall S p l, stop_prefix p l -> calls_on S l -> calls_on S p.
Proof.
  intros S p l H. induction H; intros A.
  - constructor.
  - inversion A as [|? ? Hc Hl]; subst. constructor; [exact Hc | apply IHstop_prefix, Hl].
  - inversion A as [|? ? Hc Hl]; subst. constructor; [exact Hc | constructor].
Qed.

(* ------------------------------------------------------------------ *)
(* the shape of Save                                                   *)

Definition only (m : fname) (n : fname) : Prop := n = m.

Lemma write_atts_shape : forall sp bufs wf t ok,
  write_atts sp bufs wf = (t, ok) ->
  calls_on (only sp) (effects t) /\ (ok = true -> effects t = map (Write sp) bufs).
Proof.
  intros sp. induction bufs as [|b r IH]; intros wf t ok H; cbn [write_atts] in H.
  - inversion H; subst. split; [constructor | reflexivity].
  - destruct wf as [[[|i] n]|].
    + inversion H; subst. split; [|discriminate].
      destruct (Nat.ltb 0 n); cbn [app effects]; repeat constructor.
      intros m [<-|[]]. reflexivity.
    + destruct (write_atts sp r (Some (i, n))) as [t' ok'] eqn:E. inversion H; subst.
      destruct (IH _ _ _ E) as [A B]. cbn [effects map]. split.
      * constructor; [intros m [<-|[]]; reflexivity | exact A].
      * intros ->. rewrite B; reflexivity.
    + destruct (write_atts sp r None) as [t' ok'] eqn:E. inversion H; subst.
      destruct (IH _ _ _ E) as [A B]. cbn [effects map]. split.
      * constructor; [intros m [<-|[]]; reflexivity | exact A].
      * intros ->. rewrite B; reflexivity.
Qed.

Lemma effects_app : forall a b, effects (a ++ b) = effects a ++ effects b.
Proof.
  induction a as [|[c [|]] a IH]; intros b; cbn [app effects]; [reflexivity | rewrite IH; reflexivity | apply IH].
Qed.

Lemma calls_on_only1 : forall sp c, touches c = [sp] -> calls_on (only sp) [c].
Proof. intros sp c H. constructor; [|constructor]. rewrite H. intros n [<-|[]]. reflexivity. Qed.

Ltac on_sp :=
  unfold calls_on in *;
  repeat first
    [ assumption
    | apply Forall_nil
    | apply Forall_cons; [intros ? [<-|[]]; reflexivity|]
    | apply Forall_app; split ].

(* Save is a run of calls on the spool file alone, followed -- exactly when it returns nil
   -- by the one rename; in that case the calls before the rename are
   creat, the writes, fsync, close. *)
Lemma save_calls_shape : forall k bufs f leak,
  exists pre,
    calls_on (only (spool_name k)) pre /\
    (save_ok k bufs f leak = false -> save_calls k bufs f leak = pre) /\
    (save_ok k bufs f leak = true ->
       save_calls k bufs f leak = pre ++ [Rename (spool_name k) (key_name k)] /\
       exists cl, pre = Creat (spool_name k) :: map (Write (spool_name k)) bufs
                          ++ [Fsync (spool_name k)] ++ cl
                  /\ (cl = [] \/ cl = [Close (spool_name k)])).
Proof.
  intros k bufs f leak. unfold save_calls, save_ok, save_atts.
  set (sp := spool_name k). set (kn := key_name k).
  destruct (write_atts sp bufs (write_fault f)) as [w wok] eqn:E.
  destruct (write_atts_shape _ _ _ _ _ E) as [W1 W2].
  assert (calls_on (only sp) [Creat sp]) as C1 by (apply calls_on_only1; reflexivity).
  assert (calls_on (only sp) [Fsync sp]) as C2 by (apply calls_on_only1; reflexivity).
  assert (calls_on (only sp) [Close sp]) as C3 by (apply calls_on_only1; reflexivity).
  assert (calls_on (only sp) [Unlink sp]) as C4 by (apply calls_on_only1; reflexivity).
  assert (calls_on (only sp) []) as C0 by constructor.
  destruct f; cbn [fst snd write_fault is_fsync_fault is_close_fault is_rename_fault negb andb];
    try (exists []; split; [constructor | split; [reflexivity | discriminate]]);
    rewrite ?Bool.andb_true_r, ?Bool.andb_false_r;
    destruct wok; cbn [andb negb]; rewrite ?effects_app; cbn [effects app];
    try (specialize (W2 eq_refl); rewrite W2 in *);
    try (destruct leak; cbn [effects]).
  (* the failing shapes: everything stays on the spool name *)
  all: try (eexists; split; [|split; [reflexivity | discriminate]]; on_sp; fail).
  (* the successful shapes *)
  all: try (exists (Creat sp :: map (Write sp) bufs ++ [Fsync sp; Close sp]);
            split; [on_sp | split; [discriminate|]];
            intros _; split;
              [ cbn [app]; rewrite <- app_assoc; reflexivity
              | exists [Close sp]; split; [reflexivity | right; reflexivity] ]; fail).
  (* close reported an error: Save ignores it, the call had no effect *)
  all: exists (Creat sp :: map (Write sp) bufs ++ [Fsync sp]);
       (split; [on_sp | split; [discriminate|]]);
       intros _; split;
         [ cbn [app]; rewrite <- app_assoc; reflexivity
         | exists []; split; [reflexivity | left; reflexivity] ].
Qed.

Lemma run_writes : forall sp bufs d f,
  lookup sp d = Some f ->
  exists fl, lookup sp (run d (map (Write sp) bufs)) = Some (mkfile (fdata f ++ concat bufs) fl).
Proof.
  intros sp. induction bufs as [|b r IH]; intros d f H; cbn [map concat].
  - exists (fflushed f). rewrite app_nil_r. destruct f. exact H.
  - rewrite run_cons. cbn [apply]. rewrite H.
    destruct (IH (bind_name sp (mkfile (fdata f ++ b) false) d) (mkfile (fdata f ++ b) false)) as [fl A].
    + rewrite lookup_bind, name_eqb_refl. reflexivity.
    + exists fl. rewrite A. cbn [fdata]. rewrite <- app_assoc. reflexivity.
Qed.

(* after creat, all writes, fsync (and close) the spool file holds the whole value, flushed *)
Lemma run_spool_complete : forall sp bufs cl d,
  cl = [] \/ cl = [Close sp] ->
  lookup sp (run d (Creat sp :: map (Write sp) bufs ++ [Fsync sp] ++ cl))
  = Some (mkfile (concat bufs) true).
Proof.
  intros sp bufs cl d Hcl. rewrite run_cons, run_app.
  destruct (run_writes sp bufs (apply d (Creat sp)) (mkfile [] false)) as [fl A].
  { cbn [apply]. rewrite lookup_bind, name_eqb_refl. reflexivity. }
  cbn [fdata app] in A.
  set (d2 := run (apply d (Creat sp)) (map (Write sp) bufs)) in *.
  destruct Hcl as [->| ->]; cbn [app run fold_left apply]; rewrite A;
    rewrite lookup_bind, name_eqb_refl; reflexivity.
Qed.

(* ------------------------------------------------------------------ *)
(* Save and Delete at every stop point                                 *)

Lemma only_spool_not_key : forall k, ~ only (spool_name k) (key_name k).
Proof. intros k H. exact (key_ne_spool _ _ H). Qed.

(* The entry under the key is untouched, or it is the complete new value and flushed. *)
Lemma save_stop_entry : forall d k bufs f leak p,
  stop_prefix p (save_calls k bufs f leak) ->
  lookup (key_name k) (run d p) = lookup (key_name k) d \/
  (save_ok k bufs f leak = true /\
   lookup (key_name k) (run d p) = Some (mkfile (concat bufs) true)).
Proof.
  intros d k bufs f leak p H.
  destruct (save_calls_shape k bufs f leak) as [pre [P [Hf Ht]]].
  destruct (save_ok k bufs f leak) eqn:E.
  - destruct (Ht eq_refl) as [S [cl [Hpre Hcl]]]. rewrite S in H.
    apply stop_prefix_app_inv in H. destruct H as [H|[p2 [-> H]]].
    + left. eapply run_frame; [eapply stop_prefix_calls_on; eassumption | apply only_spool_not_key].
    + inversion H as [ | c' p' l' Hp | n' b' j' l']; subst.
      * left. rewrite app_nil_r. eapply run_frame; [exact P | apply only_spool_not_key].
      * inversion Hp; subst. right. split; [reflexivity|].
        rewrite run_app, run_single. cbn [apply].
        rewrite run_spool_complete by exact Hcl.
        rewrite lookup_bind, name_eqb_refl. reflexivity.
  - rewrite (Hf eq_refl) in H. left.
    eapply run_frame; [eapply stop_prefix_calls_on; eassumption | apply only_spool_not_key].
Qed.

Theorem save_atomic_lemma : forall d k bufs f leak p,
  stop_prefix p (save_calls k bufs f leak) ->
  load k (run d p) = load k d \/ load k (run d p) = Some (concat bufs).
Proof.
  intros d k bufs f leak p H. unfold load.
  destruct (save_stop_entry d k bufs f leak p H) as [A|[_ A]]; rewrite A; [left | right]; reflexivity.
Qed.

Theorem failed_save_keeps_old_lemma : forall d k bufs f leak p,
  save_ok k bufs f leak = false ->
  stop_prefix p (save_calls k bufs f leak) ->
  lookup (key_name k) (run d p) = lookup (key_name k) d.
Proof.
  intros d k bufs f leak p E H.
  destruct (save_stop_entry d k bufs f leak p H) as [A|[A _]]; [exact A | congruence].
Qed.

Definition is_write (c : syscall) : bool := match c with Write _ _ => true | _ => false end.

(* In a Save that returns nil the fsync of the spool file comes before the rename, no data is
   written in between, and at the rename the spool file holds the complete value, flushed;
   the rename is the last call, so the run ends with exactly that under the key. *)
Theorem flush_before_visible_lemma : forall k bufs f leak,
  save_ok k bufs f leak = true ->
  exists a b,
    save_calls k bufs f leak
      = a ++ Fsync (spool_name k) :: b ++ [Rename (spool_name k) (key_name k)] /\
    forallb (fun c => negb (is_write c)) b = true /\
    (forall d, lookup (spool_name k) (run d (a ++ Fsync (spool_name k) :: b))
               = Some (mkfile (concat bufs) true)) /\
    (forall d, lookup (key_name k) (run d (save_calls k bufs f leak))
               = Some (mkfile (concat bufs) true)).
Proof.
  intros k bufs f leak E.
  destruct (save_calls_shape k bufs f leak) as [pre [P [_ Ht]]].
  destruct (Ht E) as [S [cl [Hpre Hcl]]].
  exists (Creat (spool_name k) :: map (Write (spool_name k)) bufs), cl.
  assert (pre = (Creat (spool_name k) :: map (Write (spool_name k)) bufs)
                  ++ Fsync (spool_name k) :: cl) as Hpre'.
  { rewrite Hpre. cbn [app]. reflexivity. }
  split; [|split; [|split]].
  - rewrite S, Hpre', <- app_assoc. reflexivity.
  - destruct Hcl as [->| ->]; reflexivity.
  - intros d. rewrite <- Hpre', Hpre. apply run_spool_complete, Hcl.
  - intros d. rewrite S, run_app, run_single, Hpre. cbn [apply].
    rewrite run_spool_complete by exact Hcl. rewrite lookup_bind, name_eqb_refl. reflexivity.
Qed.

(* ------------------------------------------------------------------ *)
(* Delete                                                              *)

Theorem delete_stop_lemma : forall d k p,
  stop_prefix p (delete_calls k) ->
  load k (run d p) = load k d \/ load k (run d p) = None.
Proof.
  intros d k p H. unfold delete_calls in H.
  inversion H as [ | c' p' l' Hp | n' b' j' l']; subst.
  - left. reflexivity.
  - inversion Hp; subst. right. unfold load. cbn [run fold_left apply].
    rewrite lookup_remove, name_eqb_refl. reflexivity.
Qed.

(* ------------------------------------------------------------------ *)
(* which names the operations touch                                    *)

Lemma save_calls_on : forall k bufs f leak, calls_on (key_names k) (save_calls k bufs f leak).
Proof.
  intros k bufs f leak. destruct (save_calls_shape k bufs f leak) as [pre [P [Hf Ht]]].
  assert (calls_on (key_names k) pre) as P'.
  { eapply calls_on_weaken; [|exact P]. intros n ->. right. reflexivity. }
  destruct (save_ok k bufs f leak).
  - destruct (Ht eq_refl) as [-> _]. apply calls_on_app; [exact P'|].
    constructor; [|constructor]. cbn [touches]. intros n [<-|[<-|[]]]; [right | left]; reflexivity.
  - rewrite (Hf eq_refl). exact P'.
Qed.

Lemma delete_calls_on : forall k, calls_on (key_names k) (delete_calls k).
Proof.
  intros k. constructor; [|constructor]. cbn [touches]. intros n [<-|[]]. left. reflexivity.
Qed.

(* frame: an operation on key k leaves the files of every other key alone *)
Theorem frame_lookup : forall k l, calls_on (key_names k) l ->
  forall k' n d, k' <> k -> key_names k' n -> lookup n (run d l) = lookup n d.
Proof.
  intros k l H k' n d D Hn. eapply run_frame; [exact H|].
  intros A. exact (key_names_disjoint k' k n D Hn A).
Qed.

Theorem frame_load : forall k l, calls_on (key_names k) l ->
  forall k' d, k' <> k -> load k' (run d l) = load k' d.
Proof.
  intros k l H k' d D. unfold load.
  rewrite (frame_lookup k l H k' (key_name k') d D); [reflexivity | left; reflexivity].
Qed.

(* ------------------------------------------------------------------ *)
(* List                                                                *)

(* directories that hold only names the store creates *)
Definition store_dir (d : dir) : Prop := forall n f, In (n, f) d -> store_name n.

Lemma store_dir_apply : forall d c,
  store_dir d -> (forall n, In n (touches c) -> store_name n) -> store_dir (apply d c).
Proof.
  intros d c H T n f I. destruct (in_apply _ _ _ _ I) as [A|[f' A]]; [apply T, A | eapply H, A].
Qed.

Lemma store_dir_run : forall l d, store_dir d -> calls_on store_name l -> store_dir (run d l).
Proof.
  induction l as [|c l IH]; intros d H A; [exact H|].
  inversion A as [|? ? Hc Hl]; subst. rewrite run_cons. apply IH; [|exact Hl].
  apply store_dir_apply; assumption.
Qed.

Lemma list_keys_in : forall k d, In k (list_keys d) -> exists n f, In (n, f) d /\ parse_key n = Some k.
Proof.
  intros k. induction d as [|[n f] r IH]; cbn [list_keys]; intros H; [contradiction|].
  destruct (parse_key n) eqn:E.
  - destruct H as [<-|H].
    + exists n, f. split; [left; reflexivity | exact E].
    + destruct (IH H) as [n' [f' [A B]]]. exists n', f'. split; [right; exact A | exact B].
  - destruct (IH H) as [n' [f' [A B]]]. exists n', f'. split; [right; exact A | exact B].
Qed.

Lemma in_list_keys : forall n f k d, In (n, f) d -> parse_key n = Some k -> In k (list_keys d).
Proof.
  intros n f k. induction d as [|[m g] r IH]; intros H E; [contradiction|].
  cbn [list_keys]. destruct H as [H|H].
  - inversion H; subst. rewrite E. left. reflexivity.
  - destruct (parse_key m); [right|]; apply IH; assumption.
Qed.

Lemma lookup_in : forall n f d, lookup n d = Some f -> In (n, f) d.
Proof.
  intros n f. induction d as [|[m g] r IH]; cbn [lookup]; intros H; [discriminate|].
  destruct (name_eqb n m) eqn:E.
  - apply name_eqb_true in E. inversion H; subst. left. reflexivity.
  - right. apply IH, H.
Qed.

Lemma parse_key_limit : forall n k, parse_key n = Some k -> k < key_limit.
Proof.
  intros n k. unfold parse_key. destruct (Nat.eqb _ 5); [|discriminate].
  destruct (parse_hex_from 0 n) as [v|]; [|discriminate].
  destruct (N.ltb_spec v key_limit) as [L|L]; [|discriminate]. intros E. inversion E; subst. exact L.
Qed.

(* every key List reports can be loaded; and List reports exactly the loadable keys below 2^17 *)
Theorem listed_iff_loadable : forall d k, store_dir d ->
  (In k (list_keys d) <-> k < key_limit /\ exists v, load k d = Some v).
Proof.
  intros d k S. split.
  - intros H. destruct (list_keys_in _ _ H) as [n [f [I P]]]. split; [eapply parse_key_limit, P|].
    destruct (S _ _ I) as [k' [-> | ->]].
    + apply parse_key_key in P. subst k'. destruct (in_lookup _ _ _ I) as [f' L].
      unfold load. rewrite L. eauto.
    + rewrite parse_key_spool in P. discriminate.
  - intros [L [v H]]. unfold load in H. destruct (lookup (key_name k) d) as [f|] eqn:E; [|discriminate].
    eapply in_list_keys; [apply lookup_in, E | apply parse_key_name_small, L].
Qed.

Lemma key_names_store : forall k n, key_names k n -> store_name n.
Proof. intros k n H. exists k. exact H. Qed.

Theorem list_subset_loadable_lemma : forall d l p k',
  store_dir d -> calls_on store_name l -> stop_prefix p l ->
  In k' (list_keys (run d p)) -> exists v, load k' (run d p) = Some v.
Proof.
  intros d l p k' S A H I.
  assert (store_dir (run d p)) as S'.
  { apply store_dir_run; [exact S|]. eapply stop_prefix_calls_on; eassumption. }
  apply (listed_iff_loadable _ _ S') in I. apply I.
Qed.

(* membership in List is framed as well *)
Theorem frame_listed : forall k l d k', store_dir d -> calls_on (key_names k) l -> k' <> k ->
  (In k' (list_keys (run d l)) <-> In k' (list_keys d)).
Proof.
  intros k l d k' S A D.
  assert (store_dir (run d l)) as S'.
  { apply store_dir_run; [exact S|]. eapply calls_on_weaken; [apply key_names_store | exact A]. }
  rewrite (listed_iff_loadable _ _ S'), (listed_iff_loadable _ _ S).
  rewrite (frame_load k l A k' d D). reflexivity.
Qed.

(* ------------------------------------------------------------------ *)
(* interleavings                                                       *)

(* m is an interleaving of l1 and l2 *)
Inductive merge : list syscall -> list syscall -> list syscall -> Prop :=
| merge_nil : merge [] [] []
| merge_l : forall c l1 l2 m, merge l1 l2 m -> merge (c :: l1) l2 (c :: m)
| merge_r : forall c l1 l2 m, merge l1 l2 m -> merge l1 (c :: l2) (c :: m).

Lemma merge_sym : forall l1 l2 m, merge l1 l2 m -> merge l2 l1 m.
Proof. intros l1 l2 m H. induction H; constructor; assumption. Qed.

Lemma merge_nil_l : forall l, merge [] l l.
Proof. induction l; constructor; assumption. Qed.

Lemma merge_app : forall l1 l2, merge l1 l2 (l1 ++ l2).
Proof. induction l1; intros l2; cbn [app]; [apply merge_nil_l | constructor; auto]. Qed.

Lemma merge_calls_on : forall (S : fname -> Prop) l1 l2 m,
  merge l1 l2 m -> calls_on S l1 -> calls_on S l2 -> calls_on S m.
Proof.
  intros S l1 l2 m H. induction H; intros A B.
  - constructor.
  - inversion A as [|? ? Hc Hl]; subst. constructor; [exact Hc | apply IHmerge; assumption].
  - inversion B as [|? ? Hc Hl]; subst. constructor; [exact Hc | apply IHmerge; assumption].
Qed.

(* a stop point of an interleaving is an interleaving of stop points *)
Lemma merge_stop_prefix : forall l1 l2 m, merge l1 l2 m -> forall p, stop_prefix p m ->
  exists p1 p2, stop_prefix p1 l1 /\ stop_prefix p2 l2 /\ merge p1 p2 p.
Proof.
  intros l1 l2 m H. induction H; intros p Hp.
  - inversion Hp; subst. exists [], []. repeat split; constructor.
  - inversion Hp as [ | c' p' l' Hp' | n' b' j' l']; subst.
    + exists [], []. repeat split; constructor.
    + destruct (IHmerge _ Hp') as [p1 [p2 [A [B C]]]].
      exists (c :: p1), p2. repeat split; [constructor; exact A | exact B | constructor; exact C].
    + exists [Write n' (firstn j' b')], []. repeat split; repeat constructor.
  - inversion Hp as [ | c' p' l' Hp' | n' b' j' l']; subst.
    + exists [], []. repeat split; constructor.
    + destruct (IHmerge _ Hp') as [p1 [p2 [A [B C]]]].
      exists p1, (c :: p2). repeat split; [exact A | constructor; exact B | constructor; exact C].
    + exists [], [Write n' (firstn j' b')]. repeat split; repeat constructor.
Qed.

(* In any interleaving, the names of one side see that side's calls only. *)
Lemma merge_projection : forall (A B : fname -> Prop) l1 l2 m,
  (forall n, A n -> B n -> False) ->
  merge l1 l2 m -> calls_on A l1 -> calls_on B l2 ->
  forall d d', (forall n, A n -> lookup n d = lookup n d') ->
  forall n, A n -> lookup n (run d m) = lookup n (run d' l1).
Proof.
  intros A B l1 l2 m D H. induction H; intros C1 C2 d d' E n Hn.
  - apply E, Hn.
  - inversion C1 as [|? ? Hc Hl]; subst. rewrite !run_cons. apply IHmerge; try assumption.
    apply apply_agree; assumption.
  - inversion C2 as [|? ? Hc Hl]; subst. rewrite run_cons. apply IHmerge; try assumption.
    intros n0 Hn0. rewrite apply_frame; [apply E, Hn0|].
    intros I. exact (D n0 Hn0 (Hc _ I)).
Qed.

(* extensional equality of directories *)
Definition dir_equiv (d d' : dir) : Prop := forall n, lookup n d = lookup n d'.

(* Calls on disjoint name sets commute in every interleaving: each interleaving has the
   effect of running one list after the other, in either order. *)
Lemma merge_commute_gen : forall (NA NB : list fname) l1 l2 m d,
  (forall n, In n NA -> In n NB -> False) ->
  merge l1 l2 m -> calls_on (fun n => In n NA) l1 -> calls_on (fun n => In n NB) l2 ->
  dir_equiv (run d m) (run (run d l1) l2).
Proof.
  intros NA NB l1 l2 m d D H C1 C2 n.
  destruct (in_dec name_eq_dec n NA) as [IA|IA].
  - rewrite (merge_projection _ _ _ _ _ D H C1 C2 d d (fun _ _ => eq_refl) n IA).
    symmetry. eapply run_frame; [exact C2|]. intros IB. exact (D n IA IB).
  - destruct (in_dec name_eq_dec n NB) as [IB|IB].
    + assert (forall x, In x NB -> In x NA -> False) as D' by (intros x P Q; exact (D x Q P)).
      rewrite (merge_projection _ _ _ _ _ D' (merge_sym _ _ _ H) C2 C1 d d (fun _ _ => eq_refl) n IB).
      rewrite <- run_app.
      rewrite (merge_projection _ _ _ _ _ D' (merge_sym _ _ _ (merge_app l1 l2)) C2 C1 d d
                 (fun _ _ => eq_refl) n IB).
      reflexivity.
    + rewrite <- run_app.
      rewrite (run_frame (fun x => In x NA \/ In x NB) m); [|
        eapply merge_calls_on; [exact H | eapply calls_on_weaken; [|exact C1]; cbn; tauto
                                         | eapply calls_on_weaken; [|exact C2]; cbn; tauto] | tauto].
      rewrite (run_frame (fun x => In x NA \/ In x NB) (l1 ++ l2)); [reflexivity| | tauto].
      apply calls_on_app; [eapply calls_on_weaken; [|exact C1] | eapply calls_on_weaken; [|exact C2]];
        cbn; tauto.
Qed.

Lemma key_names_list : forall k n, key_names k n <-> In n [key_name k; spool_name k].
Proof. intros k n. unfold key_names. cbn [In]. split; intros H; intuition congruence. Qed.

Theorem interleave_commute_lemma : forall k1 k2 l1 l2 m d,
  k1 <> k2 -> calls_on (key_names k1) l1 -> calls_on (key_names k2) l2 -> merge l1 l2 m ->
  dir_equiv (run d m) (run (run d l1) l2) /\ dir_equiv (run d m) (run (run d l2) l1).
Proof.
  intros k1 k2 l1 l2 m d D C1 C2 H.
  assert (forall n, In n [key_name k1; spool_name k1] -> In n [key_name k2; spool_name k2] -> False) as Dj.
  { intros n A B. apply key_names_list in A, B. exact (key_names_disjoint k1 k2 n D A B). }
  assert (calls_on (fun n => In n [key_name k1; spool_name k1]) l1) as C1'.
  { eapply calls_on_weaken; [|exact C1]. intros n. apply key_names_list. }
  assert (calls_on (fun n => In n [key_name k2; spool_name k2]) l2) as C2'.
  { eapply calls_on_weaken; [|exact C2]. intros n. apply key_names_list. }
  split.
  - eapply merge_commute_gen; eassumption.
  - eapply merge_commute_gen; [| apply merge_sym, H | exact C2' | exact C1'].
    intros n A B. exact (Dj n B A).
Qed.

(* ... and at every stop point of the interleaving each key sees a stop point of its own
   operation, whatever the other one did. *)
Theorem interleave_stop_projection : forall k1 k2 l1 l2 m p d,
  k1 <> k2 -> calls_on (key_names k1) l1 -> calls_on (key_names k2) l2 -> merge l1 l2 m ->
  stop_prefix p m ->
  exists p1 p2, stop_prefix p1 l1 /\ stop_prefix p2 l2 /\
    (forall n, key_names k1 n -> lookup n (run d p) = lookup n (run d p1)) /\
    (forall n, key_names k2 n -> lookup n (run d p) = lookup n (run d p2)).
Proof.
  intros k1 k2 l1 l2 m p d D C1 C2 H Hp.
  destruct (merge_stop_prefix _ _ _ H _ Hp) as [p1 [p2 [A [B M]]]].
  exists p1, p2. split; [exact A|]. split; [exact B|].
  pose proof (stop_prefix_calls_on _ _ _ A C1) as P1.
  pose proof (stop_prefix_calls_on _ _ _ B C2) as P2.
  split; intros n Hn.
  - eapply (merge_projection (key_names k1) (key_names k2)); try eassumption.
    + intros x. apply key_names_disjoint, D.
    + reflexivity.
  - eapply (merge_projection (key_names k2) (key_names k1)); try eassumption.
    + intros x P Q. exact (key_names_disjoint k1 k2 x D Q P).
    + apply merge_sym, M.
    + reflexivity.
Qed.

(* ------------------------------------------------------------------ *)
(* closed forms used by the case checker for very large values         *)

Lemma write_atts_none : forall sp bufs,
  write_atts sp bufs None = (map (fun b => (Write sp b, true)) bufs, true).
Proof.
  intros sp. induction bufs as [|b r IH]; cbn [write_atts map]; [reflexivity|]. rewrite IH. reflexivity.
Qed.

Lemma effects_all_ok : forall sp bufs,
  effects (map (fun b => (Write sp b, true)) bufs) = map (Write sp) bufs.
Proof. intros sp. induction bufs as [|b r IH]; cbn [map effects]; [|rewrite IH]; reflexivity. Qed.

Lemma save_calls_nofault : forall k bufs leak,
  save_calls k bufs NoFault leak
  = (Creat (spool_name k) :: map (Write (spool_name k)) bufs
       ++ [Fsync (spool_name k); Close (spool_name k)])
    ++ [Rename (spool_name k) (key_name k)].
Proof.
  intros k bufs leak. unfold save_calls, save_atts. cbn [write_fault].
  rewrite write_atts_none.
  cbn [is_fsync_fault is_close_fault is_rename_fault negb andb fst app].
  cbn [effects]. rewrite effects_app, effects_all_ok. cbn [effects app].
  rewrite <- app_assoc. reflexivity.
Qed.

Lemma writes_on_spool : forall sp bufs, calls_on (only sp) (map (Write sp) bufs).
Proof.
  intros sp. induction bufs; cbn [map]; constructor; [intros n [<-|[]]; reflexivity | assumption].
Qed.

(* killed at the entry of call number i+1 of a Save without faults *)
Theorem save_cut_calls_closed : forall d k bufs leak i,
  load k (run d (cut_calls i (save_calls k bufs NoFault leak)))
  = if Nat.leb i (length bufs + 3) then load k d else Some (concat bufs).
Proof.
  intros d k bufs leak i. rewrite save_calls_nofault. unfold cut_calls.
  set (pre := Creat (spool_name k) :: map (Write (spool_name k)) bufs
                ++ [Fsync (spool_name k); Close (spool_name k)]).
  assert (length pre = length bufs + 3)%nat as L.
  { unfold pre. cbn [length]. rewrite app_length, map_length. cbn [length]. lia. }
  assert (calls_on (only (spool_name k)) pre) as P.
  { unfold pre. apply (calls_on_app _ [_]); [apply calls_on_only1; reflexivity|].
    apply calls_on_app; [apply writes_on_spool|].
    apply (calls_on_app _ [_] [_]); apply calls_on_only1; reflexivity. }
  destruct (Nat.leb_spec i (length bufs + 3)) as [Hi|Hi].
  - rewrite firstn_app. replace (i - length pre)%nat with 0%nat by lia.
    cbn [firstn]. rewrite app_nil_r. unfold load.
    rewrite (run_frame (only (spool_name k)) (firstn i pre)); [reflexivity| |apply only_spool_not_key].
    eapply stop_prefix_calls_on; [apply stop_prefix_firstn | exact P].
  - rewrite firstn_all2 by (rewrite app_length; cbn [length]; lia).
    unfold load. rewrite run_app, run_single. cbn [apply]. unfold pre.
    pose proof (run_spool_complete (spool_name k) bufs [Close (spool_name k)] d
                  (or_intror eq_refl)) as R.
    cbn [app] in R. rewrite R, lookup_bind, name_eqb_refl. reflexivity.
Qed.

Lemma cut_bytes_writes_on : forall sp bufs rest lim,
  (lim < length (concat bufs))%nat ->
  calls_on (only sp) (cut_bytes lim (map (Write sp) bufs ++ rest)).
Proof.
  intros sp. induction bufs as [|b r IH]; intros rest lim H; cbn [concat length] in H; [lia|].
  cbn [map app cut_bytes]. rewrite app_length in H.
  destruct (Nat.leb_spec (length b) lim) as [L|L].
  - constructor; [intros n [<-|[]]; reflexivity|]. apply IH. lia.
  - apply calls_on_only1. reflexivity.
Qed.

(* stopped by a file size limit below the size of the value: nothing is visible *)
Theorem save_cut_bytes_closed : forall d k bufs leak lim,
  (lim < length (concat bufs))%nat ->
  load k (run d (cut_bytes lim (save_calls k bufs NoFault leak))) = load k d.
Proof.
  intros d k bufs leak lim H. rewrite save_calls_nofault. cbn [app cut_bytes].
  unfold load. rewrite (run_frame (only (spool_name k))); [reflexivity| |apply only_spool_not_key].
  constructor; [intros n [<-|[]]; reflexivity|].
  rewrite <- app_assoc. apply cut_bytes_writes_on, H.
Qed.

(* ------------------------------------------------------------------ *)
(* the two modifying operations under one name                         *)

Inductive store_op :=
| OpSave (k : N) (bufs : list (list N)) (f : fault) (leak : bool)
| OpDelete (k : N).

Definition op_key (o : store_op) : N :=
  match o with OpSave k _ _ _ => k | OpDelete k => k end.
Definition op_calls (o : store_op) : list syscall :=
  match o with OpSave k bufs f leak => save_calls k bufs f leak | OpDelete k => delete_calls k end.
(* what the key holds once the operation is through *)
Definition op_new (o : store_op) : option (list N) :=
  match o with OpSave _ bufs _ _ => Some (concat bufs) | OpDelete _ => None end.

Lemma op_calls_on : forall o, calls_on (key_names (op_key o)) (op_calls o).
Proof. intros [k bufs f leak|k]; [apply save_calls_on | apply delete_calls_on]. Qed.

(* every stop point: the complete previous state of the key, or the complete new one *)
Theorem op_atomic : forall o d p,
  stop_prefix p (op_calls o) ->
  load (op_key o) (run d p) = load (op_key o) d \/ load (op_key o) (run d p) = op_new o.
Proof.
  intros [k bufs f leak|k] d p H; cbn [op_key op_calls op_new] in *.
  - eapply save_atomic_lemma, H.
  - apply delete_stop_lemma, H.
Qed.

(* two operations on different keys, any interleaving of their calls, any stop point in
   it: each key is in its complete previous or complete new state *)
Theorem concurrent_atomic : forall o1 o2 m p d,
  op_key o1 <> op_key o2 -> merge (op_calls o1) (op_calls o2) m -> stop_prefix p m ->
  (load (op_key o1) (run d p) = load (op_key o1) d \/ load (op_key o1) (run d p) = op_new o1) /\
  (load (op_key o2) (run d p) = load (op_key o2) d \/ load (op_key o2) (run d p) = op_new o2).
Proof.
  intros o1 o2 m p d D M Hp.
  destruct (interleave_stop_projection _ _ _ _ _ _ d D (op_calls_on o1) (op_calls_on o2) M Hp)
    as [p1 [p2 [A [B [E1 E2]]]]].
  assert (load (op_key o1) (run d p) = load (op_key o1) (run d p1)) as L1.
  { unfold load. rewrite (E1 (key_name (op_key o1)) (or_introl eq_refl)). reflexivity. }
  assert (load (op_key o2) (run d p) = load (op_key o2) (run d p2)) as L2.
  { unfold load. rewrite (E2 (key_name (op_key o2)) (or_introl eq_refl)). reflexivity. }
  rewrite L1, L2.
  split; [apply (op_atomic o1 d p1 A) | apply (op_atomic o2 d p2 B)].
Qed.

(* a Save that returned nil on a key below 2^17: List reports it and Load returns the value *)
Theorem saved_is_listed : forall d k bufs f leak,
  k < key_limit -> save_ok k bufs f leak = true ->
  In k (list_keys (run d (save_calls k bufs f leak))) /\
  load k (run d (save_calls k bufs f leak)) = Some (concat bufs).
Proof.
  intros d k bufs f leak L E.
  destruct (flush_before_visible_lemma k bufs f leak E) as [a [b [_ [_ [_ F]]]]].
  split.
  - eapply in_list_keys; [apply lookup_in, F | apply parse_key_name_small, L].
  - unfold load. rewrite F. reflexivity.
Qed.

(* ------------------------------------------------------------------ *)
(* statements in the form props/C19.v quotes them                      *)

Lemma failed_save_keeps_old_both : forall d k bufs f leak p,
  save_ok k bufs f leak = false ->
  stop_prefix p (save_calls k bufs f leak) ->
  lookup (key_name k) (run d p) = lookup (key_name k) d /\ load k (run d p) = load k d.
Proof.
  intros d k bufs f leak p E H.
  pose proof (failed_save_keeps_old_lemma d k bufs f leak p E H) as A.
  split; [exact A | unfold load; rewrite A; reflexivity].
Qed.

Lemma op_list_subset_loadable : forall d o p k',
  store_dir d -> stop_prefix p (op_calls o) ->
  In k' (list_keys (run d p)) -> exists v, load k' (run d p) = Some v.
Proof.
  intros d o p k' S H. eapply list_subset_loadable_lemma; [exact S | | exact H].
  eapply calls_on_weaken; [apply key_names_store | apply op_calls_on].
Qed.

Lemma op_frame : forall d o p k',
  store_dir d -> stop_prefix p (op_calls o) -> k' <> op_key o ->
  lookup (key_name k') (run d p) = lookup (key_name k') d /\
  lookup (spool_name k') (run d p) = lookup (spool_name k') d /\
  load k' (run d p) = load k' d /\
  (In k' (list_keys (run d p)) <-> In k' (list_keys d)).
Proof.
  intros d o p k' S H D.
  pose proof (stop_prefix_calls_on _ _ _ H (op_calls_on o)) as C.
  split; [|split; [|split]].
  - apply (frame_lookup _ _ C k' _ d D). left. reflexivity.
  - apply (frame_lookup _ _ C k' _ d D). right. reflexivity.
  - apply (frame_load _ _ C k' d D).
  - apply (frame_listed _ _ d k' S C D).
Qed.

Lemma op_interleavings_commute : forall d o1 o2 m,
  op_key o1 <> op_key o2 -> merge (op_calls o1) (op_calls o2) m ->
  dir_equiv (run d m) (run (run d (op_calls o1)) (op_calls o2)) /\
  dir_equiv (run d m) (run (run d (op_calls o2)) (op_calls o1)).
Proof.
  intros d o1 o2 m D M.
  exact (interleave_commute_lemma _ _ _ _ m d D (op_calls_on o1) (op_calls_on o2) M).
Qed.

Lemma names_lemma :
  (forall k k', key_name k = key_name k' -> k = k') /\
  (forall k k', spool_name k = spool_name k' -> k = k') /\
  (forall k k', key_name k <> spool_name k') /\
  (forall k, k < key_limit -> parse_key (key_name k) = Some k) /\
  (forall k, parse_key (spool_name k) = None).
Proof.
  repeat split; [exact key_name_inj | exact spool_name_inj | exact key_ne_spool
                 | exact parse_key_name_small | exact parse_key_spool].
Qed.
