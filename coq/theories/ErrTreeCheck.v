(* C14, error classifiers: executable case checker used by the correspondence
   run (harness/c14err.go, runner "C14ERR"). *)
From MQ Require Export Bytes ErrTree C15Check.

(* What the implementation answered for one error value:
   IsDeny, IsEnd, IsConnectionRefused, which channel Client.Backoff returned
   (nil / something else than c.Online() / c.Online()), which channel
   Client.ReadBackoff returned (already closed / nil / open) on a client without
   pending big message. *)
Inductive errobs := Obs (deny fin refused : bool) (backoff : bclass) (read : rclass).

Inductive errcase :=
(* one error VALUE v built as tree e; `first` = IsDeny(v), IsEnd(v),
   IsConnectionRefused(v), Backoff(v), ReadBackoff(v) called in this order on v;
   `again` = the same five calls repeated on the same v; mutated = the harness
   found a node of v whose Unwrap result is no longer what it was built with *)
| ClassCase (e : gerr) (first again : errobs) (mutated : bool)
(* VerifNonNilIsAny(v, targets) twice on the same value *)
| AnyCase (e : gerr) (targets : list N) (first again : bool) (mutated : bool)
(* the five calls with a nil error *)
| NilCase (o : errobs)
(* ReadBackoff(v) on a client whose ReadSlices just returned a *BigMessage *)
| BigCase (o : option gerr) (read : rclass)
(* the identifiers of VerifDenyErrs() and VerifEndErrs(), in table order; the
   harness knows every sentinel from a source other than these tables *)
| TableCase (deny fin : list N).

Definition bclass_eqb (a b : bclass) : bool :=
  match a, b with BNil, BNil | BSharedTimer, BSharedTimer | BOnline, BOnline => true | _, _ => false end.
Definition rclass_eqb (a b : rclass) : bool :=
  match a, b with RClosedChan, RClosedChan | RNil, RNil | RTimer, RTimer => true | _, _ => false end.
Definition obs_eqb (a b : errobs) : bool :=
  match a, b with
  | Obs d n r k q, Obs d' n' r' k' q' =>
      Bool.eqb d d' && Bool.eqb n n' && Bool.eqb r r' && bclass_eqb k k' && rclass_eqb q q'
  end.

Definition model_obs (e : gerr) : errobs :=
  Obs (is_deny e) (is_end e) (is_conn_refused e)
      (backoff_class (Some e)) (read_backoff_class (Some e) false).
Definition model_nil_obs : errobs :=
  Obs (is_deny_o None) (is_end_o None) (is_conn_refused_o None)
      (backoff_class None) (read_backoff_class None false).

(* model prediction equals the observation (the model is pure: no mutation,
   same answers the second time) *)
Definition err_agree (c : errcase) : bool :=
  match c with
  | ClassCase e f a m => obs_eqb (model_obs e) f && obs_eqb (model_obs e) a && negb m
  | AnyCase e ts f a m =>
      Bool.eqb (non_nil_is_any e ts) f && Bool.eqb (non_nil_is_any e ts) a && negb m
  | NilCase o => obs_eqb model_nil_obs o
  | BigCase o r => rclass_eqb (read_backoff_class o true) r
  | TableCase d n => list_eqb d deny_ids && list_eqb n end_ids
  end.

(* ---- the property, judged on the observation alone, against the flattening
   specification of ErrTree (nodes / sentinels_of), not against the stack loop ---- *)

Definition connrets_of (e : gerr) : list N :=
  flat_map (fun n => match n with ConnRet c => [c] | _ => [] end) (nodes e).
Definition nonzero (c : N) : bool := negb (N.eqb c 0).

(* IsConnectionRefused: true needs a refusal code somewhere; when codes occur and
   all are refusals the answer must be true *)
Definition refused_ok (r : bool) (e : gerr) : bool :=
  implb r (existsb nonzero (connrets_of e))
  && implb (match connrets_of e with [] => false | _ => forallb nonzero (connrets_of e) end) r.

Definition is_bnil (k : bclass) : bool := match k with BNil => true | _ => false end.
Definition is_rnil (q : rclass) : bool := match q with RNil => true | _ => false end.

Definition obs_ok (e : gerr) (o : errobs) : bool :=
  match o with
  | Obs d n r k q =>
      let sd := spec_is_any e deny_ids in
      let sn := spec_is_any e end_ids in
      let ss := spec_has_sub_err e in
      (* IsDeny / IsEnd find a sentinel iff it occurs, however deeply wrapped or joined *)
      Bool.eqb d sd && Bool.eqb n sn
      (* disjoint unless the value really holds both kinds *)
      && implb (d && n) (sd && sn)
      && refused_ok r e
      (* Backoff: nil exactly for the permanent classes.  A value that holds both
         ErrMax and a SubscribeError (and nothing deny/end) is left undecided: the
         documentation names both a retry and "not applicable" for it. *)
      && (if ss && spec_is_any e [ErrMax] && negb (sd || sn) then true
          else Bool.eqb (is_bnil k) (sd || sn || ss))
      (* ReadBackoff: nil exactly for ErrClosed *)
      && Bool.eqb (is_rnil q) (spec_is_any e [ErrClosed])
  end.

Definition disjointb (a b : list N) : bool := forallb (fun x => negb (mem_N x b)) a.
Definition subsetb (a b : list N) : bool := forallb (fun x => mem_N x b) a.

Definition err_ok (c : errcase) : bool :=
  match c with
  | ClassCase e f a m => negb m && obs_eqb f a && obs_ok e f
  | AnyCase e ts f a m => negb m && Bool.eqb f a && Bool.eqb f (spec_is_any e ts)
  | NilCase o =>
      match o with
      | Obs d n r k q => negb d && negb n && negb r && is_bnil k && rclass_eqb q RClosedChan
      end
  | BigCase _ r => rclass_eqb r RClosedChan
  | TableCase d n =>
      (* IsEnd is documented as ErrClosed, ErrCanceled, ErrAbandoned; no overlap with the deny table *)
      disjointb d n && subsetb n [ErrClosed; ErrCanceled; ErrAbandoned]
      && subsetb [ErrClosed; ErrCanceled; ErrAbandoned] n
  end.

(* (indices where model and implementation disagree,
    indices where the property fails on the observation,
    nothing: no recorded finding belongs to this checker) *)
Definition err_run (l : list errcase) : list N * list N * list (N * N) :=
  (idx_filter err_agree l 0, idx_filter err_ok l 0, []).
