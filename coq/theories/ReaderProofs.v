(* L1 proofs: the read loops of the client (Reader.v) deliver what the byte stream says,
   however the stream is cut into conn.Read results and wherever deadline expiries fall.
   Abstraction (DESIGN Appendix E3): pending s = buffered bytes ++ data still on the tape.
   Every operation's result and new [pending] are functions of the old [pending] alone,
   unless it ends in a deadline-expiry error. *)
From MQ Require Import Bytes Spec Reader ReaderRun.
From Coq Require Import ZArith ZifyN ZifyNat ZifyBool.
Ltac Zify.zify_post_hook ::= Z.div_mod_to_equations.

Ltac splits := repeat match goal with |- _ /\ _ => split end.

(* ------------------------------------------------------------------ *)
(* tapes, states                                                       *)

Definition good_ans (a : rans) : Prop :=
  match a with RData (_ :: _) => True | RTimeout => True | _ => False end.
Definition good_tape (t : list rans) : Prop := Forall good_ans t.

Definition pending (s : rst) : list N := rbuf s ++ data (rtape s).

Record wf (s : rst) : Prop := {
  wf_err : rerr s = None;
  wf_tape : good_tape (rtape s);
  wf_cap : len (rbuf s) <= rcap s;
  wf_pos : 0 < rcap s }.

(* s' is a well-formed successor of s whose pending bytes are p' *)
Definition post (s s' : rst) (p' : list N) : Prop :=
  wf s' /\ rcap s' = rcap s /\ pending s' = p' /\
  (tape_weight (rtape s') <= tape_weight (rtape s))%nat.

Lemma post_intro s s' p :
  rerr s' = None -> good_tape (rtape s') -> len (rbuf s') <= rcap s -> 0 < rcap s ->
  rcap s' = rcap s -> pending s' = p -> (tape_weight (rtape s') <= tape_weight (rtape s))%nat ->
  post s s' p.
Proof. intros. split; [split; auto; lia|auto]. Qed.

Ltac simp_st := cbn [rst_with_err rst_with_buf rst_arm rbuf rtape rcap rerr rarmed rlog].

Lemma post_trans s s1 s2 p1 p2 : post s s1 p1 -> post s1 s2 p2 -> post s s2 p2.
Proof.
  intros (A & B & C & D) (A' & B' & C' & D').
  split; [exact A'|]. split; [congruence|]. split; [exact C'|lia].
Qed.

Lemma post_refl s : wf s -> post s s (pending s).
Proof. intros. repeat split; auto; apply H. Qed.

Lemma wf_arm s a : wf s -> wf (rst_arm s a).
Proof. intros [A B C D]. split; assumption. Qed.

Lemma post_arm_r s s' p a : post s s' p -> post s (rst_arm s' a) p.
Proof.
  intros (A & B & C & D). split; [apply wf_arm; exact A|]. split; [exact B|]. split; [exact C|exact D].
Qed.

Lemma post_arm_l s s' p a : post (rst_arm s a) s' p -> post s s' p.
Proof. intros (A & B & C & D). split; [exact A|]. split; [exact B|]. split; [exact C|exact D]. Qed.

Lemma post_arm_if s (c a : bool) : wf s -> post s (if c then rst_arm s a else s) (pending s).
Proof. intros. destruct c; [apply post_arm_r|]; apply post_refl; assumption. Qed.

Lemma len_app' (a b : list N) : len (a ++ b) = len a + len b.
Proof. unfold len. rewrite app_length. lia. Qed.

Lemma len_firstn (k : nat) (l : list N) : len (firstn k l) = N.min (N.of_nat k) (len l).
Proof. unfold len. rewrite firstn_length. lia. Qed.

Lemma len_skipn (k : nat) (l : list N) : len (skipn k l) = len l - N.of_nat k.
Proof. unfold len. rewrite skipn_length. lia. Qed.

Lemma len_zero_nil (l : list N) : len l = 0 -> l = [].
Proof. destruct l; [reflexivity|]. unfold len. cbn. lia. Qed.

Lemma firstn_app_le {A} (k : nat) (a b : list A) : (k <= length a)%nat -> firstn k (a ++ b) = firstn k a.
Proof. intros. rewrite firstn_app. replace (k - length a)%nat with O by lia. cbn. apply app_nil_r. Qed.

Lemma skipn_app_le {A} (k : nat) (a b : list A) : (k <= length a)%nat -> skipn k (a ++ b) = skipn k a ++ b.
Proof. intros. rewrite skipn_app. replace (k - length a)%nat with O by lia. reflexivity. Qed.

(* ------------------------------------------------------------------ *)
(* conn.Read, fill                                                     *)

Lemma conn_read_spec s want : good_tape (rtape s) -> 0 < want ->
  match conn_read s want with
  | None => rtape s = []
  | Some (a, s') =>
    rbuf s' = rbuf s /\ rerr s' = rerr s /\ rcap s' = rcap s /\ rarmed s' = rarmed s /\
    good_tape (rtape s') /\
    (tape_weight (rtape s') < tape_weight (rtape s))%nat /\
    data (rtape s) = chunk_data a ++ data (rtape s') /\
    ((exists b bs, a = RData (b :: bs) /\ len (b :: bs) <= want) \/ a = RTimeout)
  end.
Proof.
  intros G W. unfold conn_read. destruct (rtape s) as [|a t] eqn:E; [reflexivity|].
  inversion G as [|? ? Ga Gt]; subst.
  destruct a as [bs| | | |]; cbn [good_ans] in Ga; try contradiction.
  - destruct bs as [|b bs]; [contradiction|].
    destruct (N.ltb_spec want (len (b :: bs))) as [L|L]; cbn [rbuf rerr rcap rarmed rtape].
    + assert (Hk : exists k, N.to_nat want = S k) by (exists (pred (N.to_nat want)); lia).
      destruct Hk as [k Hk]. rewrite Hk. cbn [firstn].
      repeat split; auto.
      * constructor; [|assumption]. rewrite <- Hk.
        destruct (skipn (N.to_nat want) (b :: bs)) eqn:S1; [|exact I].
        apply (f_equal (@length N)) in S1. rewrite skipn_length in S1. unfold len in L. cbn [length] in *. lia.
      * cbn [tape_weight chunk_data]. rewrite <- Hk. rewrite skipn_length. unfold len in L. cbn [length] in *. lia.
      * cbn [data chunk_data]. rewrite <- Hk.
        change (b :: firstn k bs) with (firstn (S k) (b :: bs)). rewrite <- Hk.
        rewrite app_assoc. rewrite firstn_skipn. reflexivity.
      * left. exists b, (firstn k bs). split; [reflexivity|].
        change (b :: firstn k bs) with (firstn (S k) (b :: bs)). rewrite len_firstn. lia.
    + repeat split; auto.
      * cbn [tape_weight]. lia.
      * left. exists b, bs. split; [reflexivity|lia].
  - cbn [rbuf rerr rcap rarmed rtape]. repeat split; auto; try (cbn [tape_weight]; lia).
Qed.

Lemma fill_spec s : wf s -> len (rbuf s) < rcap s ->
  match fill s with
  | None => rtape s = []
  | Some s' =>
    rcap s' = rcap s /\ rarmed s' = rarmed s /\ good_tape (rtape s') /\
    (tape_weight (rtape s') < tape_weight (rtape s))%nat /\
    pending s' = pending s /\
    ((rerr s' = None /\ (exists b bs, rbuf s' = rbuf s ++ b :: bs) /\ len (rbuf s') <= rcap s)
     \/ (rerr s' = Some RTimeout /\ rbuf s' = rbuf s))
  end.
Proof.
  intros [We Wt Wc Wp] L. unfold fill.
  pose proof (conn_read_spec s (rcap s - len (rbuf s)) Wt ltac:(lia)) as H.
  destruct (conn_read s (rcap s - len (rbuf s))) as [[a s']|]; [|exact H].
  destruct H as (Hb & He & Hc & Ha & Hg & Hw & Hd & Hk).
  destruct Hk as [(b & bs & -> & Hl)| ->].
  - cbn [rst_with_buf rcap rarmed rtape rerr rbuf]. repeat split; auto.
    + unfold pending. cbn [rst_with_buf rbuf rtape]. rewrite Hb, Hd. cbn [chunk_data]. now rewrite app_assoc.
    + left. rewrite He, Hb. repeat split; auto.
      * exists b, bs. reflexivity.
      * rewrite len_app'. lia.
  - cbn [rst_with_err rcap rarmed rtape rerr rbuf]. repeat split; auto.
    all: try (unfold pending; cbn [rst_with_err rbuf rtape]; rewrite Hb, Hd; reflexivity).
    all: try (right; split; [reflexivity|exact Hb]).
Qed.

(* ------------------------------------------------------------------ *)
(* ReadByte                                                            *)

Lemma read_byte_spec s b p : wf s -> pending s = b :: p ->
  (exists s', read_byte s = (inl b, s') /\ post s s' p)
  \/ (exists s', read_byte s = (inr ETimeout, s')).
Proof.
  intros W P. pose proof W as [We Wt Wc Wp]. unfold read_byte.
  destruct (rbuf s) as [|x r] eqn:Eb.
  - rewrite We.
    pose proof (fill_spec s W) as H. rewrite Eb in H. specialize (H Wp).
    destruct (fill s) as [s'|].
    + destruct H as (Hc & Ha & Hg & Hw & Hp & [(He & (y & ys & Hb) & Hl)|(He & Hb)]).
      * cbn [app] in Hb. assert (Hy : y = b /\ ys ++ data (rtape s') = p).
        { rewrite P in Hp. unfold pending in Hp. rewrite Hb in Hp. cbn [app] in Hp.
          inversion Hp. auto. }
        destruct Hy as [-> Hys].
        rewrite Hb. left. eexists. split; [reflexivity|].
        split; [|split; [exact Hc|split; [exact Hys|cbn [rst_with_buf rtape]; lia]]].
        split; cbn [rst_with_buf rerr rtape rbuf rcap]; auto; try lia.
        rewrite Hb in Hl. unfold len in *. cbn [length] in Hl. lia.
      * rewrite Hb, He. right. eexists. reflexivity.
    + unfold pending in P. rewrite Eb, H in P. discriminate.
  - left. unfold pending in P. rewrite Eb in P. cbn [app] in P. inversion P; subst x.
    eexists. split; [reflexivity|].
    split; [|split; [reflexivity|split; [reflexivity|cbn [rst_with_buf rtape]; lia]]].
    split; cbn [rst_with_buf rerr rtape rbuf rcap]; auto.
    unfold len in *. cbn [length] in Wc. lia.
Qed.

(* ------------------------------------------------------------------ *)
(* Peek(n), n within the buffer size                                   *)

Definition is_prefix (a b : list N) : Prop := exists c, b = a ++ c.

Lemma is_prefix_refl a : is_prefix a a.
Proof. exists []. now rewrite app_nil_r. Qed.

Lemma is_prefix_trans a b c : is_prefix a b -> is_prefix b c -> is_prefix a c.
Proof. intros [x ->] [y ->]. exists (x ++ y). now rewrite app_assoc. Qed.

Lemma is_prefix_len a b : is_prefix a b -> len a <= len b.
Proof. intros [c ->]. rewrite len_app'. lia. Qed.

Lemma peek_fill_spec fuel : forall s n, wf s -> n <= rcap s -> n <= len (pending s) ->
  (tape_weight (rtape s) < fuel)%nat ->
  exists s', peek_fill fuel s n = Some s' /\
    rcap s' = rcap s /\ rarmed s' = rarmed s /\ good_tape (rtape s') /\ pending s' = pending s /\
    is_prefix (rbuf s) (rbuf s') /\ len (rbuf s') <= rcap s /\
    ((rerr s' = None /\ n <= len (rbuf s') /\ (tape_weight (rtape s') <= tape_weight (rtape s))%nat)
     \/ (rerr s' = Some RTimeout /\ len (rbuf s') < n /\
         (tape_weight (rtape s') < tape_weight (rtape s))%nat)).
Proof.
  induction fuel as [|f IH]; intros s n W Hn Hp Hf; [lia|].
  pose proof W as [We Wt Wc Wp]. cbn [peek_fill]. rewrite We.
  destruct (N.ltb_spec (len (rbuf s)) n) as [L|L]; cbn [andb].
  - destruct (N.ltb_spec (len (rbuf s)) (rcap s)) as [L2|L2]; [|lia]. cbn [andb].
    pose proof (fill_spec s W L2) as H.
    destruct (fill s) as [s1|].
    + destruct H as (Hc & Ha & Hg & Hw & Hpd & [(He & (y & ys & Hb) & Hl)|(He & Hb)]).
      * assert (W1 : wf s1) by (split; auto; lia).
        destruct (IH s1 n W1 ltac:(lia) ltac:(now rewrite Hpd) ltac:(lia))
          as (s' & E & Hc' & Ha' & Hg' & Hp' & Hpre & Hl' & Hor).
        exists s'. split; [exact E|]. rewrite Hc', Hc, Ha', Ha, Hp', Hpd.
        split; [reflexivity|]. split; [reflexivity|]. split; [exact Hg'|]. split; [reflexivity|].
        split; [eapply is_prefix_trans; [|exact Hpre]; exists (y :: ys); exact Hb|].
        split; [lia|].
        destruct Hor as [(A & B & C)|(A & B & C)]; [left|right]; splits; auto; lia.
      * exists s1. split.
        { destruct f; [reflexivity|]. cbn [peek_fill]. rewrite He.
          now rewrite !andb_false_r. }
        rewrite Hb. splits; auto. { apply is_prefix_refl. }
    + exfalso. unfold pending in Hp. rewrite H in Hp. cbn [data] in Hp. rewrite app_nil_r in Hp. lia.
  - exists s. split; [reflexivity|]. splits; auto. { apply is_prefix_refl. }
Qed.

Lemma firstn_prefix (k : nat) (a b : list N) : is_prefix a b -> (k <= length a)%nat -> firstn k a = firstn k b.
Proof. intros [c ->] H. now rewrite firstn_app_le. Qed.

(* Peek either returns the first n pending bytes (and they are buffered), or a deadline
   expiry with the shorter buffer content; nothing is consumed either way. *)
Lemma peek_spec s n : wf s -> n <= rcap s -> n <= len (pending s) ->
  (exists s', peek s n = ((firstn (N.to_nat n) (pending s), None), s') /\
      post s s' (pending s) /\ rarmed s' = rarmed s /\
      firstn (N.to_nat n) (rbuf s') = firstn (N.to_nat n) (pending s) /\ n <= len (rbuf s'))
  \/ (exists s', peek s n = ((rbuf s', Some ETimeout), s') /\
      post s s' (pending s) /\ rarmed s' = rarmed s /\
      is_prefix (rbuf s) (rbuf s') /\ len (rbuf s') < n /\
      (tape_weight (rtape s') < tape_weight (rtape s))%nat).
Proof.
  intros W Hn Hp. pose proof (wf_pos _ W) as Wp. unfold peek.
  destruct (peek_fill_spec (S (tape_weight (rtape s))) s n W Hn Hp ltac:(lia))
    as (s' & E & Hc & Ha & Hg & Hpd & Hpre & Hl & Hor).
  rewrite E. destruct (N.ltb_spec (rcap s') n) as [L|L]; [lia|].
  destruct Hor as [(He & Hlen & Hw)|(He & Hlen & Hw)].
  - destruct (N.ltb_spec (len (rbuf s')) n) as [L2|L2]; [lia|].
    left. exists s'.
    assert (Hf : firstn (N.to_nat n) (rbuf s') = firstn (N.to_nat n) (pending s)).
    { rewrite <- Hpd. apply firstn_prefix; [exists (data (rtape s')); reflexivity|].
      unfold len in Hlen. lia. }
    rewrite Hf. split; [reflexivity|]. split.
    { split; [|split; [exact Hc|split; [exact Hpd|exact Hw]]]. split; auto; lia. }
    splits; auto.
  - destruct (N.ltb_spec (len (rbuf s')) n) as [L2|L2]; [|lia].
    rewrite He. cbn [rerror_of]. right. exists (rst_with_err s' None). split; [reflexivity|].
    split; [apply post_intro; simp_st; auto; lia|]. simp_st. splits; auto.
Qed.

(* ------------------------------------------------------------------ *)
(* remaining length                                                    *)

Lemma remlen_step f pause s shift size b p : wf s -> pending s = b :: p ->
  (exists s', remlen_loop (S f) pause s shift size = (inr (ETimeout, false), s'))
  \/ (exists s1, post s s1 p /\
        remlen_loop (S f) pause s shift size =
          if b <? 128 then (inl (size + (b mod 128) * 2 ^ shift), s1)
          else if 21 <=? shift then (inr (EHard, true), s1)
          else remlen_loop f pause s1 (shift + 7) (size + (b mod 128) * 2 ^ shift)).
Proof.
  intros W P. cbn [remlen_loop].
  set (s0 := if (len (rbuf s) =? 0) && pause then rst_arm s true else s).
  assert (P0 : post s s0 (pending s)) by apply (post_arm_if s _ true W).
  destruct P0 as (W0 & C0 & Pd0 & Wt0).
  destruct (read_byte_spec s0 b p W0 ltac:(now rewrite Pd0)) as [(s' & E & Po)|(s' & E)]; rewrite E.
  - right. exists s'. split; [|reflexivity].
    eapply post_trans; [|exact Po]. split; auto.
  - left. exists s'. reflexivity.
Qed.

Lemma remlen_spec pause s n p' : wf s -> bytes (pending s) ->
  take_remlen (pending s) = Some (n, p') ->
  (exists s', remlen_loop 5 pause s 0 0 = (inr (ETimeout, false), s'))
  \/ (exists s', remlen_loop 5 pause s 0 0 = (inl n, s') /\ post s s' p').
Proof.
  intros W Hb T. unfold take_remlen in T.
  destruct (pending s) as [|a r] eqn:P; [discriminate|].
  assert (Ha : a < 256) by (inversion Hb; assumption).
  assert (Hbr : bytes r) by (inversion Hb; assumption).
  destruct (remlen_step 4 pause s 0 0 a r W P) as [L|(s1 & Po1 & E1)]; [left; exact L|].
  rewrite E1. clear E1.
  destruct (N.ltb_spec a 128) as [La|La].
  { assert (Hn : n = a /\ p' = r) by (split; congruence). destruct Hn as [-> ->]. right. exists s1. split; [|exact Po1]. f_equal. f_equal.
    change (2 ^ 0) with 1. lia. }
  change (21 <=? 0) with false. cbv iota.
  destruct r as [|b r]; [discriminate|].
  assert (Hb1 : b < 256) by (inversion Hbr; assumption).
  assert (Hbr1 : bytes r) by (inversion Hbr; assumption).
  destruct Po1 as (W1 & C1 & P1 & Wt1).
  destruct (remlen_step 3 pause s1 (0 + 7) (0 + a mod 128 * 2 ^ 0) b r W1 P1) as [L|(s2 & Po2 & E2)];
    [left; exact L|].
  rewrite E2. clear E2.
  destruct (N.ltb_spec b 128) as [Lb|Lb].
  { assert (Hn : n = a - 128 + 128 * b /\ p' = r) by (split; congruence). destruct Hn as [-> ->]. right. exists s2. split.
    - f_equal. f_equal. change (2 ^ 0) with 1. change (2 ^ (0 + 7)) with 128. lia.
    - eapply post_trans; [|exact Po2]. split; auto. }
  change (21 <=? 0 + 7) with false. cbv iota.
  destruct r as [|c r]; [discriminate|].
  assert (Hc1 : c < 256) by (inversion Hbr1; assumption).
  assert (Hbr2 : bytes r) by (inversion Hbr1; assumption).
  destruct Po2 as (W2 & C2 & P2 & Wt2).
  destruct (remlen_step 2 pause s2 (0 + 7 + 7) (0 + a mod 128 * 2 ^ 0 + b mod 128 * 2 ^ (0 + 7)) c r W2 P2)
    as [L|(s3 & Po3 & E3)]; [left; exact L|].
  rewrite E3. clear E3.
  destruct (N.ltb_spec c 128) as [Lc|Lc].
  { assert (Hn : n = a - 128 + 128 * (b - 128) + 16384 * c /\ p' = r) by (split; congruence). destruct Hn as [-> ->]. right. exists s3. split.
    - f_equal. f_equal. change (2 ^ 0) with 1. change (2 ^ (0 + 7)) with 128.
      change (2 ^ (0 + 7 + 7)) with 16384. lia.
    - eapply post_trans; [|exact Po3]. split; auto. split; [lia|]. split; [reflexivity|lia]. }
  change (21 <=? 0 + 7 + 7) with false. cbv iota.
  destruct r as [|d r]; [discriminate|].
  assert (Hd1 : d < 256) by (inversion Hbr2; assumption).
  destruct Po3 as (W3 & C3 & P3 & Wt3).
  destruct (remlen_step 1 pause s3 (0 + 7 + 7 + 7)
              (0 + a mod 128 * 2 ^ 0 + b mod 128 * 2 ^ (0 + 7) + c mod 128 * 2 ^ (0 + 7 + 7)) d r W3 P3)
    as [L|(s4 & Po4 & E4)]; [left; exact L|].
  rewrite E4. clear E4.
  destruct (N.ltb_spec d 128) as [Ld|Ld]; [|discriminate].
  assert (Hn : n = a - 128 + 128 * (b - 128) + 16384 * (c - 128) + 2097152 * d /\ p' = r) by (split; congruence). destruct Hn as [-> ->]. right. exists s4. split.
  - f_equal. f_equal. change (2 ^ 0) with 1. change (2 ^ (0 + 7)) with 128.
    change (2 ^ (0 + 7 + 7)) with 16384. change (2 ^ (0 + 7 + 7 + 7)) with 2097152. lia.
  - eapply post_trans; [|exact Po4]. split; auto. split; [lia|]. split; [reflexivity|lia].
Qed.

(* a continuation bit on the fourth length byte: protocol reset, whatever follows *)
Lemma remlen_fifth pause s a b c d r : wf s ->
  pending s = a :: b :: c :: d :: r -> 128 <= a -> 128 <= b -> 128 <= c -> 128 <= d ->
  (exists s', remlen_loop 5 pause s 0 0 = (inr (ETimeout, false), s'))
  \/ (exists s', remlen_loop 5 pause s 0 0 = (inr (EHard, true), s')).
Proof.
  intros W P Ha Hb Hc Hd.
  destruct (remlen_step 4 pause s 0 0 a _ W P) as [L|(s1 & Po1 & E1)]; [left; exact L|].
  rewrite E1. clear E1. destruct (N.ltb_spec a 128); [lia|].
  change (21 <=? 0) with false. cbv iota. destruct Po1 as (W1 & C1 & P1 & Wt1).
  destruct (remlen_step 3 pause s1 (0 + 7) (0 + a mod 128 * 2 ^ 0) b _ W1 P1) as [L|(s2 & Po2 & E2)];
    [left; exact L|].
  rewrite E2. clear E2. destruct (N.ltb_spec b 128); [lia|].
  change (21 <=? 0 + 7) with false. cbv iota. destruct Po2 as (W2 & C2 & P2 & Wt2).
  destruct (remlen_step 2 pause s2 (0 + 7 + 7) (0 + a mod 128 * 2 ^ 0 + b mod 128 * 2 ^ (0 + 7)) c _ W2 P2)
    as [L|(s3 & Po3 & E3)]; [left; exact L|].
  rewrite E3. clear E3. destruct (N.ltb_spec c 128); [lia|].
  change (21 <=? 0 + 7 + 7) with false. cbv iota. destruct Po3 as (W3 & C3 & P3 & Wt3).
  destruct (remlen_step 1 pause s3 (0 + 7 + 7 + 7)
              (0 + a mod 128 * 2 ^ 0 + b mod 128 * 2 ^ (0 + 7) + c mod 128 * 2 ^ (0 + 7 + 7)) d _ W3 P3)
    as [L|(s4 & Po4 & E4)]; [left; exact L|].
  rewrite E4. clear E4. destruct (N.ltb_spec d 128); [lia|].
  change (21 <=? 0 + 7 + 7 + 7) with true. cbv iota. right. exists s4. reflexivity.
Qed.

(* ------------------------------------------------------------------ *)
(* the payload slice: Peek with retry on progress-making expiries       *)

Lemma slice_loop_spec fuel : forall pause s head size lastN,
  wf s -> peek_len (rcap s) head size <= rcap s -> peek_len (rcap s) head size <= len (pending s) ->
  (tape_weight (rtape s) < fuel)%nat ->
  (exists s', slice_loop fuel pause s head size lastN = (PkErr ETimeout false, s'))
  \/ (exists s',
        slice_loop fuel pause s head size lastN =
          ((if is_big (rcap s) head size
            then PkBig head size (firstn (N.to_nat (peek_len (rcap s) head size)) (pending s))
            else PkOk head (firstn (N.to_nat (peek_len (rcap s) head size)) (pending s))), s')
        /\ post s s' (pending s)
        /\ firstn (N.to_nat (peek_len (rcap s) head size)) (rbuf s')
           = firstn (N.to_nat (peek_len (rcap s) head size)) (pending s)
        /\ peek_len (rcap s) head size <= len (rbuf s')).
Proof.
  induction fuel as [|f IH]; intros pause s head size lastN W Hn Hp Hf; [lia|].
  cbn [slice_loop].
  set (s0 := if (len (rbuf s) <? size) && pause then rst_arm s true else s).
  assert (P0 : post s s0 (pending s)) by apply (post_arm_if s _ true W).
  destruct P0 as (W0 & C0 & Pd0 & Wt0).
  fold (is_big (rcap s0) head size). fold (peek_len (rcap s0) head size).
  rewrite C0.
  destruct (peek_spec s0 (peek_len (rcap s) head size) W0 ltac:(lia) ltac:(now rewrite Pd0))
    as [(s' & E & Po & Ha & Hfn & Hl)|(s' & E & Po & Ha & Hpre & Hl & Hw)]; rewrite E.
  - right. exists s'. rewrite Pd0 in *. split.
    { destruct (is_big (rcap s) head size); reflexivity. }
    split; [|split; assumption].
    eapply post_trans; [|exact Po]. split; auto.
  - destruct (N.ltb_spec lastN (len (rbuf s'))) as [Lp|Lp].
    + destruct Po as (W' & C' & Pd' & Wt').
      destruct (IH pause s' head size (len (rbuf s')) W') as [(s2 & E2)|(s2 & E2 & Po2 & Hf2 & Hl2)].
      * rewrite C', C0. exact Hn.
      * rewrite C', C0, Pd', Pd0. exact Hp.
      * lia.
      * left. exists s2. exact E2.
      * right. exists s2. rewrite C', C0, Pd', Pd0 in *. split; [exact E2|].
        split; [|split; assumption].
        eapply post_trans; [|exact Po2]. apply post_intro; try apply W'; try lia; auto.
    + left. exists s'. reflexivity.
Qed.

(* ------------------------------------------------------------------ *)
(* Client.peekPacket                                                   *)

Lemma frame_packet_inv p head body rest :
  frame_packet p = Some (head, body, rest) ->
  exists r r', p = head :: r /\ take_remlen r = Some (len body, r') /\ r' = body ++ rest.
Proof.
  unfold frame_packet. destruct p as [|h r]; [discriminate|].
  destruct (take_remlen r) as [[n r']|] eqn:T; [|discriminate].
  unfold split_at. destruct (Nat.leb_spec (N.to_nat n) (length r')) as [L|L]; [|discriminate].
  intros E. injection E as <- <- <-. exists r, r'. split; [reflexivity|].
  split; [|symmetry; apply firstn_skipn].
  rewrite len_firstn. replace (N.min (N.of_nat (N.to_nat n)) (len r')) with n by (unfold len; lia).
  exact T.
Qed.

Lemma bytes_tail x l : bytes (x :: l) -> bytes l.
Proof. intros H. inversion H; assumption. Qed.

Definition fin_arm (pause : bool) (r : peek_result * rst) : peek_result * rst :=
  if pause then (fst r, rst_arm (snd r) false) else r.

Lemma peek_packet_unfold pause s :
  peek_packet pause s =
  match read_byte s with
  | (inr EEOF, s') => (PkBrokerTerm, s')
  | (inr e, s') => (PkErr e false, s')
  | (inl head, s') =>
    match remlen_loop 5 pause s' 0 0 with
    | (inr (e, proto), s'') => fin_arm pause (PkErr e proto, s'')
    | (inl size, s'') => fin_arm pause (slice_loop (S (tape_weight (rtape s''))) pause s'' head size 0)
    end
  end.
Proof. reflexivity. Qed.

(* The packet at the head of the pending bytes is framed exactly as Spec.frame_packet
   says, or the call ends in a deadline expiry.  [peek_len] bytes of the body are
   buffered afterwards (the whole body unless it is a PUBLISH larger than the buffer,
   then exactly one buffer-load). *)
Theorem peek_packet_spec pause s head body rest :
  wf s -> bytes (pending s) ->
  frame_packet (pending s) = Some (head, body, rest) ->
  peek_len (rcap s) head (len body) <= rcap s ->
  (exists s', peek_packet pause s = (PkErr ETimeout false, s'))
  \/ (exists s',
        peek_packet pause s =
          ((if is_big (rcap s) head (len body)
            then PkBig head (len body) (firstn (N.to_nat (rcap s)) body)
            else PkOk head body), s')
        /\ post s s' (body ++ rest)
        /\ firstn (N.to_nat (peek_len (rcap s) head (len body))) (rbuf s')
           = firstn (N.to_nat (peek_len (rcap s) head (len body))) body
        /\ peek_len (rcap s) head (len body) <= len (rbuf s')).
Proof.
  intros W Hb F Hn.
  destruct (frame_packet_inv _ _ _ _ F) as (r & r' & P & T & R).
  rewrite peek_packet_unfold.
  destruct (read_byte_spec s head r W P) as [(s1 & E1 & Po1)|(s1 & E1)]; rewrite E1;
    [|left; exists s1; reflexivity].
  destruct Po1 as (W1 & C1 & P1 & Wt1).
  assert (Hb1 : bytes (pending s1)) by (rewrite P1; rewrite P in Hb; eapply bytes_tail; exact Hb).
  destruct (remlen_spec pause s1 (len body) r' W1 Hb1 ltac:(now rewrite P1))
    as [(s2 & E2)|(s2 & E2 & Po2)]; rewrite E2.
  { left. unfold fin_arm. destruct pause; eexists; reflexivity. }
  destruct Po2 as (W2 & C2 & P2 & Wt2).
  assert (Hlen : peek_len (rcap s2) head (len body) <= len (pending s2)).
  { rewrite P2, R, len_app'. unfold peek_len. destruct (is_big _ _ _) eqn:Eb; [|lia].
    unfold is_big in Eb. apply andb_prop in Eb. destruct Eb as [_ Eb].
    apply N.ltb_lt in Eb. lia. }
  destruct (slice_loop_spec (S (tape_weight (rtape s2))) pause s2 head (len body) 0 W2
              ltac:(rewrite C2, C1; exact Hn) Hlen ltac:(lia))
    as [(s3 & E3)|(s3 & E3 & Po3 & Hf3 & Hl3)]; rewrite E3.
  { left. unfold fin_arm. destruct pause; eexists; reflexivity. }
  right. rewrite C2, C1, P2, R in *.
  assert (Hfirst : firstn (N.to_nat (peek_len (rcap s) head (len body))) (body ++ rest)
                   = firstn (N.to_nat (peek_len (rcap s) head (len body))) body).
  { apply firstn_app_le. unfold peek_len in *. destruct (is_big _ _ _) eqn:Eb.
    - unfold is_big in Eb. apply andb_prop in Eb. destruct Eb as [_ Eb].
      apply N.ltb_lt in Eb. unfold len in Eb. lia.
    - unfold len. lia. }
  rewrite Hfirst in *.
  assert (Post : post s s3 (body ++ rest)).
  { destruct Po3 as (W3 & C3 & P3 & Wt3). pose proof (wf_cap _ W3).
    apply post_intro; try apply W3; try apply W; try lia; auto. }
  assert (Res : (if is_big (rcap s) head (len body)
            then PkBig head (len body) (firstn (N.to_nat (peek_len (rcap s) head (len body))) body)
            else PkOk head (firstn (N.to_nat (peek_len (rcap s) head (len body))) body))
          = (if is_big (rcap s) head (len body)
            then PkBig head (len body) (firstn (N.to_nat (rcap s)) body)
            else PkOk head body)).
  { unfold peek_len. destruct (is_big _ _ _); [reflexivity|].
    f_equal. unfold len. rewrite Nat2N.id. apply firstn_all. }
  rewrite Res. unfold fin_arm. destruct pause; cbn [fst snd].
  - exists (rst_arm s3 false). split; [reflexivity|]. split; [apply post_arm_r; exact Post|].
    simp_st. split; assumption.
  - exists s3. split; [reflexivity|]. split; [exact Post|]. split; assumption.
Qed.

(* ------------------------------------------------------------------ *)
(* list arithmetic                                                     *)

Lemma skipn_skipn' {A} (x y : nat) (l : list A) : skipn x (skipn y l) = skipn (y + x) l.
Proof.
  revert l. induction y as [|y IH]; intros l; [reflexivity|].
  destruct l; [now rewrite !skipn_nil|]. cbn [skipn plus]. apply IH.
Qed.

Lemma firstn_split {A} (k n : nat) (l : list A) : (k <= n)%nat ->
  firstn k l ++ firstn (n - k) (skipn k l) = firstn n l.
Proof.
  revert n l. induction k as [|k IH]; intros n l H.
  - cbn. now rewrite Nat.sub_0_r.
  - destruct n as [|n]; [lia|]. destruct l as [|x l]; [now rewrite skipn_nil, !firstn_nil|].
    cbn [firstn skipn app Nat.sub]. f_equal. apply IH. lia.
Qed.

Lemma skipn_pending_buf s (k : nat) : (k <= length (rbuf s))%nat ->
  skipn k (rbuf s) ++ data (rtape s) = skipn k (pending s).
Proof. intros. unfold pending. now rewrite skipn_app_le. Qed.

(* ------------------------------------------------------------------ *)
(* bufio.Reader.Discard                                                *)

Definition dmeasure (s : rst) : nat :=
  (tape_weight (rtape s) + match rbuf s with [] => 0 | _ => 1 end)%nat.

Lemma bufio_discard_spec fuel : forall s remain done,
  wf s -> remain <= len (pending s) -> (dmeasure s < fuel)%nat ->
  (exists s', bufio_discard fuel s remain done = ((done + remain, None), s')
      /\ post s s' (skipn (N.to_nat remain) (pending s)))
  \/ (exists s' k, bufio_discard fuel s remain done = ((done + k, Some ETimeout), s')
      /\ k < remain /\ post s s' (skipn (N.to_nat k) (pending s))
      /\ (tape_weight (rtape s') < tape_weight (rtape s))%nat).
Proof.
  induction fuel as [|f IH]; intros s remain done W Hr Hf; [lia|].
  pose proof W as [We Wt Wc Wp]. cbn [bufio_discard].
  destruct (N.eqb_spec remain 0) as [Z|Z].
  { left. exists s. subst remain. split; [f_equal; f_equal; lia|]. apply post_refl. exact W. }
  (* one iteration from a state s1 with data in the buffer *)
  assert (Step : forall s1, wf s1 -> rcap s1 = rcap s -> pending s1 = pending s ->
            (tape_weight (rtape s1) <= tape_weight (rtape s))%nat ->
            (tape_weight (rtape s1) < f)%nat ->
            let skip := N.min (len (rbuf s1)) remain in
            let s2 := rst_with_buf s1 (skipn (N.to_nat skip) (rbuf s1)) in
            (exists s', (if remain - skip =? 0 then ((done + skip, None), s2)
                         else match rerr s2 with
                              | Some e => ((done + skip, Some (rerror_of e)), rst_with_err s2 None)
                              | None => bufio_discard f s2 (remain - skip) (done + skip)
                              end) = ((done + remain, None), s')
                /\ post s s' (skipn (N.to_nat remain) (pending s)))
            \/ (exists s' k, (if remain - skip =? 0 then ((done + skip, None), s2)
                         else match rerr s2 with
                              | Some e => ((done + skip, Some (rerror_of e)), rst_with_err s2 None)
                              | None => bufio_discard f s2 (remain - skip) (done + skip)
                              end) = ((done + k, Some ETimeout), s')
                /\ k < remain /\ post s s' (skipn (N.to_nat k) (pending s))
                /\ (tape_weight (rtape s') < tape_weight (rtape s))%nat)).
  { intros s1 W1 C1 P1 Wt1 Hf1 skip s2.
    assert (Hskip : (N.to_nat skip <= length (rbuf s1))%nat) by (unfold skip, len; lia).
    assert (W2 : wf s2).
    { destruct W1 as [We1 Wtp1 Wc1 Wp1]. split; unfold s2; simp_st; auto.
      rewrite len_skipn. lia. }
    assert (P2 : pending s2 = skipn (N.to_nat skip) (pending s)).
    { rewrite <- P1. unfold s2. unfold pending at 1. simp_st. apply skipn_pending_buf. exact Hskip. }
    assert (Po2 : post s s2 (skipn (N.to_nat skip) (pending s))).
    { split; [exact W2|]. split; [exact C1|]. split; [exact P2|exact Wt1]. }
    destruct (N.eqb_spec (remain - skip) 0) as [Z2|Z2].
    - left. exists s2. assert (skip = remain) by lia. split; [congruence|]. rewrite <- H. exact Po2.
    - rewrite (wf_err _ W2).
      assert (Hsk : skip = len (rbuf s1)) by lia.
      assert (Hb2 : rbuf s2 = []).
      { unfold s2. simp_st. rewrite Hsk. unfold len. rewrite Nat2N.id. apply skipn_all. }
      destruct (IH s2 (remain - skip) (done + skip) W2) as [(s' & E & Po)|(s' & k & E & Hk & Po & Hw)].
      + rewrite P2, len_skipn. lia.
      + unfold dmeasure. rewrite Hb2. unfold s2. simp_st. lia.
      + left. exists s'. split; [rewrite E; f_equal; f_equal; lia|].
        eapply post_trans; [exact Po2|]. rewrite P2, skipn_skipn' in Po.
        replace (N.to_nat remain) with (N.to_nat skip + N.to_nat (remain - skip))%nat by lia. exact Po.
      + right. exists s', (skip + k). split; [rewrite E; f_equal; f_equal; lia|].
        split; [lia|]. split.
        * eapply post_trans; [exact Po2|]. rewrite P2, skipn_skipn' in Po.
          replace (N.to_nat (skip + k)) with (N.to_nat skip + N.to_nat k)%nat by lia. exact Po.
        * unfold s2 in Hw. simp_st. cbn [rst_with_buf rtape] in Hw. lia. }
  destruct (rbuf s) as [|x xs] eqn:Eb.
  - pose proof (fill_spec s W) as H. rewrite Eb in H. specialize (H Wp).
    destruct (fill s) as [s1|].
    + destruct H as (Hc & Ha & Hg & Hw & Hpd & [(He & (y & ys & Hb) & Hl)|(He & Hb)]).
      * assert (W1 : wf s1) by (split; auto; lia).
        unfold dmeasure in Hf. rewrite Eb in Hf.
        destruct (Step s1 W1 Hc Hpd ltac:(lia) ltac:(lia)) as [L|(s' & k & E & R)].
        -- left. exact L.
        -- right. exists s', k. split; [exact E|]. splits; apply R.
      * (* the expiry arrives with an empty buffer: nothing discarded *)
        right. rewrite Hb. change (len []) with 0. replace (N.min 0 remain) with 0 by lia.
        cbn [N.to_nat skipn]. replace (remain - 0 =? 0) with false by (symmetry; apply N.eqb_neq; lia).
        cbn [rst_with_buf rerr]. rewrite He. cbn [rerror_of].
        eexists. exists 0. split; [reflexivity|]. split; [lia|]. split.
        -- cbn [N.to_nat skipn]. apply post_intro; simp_st; auto; try lia.
           unfold pending at 1. simp_st. rewrite <- Hpd. unfold pending. rewrite Hb. reflexivity.
        -- simp_st. lia.
    + exfalso. unfold pending in Hr. rewrite Eb, H in Hr. cbn in Hr. lia.
  - unfold dmeasure in Hf. rewrite Eb in Hf. rewrite <- Eb in *.
    destruct (Step s W eq_refl eq_refl ltac:(lia) ltac:(lia)) as [L|(s' & k & E & R)].
    + left. exact L.
    + right. exists s', k. split; [exact E|]. splits; apply R.
Qed.

(* Client.discard *)
Lemma discard_loop_spec fuel : forall pause s n,
  wf s -> n <= len (pending s) -> (tape_weight (rtape s) < fuel)%nat ->
  (exists s', discard_loop fuel pause s n = (Some ETimeout, s'))
  \/ (exists s', discard_loop fuel pause s n = (None, s')
        /\ post s s' (skipn (N.to_nat n) (pending s))).
Proof.
  induction fuel as [|f IH]; intros pause s n W Hn Hf; [lia|].
  cbn [discard_loop].
  set (s0 := if pause then rst_arm s true else s).
  assert (P0 : post s s0 (pending s)) by apply (post_arm_if s _ true W).
  destruct P0 as (W0 & C0 & Pd0 & Wt0).
  assert (T0 : rtape s0 = rtape s) by (unfold s0; destruct pause; reflexivity).
  destruct (bufio_discard_spec (S (S (tape_weight (rtape s0)))) s0 n 0 W0 ltac:(now rewrite Pd0))
    as [(s' & E & Po)|(s' & k & E & Hk & Po & Hw)].
  - unfold dmeasure. destruct (rbuf s0); lia.
  - rewrite E. right. exists s'. split; [reflexivity|]. rewrite Pd0 in Po.
    eapply post_trans; [|exact Po]. split; auto.
  - change (0 + k) with k in E. rewrite E. destruct (N.eqb_spec k 0) as [Z|Z].
    + left. exists s'. reflexivity.
    + rewrite Pd0 in Po. destruct Po as (W' & C' & P' & Wt').
      destruct (IH pause s' (n - k) W') as [(s2 & E2)|(s2 & E2 & Po2)].
      * rewrite P', len_skipn. lia.
      * rewrite T0 in Hw. lia.
      * left. exists s2. exact E2.
      * right. exists s2. split; [exact E2|].
        rewrite P', skipn_skipn' in Po2.
        replace (N.to_nat k + N.to_nat (n - k))%nat with (N.to_nat n) in Po2 by lia.
        eapply post_trans; [|exact Po2]. apply post_intro; try apply W'; try apply W; auto; try lia.
        pose proof (wf_cap _ W'). lia.
Qed.

Theorem client_discard_spec pause s n : wf s -> n <= len (pending s) ->
  (exists s', client_discard pause s n = (Some ETimeout, s'))
  \/ (exists s', client_discard pause s n = (None, s')
        /\ post s s' (skipn (N.to_nat n) (pending s))).
Proof.
  intros W Hn. unfold client_discard.
  destruct (discard_loop_spec (S (tape_weight (rtape s))) pause s n W Hn ltac:(lia))
    as [(s' & E)|(s' & E & Po)]; rewrite E; cbn [fst snd].
  - left. destruct pause; eexists; reflexivity.
  - right. destruct pause; eexists; (split; [reflexivity|]); [apply post_arm_r|]; exact Po.
Qed.

(* Discard of bytes that are buffered (the previous packet body): never reads *)
Lemma bufio_discard_buffered fuel s n done : wf s -> n <= len (rbuf s) ->
  exists s', bufio_discard (S fuel) s n done = ((done + n, None), s')
    /\ post s s' (skipn (N.to_nat n) (pending s))
    /\ rtape s' = rtape s /\ rlog s' = rlog s /\ rarmed s' = rarmed s
    /\ rbuf s' = skipn (N.to_nat n) (rbuf s).
Proof.
  intros W Hn. cbn [bufio_discard]. destruct (N.eqb_spec n 0) as [Z|Z].
  { subst n. exists s. split; [f_equal; f_equal; lia|]. split; [apply post_refl; exact W|].
    splits; reflexivity. }
  destruct (rbuf s) as [|x xs] eqn:Eb; [change (len []) with 0 in Hn; lia|].
  rewrite <- Eb in *. replace (N.min (len (rbuf s)) n) with n by lia.
  rewrite N.sub_diag. cbn [N.eqb]. eexists. split; [reflexivity|].
  assert (Hk : (N.to_nat n <= length (rbuf s))%nat) by (unfold len in Hn; lia).
  split; [|simp_st; splits; reflexivity].
  destruct W as [We Wt Wc Wp]. apply post_intro; simp_st; auto.
  - rewrite len_skipn. lia.
  - unfold pending at 1. simp_st. apply skipn_pending_buf. exact Hk.
Qed.

(* ------------------------------------------------------------------ *)
(* bufio.Reader.Read and BigMessage.ReadAll                            *)

Lemma firstn_pending_buf s (k : nat) : (k <= length (rbuf s))%nat ->
  firstn k (rbuf s) = firstn k (pending s).
Proof. intros. unfold pending. now rewrite firstn_app_le. Qed.

Lemma bufio_read_spec s want : wf s -> 0 < want -> want <= len (pending s) ->
  (exists s', bufio_read s want = (([], Some ETimeout), s'))
  \/ (exists s' k, bufio_read s want = ((firstn k (pending s), None), s')
        /\ (0 < k)%nat /\ N.of_nat k <= want
        /\ post s s' (skipn k (pending s))
        /\ (rbuf s' = [] \/ N.of_nat k = want)
        /\ (rbuf s = [] -> (tape_weight (rtape s') < tape_weight (rtape s))%nat)).
Proof.
  intros W Hw Hp. pose proof W as [We Wt Wc Wp]. unfold bufio_read.
  destruct (rbuf s) as [|x xs] eqn:Eb.
  - rewrite We.
    assert (Conn : forall n, 0 < n ->
      match conn_read s n with
      | None => False
      | Some (a, s') =>
        rbuf s' = [] /\ rerr s' = None /\ rcap s' = rcap s /\ good_tape (rtape s') /\
        (tape_weight (rtape s') < tape_weight (rtape s))%nat /\
        ((exists b bs, a = RData (b :: bs) /\ len (b :: bs) <= n /\ pending s = (b :: bs) ++ data (rtape s'))
         \/ (a = RTimeout))
      end).
    { intros n Hn. pose proof (conn_read_spec s n Wt Hn) as H.
      destruct (conn_read s n) as [[a s']|].
      - destruct H as (Hb & He & Hc & Ha & Hg & Hwt & Hd & Hk).
        rewrite Hb, He, Eb, We. splits; auto.
        destruct Hk as [(b & bs & -> & Hl)| ->]; [left|right; reflexivity].
        exists b, bs. splits; auto. unfold pending. rewrite Eb, Hd. reflexivity.
      - unfold pending in Hp. rewrite Eb, H in Hp. cbn in Hp. lia. }
    destruct (N.leb_spec (rcap s) want) as [Lg|Lg].
    + specialize (Conn want Hw). destruct (conn_read s want) as [[a s']|]; [|contradiction].
      destruct Conn as (Hb & He & Hc & Hg & Hwt & [(b & bs & -> & Hl & Hpd)| ->]).
      * right. exists s', (length (b :: bs)). rewrite Hpd.
        rewrite firstn_app_le, firstn_all by lia. split; [reflexivity|].
        split; [cbn [length]; lia|]. split; [exact Hl|]. split.
        { apply post_intro; auto; try lia.
          - rewrite Hb. change (len []) with 0. lia.
          - unfold pending. rewrite Hb. rewrite skipn_app_le, skipn_all by lia. reflexivity. }
        split; [left; exact Hb|]. intros _. exact Hwt.
      * left. exists s'. reflexivity.
    + specialize (Conn (rcap s) Wp). destruct (conn_read s (rcap s)) as [[a s']|]; [|contradiction].
      destruct Conn as (Hb & He & Hc & Hg & Hwt & [(b & bs & -> & Hl & Hpd)| ->]).
      * right. set (k := N.to_nat (N.min want (len (b :: bs)))).
        assert (Hk : (k <= length (b :: bs))%nat) by (unfold k, len; lia).
        exists (rst_with_buf s' (skipn k (b :: bs))), k. rewrite Hpd.
        rewrite firstn_app_le by exact Hk. split; [reflexivity|].
        split; [unfold k, len; cbn [length]; lia|]. split; [unfold k; lia|]. split.
        { apply post_intro; simp_st; auto; try lia.
          - rewrite len_skipn. lia.
          - unfold pending. simp_st. now rewrite skipn_app_le. }
        split; [|intros _; simp_st; exact Hwt].
        simp_st. destruct (N.le_gt_cases (len (b :: bs)) want) as [Le|Le].
        -- left. replace k with (length (b :: bs)) by (unfold len in Le; unfold k, len; lia). apply skipn_all.
        -- right. unfold k. lia.
      * left. exists s'. reflexivity.
  - right. rewrite <- Eb in *. set (k := N.to_nat (N.min want (len (rbuf s)))).
    assert (Hk : (k <= length (rbuf s))%nat) by (unfold k, len; lia).
    exists (rst_with_buf s (skipn k (rbuf s))), k.
    rewrite (firstn_pending_buf s k Hk). split; [reflexivity|].
    split; [unfold k, len; rewrite Eb; cbn [length]; lia|]. split; [unfold k; lia|]. split.
    { apply post_intro; simp_st; auto.
      - rewrite len_skipn. lia.
      - unfold pending at 1. simp_st. apply skipn_pending_buf. exact Hk. }
    split; [|intros E0; rewrite E0 in Eb; discriminate].
    simp_st. destruct (N.le_gt_cases (len (rbuf s)) want) as [Le|Le].
    + left. replace k with (length (rbuf s)) by (unfold len in Le; unfold k, len; lia). apply skipn_all.
    + right. unfold k. lia.
Qed.

Definition rmeasure (s : rst) (remain : N) : nat :=
  (tape_weight (rtape s) +
   match rbuf s with [] => 0 | _ => if N.eqb remain 0 then 0 else 1 end)%nat.

Lemma read_all_loop_spec fuel : forall pause s remain acc,
  wf s -> remain <= len (pending s) -> (rmeasure s remain < fuel)%nat ->
  (exists s', read_all_loop fuel pause s remain acc = (inr ETimeout, s'))
  \/ (exists s', read_all_loop fuel pause s remain acc
                  = (inl (acc ++ firstn (N.to_nat remain) (pending s)), s')
        /\ post s s' (skipn (N.to_nat remain) (pending s))).
Proof.
  induction fuel as [|f IH]; intros pause s remain acc W Hr Hf; [lia|].
  cbn [read_all_loop]. destruct (N.eqb_spec remain 0) as [Z|Z].
  { right. exists s. subst remain. cbn [N.to_nat firstn skipn]. rewrite app_nil_r.
    split; [reflexivity|apply post_refl; exact W]. }
  set (s0 := if (len (rbuf s) =? 0) && pause then rst_arm s true else s).
  assert (P0 : post s s0 (pending s)) by apply (post_arm_if s _ true W).
  destruct P0 as (W0 & C0 & Pd0 & Wt0).
  assert (T0 : rtape s0 = rtape s) by (unfold s0; destruct (_ && _); reflexivity).
  assert (B0 : rbuf s0 = rbuf s) by (unfold s0; destruct (_ && _); reflexivity).
  destruct (bufio_read_spec s0 remain W0 ltac:(lia) ltac:(now rewrite Pd0))
    as [(s' & E)|(s' & k & E & Hk0 & Hk & Po & Hor & Hw)]; rewrite E.
  - left. change (len []) with 0. replace (remain - 0 =? 0) with false by (symmetry; apply N.eqb_neq; lia).
    exists s'. reflexivity.
  - rewrite Pd0 in *. destruct Po as (W' & C' & P' & Wt').
    assert (Hlen : len (firstn k (pending s)) = N.of_nat k) by (rewrite len_firstn; lia).
    rewrite Hlen.
    destruct (IH pause s' (remain - N.of_nat k) (acc ++ firstn k (pending s)) W')
      as [(s2 & E2)|(s2 & E2 & Po2)].
    + rewrite P', len_skipn. lia.
    + unfold rmeasure in *. rewrite T0, B0 in *.
      replace (remain =? 0) with false in Hf by (symmetry; apply N.eqb_neq; lia).
      destruct Hor as [Hb'|Hkw].
      * rewrite Hb'. destruct (rbuf s) eqn:Eb; [specialize (Hw eq_refl)|]; lia.
      * replace (remain - N.of_nat k =? 0) with true by (symmetry; apply N.eqb_eq; lia).
        destruct (rbuf s) eqn:Eb; [specialize (Hw eq_refl)|]; destruct (rbuf s'); lia.
    + left. exists s2. exact E2.
    + right. exists s2. rewrite P' in *. split.
      * rewrite E2. f_equal. f_equal. rewrite <- app_assoc. f_equal.
        replace (N.to_nat (remain - N.of_nat k)) with (N.to_nat remain - k)%nat by lia.
        apply firstn_split. lia.
      * rewrite skipn_skipn' in Po2.
        replace (k + N.to_nat (remain - N.of_nat k))%nat with (N.to_nat remain) in Po2 by lia.
        eapply post_trans; [|exact Po2]. apply post_intro; try apply W'; try apply W; auto; try lia.
        pose proof (wf_cap _ W'). lia.
Qed.

Theorem read_all_spec pause s size : wf s -> size <= len (pending s) ->
  (exists s', read_all pause s size = (inr ETimeout, s'))
  \/ (exists s', read_all pause s size = (inl (firstn (N.to_nat size) (pending s)), s')
        /\ post s s' (skipn (N.to_nat size) (pending s))).
Proof.
  intros W Hs. unfold read_all.
  destruct (read_all_loop_spec (S (S (tape_weight (rtape s)))) pause s size [] W Hs)
    as [(s' & E)|(s' & E & Po)].
  - unfold rmeasure. destruct (rbuf s); [lia|]. destruct (size =? 0); lia.
  - rewrite E. left. destruct pause; eexists; reflexivity.
  - rewrite E. cbn [app fst snd]. right.
    destruct pause; eexists; (split; [reflexivity|]); [apply post_arm_r|]; exact Po.
Qed.

(* ------------------------------------------------------------------ *)
(* the big-message path and alignment                                  *)

Lemma firstn_app_exact {A} (a b : list A) : firstn (length a) (a ++ b) = a.
Proof. rewrite firstn_app_le, firstn_all by lia. reflexivity. Qed.

Lemma skipn_app_exact {A} (a b : list A) : skipn (length a) (a ++ b) = b.
Proof. rewrite skipn_app_le, skipn_all by lia. reflexivity. Qed.

Lemma pub_split_bound head p t id i : pub_split head p = Some (t, id, i) -> i <= len p.
Proof.
  unfold pub_split. destruct p as [|a [|b r]]; try discriminate.
  destruct (N.ltb_spec (len r) (a * 256 + b)) as [L|L]; [discriminate|].
  destruct ((head / 2) mod 4 =? 0).
  - intros E. assert (Hi : i = 2 + (a * 256 + b)) by congruence. subst i.
    unfold len in *. cbn [length]. lia.
  - destruct (skipn (N.to_nat (a * 256 + b)) r) as [|c [|d r']] eqn:S1; try discriminate.
    intros E. assert (Hi : i = 4 + (a * 256 + b)) by congruence. subst i.
    apply (f_equal (@length N)) in S1. rewrite skipn_length in S1.
    unfold len in *. cbn [length] in *. lia.
Qed.

(* state right after peekPacket returned a BigMessage for (head, body) *)
Definition big_ready (s1 : rst) (body rest : list N) : Prop :=
  wf s1 /\ pending s1 = body ++ rest /\ rcap s1 < len body /\
  firstn (N.to_nat (rcap s1)) (rbuf s1) = firstn (N.to_nat (rcap s1)) body /\
  rcap s1 <= len (rbuf s1).

Lemma big_ready_len s1 body rest : big_ready s1 body rest ->
  len (firstn (N.to_nat (rcap s1)) body) = rcap s1.
Proof. intros (_ & _ & L & _). rewrite len_firstn. lia. Qed.

(* serve: skip the bytes before the message, then ReadAll returns exactly the rest of
   the body and the reader is positioned on the next packet *)
Theorem big_read_spec pause s1 body rest i :
  big_ready s1 body rest -> i <= rcap s1 ->
  let before := rcap s1 - (len (firstn (N.to_nat (rcap s1)) body) - i) in
  let s2 := snd (bufio_discard 1 s1 before 0) in
  (exists s3, read_all pause s2 (len body - before) = (inr ETimeout, s3))
  \/ (exists s3, read_all pause s2 (len body - before) = (inl (skipn (N.to_nat i) body), s3)
        /\ post s1 s3 rest).
Proof.
  intros R Hi. pose proof (big_ready_len _ _ _ R) as Hl. rewrite Hl.
  destruct R as (W1 & P1 & Lb & Hf & Hb).
  replace (rcap s1 - (rcap s1 - i)) with i by lia. cbv zeta.
  destruct (bufio_discard_buffered 0 s1 i 0 W1 ltac:(lia)) as (s2 & E & Po & _).
  rewrite E. cbn [snd]. destruct Po as (W2 & C2 & P2 & Wt2).
  assert (Hi' : (N.to_nat i <= length body)%nat) by (unfold len in Lb; lia).
  rewrite P1, skipn_app_le in P2 by exact Hi'.
  destruct (read_all_spec pause s2 (len body - i) W2) as [L|(s3 & E3 & Po3)].
  - rewrite P2, len_app', len_skipn. lia.
  - left. exact L.
  - right. exists s3. rewrite P2 in *.
    assert (Hn : N.to_nat (len body - i) = length (skipn (N.to_nat i) body)).
    { rewrite skipn_length. unfold len. lia. }
    rewrite Hn, firstn_app_exact in E3. rewrite Hn, skipn_app_exact in Po3.
    split; [exact E3|]. eapply post_trans; [|exact Po3].
    apply post_intro; try apply W2; try apply W1; auto; try lia.
    pose proof (wf_cap _ W2). lia.
Qed.

(* a BigMessage that is not read: the next ReadSlices discards the remainder *)
Theorem big_skip_spec pause s1 body rest i :
  big_ready s1 body rest -> i <= rcap s1 ->
  let before := rcap s1 - (len (firstn (N.to_nat (rcap s1)) body) - i) in
  let s2 := snd (bufio_discard 1 s1 before 0) in
  (exists s3, client_discard pause s2 (len body - before) = (Some ETimeout, s3))
  \/ (exists s3, client_discard pause s2 (len body - before) = (None, s3) /\ post s1 s3 rest).
Proof.
  intros R Hi. pose proof (big_ready_len _ _ _ R) as Hl. rewrite Hl.
  destruct R as (W1 & P1 & Lb & Hf & Hb).
  replace (rcap s1 - (rcap s1 - i)) with i by lia. cbv zeta.
  destruct (bufio_discard_buffered 0 s1 i 0 W1 ltac:(lia)) as (s2 & E & Po & _).
  rewrite E. cbn [snd]. destruct Po as (W2 & C2 & P2 & Wt2).
  assert (Hi' : (N.to_nat i <= length body)%nat) by (unfold len in Lb; lia).
  rewrite P1, skipn_app_le in P2 by exact Hi'.
  destruct (client_discard_spec pause s2 (len body - i) W2) as [L|(s3 & E3 & Po3)].
  - rewrite P2, len_app', len_skipn. lia.
  - left. exact L.
  - right. exists s3. rewrite P2 in *.
    assert (Hn : N.to_nat (len body - i) = length (skipn (N.to_nat i) body)).
    { rewrite skipn_length. unfold len. lia. }
    rewrite Hn, skipn_app_exact in Po3.
    split; [exact E3|]. eapply post_trans; [|exact Po3].
    apply post_intro; try apply W2; try apply W1; auto; try lia.
    pose proof (wf_cap _ W2). lia.
Qed.

(* a duplicate big message: the whole body is discarded *)
Theorem big_dup_spec pause s1 body rest :
  big_ready s1 body rest ->
  (exists s2, client_discard pause s1 (len body) = (Some ETimeout, s2))
  \/ (exists s2, client_discard pause s1 (len body) = (None, s2) /\ post s1 s2 rest).
Proof.
  intros (W1 & P1 & Lb & Hf & Hb).
  destruct (client_discard_spec pause s1 (len body) W1) as [L|(s2 & E & Po)].
  - rewrite P1, len_app'. lia.
  - left. exact L.
  - right. exists s2. split; [exact E|]. rewrite P1 in Po. unfold len in Po.
    rewrite Nat2N.id, skipn_app_exact in Po. exact Po.
Qed.

(* ------------------------------------------------------------------ *)
(* whole streams                                                       *)

Lemma take_remlen_suffix r n r' : take_remlen r = Some (n, r') -> exists pre, r = pre ++ r'.
Proof.
  unfold take_remlen. destruct r as [|a r]; [discriminate|].
  destruct (a <? 128); [intros E; injection E as _ <-; exists [a]; reflexivity|].
  destruct r as [|b r]; [discriminate|].
  destruct (b <? 128); [intros E; injection E as _ <-; exists [a; b]; reflexivity|].
  destruct r as [|c r]; [discriminate|].
  destruct (c <? 128); [intros E; injection E as _ <-; exists [a; b; c]; reflexivity|].
  destruct r as [|d r]; [discriminate|].
  destruct (d <? 128); [intros E; injection E as _ <-; exists [a; b; c; d]; reflexivity|discriminate].
Qed.

Lemma bytes_app_r (a b : list N) : bytes (a ++ b) -> bytes b.
Proof. unfold bytes. intros H. apply Forall_app in H. apply H. Qed.

Lemma frame_packet_bytes p head body rest :
  frame_packet p = Some (head, body, rest) -> bytes p -> bytes rest.
Proof.
  intros F Hb. destruct (frame_packet_inv _ _ _ _ F) as (r & r' & -> & T & ->).
  destruct (take_remlen_suffix _ _ _ T) as [pre ->].
  apply bytes_tail in Hb. apply bytes_app_r in Hb. apply bytes_app_r in Hb. exact Hb.
Qed.

Lemma read_byte_empty s : wf s -> pending s = [] ->
  read_byte s = (inr ENoTape, s) \/ exists s', read_byte s = (inr ETimeout, s').
Proof.
  intros W P. pose proof W as [We Wt Wc Wp]. unfold read_byte.
  unfold pending in P. apply app_eq_nil in P. destruct P as [Pb Pd]. rewrite Pb, We.
  pose proof (fill_spec s W) as H. rewrite Pb in H. specialize (H Wp).
  destruct (fill s) as [s1|]; [|left; reflexivity].
  destruct H as (Hc & Ha & Hg & Hw & Hpd & [(He & (y & ys & Hb) & Hl)|(He & Hb)]).
  - exfalso. unfold pending in Hpd. rewrite Hb, Pb, Pd in Hpd. destruct (data (rtape s1)); discriminate.
  - right. rewrite Hb, He. eexists. reflexivity.
Qed.

Definition run_obs (r : list sobs * stream_end * rst) : list sobs := fst (fst r).
Definition run_end (r : list sobs * stream_end * rst) : stream_end := snd (fst r).
Definition run_state (r : list sobs * stream_end * rst) : rst := snd r.

Lemma run_cons o (r : list sobs * stream_end * rst) :
  (let '(l, e, s) := r in (o :: l, e, s)) = (o :: run_obs r, run_end r, run_state r).
Proof. destruct r as [[l e] s]. reflexivity. Qed.

(* The observations of a run are those of the byte stream alone: all of them when the run
   reaches the end of the script, a prefix when a deadline expiry ends it. *)
Theorem read_stream_spec pause mode : forall l fuel s,
  wf s -> bytes (pending s) -> framed l (pending s) ->
  Forall (servable (rcap s) mode) l -> (length l < fuel)%nat ->
  let r := read_stream fuel pause mode s in
  (run_end r = EndTimeout /\ exists l1 l2, l = l1 ++ l2 /\ run_obs r = map (expect_obs (rcap s) mode) l1)
  \/ (run_end r = EndScript /\ run_obs r = map (expect_obs (rcap s) mode) l
      /\ pending (run_state r) = [] /\ wf (run_state r)).
Proof.
  induction l as [|[head body] l IH]; intros fuel s W Hb F Sv Hf;
    (destruct fuel as [|f]; [cbn [length] in Hf; lia|]); cbv zeta; cbn [read_stream].
  - cbn [framed] in F. rewrite peek_packet_unfold.
    destruct (read_byte_empty s W F) as [E|(s' & E)]; rewrite E.
    + right. cbn. auto.
    + left. cbn. split; [reflexivity|]. exists [], []. auto.
  - cbn [framed] in F. destruct F as (rest & F & Fl).
    inversion Sv as [|? ? Sv1 Svl]; subst. destruct Sv1 as [Sn Sbig].
    pose proof (frame_packet_bytes _ _ _ _ F Hb) as Hbr.
    assert (TO : forall (x : list sobs * stream_end * rst), x = ([], EndTimeout, snd x) ->
             (run_end x = EndTimeout /\ exists l1 l2, (head, body) :: l = l1 ++ l2 /\
                run_obs x = map (expect_obs (rcap s) mode) l1)
             \/ (run_end x = EndScript /\ run_obs x = map (expect_obs (rcap s) mode) ((head, body) :: l)
                 /\ pending (run_state x) = [] /\ wf (run_state x))).
    { intros x ->. left. split; [reflexivity|]. exists [], ((head, body) :: l). auto. }
    (* continuation after the packet has been consumed in state s2 *)
    assert (Next : forall s2 o, post s s2 rest -> o = expect_obs (rcap s) mode (head, body) ->
              let x := (o :: run_obs (read_stream f pause mode s2),
                        run_end (read_stream f pause mode s2),
                        run_state (read_stream f pause mode s2)) in
              (run_end x = EndTimeout /\ exists l1 l2, (head, body) :: l = l1 ++ l2 /\
                 run_obs x = map (expect_obs (rcap s) mode) l1)
              \/ (run_end x = EndScript /\ run_obs x = map (expect_obs (rcap s) mode) ((head, body) :: l)
                  /\ pending (run_state x) = [] /\ wf (run_state x))).
    { intros s2 o (W2 & C2 & P2 & _) ->. cbv zeta.
      specialize (IH f s2 W2 ltac:(now rewrite P2) ltac:(now rewrite P2)
                    ltac:(now rewrite C2) ltac:(cbn [length] in Hf; lia)).
      cbv zeta in IH. rewrite C2 in IH.
      destruct IH as [(He & l1 & l2 & -> & Ho)|(He & Ho & Hp & Hw)].
      - left. split; [exact He|]. exists ((head, body) :: l1), l2. split; [reflexivity|].
        unfold run_obs in *. cbn [fst map]. now rewrite Ho.
      - right. split; [exact He|]. unfold run_obs, run_state in *. cbn [fst snd map].
        rewrite Ho. auto. }
    destruct (peek_packet_spec pause s head body rest W Hb F Sn)
      as [(s1 & E1)|(s1 & E1 & Po1 & Hf1 & Hl1)]; rewrite E1.
    { apply TO. reflexivity. }
    pose proof Po1 as (W1 & C1 & P1 & Wt1).
    destruct (is_big (rcap s) head (len body)) eqn:Big.
    + (* big message *)
      assert (Lb : rcap s < len body).
      { unfold is_big in Big. apply andb_prop in Big. destruct Big as [_ Big]. now apply N.ltb_lt in Big. }
      assert (Hpl : peek_len (rcap s) head (len body) = rcap s) by (unfold peek_len; now rewrite Big).
      rewrite Hpl in *.
      assert (R1 : big_ready s1 body rest).
      { unfold big_ready. rewrite C1. splits; auto. }
      destruct mode.
      * destruct (Sbig eq_refl ltac:(discriminate)) as (t & id & i & Hps & Hi).
        rewrite Hps.
        pose proof (big_read_spec pause s1 body rest i R1 ltac:(lia)) as H.
        cbv zeta in H. rewrite C1 in *.
        destruct H as [(s3 & E3)|(s3 & E3 & Po3)]; rewrite E3.
        { apply TO. reflexivity. }
        rewrite run_cons. apply Next.
        -- eapply post_trans; [exact Po1|exact Po3].
        -- unfold expect_obs. rewrite Big. f_equal.
           rewrite firstn_firstn. replace (Init.Nat.min (N.to_nat i) (N.to_nat (rcap s))) with (N.to_nat i) by lia.
           apply firstn_skipn.
      * destruct (Sbig eq_refl ltac:(discriminate)) as (t & id & i & Hps & Hi).
        rewrite Hps.
        pose proof (big_skip_spec pause s1 body rest i R1 ltac:(lia)) as H.
        cbv zeta in H. rewrite C1 in *.
        destruct H as [(s3 & E3)|(s3 & E3 & Po3)]; rewrite E3.
        { apply TO. reflexivity. }
        rewrite run_cons. apply Next.
        -- eapply post_trans; [exact Po1|exact Po3].
        -- unfold expect_obs. rewrite Big, Hps. f_equal.
           rewrite firstn_firstn. replace (Init.Nat.min (N.to_nat i) (N.to_nat (rcap s))) with (N.to_nat i) by lia.
           reflexivity.
      * destruct (big_dup_spec pause s1 body rest R1) as [(s2 & E2)|(s2 & E2 & Po2)]; rewrite E2.
        { apply TO. reflexivity. }
        rewrite run_cons. apply Next.
        -- eapply post_trans; [exact Po1|exact Po2].
        -- unfold expect_obs. now rewrite Big.
    + (* the whole body is buffered *)
      assert (Hpl : peek_len (rcap s) head (len body) = len body) by (unfold peek_len; now rewrite Big).
      rewrite Hpl in *.
      destruct (bufio_discard_buffered 0 s1 (len body) 0 W1 Hl1) as (s2 & E2 & Po2 & _).
      rewrite E2. cbn [snd]. rewrite run_cons. apply Next.
      * eapply post_trans; [exact Po1|]. rewrite P1 in Po2. unfold len in Po2.
        rewrite Nat2N.id, skipn_app_exact in Po2. exact Po2.
      * unfold expect_obs. now rewrite Big.
Qed.

(* ------------------------------------------------------------------ *)
(* fragmentation invariance                                            *)

(* Two readers with the same buffer size and the same pending bytes -- i.e. the same
   stream cut into conn.Read results in two different ways, with deadline expiries
   anywhere -- observe prefixes of one and the same list; a run that does not end in a
   deadline expiry observes all of it and leaves nothing pending. *)
Theorem fragmentation_invariant pause mode l fuel s1 s2 :
  wf s1 -> wf s2 -> rcap s1 = rcap s2 -> pending s1 = pending s2 ->
  bytes (pending s1) -> framed l (pending s1) ->
  Forall (servable (rcap s1) mode) l -> (length l < fuel)%nat ->
  let r1 := read_stream fuel pause mode s1 in
  let r2 := read_stream fuel pause mode s2 in
  let full := map (expect_obs (rcap s1) mode) l in
  (exists x, full = run_obs r1 ++ x) /\ (exists x, full = run_obs r2 ++ x) /\
  (run_end r1 <> EndTimeout -> run_obs r1 = full /\ run_end r1 = EndScript /\ pending (run_state r1) = []) /\
  (run_end r2 <> EndTimeout -> run_obs r2 = full /\ run_end r2 = EndScript /\ pending (run_state r2) = []) /\
  (run_end r1 <> EndTimeout -> run_end r2 <> EndTimeout ->
   run_obs r1 = run_obs r2 /\ run_end r1 = run_end r2).
Proof.
  intros W1 W2 C P Hb F Sv Hf. cbv zeta.
  pose proof (read_stream_spec pause mode l fuel s1 W1 Hb F Sv Hf) as H1.
  pose proof (read_stream_spec pause mode l fuel s2 W2 ltac:(now rewrite <- P) ltac:(now rewrite <- P)
                ltac:(now rewrite <- C) Hf) as H2.
  cbv zeta in H1, H2. rewrite <- C in H2.
  set (r1 := read_stream fuel pause mode s1) in *. set (r2 := read_stream fuel pause mode s2) in *.
  assert (A : forall r, (run_end r = EndTimeout /\ exists l1 l2, l = l1 ++ l2 /\
                  run_obs r = map (expect_obs (rcap s1) mode) l1)
                \/ (run_end r = EndScript /\ run_obs r = map (expect_obs (rcap s1) mode) l
                    /\ pending (run_state r) = [] /\ wf (run_state r)) ->
            (exists x, map (expect_obs (rcap s1) mode) l = run_obs r ++ x) /\
            (run_end r <> EndTimeout -> run_obs r = map (expect_obs (rcap s1) mode) l
               /\ run_end r = EndScript /\ pending (run_state r) = [])).
  { intros r [(He & l1 & l2 & -> & Ho)|(He & Ho & Hp & _)].
    - split; [exists (map (expect_obs (rcap s1) mode) l2); now rewrite Ho, map_app|].
      intros N. contradiction.
    - split; [exists []; now rewrite Ho, app_nil_r|]. intros _. auto. }
  destruct (A r1 H1) as [X1 Y1]. destruct (A r2 H2) as [X2 Y2].
  splits; auto.
  intros N1 N2. destruct (Y1 N1) as (-> & -> & _). destruct (Y2 N2) as (-> & -> & _). auto.
Qed.

(* the reader freshly attached to a connection (after the CONNACK has been taken) *)
Definition reader_on (cap : N) (buf : list N) (tape : list rans) : rst :=
  {| rbuf := buf; rerr := None; rcap := cap; rarmed := false; rtape := tape; rlog := [] |}.

Lemma reader_on_wf cap buf tape : 0 < cap -> len buf <= cap -> good_tape tape ->
  wf (reader_on cap buf tape).
Proof. intros. split; cbn [reader_on rerr rtape rbuf rcap]; auto. Qed.

(* the same, stated on tapes: only the data of the tape matters *)
Corollary fragmentation_invariant_tapes pause mode cap buf t1 t2 l fuel :
  16 <= cap -> len buf <= cap -> good_tape t1 -> good_tape t2 -> data t1 = data t2 ->
  bytes (buf ++ data t1) -> framed l (buf ++ data t1) ->
  Forall (servable cap mode) l -> (length l < fuel)%nat ->
  let r1 := read_stream fuel pause mode (reader_on cap buf t1) in
  let r2 := read_stream fuel pause mode (reader_on cap buf t2) in
  let full := map (expect_obs cap mode) l in
  (exists x, full = run_obs r1 ++ x) /\ (exists x, full = run_obs r2 ++ x) /\
  (run_end r1 <> EndTimeout -> run_obs r1 = full /\ run_end r1 = EndScript /\ pending (run_state r1) = []) /\
  (run_end r2 <> EndTimeout -> run_obs r2 = full /\ run_end r2 = EndScript /\ pending (run_state r2) = []) /\
  (run_end r1 <> EndTimeout -> run_end r2 <> EndTimeout ->
   run_obs r1 = run_obs r2 /\ run_end r1 = run_end r2).
Proof.
  intros Hc Hl G1 G2 D Hb F Sv Hf.
  apply (fragmentation_invariant pause mode l fuel (reader_on cap buf t1) (reader_on cap buf t2));
    try (apply reader_on_wf; auto; lia); auto.
  unfold pending. cbn. now rewrite D.
Qed.

(* ------------------------------------------------------------------ *)
(* remaining length at packet level                                    *)

Theorem peek_packet_fifth_length_byte pause s h a b c d r : wf s ->
  pending s = h :: a :: b :: c :: d :: r -> 128 <= a -> 128 <= b -> 128 <= c -> 128 <= d ->
  (exists s', peek_packet pause s = (PkErr ETimeout false, s'))
  \/ (exists s', peek_packet pause s = (PkErr EHard true, s')).
Proof.
  intros W P Ha Hb Hc Hd. rewrite peek_packet_unfold.
  destruct (read_byte_spec s h _ W P) as [(s1 & E1 & Po1)|(s1 & E1)]; rewrite E1;
    [|left; exists s1; reflexivity].
  destruct Po1 as (W1 & C1 & P1 & Wt1).
  destruct (remlen_fifth pause s1 a b c d r W1 P1 Ha Hb Hc Hd) as [(s2 & E2)|(s2 & E2)]; rewrite E2;
    [left|right]; unfold fin_arm; destruct pause; eexists; reflexivity.
Qed.

(* every size up to 268 435 455, in its 1-4 byte encoding, is decoded exactly: a packet
   composed as first byte, varint size, body is framed as such *)
From MQ Require Import Packets PacketsProofs.

Theorem peek_packet_framed pause s head body rest :
  wf s -> bytes (pending s) -> len body <= packet_max ->
  pending s = head :: varint (len body) ++ body ++ rest ->
  peek_len (rcap s) head (len body) <= rcap s ->
  (exists s', peek_packet pause s = (PkErr ETimeout false, s'))
  \/ (exists s',
        peek_packet pause s =
          ((if is_big (rcap s) head (len body)
            then PkBig head (len body) (firstn (N.to_nat (rcap s)) body)
            else PkOk head body), s')
        /\ post s s' (body ++ rest)
        /\ firstn (N.to_nat (peek_len (rcap s) head (len body))) (rbuf s')
           = firstn (N.to_nat (peek_len (rcap s) head (len body))) body
        /\ peek_len (rcap s) head (len body) <= len (rbuf s')).
Proof.
  intros W Hb Hm P Hn. apply peek_packet_spec; auto.
  rewrite P. apply frame_packet_framed; [reflexivity|exact Hm].
Qed.

(* ------------------------------------------------------------------ *)
(* no deadline expiry on the tape: no deadline-expiry error            *)

Definition nt (s : rst) : Prop :=
  Forall (fun a => a <> RTimeout) (rtape s) /\ rerr s <> Some RTimeout.

Lemma rerror_of_timeout a : rerror_of a = ETimeout -> a = RTimeout.
Proof. destruct a; cbn; intros H; try discriminate; reflexivity. Qed.

Lemma nt_arm s a : nt s -> nt (rst_arm s a).
Proof. intros [A B]. split; assumption. Qed.

Lemma nt_buf s b : nt s -> nt (rst_with_buf s b).
Proof. intros [A B]. split; assumption. Qed.

Lemma nt_err_none s : nt s -> nt (rst_with_err s None).
Proof. intros [A B]. split; [assumption|discriminate]. Qed.

Lemma nt_arm_if s (c a : bool) : nt s -> nt (if c then rst_arm s a else s).
Proof. destruct c; [apply nt_arm|auto]. Qed.

Lemma conn_read_nt s want a s' : nt s -> conn_read s want = Some (a, s') ->
  a <> RTimeout /\ nt s'.
Proof.
  intros [A B]. unfold conn_read. destruct (rtape s) as [|x t] eqn:E; [discriminate|].
  inversion A as [|? ? Ax At]; subst.
  destruct x as [bs| | | |]; try contradiction;
    try (intros H; injection H as <- <-; split; [discriminate|split; assumption]).
  destruct (want <? len bs); intros H; injection H as <- <-; (split; [discriminate|]); split;
    cbn [rtape rerr]; auto.
  constructor; [discriminate|assumption].
Qed.

Lemma fill_nt s s' : nt s -> fill s = Some s' -> nt s'.
Proof.
  intros N. unfold fill. destruct (conn_read s (rcap s - len (rbuf s))) as [[a s1]|] eqn:E; [|discriminate].
  destruct (conn_read_nt _ _ _ _ N E) as [Ha N1].
  destruct a; intros H; injection H as <-; try (apply nt_buf; exact N1);
    try contradiction; (split; [apply N1|cbn [rst_with_err rerr]; congruence]).
Qed.

Lemma read_byte_nt s r s' : nt s -> read_byte s = (r, s') -> nt s' /\ r <> inr ETimeout.
Proof.
  intros N. unfold read_byte.
  destruct (rbuf s) as [|b bs].
  - destruct (rerr s) as [e|] eqn:Ee.
    + intros H; injection H as <- <-. split; [apply nt_err_none; exact N|].
      intros H; injection H as H. apply rerror_of_timeout in H. subst e. destruct N as [_ N]. contradiction.
    + destruct (fill s) as [s1|] eqn:Ef.
      * pose proof (fill_nt _ _ N Ef) as N1.
        destruct (rbuf s1) as [|b bs].
        -- destruct (rerr s1) as [e|] eqn:Ee1.
           ++ intros H; injection H as <- <-. split; [apply nt_err_none; exact N1|].
              intros H; injection H as H. apply rerror_of_timeout in H. subst e.
              destruct N1 as [_ N1]. contradiction.
           ++ intros H; injection H as <- <-. split; [exact N1|discriminate].
        -- intros H; injection H as <- <-. split; [apply nt_buf; exact N1|discriminate].
      * intros H; injection H as <- <-. split; [exact N|discriminate].
  - intros H; injection H as <- <-. split; [apply nt_buf; exact N|discriminate].
Qed.

Lemma peek_fill_nt fuel : forall s n s', nt s -> peek_fill fuel s n = Some s' -> nt s'.
Proof.
  induction fuel as [|f IH]; intros s n s' N; cbn [peek_fill].
  - intros H; injection H as <-. exact N.
  - destruct (_ && _ && _).
    + destruct (fill s) as [s1|] eqn:Ef; [|discriminate]. apply IH. eapply fill_nt; eassumption.
    + intros H; injection H as <-. exact N.
Qed.

Lemma peek_nt s n p e s' : nt s -> peek s n = ((p, e), s') -> nt s' /\ e <> Some ETimeout.
Proof.
  intros N. unfold peek.
  destruct (peek_fill (S (tape_weight (rtape s))) s n) as [s1|] eqn:E.
  - pose proof (peek_fill_nt _ _ _ _ N E) as N1.
    destruct (rcap s1 <? n); [intros H; injection H as _ <- <-; split; [exact N1|discriminate]|].
    destruct (len (rbuf s1) <? n).
    + destruct (rerr s1) as [x|] eqn:Ex; intros H; injection H as _ <- <-.
      * split; [apply nt_err_none; exact N1|]. intros H; injection H as H.
        apply rerror_of_timeout in H. subst x. destruct N1 as [_ N1]. contradiction.
      * split; [exact N1|discriminate].
    + intros H; injection H as _ <- <-. split; [exact N1|discriminate].
  - intros H; injection H as _ <- <-. split; [exact N|discriminate].
Qed.

Lemma remlen_nt fuel : forall pause s shift size r s',
  nt s -> remlen_loop fuel pause s shift size = (r, s') ->
  nt s' /\ forall p, r <> inr (ETimeout, p).
Proof.
  induction fuel as [|f IH]; intros pause s shift size r s' N; cbn [remlen_loop].
  - intros H; injection H as <- <-. split; [exact N|discriminate].
  - set (s0 := if (len (rbuf s) =? 0) && pause then rst_arm s true else s).
    assert (N0 : nt s0) by (apply nt_arm_if; exact N).
    destruct (read_byte s0) as [[b|e] s1] eqn:E; destruct (read_byte_nt _ _ _ N0 E) as [N1 Hr].
    + destruct (b <? 128); [intros H; injection H as <- <-; split; [exact N1|discriminate]|].
      destruct (21 <=? shift); [intros H; injection H as <- <-; split; [exact N1|discriminate]|].
      apply IH. exact N1.
    + intros H; injection H as <- <-. split; [exact N1|]. intros p H. injection H as H _.
      apply Hr. f_equal. destruct e; cbn in H; try discriminate; reflexivity.
Qed.

Lemma slice_nt fuel : forall pause s head size lastN r s',
  nt s -> slice_loop fuel pause s head size lastN = (r, s') ->
  nt s' /\ forall p, r <> PkErr ETimeout p.
Proof.
  induction fuel as [|f IH]; intros pause s head size lastN r s' N; cbn [slice_loop].
  - intros H; injection H as <- <-. split; [exact N|discriminate].
  - set (s0 := if (len (rbuf s) <? size) && pause then rst_arm s true else s).
    assert (N0 : nt s0) by (apply nt_arm_if; exact N).
    destruct (peek s0 _) as [[p e] s1] eqn:E. destruct (peek_nt _ _ _ _ _ N0 E) as [N1 He].
    destruct e as [e|].
    + destruct e; try contradiction (He eq_refl);
        intros H; injection H as <- <-; (split; [exact N1|discriminate]).
    + destruct ((head / 16 =? 3) && _); intros H; injection H as <- <-; (split; [exact N1|discriminate]).
Qed.

Lemma peek_packet_nt pause s r s' : nt s -> peek_packet pause s = (r, s') ->
  nt s' /\ forall p, r <> PkErr ETimeout p.
Proof.
  intros N. rewrite peek_packet_unfold.
  destruct (read_byte s) as [[b|e] s1] eqn:E; destruct (read_byte_nt _ _ _ N E) as [N1 Hr].
  - destruct (remlen_loop 5 pause s1 0 0) as [[size|[e proto]] s2] eqn:E2;
      destruct (remlen_nt _ _ _ _ _ _ _ N1 E2) as [N2 Hr2].
    + destruct (slice_loop _ pause s2 b size 0) as [r3 s3] eqn:E3.
      destruct (slice_nt _ _ _ _ _ _ _ _ N2 E3) as [N3 Hr3].
      unfold fin_arm. destruct pause; cbn [fst snd]; intros H; injection H as <- <-;
        (split; [try apply nt_arm; exact N3|exact Hr3]).
    + unfold fin_arm. destruct pause; cbn [fst snd]; intros H; injection H as <- <-;
        (split; [try apply nt_arm; exact N2|]); intros p H; injection H as -> _; exact (Hr2 proto eq_refl).
  - destruct e; intros H; injection H as <- <-; (split; [exact N1|]); intros p H; try discriminate.
    contradiction (Hr eq_refl).
Qed.

Lemma bufio_discard_nt fuel : forall s remain done d e s',
  nt s -> bufio_discard fuel s remain done = ((d, e), s') -> nt s' /\ e <> Some ETimeout.
Proof.
  induction fuel as [|f IH]; intros s remain done d e s' N; cbn [bufio_discard].
  - intros H; injection H as _ <- <-. split; [exact N|discriminate].
  - destruct (remain =? 0); [intros H; injection H as _ <- <-; split; [exact N|discriminate]|].
    assert (S1 : forall s1, nt s1 ->
      (if remain - N.min (len (rbuf s1)) remain =? 0
       then ((done + N.min (len (rbuf s1)) remain, None),
             rst_with_buf s1 (skipn (N.to_nat (N.min (len (rbuf s1)) remain)) (rbuf s1)))
       else match rerr (rst_with_buf s1 (skipn (N.to_nat (N.min (len (rbuf s1)) remain)) (rbuf s1))) with
            | Some e0 => ((done + N.min (len (rbuf s1)) remain, Some (rerror_of e0)),
                          rst_with_err (rst_with_buf s1 (skipn (N.to_nat (N.min (len (rbuf s1)) remain)) (rbuf s1))) None)
            | None => bufio_discard f (rst_with_buf s1 (skipn (N.to_nat (N.min (len (rbuf s1)) remain)) (rbuf s1)))
                        (remain - N.min (len (rbuf s1)) remain) (done + N.min (len (rbuf s1)) remain)
            end) = ((d, e), s') -> nt s' /\ e <> Some ETimeout).
    { intros s1 N1. pose proof (nt_buf s1 (skipn (N.to_nat (N.min (len (rbuf s1)) remain)) (rbuf s1)) N1) as N2.
      destruct (_ =? 0); [intros H; injection H as _ <- <-; split; [exact N2|discriminate]|].
      destruct (rerr _) as [x|] eqn:Ex.
      - intros H; injection H as _ <- <-. split; [apply nt_err_none; exact N2|].
        intros H; injection H as H. apply rerror_of_timeout in H. subst x.
        destruct N2 as [_ N2]. contradiction.
      - apply IH. exact N2. }
    destruct (rbuf s) as [|x xs] eqn:Eb.
    + destruct (fill s) as [s1|] eqn:Ef.
      * apply S1. eapply fill_nt; eassumption.
      * intros H; injection H as _ <- <-. split; [exact N|discriminate].
    + apply S1. exact N.
Qed.

Lemma discard_loop_nt fuel : forall pause s n e s',
  nt s -> discard_loop fuel pause s n = (e, s') -> nt s' /\ e <> Some ETimeout.
Proof.
  induction fuel as [|f IH]; intros pause s n e s' N; cbn [discard_loop].
  - intros H; injection H as <- <-. split; [exact N|discriminate].
  - set (s0 := if pause then rst_arm s true else s).
    assert (N0 : nt s0) by (apply nt_arm_if; exact N).
    destruct (bufio_discard _ s0 n 0) as [[d x] s1] eqn:E.
    destruct (bufio_discard_nt _ _ _ _ _ _ _ N0 E) as [N1 Hx].
    destruct x as [x|]; [|intros H; injection H as <- <-; split; [exact N1|discriminate]].
    destruct x; try contradiction (Hx eq_refl);
      intros H; injection H as <- <-; (split; [exact N1|discriminate]).
Qed.

Lemma client_discard_nt pause s n e s' :
  nt s -> client_discard pause s n = (e, s') -> nt s' /\ e <> Some ETimeout.
Proof.
  intros N. unfold client_discard.
  destruct (discard_loop _ pause s n) as [x s1] eqn:E.
  destruct (discard_loop_nt _ _ _ _ _ _ N E) as [N1 Hx].
  destruct pause; cbn [fst snd]; intros H; injection H as <- <-;
    (split; [try apply nt_arm; exact N1|exact Hx]).
Qed.

Lemma bufio_read_nt s want p e s' :
  nt s -> bufio_read s want = ((p, e), s') -> nt s' /\ e <> Some ETimeout.
Proof.
  intros N. unfold bufio_read. destruct (rbuf s) as [|x xs] eqn:Eb.
  - destruct (rerr s) as [x|] eqn:Ex.
    + intros H; injection H as _ <- <-. split; [apply nt_err_none; exact N|].
      intros H; injection H as H. apply rerror_of_timeout in H. subst x. destruct N as [_ N]. contradiction.
    + destruct (rcap s <=? want).
      * destruct (conn_read s want) as [[a s1]|] eqn:E.
        -- destruct (conn_read_nt _ _ _ _ N E) as [Ha N1].
           destruct a; intros H; injection H as _ <- <-; (split; [exact N1|]); try discriminate;
             try contradiction.
        -- intros H; injection H as _ <- <-. split; [exact N|discriminate].
      * destruct (conn_read s (rcap s)) as [[a s1]|] eqn:E.
        -- destruct (conn_read_nt _ _ _ _ N E) as [Ha N1].
           destruct a; intros H; injection H as _ <- <-; (split; [try apply nt_buf; exact N1|]);
             try discriminate; try contradiction.
        -- intros H; injection H as _ <- <-. split; [exact N|discriminate].
  - intros H; injection H as _ <- <-. split; [apply nt_buf; exact N|discriminate].
Qed.

Lemma read_all_loop_nt fuel : forall pause s remain acc r s',
  nt s -> read_all_loop fuel pause s remain acc = (r, s') -> nt s' /\ r <> inr ETimeout.
Proof.
  induction fuel as [|f IH]; intros pause s remain acc r s' N; cbn [read_all_loop].
  - intros H; injection H as <- <-. split; [exact N|discriminate].
  - destruct (remain =? 0); [intros H; injection H as <- <-; split; [exact N|discriminate]|].
    set (s0 := if (len (rbuf s) =? 0) && pause then rst_arm s true else s).
    assert (N0 : nt s0) by (apply nt_arm_if; exact N).
    destruct (bufio_read s0 remain) as [[bs e] s1] eqn:E.
    destruct (bufio_read_nt _ _ _ _ _ N0 E) as [N1 He].
    destruct e as [e|]; [|apply IH; exact N1].
    destruct (remain - len bs =? 0); intros H; injection H as <- <-; (split; [exact N1|]); try discriminate.
    intros H; injection H as H. apply He. f_equal. destruct e; cbn in H; try discriminate; reflexivity.
Qed.

Lemma read_all_nt pause s size r s' :
  nt s -> read_all pause s size = (r, s') -> nt s' /\ r <> inr ETimeout.
Proof.
  intros N. unfold read_all.
  destruct (read_all_loop _ pause s size []) as [x s1] eqn:E.
  destruct (read_all_loop_nt _ _ _ _ _ _ _ N E) as [N1 Hx].
  destruct pause; cbn [fst snd]; intros H; injection H as <- <-;
    (split; [try apply nt_arm; exact N1|exact Hx]).
Qed.

Lemma end_of_err_timeout e p : end_of_err e p = EndTimeout -> e = ETimeout.
Proof. destruct e; cbn; intros H; try discriminate; reflexivity. Qed.

Theorem read_stream_nt fuel : forall pause mode s,
  nt s -> run_end (read_stream fuel pause mode s) <> EndTimeout.
Proof.
  induction fuel as [|f IH]; intros pause mode s N; cbn [read_stream]; [discriminate|].
  destruct (peek_packet pause s) as [r s1] eqn:E.
  destruct (peek_packet_nt _ _ _ _ N E) as [N1 Hr].
  assert (D : forall s1 n, nt s1 -> nt (snd (bufio_discard 1 s1 n 0))).
  { intros s2 n N2. destruct (bufio_discard 1 s2 n 0) as [[d e] s3] eqn:Ed.
    exact (proj1 (bufio_discard_nt _ _ _ _ _ _ _ N2 Ed)). }
  destruct r as [head body|head size p|e proto|].
  - rewrite run_cons. cbn [run_end fst snd]. apply IH. apply D. exact N1.
  - destruct mode.
    + destruct (pub_split head p) as [[[t id] i]|]; [|discriminate].
      destruct (read_all pause _ _) as [[content|e] s3] eqn:Er;
        destruct (read_all_nt _ _ _ _ _ (D _ _ N1) Er) as [N3 Hx].
      * rewrite run_cons. cbn [run_end fst snd]. apply IH. exact N3.
      * cbn [run_end fst snd]. intros H. apply end_of_err_timeout in H. subst e. contradiction.
    + destruct (pub_split head p) as [[[t id] i]|]; [|discriminate].
      destruct (client_discard pause _ _) as [[e|] s3] eqn:Er;
        destruct (client_discard_nt _ _ _ _ _ (D _ _ N1) Er) as [N3 Hx].
      * cbn [run_end fst snd]. intros H. apply end_of_err_timeout in H. subst e. contradiction.
      * rewrite run_cons. cbn [run_end fst snd]. apply IH. exact N3.
    + destruct (client_discard pause s1 size) as [[e|] s3] eqn:Er;
        destruct (client_discard_nt _ _ _ _ _ N1 Er) as [N3 Hx].
      * cbn [run_end fst snd]. intros H. apply end_of_err_timeout in H. subst e. contradiction.
      * rewrite run_cons. cbn [run_end fst snd]. apply IH. exact N3.
  - cbn [run_end fst snd]. intros H. apply end_of_err_timeout in H. subst e. exact (Hr proto eq_refl).
  - discriminate.
Qed.

(* Unfragmented exactness and, more generally, any cutting without deadline expiries:
   the run observes the entire stream. *)
Theorem read_stream_no_expiry pause mode l fuel s :
  wf s -> Forall (fun a => a <> RTimeout) (rtape s) ->
  bytes (pending s) -> framed l (pending s) ->
  Forall (servable (rcap s) mode) l -> (length l < fuel)%nat ->
  let r := read_stream fuel pause mode s in
  run_end r = EndScript /\ run_obs r = map (expect_obs (rcap s) mode) l
  /\ pending (run_state r) = [].
Proof.
  intros W T Hb F Sv Hf. cbv zeta.
  assert (N : nt s) by (split; [exact T|rewrite (wf_err _ W); discriminate]).
  destruct (read_stream_spec pause mode l fuel s W Hb F Sv Hf) as [(He & _)|(He & Ho & Hp & _)].
  - exfalso. exact (read_stream_nt fuel pause mode s N He).
  - auto.
Qed.
