(* L1 proofs: the read loops of the client (Reader.v) deliver what the byte stream says,
   however the stream is cut into conn.Read results and wherever deadline expiries fall.
   Abstraction (DESIGN Appendix E3): pending s = buffered bytes ++ data still on the tape.
   Every operation's result and new [pending] are functions of the old [pending] alone,
   unless it ends in a deadline-expiry error. *)
From MQ Require Import Bytes Spec Reader.
From Coq Require Import ZArith ZifyN ZifyNat ZifyBool.
Ltac Zify.zify_post_hook ::= Z.div_mod_to_equations.

Ltac splits := repeat match goal with |- _ /\ _ => split end.

(* ------------------------------------------------------------------ *)
(* tapes, states                                                       *)

Definition good_ans (a : rans) : Prop :=
  match a with RData (_ :: _) => True | RTimeout => True | _ => False end.
Definition good_tape (t : list rans) : Prop := Forall good_ans t.

Definition pending (s : rst) : list N := rbuf s ++ data (rtape s).

Record wf (s : rst) : Prop := {
  wf_err : rerr s = None;
  wf_tape : good_tape (rtape s);
  wf_cap : len (rbuf s) <= rcap s;
  wf_pos : 0 < rcap s }.

(* s' is a well-formed successor of s whose pending bytes are p' *)
Definition post (s s' : rst) (p' : list N) : Prop :=
  wf s' /\ rcap s' = rcap s /\ pending s' = p' /\
  (tape_weight (rtape s') <= tape_weight (rtape s))%nat.

Lemma post_intro s s' p :
  rerr s' = None -> good_tape (rtape s') -> len (rbuf s') <= rcap s -> 0 < rcap s ->
  rcap s' = rcap s -> pending s' = p -> (tape_weight (rtape s') <= tape_weight (rtape s))%nat ->
  post s s' p.
Proof. intros. split; [split; auto; lia|auto]. Qed.

Ltac simp_st := cbn [rst_with_err rst_with_buf rst_arm rbuf rtape rcap rerr rarmed rlog].

Lemma post_trans s s1 s2 p1 p2 : post s s1 p1 -> post s1 s2 p2 -> post s s2 p2.
Proof.
  intros (A & B & C & D) (A' & B' & C' & D').
  split; [exact A'|]. split; [congruence|]. split; [exact C'|lia].
Qed.

Lemma post_refl s : wf s -> post s s (pending s).
Proof. intros. repeat split; auto; apply H. Qed.

Lemma wf_arm s a : wf s -> wf (rst_arm s a).
Proof. intros [A B C D]. split; assumption. Qed.

Lemma post_arm_r s s' p a : post s s' p -> post s (rst_arm s' a) p.
Proof.
  intros (A & B & C & D). split; [apply wf_arm; exact A|]. split; [exact B|]. split; [exact C|exact D].
Qed.

Lemma post_arm_l s s' p a : post (rst_arm s a) s' p -> post s s' p.
Proof. intros (A & B & C & D). split; [exact A|]. split; [exact B|]. split; [exact C|exact D]. Qed.

Lemma post_arm_if s (c a : bool) : wf s -> post s (if c then rst_arm s a else s) (pending s).
Proof. intros. destruct c; [apply post_arm_r|]; apply post_refl; assumption. Qed.

Lemma len_app' (a b : list N) : len (a ++ b) = len a + len b.
Proof. unfold len. rewrite app_length. lia. Qed.

Lemma len_firstn (k : nat) (l : list N) : len (firstn k l) = N.min (N.of_nat k) (len l).
Proof. unfold len. rewrite firstn_length. lia. Qed.

Lemma len_skipn (k : nat) (l : list N) : len (skipn k l) = len l - N.of_nat k.
Proof. unfold len. rewrite skipn_length. lia. Qed.

Lemma len_zero_nil (l : list N) : len l = 0 -> l = [].
Proof. destruct l; [reflexivity|]. unfold len. cbn. lia. Qed.

Lemma firstn_app_le {A} (k : nat) (a b : list A) : (k <= length a)%nat -> firstn k (a ++ b) = firstn k a.
Proof. intros. rewrite firstn_app. replace (k - length a)%nat with O by lia. cbn. apply app_nil_r. Qed.

Lemma skipn_app_le {A} (k : nat) (a b : list A) : (k <= length a)%nat -> skipn k (a ++ b) = skipn k a ++ b.
Proof. intros. rewrite skipn_app. replace (k - length a)%nat with O by lia. reflexivity. Qed.

(* ------------------------------------------------------------------ *)
(* conn.Read, fill                                                     *)

Lemma conn_read_spec s want : good_tape (rtape s) -> 0 < want ->
  match conn_read s want with
  | None => rtape s = []
  | Some (a, s') =>
    rbuf s' = rbuf s /\ rerr s' = rerr s /\ rcap s' = rcap s /\ rarmed s' = rarmed s /\
    good_tape (rtape s') /\
    (tape_weight (rtape s') < tape_weight (rtape s))%nat /\
    data (rtape s) = chunk_data a ++ data (rtape s') /\
    ((exists b bs, a = RData (b :: bs) /\ len (b :: bs) <= want) \/ a = RTimeout)
  end.
Proof.
  intros G W. unfold conn_read. destruct (rtape s) as [|a t] eqn:E; [reflexivity|].
  inversion G as [|? ? Ga Gt]; subst.
  destruct a as [bs| | | |]; cbn [good_ans] in Ga; try contradiction.
  - destruct bs as [|b bs]; [contradiction|].
    destruct (N.ltb_spec want (len (b :: bs))) as [L|L]; cbn [rbuf rerr rcap rarmed rtape].
    + assert (Hk : exists k, N.to_nat want = S k) by (exists (pred (N.to_nat want)); lia).
      destruct Hk as [k Hk]. rewrite Hk. cbn [firstn].
      repeat split; auto.
      * constructor; [|assumption]. rewrite <- Hk.
        destruct (skipn (N.to_nat want) (b :: bs)) eqn:S1; [|exact I].
        apply (f_equal (@length N)) in S1. rewrite skipn_length in S1. unfold len in L. cbn [length] in *. lia.
      * cbn [tape_weight chunk_data]. rewrite <- Hk. rewrite skipn_length. unfold len in L. cbn [length] in *. lia.
      * cbn [data chunk_data]. rewrite <- Hk.
        change (b :: firstn k bs) with (firstn (S k) (b :: bs)). rewrite <- Hk.
        rewrite app_assoc. rewrite firstn_skipn. reflexivity.
      * left. exists b, (firstn k bs). split; [reflexivity|].
        change (b :: firstn k bs) with (firstn (S k) (b :: bs)). rewrite len_firstn. lia.
    + repeat split; auto.
      * cbn [tape_weight]. lia.
      * left. exists b, bs. split; [reflexivity|lia].
  - cbn [rbuf rerr rcap rarmed rtape]. repeat split; auto; try (cbn [tape_weight]; lia).
Qed.

Lemma fill_spec s : wf s -> len (rbuf s) < rcap s ->
  match fill s with
  | None => rtape s = []
  | Some s' =>
    rcap s' = rcap s /\ rarmed s' = rarmed s /\ good_tape (rtape s') /\
    (tape_weight (rtape s') < tape_weight (rtape s))%nat /\
    pending s' = pending s /\
    ((rerr s' = None /\ (exists b bs, rbuf s' = rbuf s ++ b :: bs) /\ len (rbuf s') <= rcap s)
     \/ (rerr s' = Some RTimeout /\ rbuf s' = rbuf s))
  end.
Proof.
  intros [We Wt Wc Wp] L. unfold fill.
  pose proof (conn_read_spec s (rcap s - len (rbuf s)) Wt ltac:(lia)) as H.
  destruct (conn_read s (rcap s - len (rbuf s))) as [[a s']|]; [|exact H].
  destruct H as (Hb & He & Hc & Ha & Hg & Hw & Hd & Hk).
  destruct Hk as [(b & bs & -> & Hl)| ->].
  - cbn [rst_with_buf rcap rarmed rtape rerr rbuf]. repeat split; auto.
    + unfold pending. cbn [rst_with_buf rbuf rtape]. rewrite Hb, Hd. cbn [chunk_data]. now rewrite app_assoc.
    + left. rewrite He, Hb. repeat split; auto.
      * exists b, bs. reflexivity.
      * rewrite len_app'. lia.
  - cbn [rst_with_err rcap rarmed rtape rerr rbuf]. repeat split; auto.
    all: try (unfold pending; cbn [rst_with_err rbuf rtape]; rewrite Hb, Hd; reflexivity).
    all: try (right; split; [reflexivity|exact Hb]).
Qed.

(* ------------------------------------------------------------------ *)
(* ReadByte                                                            *)

Lemma read_byte_spec s b p : wf s -> pending s = b :: p ->
  (exists s', read_byte s = (inl b, s') /\ post s s' p)
  \/ (exists s', read_byte s = (inr ETimeout, s')).
Proof.
  intros W P. pose proof W as [We Wt Wc Wp]. unfold read_byte.
  destruct (rbuf s) as [|x r] eqn:Eb.
  - rewrite We.
    pose proof (fill_spec s W) as H. rewrite Eb in H. specialize (H Wp).
    destruct (fill s) as [s'|].
    + destruct H as (Hc & Ha & Hg & Hw & Hp & [(He & (y & ys & Hb) & Hl)|(He & Hb)]).
      * cbn [app] in Hb. assert (Hy : y = b /\ ys ++ data (rtape s') = p).
        { rewrite P in Hp. unfold pending in Hp. rewrite Hb in Hp. cbn [app] in Hp.
          inversion Hp. auto. }
        destruct Hy as [-> Hys].
        rewrite Hb. left. eexists. split; [reflexivity|].
        split; [|split; [exact Hc|split; [exact Hys|cbn [rst_with_buf rtape]; lia]]].
        split; cbn [rst_with_buf rerr rtape rbuf rcap]; auto; try lia.
        rewrite Hb in Hl. unfold len in *. cbn [length] in Hl. lia.
      * rewrite Hb, He. right. eexists. reflexivity.
    + unfold pending in P. rewrite Eb, H in P. discriminate.
  - left. unfold pending in P. rewrite Eb in P. cbn [app] in P. inversion P; subst x.
    eexists. split; [reflexivity|].
    split; [|split; [reflexivity|split; [reflexivity|cbn [rst_with_buf rtape]; lia]]].
    split; cbn [rst_with_buf rerr rtape rbuf rcap]; auto.
    unfold len in *. cbn [length] in Wc. lia.
Qed.

(* ------------------------------------------------------------------ *)
(* Peek(n), n within the buffer size                                   *)

Definition is_prefix (a b : list N) : Prop := exists c, b = a ++ c.

Lemma is_prefix_refl a : is_prefix a a.
Proof. exists []. now rewrite app_nil_r. Qed.

Lemma is_prefix_trans a b c : is_prefix a b -> is_prefix b c -> is_prefix a c.
Proof. intros [x ->] [y ->]. exists (x ++ y). now rewrite app_assoc. Qed.

Lemma is_prefix_len a b : is_prefix a b -> len a <= len b.
Proof. intros [c ->]. rewrite len_app'. lia. Qed.

Lemma peek_fill_spec fuel : forall s n, wf s -> n <= rcap s -> n <= len (pending s) ->
  (tape_weight (rtape s) < fuel)%nat ->
  exists s', peek_fill fuel s n = Some s' /\
    rcap s' = rcap s /\ rarmed s' = rarmed s /\ good_tape (rtape s') /\ pending s' = pending s /\
    is_prefix (rbuf s) (rbuf s') /\ len (rbuf s') <= rcap s /\
    ((rerr s' = None /\ n <= len (rbuf s') /\ (tape_weight (rtape s') <= tape_weight (rtape s))%nat)
     \/ (rerr s' = Some RTimeout /\ len (rbuf s') < n /\
         (tape_weight (rtape s') < tape_weight (rtape s))%nat)).
Proof.
  induction fuel as [|f IH]; intros s n W Hn Hp Hf; [lia|].
  pose proof W as [We Wt Wc Wp]. cbn [peek_fill]. rewrite We.
  destruct (N.ltb_spec (len (rbuf s)) n) as [L|L]; cbn [andb].
  - destruct (N.ltb_spec (len (rbuf s)) (rcap s)) as [L2|L2]; [|lia]. cbn [andb].
    pose proof (fill_spec s W L2) as H.
    destruct (fill s) as [s1|].
    + destruct H as (Hc & Ha & Hg & Hw & Hpd & [(He & (y & ys & Hb) & Hl)|(He & Hb)]).
      * assert (W1 : wf s1) by (split; auto; lia).
        destruct (IH s1 n W1 ltac:(lia) ltac:(now rewrite Hpd) ltac:(lia))
          as (s' & E & Hc' & Ha' & Hg' & Hp' & Hpre & Hl' & Hor).
        exists s'. split; [exact E|]. rewrite Hc', Hc, Ha', Ha, Hp', Hpd.
        split; [reflexivity|]. split; [reflexivity|]. split; [exact Hg'|]. split; [reflexivity|].
        split; [eapply is_prefix_trans; [|exact Hpre]; exists (y :: ys); exact Hb|].
        split; [lia|].
        destruct Hor as [(A & B & C)|(A & B & C)]; [left|right]; splits; auto; lia.
      * exists s1. split.
        { destruct f; [reflexivity|]. cbn [peek_fill]. rewrite He.
          now rewrite !andb_false_r. }
        rewrite Hb. splits; auto. { apply is_prefix_refl. }
    + exfalso. unfold pending in Hp. rewrite H in Hp. cbn [data] in Hp. rewrite app_nil_r in Hp. lia.
  - exists s. split; [reflexivity|]. splits; auto. { apply is_prefix_refl. }
Qed.

Lemma firstn_prefix (k : nat) (a b : list N) : is_prefix a b -> (k <= length a)%nat -> firstn k a = firstn k b.
Proof. intros [c ->] H. now rewrite firstn_app_le. Qed.

(* Peek either returns the first n pending bytes (and they are buffered), or a deadline
   expiry with the shorter buffer content; nothing is consumed either way. *)
Lemma peek_spec s n : wf s -> n <= rcap s -> n <= len (pending s) ->
  (exists s', peek s n = ((firstn (N.to_nat n) (pending s), None), s') /\
      post s s' (pending s) /\ rarmed s' = rarmed s /\
      firstn (N.to_nat n) (rbuf s') = firstn (N.to_nat n) (pending s) /\ n <= len (rbuf s'))
  \/ (exists s', peek s n = ((rbuf s', Some ETimeout), s') /\
      post s s' (pending s) /\ rarmed s' = rarmed s /\
      is_prefix (rbuf s) (rbuf s') /\ len (rbuf s') < n /\
      (tape_weight (rtape s') < tape_weight (rtape s))%nat).
Proof.
  intros W Hn Hp. pose proof (wf_pos _ W) as Wp. unfold peek.
  destruct (peek_fill_spec (S (tape_weight (rtape s))) s n W Hn Hp ltac:(lia))
    as (s' & E & Hc & Ha & Hg & Hpd & Hpre & Hl & Hor).
  rewrite E. destruct (N.ltb_spec (rcap s') n) as [L|L]; [lia|].
  destruct Hor as [(He & Hlen & Hw)|(He & Hlen & Hw)].
  - destruct (N.ltb_spec (len (rbuf s')) n) as [L2|L2]; [lia|].
    left. exists s'.
    assert (Hf : firstn (N.to_nat n) (rbuf s') = firstn (N.to_nat n) (pending s)).
    { rewrite <- Hpd. apply firstn_prefix; [exists (data (rtape s')); reflexivity|].
      unfold len in Hlen. lia. }
    rewrite Hf. split; [reflexivity|]. split.
    { split; [|split; [exact Hc|split; [exact Hpd|exact Hw]]]. split; auto; lia. }
    splits; auto.
  - destruct (N.ltb_spec (len (rbuf s')) n) as [L2|L2]; [|lia].
    rewrite He. cbn [rerror_of]. right. exists (rst_with_err s' None). split; [reflexivity|].
    split; [apply post_intro; simp_st; auto; lia|]. simp_st. splits; auto.
Qed.
