(* L2 (C05): what connect/resend and the persisted-publish path of Session.v put on the
   wire, in which order and with which DUP flag.  Proved for every client state with a
   genuine map-mode Persistence satisfying OInv' and every environment tape.
   Small definitions + proofs. *)
From Coq Require Import ZArith ZifyN ZifyNat ZifyBool Lia List.
From RecordUpdate Require Import RecordUpdate.
From MQ Require Import RecordProofs WriteLoopProofs Outbound OutboundInv OutboundRefine ConnectProofs.
Import ListNotations.
Ltac Zify.zify_post_hook ::= Z.div_mod_to_equations.

#[local] Arguments key1 : simpl never.
#[local] Arguments key2 : simpl never.
#[local] Arguments holds : simpl never.
#[local] Arguments len : simpl never.
#[local] Arguments encode_value : simpl never.
#[local] Arguments decode_value : simpl never.
#[local] Arguments pub1_packet : simpl never.
#[local] Arguments pub2_packet : simpl never.
#[local] Arguments packet_pubrel : simpl never.
#[local] Arguments publish_packet : simpl never.
#[local] Arguments publish_head_buf : simpl never.
#[local] Arguments connect_packet : simpl never.
#[local] Arguments topic_check : simpl never.
#[local] Arguments publish_size : simpl never.
#[local] Arguments N.max : simpl never.
#[local] Arguments write_to_run : simpl never.
#[local] Arguments write_buffers_to_run : simpl never.

(* ================================================================== *)
(* 0. One call of conn_write: the packet offered                       *)

Definition write_calls (cn : N) (calls : list wcall) : list req :=
  map (fun cl : wcall => QWrite cn (fst cl)) calls.

(* [wtr] are the conn.Write calls of ONE run of writeTo (single) / writeBuffersTo on
   connection cn that was handed the buffers [bufs] and ended with [r], under some
   answer tape.  This is what "the packet concat bufs was offered to the connection"
   means: the log itself shows Write arguments only, and after a partial write the
   argument is a suffix. *)
Definition offered (cn : N) (bufs : list (list N)) (single : bool) (r : wres) (wtr : list req) : Prop :=
  r <> WNoTape /\
  exists tape calls tape',
    (if single then write_to_run (concat bufs) tape else write_buffers_to_run bufs tape)
      = (calls, r, tape') /\
    wtr = write_calls cn calls.

Lemma conn_write_offered cn bufs single :
  lspec (conn_write cn bufs single) (fun r tr => offered cn bufs single r tr).
Proof.
  intros w r w' E. unfold conn_write in E.
  destruct (if single then _ else _) as [[calls r0] t'] eqn:W.
  exists (write_calls cn calls).
  destruct r0; inversion E; subst; (split; [reflexivity|]);
    (split; [discriminate|]); exists (t_wr w), calls, t'; (split; [exact W|reflexivity]).
Qed.

(* the weaker description used in ConnectProofs *)
Lemma offered_seg cn bufs single r wtr :
  offered cn bufs single r wtr -> write_seg cn (concat bufs) r wtr.
Proof.
  intros (_ & tape & calls & tape' & W & ->). exists calls. split; [reflexivity|].
  destruct single; [eapply write_to_prefix|eapply write_buffers_to_prefix]; exact W.
Qed.

Lemma offered_writes cn bufs single r wtr : offered cn bufs single r wtr -> Forall (is_write cn) wtr.
Proof. intros H. eapply write_seg_writes, offered_seg, H. Qed.

(* writeTo hands the whole packet to the first Write call *)
Lemma write_to_first f p tape cs r t :
  p <> [] -> write_to (S f) p tape = (cs, r, t) -> exists n rest, cs = (p, n) :: rest.
Proof.
  intros Hp W. destruct p as [|b p]; [congruence|]. cbn [write_to] in W.
  destruct tape as [|[n0 r0] t0].
  - inversion W; subst. eauto.
  - destruct r0; try (inversion W; subst; eauto; fail).
    destruct (N.min n0 (len (b :: p)) =? 0).
    + inversion W; subst. eauto.
    + destruct (write_to f _ _) as [[cs' res] t'']. inversion W; subst. eauto.
Qed.

Lemma offered_first cn p r wtr :
  p <> [] -> offered cn [p] true r wtr -> exists rest, wtr = QWrite cn p :: rest.
Proof.
  intros Hp (_ & tape & calls & tape' & W & ->). rewrite concat_single in W.
  unfold write_to_run in W. apply write_to_first in W as (n & rest & ->); [|exact Hp].
  eexists; reflexivity.
Qed.

(* a successful run transferred exactly the packet *)
Lemma offered_ok_all cn bufs single wtr :
  offered cn bufs single WOk wtr ->
  exists calls, wtr = write_calls cn calls /\ accepted_all calls = concat bufs.
Proof.
  intros H. apply offered_seg in H as (calls & -> & _ & H). exists calls. split; [reflexivity|auto].
Qed.

(* ================================================================== *)
(* 1. Triples over store and log together (map mode)                   *)

Definition wtrip {A} (m : store) (f : M A) (Q : A -> store -> list req -> Prop) : Prop :=
  forall w a w', w_store w = Some m -> f w = Some (a, w') ->
    exists m' tr, w_store w' = Some m' /\ grows w w' tr /\ Q a m' tr.

Lemma wtrip_of {A} m (f : M A) (P : A -> store -> Prop) (Q : A -> list req -> Prop) :
  trip m f P -> lspec f Q -> wtrip m f (fun a m' tr => P a m' /\ Q a tr).
Proof.
  intros HP HQ w a w' Hm E. destruct (HP _ _ _ Hm E) as (m' & Hm' & Pa).
  destruct (HQ _ _ _ E) as (tr & G & Qa). exists m', tr. auto.
Qed.

Lemma wtrip_ret {A} m (a : A) (Q : A -> store -> list req -> Prop) : Q a m [] -> wtrip m (ret a) Q.
Proof.
  intros H w b w' Hm E. apply ret_inv in E as [-> ->]. exists m, []. split; [exact Hm|].
  split; [apply grows_refl|exact H].
Qed.

Lemma wtrip_fail {A} m (Q : A -> store -> list req -> Prop) : wtrip m fail_tape Q.
Proof. intros w b w' _ E. discriminate. Qed.

Lemma wtrip_bind {A B} m (f : M A) (k : A -> M B) (P : A -> store -> list req -> Prop) Q :
  wtrip m f P ->
  (forall a m1 t1, P a m1 t1 -> wtrip m1 (k a) (fun b m2 t2 => Q b m2 (t1 ++ t2))) ->
  wtrip m (bind f k) Q.
Proof.
  intros Hf Hk w b w' Hm E. apply bind_inv in E as (a & w1 & E1 & E2).
  destruct (Hf _ _ _ Hm E1) as (m1 & t1 & Hm1 & G1 & P1).
  destruct (Hk _ _ _ P1 _ _ _ Hm1 E2) as (m2 & t2 & Hm2 & G2 & Q2).
  exists m2, (t1 ++ t2). split; [exact Hm2|]. split; [eapply grows_trans; eassumption|exact Q2].
Qed.

Lemma wtrip_conseq {A} m (f : M A) (P Q : A -> store -> list req -> Prop) :
  wtrip m f P -> (forall a m' t, P a m' t -> Q a m' t) -> wtrip m f Q.
Proof.
  intros Hf HPQ w a w' Hm E. destruct (Hf _ _ _ Hm E) as (m' & t & ? & ? & ?). eauto 6.
Qed.

(* the packet a genuine record under key k carries ([] if there is none) *)
Definition packet_at (m : store) (k : N) : list N :=
  match store_get m k with
  | Some raw => match decode_value raw with DecOk p _ => p | _ => [] end
  | None => []
  end.

(* the record under k is a genuine, non-empty one *)
Definition genuine_at (m : store) (k : N) : Prop :=
  exists p sq, holds m k p sq /\ sq < M64 /\ p <> [].

Lemma genuine_packet_at m k p sq : holds m k p sq -> sq < M64 -> packet_at m k = p.
Proof. unfold holds, packet_at. intros -> Hs. rewrite (decode_encode _ _ Hs). reflexivity. Qed.

(* ruggedPersistence.Load on a genuine record: the packet, or the injected failure *)
Lemma rugged_load_w m k :
  genuine_at m k ->
  wtrip m (rugged_load k) (fun l m' tr =>
    m' = m /\ tr = [QLoad k] /\ (l = inr E_store \/ l = inl (Some (packet_at m k)))).
Proof.
  intros (p & sq & Hh & Hs & _) w l w' Hm E.
  rewrite (genuine_packet_at _ _ _ _ Hh Hs).
  unfold rugged_load, bind, ask_store in E. rewrite Hm in E.
  destruct (t_stf w) as [|[|] t]; [discriminate| |].
  - apply ret_inv in E as [-> ->]. exists m, [QLoad k]. cbn. split; [exact Hm|]. split; [reflexivity|]. auto.
  - unfold holds in Hh. rewrite Hh, (decode_encode _ _ Hs) in E.
    apply ret_inv in E as [-> ->]. exists m, [QLoad k]. cbn. split; [exact Hm|]. split; [reflexivity|]. auto.
Qed.

(* ================================================================== *)
(* 2. resend                                                           *)

Definition key_of (space n : N) : N := N.lor (N.land n id_mask) space.

Lemma key_of_alo n : key_of alo_space n = key1 n. Proof. reflexivity. Qed.
Lemma key_of_eo n : key_of eo_space n = key2 n. Proof. reflexivity. Qed.

(* client.go resend: if seqNo < seq.submitN && packet[0]>>4 == typePUBLISH { packet[0] |= dupeFlag } *)
Definition set_dup (dup : bool) (p : list N) : list N :=
  match p with
  | h :: body => (if dup && (h / 16 =? 3) then N.lor h 8 else h) :: body
  | [] => []
  end.

(* what resend offers for sequence number n when the submit counter was sub0 at entry *)
Definition resend_packet (m : store) (space sub0 n : N) : list N :=
  set_dup (n <? sub0) (packet_at m (key_of space n)).

(* The submit counter resend holds when it is at sequence number k, having started at
   lo with the counter sub0: untouched at the first position, afterwards the successful
   writes have pushed it to at least k.  For lo <= sub0 this is max(sub0, k) throughout
   ([sub_at_max]). *)
Definition sub_at (sub0 lo k : N) : N := if k <=? lo then sub0 else N.max sub0 k.

Lemma sub_at_max sub0 lo k : lo <= sub0 -> lo <= k -> sub_at sub0 lo k = N.max sub0 k.
Proof. unfold sub_at. destruct (N.leb_spec k lo); lia. Qed.
Lemma sub_at_lo sub0 lo : sub_at sub0 lo lo = sub0.
Proof. unfold sub_at. rewrite N.leb_refl. reflexivity. Qed.

(* One run of resend on connection cn that started at sequence number lo with submit
   counter sub0, from sequence number n on: the calls made (oldest first), the submit
   counter it returns and its error.  [acc] is the accept counter. *)
Inductive resend_run (m : store) (cn space acc sub0 lo : N) : N -> list req -> N -> err -> Prop :=
| RR_end : forall n,
    acc <= n ->
    resend_run m cn space acc sub0 lo n [] (sub_at sub0 lo n) 0
| RR_load_failed : forall n,
    n < acc ->
    resend_run m cn space acc sub0 lo n [QLoad (key_of space n)] (sub_at sub0 lo n) E_store
| RR_write_failed : forall n r wtr,
    n < acc -> r <> WOk ->
    offered cn [resend_packet m space sub0 n] true r wtr ->
    resend_run m cn space acc sub0 lo n (QLoad (key_of space n) :: wtr) (sub_at sub0 lo n) (werr r)
| RR_next : forall n wtr rest s e,
    n < acc ->
    offered cn [resend_packet m space sub0 n] true WOk wtr ->
    resend_run m cn space acc sub0 lo (n + 1) rest s e ->
    resend_run m cn space acc sub0 lo n (QLoad (key_of space n) :: wtr ++ rest) s e.

(* the loop invariant: at n the running submit counter is sub_at sub0 lo n *)
Lemma resend_w m cn space acc sub0 lo fuel : forall seqno,
  lo <= seqno ->
  (N.to_nat (acc - seqno) < fuel)%nat ->
  (forall n, seqno <= n < acc -> genuine_at m (key_of space n)) ->
  wtrip m (resend fuel cn space seqno acc (sub_at sub0 lo seqno)) (fun p m' tr =>
    m' = m /\ resend_run m cn space acc sub0 lo seqno tr (fst p) (snd p)).
Proof.
  induction fuel as [|f IH]; intros seqno Hlo Hf Hg; [lia|]. cbn [resend].
  destruct (acc <=? seqno) eqn:E.
  { apply N.leb_le in E. apply wtrip_ret. split; [reflexivity|]. apply RR_end, E. }
  apply N.leb_gt in E. cbv zeta. fold (key_of space seqno).
  eapply wtrip_bind; [apply rugged_load_w, Hg; lia|].
  intros l m1 t1 (-> & -> & [-> | ->]).
  { apply wtrip_ret. split; [reflexivity|]. apply RR_load_failed, E. }
  destruct (Hg seqno ltac:(lia)) as (p & sq & Hh & Hs & Hp).
  pose proof (genuine_packet_at _ _ _ _ Hh Hs) as Epk.
  assert (Eoff : forall h body, packet_at m (key_of space seqno) = h :: body ->
            (if (seqno <? sub_at sub0 lo seqno) && (h / 16 =? 3) then N.lor h 8 else h) :: body
            = resend_packet m space sub0 seqno).
  { intros h body Eh. unfold resend_packet. rewrite Eh. cbn [set_dup].
    replace (seqno <? sub_at sub0 lo seqno) with (seqno <? sub0); [reflexivity|].
    unfold sub_at. destruct (N.leb_spec seqno lo); [reflexivity|].
    destruct (N.ltb_spec seqno sub0), (N.ltb_spec seqno (N.max sub0 seqno)); try reflexivity; lia. }
  destruct (packet_at m (key_of space seqno)) as [|h body] eqn:Eh; [congruence|].
  rewrite (Eoff h body eq_refl).
  eapply wtrip_bind.
  { apply (wtrip_of m _ _ _ (conn_write_keep m cn _ true) (conn_write_offered cn _ true)). }
  cbv beta. intros r m1 wtr [-> Hw].
  assert (Hbad : r <> WOk ->
    wtrip m (ret (sub_at sub0 lo seqno, werr r)) (fun p m2 t2 =>
      m2 = m /\ resend_run m cn space acc sub0 lo seqno ([QLoad (key_of space seqno)] ++ wtr ++ t2) (fst p) (snd p))).
  { intros Hn. apply wtrip_ret. split; [reflexivity|]. rewrite app_nil_r. cbn [app fst snd].
    apply RR_write_failed; assumption. }
  destruct r; try (apply Hbad; discriminate). clear Hbad.
  replace (if sub_at sub0 lo seqno <=? seqno then seqno + 1 else sub_at sub0 lo seqno)
    with (sub_at sub0 lo (seqno + 1)).
  2:{ unfold sub_at. destruct (N.leb_spec (seqno + 1) lo); [lia|].
      destruct (N.leb_spec seqno lo).
      - destruct (N.leb_spec sub0 seqno); lia.
      - destruct (N.leb_spec (N.max sub0 seqno) seqno); lia. }
  eapply wtrip_conseq; [apply IH|].
  - lia.
  - lia.
  - intros n Hn. apply Hg. lia.
  - cbv beta. intros [s e] m2 t2 [-> Hr]. split; [reflexivity|]. cbn [fst snd app] in *.
    apply RR_next; assumption.
Qed.

Lemma resend_w0 m cn space acc subm fuel seqno :
  (N.to_nat (acc - seqno) < fuel)%nat ->
  (forall n, seqno <= n < acc -> genuine_at m (key_of space n)) ->
  wtrip m (resend fuel cn space seqno acc subm) (fun p m' tr =>
    m' = m /\ resend_run m cn space acc subm seqno seqno tr (fst p) (snd p)).
Proof.
  intros Hf Hg. rewrite <- (sub_at_lo subm seqno) at 1. apply resend_w; [lia|exact Hf|exact Hg].
Qed.

(* 1. resend_writes: for any fuel that covers the window (connect passes
   S (acc - seqno)) *)
Theorem resend_writes m cn space fuel seqno acc subm w s e w' :
  w_store w = Some m ->
  (N.to_nat (acc - seqno) < fuel)%nat ->
  (forall n, seqno <= n < acc -> genuine_at m (key_of space n)) ->
  resend fuel cn space seqno acc subm w = Some ((s, e), w') ->
  w_store w' = Some m /\
  exists tr, grows w w' tr /\ resend_run m cn space acc subm seqno seqno tr s e.
Proof.
  intros Hm Hf Hg E.
  destruct (resend_w0 m cn space acc subm fuel seqno Hf Hg _ _ _ Hm E) as (m' & tr & Hm' & G & -> & Hr).
  split; [exact Hm'|]. exists tr. split; [exact G|exact Hr].
Qed.

(* ---- what a run returns ---- *)

Lemma E_store_nz : E_store <> 0. Proof. discriminate. Qed.

(* success: every sequence number up to the accept counter was written, the submit
   counter has caught up *)
Theorem resend_run_ok m cn space acc sub0 lo n tr s :
  resend_run m cn space acc sub0 lo n tr s 0 -> s = sub_at sub0 lo (N.max n acc).
Proof.
  remember 0 as e eqn:He. induction 1 as [n Hn|n Hn|n r wtr Hn Hr Ho|n wtr rest s e Hn Ho Hrun IH].
  - f_equal. lia.
  - discriminate.
  - exfalso. exact (werr_nz r He).
  - rewrite (IH He). f_equal. lia.
Qed.

(* failure: it stopped at some k of the window, k itself not counted as submitted *)
Theorem resend_run_failed m cn space acc sub0 lo n tr s e :
  resend_run m cn space acc sub0 lo n tr s e -> e <> 0 ->
  exists k, n <= k < acc /\ s = sub_at sub0 lo k.
Proof.
  induction 1 as [n Hn|n Hn|n r wtr Hn Hr Ho|n wtr rest s e Hn Ho Hrun IH]; intros He.
  - congruence.
  - exists n. split; [lia|reflexivity].
  - exists n. split; [lia|reflexivity].
  - destruct (IH He) as (k & Hk & ->). exists k. split; [lia|reflexivity].
Qed.

(* in both cases the counter did not go back and did not pass the accept counter *)
Lemma resend_run_bounds m cn space acc sub0 lo n tr s e :
  resend_run m cn space acc sub0 lo n tr s e -> lo <= n -> sub0 <= s <= N.max sub0 (N.max n acc).
Proof.
  intros H Hlo. destruct (N.eq_dec e 0) as [->|He].
  - rewrite (resend_run_ok _ _ _ _ _ _ _ _ _ H). unfold sub_at. destruct (_ <=? _); lia.
  - destruct (resend_run_failed _ _ _ _ _ _ _ _ _ _ H He) as (k & Hk & ->).
    unfold sub_at. destruct (_ <=? _); lia.
Qed.

(* the calls are Loads and Writes on cn only *)
Lemma resend_run_only m cn space acc sub0 lo n tr s e :
  resend_run m cn space acc sub0 lo n tr s e -> Forall (is_resend cn) tr.
Proof.
  induction 1 as [n Hn|n Hn|n r wtr Hn Hr Ho|n wtr rest s e Hn Ho Hrun IH].
  - constructor.
  - constructor; [left; eexists; reflexivity|constructor].
  - constructor; [left; eexists; reflexivity|].
    eapply Forall_impl; [|eapply offered_writes, Ho]. intros q Hq. right. exact Hq.
  - constructor; [left; eexists; reflexivity|]. apply Forall_app. split; [|exact IH].
    eapply Forall_impl; [|eapply offered_writes, Ho]. intros q Hq. right. exact Hq.
Qed.

(* The offers of a run as a list: (sequence number, result), in order.  The packet of
   each is [resend_packet m space sub0 n]. *)
Inductive run_offers (m : store) (cn space acc sub0 : N) : N -> list req -> list (N * wres) -> Prop :=
| RO_end : forall n, acc <= n -> run_offers m cn space acc sub0 n [] []
| RO_load_failed : forall n, n < acc -> run_offers m cn space acc sub0 n [QLoad (key_of space n)] []
| RO_write_failed : forall n r wtr, n < acc -> r <> WOk ->
    offered cn [resend_packet m space sub0 n] true r wtr ->
    run_offers m cn space acc sub0 n (QLoad (key_of space n) :: wtr) [(n, r)]
| RO_next : forall n wtr rest os, n < acc ->
    offered cn [resend_packet m space sub0 n] true WOk wtr ->
    run_offers m cn space acc sub0 (n + 1) rest os ->
    run_offers m cn space acc sub0 n (QLoad (key_of space n) :: wtr ++ rest) ((n, WOk) :: os).

Lemma resend_run_offers m cn space acc sub0 lo n tr s e :
  resend_run m cn space acc sub0 lo n tr s e -> exists os, run_offers m cn space acc sub0 n tr os.
Proof.
  induction 1 as [n Hn|n Hn|n r wtr Hn Hr Ho|n wtr rest s e Hn Ho Hrun [os IH]].
  - exists []. apply RO_end, Hn.
  - exists []. apply RO_load_failed, Hn.
  - exists [(n, r)]. apply RO_write_failed; assumption.
  - exists ((n, WOk) :: os). apply RO_next; assumption.
Qed.

Fixpoint seq_from (n : N) (cnt : nat) : list N :=
  match cnt with O => [] | S c => n :: seq_from (n + 1) c end.

Lemma seq_from_length n cnt : length (seq_from n cnt) = cnt.
Proof. revert n; induction cnt; intros; cbn; auto. Qed.

Lemma seq_from_nth n cnt i : (i < cnt)%nat -> nth i (seq_from n cnt) 0 = n + N.of_nat i.
Proof.
  revert n i; induction cnt as [|c IH]; intros n i Hi; [lia|].
  destruct i as [|i]; cbn [seq_from nth]; [lia|]. rewrite IH by lia. lia.
Qed.

(* the sequence numbers offered are n, n+1, ... without a gap, inside the window; all
   offers but the last were transferred completely *)
Theorem run_offers_consecutive m cn space acc sub0 n tr os :
  run_offers m cn space acc sub0 n tr os ->
  map fst os = seq_from n (length os) /\ n + N.of_nat (length os) <= N.max n acc /\
  Forall (fun o => snd o = WOk) (removelast os).
Proof.
  induction 1 as [n Hn|n Hn|n r wtr Hn Hr Ho|n wtr rest os Hn Ho Hrun (IH1 & IH2 & IH3)].
  - split; [reflexivity|]. split; [cbn; lia|constructor].
  - split; [reflexivity|]. split; [cbn; lia|constructor].
  - split; [reflexivity|]. split; [cbn; lia|constructor].
  - split; [cbn [map fst length seq_from]; rewrite IH1; reflexivity|].
    split; [cbn [length]; lia|].
    destruct os as [|o os]; [constructor|].
    change (removelast ((n, WOk) :: o :: os)) with ((n, WOk) :: removelast (o :: os)).
    constructor; [reflexivity|exact IH3].
Qed.

(* ================================================================== *)
(* 3. The records of the window under OInv'                            *)

Lemma pub1_nonempty retain topic msg n : pub1_packet retain topic msg n <> [].
Proof. unfold pub1_packet, publish_packet, publish_head_buf. discriminate. Qed.
Lemma pub2_nonempty retain topic msg n : pub2_packet retain topic msg n <> [].
Proof. unfold pub2_packet, publish_packet, publish_head_buf. discriminate. Qed.
Lemma pubrel_nonempty id : packet_pubrel id <> [].
Proof. unfold packet_pubrel, ack_packet. discriminate. Qed.

Section Window.
  Variables (c : client) (m : store).
  Hypothesis HI : OInv' (oproj c m).

  Let Hsto := oif_sto _ (proj1 HI).
  Let Hcnt := oif_cnt _ (proj1 HI).
  Let Hrs : k_rseq c < M64 := proj2 (proj2 HI).

  Lemma win_counters :
    k_acked c <= k_acc1 c /\ k_sub1 c <= k_acc1 c /\
    k_compl c <= k_recvd c /\ k_recvd c <= k_acc2 c /\ k_sub2 c <= k_acc2 c.
  Proof. destruct Hcnt as [[? ?] [? [? ?]] _ _ _ _ _ _]. cbn in *. auto. Qed.

  Lemma win_pub1 n : k_acked c <= n < k_acc1 c ->
    exists retain topic msg sq, holds m (key1 n) (pub1_packet retain topic msg n) sq /\ sq < M64.
  Proof.
    intros Hn. destruct (si_s1 _ _ _ _ _ _ _ Hsto n Hn) as (rt & tp & ms & sq & Hh & Hle).
    cbn in *. exists rt, tp, ms, sq. split; [exact Hh|lia].
  Qed.

  Lemma win_pubrel n : k_compl c <= n < k_recvd c ->
    exists sq, holds m (key2 n) (packet_pubrel (key2 n)) sq /\ sq < M64.
  Proof.
    intros Hn. destruct (si_s2r _ _ _ _ _ _ _ Hsto n Hn) as (sq & Hh & Hle).
    cbn in *. exists sq. split; [exact Hh|lia].
  Qed.

  Lemma win_pub2 n : k_recvd c <= n < k_acc2 c ->
    exists retain topic msg sq, holds m (key2 n) (pub2_packet retain topic msg n) sq /\ sq < M64.
  Proof.
    intros Hn. destruct (si_s2p _ _ _ _ _ _ _ Hsto n Hn) as (rt & tp & ms & sq & Hh & Hle).
    cbn in *. exists rt, tp, ms, sq. split; [exact Hh|lia].
  Qed.

  Lemma win_genuine1 n : k_acked c <= n < k_acc1 c -> genuine_at m (key_of alo_space n).
  Proof.
    intros Hn. destruct (win_pub1 n Hn) as (rt & tp & ms & sq & Hh & Hs).
    exists (pub1_packet rt tp ms n), sq. split; [exact Hh|]. split; [exact Hs|apply pub1_nonempty].
  Qed.

  Lemma win_genuine2 n : k_compl c <= n < k_acc2 c -> genuine_at m (key_of eo_space n).
  Proof.
    intros Hn. destruct (N.lt_ge_cases n (k_recvd c)) as [Hlt|Hge].
    - destruct (win_pubrel n ltac:(lia)) as (sq & Hh & Hs).
      exists (packet_pubrel (key2 n)), sq. split; [exact Hh|]. split; [exact Hs|apply pubrel_nonempty].
    - destruct (win_pub2 n ltac:(lia)) as (rt & tp & ms & sq & Hh & Hs).
      exists (pub2_packet rt tp ms n), sq. split; [exact Hh|]. split; [exact Hs|apply pub2_nonempty].
  Qed.
End Window.

(* the stored PUBLISH with the DUP bit of the head byte set or not *)
Lemma set_dup_publish level retain dup topic msg pid : level = 1 \/ level = 2 ->
  set_dup dup (publish_packet (head_publish level retain false) topic msg pid)
  = publish_packet (head_publish level retain dup) topic msg pid.
Proof.
  intros Hl. unfold publish_packet, publish_head_buf. cbn [app set_dup]. f_equal.
  destruct Hl as [-> | ->], retain, dup; reflexivity.
Qed.

Lemma set_dup_pubrel dup id : set_dup dup (packet_pubrel id) = packet_pubrel id.
Proof. unfold packet_pubrel, ack_packet. cbn [set_dup]. rewrite andb_false_r. reflexivity. Qed.

(* what resend offers for n: level 1 *)
Theorem resend_packet_pub1 m sub0 n retain topic msg sq :
  holds m (key1 n) (pub1_packet retain topic msg n) sq -> sq < M64 ->
  resend_packet m alo_space sub0 n
  = publish_packet (head_publish 1 retain (n <? sub0)) topic msg (key1 n).
Proof.
  intros Hh Hs. unfold resend_packet. rewrite key_of_alo, (genuine_packet_at _ _ _ _ Hh Hs).
  apply set_dup_publish. auto.
Qed.

(* level 2, not yet received by the broker: the PUBLISH *)
Theorem resend_packet_pub2 m sub0 n retain topic msg sq :
  holds m (key2 n) (pub2_packet retain topic msg n) sq -> sq < M64 ->
  resend_packet m eo_space sub0 n
  = publish_packet (head_publish 2 retain (n <? sub0)) topic msg (key2 n).
Proof.
  intros Hh Hs. unfold resend_packet. rewrite key_of_eo, (genuine_packet_at _ _ _ _ Hh Hs).
  apply set_dup_publish. auto.
Qed.

(* level 2, PUBREC seen: the PUBREL as stored, never a DUP bit *)
Theorem resend_packet_pubrel m sub0 n sq :
  holds m (key2 n) (packet_pubrel (key2 n)) sq -> sq < M64 ->
  resend_packet m eo_space sub0 n = packet_pubrel (key2 n).
Proof.
  intros Hh Hs. unfold resend_packet. rewrite key_of_eo, (genuine_packet_at _ _ _ _ Hh Hs).
  apply set_dup_pubrel.
Qed.

(* bit 3 of the first byte *)
Definition dup_bit (p : list N) : bool := N.testbit (head_of p) 3.

Lemma dup_bit_publish level retain dup topic msg pid : level = 1 \/ level = 2 ->
  dup_bit (publish_packet (head_publish level retain dup) topic msg pid) = dup.
Proof.
  intros Hl. unfold publish_packet, publish_head_buf, dup_bit. cbn [app head_of].
  destruct Hl as [-> | ->], retain, dup; reflexivity.
Qed.

(* ================================================================== *)
(* 4. connect                                                          *)

Lemma lspec_and {A} (f : M A) (P Q : A -> list req -> Prop) :
  lspec f P -> lspec f Q -> lspec f (fun a tr => P a tr /\ Q a tr).
Proof.
  intros HP HQ w a w' E. destruct (HP _ _ _ E) as (t1 & G1 & P1), (HQ _ _ _ E) as (t2 & G2 & Q2).
  rewrite (grows_det _ _ _ _ G2 G1) in Q2. eauto.
Qed.

(* the handshake: the CONNECT packet is offered, then (only if it went out) reads *)
Definition hs_run (c : client) (cn : N) (clean : bool) (cid : list N)
           (c' : client) (h : hs_result) (tr : list req) : Prop :=
  hp c' = hp c /\
  exists r wtr rtr, tr = wtr ++ rtr /\
    offered cn [connect_packet (hs_cfg c clean) cid] true r wtr /\ Forall (is_read cn) rtr /\
    (r <> WOk -> rtr = [] /\ h = HsErr (werr r)) /\
    (h = HsOk -> r = WOk /\ k_rconn c' = Some cn) /\
    (forall e, h = HsErr e -> e <> 0).

Lemma handshake_run c cn clean cid :
  lspec (handshake c cn clean cid) (fun p tr => hs_run c cn clean cid (fst p) (snd p) tr).
Proof.
  unfold handshake. cbv zeta. fold (hs_cfg c clean).
  eapply lspec_bind; [apply conn_write_offered|]. intros r wtr Hw.
  assert (Hr : r <> WNoTape) by (destruct Hw; assumption).
  assert (Hbad : r <> WOk ->
    lspec (ret (c, HsErr (werr r)))
          (fun p t2 => hs_run c cn clean cid (fst p) (snd p) (wtr ++ t2))).
  { intros Hn. apply lspec_ret. split; [reflexivity|]. exists r, wtr, [].
    split; [reflexivity|]. split; [exact Hw|]. split; [constructor|].
    split; [auto|]. split; [discriminate|]. intros e He. inversion He. apply werr_nz. }
  destruct r; try (apply Hbad; discriminate). clear Hbad.
  eapply lspec_bind; [apply with_reader_spec|].
  intros [c1 [p e]] rtr [Hrd (s0 & s & _ & Hc1)]. cbn [fst snd] in Hc1, Hrd. subst c1.
  change (conn_of _) with cn in Hrd.
  assert (Hfin : forall c' h, hp c' = hp c -> (h = HsOk -> k_rconn c' = Some cn) ->
            (forall e0, h = HsErr e0 -> e0 <> 0) ->
            lspec (ret (c', h)) (fun p t2 => hs_run c cn clean cid (fst p) (snd p) (wtr ++ rtr ++ t2))).
  { intros c' h H1 H2 H3. apply lspec_ret. split; [exact H1|]. exists WOk, wtr, rtr.
    rewrite app_nil_r. split; [reflexivity|]. split; [exact Hw|]. split; [exact Hrd|].
    split; [intros X; exfalso; apply X; reflexivity|].
    split; [intros Hh; split; [reflexivity|exact (H2 Hh)]|exact H3]. }
  cbv zeta.
  destruct e as [[]|]; try apply lspec_fail;
  match goal with |- context [if ?b then _ else _] => destruct b end;
    try (apply Hfin; [reflexivity|discriminate|intros e0 He0; inversion He0; discriminate]).
  destruct p as [|a [|b [|fl [|code [|]]]]]; try apply lspec_fail.
  destruct (negb (code =? 0));
    [apply Hfin; [reflexivity|discriminate|intros e0 He0; inversion He0; discriminate]|].
  destruct (fl =? 0); [apply Hfin; [reflexivity|reflexivity|discriminate]|].
  destruct (fl =? 1); [|apply Hfin; [reflexivity|discriminate|intros e0 He0; inversion He0; discriminate]].
  destruct clean; apply Hfin; try reflexivity; try discriminate.
  intros e0 He0; inversion He0; discriminate.
Qed.

(* ruggedPersistence.Load of any key in map mode *)
Lemma rugged_load_any m k :
  wtrip m (rugged_load k) (fun l m' tr =>
    m' = m /\ tr = [QLoad k] /\
    match l with inr e => e <> 0 | inl v => cid_of v = packet_at m k end).
Proof.
  intros w l w' Hm E. unfold packet_at.
  unfold rugged_load, bind, ask_store in E. rewrite Hm in E.
  destruct (t_stf w) as [|[|] t]; [discriminate| |].
  - apply ret_inv in E as [-> ->]. exists m, [QLoad k]. cbn. split; [exact Hm|]. split; [reflexivity|].
    repeat split. discriminate.
  - destruct (store_get m k) as [raw|].
    + destruct (decode_value raw) eqn:D; apply ret_inv in E as [-> ->]; exists m, [QLoad k]; cbn;
        (split; [exact Hm|]); (split; [reflexivity|]); repeat split; try discriminate.
    + apply ret_inv in E as [-> ->]. exists m, [QLoad k]. cbn. split; [exact Hm|]. split; [reflexivity|].
      repeat split.
Qed.

(* The calls of one connect (oldest first) and its outcome, for a client whose
   Persistence is the map m.  cn = k_nconn c is the connection the Dialer hands out;
   the client identifier is the packet of the record under key 0. *)
Definition connect_pkt (c : client) (m : store) : list N :=
  connect_packet (hs_cfg c (clean_requested c)) (packet_at m 0).

Inductive connect_run (c : client) (m : store) (c' : client) (e : err) : list req -> Prop :=
| CR_closed :
    k_closed c = true -> c' = c -> e = E_closed -> connect_run c m c' e []
| CR_load :
    k_closed c = false -> e <> 0 -> k_wsem c' = WsDown -> cp c' = cp c ->
    connect_run c m c' e [QLoad 0]
| CR_dial :
    k_closed c = false -> e = E_dial -> k_wsem c' = WsDown -> cp c' = cp c ->
    connect_run c m c' e [QLoad 0; QDial]
| CR_handshake : forall r wtr rtr,
    k_closed c = false -> e <> 0 ->
    offered (k_nconn c) [connect_pkt c m] true r wtr ->
    Forall (is_read (k_nconn c)) rtr -> (r <> WOk -> rtr = [] /\ e = werr r) ->
    k_wsem c' = WsDown -> cp c' = cp c ->
    connect_run c m c' e (QLoad 0 :: QDial :: wtr ++ rtr ++ [QClose (k_nconn c)])
| CR_resend1 : forall wtr rtr rs1 s1,
    k_closed c = false -> e <> 0 ->
    offered (k_nconn c) [connect_pkt c m] true WOk wtr ->
    Forall (is_read (k_nconn c)) rtr ->
    resend_run m (k_nconn c) alo_space (k_acc1 c) (k_sub1 c) (k_acked c) (k_acked c) rs1 s1 e ->
    k_wsem c' = WsDown -> cp c' = cp (c <| k_sub1 := s1 |>) ->
    connect_run c m c' e (QLoad 0 :: QDial :: wtr ++ rtr ++ rs1 ++ [QClose (k_nconn c)])
| CR_resend2 : forall wtr rtr rs1 rs2 s1 s2,
    k_closed c = false -> e <> 0 ->
    offered (k_nconn c) [connect_pkt c m] true WOk wtr ->
    Forall (is_read (k_nconn c)) rtr ->
    resend_run m (k_nconn c) alo_space (k_acc1 c) (k_sub1 c) (k_acked c) (k_acked c) rs1 s1 0 ->
    resend_run m (k_nconn c) eo_space (k_acc2 c) (k_sub2 c) (k_compl c) (k_compl c) rs2 s2 e ->
    k_wsem c' = WsDown -> cp c' = cp (c <| k_sub1 := s1 |> <| k_sub2 := s2 |>) ->
    connect_run c m c' e (QLoad 0 :: QDial :: wtr ++ rtr ++ rs1 ++ rs2 ++ [QClose (k_nconn c)])
| CR_online : forall wtr rtr rs1 rs2 s1 s2,
    k_closed c = false -> e = 0 ->
    offered (k_nconn c) [connect_pkt c m] true WOk wtr ->
    Forall (is_read (k_nconn c)) rtr ->
    resend_run m (k_nconn c) alo_space (k_acc1 c) (k_sub1 c) (k_acked c) (k_acked c) rs1 s1 0 ->
    resend_run m (k_nconn c) eo_space (k_acc2 c) (k_sub2 c) (k_compl c) (k_compl c) rs2 s2 0 ->
    k_wsem c' = WsConn (k_nconn c) -> k_nconn c' = k_nconn c + 1 ->
    cp c' = cp (c <| k_sub1 := s1 |> <| k_sub2 := s2 |>) ->
    connect_run c m c' e (QLoad 0 :: QDial :: wtr ++ rtr ++ rs1 ++ rs2).

Lemma wtrip_keep_l {A} m (f : M A) (Q : A -> list req -> Prop) :
  keep m f -> lspec f Q -> wtrip m f (fun a m' tr => m' = m /\ Q a tr).
Proof. intros H1 H2. apply (wtrip_of m f _ _ H1 H2). Qed.

Lemma cp_rl_down c0 c e : cp c0 = cp c -> cp (release_locked (c0 <| k_wsem := WsDown |>) e) = cp c.
Proof. intros H. rewrite cp_release_locked. exact H. Qed.

Theorem connect_w c m :
  OInv' (oproj c m) ->
  wtrip m (connect c) (fun p m' tr => m' = m /\ connect_run c m (fst p) (snd p) tr).
Proof.
  intros HI. unfold connect. destruct (k_closed c) eqn:CL.
  { apply wtrip_ret. split; [reflexivity|]. apply CR_closed; auto. }
  cbv zeta. fold (clean_requested c).
  eapply wtrip_bind; [apply rugged_load_any|]. intros l m1 t1 (-> & -> & Hl).
  destruct l as [cidv|e0].
  2:{ apply wtrip_ret. split; [reflexivity|]. cbn [fst snd app].
      apply CR_load; auto. rewrite rl_wsem. reflexivity. apply cp_rl_down. reflexivity. }
  fold (cid_of cidv). rewrite Hl. clear Hl cidv.
  eapply wtrip_bind; [apply (wtrip_keep_l m _ _ (ask_dial_keep m) ask_dial_spec)|].
  cbv beta. intros ok m1 t1 (-> & ->).
  destruct ok; cbn [negb].
  2:{ apply wtrip_ret. split; [reflexivity|]. cbn [fst snd app].
      apply CR_dial; auto. rewrite rl_wsem. reflexivity. apply cp_rl_down. reflexivity. }
  eapply wtrip_bind.
  { apply (wtrip_of m _ _ _ (handshake_k _ m _ _ _) (handshake_run _ _ _ _)). }
  cbv beta. intros [c2 h] m1 t2 [[Hcp ->] [Hp (r & wtr & rtr & -> & Hw & Hrd & Hbad & Hok & Hnz)]].
  cbn [fst snd] in Hcp, Hp, Hbad, Hok, Hnz.
  change (hs_cfg (c <| k_nconn := k_nconn c + 1 |>) (clean_requested c))
    with (hs_cfg c (clean_requested c)) in Hw.
  fold (connect_pkt c m) in Hw.
  change (cp c2 = cp c) in Hcp.
  pose proof Hcp as Hf. apply cp_fields in Hf.
  destruct Hf as (F1 & F2 & F3 & F4 & F5 & F6 & F7 & F8 & F9 & F10 & F11 & F12 & F13).
  apply hp_fields in Hp as (_ & _ & _ & _ & Hnc & _ & _ & _ & _).
  change (k_nconn c2 = k_nconn c + 1) in Hnc.
  destruct h as [|eh].
  2:{ eapply wtrip_bind; [apply (wtrip_keep_l m _ _ (tell_keep m _) (tell_spec _))|].
      cbv beta. intros _ m1 t3 (-> & ->). apply wtrip_ret. split; [reflexivity|].
      cbn [fst snd]. rewrite ?app_nil_r.
      cbn [app]; rewrite <- ?app_assoc.
      apply CR_handshake with (r := r).
      - exact CL.
      - apply (Hnz eh eq_refl).
      - exact Hw.
      - exact Hrd.
      - intros Hn. destruct (Hbad Hn) as [? He]. inversion He. auto.
      - rewrite rl_wsem. reflexivity.
      - rewrite cp_release_locked. exact Hcp. }
  destruct (Hok eq_refl) as [-> Hrc]. clear Hbad Hok Hnz.
  cbv zeta.
  pose proof (win_counters c m HI) as (C1 & C2 & C3 & C4 & C5).
  (* level 1 *)
  change (k_acc1 (c2 <| k_csem := Some (k_nconn c) |>)) with (k_acc1 c2).
  change (k_acked (c2 <| k_csem := Some (k_nconn c) |>)) with (k_acked c2).
  change (k_sub1 (c2 <| k_csem := Some (k_nconn c) |>)) with (k_sub1 c2).
  rewrite F5, F6, F7.
  eapply wtrip_bind.
  { apply resend_w0; [lia|]. intros n Hn. apply (win_genuine1 c m HI n Hn). }
  cbv beta. intros [s1 e1] m1 rs1 [-> Hr1]. cbn [fst snd] in Hr1.
  destruct (negb (e1 =? 0)) eqn:E1.
  { eapply wtrip_bind; [apply (wtrip_keep_l m _ _ (tell_keep m _) (tell_spec _))|].
    cbv beta. intros _ m1 t3 (-> & ->). apply wtrip_ret. split; [reflexivity|].
    cbn [fst snd]. rewrite ?app_nil_r.
    cbn [app]; rewrite <- ?app_assoc.
    apply CR_resend1 with (s1 := s1).
    - exact CL.
    - apply negb_eqb_nz, E1.
    - exact Hw.
    - exact Hrd.
    - exact Hr1.
    - rewrite rl_wsem. reflexivity.
    - rewrite cp_release_locked. unfold cp; cbn. congruence. }
  apply negb_eqb_z in E1. subst e1.
  (* level 2 *)
  match goal with |- context [resend _ _ eo_space (k_compl ?x) (k_acc2 ?x) (k_sub2 ?x)] =>
    change (k_compl x) with (k_compl c2); change (k_acc2 x) with (k_acc2 c2);
    change (k_sub2 x) with (k_sub2 c2) end.
  rewrite F8, F9, F11.
  eapply wtrip_bind.
  { apply resend_w0; [lia|]. intros n Hn. apply (win_genuine2 c m HI n Hn). }
  cbv beta. intros [s2 e2] m1 rs2 [-> Hr2]. cbn [fst snd] in Hr2.
  destruct (negb (e2 =? 0)) eqn:E2.
  { eapply wtrip_bind; [apply (wtrip_keep_l m _ _ (tell_keep m _) (tell_spec _))|].
    cbv beta. intros _ m1 t3 (-> & ->). apply wtrip_ret. split; [reflexivity|].
    cbn [fst snd]. rewrite ?app_nil_r.
    cbn [app]; rewrite <- ?app_assoc.
    apply CR_resend2 with (s1 := s1) (s2 := s2).
    - exact CL.
    - apply negb_eqb_nz, E2.
    - exact Hw.
    - exact Hrd.
    - exact Hr1.
    - exact Hr2.
    - rewrite rl_wsem. reflexivity.
    - rewrite cp_release_locked. unfold cp; cbn. congruence. }
  apply negb_eqb_z in E2. subst e2.
  match goal with |- context [if ?b then _ else _] => destruct b end; [apply wtrip_fail|].
  apply wtrip_ret. split; [reflexivity|]. cbn [fst snd]. rewrite ?app_nil_r.
  cbn [app]; rewrite <- ?app_assoc.
  apply CR_online with (s1 := s1) (s2 := s2).
  - exact CL.
  - reflexivity.
  - exact Hw.
  - exact Hrd.
  - exact Hr1.
  - exact Hr2.
  - reflexivity.
  - exact Hnc.
  - unfold cp; cbn. congruence.
Qed.

(* 2. connect_order *)
Theorem connect_order c m w c' e w' :
  w_store w = Some m -> OInv' (oproj c m) ->
  connect c w = Some ((c', e), w') ->
  w_store w' = Some m /\ exists tr, grows w w' tr /\ connect_run c m c' e tr.
Proof.
  intros Hm HI E. destruct (connect_w c m HI _ _ _ Hm E) as (m' & tr & Hm' & G & -> & Hr).
  split; [exact Hm'|]. exists tr. split; [exact G|exact Hr].
Qed.

Definition no_write (q : req) : Prop := forall x bs, q <> QWrite x bs.
Definition write_on (cn : N) (q : req) : Prop := forall x bs, q = QWrite x bs -> x = cn.

Lemma no_write_on cn q : no_write q -> write_on cn q.
Proof. intros H x bs E. exfalso. exact (H x bs E). Qed.
Lemma is_write_on cn q : is_write cn q -> write_on cn q.
Proof. intros [bs ->] x bs' E. inversion E. reflexivity. Qed.
Lemma is_read_on cn cn' q : is_read cn' q -> write_on cn q.
Proof. intros (a & n & ->) x bs E. discriminate. Qed.
Lemma is_resend_on cn q : is_resend cn q -> write_on cn q.
Proof. intros [[k ->]|H]; [intros x bs E; discriminate|apply is_write_on, H]. Qed.

Lemma connect_packet_nonempty cf cid : connect_packet cf cid <> [].
Proof. unfold connect_packet. discriminate. Qed.

(* a connect that reports success: CONNECT, CONNACK reads, level 1, level 2, and only
   then the write token is released as WsConn cn *)
Theorem connect_ok_shape c m c' tr :
  connect_run c m c' 0 tr ->
  exists wtr rtr rs1 rs2 s1 s2,
    tr = QLoad 0 :: QDial :: wtr ++ rtr ++ rs1 ++ rs2 /\
    offered (k_nconn c) [connect_pkt c m] true WOk wtr /\
    Forall (is_read (k_nconn c)) rtr /\
    resend_run m (k_nconn c) alo_space (k_acc1 c) (k_sub1 c) (k_acked c) (k_acked c) rs1 s1 0 /\
    resend_run m (k_nconn c) eo_space (k_acc2 c) (k_sub2 c) (k_compl c) (k_compl c) rs2 s2 0 /\
    k_wsem c' = WsConn (k_nconn c) /\ k_nconn c' = k_nconn c + 1 /\
    cp c' = cp (c <| k_sub1 := s1 |> <| k_sub2 := s2 |>).
Proof.
  intros H. inversion H; subst; try discriminate; try congruence.
  exists wtr, rtr, rs1, rs2, s1, s2. repeat (split; [first [reflexivity|assumption]|]). assumption.
Qed.

(* a connect that fails leaves the write token Down: nothing can be written on the
   connection it dialed *)
Theorem connect_failed_down c m c' e tr :
  connect_run c m c' e tr -> e <> 0 -> k_closed c = false -> k_wsem c' = WsDown.
Proof. intros H He CL. inversion H; subst; congruence. Qed.

(* every write of the call is on the connection it dialed, and the first Write call of
   all carries the whole CONNECT packet *)
Theorem connect_first_write c m c' e tr :
  connect_run c m c' e tr ->
  Forall (write_on (k_nconn c)) tr /\
  (Forall no_write tr \/
   exists rest, tr = QLoad 0 :: QDial :: QWrite (k_nconn c) (connect_pkt c m) :: rest).
Proof.
  assert (Hq : forall q, (exists k, q = QLoad k) \/ q = QDial \/ (exists x, q = QClose x) -> no_write q).
  { intros q [[k ->]|[->|[x ->]]] y bs E; discriminate. }
  assert (Hoff : forall r wtr, offered (k_nconn c) [connect_pkt c m] true r wtr ->
            exists rest, wtr = QWrite (k_nconn c) (connect_pkt c m) :: rest).
  { intros r wtr Ho. apply offered_first in Ho; [exact Ho|apply connect_packet_nonempty]. }
  assert (Hrs : forall sp acc s0 lo n rs s e0,
            resend_run m (k_nconn c) sp acc s0 lo n rs s e0 -> Forall (write_on (k_nconn c)) rs).
  { intros. eapply Forall_impl; [|eapply resend_run_only; eassumption]. apply is_resend_on. }
  assert (Hrd : forall rtr, Forall (is_read (k_nconn c)) rtr -> Forall (write_on (k_nconn c)) rtr).
  { intros rtr H. eapply Forall_impl; [|exact H]. intros q. apply is_read_on. }
  assert (Hwr : forall r wtr, offered (k_nconn c) [connect_pkt c m] true r wtr ->
            Forall (write_on (k_nconn c)) wtr).
  { intros r wtr Ho. eapply Forall_impl; [|eapply offered_writes, Ho]. intros q. apply is_write_on. }
  assert (Hld : write_on (k_nconn c) (QLoad 0)) by (intros x bs E; discriminate).
  assert (Hdl : write_on (k_nconn c) QDial) by (intros x bs E; discriminate).
  assert (Hcl : Forall (write_on (k_nconn c)) [QClose (k_nconn c)])
    by (constructor; [intros x bs E; discriminate|constructor]).
  intros H. inversion H; subst.
  - split; [constructor|left; constructor].
  - split; [repeat constructor; assumption|].
    left. repeat constructor. apply Hq. left. eauto.
  - split; [repeat constructor; assumption|].
    left. repeat constructor; apply Hq; [left; eauto|right; left; reflexivity].
  - split.
    + constructor; [exact Hld|]. constructor; [exact Hdl|].
      rewrite !Forall_app. repeat split; eauto.
    + right. match goal with X : offered _ _ _ _ wtr |- _ => destruct (Hoff _ _ X) as (rest & ->) end.
      eexists. cbn [app]. reflexivity.
  - split.
    + constructor; [exact Hld|]. constructor; [exact Hdl|].
      rewrite !Forall_app. repeat split; eauto.
    + right. match goal with X : offered _ _ _ _ wtr |- _ => destruct (Hoff _ _ X) as (rest & ->) end.
      eexists. cbn [app]. reflexivity.
  - split.
    + constructor; [exact Hld|]. constructor; [exact Hdl|].
      rewrite !Forall_app. repeat split; eauto.
    + right. match goal with X : offered _ _ _ _ wtr |- _ => destruct (Hoff _ _ X) as (rest & ->) end.
      eexists. cbn [app]. reflexivity.
  - split.
    + constructor; [exact Hld|]. constructor; [exact Hdl|].
      rewrite !Forall_app. repeat split; eauto.
    + right. match goal with X : offered _ _ _ _ wtr |- _ => destruct (Hoff _ _ X) as (rest & ->) end.
      eexists. cbn [app]. reflexivity.
Qed.

(* ================================================================== *)
(* 5. The persisted publish: first transmission                        *)

(* writeNoWait / writeBuffersNoWait with the packet offered *)
Definition nowait_run (c : client) (bufs : list (list N)) (single : bool)
           (c' : client) (e : err) (tr : list req) : Prop :=
  (tr = [] /\ c' = c /\
   ((k_wsem c = WsClosed /\ e = E_closed)
    \/ ((k_wsem c = WsDown \/ k_wsem c = WsPending) /\ e = E_down)))
  \/ exists cn r wtr, k_wsem c = WsConn cn /\ offered cn bufs single r wtr /\
       ((r = WOk /\ tr = wtr /\ c' = c /\ e = E_nil)
        \/ (r <> WOk /\ tr = wtr ++ (match r with WClosed => [] | _ => [QClose cn] end) /\
            c' = c <| k_wsem := WsPending |> /\ e = E_submit r)).

Lemma nowait_write_run c bufs single :
  lspec (nowait_write c bufs single) (fun p tr => nowait_run c bufs single (fst p) (snd p) tr).
Proof.
  unfold nowait_write. destruct (k_wsem c) as [| |cn|] eqn:W.
  - apply lspec_ret. left. auto 10.
  - apply lspec_ret. left. auto 10.
  - unfold locked_write. eapply lspec_bind; [apply conn_write_offered|]. intros r wtr Hw.
    assert (Hr : r <> WNoTape) by (destruct Hw; assumption).
    destruct r; try (exfalso; apply Hr; reflexivity).
    + apply lspec_ret. right. exists cn, WOk, wtr. rewrite app_nil_r. split; [exact W|].
      split; [exact Hw|]. left. auto.
    + eapply lspec_bind; [apply tell_spec|]. intros _ t ->. apply lspec_ret.
      right. exists cn, WTimeout, wtr. rewrite app_nil_r. split; [exact W|]. split; [exact Hw|].
      right. split; [discriminate|]. auto.
    + eapply lspec_bind with (P := fun _ tr => tr = []); [apply lspec_ret; reflexivity|].
      intros _ t ->. apply lspec_ret.
      right. exists cn, WClosed, wtr. split; [exact W|]. split; [exact Hw|].
      right. split; [discriminate|]. auto.
    + eapply lspec_bind; [apply tell_spec|]. intros _ t ->. apply lspec_ret.
      right. exists cn, WHard, wtr. rewrite app_nil_r. split; [exact W|]. split; [exact Hw|].
      right. split; [discriminate|]. auto.
  - apply lspec_ret. left. auto 10.
Qed.

Definition lv_space (level : N) : N := if level =? 1 then alo_space else eo_space.
Definition lv_acc (level : N) (c : client) : N := if level =? 1 then k_acc1 c else k_acc2 c.
Definition lv_sub (level : N) (c : client) : N := if level =? 1 then k_sub1 c else k_sub2 c.
Definition lv_q (level : N) (c : client) : list N := if level =? 1 then k_q1 c else k_q2 c.

(* the bookkeeping of an accepted publish: storage counter, exchange, queue, accept counter *)
Definition accepted (level : N) (c : client) : client :=
  let c1 := c <| k_rseq := k_rseq c + 1 |> <| k_nextx ::= N.succ |> in
  if level =? 1 then c1 <| k_q1 ::= (fun q => q ++ [k_nextx c]) |> <| k_acc1 ::= N.succ |>
  else c1 <| k_q2 ::= (fun q => q ++ [k_nextx c]) |> <| k_acc2 ::= N.succ |>.
Definition submitted (level : N) (c : client) : client :=
  if level =? 1 then c <| k_sub1 := k_acc1 c |> else c <| k_sub2 := k_acc2 c |>.

Section Persisted.
  Variables (c : client) (m : store) (level : N) (retain : bool) (msg topic : list N).

  Definition pp_key : N := key_of (lv_space level) (lv_acc level c).
  Definition pp_head : list N := publish_head_buf (head_publish level retain false) topic msg pp_key.
  (* the packet: first transmission, DUP bit clear *)
  Definition pp_packet : list N := publish_packet (head_publish level retain false) topic msg pp_key.
  Definition pp_record : list N := encode_value pp_packet (k_rseq c + 1).
  Definition pp_x : N := k_nextx c.

  Lemma pp_packet_bufs : concat [pp_head; msg] = pp_packet.
  Proof. unfold pp_packet, publish_packet, pp_head. cbn [concat]. rewrite app_nil_r. reflexivity. Qed.

  (* One call of PublishAtLeastOnce / PublishExactlyOnce: outcome, new store, calls. *)
  Inductive persisted_run (c' : client) (r : retv) (m' : store) : list req -> Prop :=
  | PR_rejected : forall e,            (* denied, closed or queue full: nothing happened *)
      r = RetErr e -> e <> 0 -> c' = c -> m' = m ->
      persisted_run c' r m' []
  | PR_save_failed :
      r = RetErr E_store -> c' = c <| k_rseq := k_rseq c + 1 |> -> m' = m ->
      persisted_run c' r m' [QSave pp_key pp_record]
  | PR_backlog :                      (* older messages wait for a resend: enqueued only *)
      lv_sub level c < lv_acc level c ->
      r = RetExch pp_x -> c' = xsend (accepted level c) pp_x E_down ->
      m' = store_put m pp_key pp_record ->
      persisted_run c' r m' [QSave pp_key pp_record]
  | PR_offline : forall e,            (* no backlog, no connection *)
      lv_acc level c <= lv_sub level c ->
      (k_wsem c = WsClosed /\ e = E_closed \/ (k_wsem c = WsDown \/ k_wsem c = WsPending) /\ e = E_down) ->
      r = RetExch pp_x -> c' = xsend (accepted level c) pp_x e ->
      m' = store_put m pp_key pp_record ->
      persisted_run c' r m' [QSave pp_key pp_record]
  | PR_write_failed : forall cn wr wtr,   (* no backlog: offered, write failed: not counted *)
      lv_acc level c <= lv_sub level c -> k_wsem c = WsConn cn ->
      offered cn [pp_head; msg] false wr wtr -> wr <> WOk ->
      r = RetExch pp_x ->
      c' = xsend (accepted level c <| k_wsem := WsPending |>) pp_x (E_submit wr) ->
      m' = store_put m pp_key pp_record ->
      persisted_run c' r m'
        (QSave pp_key pp_record :: wtr ++ (match wr with WClosed => [] | _ => [QClose cn] end))
  | PR_sent : forall cn wtr,              (* no backlog: written, counted as submitted *)
      lv_acc level c <= lv_sub level c -> k_wsem c = WsConn cn ->
      offered cn [pp_head; msg] false WOk wtr ->
      r = RetExch pp_x -> c' = submitted level (accepted level c) ->
      m' = store_put m pp_key pp_record ->
      persisted_run c' r m' (QSave pp_key pp_record :: wtr).
End Persisted.

Lemma key_of_comm space n : N.lor space (N.land n id_mask) = key_of space n.
Proof. unfold key_of. apply N.lor_comm. Qed.

Theorem persisted_w c m level retain msg topic :
  level = 1 \/ level = 2 ->
  wtrip m (op_publish_persisted c level retain msg topic) (fun p m' tr =>
    persisted_run c m level retain msg topic (fst p) (snd p) m' tr).
Proof.
  intros Hl. unfold op_publish_persisted. cbv zeta.
  fold (lv_space level).
  assert (Hrej : forall e, e <> 0 ->
    wtrip m (ret (c, RetErr e)) (fun p m' tr =>
      persisted_run c m level retain msg topic (fst p) (snd p) m' tr)).
  { intros e He. apply wtrip_ret. cbn [fst snd]. apply (PR_rejected c m level retain msg topic c (RetErr e) m e); auto. }
  destruct (deny_of (topic_check topic)); [apply Hrej; discriminate|].
  destruct (packet_max <? _); [apply Hrej; discriminate|].
  destruct (k_seqclosed c); [apply Hrej; discriminate|].
  destruct (k_closed c); [apply Hrej; discriminate|].
  fold (lv_acc level c). fold (lv_sub level c). fold (lv_q level c).
  destruct (_ <=? len (lv_q level c)); [apply Hrej; discriminate|].
  rewrite key_of_comm. fold (pp_key c level).
  fold (pp_head c level retain msg topic).
  change (pp_head c level retain msg topic ++ msg) with (pp_packet c level retain msg topic).
  eapply wtrip_bind.
  { apply (wtrip_of m _ _ _ (rugged_save_trip m c _ _) (rugged_save_spec c _ _)). }
  cbv beta. fold (pp_record c level retain msg topic).
  intros [c1 ok] m1 t1 [[Hc Hs] [-> _]]. cbn [fst snd] in Hc, Hs. subst c1.
  destruct Hs as [[-> ->]|[-> ->]]; cbn [negb].
  2:{ apply wtrip_ret. cbn [fst snd app]. apply PR_save_failed; reflexivity. }
  destruct (lv_sub level c <? lv_acc level c) eqn:BL.
  { apply N.ltb_lt in BL. apply wtrip_ret. cbn [fst snd app].
    apply PR_backlog; [exact BL|reflexivity| |reflexivity].
    unfold accepted, pp_x. destruct Hl as [-> | ->]; reflexivity. }
  apply N.ltb_ge in BL.
  eapply wtrip_bind.
  { eapply wtrip_of; [apply nowait_write_k|apply nowait_write_run]. }
  cbv beta. intros [c2 e] m2 t2 [[_ ->] Hrun]. cbn [fst snd] in Hrun.
  match type of Hrun with nowait_run ?x _ _ _ _ _ => set (ca := x) in * end.
  assert (Eca : ca = accepted level c).
  { unfold ca, accepted. destruct Hl as [-> | ->]; reflexivity. }
  assert (Ews : k_wsem ca = k_wsem c).
  { unfold ca. destruct (level =? 1); reflexivity. }
  destruct Hrun as [(-> & -> & Hcase)|(cn & wr & wtr & Hw & Ho & Hcase)].
  - (* not connected *)
    replace (negb (e =? 0)) with true
      by (destruct Hcase as [[_ ->]|[_ ->]]; reflexivity).
    apply wtrip_ret. cbn [fst snd app]. rewrite Ews in Hcase.
    eapply PR_offline; [exact BL|exact Hcase|reflexivity|rewrite <- Eca; reflexivity|reflexivity].
  - rewrite Ews in Hw.
    destruct Hcase as [(-> & -> & -> & ->)|(Hn & -> & -> & ->)].
    + change (negb (E_nil =? 0)) with false. cbv iota.
      apply wtrip_ret. cbn [fst snd app]. rewrite app_nil_r.
      eapply PR_sent; [exact BL|exact Hw|exact Ho|reflexivity| |reflexivity].
      rewrite <- Eca. unfold submitted. destruct (level =? 1); reflexivity.
    + replace (negb (E_submit wr =? 0)) with true by (destruct wr; reflexivity).
      apply wtrip_ret. cbn [fst snd app]. rewrite app_nil_r.
      eapply PR_write_failed; [exact BL|exact Hw|exact Ho|exact Hn|reflexivity| |reflexivity].
      rewrite <- Eca. reflexivity.
Qed.

(* 3. first_transmission_no_dup *)
Theorem first_transmission c m level retain msg topic w c' r w' :
  w_store w = Some m -> level = 1 \/ level = 2 ->
  op_publish_persisted c level retain msg topic w = Some ((c', r), w') ->
  exists m' tr, w_store w' = Some m' /\ grows w w' tr /\
                persisted_run c m level retain msg topic c' r m' tr.
Proof. intros Hm Hl E. exact (persisted_w c m level retain msg topic Hl _ _ _ Hm E). Qed.

(* the packet of a first transmission never carries DUP ... *)
Theorem pp_packet_no_dup c level retain msg topic : level = 1 \/ level = 2 ->
  dup_bit (pp_packet c level retain msg topic) = false.
Proof. intros Hl. apply dup_bit_publish, Hl. Qed.

(* ... and is byte for byte the packet of the record saved just before *)
Theorem pp_saved_is_offered c m level retain msg topic : k_rseq c + 1 < M64 ->
  packet_at (store_put m (pp_key c level) (pp_record c level retain msg topic)) (pp_key c level)
  = concat [pp_head c level retain msg topic; msg].
Proof.
  intros Hs. rewrite pp_packet_bufs. eapply genuine_packet_at; [|exact Hs].
  unfold pp_record. apply holds_put_same.
Qed.

(* the saved record is what OInv' expects under the key of the accept counter *)
Lemma pp_packet_level1 c retain msg topic :
  pp_packet c 1 retain msg topic = pub1_packet retain topic msg (k_acc1 c).
Proof. reflexivity. Qed.
Lemma pp_packet_level2 c retain msg topic :
  pp_packet c 2 retain msg topic = pub2_packet retain topic msg (k_acc2 c).
Proof. reflexivity. Qed.

Lemma no_write_save k v : no_write (QSave k v). Proof. intros x bs E. discriminate. Qed.
Lemma no_write_close x : no_write (QClose x). Proof. intros y bs E. discriminate. Qed.

(* a call that offered its packet to connection cn, with result wr *)
Definition first_tx (c : client) (m : store) (level : N) (retain : bool) (msg topic : list N)
           (c' : client) (r : retv) (m' : store) (tr : list req) (cn : N) (wr : wres) : Prop :=
  exists wtr rest,
    lv_acc level c <= lv_sub level c /\ k_wsem c = WsConn cn /\
    offered cn [pp_head c level retain msg topic; msg] false wr wtr /\
    tr = QSave (pp_key c level) (pp_record c level retain msg topic) :: wtr ++ rest /\
    Forall no_write rest /\ r = RetExch (pp_x c) /\
    m' = store_put m (pp_key c level) (pp_record c level retain msg topic) /\
    lv_acc level c' = lv_acc level c + 1 /\
    (wr = WOk -> lv_sub level c' = lv_acc level c + 1 /\ k_wsem c' = WsConn cn) /\
    (wr <> WOk -> lv_sub level c' = lv_sub level c /\ k_wsem c' = WsPending /\
                  c' = xsend (accepted level c <| k_wsem := WsPending |>) (pp_x c) (E_submit wr)).

(* When does the call write, what, and what happens to the submit counter *)
Theorem persisted_run_writes c m level retain msg topic c' r m' tr :
  level = 1 \/ level = 2 ->
  persisted_run c m level retain msg topic c' r m' tr ->
  (Forall no_write tr /\ (forall x, r = RetExch x -> lv_sub level c' = lv_sub level c))
  \/ exists cn wr, first_tx c m level retain msg topic c' r m' tr cn wr.
Proof.
  intros Hl H.
  assert (Hx : forall c0 x e, lv_sub level (xsend c0 x e) = lv_sub level c0).
  { intros. unfold xsend, lv_sub. destruct (x =? 0), (level =? 1); reflexivity. }
  assert (Hw : forall c0 x e, k_wsem (xsend c0 x e) = k_wsem c0).
  { intros. unfold xsend. destruct (x =? 0); reflexivity. }
  assert (Ha : forall c0 x e, lv_acc level (xsend c0 x e) = lv_acc level c0).
  { intros. unfold xsend, lv_acc. destruct (x =? 0), (level =? 1); reflexivity. }
  assert (Hs : lv_sub level (accepted level c) = lv_sub level c).
  { unfold lv_sub, accepted. destruct (level =? 1); reflexivity. }
  assert (Hacc : lv_acc level (accepted level c) = lv_acc level c + 1).
  { unfold lv_acc, accepted. destruct (level =? 1) eqn:E; rewrite ?E; cbn; lia. }
  inversion H; subst.
  - left. split; [constructor|]. intros x E. discriminate.
  - left. split; [repeat constructor; apply no_write_save|]. intros x E. discriminate.
  - left. split; [repeat constructor; apply no_write_save|]. intros x _. rewrite Hx. exact Hs.
  - left. split; [repeat constructor; apply no_write_save|]. intros x _. rewrite Hx. exact Hs.
  - right. exists cn, wr, wtr, (match wr with WClosed => [] | _ => [QClose cn] end).
    repeat (split; [first [assumption|reflexivity]|]).
    split; [destruct wr; repeat constructor; apply no_write_close|].
    split; [reflexivity|]. split; [reflexivity|].
    split; [rewrite Ha; unfold lv_acc in *; unfold accepted; destruct (level =? 1) eqn:E; cbn; lia|].
    split; [intros E; congruence|]. intros _.
    split; [rewrite Hx; unfold lv_sub, accepted; destruct (level =? 1); reflexivity|].
    split; [rewrite Hw; unfold accepted; destruct (level =? 1); reflexivity|reflexivity].
  - right. exists cn, WOk, wtr, []. rewrite app_nil_r.
    repeat (split; [first [assumption|reflexivity]|]).
    split; [constructor|]. split; [reflexivity|]. split; [reflexivity|].
    split; [unfold lv_acc, submitted, accepted; destruct (level =? 1) eqn:E; rewrite ?E; cbn; lia|].
    split; [|intros X; congruence]. intros _.
    split; [unfold lv_sub, lv_acc, submitted, accepted; destruct (level =? 1) eqn:E; rewrite ?E; cbn; lia|].
    unfold submitted, accepted. destruct (level =? 1) eqn:E; rewrite ?E; cbn; assumption.
Qed.

(* with a backlog nothing is written and the exchange receives the "enqueued" ErrDown *)
Theorem persisted_backlog c m level retain msg topic c' r m' tr :
  lv_sub level c < lv_acc level c ->
  persisted_run c m level retain msg topic c' r m' tr ->
  Forall no_write tr /\
  (forall x, r = RetExch x -> x = pp_x c /\ c' = xsend (accepted level c) x E_down).
Proof.
  intros BL H. inversion H; subst; try lia.
  - split; [constructor|]. intros x E. discriminate.
  - split; [repeat constructor; apply no_write_save|]. intros x E. discriminate.
  - split; [repeat constructor; apply no_write_save|]. intros x E. inversion E. auto.
Qed.

Lemma xsend_xev c x e : x <> 0 -> k_xev (xsend c x e) = (x, Some e) :: k_xev c.
Proof. intros Hx. unfold xsend. destruct (N.eqb_spec x 0); [contradiction|reflexivity]. Qed.

(* ================================================================== *)
(* 6. One connection: resend batch, then first transmissions           *)

(* ---- the resend batch, packet by packet ---- *)

(* level 1: the offers are the stored PUBLISH packets acked, acked+1, ... with DUP set
   exactly below the submit counter the connect started with *)
Theorem resend_offers_level1 c m cn n tr os :
  OInv' (oproj c m) -> k_acked c <= n ->
  run_offers m cn alo_space (k_acc1 c) (k_sub1 c) n tr os ->
  Forall (fun o => k_acked c <= fst o < k_acc1 c /\
                   exists retain topic msg,
                     resend_packet m alo_space (k_sub1 c) (fst o)
                     = publish_packet (head_publish 1 retain (fst o <? k_sub1 c)) topic msg (key1 (fst o))) os.
Proof.
  intros HI Hn H. induction H as [n Ha|n Ha|n r wtr Ha Hr Ho|n wtr rest os Ha Ho Hrun IH].
  - constructor.
  - constructor.
  - constructor; [|constructor]. cbn [fst]. split; [lia|].
    destruct (win_pub1 c m HI n ltac:(lia)) as (rt & tp & ms & sq & Hh & Hs).
    exists rt, tp, ms. eapply resend_packet_pub1; eassumption.
  - constructor; [|apply IH; lia]. cbn [fst]. split; [lia|].
    destruct (win_pub1 c m HI n ltac:(lia)) as (rt & tp & ms & sq & Hh & Hs).
    exists rt, tp, ms. eapply resend_packet_pub1; eassumption.
Qed.

(* level 2: PUBREL (no DUP bit) for [compl, recvd), then PUBLISH for [recvd, acc2): the
   loop goes by sequence number, and the records below recvd are the PUBRELs *)
Theorem resend_offers_level2 c m cn n tr os :
  OInv' (oproj c m) -> k_compl c <= n ->
  run_offers m cn eo_space (k_acc2 c) (k_sub2 c) n tr os ->
  Forall (fun o => k_compl c <= fst o < k_acc2 c /\
                   ((fst o < k_recvd c /\
                     resend_packet m eo_space (k_sub2 c) (fst o) = packet_pubrel (key2 (fst o)))
                    \/ (k_recvd c <= fst o /\ exists retain topic msg,
                          resend_packet m eo_space (k_sub2 c) (fst o)
                          = publish_packet (head_publish 2 retain (fst o <? k_sub2 c)) topic msg (key2 (fst o))))) os.
Proof.
  intros HI Hn H.
  assert (Hone : forall k, k_compl c <= k < k_acc2 c ->
            (k < k_recvd c /\ resend_packet m eo_space (k_sub2 c) k = packet_pubrel (key2 k))
            \/ (k_recvd c <= k /\ exists retain topic msg,
                  resend_packet m eo_space (k_sub2 c) k
                  = publish_packet (head_publish 2 retain (k <? k_sub2 c)) topic msg (key2 k))).
  { intros k Hk. destruct (N.lt_ge_cases k (k_recvd c)) as [Hlt|Hge].
    - left. split; [exact Hlt|]. destruct (win_pubrel c m HI k ltac:(lia)) as (sq & Hh & Hs).
      eapply resend_packet_pubrel; eassumption.
    - right. split; [exact Hge|].
      destruct (win_pub2 c m HI k ltac:(lia)) as (rt & tp & ms & sq & Hh & Hs).
      exists rt, tp, ms. eapply resend_packet_pub2; eassumption. }
  induction H as [n Ha|n Ha|n r wtr Ha Hr Ho|n wtr rest os Ha Ho Hrun IH].
  - constructor.
  - constructor.
  - constructor; [|constructor]. cbn [fst]. split; [lia|]. apply Hone. lia.
  - constructor; [|apply IH; lia]. cbn [fst]. split; [lia|]. apply Hone. lia.
Qed.

(* strictly increasing sequence numbers *)
Inductive increasing : list N -> Prop :=
| inc_nil : increasing []
| inc_one : forall a, increasing [a]
| inc_cons : forall a b l, a < b -> increasing (b :: l) -> increasing (a :: b :: l).

Lemma seq_from_increasing cnt : forall n, increasing (seq_from n cnt).
Proof.
  induction cnt as [|[|k] IH]; intros n; cbn [seq_from]; try constructor.
  - lia.
  - apply (IH (n + 1)).
Qed.

Lemma increasing_app_one l : forall x, increasing l -> Forall (fun a => a < x) l -> increasing (l ++ [x]).
Proof.
  induction l as [|a [|b l] IH]; intros x Hi Hf; cbn [app].
  - constructor.
  - inversion Hf; subst. constructor; [assumption|constructor].
  - inversion Hi; subst. inversion Hf; subst. constructor; [assumption|]. apply IH; assumption.
Qed.

Theorem run_offers_increasing m cn space acc sub0 n tr os :
  run_offers m cn space acc sub0 n tr os -> increasing (map fst os).
Proof.
  intros H. destruct (run_offers_consecutive _ _ _ _ _ _ _ _ H) as (-> & _ & _). apply seq_from_increasing.
Qed.

(* ---- afterwards: the accept counters only grow ---- *)

Lemma ostep_acc_mono st st' : ostep st st' ->
  o_acc1 st <= o_acc1 st' /\ o_acc2 st <= o_acc2 st'.
Proof. destruct 1; cbn; lia. Qed.

Lemma osteps_acc_mono st st' : osteps st st' ->
  o_acc1 st <= o_acc1 st' /\ o_acc2 st <= o_acc2 st'.
Proof.
  induction 1 as [st|a b c0 Hab _ IH]; [lia|]. apply ostep_acc_mono in Hab. lia.
Qed.

Lemma lv_acc_oproj level c m : level = 1 \/ level = 2 ->
  lv_acc level c = if level =? 1 then o_acc1 (oproj c m) else o_acc2 (oproj c m).
Proof. intros [-> | ->]; reflexivity. Qed.

Lemma osteps_lv_acc level c m c' m' : level = 1 \/ level = 2 ->
  osteps (oproj c m) (oproj c' m') -> lv_acc level c <= lv_acc level c'.
Proof.
  intros Hl H. apply osteps_acc_mono in H. destruct Hl as [-> | ->]; cbn in *; lia.
Qed.

(* 4. Over one connection.  c0 is the state in which connect was called and succeeded
   (it dialed cn = k_nconn c0 and returned c1 with the token WsConn cn); os are the
   offers of its resend of this level.  Any persisted publish that writes in a later
   state c (any number of API calls later: osteps) offers a sequence number beyond the
   whole batch, without DUP -- which is again "DUP iff below sub0", sub0 <= acc0 <= n. *)
Theorem batch_before_first_tx level c0 m0 c1 m1 cn lo tr0 os c m retain msg topic c' r m' tr cn' wr :
  level = 1 \/ level = 2 ->
  run_offers m0 cn (lv_space level) (lv_acc level c0) (lv_sub level c0) lo tr0 os ->
  lv_acc level c1 = lv_acc level c0 ->
  osteps (oproj c1 m1) (oproj c m) ->
  first_tx c m level retain msg topic c' r m' tr cn' wr ->
  Forall (fun o => fst o < lv_acc level c) os /\
  dup_bit (pp_packet c level retain msg topic) = false /\
  (lv_sub level c0 <= lv_acc level c0 -> (lv_acc level c <? lv_sub level c0) = false).
Proof.
  intros Hl Hos Hacc Hst _.
  pose proof (osteps_lv_acc level _ _ _ _ Hl Hst) as Hmono. rewrite Hacc in Hmono.
  destruct (run_offers_consecutive _ _ _ _ _ _ _ _ Hos) as (Hseq & Hbound & _).
  split; [|split; [apply pp_packet_no_dup, Hl|intros Hs; apply N.ltb_ge; lia]].
  apply Forall_forall. intros o Ho.
  apply (in_map fst) in Ho. rewrite Hseq in Ho.
  apply In_nth with (d := 0) in Ho as (i & Hi & <-). rewrite seq_from_length in Hi.
  rewrite seq_from_nth by exact Hi.
  assert (N.of_nat i < N.of_nat (length os)) by lia.
  destruct os as [|o0 os0]; [cbn in Hi; lia|].
  assert (lo < lv_acc level c0).
  { inversion Hos; subst; assumption. }
  lia.
Qed.

(* two first transmissions, the second any number of API calls after the first: strictly
   increasing sequence numbers; the second finds everything before it submitted *)
Theorem first_tx_increasing level c m retain msg topic c' r m' tr cn wr
        d md retain2 msg2 topic2 d' r2 md' tr2 cn2 wr2 :
  level = 1 \/ level = 2 ->
  first_tx c m level retain msg topic c' r m' tr cn wr ->
  osteps (oproj c' m') (oproj d md) ->
  first_tx d md level retain2 msg2 topic2 d' r2 md' tr2 cn2 wr2 ->
  lv_acc level c < lv_acc level d /\ lv_acc level d <= lv_sub level d.
Proof.
  intros Hl (wtr & rest & _ & _ & _ & _ & _ & _ & _ & Hacc & _) Hst (wtr2 & rest2 & Hnb & _).
  split; [|exact Hnb].
  pose proof (osteps_lv_acc level _ _ _ _ Hl Hst) as Hmono. lia.
Qed.

(* ---- the complete batch of a successful resend ---- *)

Lemma resend_run_ok_offers m cn space acc sub0 lo n tr s :
  resend_run m cn space acc sub0 lo n tr s 0 ->
  exists os, run_offers m cn space acc sub0 n tr os /\
             map fst os = seq_from n (N.to_nat (acc - n)) /\ Forall (fun o => snd o = WOk) os.
Proof.
  remember 0 as e eqn:He. induction 1 as [n Hn|n Hn|n r wtr Hn Hr Ho|n wtr rest s e Hn Ho Hrun IH].
  - exists []. split; [apply RO_end, Hn|]. replace (acc - n) with 0 by lia. split; constructor.
  - discriminate.
  - exfalso. exact (werr_nz r He).
  - destruct (IH He) as (os & Hos & Hseq & Hok). exists ((n, WOk) :: os).
    split; [apply RO_next; assumption|]. split; [|constructor; [reflexivity|exact Hok]].
    replace (N.to_nat (acc - n)) with (S (N.to_nat (acc - (n + 1)))) by lia.
    cbn [map fst seq_from]. rewrite Hseq. reflexivity.
Qed.

(* the submit counter after a successful resend: the accept counter, except in the
   corner of an empty window lying beyond the submit counter (acked = acc > sub: an
   acknowledgement for a packet whose write had failed), where it stays behind *)
Lemma sub_at_success sub0 lo acc : lo <= acc -> sub0 <= acc ->
  sub_at sub0 lo (N.max lo acc) = if (acc =? lo) then sub0 else acc.
Proof.
  intros H1 H2. unfold sub_at. destruct (N.eqb_spec acc lo) as [->|Hne].
  - rewrite N.max_id, N.leb_refl. reflexivity.
  - destruct (N.leb_spec (N.max lo acc) lo); lia.
Qed.

Theorem connect_success_counters c m c' tr :
  OInv' (oproj c m) -> connect_run c m c' 0 tr ->
  k_sub1 c' = (if k_acc1 c =? k_acked c then k_sub1 c else k_acc1 c) /\
  k_sub2 c' = (if k_acc2 c =? k_compl c then k_sub2 c else k_acc2 c) /\
  k_acc1 c' = k_acc1 c /\ k_acc2 c' = k_acc2 c /\ k_acked c' = k_acked c /\
  k_compl c' = k_compl c /\ k_recvd c' = k_recvd c.
Proof.
  intros HI H. destruct (connect_ok_shape _ _ _ _ H)
    as (wtr & rtr & rs1 & rs2 & s1 & s2 & _ & _ & _ & H1 & H2 & _ & _ & Hcp).
  pose proof (win_counters c m HI) as (C1 & C2 & C3 & C4 & C5).
  apply resend_run_ok in H1. apply resend_run_ok in H2.
  rewrite sub_at_success in H1 by lia. rewrite sub_at_success in H2 by lia.
  apply cp_fields in Hcp. cbn in Hcp.
  destruct Hcp as (_ & _ & _ & _ & F5 & F6 & F7 & F8 & F9 & F10 & F11 & _ & _).
  subst s1 s2. repeat split; assumption.
Qed.

(* whenever the submit counter is not behind the acknowledgements (or the window is not
   empty) a successful connect leaves no backlog *)
Corollary connect_success_no_backlog c m c' tr :
  OInv' (oproj c m) -> connect_run c m c' 0 tr ->
  (k_acked c <= k_sub1 c -> k_sub1 c' = k_acc1 c') /\
  (k_compl c <= k_sub2 c -> k_sub2 c' = k_acc2 c').
Proof.
  intros HI H. destruct (connect_success_counters c m c' tr HI H) as (S1 & S2 & A1 & A2 & _).
  pose proof (win_counters c m HI) as (C1 & C2 & C3 & C4 & C5).
  rewrite S1, S2, A1, A2. split; intros Hle.
  - destruct (N.eqb_spec (k_acc1 c) (k_acked c)); lia.
  - destruct (N.eqb_spec (k_acc2 c) (k_compl c)); lia.
Qed.

(* what a failed resend of level 1 leaves: the failing sequence number k is not counted,
   so it is offered without DUP next time unless it had been submitted before *)
Theorem connect_failed_level1 c m c' e tr wtr rtr rs1 s1 :
  OInv' (oproj c m) ->
  resend_run m (k_nconn c) alo_space (k_acc1 c) (k_sub1 c) (k_acked c) (k_acked c) rs1 s1 e -> e <> 0 ->
  cp c' = cp (c <| k_sub1 := s1 |>) ->
  tr = QLoad 0 :: QDial :: wtr ++ rtr ++ rs1 ++ [QClose (k_nconn c)] ->
  exists k, k_acked c <= k < k_acc1 c /\ k_sub1 c' = sub_at (k_sub1 c) (k_acked c) k /\
            (k <? k_sub1 c') = (k <? k_sub1 c).
Proof.
  intros HI Hr He Hcp _. destruct (resend_run_failed _ _ _ _ _ _ _ _ _ _ Hr He) as (k & Hk & ->).
  apply cp_fields in Hcp. cbn in Hcp. destruct Hcp as (_ & _ & _ & _ & _ & F6 & _).
  exists k. split; [exact Hk|]. split; [exact F6|]. rewrite F6.
  unfold sub_at. destruct (N.leb_spec k (k_acked c)); [reflexivity|].
  destruct (N.ltb_spec k (N.max (k_sub1 c) k)), (N.ltb_spec k (k_sub1 c)); try reflexivity; lia.
Qed.

(* ---- 1. as connect calls it, under OInv' ---- *)

Theorem resend_writes_level1 c m cn w s e w' :
  w_store w = Some m -> OInv' (oproj c m) ->
  resend (S (N.to_nat (k_acc1 c - k_acked c))) cn alo_space (k_acked c) (k_acc1 c) (k_sub1 c) w
    = Some ((s, e), w') ->
  w_store w' = Some m /\
  exists tr os, grows w w' tr /\
    resend_run m cn alo_space (k_acc1 c) (k_sub1 c) (k_acked c) (k_acked c) tr s e /\
    run_offers m cn alo_space (k_acc1 c) (k_sub1 c) (k_acked c) tr os /\
    map fst os = seq_from (k_acked c) (length os) /\
    Forall (fun o => k_acked c <= fst o < k_acc1 c /\
                     exists retain topic msg,
                       resend_packet m alo_space (k_sub1 c) (fst o)
                       = publish_packet (head_publish 1 retain (fst o <? k_sub1 c)) topic msg (key1 (fst o))) os /\
    (e = 0 -> N.of_nat (length os) = k_acc1 c - k_acked c /\
              s = if k_acc1 c =? k_acked c then k_sub1 c else k_acc1 c) /\
    (e <> 0 -> exists k, k_acked c <= k < k_acc1 c /\ s = sub_at (k_sub1 c) (k_acked c) k).
Proof.
  intros Hm HI E.
  destruct (resend_writes m cn alo_space (S (N.to_nat (k_acc1 c - k_acked c))) (k_acked c) (k_acc1 c)
              (k_sub1 c) w s e w' Hm ltac:(lia)
              (fun n Hn => win_genuine1 c m HI n Hn) E) as (Hm' & tr & G & Hr).
  split; [exact Hm'|].
  pose proof (win_counters c m HI) as (C1 & C2 & _).
  destruct (N.eq_dec e 0) as [->|He].
  - destruct (resend_run_ok_offers _ _ _ _ _ _ _ _ _ Hr) as (os & Hos & Hseq & Hok).
    exists tr, os. split; [exact G|]. split; [exact Hr|]. split; [exact Hos|].
    pose proof (f_equal (@length N) Hseq) as Hlen. rewrite map_length, seq_from_length in Hlen.
    split; [rewrite Hseq, Hlen; reflexivity|].
    split; [apply (resend_offers_level1 c m cn (k_acked c) tr os HI); [lia|exact Hos]|].
    split; [|intros X; congruence]. intros _. split; [lia|].
    rewrite (resend_run_ok _ _ _ _ _ _ _ _ _ Hr). apply sub_at_success; assumption.
  - destruct (resend_run_offers _ _ _ _ _ _ _ _ _ _ Hr) as (os & Hos).
    exists tr, os. split; [exact G|]. split; [exact Hr|]. split; [exact Hos|].
    split; [apply (run_offers_consecutive _ _ _ _ _ _ _ _ Hos)|].
    split; [apply (resend_offers_level1 c m cn (k_acked c) tr os HI); [lia|exact Hos]|].
    split; [intros X; congruence|]. intros _. apply (resend_run_failed _ _ _ _ _ _ _ _ _ _ Hr He).
Qed.

Theorem resend_writes_level2 c m cn w s e w' :
  w_store w = Some m -> OInv' (oproj c m) ->
  resend (S (N.to_nat (k_acc2 c - k_compl c))) cn eo_space (k_compl c) (k_acc2 c) (k_sub2 c) w
    = Some ((s, e), w') ->
  w_store w' = Some m /\
  exists tr os, grows w w' tr /\
    resend_run m cn eo_space (k_acc2 c) (k_sub2 c) (k_compl c) (k_compl c) tr s e /\
    run_offers m cn eo_space (k_acc2 c) (k_sub2 c) (k_compl c) tr os /\
    map fst os = seq_from (k_compl c) (length os) /\
    Forall (fun o => k_compl c <= fst o < k_acc2 c /\
                     ((fst o < k_recvd c /\
                       resend_packet m eo_space (k_sub2 c) (fst o) = packet_pubrel (key2 (fst o)))
                      \/ (k_recvd c <= fst o /\ exists retain topic msg,
                            resend_packet m eo_space (k_sub2 c) (fst o)
                            = publish_packet (head_publish 2 retain (fst o <? k_sub2 c)) topic msg (key2 (fst o))))) os /\
    (e = 0 -> N.of_nat (length os) = k_acc2 c - k_compl c /\
              s = if k_acc2 c =? k_compl c then k_sub2 c else k_acc2 c) /\
    (e <> 0 -> exists k, k_compl c <= k < k_acc2 c /\ s = sub_at (k_sub2 c) (k_compl c) k).
Proof.
  intros Hm HI E.
  destruct (resend_writes m cn eo_space (S (N.to_nat (k_acc2 c - k_compl c))) (k_compl c) (k_acc2 c)
              (k_sub2 c) w s e w' Hm ltac:(lia)
              (fun n Hn => win_genuine2 c m HI n Hn) E) as (Hm' & tr & G & Hr).
  split; [exact Hm'|].
  pose proof (win_counters c m HI) as (_ & _ & C3 & C4 & C5).
  destruct (N.eq_dec e 0) as [->|He].
  - destruct (resend_run_ok_offers _ _ _ _ _ _ _ _ _ Hr) as (os & Hos & Hseq & Hok).
    exists tr, os. split; [exact G|]. split; [exact Hr|]. split; [exact Hos|].
    pose proof (f_equal (@length N) Hseq) as Hlen. rewrite map_length, seq_from_length in Hlen.
    split; [rewrite Hseq, Hlen; reflexivity|].
    split; [apply (resend_offers_level2 c m cn (k_compl c) tr os HI); [lia|exact Hos]|].
    split; [|intros X; congruence]. intros _. split; [lia|].
    rewrite (resend_run_ok _ _ _ _ _ _ _ _ _ Hr). apply sub_at_success; lia.
  - destruct (resend_run_offers _ _ _ _ _ _ _ _ _ _ Hr) as (os & Hos).
    exists tr, os. split; [exact G|]. split; [exact Hr|]. split; [exact Hos|].
    split; [apply (run_offers_consecutive _ _ _ _ _ _ _ _ Hos)|].
    split; [apply (resend_offers_level2 c m cn (k_compl c) tr os HI); [lia|exact Hos]|].
    split; [intros X; congruence|]. intros _. apply (resend_run_failed _ _ _ _ _ _ _ _ _ _ Hr He).
Qed.

(* under OInv' "no backlog" is "everything accepted so far was submitted" *)
Lemma first_tx_no_backlog c m level retain msg topic c' r m' tr cn wr :
  level = 1 \/ level = 2 -> OInv' (oproj c m) ->
  first_tx c m level retain msg topic c' r m' tr cn wr -> lv_sub level c = lv_acc level c.
Proof.
  intros Hl HI (wtr & rest & Hnb & _).
  pose proof (win_counters c m HI) as (_ & C2 & _ & _ & C5).
  destruct Hl as [-> | ->]; cbn in *; lia.
Qed.

(* ================================================================== *)
(* 7. Concrete runs (non-vacuity and the corners)                      *)

Definition exo_cfg : scfg :=
  mkScfg {| cfg_user := []; cfg_pass := None; cfg_will := None; cfg_keepalive := 0; cfg_clean := false |}
         false 16 16 4096 0 0.
Definition exo_st_ok (n : nat) : list bool := repeat false n.
Definition exo_wr_ok (n : nat) : list wanswer := repeat (0, WOk) n.
Definition exo_connack : list N := [32; 2; 0; 0].
Definition exo_qos0 : list N := [48; 4; 0; 1; 97; 120].          (* an inbound QoS 0 PUBLISH "a" "x" *)
Definition exo_puback0 : list N := [64; 2; 128; 0].              (* PUBACK 0x8000 *)
Definition exo_writes (l : list req) : list (N * list N) :=
  flat_map (fun q => match q with QWrite c bs => [(c, bs)] | _ => [] end) l.

(* run a history from InitSession: per call the result and the Write calls
   (connection, argument), and at the end (acked, submit counter, accept counter, token) *)
Fixpoint exo_steps (s : sys) (h : list (op * tapes)) : option (sys * list (retv * list (N * list N))) :=
  match h with
  | [] => Some (s, [])
  | (o, tp) :: rest =>
    match exec s o tp with
    | Some (s', r, l) =>
      match exo_steps s' rest with
      | Some (s'', ls) => Some (s'', (r, exo_writes l) :: ls)
      | None => None
      end
    | None => None
    end
  end.
Definition exo_hist (h : list (op * tapes)) :=
  match init_sys exo_cfg [99] (mkTapes (exo_st_ok 2) [] [] []) with
  | Some s0 => match exo_steps s0 h with
               | Some (s, ls) => Some ((k_acked (sy_c s), k_sub1 (sy_c s), k_acc1 (sy_c s), k_wsem (sy_c s)), ls)
               | None => None
               end
  | None => None
  end.
Definition exo_pub (b : N) : op := OpPubP 1 false [109; b] [116].   (* PublishAtLeastOnce "m<b>" on "t" *)
Definition exo_connect_pkt : list N := [16; 13; 0; 4; 77; 81; 84; 84; 4; 0; 0; 0; 0; 1; 99].

(* Three pending at-least-once publishes, only the first ever submitted (it went out on
   connection 0, the other two were accepted while offline); the reconnect sends
   CONNECT, 1 with DUP (head 58), 2 and 3 without (head 50), in this order. *)
Definition exo_h1 : list (op * tapes) :=
  [ (OpRead, mkTapes (exo_st_ok 1) [true] (exo_wr_ok 1) [RData exo_connack; RData exo_qos0]);
    (exo_pub 49, mkTapes (exo_st_ok 1) [] (exo_wr_ok 2) []);
    (OpRead, mkTapes [] [] [] [REOF]);
    (exo_pub 50, mkTapes (exo_st_ok 1) [] [] []);
    (exo_pub 51, mkTapes (exo_st_ok 1) [] [] []);
    (OpRead, mkTapes (exo_st_ok 4) [true] (exo_wr_ok 4) [RData exo_connack; RData exo_qos0]) ].

Example reconnect_dup_example :
  exo_hist exo_h1 =
  Some ((0, 3, 3, WsConn 1),
        [ (RetMsg [97] [120], [(0, exo_connect_pkt)]);
          (RetExch 1, [(0, [50; 7; 0; 1; 116; 128; 0]); (0, [109; 49])]);     (* first transmission *)
          (RetErr E_brokerterm, []);
          (RetExch 2, []); (RetExch 3, []);                                    (* enqueued *)
          (RetMsg [97] [120],
           [(1, exo_connect_pkt);
            (1, [58; 7; 0; 1; 116; 128; 0; 109; 49]);                         (* DUP *)
            (1, [50; 7; 0; 1; 116; 128; 1; 109; 50]);
            (1, [50; 7; 0; 1; 116; 128; 2; 109; 51])]) ]).
Proof. vm_compute. reflexivity. Qed.

(* The scenario of the seeded change M3-C05b: two publishes accepted offline; on
   connection 0 the first goes out, the write of the second fails with no byte accepted.
   The submit counter stops at 1, so connection 1 carries the first with DUP and the
   second without. *)
Definition exo_h2 : list (op * tapes) :=
  [ (exo_pub 49, mkTapes (exo_st_ok 1) [] [] []);
    (exo_pub 50, mkTapes (exo_st_ok 1) [] [] []);
    (OpRead, mkTapes (exo_st_ok 3) [true] [(0, WOk); (0, WOk); (0, WClosed)] [RData exo_connack]);
    (OpRead, mkTapes (exo_st_ok 3) [true] (exo_wr_ok 3) [RData exo_connack; RData exo_qos0]) ].

Example failed_resend_not_counted_example :
  exo_hist exo_h2 =
  Some ((0, 2, 2, WsConn 1),
        [ (RetExch 1, []); (RetExch 2, []);
          (RetErr (werr WClosed),
           [(0, exo_connect_pkt);
            (0, [50; 7; 0; 1; 116; 128; 0; 109; 49]);
            (0, [50; 7; 0; 1; 116; 128; 1; 109; 50])]);                       (* 0 bytes accepted *)
          (RetMsg [97] [120],
           [(1, exo_connect_pkt);
            (1, [58; 7; 0; 1; 116; 128; 0; 109; 49]);                         (* DUP *)
            (1, [50; 7; 0; 1; 116; 128; 1; 109; 50])]) ]).                    (* no DUP *)
Proof. vm_compute. reflexivity. Qed.

(* Corner 1: "submitted" means that the write loop returned without error.  Here the
   connection accepts every byte of the first transmission but the second Write call
   reports an error: not counted, so the retransmission carries no DUP although the
   packet may have reached the broker completely. *)
Definition exo_h3 : list (op * tapes) :=
  [ (OpRead, mkTapes (exo_st_ok 1) [true] (exo_wr_ok 1) [RData exo_connack; RData exo_qos0]);
    (exo_pub 49, mkTapes (exo_st_ok 1) [] [(0, WOk); (2, WHard)] []);
    (OpRead, mkTapes (exo_st_ok 2) [true] (exo_wr_ok 2) [RClosed; RData exo_connack; RData exo_qos0]) ].

Example dup_corner_accepted_but_failed :
  exo_hist exo_h3 =
  Some ((0, 1, 1, WsConn 1),
        [ (RetMsg [97] [120], [(0, exo_connect_pkt)]);
          (RetExch 1, [(0, [50; 7; 0; 1; 116; 128; 0]); (0, [109; 49])]);     (* all 9 bytes accepted *)
          (RetMsg [97] [120],
           [(1, exo_connect_pkt);
            (1, [50; 7; 0; 1; 116; 128; 0; 109; 49])]) ]).                    (* no DUP *)
Proof. vm_compute. reflexivity. Qed.

(* Corner 2: OInv' does not relate the acknowledged counter to the submit counter.  A
   PUBACK for a packet whose write had failed (a broker that acknowledges what it did
   not receive completely, or corner 1) gives acked = acc > sub; the resend window of
   the next connect is empty, the submit counter stays behind, and the next publish is
   only enqueued (ErrDown) although the client is online -- until a later reconnect. *)
Definition exo_h4 : list (op * tapes) :=
  [ (OpRead, mkTapes (exo_st_ok 1) [true] (exo_wr_ok 1) [RData exo_connack; RData exo_qos0]);
    (exo_pub 49, mkTapes (exo_st_ok 1) [] [(100, WHard)] []);
    (OpRead, mkTapes (exo_st_ok 2) [true] (exo_wr_ok 1)
             [RData exo_puback0; RClosed; RData exo_connack; RData exo_qos0]);
    (exo_pub 50, mkTapes (exo_st_ok 1) [] (exo_wr_ok 2) []) ].

Example backlog_stuck_corner :
  exo_hist exo_h4 =
  Some ((1, 0, 2, WsConn 1),
        [ (RetMsg [97] [120], [(0, exo_connect_pkt)]);
          (RetExch 1, [(0, [50; 7; 0; 1; 116; 128; 0])]);
          (RetMsg [97] [120], [(1, exo_connect_pkt)]);                         (* nothing to resend *)
          (RetExch 2, []) ]).                                                  (* online, not written *)
Proof. vm_compute. reflexivity. Qed.
