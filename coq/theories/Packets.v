(* L0: packet composition exactly as the client does it (mqtt.go, request.go,
   client.go).  Definitions only.  Validation of arguments is in Requests.v. *)
From MQ Require Export Bytes.

(* packet type codes (first byte >> 4) *)
Definition tCONNECT : N := 1.   Definition tCONNACK : N := 2.
Definition tPUBLISH : N := 3.   Definition tPUBACK : N := 4.
Definition tPUBREC : N := 5.    Definition tPUBREL : N := 6.
Definition tPUBCOMP : N := 7.   Definition tSUBSCRIBE : N := 8.
Definition tSUBACK : N := 9.    Definition tUNSUBSCRIBE : N := 10.
Definition tUNSUBACK : N := 11. Definition tPINGREQ : N := 12.
Definition tPINGRESP : N := 13. Definition tDISCONNECT : N := 14.

Definition packet_max : N := 268435455.   (* 1<<(4*7) - 1 *)
Definition string_max : N := 65535.

(* "remaining length": for ; l > 0x7f; l >>= 7 { append(byte(l|0x80)) } append(byte(l)) *)
Fixpoint varint_fuel (fuel : nat) (l : N) : list N :=
  match fuel with
  | O => []
  | S f => if l <=? 127 then [l] else (l mod 128 + 128) :: varint_fuel f (l / 128)
  end.
Definition varint (l : N) : list N := varint_fuel 10 l.

(* packetPINGREQ, packetDISCONNECT *)
Definition packet_pingreq : list N := [192; 0].
Definition packet_disconnect : list N := [224; 0].

(* the four-byte acknowledgements the read routine composes *)
Definition ack_packet (head : N) (id : N) : list N := head :: 2 :: be16 id.
Definition packet_puback (id : N) := ack_packet 64 id.     (* typePUBACK<<4 *)
Definition packet_pubrec (id : N) := ack_packet 80 id.     (* typePUBREC<<4 *)
Definition packet_pubrel (id : N) := ack_packet 98 id.     (* typePUBREL<<4 | atLeastOnceLevel<<1 *)
Definition packet_pubcomp (id : N) := ack_packet 112 id.   (* typePUBCOMP<<4 *)

(* publishPacket: head byte, size, topic, optional packet identifier; the message is a
   second buffer.  [pid = 0] means "no identifier" as in the code. *)
Definition publish_size (topic msg : list N) (pid : N) : N :=
  2 + len topic + len msg + (if pid =? 0 then 0 else 2).
Definition publish_head_buf (head : N) (topic msg : list N) (pid : N) : list N :=
  head :: varint (publish_size topic msg pid) ++ be16 (len topic) ++ topic
       ++ (if pid =? 0 then [] else be16 pid).
Definition publish_packet (head : N) (topic msg : list N) (pid : N) : list N :=
  publish_head_buf head topic msg pid ++ msg.

(* PUBLISH head bytes used by the API *)
Definition head_publish (qos : N) (retain dup : bool) : N :=
  48 + (if dup then 8 else 0) + 2 * qos + (if retain then 1 else 0).

(* subscribeLevel *)
Fixpoint sub_filters (fs : list (list N)) (level : N) : list N :=
  match fs with
  | [] => []
  | s :: r => be16 (len s) ++ s ++ [level] ++ sub_filters r level
  end.
Fixpoint filters_len (fs : list (list N)) : N :=
  match fs with [] => 0 | s :: r => len s + filters_len r end.
Definition subscribe_size (fs : list (list N)) : N := 2 + 3 * N.of_nat (length fs) + filters_len fs.
Definition subscribe_packet (pid : N) (fs : list (list N)) (level : N) : list N :=
  130 :: varint (subscribe_size fs) ++ be16 pid ++ sub_filters fs level.

(* Unsubscribe *)
Fixpoint unsub_filters (fs : list (list N)) : list N :=
  match fs with
  | [] => []
  | s :: r => be16 (len s) ++ s ++ unsub_filters r
  end.
Definition unsubscribe_size (fs : list (list N)) : N := 2 + 2 * N.of_nat (length fs) + filters_len fs.
Definition unsubscribe_packet (pid : N) (fs : list (list N)) : list N :=
  162 :: varint (unsubscribe_size fs) ++ be16 pid ++ unsub_filters fs.

(* Config.newCONNREQ *)
Record will := { will_topic : list N; will_msg : list N; will_retain : bool;
                 will_alo : bool; will_eo : bool }.
Record cfg := {
  cfg_user : list N;                 (* UserName, "" = omitted unless password *)
  cfg_pass : option (list N);        (* Password, nil = omitted *)
  cfg_will : option will;            (* Will.Message != nil *)
  cfg_keepalive : N;
  cfg_clean : bool
}.
Definition has_user (c : cfg) : bool :=
  match cfg_user c, cfg_pass c with [], None => false | _, _ => true end.
Definition connect_flags (c : cfg) : N :=
  (if has_user c then 128 else 0)
  + (match cfg_pass c with Some _ => 64 | None => 0 end)
  + (match cfg_will c with
     | Some w => (if will_retain w then 32 else 0)
                 + (if will_eo w then 16 else if will_alo w then 8 else 0) + 4
     | None => 0 end)
  + (if cfg_clean c then 2 else 0).
Definition connect_size (c : cfg) (cid : list N) : N :=
  12 + len cid
  + (if has_user c then 2 + len (cfg_user c) else 0)
  + (match cfg_pass c with Some p => 2 + len p | None => 0 end)
  + (match cfg_will c with Some w => 4 + len (will_topic w) + len (will_msg w) | None => 0 end).
Definition connect_packet (c : cfg) (cid : list N) : list N :=
  16 :: varint (connect_size c cid)
     ++ [0; 4; 77; 81; 84; 84; 4; connect_flags c]
     ++ be16 (cfg_keepalive c) ++ be16 (len cid) ++ cid
     ++ (match cfg_will c with
         | Some w => be16 (len (will_topic w)) ++ will_topic w ++ be16 (len (will_msg w)) ++ will_msg w
         | None => [] end)
     ++ (if has_user c then be16 (len (cfg_user c)) ++ cfg_user c else [])
     ++ (match cfg_pass c with Some p => be16 (len p) ++ p | None => [] end).
