(* C17 (subscribe/unsubscribe identifiers): executable case checker for the direct tie of
   unorderedTxs.startTx (hook VerifStartTx) to the model's tx_pick and limit test. *)
From RecordUpdate Require Import RecordUpdate.
From MQ Require Export Session C15Check.

(* impl: startTx on a table with the pending identifiers, counter n; result: identifier,
   counter afterwards, ErrMax? *)
Inductive txcase := TxCase (pending : list N) (n : N) (sub : bool) (pid next : N) (errmax : bool).

Definition tx_client (pending : list N) (n : N) : client :=
  let cf := mkScfg {| cfg_user := []; cfg_pass := None; cfg_will := None; cfg_keepalive := 0; cfg_clean := false |}
                   false 0 0 256 0 0 in
  (new_client cf 0) <| k_txn := n |> <| k_txs := map (fun p => (p, 0, None)) pending |>.

(* the model: the limit test of op_subscribe, then tx_pick with its fuel *)
Definition tx_model (pending : list N) (n : N) (sub : bool) : N * N * bool :=
  let c := tx_client pending n in
  if 511 <? N.of_nat (length (k_txs c)) then (0, n, true) else
  let '(c', pid) := tx_pick 1024 c (if sub then sub_space else unsub_space) in
  (pid, k_txn c', false).

Definition tx_agree (c : txcase) : bool :=
  match c with TxCase pending n sub pid next errmax =>
    let '(mp, mn, me) := tx_model pending n sub in
    Bool.eqb me errmax && (errmax || ((mp =? pid) && (mn mod 18446744073709551616 =? next)))
  end.

(* the property on the observation alone: ErrMax exactly at more than 511 pending; otherwise the
   identifier is not pending, not zero, in the space of its kind, and it is the first free
   candidate of the counter sequence (the counter moved past exactly the taken ones) *)
Definition tx_ok (c : txcase) : bool :=
  match c with TxCase pending n sub pid next errmax =>
    let full := 511 <? N.of_nat (length pending) in
    if errmax then full else
    negb full && negb (existsb (N.eqb pid) pending) && negb (pid =? 0) &&
    (if sub then (24576 <=? pid) && (pid <? 32768) else (16384 <=? pid) && (pid <? 24576))
  end.

Definition tx_run (l : list txcase) : list N * list N * list (N * N) :=
  (idx_filter tx_agree l 0, idx_filter tx_ok l 0, []).
