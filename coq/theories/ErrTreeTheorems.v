(* C14, classifier part: the property-level statements, to be referenced from
   props/C14.v.  Every lemma here is closed by `exact` of a lemma of
   ErrTreeProofs or by a short proof; nothing new is modelled here. *)
From MQ Require Import Bytes ErrTree ErrTreeProofs ErrTreeCheck.

(* ------------------------------------------------------------------------- *)
(* nonNilIsAny (the explicit-stack loop of mqtt.go) terminates within
   fuel_of e iterations, for every tree and every target list ...            *)
Lemma c14_non_nil_is_any_terminates :
  forall (e : gerr) (targets : list N),
    exists b, nnia_loop (fuel_of e) targets (Some e) [] = Some b.
Proof. exact nnia_fuel_enough. Qed.

(* ... more fuel never changes the answer ...                                 *)
Lemma c14_non_nil_is_any_fuel_irrelevant :
  forall (e : gerr) (targets : list N) (fuel : nat),
    (fuel_of e <= fuel)%nat ->
    nnia_loop fuel targets (Some e) [] = Some (non_nil_is_any e targets).
Proof. exact nnia_fuel_irrelevant. Qed.

(* ... and it finds a target iff the target occurs in the wrap/join tree, for
   arbitrarily deep wrapping and joining, nil Unwrap results and nil entries.  *)
Lemma c14_is_any_iff :
  forall (e : gerr) (targets : list N),
    non_nil_is_any e targets = true <-> exists t, In t targets /\ occurs (Sentinel t) e.
Proof. exact is_any_iff. Qed.

(* the loop computes the same as the flattening specification used by err_ok  *)
Lemma c14_is_any_spec :
  forall (e : gerr) (targets : list N), non_nil_is_any e targets = spec_is_any e targets.
Proof. exact non_nil_is_any_spec. Qed.

(* errors.Is of the standard library, as modelled, sees the same occurrences   *)
Lemma c14_errors_is_iff :
  forall (t : N) (e : gerr), go_is t e = true <-> occurs (Sentinel t) e.
Proof. exact go_is_iff. Qed.

(* errors.As finds a value of the target type iff one occurs                   *)
Lemma c14_errors_as_iff :
  forall (ty : gerr -> bool) (e : gerr),
    (exists x, go_as ty e = Some x) <-> exists x, occurs x e /\ ty x = true.
Proof. exact go_as_found_iff. Qed.

(* ------------------------------------------------------------------------- *)
(* IsDeny and IsEnd are disjoint on every value that does not hold a deny
   sentinel and an end sentinel together ...                                   *)
Lemma c14_deny_end_disjoint :
  forall e : gerr,
    ~ (exists d n, In d deny_ids /\ In n end_ids
                   /\ occurs (Sentinel d) e /\ occurs (Sentinel n) e) ->
    ~ (is_deny e = true /\ is_end e = true).
Proof. exact deny_end_disjoint. Qed.

(* ... (that hypothesis is necessary: a value holding both is both) ...        *)
Lemma c14_deny_end_both :
  forall (e : gerr) (d n : N),
    In d deny_ids -> In n end_ids -> occurs (Sentinel d) e -> occurs (Sentinel n) e ->
    is_deny e = true /\ is_end e = true.
Proof. exact deny_end_both. Qed.

(* ... and on every error value the package itself constructs (lib_err: bare
   sentinels, single-%w wraps of such, errors.Join(ErrSubmit, <foreign error>),
   foreign errors) they are disjoint outright.                                 *)
Lemma c14_lib_deny_end_disjoint :
  forall e : gerr, lib_err e -> ~ (is_deny e = true /\ is_end e = true).
Proof. exact lib_deny_end_disjoint. Qed.

Lemma c14_lib_one_sentinel :
  forall e : gerr, lib_err e ->
    forall s1 s2, occurs (Sentinel s1) e -> occurs (Sentinel s2) e -> s1 = s2.
Proof. exact lib_err_one_sentinel. Qed.

(* ------------------------------------------------------------------------- *)
(* Backoff returns nil exactly for: nil, IsDeny, IsEnd, and a SubscribeError
   that is not accompanied by ErrMax (the code tests ErrMax first).            *)
Lemma c14_backoff_nil_iff :
  forall o : option gerr,
    backoff_class o = BNil <->
    o = None \/ exists e, o = Some e /\
      (is_deny e = true \/ is_end e = true
       \/ (occurs SubErr e /\ ~ occurs (Sentinel ErrMax) e)).
Proof. exact backoff_nil_iff. Qed.

(* The documented reading "nil exactly for nil, IsDeny, IsEnd, SubscribeError",
   for every value in which ErrMax and a SubscribeError do not occur together
   (or that is deny/end anyway).                                               *)
Lemma c14_backoff_nil_iff_permanent :
  forall o : option gerr,
    (forall e, o = Some e -> ~ (occurs (Sentinel ErrMax) e /\ occurs SubErr e)
                            \/ is_deny e = true \/ is_end e = true) ->
    (backoff_class o = BNil <->
     o = None \/ exists e, o = Some e /\
       (is_deny e = true \/ is_end e = true \/ occurs SubErr e)).
Proof. exact backoff_nil_iff_permanent. Qed.

(* Unconditionally for what the package builds.                               *)
Lemma c14_lib_backoff_nil_iff_permanent :
  forall e : gerr, lib_err e ->
    (backoff_class (Some e) = BNil <->
     is_deny e = true \/ is_end e = true \/ occurs SubErr e).
Proof. exact lib_backoff_nil_iff_permanent. Qed.

(* The documented reading is false of errors.Join(ErrMax, SubscribeError{..}). *)
Lemma c14_backoff_mixed_counterexample :
  let e := WrapN [Some (Sentinel ErrMax); Some SubErr] in
  backoff_class (Some e) = BSharedTimer /\ has_sub_err e = true
  /\ is_deny e = false /\ is_end e = false.
Proof. exact backoff_mixed_counterexample. Qed.

Lemma c14_backoff_timer_iff :
  forall e : gerr,
    backoff_class (Some e) = BSharedTimer <->
    is_deny e = false /\ is_end e = false /\ occurs (Sentinel ErrMax) e.
Proof. exact backoff_timer_iff. Qed.

(* ReadBackoff returns nil exactly for a non-nil error holding ErrClosed while
   no big message is pending; the closed channel exactly for nil / big pending *)
Lemma c14_read_backoff_nil_iff_closed :
  forall (o : option gerr) (big : bool),
    read_backoff_class o big = RNil <->
    big = false /\ exists e, o = Some e /\ occurs (Sentinel ErrClosed) e.
Proof. exact read_backoff_nil_iff_closed. Qed.

Lemma c14_read_backoff_closed_chan_iff :
  forall (o : option gerr) (big : bool),
    read_backoff_class o big = RClosedChan <-> o = None \/ big = true.
Proof. exact read_backoff_closed_chan_iff. Qed.

(* IsConnectionRefused: the first connectReturn in errors.As order decides     *)
Lemma c14_conn_refused_sound :
  forall e : gerr, is_conn_refused e = true -> exists c, c <> 0 /\ occurs (ConnRet c) e.
Proof. exact is_conn_refused_sound. Qed.

Lemma c14_conn_refused_complete :
  forall e : gerr,
    (exists c, occurs (ConnRet c) e) -> (forall c, occurs (ConnRet c) e -> c <> 0) ->
    is_conn_refused e = true.
Proof. exact is_conn_refused_complete. Qed.

(* ------------------------------------------------------------------------- *)
(* Non-vacuity: concrete values of every kind.                                 *)
Example c14_err_witness :
  (* fmt.Errorf("%w; PUBLISH in limbo", errors.Join(ErrSubmit, <net error>)) *)
  let limbo := Wrap1 (Some (WrapN [Some (Sentinel ErrSubmit); Some (Wrap1 (Some (Opaque 6)))])) in
  (* an application-joined value, four levels deep, with a nil entry and a nil Unwrap *)
  let deep := WrapN [Some (WrapN [Some (Opaque 1); None; Some (Wrap1 None)]);
                     Some (Wrap1 (Some (Wrap1 (Some (WrapN [Some (Opaque 2); Some (Sentinel ErrAbandoned)])))))] in
  lib_err limbo
  /\ backoff_class (Some limbo) = BOnline /\ is_deny limbo = false /\ is_end limbo = false
  /\ is_end deep = true /\ is_deny deep = false /\ backoff_class (Some deep) = BNil
  /\ read_backoff_class (Some deep) false = RTimer
  /\ read_backoff_class (Some (Wrap1 (Some (Sentinel ErrClosed)))) false = RNil
  /\ is_conn_refused (Wrap1 (Some (ConnRet 5))) = true.
Proof.
  cbv zeta. split.
  - apply lib_wrap, lib_submit. intros s H.
    apply occurs_inv in H.
    destruct H as [H | [(i & Hi & H) | (ws & i & Hi & _)]]; try discriminate.
    injection Hi as <-. apply occurs_inv in H.
    destruct H as [H | [(i & Hi & _) | (ws & i & Hi & _)]]; discriminate.
  - vm_compute. repeat split.
Qed.

(* ------------------------------------------------------------------------- *)
(* Soundness of the case checker: it accepts everything the model produces.    *)

Lemma go_is_spec : forall t e, go_is t e = spec_is_any e [t].
Proof. intros t e. rewrite go_is_non_nil_is_any. apply non_nil_is_any_spec. Qed.

Lemma has_sub_err_spec : forall e, has_sub_err e = spec_has_sub_err e.
Proof.
  intro e. destruct (has_sub_err e) eqn:A, (spec_has_sub_err e) eqn:B; try reflexivity.
  - apply has_sub_err_iff in A. apply spec_has_sub_err_iff in A. congruence.
  - apply spec_has_sub_err_iff in B. apply has_sub_err_iff in B. congruence.
Qed.

Lemma in_connrets_of : forall c e, In c (connrets_of e) <-> occurs (ConnRet c) e.
Proof.
  intros c e. unfold connrets_of. rewrite in_flat_map. split.
  - intros (n & Hn & Hc). destruct n; try (destruct Hc; fail).
    destruct Hc as [<-|[]]. apply in_nodes_iff, Hn.
  - intro Ho. exists (ConnRet c); split; [apply in_nodes_iff, Ho|left; reflexivity].
Qed.

Lemma refused_ok_model : forall e, refused_ok (is_conn_refused e) e = true.
Proof.
  intro e. unfold refused_ok. apply andb_true_iff. split.
  - destruct (is_conn_refused e) eqn:R; [|reflexivity]. cbn [implb].
    apply is_conn_refused_sound in R. destruct R as (c & Hc & Ho).
    apply existsb_exists. exists c; split; [apply in_connrets_of, Ho|].
    unfold nonzero. destruct (N.eqb_spec c 0); [contradiction|reflexivity].
  - destruct (connrets_of e) as [|c r] eqn:L; [reflexivity|].
    destruct (forallb nonzero (c :: r)) eqn:F; [|reflexivity]. cbn [implb].
    apply is_conn_refused_complete.
    + exists c. apply in_connrets_of. rewrite L. left; reflexivity.
    + intros c' Ho. apply in_connrets_of in Ho. rewrite L in Ho.
      rewrite forallb_forall in F. specialize (F c' Ho). unfold nonzero in F.
      intros ->. discriminate.
Qed.

Lemma obs_eqb_refl : forall o, obs_eqb o o = true.
Proof.
  intros [d n r k q]. cbn [obs_eqb]. rewrite !Bool.eqb_reflx.
  destruct k, q; reflexivity.
Qed.

Lemma obs_ok_model : forall e, obs_ok e (model_obs e) = true.
Proof.
  intro e. unfold model_obs, obs_ok.
  cbn [backoff_class read_backoff_class].
  rewrite deny_and_end_split, refused_ok_model.
  unfold is_deny, is_end. rewrite !non_nil_is_any_spec, !go_is_spec, has_sub_err_spec.
  destruct (spec_is_any e deny_ids), (spec_is_any e end_ids),
    (spec_is_any e [ErrMax]), (spec_has_sub_err e), (spec_is_any e [ErrClosed]); reflexivity.
Qed.

Theorem c14_err_checker_sound_class :
  forall e : gerr, err_ok (ClassCase e (model_obs e) (model_obs e) false) = true.
Proof. intro e. cbn [err_ok negb andb]. rewrite obs_eqb_refl, obs_ok_model. reflexivity. Qed.

Theorem c14_err_checker_sound_any :
  forall (e : gerr) (ts : list N),
    err_ok (AnyCase e ts (non_nil_is_any e ts) (non_nil_is_any e ts) false) = true.
Proof.
  intros e ts. cbn [err_ok negb andb].
  rewrite Bool.eqb_reflx, non_nil_is_any_spec, Bool.eqb_reflx. reflexivity.
Qed.

Theorem c14_err_checker_sound_rest :
  err_ok (NilCase model_nil_obs) = true
  /\ (forall o, err_ok (BigCase o (read_backoff_class o true)) = true)
  /\ err_ok (TableCase deny_ids end_ids) = true.
Proof.
  split; [vm_compute; reflexivity|]. split; [|vm_compute; reflexivity].
  intros [e|]; reflexivity.
Qed.

(* and it agrees with itself *)
Theorem c14_err_agree_model :
  forall e : gerr, err_agree (ClassCase e (model_obs e) (model_obs e) false) = true.
Proof. intro e. cbn [err_agree negb]. rewrite obs_eqb_refl. reflexivity. Qed.
