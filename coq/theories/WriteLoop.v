(* L1: the write loops of client.go (writeTo, writeBuffersTo) over a scripted
   connection.  net.Buffers.WriteTo on a non-TCP writer is one Write call per buffer
   followed by an in-place consume(n).  Definitions only. *)
From MQ Require Export Bytes.

(* outcome classes of one conn.Write call *)
Inductive wres :=
| WOk                (* err == nil: the whole argument was accepted *)
| WTimeout           (* net.Error with Timeout() *)
| WClosed            (* net.ErrClosed / io.ErrClosedPipe *)
| WHard              (* any other error *)
| WNoTape.           (* the script ran out: never in a well-formed run *)

(* scripted answer: bytes accepted by this call (clamped to the argument), result *)
Definition wanswer := (N * wres)%type.

(* one call as the connection saw it: argument and number of bytes accepted *)
Definition wcall := (list N * N)%type.

Definition accepted (c : wcall) : list N := firstn (N.to_nat (snd c)) (fst c).
Definition accepted_all (cs : list wcall) : list N := flat_map accepted cs.

(* writeTo(conn, p, idleTimeout): an empty argument is accepted without consulting the script *)
Fixpoint write_to (fuel : nat) (p : list N) (tape : list wanswer)
  : list wcall * wres * list wanswer :=
  match fuel with
  | O => ([], WNoTape, tape)
  | S f =>
    match p with
    | [] => ([([], 0)], WOk, tape)
    | _ =>
      match tape with
      | [] => ([(p, 0)], WNoTape, [])
      | (n0, r) :: t =>
        let n := N.min n0 (len p) in
        match r with
        | WOk => ([(p, len p)], WOk, t)
        | WTimeout =>
          if n =? 0 then ([(p, 0)], WTimeout, t)
          else let '(cs, res, t') := write_to f (skipn (N.to_nat n) p) t in
               ((p, n) :: cs, res, t')
        | _ => ([(p, n)], r, t)
        end
      end
    end
  end.
Definition write_to_run (p : list N) (tape : list wanswer) := write_to (S (S (length p))) p tape.

(* net.Buffers.WriteTo: one Write per buffer until the first error; returns the calls,
   the total accepted, the result, and the tape *)
Fixpoint buffers_write (bs : list (list N)) (tape : list wanswer)
  : list wcall * N * wres * list wanswer :=
  match bs with
  | [] => ([], 0, WOk, tape)
  | b :: rest =>
    match b with
    | [] => let '(cs, n, r, t) := buffers_write rest tape in (([], 0) :: cs, n, r, t)
    | _ =>
      match tape with
      | [] => ([(b, 0)], 0, WNoTape, [])
      | (n0, r) :: t =>
        match r with
        | WOk => let '(cs, n, r', t') := buffers_write rest t in ((b, len b) :: cs, len b + n, r', t')
        | _ => let n := N.min n0 (len b) in ([(b, n)], n, r, t)
        end
      end
    end
  end.

(* Buffers.consume(n) *)
Fixpoint consume (bs : list (list N)) (n : N) : list (list N) :=
  match bs with
  | [] => []
  | b :: rest => if n <? len b then skipn (N.to_nat n) b :: rest else consume rest (n - len b)
  end.

(* writeBuffersTo (with the F1 repair: the bytes WriteTo reported are not skipped again) *)
Fixpoint write_buffers_to (fuel : nat) (bs : list (list N)) (tape : list wanswer)
  : list wcall * wres * list wanswer :=
  match fuel with
  | O => ([], WNoTape, tape)
  | S f =>
    let '(cs, n, r, t) := buffers_write bs tape in
    match r with
    | WOk => (cs, WOk, t)
    | WTimeout =>
      if n =? 0 then (cs, WTimeout, t)
      else let '(cs', res, t') := write_buffers_to f (consume bs n) t in (cs ++ cs', res, t')
    | _ => (cs, r, t)
    end
  end.
Definition total_len (bs : list (list N)) : nat := length (concat bs).
Definition write_buffers_to_run (bs : list (list N)) (tape : list wanswer) :=
  write_buffers_to (S (S (total_len bs))) bs tape.

(* The loop as it was before the repair (F1), kept to state the refutation: after a
   progress-making expiry the already consumed buffers are skipped by n bytes again. *)
Fixpoint skip_again (bs : list (list N)) (offset : N) : list (list N) :=
  match bs with
  | [] => []
  | b :: rest => if offset <? len b then skipn (N.to_nat offset) b :: rest else skip_again rest (offset - len b)
  end.
Fixpoint write_buffers_to_f1 (fuel : nat) (bs : list (list N)) (tape : list wanswer)
  : list wcall * wres * list wanswer :=
  match fuel with
  | O => ([], WNoTape, tape)
  | S f =>
    let '(cs, n, r, t) := buffers_write bs tape in
    match r with
    | WOk => (cs, WOk, t)
    | WTimeout =>
      if n =? 0 then (cs, WTimeout, t)
      else let '(cs', res, t') := write_buffers_to_f1 f (skip_again (consume bs n) n) t in (cs ++ cs', res, t')
    | _ => (cs, r, t)
    end
  end.
