(* C14 / C12 (Close and Disconnect against a transport whose Close fails): executable case checker
   for runner C14DISC. The session model's world has no answer for conn.Close (QClose is told, not
   asked), so the branch "DISCONNECT written, Close failed" of Client.Disconnect and the result of
   Client.Close are modelled here, on top of Session.op_close / op_disconnect's classes. *)
From MQ Require Export Session C15Check.

Inductive tstate := TFresh | TOnline | TClosed.       (* never connected / online / closed before *)
Inductive top := TClose | TDisc | TDiscQuit.          (* Close, Disconnect(open quit), Disconnect(closed quit) *)

(* impl: state, call, scripted answers of the connection's Write, whether conn.Close fails;
   observed: class of the returned error, bytes of the call the transport accepted, whether the
   transport's Close was invoked, class of a Ping afterwards, class of ReadSlices afterwards *)
Inductive termcase :=
  TermCase (st : tstate) (op : top) (tape : list wanswer) (cf : bool)
           (cls wrote : N) (closed : bool) (ping rd : N).

Definition E_hard : err := 1 + 524288.

(* the write of DISCONNECT under the scripted answers: result and bytes accepted *)
Definition disc_write (tape : list wanswer) : wres * N :=
  let '(calls, r, _) := write_to_run packet_disconnect tape in
  (r, N.of_nat (length (accepted_all calls))).

(* allowed (class, bytes accepted) outcomes: Disconnect with a closed quit channel chooses between
   the quit branch and the write branch when both are ready *)
Definition term_model (st : tstate) (op : top) (tape : list wanswer) (cf : bool) : list (err * N) :=
  let written :=
    let '(r, n) := disc_write tape in
    match r with
    | WOk => (if cf then N.lor (1 + 64) E_hard else E_nil, n)
    | _ => (E_submit r, n)
    end in
  match st, op with
  | TClosed, TClose => [(E_nil, 0)]
  | TClosed, _ => [(E_closed, 0)]
  | TFresh, TClose => [(E_nil, 0)]
  | TFresh, TDisc => [(E_down, 0)]
  | TFresh, TDiscQuit => [(E_down, 0); (E_canceled, 0)]
  | TOnline, TClose => [(if cf then E_hard else E_nil, 0)]
  | TOnline, TDisc => [written]
  | TOnline, TDiscQuit => [written; (E_canceled, 0)]
  end.

Definition term_agree (c : termcase) : bool :=
  match c with TermCase st op tape cf cls wrote _ _ _ =>
    existsb (fun p => (fst p =? cls) && (snd p =? wrote)) (term_model st op tape cf)
  end.

Definition tbit (e b : N) : bool := negb (N.land e b =? 0).

(* the documented contract, on class and bytes alone *)
Definition term_cls_ok (op : top) (cls wrote : N) : bool :=
  match op with
  | TClose =>
    (* nil or the transport's error: none of the library's classes *)
    negb (tbit cls 2 || tbit cls 4 || tbit cls 8 || tbit cls 16 || tbit cls 32 || tbit cls 64 || tbit cls 128 || tbit cls 256)
  | _ =>
    (* Disconnect: nil, ErrClosed, ErrDown, ErrCanceled, or else ErrSubmit; the first three mean
       that no byte was sent; nil means the request went out whole *)
    ((cls =? 0) || tbit cls 2 || tbit cls 4 || tbit cls 16 || tbit cls 64) && negb (tbit cls 256) &&
    (if tbit cls 2 || tbit cls 4 || tbit cls 16 then wrote =? 0 else true) &&
    (if cls =? 0 then wrote =? 2 else true)
  end.

(* judged on the observation alone *)
Definition term_ok (c : termcase) : bool :=
  match c with TermCase st op _ _ cls wrote closed ping rd =>
    term_cls_ok op cls wrote &&
    negb (tbit cls 2097152) && negb (tbit cls 4194304)
  end.

(* C12's share: the connection was closed, later calls get ErrClosed, nothing panicked or hung *)
Definition term_ok_c12 (c : termcase) : bool :=
  match c with TermCase st op _ _ cls wrote closed ping rd =>
    (match st with TOnline => closed | _ => true end) &&
    tbit ping 2 && tbit rd 2 &&
    negb (tbit cls 2097152) && negb (tbit cls 4194304) && negb (tbit ping 4194304) && negb (tbit rd 4194304)
  end.
(* C12 compares the projection it is about: the bytes sent (which error class comes back is C14's) *)
Definition term_agree_c12 (c : termcase) : bool :=
  match c with TermCase st op tape cf cls wrote _ _ _ =>
    existsb (fun p => snd p =? wrote) (term_model st op tape cf)
  end.
Definition term_run_c12 (l : list termcase) : list N * list N * list (N * N) :=
  (idx_filter term_agree_c12 l 0, idx_filter term_ok_c12 l 0, []).

Definition term_run (l : list termcase) : list N * list N * list (N * N) :=
  (idx_filter term_agree l 0, idx_filter term_ok l 0, []).

(* ---- the model meets the contract, for every script of the transport ---- *)

Lemma tbit_lor e f b : tbit (N.lor e f) b = tbit e b || tbit f b.
Proof.
  unfold tbit. rewrite N.land_lor_distr_l.
  destruct (N.land e b =? 0) eqn:A, (N.land f b =? 0) eqn:B; cbn;
    rewrite ?N.eqb_eq, ?N.eqb_neq in *.
  - rewrite A, B. reflexivity.
  - rewrite A. cbn. destruct (N.land f b); [congruence|reflexivity].
  - apply Bool.negb_true_iff, N.eqb_neq. intros H. apply N.lor_eq_0_iff in H as [H _]. congruence.
  - apply Bool.negb_true_iff, N.eqb_neq. intros H. apply N.lor_eq_0_iff in H as [H _]. congruence.
Qed.

Lemma submit_cls_ok r n : r <> WOk -> term_cls_ok TDisc (E_submit r) n = true.
Proof. intros H. destruct r; try congruence; reflexivity. Qed.

From MQ Require Import WriteLoopProofs.

(* Every outcome the model allows, for every script of the transport's Write, is within the
   documented contract: the model of Close/Disconnect satisfies the C14 clause for Disconnect. *)
Theorem term_model_in_contract st op tape cf p :
  snd (fst (write_to_run packet_disconnect tape)) <> WNoTape ->
  In p (term_model st op tape cf) -> term_cls_ok op (fst p) (snd p) = true.
Proof.
  intros NT H.
  assert (W : forall cs r t, write_to_run packet_disconnect tape = (cs, r, t) -> r <> WNoTape ->
              term_cls_ok TDisc (match r with WOk => if cf then N.lor (1 + 64) E_hard else E_nil | _ => E_submit r end)
                                (N.of_nat (length (accepted_all cs))) = true).
  { intros cs r t E Hr. destruct (write_to_prefix _ _ _ _ _ _ E) as [_ Hok].
    destruct r; try reflexivity; try congruence.
    rewrite (Hok eq_refl). destruct cf; reflexivity. }
  unfold term_model, disc_write in H.
  destruct (write_to_run packet_disconnect tape) as [[cs r] t] eqn:E. cbn [fst snd] in NT.
  specialize (W cs r t eq_refl NT).
  destruct st, op; cbn [In] in H;
    repeat match goal with H : _ \/ _ |- _ => destruct H as [H|H] | H : False |- _ => destruct H end;
    subst p; cbn [fst snd]; try reflexivity; try (destruct cf; reflexivity);
    destruct r; try exact W; try congruence.
Qed.
