(* L4, protocol level: a CLASS of system-call traces ("disciplined" traces) for which Save is
   atomic at every stop point, whatever the chunking of the data writes and whatever else the
   trace does on other names.  The executable model of Save (FS.save_calls) is one member of
   the class; a Save that writes the record with one write, or with any other split, or that
   fsyncs the directory afterwards, is another.  The scanner [disciplined] is executable: the
   correspondence run applies it to the calls strace recorded (C19Check.c19_agree_gen).

   Discipline, for key file kn and spool file sp (kn <> sp):
   - nothing touches kn except close/rmdir attempts (no effect) and ONE kind of rename:
     rename(sp, kn) at a moment when sp holds exactly [new] and an fsync covered all of it;
   - sp may be created, written in any number of pieces, fsynced, closed, unlinked, renamed
     away; the scanner tracks its content when it knows it ([sp_cont] = Some _ after a creat);
   - calls on other names are unconstrained. *)
From Coq Require Import ZArith.
From MQ Require Import Bytes FS FSProofs.

(* ------------------------------------------------------------------ *)

Section Discipline.
Variables (kn sp : fname) (new : list N).
Hypothesis kn_ne_sp : kn <> sp.

(* what the scanner knows about the spool file is true of the directory *)
Definition dinv (d : dir) (s : dst) : Prop :=
  forall x, sp_cont s = Some x -> lookup sp d = Some (mkfile x (sp_sync s)).

(* under the key name: what was there at the start, or the new record, complete and flushed *)
Definition old_or_new (d0 d : dir) : Prop :=
  lookup kn d = lookup kn d0 \/ lookup kn d = Some (mkfile new true).

Lemma touchesb_false : forall n c, touchesb n c = false -> ~ In n (touches c).
Proof.
  intros n c H A. unfold touchesb in H.
  assert (existsb (name_eqb n) (touches c) = true) as E.
  { apply existsb_exists. exists n. split; [exact A | apply name_eqb_refl]. }
  congruence.
Qed.

Lemma touchesb_true : forall n c, touchesb n c = true -> In n (touches c).
Proof.
  intros n c H. unfold touchesb in H. apply existsb_exists in H.
  destruct H as [m [A B]]. apply name_eqb_true in B. subst m. exact A.
Qed.

Lemma list_eqb_eq : forall a b : list N, list_eqb a b = true -> a = b.
Proof. intros a b H. apply name_eqb_true. exact H. Qed.

Lemma dstep_sound : forall s c s' d0 d,
  dstep kn sp new s c = Some s' -> dinv d s -> old_or_new d0 d ->
  dinv (apply d c) s' /\ old_or_new d0 (apply d c).
Proof.
  intros s c s' d0 d H I P. unfold dstep in H.
  destruct (touchesb kn c) eqn:Tk.
  - (* the call names the key file *)
    destruct c as [m|m b|m|m|a b|m|m]; try discriminate.
    + (* Close *) inversion H; subst s'. split; assumption.
    + (* Rename *)
      destruct (name_eqb a sp && name_eqb b kn && sp_sync s && cont_is s new) eqn:G; [|discriminate].
      inversion H; subst s'. clear H.
      apply andb_prop in G. destruct G as [G Gc]. apply andb_prop in G. destruct G as [G Gs].
      apply andb_prop in G. destruct G as [Ga Gb].
      apply name_eqb_true in Ga. apply name_eqb_true in Gb. subst a b.
      unfold cont_is in Gc. destruct (sp_cont s) as [x|] eqn:Ec; [|discriminate].
      apply list_eqb_eq in Gc. subst x.
      pose proof (I new Ec) as L. rewrite Gs in L.
      split.
      * intros x Hx. discriminate.
      * right. cbn [apply]. rewrite L. rewrite lookup_bind, name_eqb_refl. reflexivity.
    + (* Rmdir *) inversion H; subst s'. split; assumption.
  - (* the key file is not touched: its entry stays *)
    assert (lookup kn (apply d c) = lookup kn d) as Fk
      by (apply apply_frame, touchesb_false, Tk).
    assert (old_or_new d0 (apply d c)) as P'.
    { unfold old_or_new in *. rewrite Fk. exact P. }
    split; [|exact P'].
    destruct (touchesb sp c) eqn:Ts.
    + apply touchesb_true in Ts.
      destruct c as [m|m b|m|m|a b|m|m]; cbn [touches In] in Ts.
      * (* Creat sp *) destruct Ts as [->|[]]. inversion H; subst s'.
        intros x Hx. cbn [sp_cont] in Hx. inversion Hx; subst x.
        cbn [apply sp_sync]. rewrite lookup_bind, name_eqb_refl. reflexivity.
      * (* Write sp b *) destruct Ts as [->|[]]. inversion H; subst s'.
        intros x Hx. cbn [sp_cont] in Hx.
        destruct (sp_cont s) as [y|] eqn:Ec; cbn [option_map] in Hx; [|discriminate].
        inversion Hx; subst x. cbn [apply sp_sync].
        rewrite (I y Ec). rewrite lookup_bind, name_eqb_refl. reflexivity.
      * (* Fsync sp *) destruct Ts as [->|[]]. inversion H; subst s'.
        intros x Hx. cbn [sp_cont] in Hx. cbn [apply sp_sync].
        rewrite (I x Hx). rewrite lookup_bind, name_eqb_refl. reflexivity.
      * (* Close *) inversion H; subst s'. exact I.
      * (* Rename from or to the spool file: content unknown afterwards *)
        inversion H; subst s'. intros x Hx. discriminate.
      * (* Unlink *) inversion H; subst s'. intros x Hx. discriminate.
      * (* Rmdir *) inversion H; subst s'. exact I.
    + inversion H; subst s'.
      intros x Hx. rewrite apply_frame by (apply touchesb_false, Ts). apply I, Hx.
Qed.

(* a data write that passes the scanner does not name the key file; neither does a part of it *)
Lemma dstep_write_not_key : forall s n b s',
  dstep kn sp new s (Write n b) = Some s' -> n <> kn.
Proof.
  intros s n b s' H E. subst n. unfold dstep, touchesb in H. cbn [touches existsb] in H.
  rewrite name_eqb_refl in H. cbn in H. discriminate.
Qed.

Theorem disciplined_atomic_gen : forall l s d0 d,
  dinv d s -> old_or_new d0 d -> disciplined kn sp new s l = true ->
  forall p, stop_prefix p l -> old_or_new d0 (run d p).
Proof.
  induction l as [|c l IH]; intros s d0 d I P D p Hp.
  - inversion Hp; subst. exact P.
  - cbn [disciplined] in D. destruct (dstep kn sp new s c) as [s'|] eqn:E; [|discriminate].
    inversion Hp as [ | c' p' l' Hp' | n b j l' ]; subst.
    + exact P.
    + rewrite run_cons. destruct (dstep_sound _ _ _ d0 d E I P) as [I' P'].
      eapply IH; eassumption.
    + rewrite run_single.
      assert (n <> kn) as Hn by (eapply dstep_write_not_key; exact E).
      unfold old_or_new in *. rewrite apply_frame; [exact P|].
      cbn [touches In]. intros [A|[]]. congruence.
Qed.

(* C19 for the whole class: a process that stops anywhere in a disciplined trace, even in the
   middle of a data write, leaves under the key name the old entry or the complete, flushed
   new record. *)
Theorem disciplined_atomic : forall l d p,
  disciplined kn sp new dst0 l = true -> stop_prefix p l ->
  lookup kn (run d p) = lookup kn d \/ lookup kn (run d p) = Some (mkfile new true).
Proof.
  intros l d p D Hp.
  apply (disciplined_atomic_gen l dst0 d d); try assumption.
  - intros x Hx. discriminate.
  - left. reflexivity.
Qed.

(* a disciplined trace without the rename leaves the key entry alone, at every stop point *)
Lemma no_rename_keeps_gen : forall l s d,
  disciplined kn sp new s l = true -> renamed_in kn sp l = false ->
  forall p, stop_prefix p l -> lookup kn (run d p) = lookup kn d.
Proof.
  induction l as [|c l IH]; intros s d D R p Hp.
  - inversion Hp; subst. reflexivity.
  - cbn [disciplined] in D. destruct (dstep kn sp new s c) as [s'|] eqn:E; [|discriminate].
    assert (lookup kn (apply d c) = lookup kn d /\ renamed_in kn sp l = false) as [F R'].
    { unfold dstep in E. destruct (touchesb kn c) eqn:Tk.
      - destruct c as [m|m b|m|m|a b|m|m]; try discriminate; cbn [renamed_in] in R.
        + split; [reflexivity | exact R].
        + destruct (name_eqb a sp && name_eqb b kn && sp_sync s && cont_is s new) eqn:G; [|discriminate].
          apply andb_prop in G. destruct G as [G _]. apply andb_prop in G. destruct G as [G _].
          rewrite G in R. discriminate.
        + split; [reflexivity | exact R].
      - split; [apply apply_frame, touchesb_false, Tk|].
        destruct c; cbn [renamed_in] in R; try exact R.
        apply Bool.orb_false_iff in R. apply R. }
    inversion Hp as [ | c' p' l' Hp' | n b j l' ]; subst.
    + reflexivity.
    + rewrite run_cons. rewrite (IH s' (apply d c) D R' p' Hp'). exact F.
    + rewrite run_single. apply apply_frame. cbn [touches In]. intros [A|[]].
      eapply dstep_write_not_key; [exact E | exact A].
Qed.

(* ---- members of the class ---- *)

(* creat; the record in ANY split; fsync; close; rename; then anything on other names *)
Definition chunked_save (chunks : list (list N)) (tail : list syscall) : list syscall :=
  Creat sp :: map (Write sp) chunks ++ [Fsync sp; Close sp; Rename sp kn] ++ tail.

Lemma kn_sp_false : name_eqb kn sp = false.
Proof. apply name_eqb_false. exact kn_ne_sp. Qed.
Lemma sp_kn_false : name_eqb sp kn = false.
Proof. apply name_eqb_false. intros E. apply kn_ne_sp. symmetry. exact E. Qed.

Lemma disciplined_writes : forall chunks x rest sy,
  disciplined kn sp new (mkdst (Some x) sy) (map (Write sp) chunks ++ rest)
  = match chunks with
    | [] => disciplined kn sp new (mkdst (Some x) sy) rest
    | _ => disciplined kn sp new (mkdst (Some (x ++ concat chunks)) false) rest
    end.
Proof.
  induction chunks as [|b r IH]; intros x rest sy; [reflexivity|].
  cbn [map app disciplined]. unfold dstep, touchesb. cbn [touches existsb].
  rewrite kn_sp_false, name_eqb_refl. cbn [orb sp_cont option_map].
  rewrite IH. destruct r as [|b' r'].
  - cbn [concat]. rewrite app_nil_r. reflexivity.
  - cbn [concat]. rewrite <- app_assoc. reflexivity.
Qed.

Definition off_names (l : list syscall) : Prop :=
  forall c, In c l -> touchesb kn c = false /\ touchesb sp c = false.

Lemma disciplined_off : forall l s, off_names l -> disciplined kn sp new s l = true.
Proof.
  induction l as [|c l IH]; intros s H; [reflexivity|].
  cbn [disciplined]. unfold dstep.
  destruct (H c (or_introl eq_refl)) as [A B]. rewrite A, B.
  apply IH. intros c' Hc'. apply H. right. exact Hc'.
Qed.

Theorem chunked_save_disciplined : forall chunks tail,
  concat chunks = new -> off_names tail ->
  disciplined kn sp new dst0 (chunked_save chunks tail) = true.
Proof.
  intros chunks tail Hc Ht. unfold chunked_save.
  cbn [disciplined]. unfold dstep at 1, touchesb. cbn [touches existsb].
  rewrite kn_sp_false, name_eqb_refl. cbn [orb].
  rewrite disciplined_writes.
  assert (forall sy, disciplined kn sp new (mkdst (Some new) sy)
                       ([Fsync sp; Close sp; Rename sp kn] ++ tail) = true) as K.
  { intros sy. cbn [app disciplined]. unfold dstep, touchesb. cbn [touches existsb].
    rewrite kn_sp_false, !name_eqb_refl. cbn [orb andb sp_cont sp_sync].
    unfold cont_is. cbn [sp_cont]. unfold list_eqb.
    destruct (list_eq_dec N.eq_dec new new) as [_|N0]; [|contradiction].
    cbn [andb]. apply disciplined_off, Ht. }
  destruct chunks as [|b r].
  - cbn [concat] in Hc. cbn [map app]. rewrite Hc. apply K.
  - cbn [app]. rewrite Hc. apply K.
Qed.

(* hence: atomic for every split of the record and every tail on other names *)
Corollary chunked_save_atomic : forall chunks tail d p,
  concat chunks = new -> off_names tail -> stop_prefix p (chunked_save chunks tail) ->
  lookup kn (run d p) = lookup kn d \/ lookup kn (run d p) = Some (mkfile new true).
Proof.
  intros chunks tail d p Hc Ht Hp.
  eapply disciplined_atomic; [apply chunked_save_disciplined; eassumption | exact Hp].
Qed.

End Discipline.
