(* L0: UTF-8 validation as done by Go's unicode/utf8.ValidString, the RFC 3629
   encoder, and the string checks of mqtt.go (stringCheck, topicCheck).
   Definitions only (executable). *)
From MQ Require Export Bytes.

(* ---------- byte classes (unicode/utf8: table [first] and [acceptRanges]) ---------- *)

Definition u_ascii (b : N) : bool := b <? 0x80.                       (* as *)
Definition u_cont  (b : N) : bool := (0x80 <=? b) && (b <=? 0xBF).    (* locb..hicb *)
Definition u_lead2 (b : N) : bool := (0xC2 <=? b) && (b <=? 0xDF).    (* s1 *)
Definition u_lead3 (b : N) : bool := (0xE0 <=? b) && (b <=? 0xEF).    (* s2 s3 s4 *)
Definition u_lead4 (b : N) : bool := (0xF0 <=? b) && (b <=? 0xF4).    (* s5 s6 s7 *)

(* acceptRanges: bounds of the second byte, selected by the lead byte *)
Definition u_lo (b0 : N) : N :=
  if b0 =? 0xE0 then 0xA0 else if b0 =? 0xF0 then 0x90 else 0x80.
Definition u_hi (b0 : N) : N :=
  if b0 =? 0xED then 0x9F else if b0 =? 0xF4 then 0x8F else 0xBF.
Definition u_second (b0 b1 : N) : bool := (u_lo b0 <=? b1) && (b1 <=? u_hi b0).

(* ---------- one code point ---------- *)

(* Decode the well-formed sequence at the head of [s]: its code point and the
   remaining bytes; [None] for an empty [s] and for everything ValidString
   rejects at this position (stray continuation, C0 C1 F5..FF, bytes >= 256,
   second byte out of its accept range, truncated sequence). *)
Definition utf8_step (s : list N) : option (N * list N) :=
  match s with
  | [] => None
  | b0 :: r0 =>
    if u_ascii b0 then Some (b0, r0) else
    match r0 with
    | [] => None
    | b1 :: r1 =>
      if u_lead2 b0 then
        if u_cont b1
        then Some ((b0 mod 32) * 64 + b1 mod 64, r1)
        else None
      else
      match r1 with
      | [] => None
      | b2 :: r2 =>
        if u_lead3 b0 then
          if u_second b0 b1 && u_cont b2
          then Some ((b0 mod 16) * 4096 + (b1 mod 64) * 64 + b2 mod 64, r2)
          else None
        else
        match r2 with
        | [] => None
        | b3 :: r3 =>
          if u_lead4 b0 then
            if u_second b0 b1 && u_cont b2 && u_cont b3
            then Some ((b0 mod 8) * 262144 + (b1 mod 64) * 4096
                       + (b2 mod 64) * 64 + b3 mod 64, r3)
            else None
          else None
        end
      end
    end
  end.

(* ---------- utf8.ValidString ---------- *)

(* Same case tree as [utf8_step]; every recursive call is on a pattern variable
   of the nested match, so the recursion is structural.
   Utf8Proofs.utf8_valid_unfold ties the two. *)
Fixpoint utf8_valid (s : list N) : bool :=
  match s with
  | [] => true
  | b0 :: r0 =>
    if u_ascii b0 then utf8_valid r0 else
    match r0 with
    | [] => false
    | b1 :: r1 =>
      if u_lead2 b0 then
        if u_cont b1 then utf8_valid r1 else false
      else
      match r1 with
      | [] => false
      | b2 :: r2 =>
        if u_lead3 b0 then
          if u_second b0 b1 && u_cont b2 then utf8_valid r2 else false
        else
        match r2 with
        | [] => false
        | b3 :: r3 =>
          if u_lead4 b0 then
            if u_second b0 b1 && u_cont b2 && u_cont b3 then utf8_valid r3 else false
          else false
        end
      end
    end
  end.

(* ---------- Unicode scalar values and the RFC 3629 encoder ---------- *)

Definition scalar (cp : N) : Prop :=
  cp < 0x110000 /\ ~ (0xD800 <= cp <= 0xDFFF).
Definition scalarb (cp : N) : bool :=
  (cp <? 0x110000) && negb ((0xD800 <=? cp) && (cp <=? 0xDFFF)).

Definition utf8_encode (cp : N) : list N :=
  if cp <? 0x80 then [cp]
  else if cp <? 0x800 then [0xC0 + cp / 64; 0x80 + cp mod 64]
  else if cp <? 0x10000 then
    [0xE0 + cp / 4096; 0x80 + (cp / 64) mod 64; 0x80 + cp mod 64]
  else
    [0xF0 + cp / 262144; 0x80 + (cp / 4096) mod 64; 0x80 + (cp / 64) mod 64;
     0x80 + cp mod 64].

(* ---------- mqtt.go: stringCheck, topicCheck ---------- *)

(* the error classes of the request-validation paths (C09) *)
Inductive deny_reason :=
| DenyStringMax | DenyUTF8 | DenyNull | DenyZero
| DenyPacketMax | DenySubscribeNone | DenyUnsubscribeNone.

Definition deny_reason_eqb (a b : deny_reason) : bool :=
  match a, b with
  | DenyStringMax, DenyStringMax | DenyUTF8, DenyUTF8 | DenyNull, DenyNull
  | DenyZero, DenyZero | DenyPacketMax, DenyPacketMax
  | DenySubscribeNone, DenySubscribeNone
  | DenyUnsubscribeNone, DenyUnsubscribeNone => true
  | _, _ => false
  end.

Definition string_max : N := 65535.   (* stringMax = 1<<16 - 1 *)

(* strings.IndexByte(s, 0) >= 0 *)
Definition has_nul (s : list N) : bool := existsb (N.eqb 0) s.

(* stringCheck: len(s) > stringMax, then !utf8.ValidString(s), then NUL *)
Definition string_check (s : list N) : option deny_reason :=
  if string_max <? N.of_nat (length s) then Some DenyStringMax
  else if negb (utf8_valid s) then Some DenyUTF8
  else if has_nul s then Some DenyNull
  else None.

(* topicCheck: s == "" first *)
Definition topic_check (s : list N) : option deny_reason :=
  match s with
  | [] => Some DenyZero
  | _ :: _ => string_check s
  end.
