(* L2: "record first, then write" for the three places of the read routine that answer a
   packet of the exactly-once exchanges (Session.v), for every client state, every packet
   body and every world (scripted or map-mode Persistence, any tapes).  Proofs only.

   Vocabulary.
     grows w w' tr          (ConnectProofs) tr are the requests the run appended to w_log,
                            OLDEST FIRST (chronological order).
     before_writes q tr     in every split tr = pre ++ QWrite cn bs :: post the request q is in
                            pre: q was made before EVERY connection write of the segment, in
                            particular before the first one.
     no_write tr            the segment contains no QWrite at all.
     "answered with success"  is stated at the level of the Persistence itself:
                            ask_store (QSave k v) w = Some (SDone, w1)  (resp. QDelete),
                            i.e. the request was made in world w and the answer the tape / the
                            map gave was SDone; together with the equation of the wrapper
                            (rugged_save ... = Some ((c1, true), w1), store_delete ... =
                            Some (true, w1)) and, when the world has a store map
                            (w_store w = Some m), the content of the map after the step.

   A.  on_pubrec   : on_pubrec_shape (all cases), on_pubrec_release_recorded,
                     on_pubrec_save_refused, on_pubrec_save_refused_run
   B.  the flush of pendingAck at the start of ReadSlices.  The code is inline in
       read_slices_body; InboundTie.flush_ack is that part as a definition and
       InboundTie.read_slices_body_flush (by reflexivity) puts it back.
                     flush_ack_pubrec_shape, flush_pubrec_marker_recorded,
                     flush_pubrec_save_refused                       (about flush_ack)
                     read_flush_pubrec_marker_recorded                (about read_slices_body,
                     read_slices; hypothesis k_rconn c = Some rc, see the remark and the
                     counterexample read_reconnect_writes_before_marker at the end of B)
   C.  on_pubrel   : on_pubrel_shape (all cases), on_pubrel_marker_deleted_first,
                     on_pubrel_delete_refused *)
From Coq Require Import ZArith Lia List Bool.
From RecordUpdate Require Import RecordUpdate.
From MQ Require Import Session WriteLoopProofs InboundProofs InboundTie.
From MQ Require Import Outbound OutboundRefine ConnectProofs ClassProofs.
Import ListNotations.

(* ------------------------------------------------------------------ *)
(* Order in a log segment                                              *)

Definition before_writes (q : req) (tr : list req) : Prop :=
  forall pre cn bs post, tr = pre ++ QWrite cn bs :: post -> In q pre.

Definition no_write (tr : list req) : Prop := forall cn bs, ~ In (QWrite cn bs) tr.

Definition not_a_write (q : req) : Prop := forall cn bs, q <> QWrite cn bs.

Lemma before_writes_head q rest : not_a_write q -> before_writes q (q :: rest).
Proof.
  intros Hq pre cn bs post E. destruct pre as [|x pre]; cbn [app] in E; inversion E as [[E1 E2]].
  - exfalso. eapply Hq. exact E1.
  - left. reflexivity.
Qed.

Lemma before_writes_app q a b : no_write a -> before_writes q b -> before_writes q (a ++ b).
Proof.
  intros Ha Hb. induction a as [|x a IH]; [exact Hb|].
  assert (Ha' : no_write a) by (intros cn bs X; eapply Ha; right; exact X).
  intros pre cn bs post E. destruct pre as [|y pre]; cbn [app] in E; inversion E as [[E1 E2]].
  - exfalso. eapply (Ha cn bs). left. exact E1.
  - right. eapply (IH Ha'). exact E2.
Qed.

Lemma no_write_nil : no_write [].
Proof. intros cn bs []. Qed.

Lemma no_write_one q : not_a_write q -> no_write [q].
Proof. intros Hq cn bs [X|[]]. eapply Hq. exact X. Qed.

Lemma no_write_app a b : no_write a -> no_write b -> no_write (a ++ b).
Proof. intros Ha Hb cn bs X. apply in_app_or in X as [X|X]; [eapply Ha|eapply Hb]; exact X. Qed.

Lemma save_not_write k v : not_a_write (QSave k v).
Proof. intros cn bs X. discriminate. Qed.
Lemma delete_not_write k : not_a_write (QDelete k).
Proof. intros cn bs X. discriminate. Qed.
Lemma close_not_write cn0 : not_a_write (QClose cn0).
Proof. intros cn bs X. discriminate. Qed.

Lemma reads_no_write rc tr : Forall (is_read rc) tr -> no_write tr.
Proof.
  intros F cn bs X. rewrite Forall_forall in F. destruct (F _ X) as (a & n & E). discriminate.
Qed.

(* a segment of connection calls holds no Persistence request *)
Lemma conn_calls_no_save tr : Forall is_conn_call tr -> forall k v, ~ In (QSave k v) tr.
Proof.
  intros F k v X. rewrite Forall_forall in F.
  destruct (F _ X) as [(cn & bs & E)|(cn & E)]; discriminate.
Qed.
Lemma conn_calls_no_delete tr : Forall is_conn_call tr -> forall k, ~ In (QDelete k) tr.
Proof.
  intros F k X. rewrite Forall_forall in F.
  destruct (F _ X) as [(cn & bs & E)|(cn & E)]; discriminate.
Qed.

Lemma grows_nil w tr : grows w w tr -> tr = [].
Proof. intros G. eapply grows_det; [exact G|apply grows_refl]. Qed.

(* ------------------------------------------------------------------ *)
(* The two Persistence wrappers, inverted down to the request          *)

Lemma rugged_save_inv c k v w c1 ok w1 :
  rugged_save c k v w = Some ((c1, ok), w1) ->
  c1 = c <| k_rseq := k_rseq c + 1 |> /\
  ask_store (QSave k (encode_value v (k_rseq c + 1))) w = Some ((if ok then SDone else SFail), w1) /\
  grows w w1 [QSave k (encode_value v (k_rseq c + 1))].
Proof.
  unfold rugged_save. cbv zeta. intros H.
  apply ConnectProofs.bind_inv in H as (a & w0 & Ha & H).
  destruct (ask_store_spec _ _ _ _ Ha) as (t & G & ->).
  destruct a; try discriminate; apply ConnectProofs.ret_inv in H as [H ->];
    inversion H; subst; auto.
Qed.

Lemma store_delete_inv2 k w ok w1 :
  store_delete k w = Some (ok, w1) ->
  ask_store (QDelete k) w = Some ((if ok then SDone else SFail), w1) /\ grows w w1 [QDelete k].
Proof.
  unfold store_delete. intros H.
  apply ConnectProofs.bind_inv in H as (a & w0 & Ha & H).
  destruct (ask_store_spec _ _ _ _ Ha) as (t & G & ->).
  destruct a; try discriminate; apply ConnectProofs.ret_inv in H as [H ->]; subst; auto.
Qed.

Lemma store_delete_ok_dels k w w1 m :
  store_delete k w = Some (true, w1) -> w_store w = Some m -> w_store w1 = Some (store_del m k).
Proof.
  intros H Hm. destruct (store_delete_trip m k _ _ _ Hm H) as (m' & Hm' & [[_ ->]|[X _]]).
  - exact Hm'.
  - discriminate.
Qed.

Lemma store_delete_fails_keeps k w w1 m :
  store_delete k w = Some (false, w1) -> w_store w = Some m -> w_store w1 = Some m.
Proof.
  intros H Hm. destruct (store_delete_trip m k _ _ _ Hm H) as (m' & Hm' & [[X _]|[_ ->]]).
  - discriminate.
  - exact Hm'.
Qed.

(* ================================================================== *)
(* A. PUBREC: the PUBREL is saved under the packet identifier, then    *)
(*    written                                                          *)

Lemma rec_guard_dec c body : rec_guard c body \/ ~ rec_guard c body.
Proof.
  unfold rec_guard.
  destruct (N.eq_dec (len body) 2) as [E1|E1]; [|tauto].
  destruct (N.eq_dec (u16 body) 0) as [E2|E2]; [tauto|].
  destruct (N.eq_dec (u16 body - N.land (u16 body) id_mask) eo_space) as [E3|E3]; [|tauto].
  destruct (N.eq_dec (u16 body) (N.lor (N.land (k_recvd c) id_mask) eo_space)) as [E4|E4]; [|tauto].
  destruct (N.ltb_spec (k_recvd c - k_compl c) (len (k_q2 c))) as [E5|E5]; [tauto|].
  right. intros (_ & _ & _ & _ & X). apply (N.lt_irrefl (len (k_q2 c))).
  eapply N.le_lt_trans; eassumption.
Qed.

(* Every run of on_pubrec, completely:
     - the packet is rejected by the guard: nothing happens at all;
     - otherwise exactly one Persistence request, the Save of the PUBREL record under the
       identifier, made in the world w the handler started in; refused: nothing else, HErr
       E_store, pendingAck cleared; done: k_recvd advances and nowait_write is run on the PUBREL
       in the world w1 the Save left, its calls are connection calls only. *)
Theorem on_pubrec_shape c body w c' r w' :
  on_pubrec c body w = Some ((c', r), w') ->
  let pid := u16 body in
  let c0 := c <| k_pack := packet_pubrel pid |> in
  let sv := QSave pid (encode_value (packet_pubrel pid) (k_rseq c + 1)) in
  (~ rec_guard c body /\ c' = c /\ r = HErr E_proto /\ w' = w)
  \/ (rec_guard c body /\ exists c1 ok w1,
        rugged_save c0 pid (packet_pubrel pid) w = Some ((c1, ok), w1) /\
        ask_store sv w = Some ((if ok then SDone else SFail), w1) /\
        grows w w1 [sv] /\
        if ok
        then exists c2 e rest,
               nowait_write (c1 <| k_recvd ::= N.succ |>) [packet_pubrel pid] true w1
               = Some ((c2, e), w') /\
               grows w1 w' rest /\ Forall is_conn_call rest /\
               r = (if e =? 0 then HOk else HErr e) /\
               c' = (if e =? 0 then c2 <| k_pack := [] |> else c2)
        else w' = w1 /\ r = HErr E_store /\ c' = c1 <| k_pack := [] |>).
Proof.
  intros H. cbv zeta.
  destruct (rec_guard_dec c body) as [G|G].
  2:{ left. rewrite (on_pubrec_violation _ _ G) in H.
      apply ConnectProofs.ret_inv in H as [H ->]. inversion H. auto. }
  right. split; [exact G|].
  destruct G as (G1 & G2 & G3 & G4 & G5).
  unfold on_pubrec in H. cbv zeta in H.
  apply N.eqb_eq in G1. apply N.eqb_neq in G2. apply N.eqb_eq in G3.
  symmetry in G4. apply N.eqb_eq in G4. apply N.leb_gt in G5.
  rewrite G1, G2, G3, G4, G5 in H. cbn [negb] in H.
  apply ConnectProofs.bind_inv in H as ([c1 ok] & w1 & Hs & H).
  change (k_pack (c <| k_pack := packet_pubrel (u16 body) |>)) with (packet_pubrel (u16 body)) in Hs.
  destruct (rugged_save_inv _ _ _ _ _ _ _ Hs) as (Hc1 & Ha & Gs).
  change (k_rseq (c <| k_pack := packet_pubrel (u16 body) |>)) with (k_rseq c) in Ha, Gs.
  exists c1, ok, w1. split; [exact Hs|]. split; [exact Ha|]. split; [exact Gs|].
  destruct ok; cbn [negb] in H.
  - apply ConnectProofs.bind_inv in H as ([c2 e] & w2 & Hn & H).
    assert (Kp : k_pack (c1 <| k_recvd ::= N.succ |>) = packet_pubrel (u16 body))
      by (rewrite Hc1; reflexivity).
    rewrite Kp in Hn.
    destruct (nowait_write_cc _ _ _ _ _ _ Hn) as (rest & G2' & _ & Hcc).
    exists c2, e, rest. split; [|split; [|split; [exact Hcc|]]].
    + destruct (e =? 0); apply ConnectProofs.ret_inv in H as [_ ->]; exact Hn.
    + destruct (e =? 0); apply ConnectProofs.ret_inv in H as [_ ->]; exact G2'.
    + destruct (e =? 0); cbn [negb] in H; apply ConnectProofs.ret_inv in H as [H _];
        inversion H; auto.
  - apply ConnectProofs.ret_inv in H as [H ->]. inversion H. auto.
Qed.

(* (A) WHAT IS STATED.  If the step wrote anything to a connection, then
     - the segment is exactly  QSave pid v :: rest  with rest connection calls only (QWrite /
       QClose): the Save is the FIRST request of the step, it is the only Persistence request,
       and it precedes every QWrite (before_writes);
     - pid = u16 body, v = encode_value (packet_pubrel pid) (k_rseq c + 1), the record
       rugged_save stores;
     - that request, made in the world w the handler started in, was answered SDone
       (ask_store ... w = Some (SDone, w1)), i.e. rugged_save returned ok = true;
     - in map mode the map after the whole step is the old one with v put under pid. *)
Theorem on_pubrec_release_recorded c body w c' r w' tr :
  on_pubrec c body w = Some ((c', r), w') -> grows w w' tr ->
  (exists cn bs, In (QWrite cn bs) tr) ->
  let pid := u16 body in
  let v := encode_value (packet_pubrel pid) (k_rseq c + 1) in
  exists c1 w1 rest,
    tr = QSave pid v :: rest /\ Forall is_conn_call rest /\
    before_writes (QSave pid v) tr /\
    ask_store (QSave pid v) w = Some (SDone, w1) /\
    rugged_save (c <| k_pack := packet_pubrel pid |>) pid (packet_pubrel pid) w
    = Some ((c1, true), w1) /\
    grows w w1 [QSave pid v] /\ grows w1 w' rest /\
    (forall m, w_store w = Some m -> w_store w' = Some (store_put m pid v)).
Proof.
  intros H G (cn & bs & Hin). cbv zeta.
  apply on_pubrec_shape in H. cbv zeta in H.
  destruct H as [(_ & _ & _ & ->)|(_ & c1 & ok & w1 & Hs & Ha & Gs & H)].
  { apply grows_nil in G. subst tr. destruct Hin. }
  destruct ok.
  - destruct H as (c2 & e & rest & Hn & G2 & Hcc & _ & _).
    assert (E : tr = [QSave (u16 body) (encode_value (packet_pubrel (u16 body)) (k_rseq c + 1))] ++ rest)
      by (eapply grows_det; [exact G|eapply grows_trans; eassumption]).
    cbn [app] in E.
    exists c1, w1, rest. split; [exact E|]. split; [exact Hcc|].
    split; [rewrite E; apply before_writes_head, save_not_write|].
    split; [exact Ha|]. split; [exact Hs|]. split; [exact Gs|]. split; [exact G2|].
    intros m Hm. eapply nowait_write_keeps_store; [exact Hn|].
    exact (rugged_save_ok_puts _ _ _ _ _ _ _ Hs Hm).
  - destruct H as (-> & _ & _).
    assert (E : tr = [QSave (u16 body) (encode_value (packet_pubrel (u16 body)) (k_rseq c + 1))])
      by (eapply grows_det; eassumption).
    subst tr. destruct Hin as [X|[]]. discriminate.
Qed.

(* (A, companion) The step made a Save request and the Persistence refused it (the answer to
   that request in the world the handler started in is SFail): the request is the one of (A),
   it is the whole segment, so no QWrite at all; the result is HErr E_store with pendingAck
   cleared, and a store map is unchanged. *)
Theorem on_pubrec_save_refused c body w c' r w' tr k v0 w1 :
  on_pubrec c body w = Some ((c', r), w') -> grows w w' tr ->
  In (QSave k v0) tr -> ask_store (QSave k v0) w = Some (SFail, w1) ->
  let pid := u16 body in
  let v := encode_value (packet_pubrel pid) (k_rseq c + 1) in
  k = pid /\ v0 = v /\ tr = [QSave pid v] /\ no_write tr /\
  r = HErr E_store /\ k_pack c' = [] /\ w' = w1 /\
  k_recvd c' = k_recvd c /\
  (forall m, w_store w = Some m -> w_store w' = Some m).
Proof.
  intros H G Hin Hf. cbv zeta.
  apply on_pubrec_shape in H. cbv zeta in H.
  destruct H as [(_ & _ & _ & ->)|(_ & c1 & ok & w2 & Hs & Ha & Gs & H)].
  { apply grows_nil in G. subst tr. destruct Hin. }
  assert (Hk : k = u16 body /\ v0 = encode_value (packet_pubrel (u16 body)) (k_rseq c + 1)).
  { destruct ok.
    - destruct H as (c2 & e & rest & _ & G2 & Hcc & _ & _).
      assert (E : tr = [QSave (u16 body) (encode_value (packet_pubrel (u16 body)) (k_rseq c + 1))] ++ rest)
        by (eapply grows_det; [exact G|eapply grows_trans; eassumption]).
      subst tr. cbn [app] in Hin. destruct Hin as [X|X]; [inversion X; auto|].
      exfalso. eapply conn_calls_no_save; eassumption.
    - destruct H as (-> & _ & _).
      assert (E : tr = [QSave (u16 body) (encode_value (packet_pubrel (u16 body)) (k_rseq c + 1))])
        by (eapply grows_det; eassumption).
      subst tr. destruct Hin as [X|[]]. inversion X; auto. }
  destruct Hk as [-> ->]. rewrite Ha in Hf. destruct ok; [discriminate|].
  inversion Hf; subst w2. destruct H as (-> & -> & ->).
  assert (E : tr = [QSave (u16 body) (encode_value (packet_pubrel (u16 body)) (k_rseq c + 1))])
    by (eapply grows_det; eassumption).
  destruct (rugged_save_inv _ _ _ _ _ _ _ Hs) as (Hc1 & _ & _).
  split; [reflexivity|]. split; [reflexivity|]. split; [exact E|].
  split; [rewrite E; apply no_write_one, save_not_write|].
  split; [reflexivity|]. split; [reflexivity|]. split; [reflexivity|].
  split; [rewrite Hc1; reflexivity|].
  intros m Hm. exact (rugged_save_fails_keeps _ _ _ _ _ _ _ Hs Hm).
Qed.

(* the same as a computation: under the guard a refused Save IS the whole run *)
Theorem on_pubrec_save_refused_run c body w c1 w1 :
  rec_guard c body ->
  rugged_save (c <| k_pack := packet_pubrel (u16 body) |>) (u16 body) (packet_pubrel (u16 body)) w
  = Some ((c1, false), w1) ->
  on_pubrec c body w = Some ((c1 <| k_pack := [] |>, HErr E_store), w1).
Proof.
  intros (G1 & G2 & G3 & G4 & G5) Hs. unfold on_pubrec. cbv zeta.
  apply N.eqb_eq in G1. apply N.eqb_neq in G2. apply N.eqb_eq in G3.
  symmetry in G4. apply N.eqb_eq in G4. apply N.leb_gt in G5.
  rewrite G1, G2, G3, G4, G5. cbn [negb].
  change (k_pack (c <| k_pack := packet_pubrel (u16 body) |>)) with (packet_pubrel (u16 body)).
  unfold bind at 1. rewrite Hs. reflexivity.
Qed.

(* ================================================================== *)
(* C. PUBREL: the reception marker is deleted, then the PUBCOMP is     *)
(*    written                                                          *)

Theorem on_pubrel_shape c body w c' r w' :
  on_pubrel c body w = Some ((c', r), w') ->
  let pid := u16 body in
  let key := N.lor pid remote_flag in
  ((len body <> 2 \/ pid = 0) /\ c' = c /\ r = HErr E_proto /\ w' = w)
  \/ (len body = 2 /\ pid <> 0 /\ exists ok w1,
        store_delete key w = Some (ok, w1) /\
        ask_store (QDelete key) w = Some ((if ok then SDone else SFail), w1) /\
        grows w w1 [QDelete key] /\
        if ok
        then (k_pack c <> [] /\ w' = w1 /\ c' = c /\ r = HErr E_other)
             \/ (k_pack c = [] /\ exists c2 e rest,
                   nowait_write (c <| k_pack := packet_pubcomp pid |>) [packet_pubcomp pid] true w1
                   = Some ((c2, e), w') /\
                   grows w1 w' rest /\ Forall is_conn_call rest /\
                   r = (if e =? 0 then HOk else HErr e) /\
                   c' = (if e =? 0 then c2 <| k_pack := [] |> else c2))
        else w' = w1 /\ c' = c /\ r = HErr E_store).
Proof.
  intros H. cbv zeta. unfold on_pubrel in H. cbv zeta in H.
  destruct (N.eqb_spec (len body) 2) as [E1|E1]; cbn [negb] in H.
  2:{ left. apply ConnectProofs.ret_inv in H as [H ->]. inversion H. auto. }
  destruct (N.eqb_spec (u16 body) 0) as [E2|E2].
  { left. apply ConnectProofs.ret_inv in H as [H ->]. inversion H. auto. }
  right. split; [exact E1|]. split; [exact E2|].
  apply ConnectProofs.bind_inv in H as (ok & w1 & Hd & H).
  destruct (store_delete_inv2 _ _ _ _ Hd) as (Ha & Gd).
  exists ok, w1. split; [exact Hd|]. split; [exact Ha|]. split; [exact Gd|].
  destruct ok; cbn [negb] in H.
  2:{ apply ConnectProofs.ret_inv in H as [H ->]. inversion H. auto. }
  destruct (len (k_pack c) =? 0) eqn:K; cbn [negb] in H.
  2:{ left. apply ConnectProofs.ret_inv in H as [H ->]. inversion H.
      split; [apply len_zero_cons, K|auto]. }
  right. split; [apply len_zero_nil, K|].
  apply ConnectProofs.bind_inv in H as ([c2 e] & w2 & Hn & H).
  change (k_pack (c <| k_pack := packet_pubcomp (u16 body) |>)) with (packet_pubcomp (u16 body)) in Hn.
  destruct (nowait_write_cc _ _ _ _ _ _ Hn) as (rest & G2 & _ & Hcc).
  exists c2, e, rest. split; [|split; [|split; [exact Hcc|]]].
  - destruct (e =? 0); apply ConnectProofs.ret_inv in H as [_ ->]; exact Hn.
  - destruct (e =? 0); apply ConnectProofs.ret_inv in H as [_ ->]; exact G2.
  - destruct (e =? 0); cbn [negb] in H; apply ConnectProofs.ret_inv in H as [H _];
      inversion H; auto.
Qed.

(* (C) WHAT IS STATED.  If the step wrote anything to a connection, the segment is exactly
   QDelete (N.lor (u16 body) remote_flag) :: rest  with rest connection calls only; the Delete
   precedes every QWrite; made in the world the handler started in it was answered SDone
   (store_delete returned true); in map mode the map after the step is the old one without
   the marker key. *)
Theorem on_pubrel_marker_deleted_first c body w c' r w' tr :
  on_pubrel c body w = Some ((c', r), w') -> grows w w' tr ->
  (exists cn bs, In (QWrite cn bs) tr) ->
  let key := N.lor (u16 body) remote_flag in
  exists w1 rest,
    tr = QDelete key :: rest /\ Forall is_conn_call rest /\
    before_writes (QDelete key) tr /\
    ask_store (QDelete key) w = Some (SDone, w1) /\
    store_delete key w = Some (true, w1) /\
    grows w w1 [QDelete key] /\ grows w1 w' rest /\
    (forall m, w_store w = Some m -> w_store w' = Some (store_del m key)).
Proof.
  intros H G (cn & bs & Hin). cbv zeta.
  apply on_pubrel_shape in H. cbv zeta in H.
  destruct H as [(_ & _ & _ & ->)|(_ & _ & ok & w1 & Hd & Ha & Gd & H)].
  { apply grows_nil in G. subst tr. destruct Hin. }
  destruct ok.
  - destruct H as [(_ & -> & _)|(_ & c2 & e & rest & Hn & G2 & Hcc & _ & _)].
    + assert (E : tr = [QDelete (N.lor (u16 body) remote_flag)]) by (eapply grows_det; eassumption).
      subst tr. destruct Hin as [X|[]]. discriminate.
    + assert (E : tr = [QDelete (N.lor (u16 body) remote_flag)] ++ rest)
        by (eapply grows_det; [exact G|eapply grows_trans; eassumption]).
      cbn [app] in E.
      exists w1, rest. split; [exact E|]. split; [exact Hcc|].
      split; [rewrite E; apply before_writes_head, delete_not_write|].
      split; [exact Ha|]. split; [exact Hd|]. split; [exact Gd|]. split; [exact G2|].
      intros m Hm. eapply nowait_write_keeps_store; [exact Hn|].
      exact (store_delete_ok_dels _ _ _ _ Hd Hm).
  - destruct H as (-> & _ & _).
    assert (E : tr = [QDelete (N.lor (u16 body) remote_flag)]) by (eapply grows_det; eassumption).
    subst tr. destruct Hin as [X|[]]. discriminate.
Qed.

(* (C, companion) The step made a Delete request and the Persistence refused it: that request
   is the whole segment, nothing is written, HErr E_store, the client state (pendingAck
   included) and a store map are unchanged. *)
Theorem on_pubrel_delete_refused c body w c' r w' tr k w1 :
  on_pubrel c body w = Some ((c', r), w') -> grows w w' tr ->
  In (QDelete k) tr -> ask_store (QDelete k) w = Some (SFail, w1) ->
  let key := N.lor (u16 body) remote_flag in
  k = key /\ tr = [QDelete key] /\ no_write tr /\
  r = HErr E_store /\ c' = c /\ w' = w1 /\
  (forall m, w_store w = Some m -> w_store w' = Some m).
Proof.
  intros H G Hin Hf. cbv zeta.
  apply on_pubrel_shape in H. cbv zeta in H.
  destruct H as [(_ & _ & _ & ->)|(_ & _ & ok & w2 & Hd & Ha & Gd & H)].
  { apply grows_nil in G. subst tr. destruct Hin. }
  assert (Hk : k = N.lor (u16 body) remote_flag).
  { destruct ok.
    - destruct H as [(_ & -> & _)|(_ & c2 & e & rest & _ & G2 & Hcc & _ & _)].
      + assert (E : tr = [QDelete (N.lor (u16 body) remote_flag)]) by (eapply grows_det; eassumption).
        subst tr. destruct Hin as [X|[]]. inversion X; auto.
      + assert (E : tr = [QDelete (N.lor (u16 body) remote_flag)] ++ rest)
          by (eapply grows_det; [exact G|eapply grows_trans; eassumption]).
        subst tr. cbn [app] in Hin. destruct Hin as [X|X]; [inversion X; auto|].
        exfalso. eapply conn_calls_no_delete; eassumption.
    - destruct H as (-> & _ & _).
      assert (E : tr = [QDelete (N.lor (u16 body) remote_flag)]) by (eapply grows_det; eassumption).
      subst tr. destruct Hin as [X|[]]. inversion X; auto. }
  subst k. rewrite Ha in Hf. destruct ok; [discriminate|].
  inversion Hf; subst w2. destruct H as (-> & -> & ->).
  assert (E : tr = [QDelete (N.lor (u16 body) remote_flag)]) by (eapply grows_det; eassumption).
  split; [reflexivity|]. split; [exact E|].
  split; [rewrite E; apply no_write_one, delete_not_write|].
  split; [reflexivity|]. split; [reflexivity|]. split; [reflexivity|].
  intros m Hm. exact (store_delete_fails_keeps _ _ _ _ Hd Hm).
Qed.

(* ================================================================== *)
(* B. The flush of a pending PUBREC at the start of ReadSlices: the    *)
(*    reception marker is saved, then the PUBREC is written            *)

(* The key of the marker Save is computed from the pending packet itself:
   InboundProofs.flush_key p = N.lor (u16 (skipn 2 p)) remote_flag, and for an identifier
   below 65536 (every identifier read off the wire is) that is N.lor pid remote_flag. *)
Lemma flush_key_of_pubrec pid : pid < 65536 -> flush_key (packet_pubrec pid) = N.lor pid remote_flag.
Proof. apply flush_key_pubrec. Qed.

(* Every run of the flush (InboundTie.flush_ack) that finds a PUBREC pending. *)
Theorem flush_ack_pubrec_shape c pid w c' e w' :
  k_pack c = packet_pubrec pid ->
  flush_ack c w = Some ((c', e), w') ->
  let key := flush_key (packet_pubrec pid) in
  let sv := QSave key (encode_value (packet_pubrec pid) (k_rseq c + 1)) in
  exists c1 ok w1,
    rugged_save c key (packet_pubrec pid) w = Some ((c1, ok), w1) /\
    ask_store sv w = Some ((if ok then SDone else SFail), w1) /\
    grows w w1 [sv] /\
    if ok
    then exists c2 e2 rest,
           nowait_write c1 [packet_pubrec pid] true w1 = Some ((c2, e2), w') /\
           grows w1 w' rest /\ Forall is_conn_call rest /\
           k_pack c2 = packet_pubrec pid /\
           e = (if e2 =? 0 then None else Some (e2, true)) /\
           c' = (if e2 =? 0 then c2 <| k_pack := [] |> else c2)
    else w' = w1 /\ e = Some (E_store, false) /\ c' = c1 /\ k_pack c' = packet_pubrec pid.
Proof.
  intros Hp H. cbv zeta. unfold flush_ack in H. rewrite Hp in H.
  unfold packet_pubrec at 1, ack_packet at 1 in H. cbv iota beta in H.
  change (80 / 16 =? 5) with true in H. cbv iota in H.
  fold (flush_key (packet_pubrec pid)) in H.
  apply ConnectProofs.bind_inv in H as ([c1 ok] & w1 & Hs & H).
  destruct (rugged_save_inv _ _ _ _ _ _ _ Hs) as (Hc1 & Ha & Gs).
  exists c1, ok, w1. split; [exact Hs|]. split; [exact Ha|]. split; [exact Gs|].
  assert (Kp : k_pack c1 = packet_pubrec pid) by (rewrite Hc1; exact Hp).
  destruct ok; cbn [negb] in H.
  - apply ConnectProofs.bind_inv in H as ([c2 e2] & w2 & Hn & H).
    rewrite Kp in Hn.
    destruct (nowait_write_cc _ _ _ _ _ _ Hn) as (rest & G2 & Hc2 & Hcc). cbn [fst] in Hc2.
    exists c2, e2, rest. split; [|split; [|split; [exact Hcc|split]]].
    + destruct (e2 =? 0); apply ConnectProofs.ret_inv in H as [_ ->]; exact Hn.
    + destruct (e2 =? 0); apply ConnectProofs.ret_inv in H as [_ ->]; exact G2.
    + destruct Hc2 as [-> | ->]; exact Kp.
    + destruct (e2 =? 0); cbn [negb] in H; apply ConnectProofs.ret_inv in H as [H _];
        inversion H; auto.
  - apply ConnectProofs.ret_inv in H as [H ->]. inversion H; subst. auto.
Qed.

(* (B) WHAT IS STATED, about the flush alone.  With a PUBREC pending, if the flush wrote
   anything to a connection then its segment is exactly  QSave key v :: rest, rest connection
   calls only, key = flush_key (packet_pubrec pid) (= N.lor pid remote_flag for pid < 65536),
   v = encode_value (packet_pubrec pid) (k_rseq c + 1); the Save precedes every QWrite and was
   answered SDone in the world the flush started in (rugged_save returned true); in map mode
   the map afterwards is the old one with v put under key. *)
Theorem flush_pubrec_marker_recorded c pid w c' e w' tr :
  k_pack c = packet_pubrec pid ->
  flush_ack c w = Some ((c', e), w') -> grows w w' tr ->
  (exists cn bs, In (QWrite cn bs) tr) ->
  let key := flush_key (packet_pubrec pid) in
  let v := encode_value (packet_pubrec pid) (k_rseq c + 1) in
  exists c1 w1 rest,
    tr = QSave key v :: rest /\ Forall is_conn_call rest /\
    before_writes (QSave key v) tr /\
    ask_store (QSave key v) w = Some (SDone, w1) /\
    rugged_save c key (packet_pubrec pid) w = Some ((c1, true), w1) /\
    grows w w1 [QSave key v] /\ grows w1 w' rest /\
    (forall m, w_store w = Some m -> w_store w' = Some (store_put m key v)).
Proof.
  intros Hp H G (cn & bs & Hin). cbv zeta.
  destruct (flush_ack_pubrec_shape _ _ _ _ _ _ Hp H) as (c1 & ok & w1 & Hs & Ha & Gs & H1).
  destruct ok.
  - destruct H1 as (c2 & e2 & rest & Hn & G2 & Hcc & _ & _ & _).
    assert (E : tr = [QSave (flush_key (packet_pubrec pid))
                            (encode_value (packet_pubrec pid) (k_rseq c + 1))] ++ rest)
      by (eapply grows_det; [exact G|eapply grows_trans; eassumption]).
    cbn [app] in E.
    exists c1, w1, rest. split; [exact E|]. split; [exact Hcc|].
    split; [rewrite E; apply before_writes_head, save_not_write|].
    split; [exact Ha|]. split; [exact Hs|]. split; [exact Gs|]. split; [exact G2|].
    intros m Hm. eapply nowait_write_keeps_store; [exact Hn|].
    exact (rugged_save_ok_puts _ _ _ _ _ _ _ Hs Hm).
  - destruct H1 as (-> & _ & _ & _).
    assert (E : tr = [QSave (flush_key (packet_pubrec pid))
                            (encode_value (packet_pubrec pid) (k_rseq c + 1))])
      by (eapply grows_det; eassumption).
    subst tr. destruct Hin as [X|[]]. discriminate.
Qed.

(* (B, companion) With a PUBREC pending the flush always makes the marker Save first; if the
   Persistence refuses it, that request is the whole segment: nothing is written, the flush
   reports (E_store, false) -- "do not go offline" -- and pendingAck is KEPT: the
   acknowledgement stays owed.  A store map is unchanged. *)
Theorem flush_pubrec_save_refused c pid w c' e w' tr w1 :
  k_pack c = packet_pubrec pid ->
  flush_ack c w = Some ((c', e), w') -> grows w w' tr ->
  let key := flush_key (packet_pubrec pid) in
  let v := encode_value (packet_pubrec pid) (k_rseq c + 1) in
  ask_store (QSave key v) w = Some (SFail, w1) ->
  tr = [QSave key v] /\ no_write tr /\ e = Some (E_store, false) /\
  k_pack c' = packet_pubrec pid /\ c' = c <| k_rseq := k_rseq c + 1 |> /\ w' = w1 /\
  (forall m, w_store w = Some m -> w_store w' = Some m).
Proof.
  intros Hp H G. cbv zeta. intros Hf.
  destruct (flush_ack_pubrec_shape _ _ _ _ _ _ Hp H) as (c1 & ok & w2 & Hs & Ha & Gs & H1).
  rewrite Ha in Hf. destruct ok; [discriminate|]. inversion Hf; subst w2.
  destruct H1 as (-> & -> & -> & Kp).
  assert (E : tr = [QSave (flush_key (packet_pubrec pid))
                          (encode_value (packet_pubrec pid) (k_rseq c + 1))])
    by (eapply grows_det; eassumption).
  destruct (rugged_save_inv _ _ _ _ _ _ _ Hs) as (Hc1 & _ & _).
  split; [exact E|]. split; [rewrite E; apply no_write_one, save_not_write|].
  split; [reflexivity|]. split; [exact Kp|]. split; [exact Hc1|]. split; [reflexivity|].
  intros m Hm. exact (rugged_save_fails_keeps _ _ _ _ _ _ _ Hs Hm).
Qed.

(* ------------------------------------------------------------------ *)
(* B, inside ReadSlices                                                *)

Lemma with_reader_store {A} c (f : rst -> A * rst) w p w' :
  with_reader c f w = Some (p, w') -> w_store w' = w_store w.
Proof.
  unfold with_reader. destruct (f (rst_of c w)) as [a s]. intros H. inversion H. reflexivity.
Qed.

(* toOffline followed by the error return: at most one QClose, pendingAck kept *)
Lemma offline_tail c e w c' r w' :
  (c0 <- to_offline c ;; ret (c0, RetErr e)) w = Some ((c', r), w') ->
  exists t, grows w w' t /\ no_write t /\ (forall k v, ~ In (QSave k v) t) /\
            r = RetErr e /\ k_pack c' = k_pack c.
Proof.
  intros H. apply ConnectProofs.bind_inv in H as (c1 & w1 & Ho & H).
  apply ConnectProofs.ret_inv in H as [H ->]. inversion H; subst c' r. clear H.
  destruct (to_offline_lspec _ _ _ _ Ho) as (t & G & Hw).
  pose proof (proj2 (to_offline_sat _ _ _ _ Ho)) as Kp.
  exists t. split; [exact G|].
  destruct Hw as [(_ & _ & ->)|(_ & -> & _)].
  - split; [apply no_write_one, close_not_write|].
    split; [intros k v [X|[]]; discriminate|]. auto.
  - split; [apply no_write_one, close_not_write|].
    split; [intros k v [X|[]]; discriminate|]. auto.
Qed.

Lemma reads_no_save rc tr : Forall (is_read rc) tr -> forall k v, ~ In (QSave k v) tr.
Proof.
  intros F k v X. rewrite Forall_forall in F. destruct (F _ X) as (a & n & E). discriminate.
Qed.

(* (B) inside read_slices_body, the smallest definition of Session.v that contains the flush,
   for a client whose read connection is up (k_rconn c = Some rc: no automatic reconnect
   first; see the remark below for the other case).  With a PUBREC pending, the segment of
   the whole call starts with Reads only (the discard of the rest of a big message, if one
   was left unread), and then
     - either that discard failed: the call ends there (at most a QClose more), no Save and no
       write at all, pendingAck kept;
     - or the next request is the marker Save  sv = QSave key v,  key and v as in (B) above
       (k_rseq is the client's at the start of the call), made in the world w0 the discard
       left (same Persistence content as w), and it precedes EVERY QWrite of the call: the
       PUBREC and whatever the read loop writes afterwards;
         answered SDone: in map mode the map then holds v under key (before anything is
           written);
         answered SFail: it is the last request of the call, nothing is written, the call
           returns E_store, does NOT go offline (k_rconn kept) and keeps pendingAck. *)
Theorem read_flush_pubrec_shape c pid rc w c' r w' tr :
  k_rconn c = Some rc -> k_pack c = packet_pubrec pid ->
  read_slices_body c w = Some ((c', r), w') -> grows w w' tr ->
  let key := flush_key (packet_pubrec pid) in
  let v := encode_value (packet_pubrec pid) (k_rseq c + 1) in
  exists rds w0,
    Forall (is_read rc) rds /\ grows w w0 rds /\ w_store w0 = w_store w /\
    ((no_write tr /\ (forall k0 v0, ~ In (QSave k0 v0) tr) /\ (exists e, r = RetErr e) /\
      k_pack c' = packet_pubrec pid)
     \/ exists (ok : bool) w1 rest,
          ask_store (QSave key v) w0 = Some ((if ok then SDone else SFail), w1) /\
          tr = rds ++ QSave key v :: rest /\ before_writes (QSave key v) tr /\
          if ok
          then forall m, w_store w = Some m -> w_store w1 = Some (store_put m key v)
          else rest = [] /\ no_write tr /\ r = RetErr E_store /\
               k_pack c' = packet_pubrec pid /\ k_rconn c' = Some rc /\ w' = w1 /\
               (forall m, w_store w = Some m -> w_store w' = Some m)).
Proof.
  intros Hr Hp H G. cbv zeta.
  rewrite read_slices_body_flush in H.
  apply ConnectProofs.bind_inv in H as ([cA eA] & wA & H1 & H).
  rewrite Hr in H1. apply ConnectProofs.ret_inv in H1 as [H1 ->]. inversion H1; subst cA eA. clear H1.
  change (negb (E_nil =? 0)) with false in H. cbv iota in H.
  apply ConnectProofs.bind_inv in H as ([cB eB] & w0 & H2 & H).
  assert (D : exists rds, Forall (is_read rc) rds /\ grows w w0 rds /\ w_store w0 = w_store w /\
                          k_pack cB = k_pack c /\ k_rseq cB = k_rseq c /\ k_rconn cB = k_rconn c).
  { destruct (k_big c) as [rem|].
    - pose proof (with_reader_store _ _ _ _ _ H2) as St.
      destruct (with_reader_spec _ _ _ _ _ H2) as (rds & G1 & F & s0 & s & _ & Hc).
      cbn [fst] in Hc. change (conn_of (c <| k_big := None |>)) with (conn_of c) in F.
      unfold conn_of in F. rewrite Hr in F.
      exists rds. split; [exact F|]. split; [exact G1|]. split; [exact St|].
      subst cB. repeat split; reflexivity.
    - apply ConnectProofs.ret_inv in H2 as [H2 ->]. inversion H2; subst cB eB.
      exists []. split; [constructor|]. split; [apply grows_refl|]. repeat split; reflexivity. }
  destruct D as (rds & F & G1 & St & KpB & RsB & RcB).
  exists rds, w0. split; [exact F|]. split; [exact G1|]. split; [exact St|].
  assert (Early : forall e0,
            (c0 <- to_offline cB ;; ret (c0, RetErr e0)) w0 = Some ((c', r), w') ->
            no_write tr /\ (forall k0 v0, ~ In (QSave k0 v0) tr) /\ (exists e, r = RetErr e) /\
            k_pack c' = packet_pubrec pid).
  { intros e0 X. destruct (offline_tail _ _ _ _ _ _ X) as (t & G2 & Nw & Ns & -> & Kp).
    assert (E : tr = rds ++ t) by (eapply grows_det; [exact G|eapply grows_trans; eassumption]).
    subst tr. split; [apply no_write_app; [eapply reads_no_write, F|exact Nw]|].
    split.
    - intros k0 v0 X0. apply in_app_or in X0 as [X0|X0];
        [eapply reads_no_save; eassumption|eapply Ns; exact X0].
    - split; [eauto|]. rewrite Kp, KpB. exact Hp. }
  destruct eB as [eb|].
  { left. destruct eb; try discriminate; eapply Early; exact H. }
  clear Early. right. cbv zeta in H.
  apply ConnectProofs.bind_inv in H as ([cD eD] & wD & Hfl & H).
  match type of Hfl with flush_ack ?x _ = _ => set (c0 := x) in * end.
  assert (Kp0 : k_pack c0 = packet_pubrec pid) by (change (k_pack cB = packet_pubrec pid); congruence).
  destruct (flush_ack_pubrec_shape _ _ _ _ _ _ Kp0 Hfl) as (c1 & ok & w1 & Hs & Ha & Gs & H3).
  change (k_rseq c0) with (k_rseq cB) in Ha, Gs. rewrite RsB in Ha, Gs.
  exists ok, w1.
  destruct ok.
  - assert (T : exists t, grows w1 w' t).
    { destruct H3 as (c2 & e2 & rest & _ & G2 & _ & _ & -> & ->).
      destruct (e2 =? 0).
      - cbv beta iota in H.
        match type of H with read_loop ?f ?cc _ = _ => pose proof (read_loop_g true f cc) as RL end.
        unfold gspec in RL. destruct (RL _ _ _ H) as (t3 & G3 & _).
        exists (rest ++ t3). eapply grows_trans; eassumption.
      - destruct (offline_tail _ _ _ _ _ _ H) as (t3 & G3 & _).
        exists (rest ++ t3). eapply grows_trans; eassumption. }
    destruct T as (t & Gt). exists t.
    assert (E : tr = rds ++ [QSave (flush_key (packet_pubrec pid))
                                   (encode_value (packet_pubrec pid) (k_rseq c + 1))] ++ t)
      by (eapply grows_det; [exact G|eapply grows_trans; [exact G1|eapply grows_trans; eassumption]]).
    cbn [app] in E.
    split; [exact Ha|]. split; [exact E|].
    split; [rewrite E; apply before_writes_app;
            [eapply reads_no_write, F|apply before_writes_head, save_not_write]|].
    intros m Hm. rewrite <- St in Hm.
    pose proof (rugged_save_ok_puts _ _ _ _ _ _ _ Hs Hm) as X.
    change (k_rseq c0) with (k_rseq cB) in X. rewrite RsB in X. exact X.
  - destruct H3 as (-> & -> & -> & Kp1).
    apply ConnectProofs.bind_inv in H as (cE & wE & X1 & H).
    apply ConnectProofs.ret_inv in X1 as [-> ->].
    apply ConnectProofs.ret_inv in H as [H ->]. inversion H; subst c' r. clear H.
    exists [].
    assert (E : tr = rds ++ [QSave (flush_key (packet_pubrec pid))
                                   (encode_value (packet_pubrec pid) (k_rseq c + 1))])
      by (eapply grows_det; [exact G|eapply grows_trans; eassumption]).
    split; [exact Ha|]. split; [exact E|].
    split; [rewrite E; apply before_writes_app;
            [eapply reads_no_write, F|apply before_writes_head, save_not_write]|].
    split; [reflexivity|].
    split; [rewrite E; apply no_write_app;
            [eapply reads_no_write, F|apply no_write_one, save_not_write]|].
    split; [reflexivity|]. split; [exact Kp1|].
    destruct (rugged_save_inv _ _ _ _ _ _ _ Hs) as (Hc1 & _ & _).
    split; [rewrite Hc1; change (k_rconn cB = Some rc); congruence|].
    split; [reflexivity|].
    intros m Hm. rewrite <- St in Hm. exact (rugged_save_fails_keeps _ _ _ _ _ _ _ Hs Hm).
Qed.

(* (B) in the requested form: ReadSlices (read connection up, PUBREC pending) wrote anything
   to a connection only after the marker Save under flush_key (packet_pubrec pid) was made
   in that same call and answered with success. *)
Theorem read_flush_pubrec_marker_recorded c pid rc w c' r w' tr :
  k_rconn c = Some rc -> k_pack c = packet_pubrec pid ->
  read_slices_body c w = Some ((c', r), w') -> grows w w' tr ->
  (exists cn bs, In (QWrite cn bs) tr) ->
  let key := flush_key (packet_pubrec pid) in
  let v := encode_value (packet_pubrec pid) (k_rseq c + 1) in
  exists rds w0 w1 rest,
    Forall (is_read rc) rds /\ grows w w0 rds /\ w_store w0 = w_store w /\
    ask_store (QSave key v) w0 = Some (SDone, w1) /\
    tr = rds ++ QSave key v :: rest /\ before_writes (QSave key v) tr /\
    (forall m, w_store w = Some m -> w_store w1 = Some (store_put m key v)).
Proof.
  intros Hr Hp H G (cn & bs & Hin). cbv zeta.
  destruct (read_flush_pubrec_shape _ _ _ _ _ _ _ _ Hr Hp H G)
    as (rds & w0 & F & G1 & St & [(Nw & _)|(ok & w1 & rest & Ha & E & B & H1)]).
  { exfalso. eapply Nw. exact Hin. }
  destruct ok.
  - exists rds, w0, w1, rest. auto 10.
  - exfalso. destruct H1 as (_ & Nw & _). eapply Nw. exact Hin.
Qed.

(* ReadSlices itself only adds termCallbacks on a closed-class error: same result, same world *)
Lemma read_slices_world c w c' r w' :
  read_slices c w = Some ((c', r), w') ->
  exists c1, read_slices_body c w = Some ((c1, r), w') /\ k_pack c' = k_pack c1.
Proof.
  unfold read_slices. intros H. apply ConnectProofs.bind_inv in H as ([c1 r1] & w1 & Hb & H).
  exists c1.
  destruct r1; try (apply ConnectProofs.ret_inv in H as [H ->]; inversion H; subst; auto).
  destruct (is_closed_err e); apply ConnectProofs.ret_inv in H as [H ->]; inversion H; subst;
    (split; [exact Hb|]); [apply kp_term_callbacks|reflexivity].
Qed.

Corollary read_slices_flush_pubrec_marker_recorded c pid rc w c' r w' tr :
  k_rconn c = Some rc -> k_pack c = packet_pubrec pid ->
  read_slices c w = Some ((c', r), w') -> grows w w' tr ->
  (exists cn bs, In (QWrite cn bs) tr) ->
  let key := flush_key (packet_pubrec pid) in
  let v := encode_value (packet_pubrec pid) (k_rseq c + 1) in
  exists rds w0 w1 rest,
    Forall (is_read rc) rds /\ grows w w0 rds /\ w_store w0 = w_store w /\
    ask_store (QSave key v) w0 = Some (SDone, w1) /\
    tr = rds ++ QSave key v :: rest /\ before_writes (QSave key v) tr /\
    (forall m, w_store w = Some m -> w_store w1 = Some (store_put m key v)).
Proof.
  intros Hr Hp H G Hin. destruct (read_slices_world _ _ _ _ _ H) as (c1 & Hb & _).
  eapply read_flush_pubrec_marker_recorded; eassumption.
Qed.

(* REMARK / counterexample.  The hypothesis k_rconn c = Some rc cannot be dropped from the
   "before every write" form.  toOffline keeps pendingAck and clears the read connection, so
   a client can enter ReadSlices with a PUBREC pending and k_rconn = None; the call then
   reconnects FIRST (CONNECT, resends) and only afterwards flushes.  The marker Save still
   precedes the PUBREC, but it is not before the first QWrite of the call.  Concretely: *)
Definition cx_cfg : scfg :=
  mkScfg {| cfg_user := []; cfg_pass := None; cfg_will := None; cfg_keepalive := 0;
            cfg_clean := false |} false 10 10 4096 0 0.
Definition cx_client : client := new_client cx_cfg 0 <| k_pack := packet_pubrec 1 |>.
Definition cx_world : world :=
  mkWorld [] [false; false] (Some []) [true] [(100, WOk); (4, WOk)] [RData [32; 2; 0; 0]; REOF] [].
Definition cx_save : req := QSave 65537 (encode_value (packet_pubrec 1) 1).
Definition cx_trace : list req :=
  [QLoad 0; QDial; QWrite 0 (connect_packet (s_cfg cx_cfg) []); QRead 0 false 4096;
   cx_save; QWrite 0 (packet_pubrec 1); QRead 0 false 4096; QClose 0].

Lemma read_reconnect_writes_before_marker :
  k_rconn cx_client = None /\ k_pack cx_client = packet_pubrec 1 /\
  flush_key (packet_pubrec 1) = 65537 /\
  exists c' w',
    read_slices_body cx_client cx_world = Some ((c', RetErr E_brokerterm), w') /\
    grows cx_world w' cx_trace /\
    ~ before_writes cx_save cx_trace.
Proof.
  split; [reflexivity|]. split; [reflexivity|]. split; [reflexivity|].
  destruct (read_slices_body cx_client cx_world) as [[[c' r] w']|] eqn:E;
    [|vm_compute in E; discriminate].
  assert (R : r = RetErr E_brokerterm /\ w_log w' = rev cx_trace).
  { vm_compute in E. inversion E; subst. split; reflexivity. }
  destruct R as [-> L].
  exists c', w'. split; [reflexivity|]. split.
  - unfold grows. rewrite L. cbn [cx_world w_log]. rewrite app_nil_r. reflexivity.
  - intros B. specialize (B [QLoad 0; QDial] 0 (connect_packet (s_cfg cx_cfg) [])
                            [QRead 0 false 4096; cx_save; QWrite 0 (packet_pubrec 1);
                             QRead 0 false 4096; QClose 0] eq_refl).
    destruct B as [X|[X|[]]]; discriminate.
Qed.

Print Assumptions on_pubrec_shape.
Print Assumptions on_pubrec_release_recorded.
Print Assumptions on_pubrec_save_refused.
Print Assumptions on_pubrec_save_refused_run.
Print Assumptions flush_ack_pubrec_shape.
Print Assumptions flush_pubrec_marker_recorded.
Print Assumptions flush_pubrec_save_refused.
Print Assumptions read_flush_pubrec_shape.
Print Assumptions read_flush_pubrec_marker_recorded.
Print Assumptions read_slices_flush_pubrec_marker_recorded.
Print Assumptions read_reconnect_writes_before_marker.
Print Assumptions on_pubrel_shape.
Print Assumptions on_pubrel_marker_deleted_first.
Print Assumptions on_pubrel_delete_refused.
