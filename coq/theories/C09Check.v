(* C09: executable case checker used by the correspondence run.
   [c09_agree]: the model (Utf8.v, Packets.v, Requests.v) predicts exactly what the
   implementation did.  [c09_ok]: the property, judged on the observation alone against
   the declarative UTF-8 specification (decided by decoding to code points and encoding
   them again) and the independent MQTT 3.1.1 parser (Spec.v). *)
From MQ Require Export Bytes Utf8 Packets Spec Requests C15Check.

(* ---------- compact byte strings in case files ---------- *)

Definition repN (n b : N) : list N := rep (N.to_nat n) b.
Definition bcat (l : list (list N)) : list N := concat l.
Definition nrep {A} (n : N) (x : A) : list A := repeat x (N.to_nat n).
(* the first n bytes of pat pat pat ... *)
Definition cycN (n : N) (pat : list N) : list N :=
  firstn (N.to_nat n) (concat (repeat pat (S (N.to_nat (n / len pat))))).
(* the 256 one-byte strings *)
Definition allb : list N := map N.of_nat (seq 0 256).

(* byte string equality without proof terms (Bytes.list_eqb goes through list_eq_dec,
   which is twenty times slower under vm_compute) *)
Fixpoint leqb (a b : list N) : bool :=
  match a, b with
  | [], [] => true
  | x :: a', y :: b' => (x =? y) && leqb a' b'
  | _, _ => false
  end.

(* ---------- the declarative string specification, decided ---------- *)

(* decode to code points, one well-formed sequence at a time *)
Fixpoint utf8_decode (fuel : nat) (s : list N) : option (list N) :=
  match s with
  | [] => Some []
  | _ :: _ =>
    match fuel with
    | O => None
    | S f =>
      match utf8_step s with
      | Some (cp, r) =>
        match utf8_decode f r with Some l => Some (cp :: l) | None => None end
      | None => None
      end
    end
  end.

(* s is at most 65535 bytes and the concatenation of the encodings of scalar values,
   none of them U+0000: the witness is computed and checked *)
Definition spec_string_ok (s : list N) : bool :=
  (len s <=? 65535) &&
  match utf8_decode (length s) s with
  | Some cps => forallb scalarb cps && negb (existsb (N.eqb 0) cps)
                && leqb (flat_map utf8_encode cps) s
  | None => false
  end.

Definition spec_topic_ok (s : list N) : bool :=
  match s with [] => false | _ :: _ => spec_string_ok s end.

Definition is_deny_code (code : N) : bool := (1 <=? code) && (code <=? 7).

(* observed result code against the specification: accepted iff well-formed, and a
   refusal is of the deny class *)
Definition str_ok (topic : bool) (s : list N) (code : N) : bool :=
  if (if topic then spec_topic_ok s else spec_string_ok s) then code =? 0 else is_deny_code code.

Definition str_model (topic : bool) (s : list N) : N :=
  deny_code (if topic then topic_check s else string_check s).

(* all words of a length over an alphabet, first letter slowest *)
Fixpoint words (alpha : list N) (depth : nat) : list (list N) :=
  match depth with
  | O => [[]]
  | S d => flat_map (fun a => map (cons a) (words alpha d)) alpha
  end.

Fixpoint forall2b {A B} (f : A -> B -> bool) (la : list A) (lb : list B) : bool :=
  match la, lb with
  | [], [] => true
  | a :: ra, b :: rb => f a b && forall2b f ra rb
  | _, _ => false
  end.

(* ---------- packets ---------- *)

Definition oeqb {A} (f : A -> A -> bool) (a b : option A) : bool :=
  match a, b with
  | Some x, Some y => f x y
  | None, None => true
  | _, _ => false
  end.
Definition will_eqb (a b : will_spec) : bool :=
  leqb (ws_topic a) (ws_topic b) && leqb (ws_msg a) (ws_msg b)
  && (ws_qos a =? ws_qos b) && Bool.eqb (ws_retain a) (ws_retain b).
Fixpoint lleqb (a b : list (list N)) : bool :=
  match a, b with
  | [], [] => true
  | x :: a', y :: b' => leqb x y && lleqb a' b'
  | _, _ => false
  end.
Fixpoint subf_eqb (a b : list (list N * N)) : bool :=
  match a, b with
  | [], [] => true
  | (x, q) :: a', (y, q') :: b' => leqb x y && (q =? q') && subf_eqb a' b'
  | _, _ => false
  end.
Definition packet_eqb (a b : packet) : bool :=
  match a, b with
  | PConnect c k i w u p, PConnect c' k' i' w' u' p' =>
      Bool.eqb c c' && (k =? k') && leqb i i' && oeqb will_eqb w w' && oeqb leqb u u' && oeqb leqb p p'
  | PConnack s c, PConnack s' c' => Bool.eqb s s' && (c =? c')
  | PPublish d q r t i m, PPublish d' q' r' t' i' m' =>
      Bool.eqb d d' && (q =? q') && Bool.eqb r r' && leqb t t' && oeqb N.eqb i i' && leqb m m'
  | PPuback i, PPuback i' | PPubrec i, PPubrec i' | PPubrel i, PPubrel i'
  | PPubcomp i, PPubcomp i' | PUnsuback i, PUnsuback i' => i =? i'
  | PSubscribe i f, PSubscribe i' f' => (i =? i') && subf_eqb f f'
  | PSuback i c, PSuback i' c' => (i =? i') && leqb c c'
  | PUnsubscribe i f, PUnsubscribe i' f' => (i =? i') && lleqb f f'
  | PPingreq, PPingreq | PPingresp, PPingresp | PDisconnect, PDisconnect => true
  | _, _ => false
  end.

(* the wire holds exactly one packet, and it is p *)
Definition parses_to (wire : list N) (p : packet) : bool :=
  match parse_packet wire with
  | Some (q, []) => packet_eqb q p
  | _ => false
  end.

(* the first buffer of a PUBLISH from the lengths alone *)
Definition publish_head_len (head : N) (topic : list N) (mlen pid : N) : list N :=
  head :: varint (2 + len topic + mlen + (if pid =? 0 then 0 else 2))
       ++ be16 (len topic) ++ topic ++ (if pid =? 0 then [] else be16 pid).

(* ---------- the requests against the specification ---------- *)

Fixpoint sum_lens (fs : list (list N)) (per : N) : N :=
  match fs with [] => 0 | f :: r => per + len f + sum_lens r per end.

Definition spec_config_ok (c : config) : bool :=
  cf_dialer c && spec_string_ok (cf_user c)
  && (opt_len (cf_pass c) <=? 65535) && (opt_len (cf_wmsg c) <=? 65535)
  && match cf_wmsg c with
     | Some _ => spec_topic_ok (cf_wtopic c)
     | None => spec_string_ok (cf_wtopic c)
     end.

(* MQTT 3.1.1: remaining length = variable header + payload, at most 268435455 *)
Definition spec_req_valid (r : request) : bool :=
  match r with
  | RqPublish _ msg topic => spec_topic_ok topic && (2 + len topic + len msg <=? 268435455)
  | RqPublishP _ _ msg topic _ => spec_topic_ok topic && (2 + len topic + 2 + len msg <=? 268435455)
  | RqSubscribe _ fs _ =>
      match fs with [] => false | _ => forallb spec_topic_ok fs && (2 + sum_lens fs 3 <=? 268435455) end
  | RqUnsubscribe fs _ =>
      match fs with [] => false | _ => forallb spec_topic_ok fs && (2 + sum_lens fs 2 <=? 268435455) end
  | RqConnect c cid => spec_string_ok cid && spec_config_ok c
  | _ => true
  end.

(* Save operations the Persistence sees during the call *)
Definition req_saves (r : request) : N :=
  match r with RqPublishP _ _ _ _ _ => 1 | _ => 0 end.

(* the capacity a request draws on: (kind, counter) *)
Definition req_slot (r : request) : N * N :=
  match r with
  | RqPublish _ _ _ => (0, 0)
  | RqPublishP level _ _ _ acc => (level, acc)
  | RqSubscribe _ _ txn => (3, txn)
  | RqUnsubscribe _ txn => (4, txn)
  | _ => (5, 0)
  end.
Definition slot_eqb (a b : N * N) : bool := (fst a =? fst b) && (snd a =? snd b).

(* ---------- cases ---------- *)

Inductive c09case :=
(* impl: result codes of stringCheck (topic = false) / topicCheck (topic = true) on
   prefix ++ w for every word w of the given length over the alphabet, in order *)
| StrBlock (topic : bool) (prefix alpha : list N) (depth : nat) (res : list N)
(* impl: result code of the check on one string *)
| StrCase (topic : bool) (s : list N) (code : N)
(* impl: the API call for r returned an error of class code (0: not a deny), the
   connection received wire, the Persistence saw saves Save operations *)
| ReqCase (r : request) (code : N) (wire : list N) (saves : N)
(* impl: publish of mlen message bytes at level (0: Publish, acc unused): code, the bytes
   before the message, the number of bytes the connection received in all, whether the
   last mlen of them are the message (compared by the harness), Save operations *)
| BigPubCase (level : N) (retain : bool) (mlen : N) (topic : list N) (acc : N)
             (code : N) (whead : list N) (wtotal : N) (tail : bool) (saves : N)
(* impl: the same for a publish that is expected to be refused, with the probe of DenyCase *)
| BigDenyCase (level : N) (retain : bool) (mlen : N) (topic : list N) (acc : N)
              (code wrote saves : N) (probe : request) (pcode : N) (pwire : list N)
(* impl: the call for r (invalid arguments) returned code, the connection received wrote
   bytes, the Persistence saw saves operations; the following call for probe (valid
   arguments, same kind) returned pcode and emitted pwire *)
| DenyCase (r : request) (code wrote saves : N) (probe : request) (pcode : N) (pwire : list N)
(* impl: Config.valid *)
| ConfigCase (c : config) (code : N)
(* impl: InitSession on an empty Persistence: code, number of Persistence operations *)
| InitCase (cid : list N) (c : config) (code : N) (ops : N).

Definition big_pid (level acc : N) : N := if level =? 0 then 0 else pub_pid level acc.
Definition big_space (level : N) : N := if level =? 0 then 0 else pub_space level.

(* publish_deny from the length of the message *)
Definition big_deny (level mlen : N) (topic : list N) : option deny_reason :=
  match topic_check topic with
  | Some d => Some d
  | None => if packet_max <? 2 + len topic + mlen + (if level =? 0 then 0 else 2)
            then Some DenyPacketMax else None
  end.
Definition big_spec_valid (level mlen : N) (topic : list N) : bool :=
  spec_topic_ok topic && (2 + len topic + (if level =? 0 then 0 else 2) + mlen <=? 268435455).

(* ---------- model prediction = observation ---------- *)

Definition c09_agree (c : c09case) : bool :=
  match c with
  | StrBlock topic prefix alpha depth res =>
      leqb (map (fun w => str_model topic (prefix ++ w)) (words alpha depth)) res
  | StrCase topic s code => str_model topic s =? code
  | ReqCase r code wire saves =>
      match req_deny r with
      | Some d => (code =? deny_code (Some d)) && leqb wire [] && (saves =? 0)
      | None => (code =? 0) && leqb wire (emit r) && (saves =? req_saves r)
      end
  | BigPubCase level retain mlen topic acc code whead wtotal tail saves =>
      match big_deny level mlen topic with
      | Some d => (code =? deny_code (Some d)) && leqb whead [] && (wtotal =? 0) && (saves =? 0)
      | None =>
        (code =? 0)
        && leqb whead (publish_head_len (head_publish level retain false) topic mlen
                                            (big_pid level acc))
        && (wtotal =? len whead + mlen) && tail && (saves =? (if level =? 0 then 0 else 1))
      end
  | BigDenyCase level retain mlen topic acc code wrote saves probe pcode pwire =>
      match big_deny level mlen topic with
      | Some d => (code =? deny_code (Some d)) && (wrote =? 0) && (saves =? 0)
                  && (pcode =? 0) && leqb pwire (emit probe)
      | None => false
      end
  | DenyCase r code wrote saves probe pcode pwire =>
      match req_deny r with
      | Some d => (code =? deny_code (Some d)) && (wrote =? 0) && (saves =? 0)
                  && (pcode =? 0) && leqb pwire (emit probe)
      | None => false
      end
  | ConfigCase c code => code =? config_code (config_valid c)
  | InitCase cid c code ops =>
      (code =? config_code (init_valid cid c))
      && (ops =? match init_valid cid c with None => 2 | Some _ => 0 end)
  end.

(* ---------- the property on the observation ---------- *)

Definition big_ok (level : N) (retain : bool) (mlen : N) (topic : list N) (acc : N)
                  (whead : list N) (wtotal : N) : bool :=
  match whead with
  | h :: r =>
    match take_remlen r with
    | Some (n, r2) =>
      (* first byte: PUBLISH, no DUP, the level, the retain flag *)
      (h / 16 =? 3) && negb (bit (h mod 16) 3) && ((h mod 16) / 2 mod 4 =? level)
      && Bool.eqb (bit (h mod 16) 0) retain
      (* the frame is the whole transmission *)
      && (wtotal =? (len whead - len r2) + n) && (n =? len r2 + mlen)
      && match take_field r2 with
         | Some (t, r3) =>
           leqb t topic
           && (if level =? 0 then leqb r3 []
               else match take_u16 r3 with
                    | Some (id, r4) => (id =? pub_pid level acc) && negb (id =? 0) && leqb r4 []
                    | None => false
                    end)
         | None => false
         end
    | None => false
    end
  | [] => false
  end.

Definition c09_ok (c : c09case) : bool :=
  match c with
  | StrBlock topic prefix alpha depth res =>
      forall2b (fun w code => str_ok topic (prefix ++ w) code) (words alpha depth) res
  | StrCase topic s code => str_ok topic s code
  | ReqCase r code wire saves =>
      if spec_req_valid r then (code =? 0) && parses_to wire (expect r)
      else is_deny_code code && leqb wire [] && (saves =? 0)
  | BigPubCase level retain mlen topic acc code whead wtotal tail saves =>
      if big_spec_valid level mlen topic
      then (code =? 0) && big_ok level retain mlen topic acc whead wtotal && tail
      else is_deny_code code && leqb whead [] && (wtotal =? 0) && (saves =? 0)
  | BigDenyCase level retain mlen topic acc code wrote saves probe pcode pwire =>
      if big_spec_valid level mlen topic then code =? 0
      else is_deny_code code && (wrote =? 0) && (saves =? 0)
           && (pcode =? 0) && spec_req_valid probe
           && slot_eqb (if level =? 0 then (0, 0) else (level, acc)) (req_slot probe)
           && parses_to pwire (expect probe)
  | DenyCase r code wrote saves probe pcode pwire =>
      if spec_req_valid r then code =? 0
      else is_deny_code code && (wrote =? 0) && (saves =? 0)
           (* capacity: the next valid request of the kind is accepted and carries the
              identifier the denied one would have carried *)
           && (pcode =? 0) && spec_req_valid probe && slot_eqb (req_slot r) (req_slot probe)
           && parses_to pwire (expect probe)
  | ConfigCase c code =>
      if spec_config_ok c then code =? 0
      else if cf_dialer c then is_deny_code code else negb (code =? 0)
  | InitCase cid c code ops =>
      if spec_string_ok cid && spec_config_ok c then code =? 0
      else (if spec_string_ok cid && negb (cf_dialer c) then negb (code =? 0) else is_deny_code code)
           && (ops =? 0)
  end.

Definition c09_run (l : list c09case) : list N * list N * list (N * N) :=
  (idx_filter c09_agree l 0, idx_filter c09_ok l 0, []).
