(* L2 (C16): AdoptSession on an ARBITRARILY damaged Persistence -- what the adopted client
   can do afterwards.

   The store [m] is any finite map (ascending keys) of byte strings.  Nothing is assumed
   about which records decode.  Three side conditions, all implied by "the decodable
   records are records the client wrote" (damage = undecodable; not: records forged with
   a valid checksum, see [forged_pubrel_bricks] for what a forged one does):
     [~ forged_empty m]   no record with a valid checksum over an EMPTY packet,
     [rel_in_space m]     a decodable PUBREL-headed record lives in the exactly-once key space,
     [cid_ok m]           key 0 holds a decodable record or nothing (F15 otherwise).

   A1 [adopted_shape]        the three kept runs are windows of consecutive keys, each key
                             holding a decodable record of its kind in the ORIGINAL store
   (a) [Adopted_inv]         the adopted state satisfies [DInv] = OInv' minus "nothing else
                             lives in the publish key spaces" (leftovers are only skipped,
                             never deleted: [leftover_stays]), minus the strictness of the
                             storage order (non-strict: [adopted_order]), with the packet
                             shape read off the head byte
       [dinv_step/dinv_run]  DInv is an invariant of every later API call
       [OInv'_DInv]          it is weaker than OInv'
   (b) [adopted_connect_any] under ANY environment a connect of a client in DInv fails only
                             through the environment (never "gone missing", never corrupt)
       [adopted_connects]    accepting broker: success; the wire shows CONNECT, then exactly
                             the stored packets of the windows in order, DUP set
   (c) [adopted_accepts_new] the next persisted publish saves under a key outside every
                             window; a leftover under that key is overwritten; DInv again
   (d) [adopted_receives]    every marker record left decodes: the marker Load of
                             on_publish never fails on a corrupt record.
   Proofs only. *)
From Coq Require Import ZArith ZifyN ZifyNat ZifyBool Lia List Permutation Sorted.
From RecordUpdate Require Import RecordUpdate.
From MQ Require Import RecordProofs WriteLoopProofs Outbound OutboundInv OutboundRefine
     ConnectProofs AdoptProofs ResendOrder InboundTie.
Import ListNotations.
Ltac Zify.zify_post_hook ::= Z.div_mod_to_equations.

#[local] Arguments key1 : simpl never.
#[local] Arguments key2 : simpl never.
#[local] Arguments holds : simpl never.
#[local] Arguments len : simpl never.
#[local] Arguments encode_value : simpl never.
#[local] Arguments decode_value : simpl never.
#[local] Arguments N.testbit : simpl never.
#[local] Arguments N.max : simpl never.

(* ================================================================== *)
(* 1. A byte string that decodes IS an encoded record                  *)

Lemma le_decode_lt l : bytes l -> le_decode l < 256 ^ N.of_nat (length l).
Proof.
  induction l as [|b r IH]; intros Hb; [cbn; lia|].
  inversion Hb as [|? ? Hb0 Hr]; subst. specialize (IH Hr). unfold isbyte in Hb0.
  cbn [le_decode length]. rewrite Nat2N.inj_succ, N.pow_succ_r'. lia.
Qed.

Lemma le_enc_decode l : bytes l -> le_enc (length l) (le_decode l) = l.
Proof.
  induction l as [|b r IH]; intros Hb; [reflexivity|].
  inversion Hb as [|? ? Hb0 Hr]; subst. unfold isbyte in Hb0.
  cbn [le_decode length le_enc].
  replace ((b + 256 * le_decode r) mod 256) with b by lia.
  replace ((b + 256 * le_decode r) / 256) with (le_decode r) by lia.
  rewrite (IH Hr). reflexivity.
Qed.

Lemma be32_be32dec a b c d :
  isbyte a -> isbyte b -> isbyte c -> isbyte d -> be32 (be32dec [a; b; c; d]) = [a; b; c; d].
Proof.
  unfold isbyte, be32, be32dec. intros Ha Hb Hc Hd.
  repeat f_equal; lia.
Qed.

Lemma bytes_firstn n l : bytes l -> bytes (firstn n l).
Proof.
  intros H. apply Forall_forall. intros x Hx. revert x Hx. apply Forall_forall.
  rewrite <- (firstn_skipn n l) in H. apply Forall_app in H. apply H.
Qed.
Lemma bytes_skipn n l : bytes l -> bytes (skipn n l).
Proof.
  intros H. apply Forall_forall. intros x Hx. revert x Hx. apply Forall_forall.
  rewrite <- (firstn_skipn n l) in H. apply Forall_app in H. apply H.
Qed.

Theorem decode_inv v p sq :
  bytes v -> decode_value v = DecOk p sq -> v = encode_value p sq /\ sq < M64.
Proof.
  intros Hb D. unfold decode_value in D.
  destruct (Nat.ltb_spec (length v) 12) as [|L]; [discriminate|].
  set (n := length v) in *.
  destruct (N.eqb_spec (fnv1a (firstn (n - 4) v)) (be32dec (skipn (n - 4) v))) as [F|]; [|discriminate].
  injection D as <- <-.
  set (body := firstn (n - 4) v) in *.
  assert (Lb : length body = (n - 4)%nat) by (unfold body; rewrite firstn_length; lia).
  set (t8 := skipn (n - 12) body).
  assert (L8 : length t8 = 8%nat) by (unfold t8; rewrite skipn_length; lia).
  assert (Hb8 : bytes t8) by (apply bytes_skipn, bytes_firstn, Hb).
  assert (Ebody : body = firstn (n - 12) v ++ t8).
  { unfold t8. rewrite <- (firstn_skipn (n - 12) body) at 1. f_equal.
    unfold body. rewrite firstn_firstn. f_equal. lia. }
  assert (E8 : le64 (le_decode t8) = t8).
  { unfold le64. rewrite <- L8 at 1. apply le_enc_decode, Hb8. }
  split.
  - unfold encode_value. cbv zeta. rewrite E8, <- Ebody.
    assert (L4 : length (skipn (n - 4) v) = 4%nat) by (rewrite skipn_length; lia).
    assert (Hb4 : bytes (skipn (n - 4) v)) by (apply bytes_skipn, Hb).
    destruct (skipn (n - 4) v) as [|a [|b [|c [|d [|]]]]] eqn:E4; try discriminate.
    rewrite F. inversion Hb4 as [|? ? Ha H1]; subst. inversion H1 as [|? ? Hb' H2]; subst.
    inversion H2 as [|? ? Hc H3]; subst. inversion H3 as [|? ? Hd _]; subst.
    rewrite be32_be32dec by assumption. rewrite <- E4. unfold body. symmetry. apply firstn_skipn.
  - pose proof (le_decode_lt t8 Hb8) as H. rewrite L8 in H. exact H.
Qed.

(* ================================================================== *)
(* 2. The scan of an arbitrary store                                   *)

Lemma scan_pure_sel ents : forall a m a' m',
  scan_pure ents a m = (inl a', m') ->
  (forall c, acc_get c a' = rev (flat_map (ent_sel c) ents) ++ acc_get c a)
  /\ a_max a <= a_max a'
  /\ seq_bound ents (a_max a')
  /\ (forall B, a_max a <= B -> seq_bound ents B -> a_max a' <= B).
Proof.
  induction ents as [|[k raw] ents IH]; intros a m a' m' E.
  - cbn in E. inversion E; subst. split; [reflexivity|]. split; [lia|].
    split; [intros ? ? ? ? []|]. intros B HB _. exact HB.
  - cbn [scan_pure flat_map ent_sel] in *.
    assert (Hskip : forall a0 m0, scan_pure ents a0 m0 = (inl a', m') ->
              (forall p sq, decode_value raw = DecOk p sq -> k <> 0 -> sq <= a_max a0) ->
              (forall c, acc_get c a0 = rev (ent_sel c (k, raw)) ++ acc_get c a) ->
              a_max a <= a_max a0 ->
              (forall B, a_max a <= B -> seq_bound ((k, raw) :: ents) B -> a_max a0 <= B) ->
              (forall c, acc_get c a' = rev (ent_sel c (k, raw) ++ flat_map (ent_sel c) ents) ++ acc_get c a)
              /\ a_max a <= a_max a'
              /\ seq_bound ((k, raw) :: ents) (a_max a')
              /\ (forall B, a_max a <= B -> seq_bound ((k, raw) :: ents) B -> a_max a' <= B)).
    { intros a0 m0 E0 Hsq Hsel Hle HB.
      destruct (IH _ _ _ _ E0) as (G & M1 & M2 & M3).
      split; [intros c; rewrite G, Hsel, rev_app_distr, <- app_assoc; reflexivity|].
      split; [lia|]. split.
      - intros k' raw' p' sq' [Heq|Hin] Hn Hd'.
        + inversion Heq; subst. specialize (Hsq _ _ Hd' Hn). lia.
        + eapply M2; eassumption.
      - intros B HB1 HB2. apply M3; [apply HB; assumption|].
        intros k' raw' p' sq' Hin. apply HB2. right. exact Hin. }
    unfold ent_sel in Hskip |- *.
    destruct (N.eqb_spec k 0) as [->|Hk0].
    + apply (Hskip a m E); [congruence|reflexivity|lia|auto].
    + destruct (decode_value raw) as [packet sq| |] eqn:Hd.
      * set (a1 := a <| a_max := N.max (a_max a) sq |>) in *.
        assert (Hget1 : forall c, acc_get c a1 = acc_get c a) by (destruct c; reflexivity).
        assert (Hmax1 : a_max a1 = N.max (a_max a) sq) by reflexivity.
        assert (HB1 : forall B, a_max a <= B -> seq_bound ((k, raw) :: ents) B -> a_max a1 <= B).
        { intros B HB HS. rewrite Hmax1. apply N.max_lub; [exact HB|].
          apply (HS k raw packet sq (or_introl eq_refl) Hk0 Hd). }
        destruct (N.testbit k 16) eqn:Hbit.
        -- apply (Hskip a1 m E).
           ++ intros p' sq' Ed _. inversion Ed; subst. rewrite Hmax1. lia.
           ++ intros c. rewrite Hget1. destruct packet; reflexivity.
           ++ rewrite Hmax1. lia.
           ++ exact HB1.
        -- destruct packet as [|h body]; [discriminate|].
           apply (Hskip _ m E).
           ++ intros p' sq' Ed _. inversion Ed; subst. rewrite acc_class_max, Hmax1. lia.
           ++ intros c. rewrite acc_get_class, Hget1. destruct (is_cls c (hclass k h)); reflexivity.
           ++ rewrite acc_class_max, Hmax1. lia.
           ++ intros B HB HS. rewrite acc_class_max. apply HB1; assumption.
      * apply (Hskip _ _ E); [congruence|destruct c; reflexivity|cbn; lia|cbn; auto].
      * apply (Hskip _ _ E); [congruence|destruct c; reflexivity|cbn; lia|cbn; auto].
Qed.

(* ================================================================== *)
(* 3. clean_seq keeps a window of consecutive keys, a suffix of its input *)

Lemma nseq_snoc l : forall a, nseq a (S l) = nseq a l ++ [a + N.of_nat l].
Proof.
  induction l as [|l IH]; intros a.
  - cbn. f_equal. lia.
  - change (nseq a (S (S l))) with (a :: nseq (a + 1) (S l)). rewrite IH.
    cbn [nseq app]. do 2 f_equal. f_equal. lia.
Qed.

Section CleanShape.
  Variable keyf : N -> N.
  Variable P : N -> Prop.
  Hypothesis Hmod : forall n, keyf n mod 16384 = n mod 16384.
  Hypothesis Hcong : forall n n', n mod 16384 = n' mod 16384 -> keyf n = keyf n'.
  Hypothesis HP : forall k, P k -> k = keyf (k mod 16384).

  Lemma consecutive_keyf a k : P k -> consecutive (keyf a) k = true -> k = keyf (a + 1).
  Proof.
    intros Hk Hc. rewrite (HP k Hk). apply Hcong.
    unfold consecutive in Hc. rewrite !land_mask, Hmod in Hc. unfold id_mask in Hc.
    rewrite N.mod_mod by discriminate.
    apply orb_true_iff in Hc. destruct Hc as [Hc|Hc].
    - apply N.eqb_eq in Hc. clear - Hc. lia.
    - apply andb_true_iff in Hc. destruct Hc as [H1 H2]. apply N.eqb_eq in H1, H2. clear - H1 H2. lia.
  Qed.

  Lemma clean_aux_shape keys : forall a l g pre,
    Forall P keys ->
    exists a' l' pre' g',
      clean_seq_aux (rev (map keyf (nseq a (S l)))) (keyf (a + N.of_nat l)) keys g
      = (map keyf (nseq a' (S l')), g')
      /\ pre ++ map keyf (nseq a (S l)) ++ keys = pre' ++ map keyf (nseq a' (S l')).
  Proof.
    induction keys as [|k keys IH]; intros a l g pre HF.
    - exists a, l, pre, g. cbn [clean_seq_aux]. rewrite rev_involutive, app_nil_r.
      split; [reflexivity|reflexivity].
    - inversion HF as [|? ? Hk HF']; subst. cbn [clean_seq_aux].
      destruct (consecutive (keyf (a + N.of_nat l)) k) eqn:Hc.
      + apply (consecutive_keyf _ _ Hk) in Hc. subst k.
        replace (keyf (a + N.of_nat l + 1) :: rev (map keyf (nseq a (S l))))
          with (rev (map keyf (nseq a (S (S l))))).
        2:{ rewrite (nseq_snoc (S l)), map_app, rev_app_distr. cbn [map rev app].
            do 2 f_equal. lia. }
        replace (a + N.of_nat l + 1) with (a + N.of_nat (S l)) by lia.
        destruct (IH a (S l) g pre HF') as (a' & l' & pre' & g' & E & Hp).
        exists a', l', pre', g'. split; [exact E|].
        rewrite <- Hp. f_equal. rewrite (nseq_snoc (S l)), map_app, <- app_assoc. reflexivity.
      + rewrite (HP k Hk).
        destruct (IH (k mod 16384) O (g + 1) (pre ++ map keyf (nseq a (S l))) HF')
          as (a' & l' & pre' & g' & E & Hp).
        cbn [nseq map rev app N.of_nat] in E. rewrite N.add_0_r in E.
        exists a', l', pre', g'. split; [exact E|].
        rewrite <- Hp. cbn [nseq map app]. rewrite <- !app_assoc. reflexivity.
  Qed.

  Lemma clean_seq_shape keys :
    Forall P keys ->
    (keys = [] /\ clean_seq keys = ([], 0))
    \/ exists a l pre g, clean_seq keys = (map keyf (nseq a (S l)), g)
                         /\ keys = pre ++ map keyf (nseq a (S l)) /\ a < 16384.
  Proof.
    intros HF. destruct keys as [|k keys]; [left; split; reflexivity|]. right.
    inversion HF as [|? ? Hk HF']; subst. cbn [clean_seq].
    destruct (clean_aux_shape keys (k mod 16384) O 0 [] HF') as (a' & l' & pre' & g' & E & Hp).
    cbn [nseq map rev app N.of_nat] in E, Hp. rewrite N.add_0_r in E. rewrite <- (HP k Hk) in E, Hp.
    exists (a' mod 16384), l', pre', g'.
    assert (Em : forall x j, map keyf (nseq (x mod 16384) j) = map keyf (nseq x j)).
    { intros x j. revert x. clear - Hcong.
      induction j as [|j IH]; intros a'; [reflexivity|]. cbn [nseq map]. f_equal.
      - apply Hcong. apply N.mod_mod. discriminate.
      - rewrite <- (IH (a' + 1)), <- (IH (a' mod 16384 + 1)). f_equal. f_equal.
        rewrite N.add_mod_idemp_l by discriminate. reflexivity. }
    rewrite Em. split; [exact E|]. split; [exact Hp|]. apply N.mod_lt. discriminate.
  Qed.
End CleanShape.

(* ================================================================== *)
(* 4. What an arbitrary store offers to the three groups               *)

Definition bytes_store (m : store) : Prop := forall k v, store_get m k = Some v -> bytes v.

(* a decodable record with a PUBREL head lives in the exactly-once key space (the client
   writes a PUBREL only over the PUBLISH record of the same identifier) *)
Definition rel_in_space (m : store) : Prop :=
  forall k v h body sq, store_get m k = Some v -> k <> 0 -> N.testbit k 16 = false ->
    decode_value v = DecOk (h :: body) sq -> h / 16 = 6 -> in_space k eo_space.

Definition cid_ok (m : store) : Prop :=
  match store_get m 0 with Some v => decodable v = true | None => True end.

Definition cls_ty (c : cls) : N := match c with Rel => 6 | _ => 3 end.
Definition cls_space (c : cls) : N := match c with Alo => alo_space | _ => eo_space end.

(* key k holds a decodable, non-empty record of class c (packet type by the head byte) *)
Definition rec_of (m : store) (c : cls) (k : N) : Prop :=
  exists raw h body sq, store_get m k = Some raw /\ decode_value raw = DecOk (h :: body) sq
    /\ h / 16 = cls_ty c /\ in_space k (cls_space c).

Lemma is_cls_hclass c k h : is_cls c (hclass k h) = true ->
  h / 16 = cls_ty c /\ (c <> Rel -> in_space k (cls_space c)).
Proof.
  unfold hclass, in_space.
  destruct (N.eqb_spec (h / 16) 3) as [E3|N3].
  - destruct (N.eqb_spec (k - N.land k id_mask) alo_space) as [Ea|Na].
    + destruct c; cbn; try discriminate. intros _. auto.
    + destruct (N.eqb_spec (k - N.land k id_mask) eo_space) as [Ee|Ne]; [|discriminate].
      destruct c; cbn; try discriminate. intros _. auto.
  - destruct (N.eqb_spec (h / 16) 6) as [E6|N6]; [|discriminate].
    destruct c; cbn; try discriminate. intros _. split; [exact E6|congruence].
Qed.

Lemma sel_rec_of m c k sq :
  NoDup (map fst m) -> rel_in_space m ->
  In (k, sq) (flat_map (ent_sel c) m) -> rec_of m c k /\ sq = sq_at m k.
Proof.
  intros Hnd Hrel Hin. apply (sel_in c m k sq Hnd) in Hin. destruct Hin as (raw & Hg & Hsel).
  apply ent_sel_in in Hsel. destruct Hsel as (_ & Hk0 & Hbit & h & body & Hdec & Hc).
  apply is_cls_hclass in Hc. destruct Hc as [Hty Hsp]. split.
  - exists raw, h, body, sq. repeat split; auto.
    destruct c; try (apply Hsp; discriminate). cbn [cls_space].
    exact (Hrel k raw h body sq Hg Hk0 Hbit Hdec Hty).
  - unfold sq_at. rewrite Hg, Hdec. reflexivity.
Qed.

Lemma keys_of_in l k : In k (keys_of l) <-> exists sq, In (k, sq) l.
Proof.
  unfold keys_of. rewrite in_map_iff. split.
  - intros ([k' sq] & E & Hin). cbn in E. subst k'. exists sq.
    eapply Permutation_in; [apply Permutation_sym, sort_perm|exact Hin].
  - intros (sq & Hin). exists (k, sq). split; [reflexivity|].
    eapply Permutation_in; [apply sort_perm|exact Hin].
Qed.

Definition sq_le (m : store) (x y : N) : Prop := sq_at m x <= sq_at m y.

Lemma keys_of_sorted m l :
  (forall k sq, In (k, sq) l -> sq = sq_at m k) -> StronglySorted (sq_le m) (keys_of l).
Proof.
  intros H. unfold keys_of.
  assert (H' : forall x, In x (sort_by_seq l) -> snd x = sq_at m (fst x)).
  { intros [k sq] Hin. apply H. eapply Permutation_in; [apply Permutation_sym, sort_perm|exact Hin]. }
  pose proof (sort_sorted l) as S. induction S as [|x s Hs IH Hx]; [constructor|].
  cbn [map]. constructor.
  - apply IH. intros y Hy. apply H'. right. exact Hy.
  - rewrite Forall_forall in *. intros k Hk. apply in_map_iff in Hk. destruct Hk as (y & <- & Hy).
    specialize (Hx y Hy). unfold le_snd in Hx. unfold sq_le.
    rewrite <- (H' x (or_introl eq_refl)), <- (H' y (or_intror Hy)). exact Hx.
Qed.

Lemma sorted_suffix {A} (R : A -> A -> Prop) pre run :
  StronglySorted R (pre ++ run) -> StronglySorted R run.
Proof.
  induction pre as [|x pre IH]; [auto|]. cbn [app]. intros H.
  apply StronglySorted_inv in H. apply IH, H.
Qed.

Lemma sorted_nseq_pointwise (R : N -> N -> Prop) (f : N -> N) l : forall a,
  StronglySorted R (map f (nseq a l)) ->
  forall n n', a <= n -> n < n' -> n' < a + N.of_nat l -> R (f n) (f n').
Proof.
  induction l as [|l IH]; intros a S n n' H1 H2 H3; [lia|].
  cbn [nseq map] in S. apply StronglySorted_inv in S. destruct S as [S Hx].
  destruct (N.eq_dec n a) as [->|Hne].
  - rewrite Forall_forall in Hx. apply Hx. apply in_map. apply nseq_in. lia.
  - apply (IH (a + 1) S); lia.
Qed.

Lemma map_nseq_cong (keyf : N -> N) :
  (forall n n', n mod 16384 = n' mod 16384 -> keyf n = keyf n') ->
  forall j x y, x mod 16384 = y mod 16384 -> map keyf (nseq x j) = map keyf (nseq y j).
Proof.
  intros Hcong. induction j as [|j IH]; intros x y E; [reflexivity|].
  cbn [nseq map]. f_equal; [apply Hcong, E|]. apply IH.
  rewrite <- (N.add_mod_idemp_l x), <- (N.add_mod_idemp_l y), E by discriminate. reflexivity.
Qed.

Lemma keyf_cong c n n' : n mod 16384 = n' mod 16384 -> keyf c n = keyf c n'.
Proof. destruct c; cbn [keyf]; intros E; first [apply key1_iff, E|apply key2_iff, E]. Qed.

Lemma keyf_of_space c k : in_space k (cls_space c) -> k = keyf c (k mod 16384).
Proof.
  destruct c; cbn [cls_space keyf].
  - rewrite in_alo_range, key1_eq. lia.
  - rewrite in_eo_range, key2_eq. lia.
  - rewrite in_eo_range, key2_eq. lia.
Qed.

(* the run that cleanSequence keeps for class c: a window of consecutive keys, a suffix
   of the keys of the class in storage order, every key holding a record of the class *)
Lemma class_run m c acc :
  NoDup (map fst m) -> rel_in_space m ->
  acc_get c acc = rev (flat_map (ent_sel c) m) ->
  exists a l g,
    clean_seq (keys_of (acc_get c acc)) = (map (keyf c) (nseq a l), g)
    /\ a < 16384
    /\ (forall n, a <= n < a + N.of_nat l -> rec_of m c (keyf c n))
    /\ StronglySorted (sq_le m) (map (keyf c) (nseq a l)).
Proof.
  intros Hnd Hrel Hacc.
  assert (Hin : forall k sq, In (k, sq) (acc_get c acc) -> rec_of m c k /\ sq = sq_at m k).
  { intros k sq H. rewrite Hacc, <- in_rev in H. exact (sel_rec_of m c k sq Hnd Hrel H). }
  assert (HF : Forall (fun k => in_space k (cls_space c)) (keys_of (acc_get c acc))).
  { rewrite Forall_forall. intros k Hk. apply keys_of_in in Hk. destruct Hk as (sq & Hk).
    destruct (Hin k sq Hk) as [(raw & h & body & sq' & _ & _ & _ & Hsp) _]. exact Hsp. }
  assert (Hsorted : StronglySorted (sq_le m) (keys_of (acc_get c acc))).
  { apply keys_of_sorted. intros k sq H. apply (Hin k sq H). }
  destruct (clean_seq_shape (keyf c) (fun k => in_space k (cls_space c))
              (keyf_mod c) (keyf_cong c) (keyf_of_space c) _ HF)
    as [[E0 Ec]|(a & l & pre & g & Ec & Ek & Ha)].
  - exists 0, O, 0. rewrite Ec. split; [reflexivity|]. split; [lia|]. split; [intros n Hn; lia|constructor].
  - exists a, (S l), g. split; [exact Ec|]. split; [exact Ha|]. split.
    + intros n Hn.
      assert (Hk : In (keyf c n) (keys_of (acc_get c acc))).
      { rewrite Ek. apply in_or_app. right. apply in_map. apply nseq_in. exact Hn. }
      apply keys_of_in in Hk. destruct Hk as (sq & Hk). apply (Hin _ _ Hk).
    + rewrite Ek in Hsorted. exact (sorted_suffix _ _ _ Hsorted).
Qed.

(* ================================================================== *)
(* 5. The adopted client                                               *)

Lemma adopt_some_pure cf z1 z2 w m c' r w' :
  sorted_keys m -> mapw w m ->
  op_adopt cf z1 z2 w = Some ((Some c', r), w') ->
  exists acc, scan_pure m acc0 m = (inl acc, purge_bad m m)
              /\ adopt_finish cf z1 z2 (inl acc) = (Some c', r)
              /\ mapw w' (purge_bad m m).
Proof.
  intros Hs Hw E.
  destruct (op_adopt_map cf z1 z2 w m _ w' Hw (sorted_nodup m Hs) E) as [Ex Hw'].
  pose proof (scan_pure_general m acc0 m) as G.
  destruct (scan_pure m acc0 m) as [[acc|e] m1] eqn:Esp; cbn [fst snd] in *.
  - destruct G as [_ ->]. exists acc. auto.
  - discriminate.
Qed.

Definition win_sorted (m : store) (keyf : N -> N) (a : N) (l : nat) : Prop :=
  forall n n', a <= n -> n < n' -> n' < a + N.of_nat l -> sq_at m (keyf n) <= sq_at m (keyf n').

(* A1: the shape of whatever AdoptSession returns on an arbitrary store *)
Theorem adopted_shape cf z1 z2 w m c' r w' :
  sorted_keys m -> rel_in_space m -> mapw w m ->
  op_adopt cf z1 z2 w = Some ((Some c', r), w') ->
  mapw w' (purge_bad m m) /\
  exists a l1 cm lr le amax nw,
    c' = mk_client (adopt_cfg cf z1 z2) amax (map key1 (nseq a l1))
                   (map key2 (nseq (cm + N.of_nat lr) le)) (map key2 (nseq cm lr))
    /\ r = RetAdopt nw E_nil /\ count_bad m <= nw
    /\ a < 16384 /\ cm < 16384
    /\ N.of_nat l1 <= norm_max z1 /\ N.of_nat lr + N.of_nat le <= norm_max z2
    /\ (forall n, a <= n < a + N.of_nat l1 -> rec_of m Alo (key1 n))
    /\ (forall n, cm <= n < cm + N.of_nat lr -> rec_of m Rel (key2 n))
    /\ (forall n, cm + N.of_nat lr <= n < cm + N.of_nat lr + N.of_nat le -> rec_of m Eo (key2 n))
    /\ win_sorted m key1 a l1 /\ win_sorted m key2 cm lr /\ win_sorted m key2 (cm + N.of_nat lr) le
    /\ seq_bound m amax /\ (forall B, seq_bound m B -> amax <= B).
Proof.
  intros Hs Hrel Hw E.
  destruct (adopt_some_pure cf z1 z2 w m c' r w' Hs Hw E) as (acc & Esp & Ef & Hw').
  split; [exact Hw'|].
  pose proof (sorted_nodup m Hs) as Hnd.
  destruct (scan_pure_sel m acc0 m acc _ Esp) as (Hget & _ & Hsb & Hub).
  pose proof (scan_pure_general m acc0 m) as G. rewrite Esp in G. destruct G as [Gw _].
  assert (Hg : forall c, acc_get c acc = rev (flat_map (ent_sel c) m)).
  { intros c. rewrite Hget. destruct c; apply app_nil_r. }
  destruct (class_run m Alo acc Hnd Hrel (Hg Alo)) as (a & l1 & g1 & C1 & Ha & R1 & S1).
  destruct (class_run m Eo acc Hnd Hrel (Hg Eo)) as (e & le & g2 & C2 & He & R2 & S2).
  destruct (class_run m Rel acc Hnd Hrel (Hg Rel)) as (cm0 & lr0 & g3 & C3 & Hc & R3 & S3).
  cbn [acc_get keyf] in C1, C2, C3, R1, R2, R3, S1, S2, S3.
  unfold adopt_finish in Ef. rewrite C1, C2, C3 in Ef. unfold adopt_build in Ef.
  (* the exactly-once groups after the gap rule *)
  assert (Hcase : exists cm lr,
             (if gap_of (map key2 (nseq e le)) (map key2 (nseq cm0 lr0)) then [] else map key2 (nseq cm0 lr0))
             = map key2 (nseq cm lr)
             /\ map key2 (nseq e le) = map key2 (nseq (cm + N.of_nat lr) le)
             /\ cm < 16384
             /\ (forall n, cm <= n < cm + N.of_nat lr -> rec_of m Rel (key2 n))
             /\ (forall n, cm + N.of_nat lr <= n < cm + N.of_nat lr + N.of_nat le -> rec_of m Eo (key2 n))
             /\ win_sorted m key2 cm lr /\ win_sorted m key2 (cm + N.of_nat lr) le).
  { assert (Hno : exists cm lr, @nil N = map key2 (nseq cm lr)
             /\ map key2 (nseq e le) = map key2 (nseq (cm + N.of_nat lr) le)
             /\ cm < 16384
             /\ (forall n, cm <= n < cm + N.of_nat lr -> rec_of m Rel (key2 n))
             /\ (forall n, cm + N.of_nat lr <= n < cm + N.of_nat lr + N.of_nat le -> rec_of m Eo (key2 n))
             /\ win_sorted m key2 cm lr /\ win_sorted m key2 (cm + N.of_nat lr) le).
    { exists e, O. cbn [N.of_nat nseq map]. rewrite N.add_0_r.
      split; [reflexivity|]. split; [reflexivity|]. split; [exact He|].
      split; [intros n Hn; lia|]. split; [exact R2|].
      split; [intros n n' ? ? ?; lia|].
      exact (sorted_nseq_pointwise _ key2 le e S2). }
    destruct lr0 as [|j].
    { cbn [nseq map]. replace (gap_of (map key2 (nseq e le)) []) with false
        by (unfold gap_of; destruct (map key2 (nseq e le)); reflexivity).
      exact Hno. }
    destruct le as [|i].
    { cbn [nseq map gap_of]. exists cm0, (S j).
      split; [reflexivity|]. split; [reflexivity|]. split; [exact Hc|].
      split; [exact R3|]. split; [intros n Hn; cbn in Hn; lia|].
      split; [exact (sorted_nseq_pointwise _ key2 (S j) cm0 S3)|intros n n' ? ? ?; cbn in *; lia]. }
    destruct (gap_of (map key2 (nseq e (S i))) (map key2 (nseq cm0 (S j)))) eqn:Hgap; [exact Hno|].
    pose proof (nseq_last j cm0 key2) as EL.
    unfold gap_of, lastk in Hgap. cbn [nseq map] in Hgap, EL. rewrite EL in Hgap.
    apply negb_false_iff in Hgap.
    assert (Ek : key2 e = key2 (cm0 + N.of_nat j + 1)).
    { apply (consecutive_keyf key2 (fun k => in_space k eo_space) key2_mod
               (keyf_cong Eo) (keyf_of_space Eo)); [apply key2_space|exact Hgap]. }
    apply key2_iff in Ek.
    assert (Ee : map key2 (nseq e (S i)) = map key2 (nseq (cm0 + N.of_nat (S j)) (S i))).
    { apply (map_nseq_cong key2 (keyf_cong Eo)). rewrite Ek. f_equal. lia. }
    exists cm0, (S j). split; [reflexivity|]. split; [exact Ee|]. split; [exact Hc|].
    split; [exact R3|].
    rewrite Ee in S2.
    split.
    { intros n Hn.
      assert (In (key2 n) (map key2 (nseq e (S i)))).
      { rewrite Ee. apply in_map, nseq_in. lia. }
      apply in_map_iff in H. destruct H as (n0 & E0 & Hn0). rewrite <- E0. apply R2.
      apply nseq_in in Hn0. exact Hn0. }
    split; [exact (sorted_nseq_pointwise _ key2 (S j) cm0 S3)|].
    exact (sorted_nseq_pointwise _ key2 (S i) _ S2). }
  destruct Hcase as (cm & lr & Erel & Eeo & Hcm & R3' & R2' & S3' & S2').
  rewrite Erel, Eeo in Ef. unfold adopt_build2 in Ef. cbv zeta in Ef.
  rewrite !len_map_nseq in Ef.
  change (s_max1 (adopt_cfg cf z1 z2)) with (norm_max z1) in Ef.
  change (s_max2 (adopt_cfg cf z1 z2)) with (norm_max z2) in Ef.
  destruct (N.ltb_spec (norm_max z1) (N.of_nat l1)) as [|L1]; [discriminate|].
  destruct (N.ltb_spec (norm_max z2) (N.of_nat le + N.of_nat lr)) as [|L2]; [discriminate|].
  cbn [orb] in Ef. inversion Ef; subst c' r. clear Ef.
  exists a, l1, cm, lr, le, (a_max acc). eexists.
  split; [reflexivity|]. split; [reflexivity|].
  split. { unfold count_bad. cbn [acc0 a_warn] in Gw. lia. }
  split; [exact Ha|]. split; [exact Hcm|]. split; [exact L1|]. split; [lia|].
  split; [exact R1|]. split; [exact R3'|]. split; [exact R2'|].
  split; [exact (sorted_nseq_pointwise _ key1 l1 a S1)|]. split; [exact S3'|]. split; [exact S2'|].
  split; [exact Hsb|]. intros B HB. apply Hub; [cbn; lia|exact HB].
Qed.

(* ================================================================== *)
(* 6. The invariant of an adopted state                                *)

(* key k holds a genuine, non-empty record whose packet type (head byte) is ty *)
Definition rec_at (m : store) (k ty : N) : Prop :=
  exists h body sq, holds m k (h :: body) sq /\ sq < M64 /\ h / 16 = ty.

(* OInv' without "nothing else lives in the publish key spaces" (leftovers stay), without
   the storage-number clauses, packet shapes read off the head byte: what connect/resend,
   the acknowledgement handlers and the next publish rely on *)
Record DInv (st : ost) : Prop := mkDInv {
  di_cnt : CInv st;
  di_sorted : sorted_keys (o_store st);
  di_w1 : forall n, o_acked st <= n < o_acc1 st -> rec_at (o_store st) (key1 n) 3;
  di_w2r : forall n, o_compl st <= n < o_recvd st -> rec_at (o_store st) (key2 n) 6;
  di_w2p : forall n, o_recvd st <= n < o_acc2 st -> rec_at (o_store st) (key2 n) 3
}.

Lemma rec_at_ext m m' k ty : store_get m' k = store_get m k -> rec_at m k ty -> rec_at m' k ty.
Proof. intros E (h & b & sq & Hh & Hs & Ht). exists h, b, sq. unfold holds in *. rewrite E. auto. Qed.

Lemma rec_at_put_other m k v k' ty : k' <> k -> rec_at m k' ty -> rec_at (store_put m k v) k' ty.
Proof. intros H. apply rec_at_ext. apply store_get_put_other, H. Qed.

Lemma rec_at_del_other m k k' ty : sorted_keys m -> k' <> k -> rec_at m k' ty -> rec_at (store_del m k) k' ty.
Proof. intros Hs H. apply rec_at_ext. apply OutboundInv.store_get_del_other; assumption. Qed.

Lemma encode_value_mod p sq : encode_value p sq = encode_value p (sq mod M64).
Proof.
  unfold encode_value. cbv zeta. unfold le64.
  change M64 with (256 ^ N.of_nat 8). rewrite le_enc_mod. reflexivity.
Qed.

Lemma rec_at_put_new m k h body sq : rec_at (store_put m k (encode_value (h :: body) sq)) k (h / 16).
Proof.
  exists h, body, (sq mod M64). split.
  - unfold holds. rewrite store_get_put_same, encode_value_mod. reflexivity.
  - split; [apply N.mod_lt; discriminate|reflexivity].
Qed.

Lemma rec_at_new_pub1 m r t ms n sq :
  rec_at (store_put m (key1 n) (encode_value (pub1_packet r t ms n) sq)) (key1 n) 3.
Proof.
  destruct (pub1_head r t ms n) as (b & ->).
  replace 3 with (head_publish 1 r false / 16) by (destruct r; reflexivity). apply rec_at_put_new.
Qed.
Lemma rec_at_new_pub2 m r t ms n sq :
  rec_at (store_put m (key2 n) (encode_value (pub2_packet r t ms n) sq)) (key2 n) 3.
Proof.
  destruct (pub2_head r t ms n) as (b & ->).
  replace 3 with (head_publish 2 r false / 16) by (destruct r; reflexivity). apply rec_at_put_new.
Qed.
Lemma rec_at_new_pubrel m k sq :
  rec_at (store_put m k (encode_value (packet_pubrel k) sq)) k 6.
Proof. destruct (pubrel_head k) as (b & ->). change 6 with (98 / 16). apply rec_at_put_new. Qed.

Lemma key2_key1 n n' : key2 n <> key1 n'.
Proof. intros E. exact (key1_key2 _ _ (eq_sym E)). Qed.

(* DInv is weaker than the working invariant *)
Theorem OInv'_DInv st : OInv' st -> DInv st.
Proof.
  intros [[HC HS] [Hsort Hrs]]. constructor; [exact HC|exact Hsort| | |].
  - intros n Hn. destruct (si_s1 _ _ _ _ _ _ _ HS n Hn) as (r & t & ms & sq & Hh & Hle).
    destruct (pub1_head r t ms n) as (b & E). rewrite E in Hh.
    exists (head_publish 1 r false), b, sq. split; [exact Hh|]. split; [lia|destruct r; reflexivity].
  - intros n Hn. destruct (si_s2r _ _ _ _ _ _ _ HS n Hn) as (sq & Hh & Hle).
    destruct (pubrel_head (key2 n)) as (b & E). rewrite E in Hh.
    exists 98, b, sq. split; [exact Hh|]. split; [lia|reflexivity].
  - intros n Hn. destruct (si_s2p _ _ _ _ _ _ _ HS n Hn) as (r & t & ms & sq & Hh & Hle).
    destruct (pub2_head r t ms n) as (b & E). rewrite E in Hh.
    exists (head_publish 2 r false), b, sq. split; [exact Hh|]. split; [lia|destruct r; reflexivity].
Qed.

(* ... and an invariant of every abstract step (no bound on the storage counter needed:
   a record keeps the low 64 bits) *)
Theorem dinv_step st st' : DInv st -> ostep st st' -> DInv st'.
Proof.
  intros [HC Hsort W1 W2r W2p] Hstep.
  constructor; [exact (cinv_step _ _ HC Hstep)|exact (sorted_step _ _ Hsort Hstep)| | |];
    destruct HC as [Hc1 Hc2 Hmax Hw1 Hw2 Hq1 Hq2 Hqt];
    ost_cases Hstep st.
  (* ---- level 1 window ---- *)
  - pose proof (Hq1 H) as Q. intros n Hn. destruct (N.eq_dec n ac1) as [->|Hne].
    + apply rec_at_new_pub1.
    + apply rec_at_put_other; [apply key1_neq_near; lia|apply W1; lia].
  - intros n Hn. apply rec_at_put_other; [apply key1_key2|apply W1; lia].
  - exact W1.
  - term_cases tm Hq1 Hq2 Hqt. rewrite len_cons in *.
    intros n Hn. apply rec_at_del_other; [exact Hsort|apply key1_neq_near; lia|apply W1; lia].
  - intros n Hn. apply rec_at_put_other; [apply key1_key2|apply W1; lia].
  - intros n Hn. apply rec_at_del_other; [exact Hsort|apply key1_key2|apply W1; lia].
  - exact W1.
  - intros n Hn. apply rec_at_put_other; [intros E; exact (proj1 (marker_not_key k n H) (eq_sym E))|apply W1; lia].
  - intros n Hn. apply rec_at_del_other; [exact Hsort|intros E; exact (proj1 (marker_not_key k n H) (eq_sym E))|apply W1; lia].
  - exact W1.
  - exact W1.
  (* ---- PUBREL window ---- *)
  - intros n Hn. apply rec_at_put_other; [apply key2_key1|apply W2r; lia].
  - pose proof (Hq2 H) as Q. intros n Hn.
    apply rec_at_put_other; [apply key2_neq_near; lia|apply W2r; lia].
  - exact W2r.
  - intros n Hn. apply rec_at_del_other; [exact Hsort|apply key2_key1|apply W2r; lia].
  - term_cases tm Hq1 Hq2 Hqt; [rewrite len_nil in *; lia|].
    intros n Hn. destruct (N.eq_dec n rc) as [->|Hne].
    + apply rec_at_new_pubrel.
    + apply rec_at_put_other; [apply key2_neq_near; lia|apply W2r; lia].
  - term_cases tm Hq1 Hq2 Hqt. rewrite len_cons in *.
    intros n Hn. apply rec_at_del_other; [exact Hsort|apply key2_neq_near; lia|apply W2r; lia].
  - exact W2r.
  - intros n Hn. apply rec_at_put_other; [intros E; exact (proj2 (marker_not_key k n H) (eq_sym E))|apply W2r; lia].
  - intros n Hn. apply rec_at_del_other; [exact Hsort|intros E; exact (proj2 (marker_not_key k n H) (eq_sym E))|apply W2r; lia].
  - exact W2r.
  - exact W2r.
  (* ---- level 2 PUBLISH window ---- *)
  - intros n Hn. apply rec_at_put_other; [apply key2_key1|apply W2p; lia].
  - pose proof (Hq2 H) as Q. intros n Hn. destruct (N.eq_dec n ac2) as [->|Hne].
    + apply rec_at_new_pub2.
    + apply rec_at_put_other; [apply key2_neq_near; lia|apply W2p; lia].
  - exact W2p.
  - intros n Hn. apply rec_at_del_other; [exact Hsort|apply key2_key1|apply W2p; lia].
  - term_cases tm Hq1 Hq2 Hqt; [rewrite len_nil in *; lia|].
    intros n Hn. apply rec_at_put_other; [apply key2_neq_near; lia|apply W2p; lia].
  - term_cases tm Hq1 Hq2 Hqt. rewrite len_cons in *.
    intros n Hn. apply rec_at_del_other; [exact Hsort|apply key2_neq_near; lia|apply W2p; lia].
  - exact W2p.
  - intros n Hn. apply rec_at_put_other; [intros E; exact (proj2 (marker_not_key k n H) (eq_sym E))|apply W2p; lia].
  - intros n Hn. apply rec_at_del_other; [exact Hsort|intros E; exact (proj2 (marker_not_key k n H) (eq_sym E))|apply W2p; lia].
  - exact W2p.
  - exact W2p.
Qed.

Theorem dinv_steps st st' : DInv st -> osteps st st' -> DInv st'.
Proof. intros H S. induction S as [st|a b c Hab _ IH]; [exact H|]. apply IH. exact (dinv_step _ _ H Hab). Qed.

(* every later API call (no further AdoptSession) keeps it: the adopted client goes on *)
Theorem dinv_exec s o tp s' r log :
  DInv (ost_of s) -> op_wf o -> exec s o tp = Some (s', r, log) -> DInv (ost_of s').
Proof. intros H Hwf E. eapply dinv_steps; [exact H|]. eapply exec_refines; eassumption. Qed.

Theorem dinv_run h s :
  DInv (ost_of s) -> Forall (fun p => op_wf (fst p)) h -> DInv (ost_of (run s h)).
Proof. intros H Hh. eapply dinv_steps; [exact H|]. apply run_refines, Hh. Qed.

(* ================================================================== *)
(* 7. (a) the adopted state satisfies DInv                             *)

Lemma is_bad_false m k raw :
  NoDup (map fst m) -> store_get m k = Some raw -> (k = 0 \/ decodable raw = true) -> is_bad m k = false.
Proof.
  intros Hnd Hg Hd. unfold is_bad. destruct (existsb _ m) eqn:E; [|reflexivity]. exfalso.
  apply existsb_exists in E. destruct E as ([k' v] & Hin & Hb). cbn [fst] in Hb.
  apply andb_true_iff in Hb. destruct Hb as [Hk Hb]. apply N.eqb_eq in Hk. subst k'.
  apply (store_get_in m k v Hnd) in Hin. rewrite Hin in Hg. inversion Hg; subst v.
  unfold bad_ent in Hb. cbn [fst snd] in Hb. apply andb_true_iff in Hb. destruct Hb as [H0 H1].
  destruct Hd as [->|Hd]; [discriminate|]. rewrite Hd in H1. discriminate.
Qed.

Lemma is_bad_true m k raw :
  store_get m k = Some raw -> k <> 0 -> decodable raw = false -> is_bad m k = true.
Proof.
  intros Hg Hk Hd. unfold is_bad. apply existsb_exists. exists (k, raw). split.
  - clear Hd. induction m as [|[k0 v0] r IH]; [discriminate|]. cbn [store_get] in Hg.
    destruct (N.eqb_spec k0 k) as [->|]; [inversion Hg; left; reflexivity|right; auto].
  - cbn [fst]. rewrite N.eqb_refl. unfold bad_ent. cbn [fst snd]. rewrite Hd.
    destruct (N.eqb_spec k 0); [contradiction|reflexivity].
Qed.

(* what AdoptSession leaves in the store: exactly the records that decode (and key 0) *)
Lemma purged_get m k : sorted_keys m ->
  store_get (purge_bad m m) k =
  match store_get m k with
  | Some raw => if (k =? 0) || decodable raw then Some raw else None
  | None => None
  end.
Proof.
  intros Hs. rewrite (proj2 (purge_bad_spec m m Hs)).
  destruct (store_get m k) as [raw|] eqn:Hg; [|destruct (is_bad m k); reflexivity].
  destruct (N.eqb_spec k 0) as [->|Hk]; cbn [orb].
  - rewrite (is_bad_false m 0 raw (sorted_nodup m Hs) Hg); auto.
  - destruct (decodable raw) eqn:Hd.
    + rewrite (is_bad_false m k raw (sorted_nodup m Hs) Hg); auto.
    + rewrite (is_bad_true m k raw Hg Hk Hd). reflexivity.
Qed.

Lemma rec_of_rec_at m c k :
  sorted_keys m -> bytes_store m -> rec_of m c k ->
  rec_at (purge_bad m m) k (cls_ty c) /\ store_get (purge_bad m m) k = store_get m k.
Proof.
  intros Hs Hb (raw & h & body & sq & Hg & Hd & Hty & _).
  assert (Hdec : decodable raw = true) by (unfold decodable; rewrite Hd; reflexivity).
  assert (Hg' : store_get (purge_bad m m) k = Some raw).
  { rewrite (purged_get m k Hs), Hg, Hdec, orb_true_r. reflexivity. }
  split; [|congruence].
  destruct (decode_inv raw _ _ (Hb k raw Hg) Hd) as [-> Hsq].
  exists h, body, sq. split; [exact Hg'|]. split; [exact Hsq|exact Hty].
Qed.

Lemma mk_client_fixed cf' amax alo eo rel :
  let c := mk_client cf' amax alo eo rel in
  k_parked c = [] /\ k_csem c = None /\ k_wsem c = WsPending /\ k_nconn c = 0 /\ k_rconn c = None
  /\ k_pack c = [] /\ k_big c = None /\ k_txs c = [] /\ k_ping c = None /\ k_online c = false
  /\ k_rbuf c = [] /\ k_rerr c = None /\ k_peekn c = 0.
Proof. unfold mk_client, c_lvl1, c_lvl2. destruct alo, eo, rel; cbn; repeat split. Qed.

(* (a) For ANY store of byte strings (PUBREL-headed records only in the exactly-once
   space): whatever client AdoptSession returns, together with the purged store,
   satisfies DInv; its windows hold records of the ORIGINAL store, in non-decreasing
   storage order; the storage counter continues above every record left. *)
Theorem Adopted_inv cf z1 z2 w m c' r w' :
  sorted_keys m -> bytes_store m -> rel_in_space m -> mapw w m ->
  op_adopt cf z1 z2 w = Some ((Some c', r), w') ->
  let m' := purge_bad m m in
  mapw w' m'
  /\ DInv (ost_of (mkSys c' m'))
  /\ (exists nw, r = RetAdopt nw E_nil /\ count_bad m <= nw)
  /\ k_cfg c' = adopt_cfg cf z1 z2 /\ k_closed c' = false /\ k_seqclosed c' = false
  /\ k_sub1 c' = k_acc1 c' /\ k_sub2 c' = k_acc2 c'
  /\ k_parked c' = [] /\ k_csem c' = None
  (* the windows hold what was genuinely saved *)
  /\ (forall n, k_acked c' <= n < k_acc1 c' ->
        rec_of m Alo (key1 n) /\ store_get m' (key1 n) = store_get m (key1 n))
  /\ (forall n, k_compl c' <= n < k_recvd c' ->
        rec_of m Rel (key2 n) /\ store_get m' (key2 n) = store_get m (key2 n))
  /\ (forall n, k_recvd c' <= n < k_acc2 c' ->
        rec_of m Eo (key2 n) /\ store_get m' (key2 n) = store_get m (key2 n))
  (* in the order in which they were saved *)
  /\ (forall n n', k_acked c' <= n -> n < n' -> n' < k_acc1 c' -> sq_at m (key1 n) <= sq_at m (key1 n'))
  /\ (forall n n', k_compl c' <= n -> n < n' -> n' < k_recvd c' -> sq_at m (key2 n) <= sq_at m (key2 n'))
  /\ (forall n n', k_recvd c' <= n -> n < n' -> n' < k_acc2 c' -> sq_at m (key2 n) <= sq_at m (key2 n'))
  (* the storage counter continues above everything left *)
  /\ (forall k v p sq, k <> 0 -> store_get m' k = Some v -> decode_value v = DecOk p sq -> sq <= k_rseq c')
  /\ k_rseq c' < M64.
Proof.
  intros Hs Hb Hrel Hw E m'.
  destruct (adopted_shape cf z1 z2 w m c' r w' Hs Hrel Hw E)
    as (Hw' & a & l1 & cm & lr & le & amax & nw & -> & -> & Hnw & Ha & Hcm & L1 & L2
        & R1 & R3 & R2 & S1 & S3 & S2 & Hsb & Hub).
  pose proof (norm_max_le z1) as N1. pose proof (norm_max_le z2) as N2.
  pose proof (mk_client_spec (adopt_cfg cf z1 z2) amax a l1 cm lr le ltac:(lia) ltac:(lia)) as S.
  pose proof (mk_client_fixed (adopt_cfg cf z1 z2) amax (map key1 (nseq a l1))
                (map key2 (nseq (cm + N.of_nat lr) le)) (map key2 (nseq cm lr))) as F.
  cbv zeta in S, F.
  match type of S with k_cfg ?c = _ /\ _ => set (c' := c) in * end.
  destruct S as (Scfg & Srseq & Sclosed & Sterm & Ssub1 & Ssub2 & Sq1 & Sq2 & S10 & S11 & S20 & S21).
  destruct F as (Fpark & Fcsem & _).
  replace (a mod 16384) with a in * by (symmetry; apply N.mod_small; exact Ha).
  replace (cm mod 16384) with cm in * by (symmetry; apply N.mod_small; exact Hcm).
  assert (A1 : k_acc1 c' = k_acked c' + N.of_nat l1 /\ (l1 <> O -> k_acked c' = a)).
  { destruct (Nat.eq_dec l1 0) as [Z|NZ];
      [destruct (S10 Z) as [-> ->]; split; [lia|contradiction]
      |destruct (S11 NZ) as [-> ->]; split; [lia|reflexivity]]. }
  assert (A2 : k_recvd c' = k_compl c' + N.of_nat lr /\ k_acc2 c' = k_compl c' + N.of_nat lr + N.of_nat le
               /\ ((lr + le)%nat <> O -> k_compl c' = cm)).
  { destruct (Nat.eq_dec (lr + le) 0) as [Z|NZ];
      [destruct (S20 Z) as (-> & -> & ->); split; [lia|split; [lia|contradiction]]
      |destruct (S21 NZ) as (-> & -> & ->); split; [lia|split; [lia|reflexivity]]]. }
  destruct A1 as [A1 A1']. destruct A2 as (A2 & A3 & A2').
  clear S10 S11 S20 S21.
  (* window membership in terms of the runs *)
  assert (W1 : forall n, k_acked c' <= n < k_acc1 c' -> a <= n < a + N.of_nat l1).
  { intros n Hn. assert (l1 <> O) by lia. rewrite (A1' H) in *. lia. }
  assert (W3 : forall n, k_compl c' <= n < k_recvd c' -> cm <= n < cm + N.of_nat lr).
  { intros n Hn. assert ((lr + le)%nat <> O) by lia. rewrite (A2' H) in *. lia. }
  assert (W2 : forall n, k_recvd c' <= n < k_acc2 c' ->
                 cm + N.of_nat lr <= n < cm + N.of_nat lr + N.of_nat le).
  { intros n Hn. assert ((lr + le)%nat <> O) by lia. rewrite (A2' H) in *. lia. }
  split; [exact Hw'|].
  split.
  { constructor; cbn [ost_of sy_c sy_m o_max1 o_max2 o_acked o_sub1 o_acc1 o_q1 o_compl o_recvd
                      o_sub2 o_acc2 o_q2 o_term o_closed o_rseq o_store].
    - constructor; cbn [ost_of sy_c sy_m o_max1 o_max2 o_acked o_sub1 o_acc1 o_q1 o_compl o_recvd
                        o_sub2 o_acc2 o_q2 o_term o_closed o_rseq o_store];
        rewrite ?Scfg; cbn [adopt_cfg s_max1 s_max2]; try lia; try (intros; lia).
      rewrite Sterm. discriminate.
    - apply (proj1 (purge_bad_spec m m Hs)).
    - intros n Hn. apply (rec_of_rec_at m Alo _ Hs Hb (R1 n (W1 n Hn))).
    - intros n Hn. apply (rec_of_rec_at m Rel _ Hs Hb (R3 n (W3 n Hn))).
    - intros n Hn. apply (rec_of_rec_at m Eo _ Hs Hb (R2 n (W2 n Hn))). }
  split; [exists nw; split; [reflexivity|exact Hnw]|].
  split; [exact Scfg|]. split; [exact Sclosed|]. split; [exact Sterm|].
  split; [exact Ssub1|]. split; [exact Ssub2|]. split; [exact Fpark|]. split; [exact Fcsem|].
  split. { intros n Hn. split; [exact (R1 n (W1 n Hn))|apply (rec_of_rec_at m Alo _ Hs Hb (R1 n (W1 n Hn)))]. }
  split. { intros n Hn. split; [exact (R3 n (W3 n Hn))|apply (rec_of_rec_at m Rel _ Hs Hb (R3 n (W3 n Hn)))]. }
  split. { intros n Hn. split; [exact (R2 n (W2 n Hn))|apply (rec_of_rec_at m Eo _ Hs Hb (R2 n (W2 n Hn)))]. }
  split. { intros n n' H1 H2 H3. apply S1; [apply (W1 n)|exact H2|apply (W1 n')]; lia. }
  split. { intros n n' H1 H2 H3. apply S3; [apply (W3 n)|exact H2|apply (W3 n')]; lia. }
  split. { intros n n' H1 H2 H3. apply S2; [apply (W2 n)|exact H2|apply (W2 n')]; lia. }
  split.
  { intros k v p sq Hk Hg Hd. rewrite Srseq. unfold m' in Hg. rewrite (purged_get m k Hs) in Hg.
    destruct (store_get m k) as [raw|] eqn:Hgm; [|discriminate].
    destruct ((k =? 0) || decodable raw); [|discriminate]. inversion Hg; subst v.
    apply (Hsb k raw p sq); [|exact Hk|exact Hd]. apply store_get_in; [apply sorted_nodup, Hs|exact Hgm]. }
  rewrite Srseq.
  assert (amax <= M64 - 1); [|unfold M64 in *; lia].
  apply Hub. intros k raw p sq Hin Hk Hd.
  apply (store_get_in m k raw (sorted_nodup m Hs)) in Hin.
  destruct (decode_inv raw p sq (Hb k raw Hin) Hd) as [_ Hlt]. unfold M64 in *. lia.
Qed.

(* ================================================================== *)
(* 8. (b) connect of a client in DInv                                  *)

#[local] Arguments pub1_packet : simpl never.
#[local] Arguments pub2_packet : simpl never.
#[local] Arguments packet_pubrel : simpl never.
#[local] Arguments connect_packet : simpl never.
#[local] Arguments write_to_run : simpl never.
#[local] Arguments write_buffers_to_run : simpl never.

Lemma rec_at_genuine m k ty : rec_at m k ty -> genuine_at m k.
Proof. intros (h & b & sq & Hh & Hs & _). exists (h :: b), sq. split; [exact Hh|]. split; [exact Hs|discriminate]. Qed.

Section AWindow.
  Variables (c : client) (m : store).
  Hypothesis HI : DInv (oproj c m).

  Lemma awin_counters :
    k_acked c <= k_acc1 c /\ k_sub1 c <= k_acc1 c /\
    k_compl c <= k_recvd c /\ k_recvd c <= k_acc2 c /\ k_sub2 c <= k_acc2 c.
  Proof. destruct (di_cnt _ HI) as [[? ?] [? [? ?]] _ _ _ _ _ _]. cbn in *. auto. Qed.

  Lemma awin_genuine1 n : k_acked c <= n < k_acc1 c -> genuine_at m (key_of alo_space n).
  Proof. intros Hn. apply (rec_at_genuine _ _ 3). exact (di_w1 _ HI n Hn). Qed.

  Lemma awin_genuine2 n : k_compl c <= n < k_acc2 c -> genuine_at m (key_of eo_space n).
  Proof.
    intros Hn. destruct (N.lt_ge_cases n (k_recvd c)) as [Hlt|Hge].
    - apply (rec_at_genuine _ _ 6). apply (di_w2r _ HI n). cbn. lia.
    - apply (rec_at_genuine _ _ 3). apply (di_w2p _ HI n). cbn. lia.
  Qed.
End AWindow.

(* [ResendOrder.connect_w] with DInv in place of OInv': the proof only ever used the
   counters and the records of the windows *)
Theorem connect_w_dinv c m :
  DInv (oproj c m) ->
  wtrip m (connect c) (fun p m' tr => m' = m /\ connect_run c m (fst p) (snd p) tr).
Proof.
  intros HI. unfold connect. destruct (k_closed c) eqn:CL.
  { apply wtrip_ret. split; [reflexivity|]. apply CR_closed; auto. }
  cbv zeta. fold (clean_requested c).
  eapply wtrip_bind; [apply rugged_load_any|]. intros l m1 t1 (-> & -> & Hl).
  destruct l as [cidv|e0].
  2:{ apply wtrip_ret. split; [reflexivity|]. cbn [fst snd app].
      apply CR_load; auto. rewrite rl_wsem. reflexivity. apply cp_rl_down. reflexivity. }
  fold (cid_of cidv). rewrite Hl. clear Hl cidv.
  eapply wtrip_bind; [apply (wtrip_keep_l m _ _ (ask_dial_keep m) ask_dial_spec)|].
  cbv beta. intros ok m1 t1 (-> & ->).
  destruct ok; cbn [negb].
  2:{ apply wtrip_ret. split; [reflexivity|]. cbn [fst snd app].
      apply CR_dial; auto. rewrite rl_wsem. reflexivity. apply cp_rl_down. reflexivity. }
  eapply wtrip_bind.
  { apply (wtrip_of m _ _ _ (handshake_k _ m _ _ _) (handshake_run _ _ _ _)). }
  cbv beta. intros [c2 h] m1 t2 [[Hcp ->] [Hp (r & wtr & rtr & -> & Hw & Hrd & Hbad & Hok & Hnz)]].
  cbn [fst snd] in Hcp, Hp, Hbad, Hok, Hnz.
  change (hs_cfg (c <| k_nconn := k_nconn c + 1 |>) (clean_requested c))
    with (hs_cfg c (clean_requested c)) in Hw.
  fold (connect_pkt c m) in Hw.
  change (cp c2 = cp c) in Hcp.
  pose proof Hcp as Hf. apply cp_fields in Hf.
  destruct Hf as (F1 & F2 & F3 & F4 & F5 & F6 & F7 & F8 & F9 & F10 & F11 & F12 & F13).
  apply hp_fields in Hp as (_ & _ & _ & _ & Hnc & _ & _ & _ & _).
  change (k_nconn c2 = k_nconn c + 1) in Hnc.
  destruct h as [|eh].
  2:{ eapply wtrip_bind; [apply (wtrip_keep_l m _ _ (tell_keep m _) (tell_spec _))|].
      cbv beta. intros _ m1 t3 (-> & ->). apply wtrip_ret. split; [reflexivity|].
      cbn [fst snd]. rewrite ?app_nil_r.
      cbn [app]; rewrite <- ?app_assoc.
      apply CR_handshake with (r := r).
      - exact CL.
      - apply (Hnz eh eq_refl).
      - exact Hw.
      - exact Hrd.
      - intros Hn. destruct (Hbad Hn) as [? He]. inversion He. auto.
      - rewrite rl_wsem. reflexivity.
      - rewrite cp_release_locked. exact Hcp. }
  destruct (Hok eq_refl) as [-> Hrc]. clear Hbad Hok Hnz.
  cbv zeta.
  pose proof (awin_counters c m HI) as (C1 & C2 & C3 & C4 & C5).
  (* level 1 *)
  change (k_acc1 (c2 <| k_csem := Some (k_nconn c) |>)) with (k_acc1 c2).
  change (k_acked (c2 <| k_csem := Some (k_nconn c) |>)) with (k_acked c2).
  change (k_sub1 (c2 <| k_csem := Some (k_nconn c) |>)) with (k_sub1 c2).
  rewrite F5, F6, F7.
  eapply wtrip_bind.
  { apply resend_w0; [lia|]. intros n Hn. apply (awin_genuine1 c m HI n Hn). }
  cbv beta. intros [s1 e1] m1 rs1 [-> Hr1]. cbn [fst snd] in Hr1.
  destruct (negb (e1 =? 0)) eqn:E1.
  { eapply wtrip_bind; [apply (wtrip_keep_l m _ _ (tell_keep m _) (tell_spec _))|].
    cbv beta. intros _ m1 t3 (-> & ->). apply wtrip_ret. split; [reflexivity|].
    cbn [fst snd]. rewrite ?app_nil_r.
    cbn [app]; rewrite <- ?app_assoc.
    apply CR_resend1 with (s1 := s1).
    - exact CL.
    - apply negb_eqb_nz, E1.
    - exact Hw.
    - exact Hrd.
    - exact Hr1.
    - rewrite rl_wsem. reflexivity.
    - rewrite cp_release_locked. unfold cp; cbn. congruence. }
  apply negb_eqb_z in E1. subst e1.
  (* level 2 *)
  match goal with |- context [resend _ _ eo_space (k_compl ?x) (k_acc2 ?x) (k_sub2 ?x)] =>
    change (k_compl x) with (k_compl c2); change (k_acc2 x) with (k_acc2 c2);
    change (k_sub2 x) with (k_sub2 c2) end.
  rewrite F8, F9, F11.
  eapply wtrip_bind.
  { apply resend_w0; [lia|]. intros n Hn. apply (awin_genuine2 c m HI n Hn). }
  cbv beta. intros [s2 e2] m1 rs2 [-> Hr2]. cbn [fst snd] in Hr2.
  destruct (negb (e2 =? 0)) eqn:E2.
  { eapply wtrip_bind; [apply (wtrip_keep_l m _ _ (tell_keep m _) (tell_spec _))|].
    cbv beta. intros _ m1 t3 (-> & ->). apply wtrip_ret. split; [reflexivity|].
    cbn [fst snd]. rewrite ?app_nil_r.
    cbn [app]; rewrite <- ?app_assoc.
    apply CR_resend2 with (s1 := s1) (s2 := s2).
    - exact CL.
    - apply negb_eqb_nz, E2.
    - exact Hw.
    - exact Hrd.
    - exact Hr1.
    - exact Hr2.
    - rewrite rl_wsem. reflexivity.
    - rewrite cp_release_locked. unfold cp; cbn. congruence. }
  apply negb_eqb_z in E2. subst e2.
  match goal with |- context [if ?b then _ else _] => destruct b end; [apply wtrip_fail|].
  apply wtrip_ret. split; [reflexivity|]. cbn [fst snd]. rewrite ?app_nil_r.
  cbn [app]; rewrite <- ?app_assoc.
  apply CR_online with (s1 := s1) (s2 := s2).
  - exact CL.
  - reflexivity.
  - exact Hw.
  - exact Hrd.
  - exact Hr1.
  - exact Hr2.
  - reflexivity.
  - exact Hnc.
  - unfold cp; cbn. congruence.
Qed.

(* (b), every environment: one connect of a client in DInv, under ANY answer tapes (also
   Persistence failures), is a [connect_run]: every constructor of it ends in success or in
   a failure of the environment (the key-0 Load, the Dialer, the CONNECT write or the
   CONNACK, a write of a stored packet, an injected Load failure).  "gone missing" and a
   corrupt record are not among them: the resend loads of [resend_run] only ever fail
   with E_store, the injected failure. *)
Theorem adopted_connect_any c m w c2 e w1 :
  DInv (oproj c m) -> w_store w = Some m ->
  connect c w = Some ((c2, e), w1) ->
  w_store w1 = Some m /\ exists tr, grows w w1 tr /\ connect_run c m c2 e tr.
Proof.
  intros HI Hm E. destruct (connect_w_dinv c m HI _ _ _ Hm E) as (m' & tr & Hm' & G & -> & Hr).
  split; [exact Hm'|]. exists tr. split; [exact G|exact Hr].
Qed.

(* ---- the accepting environment: no Persistence failure, every Write accepted ---- *)

Definition accw (w : world) (m : store) : Prop :=
  w_store w = Some m /\ nofail (t_stf w) /\ Forall (fun a : wanswer => snd a = WOk) (t_wr w).

(* what one step leaves alone / adds *)
Definition stepw (w w1 : world) (q : list req) : Prop :=
  w_log w1 = rev q ++ w_log w /\ t_dial w1 = t_dial w /\ t_rd w1 = t_rd w.

Lemma stepw_trans w w1 w2 q1 q2 : stepw w w1 q1 -> stepw w1 w2 q2 -> stepw w w2 (q1 ++ q2).
Proof.
  intros (L1 & D1 & R1) (L2 & D2 & R2). split; [|split; congruence].
  rewrite L2, L1, rev_app_distr, app_assoc. reflexivity.
Qed.

Lemma rugged_load_acc w m k l w1 :
  accw w m -> rugged_load k w = Some (l, w1) ->
  l = match store_get m k with
      | None => inl None
      | Some raw => match decode_value raw with DecOk p _ => inl (Some p) | _ => inr E_other end
      end
  /\ accw w1 m /\ stepw w w1 [QLoad k].
Proof.
  intros (Hs & Hf & Hwr) E. unfold rugged_load, bind, ask_store in E. rewrite Hs in E.
  destruct (t_stf w) as [|[|] t] eqn:Et; [discriminate|inversion Hf; discriminate|].
  assert (Ht : nofail t) by (inversion Hf; assumption).
  destruct (store_get m k) as [raw|].
  - destruct (decode_value raw); apply ret_inv in E as [-> ->];
      (split; [reflexivity|]); (split; [split; [exact Hs|split; [exact Ht|exact Hwr]]|]);
      repeat split.
  - apply ret_inv in E as [-> ->].
    split; [reflexivity|]. split; [split; [exact Hs|split; [exact Ht|exact Hwr]]|]. repeat split.
Qed.

Lemma conn_write_acc w m cn p r w1 :
  accw w m -> p <> [] -> conn_write cn [p] true w = Some (r, w1) ->
  r = WOk /\ accw w1 m /\ stepw w w1 [QWrite cn p].
Proof.
  intros (Hs & Hf & Hwr) Hp E. unfold conn_write in E. rewrite concat_single in E.
  unfold write_to_run in E. destruct p as [|b p]; [congruence|]. cbn [write_to] in E.
  destruct (t_wr w) as [|[n0 r0] t] eqn:Et; [discriminate|].
  inversion Hwr as [|? ? Hr0 Ht]; subst. cbn [snd] in Hr0. subst r0.
  inversion E; subst. split; [reflexivity|].
  split; [split; [exact Hs|split; [exact Hf|exact Ht]]|]. repeat split.
Qed.

(* the calls of a successful resend of [cnt] sequence numbers from n on, everything
   below the submit counter (DUP set on PUBLISH) *)
Definition wire_packet (m : store) (space n : N) : list N :=
  set_dup true (packet_at m (key_of space n)).
Definition resend_log (m : store) (cn space n : N) (cnt : nat) : list req :=
  flat_map (fun n => [QLoad (key_of space n); QWrite cn (wire_packet m space n)]) (nseq n cnt).

Lemma resend_acc m cn space acc subm fuel : forall seqno w s e w1,
  accw w m -> acc <= subm ->
  (N.to_nat (acc - seqno) < fuel)%nat ->
  (forall n, seqno <= n < acc -> genuine_at m (key_of space n)) ->
  resend fuel cn space seqno acc subm w = Some ((s, e), w1) ->
  e = 0 /\ s = subm /\ accw w1 m
  /\ stepw w w1 (resend_log m cn space seqno (N.to_nat (acc - seqno))).
Proof.
  induction fuel as [|f IH]; intros seqno w s e w1 Hw Hsub Hf Hg E; [lia|].
  cbn [resend] in E. destruct (N.leb_spec acc seqno) as [Hle|Hlt].
  { apply ret_inv in E as [E ->]. inversion E; subst.
    replace (N.to_nat (acc - seqno)) with O by lia.
    split; [reflexivity|]. split; [reflexivity|]. split; [exact Hw|]. repeat split. }
  cbv zeta in E. fold (key_of space seqno) in E.
  apply bind_inv in E as (l & w2 & El & E).
  destruct (rugged_load_acc _ _ _ _ _ Hw El) as (-> & Hw2 & S2).
  destruct (Hg seqno ltac:(lia)) as (p & sq & Hh & Hs & Hp).
  pose proof (genuine_packet_at _ _ _ _ Hh Hs) as Epk.
  unfold holds in Hh. rewrite Hh, (decode_encode _ _ Hs) in E.
  destruct p as [|h body]; [congruence|].
  apply bind_inv in E as (r & w3 & Ew & E).
  replace (seqno <? subm) with true in Ew by (symmetry; apply N.ltb_lt; lia).
  eapply conn_write_acc in Ew; [|exact Hw2|discriminate]. destruct Ew as (-> & Hw3 & S3).
  replace (subm <=? seqno) with false in E by (symmetry; apply N.leb_gt; lia).
  destruct (IH (seqno + 1) w3 s e w1 Hw3 Hsub ltac:(lia) ltac:(intros n Hn; apply Hg; lia) E)
    as (-> & -> & Hw1 & S1).
  split; [reflexivity|]. split; [reflexivity|]. split; [exact Hw1|].
  replace (N.to_nat (acc - seqno)) with (S (N.to_nat (acc - (seqno + 1)))) by lia.
  unfold resend_log. cbn [nseq flat_map]. fold (resend_log m cn space (seqno + 1) (N.to_nat (acc - (seqno + 1)))).
  change ([QLoad (key_of space seqno); QWrite cn (wire_packet m space seqno)] ++ ?x)
    with ([QLoad (key_of space seqno)] ++ [QWrite cn (wire_packet m space seqno)] ++ x).
  eapply stepw_trans; [exact S2|]. eapply stepw_trans; [|exact S1].
  unfold wire_packet. rewrite Epk. exact S3.
Qed.

Lemma peek_connack cap arm a b c d rd : 4 <= cap ->
  peek {| rbuf := []; rerr := None; rcap := cap; rarmed := arm;
          rtape := RData [a; b; c; d] :: rd; rlog := [] |} 4
  = (([a; b; c; d], None),
     {| rbuf := [a; b; c; d]; rerr := None; rcap := cap; rarmed := arm;
        rtape := rd; rlog := [(arm, cap)] |}).
Proof.
  intros H.
  assert (E1 : 0 <? cap = true) by (apply N.ltb_lt; lia).
  assert (E2 : cap <? 4 = false) by (apply N.ltb_ge; lia).
  unfold peek. cbn [rtape tape_weight peek_fill rbuf rcap rerr].
  change (len []) with 0. change (0 <? 4) with true. rewrite E1. cbn [andb].
  unfold fill, conn_read. cbn [rtape rbuf rcap rarmed rlog rerr].
  change (len []) with 0. rewrite N.sub_0_r.
  change (len [a; b; c; d]) with 4. rewrite E2.
  unfold rst_with_buf. cbn [rbuf rcap rerr rarmed rtape rlog app].
  change (len [a; b; c; d]) with 4. change (4 <? 4) with false. cbn [andb].
  cbn [rbuf rcap rerr]. rewrite E2. change (len [a; b; c; d]) with 4. change (4 <? 4) with false.
  reflexivity.
Qed.

Lemma handshake_acc c cn clean cid w m fl rd c2 h w1 :
  accw w m -> t_rd w = RData [32; 2; fl; 0] :: rd ->
  (fl = 0 \/ (fl = 1 /\ clean = false)) -> 4 <= s_rcap (k_cfg c) ->
  handshake c cn clean cid w = Some ((c2, h), w1) ->
  h = HsOk /\ accw w1 m /\ cp c2 = cp c /\ hp c2 = hp c
  /\ w_log w1 = QRead cn (s_pause (k_cfg c)) (s_rcap (k_cfg c))
                 :: QWrite cn (connect_packet (hs_cfg c clean) cid) :: w_log w
  /\ t_dial w1 = t_dial w.
Proof.
  intros Hw Hrd Hfl Hcap E.
  assert (Hcp : cp c2 = cp c).
  { destruct (handshake_k c m cn clean cid w _ w1 (proj1 Hw) E) as (m' & _ & H & _). exact H. }
  assert (Hhp : hp c2 = hp c).
  { destruct (handshake_run c cn clean cid w _ w1 E) as (tr & _ & H & _). exact H. }
  unfold handshake in E. cbv zeta in E. fold (hs_cfg c clean) in E.
  apply bind_inv in E as (r & w2 & Ew & E).
  eapply conn_write_acc in Ew; [|exact Hw|apply connect_packet_nonempty].
  destruct Ew as (-> & Hw2 & (L2 & D2 & R2)).
  apply bind_inv in E as ([c1 [p e]] & w3 & Er & E).
  unfold with_reader in Er.
  match type of Er with context [peek ?s 4] =>
    assert (Pk : s = {| rbuf := []; rerr := None; rcap := s_rcap (k_cfg c); rarmed := s_pause (k_cfg c);
                        rtape := RData [32; 2; fl; 0] :: rd; rlog := [] |})
      by (unfold rst_of; rewrite R2, Hrd; reflexivity)
  end.
  rewrite Pk, (peek_connack _ _ _ _ _ _ _ Hcap) in Er. clear Pk.
  inversion Er; subst c1 p e w3. clear Er.
  assert (Hw3 : forall f g, accw (w2 <| t_rd := f |> <| w_log ::= g |>) m).
  { intros f g. destruct Hw2 as (A & B & C). split; [exact A|]. split; [exact B|exact C]. }
  assert (Hfin : forall c', ret (c', HsOk) (w2 <| t_rd := rd |>
              <| w_log ::= app (map (fun l : bool * N => QRead cn (fst l) (snd l))
                                    [(s_pause (k_cfg c), s_rcap (k_cfg c))]) |>) = Some (c2, h, w1) ->
            h = HsOk /\ accw w1 m /\ cp c2 = cp c /\ hp c2 = hp c
            /\ w_log w1 = QRead cn (s_pause (k_cfg c)) (s_rcap (k_cfg c))
                           :: QWrite cn (connect_packet (hs_cfg c clean) cid) :: w_log w
            /\ t_dial w1 = t_dial w).
  { intros c' R. apply ret_inv in R as [R ->]. inversion R; subst.
    split; [reflexivity|]. split; [apply Hw3|]. split; [exact Hcp|]. split; [exact Hhp|].
    split; [cbn; rewrite L2; reflexivity|exact D2]. }
  cbv beta iota zeta in E.
  change (32 =? 32) with true in E. change (2 =? 2) with true in E. cbn [andb negb] in E.
  change (0 =? 0) with true in E. cbn [negb] in E.
  destruct Hfl as [->|[-> ->]].
  - change (0 =? 0) with true in E. cbv iota in E. exact (Hfin _ E).
  - change (1 =? 0) with false in E. change (1 =? 1) with true in E. cbv iota in E. exact (Hfin _ E).
Qed.

Definition connect_log (c : client) (m : store) : list req :=
  let cn := k_nconn c in
  QLoad 0 :: QDial :: QWrite cn (connect_pkt c m)
    :: QRead cn (s_pause (k_cfg c)) (s_rcap (k_cfg c))
    :: resend_log m cn alo_space (k_acked c) (N.to_nat (k_acc1 c - k_acked c))
    ++ resend_log m cn eo_space (k_compl c) (N.to_nat (k_acc2 c - k_compl c)).

Lemma cid_load m : cid_ok m ->
  exists cidv, match store_get m 0 with
               | None => inl None
               | Some raw => match decode_value raw with DecOk p _ => inl (Some p) | _ => inr E_other end
               end = @inl (option (list N)) err cidv /\ cid_of cidv = packet_at m 0.
Proof.
  unfold cid_ok, packet_at, decodable. destruct (store_get m 0) as [raw|].
  - destruct (decode_value raw) as [p sq| |]; try discriminate. intros _. exists (Some p). auto.
  - intros _. exists None. auto.
Qed.

(* (b), accepting broker: no Persistence failure, the Dialer connects, every Write is
   accepted, the broker answers CONNACK "accepted" (session present or not, as far as
   that is compatible with the request): connect succeeds and the calls are exactly:
   Load of the client identifier, Dial, CONNECT, one Read, then for every sequence number
   of the at-least-once window and then of the exactly-once window, in order, the Load of
   its key and ONE Write carrying the stored packet (DUP set on a PUBLISH). *)
Theorem connect_acc c m w fl rd dl c2 e w1 :
  accw w m -> DInv (oproj c m) -> cid_ok m ->
  k_closed c = false -> k_parked c = [] ->
  k_acc1 c <= k_sub1 c -> k_acc2 c <= k_sub2 c ->
  t_dial w = true :: dl -> t_rd w = RData [32; 2; fl; 0] :: rd ->
  (fl = 0 \/ (fl = 1 /\ clean_requested c = false)) -> 4 <= s_rcap (k_cfg c) ->
  connect c w = Some ((c2, e), w1) ->
  e = E_nil /\ k_online c2 = true /\ k_wsem c2 = WsConn (k_nconn c) /\ cp c2 = cp c
  /\ accw w1 m /\ w_log w1 = rev (connect_log c m) ++ w_log w.
Proof.
  intros Hw HI Hcid CL Hpk Hs1 Hs2 Hdl Hrd Hfl Hcap E.
  pose proof (awin_counters c m HI) as (C1 & C2 & C3 & C4 & C5).
  unfold connect in E. rewrite CL in E. cbv zeta in E. fold (clean_requested c) in E.
  apply bind_inv in E as (l & w2 & El & E).
  destruct (rugged_load_acc _ _ _ _ _ Hw El) as (-> & Hw2 & (L2 & D2 & R2)).
  destruct (cid_load m Hcid) as (cidv & Hc & Ecid). rewrite Hc in E. clear Hc.
  fold (cid_of cidv) in E. rewrite Ecid in E.
  apply bind_inv in E as (ok & w3 & Ed & E).
  unfold ask_dial in Ed. rewrite D2, Hdl in Ed. inversion Ed; subst ok w3. clear Ed.
  cbn [negb] in E.
  set (w3 := w2 <| t_dial := dl |> <| w_log ::= cons QDial |>) in *.
  assert (Hw3 : accw w3 m) by (destruct Hw2 as (A & B & C); split; [exact A|split; [exact B|exact C]]).
  apply bind_inv in E as ([c3 h] & w4 & Eh & E).
  eapply handshake_acc in Eh; [|exact Hw3|unfold w3; cbn; rewrite R2; exact Hrd|exact Hfl|exact Hcap].
  destruct Eh as (-> & Hw4 & Hcp & Hhp & L4 & D4).
  change (hs_cfg (c <| k_nconn := k_nconn c + 1 |>) (clean_requested c))
    with (hs_cfg c (clean_requested c)) in L4.
  fold (connect_pkt c m) in L4.
  change (s_pause (k_cfg (c <| k_nconn := k_nconn c + 1 |>))) with (s_pause (k_cfg c)) in L4.
  change (s_rcap (k_cfg (c <| k_nconn := k_nconn c + 1 |>))) with (s_rcap (k_cfg c)) in L4.
  change (cp c3 = cp c) in Hcp.
  pose proof Hcp as Hf. apply cp_fields in Hf.
  destruct Hf as (F1 & F2 & F3 & F4 & F5 & F6 & F7 & F8 & F9 & F10 & F11 & F12 & F13).
  apply hp_fields in Hhp as (_ & _ & _ & _ & Hnc & _ & Hpk3 & _ & _).
  change (k_parked c3 = k_parked c) in Hpk3.
  cbv zeta in E.
  change (k_acc1 (c3 <| k_csem := Some (k_nconn c) |>)) with (k_acc1 c3) in E.
  change (k_acked (c3 <| k_csem := Some (k_nconn c) |>)) with (k_acked c3) in E.
  change (k_sub1 (c3 <| k_csem := Some (k_nconn c) |>)) with (k_sub1 c3) in E.
  rewrite F5, F6, F7 in E.
  apply bind_inv in E as ([s1 e1] & w5 & E1 & E).
  eapply resend_acc in E1; [|exact Hw4|exact Hs1|lia|intros n Hn; apply (awin_genuine1 c m HI n Hn)].
  destruct E1 as (-> & -> & Hw5 & (L5 & D5 & R5)).
  change (negb (0 =? 0)) with false in E. cbv iota in E.
  match type of E with context [resend _ _ eo_space (k_compl ?x) (k_acc2 ?x) (k_sub2 ?x)] =>
    change (k_compl x) with (k_compl c3) in E; change (k_acc2 x) with (k_acc2 c3) in E;
    change (k_sub2 x) with (k_sub2 c3) in E end.
  rewrite F8, F9, F11 in E.
  apply bind_inv in E as ([s2 e2] & w6 & E2 & E).
  eapply resend_acc in E2; [|exact Hw5|exact Hs2|lia|intros n Hn; apply (awin_genuine2 c m HI n Hn)].
  destruct E2 as (-> & -> & Hw6 & (L6 & D6 & R6)).
  change (negb (0 =? 0)) with false in E. cbv iota in E.
  match type of E with context [has_locked ?x] =>
    replace (has_locked x) with false in E
      by (unfold has_locked; change (k_parked x) with (k_parked c3); rewrite Hpk3, Hpk; reflexivity)
  end.
  apply ret_inv in E as [E ->]. inversion E; subst c2 e. clear E.
  split; [reflexivity|]. split; [reflexivity|]. split; [reflexivity|].
  split. { unfold cp; cbn. congruence. }
  split; [exact Hw6|].
  rewrite L6, L5, L4. unfold w3. cbn [w_log set]. unfold connect_log. cbv zeta.
  cbn [rev]. rewrite !rev_app_distr. cbn [rev app]. rewrite <- !app_assoc. cbn [app].
  rewrite L2. reflexivity.
Qed.

(* the packets handed to conn.Write, in order *)
Definition writes_of (tr : list req) : list (list N) :=
  flat_map (fun q => match q with QWrite _ bs => [bs] | _ => [] end) tr.

Lemma writes_of_app a b : writes_of (a ++ b) = writes_of a ++ writes_of b.
Proof. unfold writes_of. apply flat_map_app. Qed.

Lemma writes_of_resend_log m cn space cnt : forall n,
  writes_of (resend_log m cn space n cnt) = map (wire_packet m space) (nseq n cnt).
Proof.
  induction cnt as [|cnt IH]; intros n; [reflexivity|].
  unfold resend_log. cbn [nseq flat_map map]. fold (resend_log m cn space (n + 1) cnt).
  cbn [app]. unfold writes_of at 1. cbn [flat_map app]. fold (writes_of (resend_log m cn space (n + 1) cnt)).
  rewrite IH. reflexivity.
Qed.

Lemma writes_of_connect_log c m :
  writes_of (connect_log c m)
  = connect_pkt c m
    :: map (wire_packet m alo_space) (nseq (k_acked c) (N.to_nat (k_acc1 c - k_acked c)))
    ++ map (wire_packet m eo_space) (nseq (k_compl c) (N.to_nat (k_acc2 c - k_compl c))).
Proof.
  unfold connect_log. cbv zeta.
  change (writes_of (QLoad 0 :: QDial :: QWrite (k_nconn c) (connect_pkt c m) :: QRead ?a ?b ?d :: ?x))
    with (connect_pkt c m :: writes_of x).
  rewrite writes_of_app, !writes_of_resend_log. reflexivity.
Qed.

Lemma packet_at_ext m m' k : store_get m' k = store_get m k -> packet_at m' k = packet_at m k.
Proof. unfold packet_at. intros ->. reflexivity. Qed.

(* (b) for the client AdoptSession returned on an arbitrary store: against an accepting
   broker it connects, and the wire shows CONNECT followed by exactly the packets of the
   surviving records, window by window in storage order, each byte for byte the packet
   saved in the ORIGINAL store (DUP set) *)
Theorem adopted_connects cf z1 z2 w0 m c' r w0' :
  sorted_keys m -> bytes_store m -> rel_in_space m -> cid_ok m -> mapw w0 m ->
  op_adopt cf z1 z2 w0 = Some ((Some c', r), w0') ->
  let m' := purge_bad m m in
  forall w fl rd dl c2 e w1,
    accw w m' -> t_dial w = true :: dl -> t_rd w = RData [32; 2; fl; 0] :: rd ->
    (fl = 0 \/ (fl = 1 /\ cfg_clean (s_cfg cf) = false)) -> 4 <= s_rcap cf ->
    connect c' w = Some ((c2, e), w1) ->
    e = E_nil /\ k_online c2 = true /\ cp c2 = cp c' /\ accw w1 m'
    /\ exists tr, w_log w1 = rev tr ++ w_log w
       /\ writes_of tr
          = connect_pkt c' m'
            :: map (wire_packet m alo_space) (nseq (k_acked c') (N.to_nat (k_acc1 c' - k_acked c')))
            ++ map (wire_packet m eo_space) (nseq (k_compl c') (N.to_nat (k_acc2 c' - k_compl c'))).
Proof.
  intros Hs Hb Hrel Hcid Hw0 Ead m' w fl rd dl c2 e w1 Hw Hdl Hrd Hfl Hcap E.
  destruct (Adopted_inv cf z1 z2 w0 m c' r w0' Hs Hb Hrel Hw0 Ead)
    as (_ & HI & _ & Hcfg & Hcl & _ & Hsub1 & Hsub2 & Hpk & Hcs & G1 & G3 & G2 & _).
  fold m' in HI, G1, G2, G3.
  assert (Hcid' : cid_ok m').
  { unfold cid_ok, m'. rewrite (purged_get m 0 Hs). unfold cid_ok in Hcid.
    destruct (store_get m 0) as [raw|]; [|exact I]. cbn [N.eqb orb]. exact Hcid. }
  assert (Hclean : clean_requested c' = cfg_clean (s_cfg cf)).
  { unfold clean_requested. rewrite Hcfg, Hcs. cbn [adopt_cfg s_cfg]. apply andb_true_r. }
  destruct (connect_acc c' m' w fl rd dl c2 e w1 Hw HI Hcid' Hcl Hpk) as (-> & Hon & _ & Hcp & Hw1 & HL).
  - rewrite Hsub1. lia.
  - rewrite Hsub2. lia.
  - exact Hdl.
  - exact Hrd.
  - rewrite Hclean. exact Hfl.
  - rewrite Hcfg. exact Hcap.
  - exact E.
  - split; [reflexivity|]. split; [exact Hon|]. split; [exact Hcp|]. split; [exact Hw1|].
    exists (connect_log c' m'). split; [exact HL|].
    rewrite writes_of_connect_log. f_equal. f_equal.
    + apply map_ext_in. intros n Hn. apply nseq_in in Hn. unfold wire_packet. f_equal.
      apply packet_at_ext. rewrite key_of_alo. apply G1.
      pose proof (awin_counters c' m' HI). lia.
    + apply map_ext_in. intros n Hn. apply nseq_in in Hn. unfold wire_packet. f_equal.
      apply packet_at_ext. rewrite key_of_eo.
      pose proof (awin_counters c' m' HI) as (_ & _ & ? & ? & _).
      destruct (N.lt_ge_cases n (k_recvd c')); [apply G3|apply G2]; lia.
Qed.

(* ================================================================== *)
(* 9. (c) the next persisted publish                                   *)

Definition lv_max (level : N) (c : client) : N :=
  if level =? 1 then s_max1 (k_cfg c) else s_max2 (k_cfg c).

Lemma pp_guard c level retain msg topic w c1 x w1 :
  op_publish_persisted c level retain msg topic w = Some ((c1, RetExch x), w1) ->
  len (lv_q level c) < lv_max level c /\ k_seqclosed c = false.
Proof.
  intros E. unfold op_publish_persisted in E. cbv zeta in E.
  destruct (deny_of (topic_check topic)); [apply ret_inv in E as [E _]; discriminate|].
  destruct (packet_max <? _); [apply ret_inv in E as [E _]; discriminate|].
  destruct (k_seqclosed c); [apply ret_inv in E as [E _]; discriminate|].
  destruct (k_closed c); [apply ret_inv in E as [E _]; discriminate|].
  fold (lv_q level c) in E. fold (lv_max level c) in E.
  destruct (N.leb_spec (lv_max level c) (len (lv_q level c))); [apply ret_inv in E as [E _]; discriminate|].
  split; [assumption|reflexivity].
Qed.

(* (c) for every client in DInv: an accepted PublishAtLeastOnce/PublishExactlyOnce saves
   its record under the key of the accept counter; that key is outside BOTH windows (and
   is neither key 0 nor a marker key), so no record of a window is overwritten; whatever
   else sat under it (a leftover kept with a warning) is replaced; DInv holds again with
   the window grown by the new record *)
Theorem dinv_publish_fresh c m level retain msg topic w c1 x w1 :
  DInv (oproj c m) -> level = 1 \/ level = 2 -> w_store w = Some m ->
  op_publish_persisted c level retain msg topic w = Some ((c1, RetExch x), w1) ->
  let pid := pp_key c level in
  let m1 := store_put m pid (pp_record c level retain msg topic) in
  w_store w1 = Some m1
  /\ (forall n, k_acked c <= n < k_acc1 c -> key1 n <> pid /\ store_get m1 (key1 n) = store_get m (key1 n))
  /\ (forall n, k_compl c <= n < k_acc2 c -> key2 n <> pid /\ store_get m1 (key2 n) = store_get m (key2 n))
  /\ pid <> 0 /\ N.testbit pid 16 = false
  /\ holds m1 pid (pp_packet c level retain msg topic) (k_rseq c + 1)
  /\ lv_acc level c1 = lv_acc level c + 1
  /\ DInv (oproj c1 m1).
Proof.
  intros HI Hl Hm E pid m1.
  destruct (pp_guard _ _ _ _ _ _ _ _ _ E) as [Hq Hterm].
  destruct (first_transmission c m level retain msg topic w c1 _ w1 Hm Hl E) as (m' & tr & Hm' & _ & Hrun).
  assert (Em : m' = m1 /\ lv_acc level c1 = lv_acc level c + 1).
  { assert (Hacc : forall c0, lv_acc level (accepted level c0) = lv_acc level c0 + 1)
      by (intros c0; unfold lv_acc, accepted; destruct Hl as [-> | ->]; cbn; lia).
    assert (Hx : forall c0 y e0, lv_acc level (xsend c0 y e0) = lv_acc level c0)
      by (intros c0 y e0; unfold xsend, lv_acc; destruct (y =? 0), (level =? 1); reflexivity).
    inversion Hrun; subst; try discriminate; (split; [reflexivity|]).
    - rewrite Hx. apply Hacc.
    - rewrite Hx. apply Hacc.
    - rewrite Hx. unfold lv_acc, accepted. destruct Hl as [-> | ->]; cbn; lia.
    - unfold submitted, lv_acc, accepted. destruct Hl as [-> | ->]; cbn; lia. }
  destruct Em as [-> Hacc1].
  destruct (di_cnt _ HI) as [Hc1 Hc2 Hmax Hw1 Hw2 Hq1 Hq2 Hqt]. cbn in *.
  specialize (Hq1 Hterm). specialize (Hq2 Hterm).
  assert (Hpid : (level = 1 /\ pid = key1 (k_acc1 c) /\ k_acc1 c - k_acked c < 16384)
                 \/ (level = 2 /\ pid = key2 (k_acc2 c) /\ k_acc2 c - k_compl c < 16384)).
  { unfold lv_max, lv_q in Hq. destruct Hl as [-> | ->]; [left|right]; cbn in Hq;
      (split; [reflexivity|]); (split; [reflexivity|lia]). }
  assert (K1 : forall n, k_acked c <= n < k_acc1 c -> key1 n <> pid).
  { intros n Hn. destruct Hpid as [(_ & -> & Hlt)|(_ & -> & _)]; [apply key1_neq_near; lia|apply key1_key2]. }
  assert (K2 : forall n, k_compl c <= n < k_acc2 c -> key2 n <> pid).
  { intros n Hn. destruct Hpid as [(_ & -> & _)|(_ & -> & Hlt)]; [apply key2_key1|apply key2_neq_near; lia]. }
  split; [exact Hm'|].
  split. { intros n Hn. split; [apply K1, Hn|apply store_get_put_other, K1, Hn]. }
  split. { intros n Hn. split; [apply K2, Hn|apply store_get_put_other, K2, Hn]. }
  split. { destruct Hpid as [(_ & -> & _)|(_ & -> & _)]; [apply key1_nz|apply key2_nz]. }
  split. { destruct Hpid as [(_ & -> & _)|(_ & -> & _)]; [apply key1_bit|apply key2_bit]. }
  split. { unfold m1, pp_record. apply holds_put_same. }
  split; [exact Hacc1|].
  assert (HR : R c m c1 m1).
  { destruct Hl as [-> | ->].
    - destruct (op_pubp1_spec c m retain msg topic w _ w1 Hm E) as (m2 & Hm2 & HR).
      cbn [fst] in HR. rewrite Hm' in Hm2. inversion Hm2; subst m2. exact HR.
    - destruct (op_pubp2_spec c m retain msg topic w _ w1 Hm E) as (m2 & Hm2 & HR).
      cbn [fst] in HR. rewrite Hm' in Hm2. inversion Hm2; subst m2. exact HR. }
  exact (dinv_steps _ _ HI (proj2 HR)).
Qed.

(* (c) for the adopted client *)
Theorem adopted_accepts_new cf z1 z2 w0 m c' r w0' :
  sorted_keys m -> bytes_store m -> rel_in_space m -> mapw w0 m ->
  op_adopt cf z1 z2 w0 = Some ((Some c', r), w0') ->
  let m' := purge_bad m m in
  forall level retain msg topic w c1 x w1,
    level = 1 \/ level = 2 -> w_store w = Some m' ->
    op_publish_persisted c' level retain msg topic w = Some ((c1, RetExch x), w1) ->
    let pid := pp_key c' level in
    let m1 := store_put m' pid (pp_record c' level retain msg topic) in
    w_store w1 = Some m1
    /\ (forall n, k_acked c' <= n < k_acc1 c' -> key1 n <> pid /\ store_get m1 (key1 n) = store_get m (key1 n))
    /\ (forall n, k_compl c' <= n < k_acc2 c' -> key2 n <> pid /\ store_get m1 (key2 n) = store_get m (key2 n))
    /\ pid <> 0 /\ N.testbit pid 16 = false
    /\ holds m1 pid (pp_packet c' level retain msg topic) (k_rseq c' + 1)
    /\ DInv (oproj c1 m1).
Proof.
  intros Hs Hb Hrel Hw0 Ead m' level retain msg topic w c1 x w1 Hl Hm E pid m1.
  destruct (Adopted_inv cf z1 z2 w0 m c' r w0' Hs Hb Hrel Hw0 Ead)
    as (_ & HI & _ & _ & _ & _ & _ & _ & _ & _ & G1 & G3 & G2 & _).
  fold m' in HI, G1, G2, G3.
  destruct (dinv_publish_fresh c' m' level retain msg topic w c1 x w1 HI Hl Hm E)
    as (A & B1 & B2 & C & D & F & _ & G).
  fold pid in A, B1, B2, C, D, F, G. fold m1 in A, B1, B2, F, G.
  split; [exact A|].
  split. { intros n Hn. destruct (B1 n Hn) as [X Y]. split; [exact X|]. rewrite Y. apply G1, Hn. }
  split. { intros n Hn. destruct (B2 n Hn) as [X Y]. split; [exact X|]. rewrite Y.
           pose proof (awin_counters c' m' HI) as (_ & _ & ? & ? & _).
           destruct (N.lt_ge_cases n (k_recvd c')); [apply G3|apply G2]; lia. }
  repeat (split; [assumption|]). exact G.
Qed.

(* ================================================================== *)
(* 10. (d) reception after adoption                                    *)

(* every record left under a marker key decodes ([InboundTie.mdec], the invariant of the
   inbound tie, which every later step keeps: InboundTie.step_islim_ok) *)
Theorem adopted_mdec m : sorted_keys m -> mdec (purge_bad m m).
Proof.
  intros Hs k v Hg Hb. rewrite (purged_get m k Hs) in Hg.
  destruct (store_get m k) as [raw|]; [|discriminate].
  destruct (N.eqb_spec k 0) as [->|Hk]; [discriminate|]. cbn [orb] in Hg.
  unfold decodable in Hg. destruct (decode_value raw) as [p s| |] eqn:D; try discriminate.
  inversion Hg; subst v. eauto.
Qed.

(* with decodable markers and no Persistence failure, the marker Load of an inbound
   exactly-once PUBLISH never fails: the only error on_publish can report (with no
   acknowledgement pending) is a protocol violation of the packet itself *)
Theorem mdec_on_publish c head body w m c1 h w1 :
  mdec m -> mapw w m -> k_pack c = [] ->
  on_publish c head body w = Some ((c1, h), w1) ->
  (forall e, h = HErr e -> e = E_proto) /\ mapw w1 m.
Proof.
  intros Hd Hw Hp E. unfold on_publish in E. cbv zeta in E. rewrite Hp in E.
  change (negb (len [] =? 0)) with false in E.
  repeat match type of E with
         | (if ?b then _ else _) _ = _ => destruct b
         end;
    try (apply ret_inv in E as [E ->]; inversion E; subst;
         split; [intros e He; inversion He; reflexivity|exact Hw]);
    try (apply ret_inv in E as [E ->]; inversion E; subst;
         split; [intros e He; discriminate|exact Hw]).
  apply bind_inv in E as (l & w2 & El & E).
  unfold rugged_load in El. apply bind_inv in El as (a & w3 & Ea & El).
  destruct (ask_store_mapw _ _ _ _ _ Hw Ea) as [-> Hw3].
  destruct (store_get m _) as [raw|] eqn:Hg.
  - destruct (Hd _ _ Hg (remote_key_bit _)) as (p & s & D). rewrite D in El.
    apply ret_inv in El as [-> ->]. apply ret_inv in E as [E ->]. inversion E; subst.
    split; [intros e He; discriminate|exact Hw3].
  - apply ret_inv in El as [-> ->]. apply ret_inv in E as [E ->]. inversion E; subst.
    split; [intros e He; discriminate|exact Hw3].
Qed.

(* (d) for the adopted store *)
Theorem adopted_receives m c head body w c1 h w1 :
  sorted_keys m -> mapw w (purge_bad m m) -> k_pack c = [] ->
  on_publish c head body w = Some ((c1, h), w1) ->
  forall e, h = HErr e -> e = E_proto.
Proof.
  intros Hs Hw Hp E. exact (proj1 (mdec_on_publish c head body w _ c1 h w1 (adopted_mdec m Hs) Hw Hp E)).
Qed.

(* ================================================================== *)
(* 11. Executable side conditions; the corners                         *)

Fixpoint ascending (ks : list N) : bool :=
  match ks with
  | a :: (b :: _) as r => (a <? b) && ascending r
  | _ => true
  end.

Lemma ascending_lb ks : forall a, ascending (a :: ks) = true -> Forall (fun k => a < k) ks.
Proof.
  induction ks as [|b ks IH]; intros a H; [constructor|].
  cbn [ascending] in H. apply andb_true_iff in H. destruct H as [H1 H2]. apply N.ltb_lt in H1.
  constructor; [exact H1|]. eapply Forall_impl; [|apply (IH b H2)]. cbn. intros; lia.
Qed.

Lemma ascending_sorted m : ascending (map fst m) = true -> sorted_keys m.
Proof.
  induction m as [|[k v] m IH]; [intros _; exact I|]. intros H. cbn [sorted_keys]. split.
  - pose proof (ascending_lb _ _ H) as HF. intros k' Hk'.
    destruct (store_get m k') as [v'|] eqn:G; [|reflexivity]. exfalso.
    assert (In k' (map fst m)).
    { clear - G. induction m as [|[k0 v0] m IH]; [discriminate|]. cbn [store_get] in G. cbn [map fst In].
      destruct (N.eqb_spec k0 k'); [left; assumption|right; auto]. }
    rewrite Forall_forall in HF. specialize (HF _ H0). cbn [fst] in HF. lia.
  - apply IH. cbn [map fst ascending] in H. destruct (map fst m); [reflexivity|].
    apply andb_true_iff in H. apply H.
Qed.

Lemma store_get_In m k v : store_get m k = Some v -> In (k, v) m.
Proof.
  induction m as [|[k0 v0] m IH]; [discriminate|]. cbn [store_get].
  destruct (N.eqb_spec k0 k) as [->|]; [intros E; inversion E; left; reflexivity|right; auto].
Qed.

Definition bytes_storeb (m : store) : bool := forallb (fun e => bytesb (snd e)) m.
Lemma bytes_storeb_ok m : bytes_storeb m = true -> bytes_store m.
Proof.
  intros H k v G. apply store_get_In in G. unfold bytes_storeb in H. rewrite forallb_forall in H.
  specialize (H _ G). cbn [snd] in H. unfold bytesb in H. rewrite forallb_forall in H.
  apply Forall_forall. intros b Hb. apply N.ltb_lt. exact (H b Hb).
Qed.

Definition rel_okb (e : N * list N) : bool :=
  (fst e =? 0) || N.testbit (fst e) 16
  || match decode_value (snd e) with
     | DecOk (h :: _) _ => negb (h / 16 =? 6) || (fst e - N.land (fst e) id_mask =? eo_space)
     | _ => true
     end.
Lemma rel_okb_ok m : forallb rel_okb m = true -> rel_in_space m.
Proof.
  intros H k v h body sq G Hk Hb Hd Hh. apply store_get_In in G. rewrite forallb_forall in H.
  specialize (H _ G). unfold rel_okb in H. cbn [fst snd] in H. rewrite Hb, Hd, Hh in H.
  destruct (N.eqb_spec k 0); [contradiction|]. cbn in H. apply N.eqb_eq in H. exact H.
Qed.

Definition cid_okb (m : store) : bool :=
  match store_get m 0 with Some v => decodable v | None => true end.
Lemma cid_okb_ok m : cid_okb m = true -> cid_ok m.
Proof. unfold cid_okb, cid_ok. destruct (store_get m 0); auto. Qed.

(* ---- a damaged store ---- *)

Definition exd_rec (b sq : N) (n : N) : list N := encode_value (pub1_packet false [116] [109; b] n) sq.
Definition exd_marker : list N := encode_value (packet_pubrec 1) 5.
(* three at-least-once publishes "m1" "m2" "m3" on "t" and a reception marker, then: a
   stray entry, the middle record altered in one byte, the marker cut to five bytes *)
Definition exd_store : store :=
  [ (0, encode_value [99] 1);
    (7, [1; 2; 3]);
    (key1 0, exd_rec 49 2 0);
    (key1 1, upd 5 0 (exd_rec 50 3 1));
    (key1 2, exd_rec 51 4 2);
    (65537, firstn 5 exd_marker) ].
Definition exd_world (m : store) : world :=
  world_of m (mkTapes (exo_st_ok 20) [true] (exo_wr_ok 4) [RData exo_connack]).

Example exd_hypotheses :
  sorted_keys exd_store /\ bytes_store exd_store /\ rel_in_space exd_store /\ cid_ok exd_store
  /\ mapw (exd_world exd_store) exd_store.
Proof.
  split; [apply ascending_sorted; vm_compute; reflexivity|].
  split; [apply bytes_storeb_ok; vm_compute; reflexivity|].
  split; [apply rel_okb_ok; vm_compute; reflexivity|].
  split; [apply cid_okb_ok; vm_compute; reflexivity|].
  split; [reflexivity|]. vm_compute. repeat constructor.
Qed.

(* adopt: three records deleted + one gap = four warnings; the at-least-once record
   before the gap STAYS in the store (skipped, not deleted); connect against an
   accepting broker: CONNECT, then the one surviving publish "m3" with DUP; the next
   publish gets identifier 0x8003 *)
Example exd_run :
  exists c' w' c2 w2 c3 w3,
    op_adopt exo_cfg 16 16 (exd_world exd_store) = Some ((Some c', RetAdopt 4 E_nil), w')
    /\ w_store w' = Some [ (0, encode_value [99] 1); (key1 0, exd_rec 49 2 0); (key1 2, exd_rec 51 4 2) ]
    /\ (k_acked c', k_acc1 c', k_compl c', k_acc2 c', k_rseq c') = (2, 3, 0, 0, 4)
    /\ connect c' (exd_world (purge_bad exd_store exd_store)) = Some ((c2, E_nil), w2)
    /\ exo_writes (rev (w_log w2))
       = [ (0, exo_connect_pkt); (0, publish_packet (head_publish 1 false true) [116] [109; 51] (key1 2)) ]
    /\ op_publish_persisted c2 1 false [109; 52] [116] (w2 <| w_log := [] |>) = Some ((c3, RetExch 1), w3)
    /\ exo_writes (rev (w_log w3))
       = [ (0, publish_head_buf (head_publish 1 false false) [116] [109; 52] (key1 3)); (0, [109; 52]) ]
    /\ map fst (store_of_world w3) = [0; key1 0; key1 2; key1 3].
Proof.
  destruct (op_adopt exo_cfg 16 16 (exd_world exd_store)) as [[[[c'|] r] w']|] eqn:E;
    try (vm_compute in E; discriminate).
  destruct (connect c' (exd_world (purge_bad exd_store exd_store))) as [[[c2 e] w2]|] eqn:E2.
  2:{ vm_compute in E. inversion E; subst. vm_compute in E2. discriminate. }
  destruct (op_publish_persisted c2 1 false [109; 52] [116] (w2 <| w_log := [] |>)) as [[[c3 r3] w3]|] eqn:E3.
  2:{ vm_compute in E. inversion E; subst. vm_compute in E2. inversion E2; subst. vm_compute in E3. discriminate. }
  exists c', w', c2, w2, c3, w3.
  vm_compute in E. inversion E; subst. clear E.
  vm_compute in E2. inversion E2; subst. clear E2.
  vm_compute in E3. inversion E3; subst. clear E3.
  vm_compute. repeat split; reflexivity.
Qed.

(* OInv' itself does NOT hold after such an adoption: exactly its clause "nothing else
   lives in the publish key spaces" fails (here for the skipped record 0x8000) *)
Example leftover_stays :
  exists c' r w' v,
    op_adopt exo_cfg 16 16 (exd_world exd_store) = Some ((Some c', r), w')
    /\ store_get (purge_bad exd_store exd_store) (key1 0) = Some v
    /\ in_space (key1 0) alo_space
    /\ ~ (exists n, k_acked c' <= n < k_acc1 c' /\ key1 0 = key1 n)
    /\ ~ OInv' (ost_of (mkSys c' (purge_bad exd_store exd_store))).
Proof.
  destruct (op_adopt exo_cfg 16 16 (exd_world exd_store)) as [[[[c'|] r] w']|] eqn:E;
    try (vm_compute in E; discriminate).
  exists c', r, w', (exd_rec 49 2 0).
  split; [reflexivity|].
  assert (Hc : k_acked c' = 2 /\ k_acc1 c' = 3) by (vm_compute in E; inversion E; subst; split; reflexivity).
  destruct Hc as [Ha Hb].
  assert (Hno : ~ (exists n, k_acked c' <= n < k_acc1 c' /\ key1 0 = key1 n)).
  { rewrite Ha, Hb. intros (n & Hn & Hk). assert (n = 2) by lia. subst n. vm_compute in Hk. discriminate. }
  split; [vm_compute; reflexivity|]. split; [apply key1_space|]. split; [exact Hno|].
  intros [[_ HS] _]. apply Hno.
  apply (si_only1 _ _ _ _ _ _ _ HS (key1 0) (exd_rec 49 2 0)); [vm_compute; reflexivity|apply key1_space].
Qed.

(* What a record FORGED with a valid checksum can do (outside C16's quantifier, and the
   reason for [rel_in_space]): a PUBREL-headed record under a key outside the exactly-once
   space is taken for a pending release of identifier (key mod 16384); the adopted client
   then looks for key 0xC000+that, finds nothing and every connect fails ("gone missing"). *)
Definition exf_store : store :=
  [ (0, encode_value [99] 1); (key1 5, encode_value (packet_pubrel (key1 5)) 2) ].
Example forged_pubrel_bricks :
  exists c' w' c2 w2,
    sorted_keys exf_store /\ bytes_store exf_store /\ cid_ok exf_store /\ ~ rel_in_space exf_store
    /\ op_adopt exo_cfg 16 16 (exd_world exf_store) = Some ((Some c', RetAdopt 0 E_nil), w')
    /\ w_store w' = Some exf_store
    /\ (k_compl c', k_recvd c', k_acc2 c') = (5, 6, 6)
    /\ connect c' (exd_world exf_store) = Some ((c2, E_other), w2)
    /\ rev (w_log w2) = [QLoad 0; QDial; QWrite 0 exo_connect_pkt; QRead 0 false 4096;
                         QLoad (key2 5); QClose 0].
Proof.
  destruct (op_adopt exo_cfg 16 16 (exd_world exf_store)) as [[[[c'|] r] w']|] eqn:E;
    try (vm_compute in E; discriminate).
  destruct (connect c' (exd_world exf_store)) as [[[c2 e] w2]|] eqn:E2.
  2:{ vm_compute in E. inversion E; subst. vm_compute in E2. discriminate. }
  exists c', w', c2, w2.
  split; [apply ascending_sorted; vm_compute; reflexivity|].
  split; [apply bytes_storeb_ok; vm_compute; reflexivity|].
  split; [apply cid_okb_ok; vm_compute; reflexivity|].
  split.
  { intros H. specialize (H (key1 5) (encode_value (packet_pubrel (key1 5)) 2) 98 [2; 128; 5] 2).
    assert (X : in_space (key1 5) eo_space).
    { apply H; try (vm_compute; reflexivity). vm_compute. discriminate. }
    pose proof (key1_space 5) as Y. exact (space_disjoint _ Y X). }
  vm_compute in E. inversion E; subst. clear E.
  vm_compute in E2. inversion E2; subst. clear E2.
  vm_compute. repeat split; reflexivity.
Qed.
