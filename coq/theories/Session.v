(* L2: the session state machine of the client (client.go, request.go after the
   fix: commits), sequential view: one API call at a time, requests that wait for a
   response are "parked" and completed by later steps.  Everything the outside world
   decides comes from answer tapes; every call into the outside world is logged.
   Definitions only (executable). *)
From Coq Require Import ZArith.
From RecordUpdate Require Import RecordUpdate.
From MQ Require Export Bytes Record Packets WriteLoop Reader Utf8.

(* ------------------------------------------------------------------ *)
(* Error values as class bit-vectors (what errors.Is/As can tell)      *)

Definition err := N.
Definition E_nil : err := 0.
Definition bNonNil : N := 1.        Definition bClosed : N := 2.
Definition bDown : N := 4.          Definition bMax : N := 8.
Definition bCanceled : N := 16.     Definition bAbandoned : N := 32.
Definition bSubmit : N := 64.       Definition bBreak : N := 128.
Definition bDeny : N := 256.        Definition bEnd : N := 512.
Definition bRefused : N := 1024.    Definition bSubErr : N := 2048.
Definition bBig : N := 4096.        Definition bTimeout : N := 8192.
Definition bProto : N := 16384.     Definition bEOF : N := 32768.
Definition bStore : N := 65536.     Definition bNetClosed : N := 131072.
Definition bDial : N := 262144.     Definition bHard : N := 524288.
Definition bUnexpEOF : N := 1048576.

Definition E_other : err := 1.                       (* an error outside every class *)
Definition E_closed : err := 1 + 2 + 512.
Definition E_down : err := 1 + 4.
Definition E_max : err := 1 + 8.
Definition E_canceled : err := 1 + 16 + 512.
Definition E_abandoned : err := 1 + 32 + 512.
Definition E_break : err := 1 + 128.
Definition E_deny : err := 1 + 256.
Definition E_proto : err := 1 + 16384.
Definition E_store : err := 1 + 65536.
Definition E_dial : err := 1 + 262144.
Definition E_brokerterm : err := 1 + 32768.
Definition E_suberr : err := 1 + 2048.
Definition E_refused : err := 1 + 1024.

Definition werr (r : wres) : err :=
  match r with
  | WTimeout => 1 + 8192 | WClosed => 1 + 131072 | WHard => 1 + 524288 | _ => 1
  end.
Definition rerr_class (e : rerror) : err :=
  match e with
  | ETimeout => 1 + 8192 | EEOF => 1 + 32768 | EClosed => 1 + 131072 | EHard => 1 + 524288
  | EUnexpectedEOF => 1 + 1048576 | EBufferFull => 1 | ENoTape => 1
  end.
Definition E_submit (r : wres) : err := N.lor (1 + 64) (werr r).

(* ------------------------------------------------------------------ *)
(* The outside world                                                   *)

Inductive sans := SKeys (ks : list N) | SVal (v : option (list N)) | SDone | SFail.

Inductive req :=
| QList | QLoad (k : N) | QSave (k : N) (v : list N) | QDelete (k : N)
| QDial
| QWrite (c : N) (bs : list N)
| QRead (c : N) (armed : bool) (want : N)
| QClose (c : N).

(* The Persistence is either scripted (w_store = None: answers come from t_st, any
   answers at all: a hostile or damaged store) or a genuine key-value map with
   injected failures (w_store = Some m: answers are computed, t_stf says which
   operations fail).  Keys of the map are kept in ascending order. *)
Definition store := list (N * list N).

Record world := mkWorld {
  t_st : list sans;          (* scripted Persistence answers *)
  t_stf : list bool;         (* map mode: does this Persistence operation fail? *)
  w_store : option store;
  t_dial : list bool;        (* Dialer answers: connection or error *)
  t_wr : list wanswer;       (* conn.Write answers (non-empty arguments only) *)
  t_rd : list rans;          (* conn.Read answers *)
  w_log : list req           (* calls made, newest first *)
}.
#[export] Instance eta_world : Settable _ := settable! mkWorld <t_st; t_stf; w_store; t_dial; t_wr; t_rd; w_log>.

Fixpoint store_get (m : store) (k : N) : option (list N) :=
  match m with
  | [] => None
  | (k', v) :: r => if k' =? k then Some v else store_get r k
  end.
Fixpoint store_put (m : store) (k : N) (v : list N) : store :=
  match m with
  | [] => [(k, v)]
  | (k', v') :: r => if k =? k' then (k, v) :: r
                     else if k <? k' then (k, v) :: m
                     else (k', v') :: store_put r k v
  end.
Fixpoint store_del (m : store) (k : N) : store :=
  match m with
  | [] => []
  | (k', v') :: r => if k' =? k then r else (k', v') :: store_del r k
  end.

(* computations over the world; None = script exhausted (never in a well-formed run) *)
Definition M (A : Type) := world -> option (A * world).
Definition ret {A} (a : A) : M A := fun w => Some (a, w).
Definition bind {A B} (m : M A) (k : A -> M B) : M B :=
  fun w => match m w with Some (a, w') => k a w' | None => None end.
Notation "x <- m ;; k" := (bind m (fun x => k)) (at level 61, m at next level, right associativity).
Notation "' p <- m ;; k" := (bind m (fun p => k)) (at level 61, p pattern, m at next level, right associativity).
Definition fail_tape {A} : M A := fun _ => None.

Definition ask_store (q : req) : M sans :=
  fun w =>
    match w_store w with
    | None =>
      match t_st w with
      | [] => None
      | a :: t => Some (a, w <| t_st := t |> <| w_log ::= cons q |>)
      end
    | Some m =>
      match t_stf w with
      | [] => None
      | true :: t => Some (SFail, w <| t_stf := t |> <| w_log ::= cons q |>)
      | false :: t =>
        let w := w <| t_stf := t |> <| w_log ::= cons q |> in
        match q with
        | QList => Some (SKeys (map fst m), w)
        | QLoad k => Some (SVal (store_get m k), w)
        | QSave k v => Some (SDone, w <| w_store := Some (store_put m k v) |>)
        | QDelete k => Some (SDone, w <| w_store := Some (store_del m k) |>)
        | _ => None
        end
      end
    end.
Definition ask_dial : M bool :=
  fun w => match t_dial w with
           | [] => None
           | a :: t => Some (a, w <| t_dial := t |> <| w_log ::= cons QDial |>)
           end.
Definition tell (q : req) : M unit := fun w => Some (tt, w <| w_log ::= cons q |>).

(* a write of one or more buffers on connection c *)
Definition conn_write (c : N) (bufs : list (list N)) (single : bool) : M wres :=
  fun w =>
    let '(calls, r, t') :=
      if single then write_to_run (concat bufs) (t_wr w) else write_buffers_to_run bufs (t_wr w) in
    match r with
    | WNoTape => None
    | _ => Some (r, w <| t_wr := t' |> <| w_log ::= app (rev (map (fun cl : wcall => QWrite c (fst cl)) calls)) |>)
    end.

(* ------------------------------------------------------------------ *)
(* Client state                                                        *)

Inductive wsem := WsPending | WsDown | WsConn (c : N) | WsClosed.

Inductive lock_cleanup := LcNone | LcTx (pid : N) | LcPing.
Inductive pkind :=
| PkLock (cl : lock_cleanup)     (* blocked in lockWrite while a connect is pending *)
| PkSub (pid : N) | PkUnsub (pid : N) | PkPing.

Record scfg := mkScfg {
  s_cfg : cfg; s_pause : bool; s_max1 : N; s_max2 : N; s_rcap : N;
  s_wmin : N; s_wmax : N      (* ReconnectWaitMin/Max in ms, as newClient normalises them *)
}.

Record client := mkClient {
  k_cfg : scfg;
  k_rseq : N;                       (* ruggedPersistence.seqNo *)
  k_closed : bool;                  (* Close/Disconnect happened: context canceled, semaphores closed *)
  k_seqclosed : bool;               (* termCallbacks ran: sequence semaphores and queues closed *)
  k_csem : option N;                (* connSem: last installed connection (nil before the first) *)
  k_wsem : wsem;
  k_nconn : N;                      (* connections dialed so far *)
  k_rconn : option N;               (* readConn *)
  k_rbuf : list N; k_rerr : option rans; k_rarm : bool;     (* bufr and the read deadline *)
  k_peekn : N;                      (* len(c.peek) *)
  k_pack : list N;                  (* pendingAck *)
  k_big : option N;                 (* pending BigMessage: bytes left *)
  k_acc1 : N; k_sub1 : N; k_acked : N;
  k_acc2 : N; k_sub2 : N; k_recvd : N; k_compl : N;
  k_q1 : list N; k_q2 : list N;     (* exchange ids in the queues, oldest first; 0 = adopted placeholder *)
  k_txn : N;
  k_txs : list (N * N * option (list (list N)));   (* packet id, request id, filters (None: unsubscribe) *)
  k_ping : option N;                (* request id holding the ping slot *)
  k_online : bool;
  k_newsess : bool;
  k_nextx : N; k_nextr : N;
  k_parked : list (N * pkind);
  k_rwait : N;                      (* reconnectWait, ms *)
  k_done : list (N * err * list (list N));   (* requests completed in this step *)
  k_xev : list (N * option err)     (* exchange events of this step, newest first: error / close *)
}.
#[export] Instance eta_client : Settable _ := settable! mkClient
  <k_cfg; k_rseq; k_closed; k_seqclosed; k_csem; k_wsem; k_nconn; k_rconn; k_rbuf; k_rerr; k_rarm;
   k_peekn; k_pack; k_big; k_acc1; k_sub1; k_acked; k_acc2; k_sub2; k_recvd; k_compl; k_q1; k_q2;
   k_txn; k_txs; k_ping; k_online; k_newsess; k_nextx; k_nextr; k_parked; k_rwait; k_done; k_xev>.

Definition id_mask : N := 16383.          (* publishIDMask *)
Definition alo_space : N := 32768.        (* atLeastOnceIDSpace *)
Definition eo_space : N := 49152.         (* exactlyOnceIDSpace *)
Definition un_mask : N := 8191.           (* unorderedIDMask *)
Definition sub_space : N := 24576.        (* subscribeIDSpace *)
Definition unsub_space : N := 16384.      (* unsubscribeIDSpace *)
Definition remote_flag : N := 65536.      (* remoteIDKeyFlag *)

Definition new_client (cf : scfg) (rseq : N) : client :=
  {| k_cfg := cf; k_rseq := rseq; k_closed := false; k_seqclosed := false; k_csem := None;
     k_wsem := WsPending; k_nconn := 0; k_rconn := None; k_rbuf := []; k_rerr := None; k_rarm := false;
     k_peekn := 0; k_pack := []; k_big := None;
     k_acc1 := 0; k_sub1 := 0; k_acked := 0; k_acc2 := 0; k_sub2 := 0; k_recvd := 0; k_compl := 0;
     k_q1 := []; k_q2 := []; k_txn := 0; k_txs := []; k_ping := None; k_online := false;
     k_newsess := false; k_nextx := 1; k_nextr := 0; k_parked := []; k_rwait := 0; k_done := []; k_xev := [] |}.

(* newClient's limit normalisation *)
Definition norm_max (z : Z) : N :=
  if (z <? 0)%Z || (16383 <? z)%Z then 16384 else Z.to_N z.

(* ------------------------------------------------------------------ *)
(* ruggedPersistence                                                   *)

Definition rugged_load (k : N) : M (option (list N) + err) :=
  a <- ask_store (QLoad k) ;;
  match a with
  | SFail => ret (inr E_store)
  | SVal None => ret (inl None)
  | SVal (Some raw) =>
    match decode_value raw with
    | DecOk p _ => ret (inl (Some p))
    | _ => ret (inr E_other)
    end
  | _ => fail_tape
  end.

Definition rugged_save (c : client) (k : N) (packet : list N) : M (client * bool) :=
  let s := k_rseq c + 1 in
  a <- ask_store (QSave k (encode_value packet s)) ;;
  match a with
  | SDone => ret (c <| k_rseq := s |>, true)
  | SFail => ret (c <| k_rseq := s |>, false)
  | _ => fail_tape
  end.

Definition store_delete (k : N) : M bool :=
  a <- ask_store (QDelete k) ;;
  match a with SDone => ret true | SFail => ret false | _ => fail_tape end.

(* ------------------------------------------------------------------ *)
(* Parked requests                                                     *)

Definition complete (c : client) (rid : N) (e : err) (fs : list (list N)) : client :=
  c <| k_parked ::= filter (fun p => negb (fst p =? rid)) |> <| k_done ::= cons (rid, e, fs) |>.

Definition tx_remove (c : client) (pid : N) : client :=
  c <| k_txs ::= filter (fun t => negb (fst (fst t) =? pid)) |>.
Definition tx_find (c : client) (pid : N) : option (N * option (list (list N))) :=
  match filter (fun t => fst (fst t) =? pid) (k_txs c) with
  | (_, rid, fs) :: _ => Some (rid, fs)
  | [] => None
  end.
Definition parked_kind (c : client) (rid : N) : option pkind :=
  match filter (fun p => fst p =? rid) (k_parked c) with
  | (_, k) :: _ => Some k
  | [] => None
  end.

Definition lock_cleanup_run (c : client) (l : lock_cleanup) : client :=
  match l with
  | LcNone => c
  | LcTx pid => tx_remove c pid
  | LcPing => c <| k_ping := None |>      (* select { case <-c.pingAck: default: } *)
  end.

(* every request blocked in lockWrite returns with e *)
Definition release_locked (c : client) (e : err) : client :=
  fold_left (fun c p => match snd p with
                        | PkLock l => complete (lock_cleanup_run c l) (fst p) e []
                        | _ => c
                        end) (k_parked c) c.
Definition has_locked (c : client) : bool :=
  existsb (fun p => match snd p with PkLock _ => true | _ => false end) (k_parked c).

(* toOffline's and termCallbacks' release of the ping slot and of all unordered transactions *)
Definition break_pending (c : client) : client :=
  let c := match k_ping c with
           | Some r => match parked_kind c r with
                       | Some PkPing => complete c r E_break []
                       | _ => c
                       end
           | None => c
           end in
  let c := c <| k_ping := None |> in
  let c := fold_left (fun c t => match parked_kind c (snd (fst t)) with
                                 | Some (PkSub _) | Some (PkUnsub _) => complete c (snd (fst t)) E_break []
                                 | _ => c
                                 end) (k_txs c) c in
  c <| k_txs := [] |>.

(* ------------------------------------------------------------------ *)
(* Writing                                                             *)

(* with the write token holding connection cn *)
Definition locked_write (c : client) (cn : N) (bufs : list (list N)) (single : bool) : M (client * err) :=
  r <- conn_write cn bufs single ;;
  match r with
  | WOk => ret (c, E_nil)
  | _ =>
    _ <- (match r with WClosed => ret tt | _ => tell (QClose cn) end) ;;
    ret (c <| k_wsem := WsPending |>, E_submit r)
  end.

Inductive wr_result := WrDone (e : err) | WrPark.

(* write / writeBuffers: lockWrite, then the transfer *)
Definition op_write (c : client) (bufs : list (list N)) (single : bool) : M (client * wr_result) :=
  match k_wsem c with
  | WsClosed => ret (c, WrDone E_closed)
  | WsDown => ret (c, WrDone E_down)
  | WsPending => ret (c, WrPark)
  | WsConn cn => '(c, e) <- locked_write c cn bufs single ;; ret (c, WrDone e)
  end.

(* writeNoWait / writeBuffersNoWait *)
Definition nowait_write (c : client) (bufs : list (list N)) (single : bool) : M (client * err) :=
  match k_wsem c with
  | WsClosed => ret (c, E_closed)
  | WsDown | WsPending => ret (c, E_down)
  | WsConn cn => locked_write c cn bufs single
  end.

(* ------------------------------------------------------------------ *)
(* Reader glue                                                         *)

Definition rst_of (c : client) (w : world) : rst :=
  {| rbuf := k_rbuf c; rerr := k_rerr c; rcap := s_rcap (k_cfg c); rarmed := k_rarm c;
     rtape := t_rd w; rlog := [] |}.
Definition conn_of (c : client) : N := match k_rconn c with Some n => n | None => 0 end.
Definition rst_back (c : client) (s : rst) : client :=
  c <| k_rbuf := rbuf s |> <| k_rerr := rerr s |> <| k_rarm := rarmed s |>.

Definition with_reader {A} (c : client) (f : rst -> A * rst) : M (client * A) :=
  fun w =>
    let '(a, s) := f (rst_of c w) in
    let cn := conn_of c in
    Some ((rst_back c s, a),
          w <| t_rd := rtape s |> <| w_log ::= app (map (fun l : bool * N => QRead cn (fst l) (snd l)) (rlog s)) |>).

Definition is_notape (e : rerror) : bool := match e with ENoTape => true | _ => false end.

(* ------------------------------------------------------------------ *)
(* toOffline                                                           *)

Definition set_offline (c : client) : client := c <| k_online := false |>.

Definition to_offline (c : client) : M client :=
  match k_wsem c with
  | WsClosed =>
    (* the client is closed; a writer that met a closed-connection error may have left the
       connection open: close it, and let the next ReadSlices go through connect (ErrClosed) *)
    _ <- tell (QClose (conn_of c)) ;;
    ret (c <| k_rconn := None |>)
  | _ =>
    _ <- tell (QClose (conn_of c)) ;;
    let c := set_offline c <| k_wsem := WsPending |> <| k_rconn := None |> <| k_big := None |>
               <| k_rbuf := [] |> <| k_rerr := None |> <| k_peekn := 0 |> in
    ret (break_pending c)
  end.

(* ------------------------------------------------------------------ *)
(* connect                                                             *)

(* resend of one level: from sequence number [from] up to [acc] *)
Fixpoint resend (fuel : nat) (cn : N) (space : N) (seqno acc subm : N) : M (N * err) :=
  match fuel with
  | O => ret (subm, E_nil)
  | S f =>
    if acc <=? seqno then ret (subm, E_nil) else
    let key := N.lor (N.land seqno id_mask) space in
    l <- rugged_load key ;;
    match l with
    | inr e => ret (subm, e)
    | inl None => ret (subm, E_other)                       (* "gone missing" *)
    | inl (Some []) => ret (subm, E_other)                  (* cannot happen with genuine records *)
    | inl (Some (h :: body)) =>
      let h' := if (seqno <? subm) && (h / 16 =? 3) then N.lor h 8 else h in
      r <- conn_write cn [h' :: body] true ;;
      match r with
      | WOk => resend f cn space (seqno + 1) acc (if subm <=? seqno then seqno + 1 else subm)
      | _ => ret (subm, werr r)
      end
    end
  end.

Inductive hs_result := HsOk | HsErr (e : err).

(* handshake: CONNECT, then the four CONNACK bytes *)
Definition handshake (c : client) (cn : N) (clean : bool) (cid : list N) : M (client * hs_result) :=
  let cf := s_cfg (k_cfg c) in
  let cf' := {| cfg_user := cfg_user cf; cfg_pass := cfg_pass cf; cfg_will := cfg_will cf;
                cfg_keepalive := cfg_keepalive cf; cfg_clean := clean |} in
  r <- conn_write cn [connect_packet cf' cid] true ;;
  match r with
  | WOk =>
    (* fresh bufio.Reader on this connection *)
    let c := c <| k_rconn := Some cn |> <| k_rbuf := [] |> <| k_rerr := None |>
               <| k_rarm := s_pause (k_cfg c) |> in
    '(c, pk) <- with_reader c (fun s => peek s 4) ;;
    let c := c <| k_rarm := false |> in
    let '(p, e) := pk in
    match e with
    | Some ENoTape => fail_tape
    | _ =>
      let bad_head := match p with
                      | a :: b :: _ => negb ((a =? 32) && (b =? 2))
                      | _ => false
                      end in
      if bad_head then ret (c, HsErr E_proto) else
      match e with
      | Some EEOF => ret (c, HsErr E_brokerterm)
      | Some e => ret (c, HsErr (rerr_class e))
      | None =>
        match p with
        | [_; _; flags; code] =>
          if negb (code =? 0) then ret (c, HsErr E_refused) else
          if flags =? 0 then ret (c <| k_newsess := true |> <| k_rbuf ::= skipn 4 |>, HsOk) else
          if flags =? 1 then
            (if clean then ret (c, HsErr E_proto) else ret (c <| k_rbuf ::= skipn 4 |>, HsOk))
          else ret (c, HsErr E_proto)
        | _ => fail_tape
        end
      end
    end
  | _ => ret (c, HsErr (werr r))
  end.

Definition connect (c : client) : M (client * err) :=
  if k_closed c then ret (c, E_closed) else
  let clean := cfg_clean (s_cfg (k_cfg c)) && (match k_csem c with None => true | Some _ => false end) in
  let saved := (k_rconn c, k_rbuf c, k_rerr c) in
  l <- rugged_load 0 ;;
  match l with
  | inr e => ret (release_locked (c <| k_wsem := WsDown |>) E_down, e)
  | inl cidv =>
    let cid := match cidv with Some v => v | None => [] end in
    ok <- ask_dial ;;
    if negb ok then ret (release_locked (c <| k_wsem := WsDown |>) E_down, E_dial) else
    let cn := k_nconn c in
    let c := c <| k_nconn := cn + 1 |> in
    '(c, h) <- handshake c cn clean cid ;;
    match h with
    | HsErr e =>
      _ <- tell (QClose cn) ;;
      let c := c <| k_rconn := None |> <| k_rbuf := [] |> <| k_rerr := None |> <| k_wsem := WsDown |> in
      ret (release_locked c E_down, e)
    | HsOk =>
      (* connSem now holds the new connection; resend under the sequence locks *)
      let c := c <| k_csem := Some cn |> in
      let fuel := S (N.to_nat (k_acc1 c - k_acked c)) in
      '(s1, e1) <- resend fuel cn alo_space (k_acked c) (k_acc1 c) (k_sub1 c) ;;
      let c := c <| k_sub1 := s1 |> in
      if negb (e1 =? 0) then
        _ <- tell (QClose cn) ;;
        let c := c <| k_rconn := None |> <| k_rbuf := [] |> <| k_rerr := None |> <| k_wsem := WsDown |> in
        ret (release_locked c E_down, e1)
      else
      let fuel2 := S (N.to_nat (k_acc2 c - k_compl c)) in
      '(s2, e2) <- resend fuel2 cn eo_space (k_compl c) (k_acc2 c) (k_sub2 c) ;;
      let c := c <| k_sub2 := s2 |> in
      if negb (e2 =? 0) then
        _ <- tell (QClose cn) ;;
        let c := c <| k_rconn := None |> <| k_rbuf := [] |> <| k_rerr := None |> <| k_wsem := WsDown |> in
        ret (release_locked c E_down, e2)
      else
        if has_locked c then fail_tape      (* woken writers race with the read routine: not sequential *)
        else ret (c <| k_online := true |> <| k_wsem := WsConn cn |> <| k_rwait := 0 |>, E_nil)
    end
  end.

(* termCallbacks *)
Definition term_callbacks (c : client) : client :=
  let c := if k_seqclosed c then c else
             let evs := map (fun x => (x, Some E_closed)) (filter (fun x => negb (x =? 0)) (k_q1 c ++ k_q2 c)) in
             c <| k_seqclosed := true |> <| k_q1 := [] |> <| k_q2 := [] |> <| k_xev ::= app (rev evs) |> in
  break_pending c.

(* ------------------------------------------------------------------ *)
(* Packet handlers of the read routine                                 *)

Inductive hres :=
| HOk                                   (* handled: go on with the next packet *)
| HErr (e : err)                        (* error: toOffline and return it *)
| HMsg (topic msg : list N)             (* PUBLISH to return *)
| HDupe.                                (* duplicate exactly-once PUBLISH: skip, confirm again *)

Definition u16 (l : list N) : N := match l with a :: b :: _ => a * 256 + b | _ => 0 end.

Definition xclose (c : client) (x : N) : client :=
  if x =? 0 then c else c <| k_xev ::= cons (x, None) |>.
Definition xsend (c : client) (x : N) (e : err) : client :=
  if x =? 0 then c else c <| k_xev ::= cons (x, Some e) |>.

Definition on_publish (c : client) (head : N) (body : list N) : M (client * hres) :=
  if len body <? 2 then ret (c, HErr E_proto) else
  let i := u16 body + 2 in
  if len body <? i then ret (c, HErr E_proto) else
  let topic := firstn (N.to_nat (i - 2)) (skipn 2 body) in
  let qos := (head / 2) mod 4 in
  if qos =? 0 then ret (c, HMsg topic (skipn (N.to_nat i) body)) else
  if qos =? 3 then ret (c, HErr E_proto) else
  if len body <? i + 2 then ret (c, HErr E_proto) else
  let pid := u16 (skipn (N.to_nat i) body) in
  if pid =? 0 then ret (c, HErr E_proto) else
  let msg := skipn (N.to_nat (i + 2)) body in
  if qos =? 1 then
    (if negb (len (k_pack c) =? 0) then ret (c, HErr E_other)
     else ret (c <| k_pack := packet_puback pid |>, HMsg topic msg))
  else
    l <- rugged_load (N.lor pid remote_flag) ;;
    match l with
    | inr e => ret (c, HErr e)
    | inl (Some _) =>
      if negb (len (k_pack c) =? 0) then ret (c, HErr E_other)
      else ret (c <| k_pack := packet_pubrec pid |>, HDupe)
    | inl None =>
      if negb (len (k_pack c) =? 0) then ret (c, HErr E_other)
      else ret (c <| k_pack := packet_pubrec pid |>, HMsg topic msg)
    end.

Definition on_puback (c : client) (body : list N) : M (client * hres) :=
  if negb (len body =? 2) then ret (c, HErr E_proto) else
  let pid := u16 body in
  let expect := N.lor (N.land (k_acked c) id_mask) alo_space in
  if pid =? 0 then ret (c, HErr E_proto) else
  if negb (pid - N.land pid id_mask =? alo_space) then ret (c, HErr E_proto) else
  if negb (expect =? pid) then ret (c, HErr E_proto) else
  match k_q1 c with
  | [] => ret (c, HErr E_proto)
  | x :: q =>
    ok <- store_delete pid ;;
    if negb ok then ret (c, HErr E_store) else
    ret (xclose (c <| k_acked ::= N.succ |> <| k_q1 := q |>) x, HOk)
  end.

Definition on_pubrec (c : client) (body : list N) : M (client * hres) :=
  if negb (len body =? 2) then ret (c, HErr E_proto) else
  let pid := u16 body in
  let expect := N.lor (N.land (k_recvd c) id_mask) eo_space in
  if pid =? 0 then ret (c, HErr E_proto) else
  if negb (pid - N.land pid id_mask =? eo_space) then ret (c, HErr E_proto) else
  if negb (expect =? pid) then ret (c, HErr E_proto) else
  if len (k_q2 c) <=? k_recvd c - k_compl c then ret (c, HErr E_proto) else
  let c := c <| k_pack := packet_pubrel pid |> in
  '(c, ok) <- rugged_save c pid (k_pack c) ;;
  if negb ok then ret (c <| k_pack := [] |>, HErr E_store) else
  let c := c <| k_recvd ::= N.succ |> in
  '(c, e) <- nowait_write c [k_pack c] true ;;
  if negb (e =? 0) then ret (c, HErr e) else
  ret (c <| k_pack := [] |>, HOk).

Definition on_pubcomp (c : client) (body : list N) : M (client * hres) :=
  if negb (len body =? 2) then ret (c, HErr E_proto) else
  let pid := u16 body in
  let expect := N.lor (N.land (k_compl c) id_mask) eo_space in
  if pid =? 0 then ret (c, HErr E_proto) else
  if negb (pid - N.land pid id_mask =? eo_space) then ret (c, HErr E_proto) else
  if negb (expect =? pid) then ret (c, HErr E_proto) else
  if k_recvd c <=? k_compl c then ret (c, HErr E_proto) else
  match k_q2 c with
  | [] => ret (c, HErr E_proto)
  | x :: q =>
    ok <- store_delete pid ;;
    if negb ok then ret (c, HErr E_store) else
    ret (xclose (c <| k_compl ::= N.succ |> <| k_q2 := q |>) x, HOk)
  end.

Definition on_pubrel (c : client) (body : list N) : M (client * hres) :=
  if negb (len body =? 2) then ret (c, HErr E_proto) else
  let pid := u16 body in
  if pid =? 0 then ret (c, HErr E_proto) else
  ok <- store_delete (N.lor pid remote_flag) ;;
  if negb ok then ret (c, HErr E_store) else
  if negb (len (k_pack c) =? 0) then ret (c, HErr E_other) else
  let c := c <| k_pack := packet_pubcomp pid |> in
  '(c, e) <- nowait_write c [k_pack c] true ;;
  if negb (e =? 0) then ret (c, HErr e) else
  ret (c <| k_pack := [] |>, HOk).

Fixpoint failed_filters (fs : list (list N)) (codes : list N) : list (list N) :=
  match fs, codes with
  | f :: fs', cd :: cs' => if cd =? 128 then f :: failed_filters fs' cs' else failed_filters fs' cs'
  | _, _ => []
  end.

Definition on_suback (c : client) (body : list N) : client * hres :=
  if len body <? 3 then (c, HErr E_proto) else
  let pid := u16 body in
  if pid =? 0 then (c, HErr E_proto) else
  if negb (pid - N.land pid un_mask =? sub_space) then (c, HErr E_proto) else
  let codes := skipn 2 body in
  if negb (forallb (fun cd => (cd <? 3) || (cd =? 128)) codes) then (c, HErr E_proto) else
  match tx_find c pid with
  | None => (c, HOk)
  | Some (rid, fso) =>
    let c := tx_remove c pid in
    let fs := match fso with Some fs => fs | None => [] end in
    let awaiting := match parked_kind c rid with Some (PkSub _) => true | _ => false end in
    if negb (length fs =? length codes)%nat then
      ((if awaiting then complete c rid E_break [] else c), HErr E_proto)
    else
      let failed := failed_filters fs codes in
      match failed with
      | [] => ((if awaiting then complete c rid E_nil [] else c), HOk)
      | _ => ((if awaiting then complete c rid E_suberr failed else c), HOk)
      end
  end.

Definition on_unsuback (c : client) (body : list N) : client * hres :=
  if negb (len body =? 2) then (c, HErr E_proto) else
  let pid := u16 body in
  if pid =? 0 then (c, HErr E_proto) else
  if negb (pid - N.land pid un_mask =? unsub_space) then (c, HErr E_proto) else
  match tx_find c pid with
  | None => (c, HOk)
  | Some (rid, _) =>
    let c := tx_remove c pid in
    match parked_kind c rid with
    | Some (PkUnsub _) => (complete c rid E_nil [], HOk)
    | _ => (c, HOk)
    end
  end.

Definition on_pingresp (c : client) (body : list N) : client * hres :=
  if negb (len body =? 0) then (c, HErr E_proto) else
  match k_ping c with
  | None => (c, HOk)
  | Some rid =>
    let c := c <| k_ping := None |> in
    match parked_kind c rid with
    | Some PkPing => (complete c rid E_nil [], HOk)
    | _ => (c, HOk)
    end
  end.

Definition dispatch (c : client) (head : N) (body : list N) : M (client * hres) :=
  match head / 16 with
  | 3 => on_publish c head body
  | 4 => on_puback c body
  | 5 => on_pubrec c body
  | 6 => on_pubrel c body
  | 7 => on_pubcomp c body
  | 9 => ret (on_suback c body)
  | 11 => ret (on_unsuback c body)
  | 13 => ret (on_pingresp c body)
  | _ => ret (c, HErr E_proto)       (* reserved, client-only and second CONNACK *)
  end.

(* ------------------------------------------------------------------ *)
(* ReadSlices                                                          *)

Inductive retv :=
| RetErr (e : err)                         (* error return; 0 = nil *)
| RetMsg (topic msg : list N)
| RetBig (topic : list N) (size : N)
| RetExch (x : N)                          (* persisted publish accepted: exchange id *)
| RetParked                                (* the request's goroutine is blocked *)
| RetAdopt (nwarn : N) (fatal : err)
| RetBytes (bs : list N)
| RetWait (kind : N) (ms : N).             (* ReadBackoff: 0 released channel, 1 nil channel, 2 timer *)

Fixpoint read_loop (fuel : nat) (c : client) : M (client * retv) :=
  match fuel with
  | O => fail_tape
  | S f =>
    '(c, pk) <- with_reader c (peek_packet (s_pause (k_cfg c))) ;;
    match pk with
    | PkErr ENoTape _ => fail_tape
    | PkBrokerTerm => c <- to_offline c ;; ret (c, RetErr E_brokerterm)
    | PkErr EClosed _ =>
      (* closed by Close, Disconnect or a failed write *)
      c <- to_offline c ;;
      '(c, e) <- connect c ;;
      if negb (e =? 0) then ret (c, RetErr e) else read_loop f c
    | PkErr e proto =>
      c <- to_offline c ;; ret (c, RetErr (if proto then E_proto else rerr_class e))
    | PkOk head body =>
      '(c, h) <- dispatch c head body ;;
      match h with
      | HMsg topic msg => ret (c <| k_peekn := len body |>, RetMsg topic msg)
      | HErr e => c <- to_offline c ;; ret (c, RetErr e)
      | HOk => read_loop f (c <| k_rbuf ::= skipn (length body) |>)
      | HDupe =>
        '(c, e) <- nowait_write c [k_pack c] true ;;
        if negb (e =? 0) then c <- to_offline c ;; ret (c, RetErr e)
        else read_loop f (c <| k_pack := [] |> <| k_rbuf ::= skipn (length body) |>)
      end
    | PkBig head size partial =>
      '(c, h) <- on_publish c head partial ;;
      match h with
      | HMsg topic pmsg =>
        let before := s_rcap (k_cfg c) - len pmsg in
        ret (c <| k_big := Some (size - before) |> <| k_peekn := 0 |> <| k_rbuf ::= skipn (N.to_nat before) |>,
             RetBig topic (size - before))
      | HDupe =>
        '(c, d) <- with_reader c (fun s => client_discard (s_pause (k_cfg c)) s size) ;;
        match d with
        | Some ENoTape => fail_tape
        | Some e => c <- to_offline c ;; ret (c, RetErr (rerr_class e))
        | None =>
          '(c, e) <- nowait_write c [k_pack c] true ;;
          if negb (e =? 0) then c <- to_offline c ;; ret (c, RetErr e)
          else read_loop f (c <| k_pack := [] |>)
        end
      | HErr e => c <- to_offline c ;; ret (c, RetErr e)
      | HOk => fail_tape
      end
    end
  end.

Definition read_slices_body (c : client) : M (client * retv) :=
  (* auto connect *)
  '(c, e) <- (match k_rconn c with None => connect c | Some _ => ret (c, E_nil) end) ;;
  if negb (e =? 0) then ret (c, RetErr e) else
  (* flush big message if any *)
  '(c, e) <- (match k_big c with
              | None => ret (c, None)
              | Some remaining =>
                let c := c <| k_big := None |> in
                with_reader c (fun s => client_discard (s_pause (k_cfg c)) s remaining)
              end) ;;
  match e with
  | Some ENoTape => fail_tape
  | Some e => c <- to_offline c ;; ret (c, RetErr (rerr_class e))
  | None =>
    (* skip previous packet *)
    let c := c <| k_rbuf ::= skipn (N.to_nat (k_peekn c)) |> <| k_peekn := 0 |> in
    (* acknowledge previous packet *)
    '(c, e) <- (match k_pack c with
                | [] => ret (c, None)
                | h :: _ =>
                  '(c, ok) <- (if h / 16 =? 5
                               then rugged_save c (N.lor (u16 (skipn 2 (k_pack c))) remote_flag) (k_pack c)
                               else ret (c, true)) ;;
                  if negb ok then ret (c, Some (E_store, false)) else
                  '(c, e) <- nowait_write c [k_pack c] true ;;
                  if negb (e =? 0) then ret (c, Some (e, true)) else ret (c <| k_pack := [] |>, None)
                end) ;;
    match e with
    | Some (e, off) => c <- (if off then to_offline c else ret c) ;; ret (c, RetErr e)
    | None => fun w => read_loop (S (S (length (t_rd w) + length (t_dial w)))) c w
    end
  end.

Definition is_closed_err (e : err) : bool := N.testbit e 1.

Definition read_slices (c : client) : M (client * retv) :=
  '(c, r) <- read_slices_body c ;;
  match r with
  | RetErr e => if is_closed_err e then ret (term_callbacks c, r) else ret (c, r)
  | _ => ret (c, r)
  end.

(* BigMessage.ReadAll on the message returned last *)
Definition read_all_op (c : client) : M (client * retv) :=
  match k_big c with
  | None => ret (c, RetErr E_other)       (* read window expired *)
  | Some size =>
    let c := c <| k_big := None |> in
    '(c, r) <- with_reader c (fun s => read_all (s_pause (k_cfg c)) s size) ;;
    match r with
    | inl bs => ret (c, RetBytes bs)
    | inr ENoTape => fail_tape
    | inr e => _ <- tell (QClose (conn_of c)) ;; ret (c, RetErr (rerr_class e))
    end
  end.

(* ------------------------------------------------------------------ *)
(* Requests                                                            *)

Definition deny_of {A} (o : option A) : bool := match o with Some _ => true | None => false end.

(* Publish / PublishRetained *)
Definition op_publish (c : client) (retain : bool) (msg topic : list N) : M (client * retv) :=
  let rid := k_nextr c in
  let c := c <| k_nextr ::= N.succ |> in
  if deny_of (topic_check topic) then ret (c, RetErr E_deny) else
  if packet_max <? publish_size topic msg 0 then ret (c, RetErr E_deny) else
  let head := head_publish 0 retain false in
  '(c, r) <- op_write c [publish_head_buf head topic msg 0; msg] false ;;
  match r with
  | WrDone e => ret (c, RetErr e)
  | WrPark => ret (c <| k_parked ::= cons (rid, PkLock LcNone) |>, RetParked)
  end.

(* PublishAtLeastOnce / PublishExactlyOnce (+Retained): level 1 or 2 *)
Definition op_publish_persisted (c : client) (level : N) (retain : bool) (msg topic : list N)
  : M (client * retv) :=
  let space := if level =? 1 then alo_space else eo_space in
  if deny_of (topic_check topic) then ret (c, RetErr E_deny) else
  if packet_max <? publish_size topic msg space then ret (c, RetErr E_deny) else
  if k_seqclosed c then ret (c, RetErr E_closed) else
  if k_closed c then ret (c, RetErr E_closed) else
  let acc := if level =? 1 then k_acc1 c else k_acc2 c in
  let subm := if level =? 1 then k_sub1 c else k_sub2 c in
  let q := if level =? 1 then k_q1 c else k_q2 c in
  let mx := if level =? 1 then s_max1 (k_cfg c) else s_max2 (k_cfg c) in
  let backlog := subm <? acc in
  if mx <=? len q then ret (c, RetErr E_max) else
  let pid := N.lor space (N.land acc id_mask) in
  let head := head_publish level retain false in
  let hbuf := publish_head_buf head topic msg pid in
  '(c, ok) <- rugged_save c pid (hbuf ++ msg) ;;
  if negb ok then ret (c, RetErr E_store) else
  let x := k_nextx c in
  let c := c <| k_nextx ::= N.succ |> in
  let c := if level =? 1 then c <| k_q1 ::= (fun q => q ++ [x]) |> <| k_acc1 ::= N.succ |>
           else c <| k_q2 ::= (fun q => q ++ [x]) |> <| k_acc2 ::= N.succ |> in
  if backlog then ret (xsend c x E_down, RetExch x) else
  '(c, e) <- nowait_write c [hbuf; msg] false ;;
  if negb (e =? 0) then ret (xsend c x e, RetExch x) else
  ret ((if level =? 1 then c <| k_sub1 := k_acc1 c |> else c <| k_sub2 := k_acc2 c |>), RetExch x).

(* startTx: next free identifier *)
Fixpoint tx_pick (fuel : nat) (c : client) (space : N) : client * N :=
  match fuel with
  | O => (c, 0)
  | S f =>
    let pid := N.lor (N.land (k_txn c) un_mask) space in
    let c := c <| k_txn ::= N.succ |> in
    if existsb (fun t => fst (fst t) =? pid) (k_txs c) then tx_pick f c space else (c, pid)
  end.

Fixpoint any_denied (fs : list (list N)) : bool :=
  match fs with [] => false | f :: r => deny_of (topic_check f) || any_denied r end.

Definition op_subscribe (c : client) (sub : bool) (level : N) (fs : list (list N)) : M (client * retv) :=
  let rid := k_nextr c in
  let c := c <| k_nextr ::= N.succ |> in
  match fs with
  | [] => ret (c, RetErr E_deny)
  | _ =>
    if any_denied fs then ret (c, RetErr E_deny) else
    let size := if sub then subscribe_size fs else unsubscribe_size fs in
    if packet_max <? size then ret (c, RetErr E_deny) else
    if 511 <? N.of_nat (length (k_txs c)) then ret (c, RetErr E_max) else
    let '(c, pid) := tx_pick 1024 c (if sub then sub_space else unsub_space) in
    let c := c <| k_txs ::= cons (pid, rid, if sub then Some fs else None) |> in
    let packet := if sub then subscribe_packet pid fs level else unsubscribe_packet pid fs in
    '(c, r) <- op_write c [packet] true ;;
    match r with
    | WrDone e =>
      if e =? 0 then ret (c <| k_parked ::= cons (rid, if sub then PkSub pid else PkUnsub pid) |>, RetParked)
      else ret (tx_remove c pid, RetErr e)
    | WrPark => ret (c <| k_parked ::= cons (rid, PkLock (LcTx pid)) |>, RetParked)
    end
  end.

Definition op_ping (c : client) : M (client * retv) :=
  let rid := k_nextr c in
  let c := c <| k_nextr ::= N.succ |> in
  match k_ping c with
  | Some _ => ret (c, RetErr (if k_closed c then E_closed else E_max))   (* F24: the context check comes first *)
  | None =>
    let c := c <| k_ping := Some rid |> in
    '(c, r) <- op_write c [packet_pingreq] true ;;
    match r with
    | WrDone e =>
      if e =? 0 then ret (c <| k_parked ::= cons (rid, PkPing) |>, RetParked)
      else ret (c <| k_ping := None |>, RetErr e)
    | WrPark => ret (c <| k_parked ::= cons (rid, PkLock LcPing) |>, RetParked)
    end
  end.

(* the quit channel of parked request rid is closed *)
Definition op_quit (c : client) (rid : N) : M (client * retv) :=
  match parked_kind c rid with
  | None => ret (c, RetErr E_nil)
  | Some (PkLock l) => ret (complete (lock_cleanup_run c l) rid E_canceled [], RetErr E_nil)
  | Some (PkSub pid) | Some (PkUnsub pid) => ret (complete (tx_remove c pid) rid E_abandoned [], RetErr E_nil)
  | Some PkPing =>
    match k_ping c with
    | Some r => if r =? rid then ret (complete (c <| k_ping := None |>) rid E_abandoned [], RetErr E_nil)
                else ret (c, RetErr E_nil)
    | None => ret (c, RetErr E_nil)
    end
  end.

(* Close, sequential *)
Definition op_close (c : client) : M (client * retv) :=
  if k_closed c then ret (c, RetErr E_nil) else
  _ <- (match k_wsem c with WsConn cn => tell (QClose cn) | _ => ret tt end) ;;
  let c := set_offline c <| k_closed := true |> <| k_wsem := WsClosed |> in
  ret (release_locked c E_closed, RetErr E_nil).

(* Disconnect with an open quit channel, sequential *)
Definition op_disconnect (c : client) : M (client * retv) :=
  if k_closed c then ret (c, RetErr E_closed) else
  match k_wsem c with
  | WsConn cn =>
    r <- conn_write cn [packet_disconnect] true ;;
    _ <- tell (QClose cn) ;;
    let c := set_offline c <| k_closed := true |> <| k_wsem := WsClosed |> in
    ret (release_locked c E_closed, RetErr (match r with WOk => E_nil | _ => E_submit r end))
  | _ =>
    let c := set_offline c <| k_closed := true |> <| k_wsem := WsClosed |> in
    ret (release_locked c E_closed, RetErr E_down)
  end.

(* ------------------------------------------------------------------ *)
(* InitSession / AdoptSession                                          *)

Definition op_init (cf : scfg) (cid : list N) : M (option client * retv) :=
  if deny_of (string_check cid) then ret (None, RetErr E_deny) else
  a <- ask_store QList ;;
  match a with
  | SFail => ret (None, RetErr E_store)
  | SKeys [] =>
    let c := new_client cf 0 in
    '(c, ok) <- rugged_save c 0 cid ;;
    if ok then ret (Some c, RetErr E_nil) else ret (None, RetErr E_store)
  | SKeys _ => ret (None, RetErr E_other)
  | _ => fail_tape
  end.

(* cleanSequence: the last maximal run of consecutive identifiers; number of gaps *)
Definition consecutive (p n : N) : bool :=
  let n := N.land n id_mask in let p := N.land p id_mask in
  (n =? p + 1) || ((n =? 0) && (p =? id_mask)).
Fixpoint clean_seq_aux (run : list N) (last : N) (keys : list N) (gaps : N) : list N * N :=
  match keys with
  | [] => (rev run, gaps)
  | k :: r => if consecutive last k then clean_seq_aux (k :: run) k r gaps
              else clean_seq_aux [k] k r (gaps + 1)
  end.
Definition clean_seq (keys : list N) : list N * N :=
  match keys with [] => ([], 0) | k :: r => clean_seq_aux [k] k r 0 end.

Fixpoint insert_by_seq (x : N * N) (l : list (N * N)) : list (N * N) :=
  match l with
  | [] => [x]
  | y :: r => if snd x <? snd y then x :: l else y :: insert_by_seq x r
  end.
Definition sort_by_seq (l : list (N * N)) : list (N * N) := fold_right insert_by_seq [] l.

Record adopt_acc := mkAcc {
  a_alo : list (N * N); a_eo : list (N * N); a_rel : list (N * N);   (* (key, storage seq) *)
  a_warn : N; a_max : N
}.
#[export] Instance eta_acc : Settable _ := settable! mkAcc <a_alo; a_eo; a_rel; a_warn; a_max>.

Fixpoint adopt_scan (keys : list N) (a : adopt_acc) : M (adopt_acc + err) :=
  match keys with
  | [] => ret (inl a)
  | k :: r =>
    if k =? 0 then adopt_scan r a else
    v <- ask_store (QLoad k) ;;
    match v with
    | SFail => ret (inr E_store)
    | SVal raw =>
      match decode_value (match raw with Some b => b | None => [] end) with
      | DecOk packet sq =>
        let a := a <| a_max := N.max (a_max a) sq |> in
        if N.testbit k 16 then adopt_scan r a else
        match packet with
        | [] => ret (inr E_other)            (* the Go code would panic here: forged record only *)
        | h :: _ =>
          let a := if h / 16 =? 3 then
                     (if k - N.land k id_mask =? alo_space then a <| a_alo ::= cons (k, sq) |>
                      else if k - N.land k id_mask =? eo_space then a <| a_eo ::= cons (k, sq) |>
                      else a)
                   else if h / 16 =? 6 then a <| a_rel ::= cons (k, sq) |>
                   else a in
          adopt_scan r a
        end
      | _ =>
        _ <- store_delete k ;;
        adopt_scan r (a <| a_warn ::= N.succ |>)
      end
    | _ => fail_tape
    end
  end.

Definition keys_of (l : list (N * N)) : list N := map fst (sort_by_seq l).
Definition first_or (l : list N) (d : N) : N := match l with x :: _ => x | [] => d end.
Definition lastk (l : list N) : N := last l 0.

Definition op_adopt (cf : scfg) (max1z max2z : Z) : M (option client * retv) :=
  a <- ask_store QList ;;
  match a with
  | SFail => ret (None, RetAdopt 0 E_store)
  | SKeys keys =>
    r <- adopt_scan keys (mkAcc [] [] [] 0 0) ;;
    match r with
    | inr e => ret (None, RetAdopt 0 e)
    | inl acc =>
      let '(alo, g1) := clean_seq (keys_of (a_alo acc)) in
      let '(eo, g2) := clean_seq (keys_of (a_eo acc)) in
      let '(rel, g3) := clean_seq (keys_of (a_rel acc)) in
      let gap := match eo, rel with
                 | n0 :: _, _ :: _ => negb (consecutive (lastk rel) n0)
                 | _, _ => false
                 end in
      let rel := if gap then [] else rel in
      let warn := a_warn acc + g1 + g2 + g3 + (if gap then 1 else 0) in
      let cf := {| s_cfg := s_cfg cf; s_pause := s_pause cf; s_max1 := norm_max max1z;
                   s_max2 := norm_max max2z; s_rcap := s_rcap cf;
                   s_wmin := s_wmin cf; s_wmax := s_wmax cf |} in
      if (s_max1 cf <? len alo) || (s_max2 cf <? len eo + len rel) then ret (None, RetAdopt warn E_other) else
      let c := new_client cf (a_max acc) in
      let c := match alo with
               | [] => c
               | k0 :: _ =>
                 let acked := N.land k0 id_mask in
                 let l := N.land (lastk alo) id_mask in
                 let l := if l <? acked then l + 16384 else l in
                 c <| k_acked := acked |> <| k_acc1 := l + 1 |> <| k_sub1 := l + 1 |>
               end in
      let c := match eo, rel with
               | [], [] => c
               | _, _ =>
                 let compl := match rel with [] => N.land (first_or eo 0) id_mask | r0 :: _ => N.land r0 id_mask end in
                 let recvd := match rel with
                              | [] => compl
                              | _ => let r := N.land (lastk rel) id_mask + 1 in if r <=? compl then r + 16384 else r
                              end in
                 let acc := match eo with
                            | [] => recvd
                            | _ => let l := N.land (lastk eo) id_mask in
                                   (if l <? recvd then l + 16384 else l) + 1
                            end in
                 c <| k_compl := compl |> <| k_recvd := recvd |> <| k_acc2 := acc |> <| k_sub2 := acc |>
               end in
      let c := c <| k_q1 := map (fun _ => 0) alo |> <| k_q2 := map (fun _ => 0) (eo ++ rel) |> in
      ret (Some c, RetAdopt warn E_nil)
    end
  | _ => fail_tape
  end.

(* ReadBackoff(err) for the error class ReadSlices returned last *)
Definition op_read_backoff (c : client) (e : err) : client * retv :=
  if (e =? 0) || (match k_big c with Some _ => true | None => false end) then (c, RetWait 0 0) else
  if N.testbit e 1 then (c, RetWait 1 0) else
  match k_rconn c with
  | Some _ => (c, RetWait 2 1000)                          (* the error came from the Persistence *)
  | None =>
    if N.testbit e 10 then (c, if s_wmax (k_cfg c) =? 0 then RetWait 0 0 else RetWait 2 (s_wmax (k_cfg c))) else
    let idle := N.min (N.max (k_rwait c) (s_wmin (k_cfg c))) (s_wmax (k_cfg c)) in
    (* a timer of zero is not distinguishable from the released channel *)
    (c <| k_rwait := 2 * idle |>, if idle =? 0 then RetWait 0 0 else RetWait 2 idle)
  end.

(* ------------------------------------------------------------------ *)
(* Operations and histories                                            *)

Inductive op :=
| OpRead | OpReadAll
| OpPublish (retain : bool) (msg topic : list N)
| OpPubP (level : N) (retain : bool) (msg topic : list N)
| OpSub (level : N) (fs : list (list N))
| OpUnsub (fs : list (list N))
| OpPing
| OpQuit (rid : N)
| OpClose | OpDisconnect
| OpAdopt (max1 max2 : Z)        (* process stop; AdoptSession on the same Persistence *)
| OpReadBackoff (e : err).

Definition step (c : client) (o : op) : M (client * retv) :=
  let c := c <| k_done := [] |> <| k_xev := [] |> in
  match o with
  | OpRead => read_slices c
  | OpReadAll => read_all_op c
  | OpPublish retain msg topic => op_publish c retain msg topic
  | OpPubP level retain msg topic => op_publish_persisted c level retain msg topic
  | OpSub level fs => op_subscribe c true level fs
  | OpUnsub fs => op_subscribe c false 0 fs
  | OpPing => op_ping c
  | OpQuit rid => op_quit c rid
  | OpClose => op_close c
  | OpDisconnect => op_disconnect c
  | OpAdopt m1 m2 =>
    '(oc, r) <- op_adopt (k_cfg c) m1 m2 ;;
    match oc with
    | Some c' => ret (c' <| k_nconn := k_nconn c |>, r)    (* connection numbering is the environment's *)
    | None => ret (c, r)
    end
  | OpReadBackoff e => ret (op_read_backoff c e)
  end.
