(* L0: FNV-1a-32 and the persisted record format (mqtt.go encodeValue/decodeValue).
   Definitions only. *)
From MQ Require Export Bytes.

Definition M32 : N := 4294967296.
Definition M64 : N := 18446744073709551616.
Definition fnv_offset : N := 2166136261.
Definition fnv_prime : N := 16777619.

(* hash/fnv sum32a.Write: hash ^= byte; hash *= prime32 (uint32 arithmetic) *)
(* [N.land _ (2^32-1)] is [_ mod 2^32] (RecordProofs.fnv_step_spec); the mask form
   is what makes running the model cheap. *)
Definition fnv_step (h b : N) : N := N.land (N.lxor h b * fnv_prime) 4294967295.
Definition fnv1a (bs : list N) : N := fold_left fnv_step bs fnv_offset.

(* encodeValue: packet ++ LE64(seqNo) ++ BE32(fnv1a(packet ++ LE64(seqNo))) *)
Definition encode_value (packet : list N) (seq : N) : list N :=
  let body := packet ++ le64 seq in
  body ++ be32 (fnv1a body).

Inductive dec_result :=
| DecOk (packet : list N) (seq : N)
| DecTruncated
| DecCorrupt.

(* decodeValue *)
Definition decode_value (buf : list N) : dec_result :=
  let n := length buf in
  if Nat.ltb n 12 then DecTruncated
  else
    let body := firstn (n - 4) buf in
    if N.eqb (fnv1a body) (be32dec (skipn (n - 4) buf))
    then DecOk (firstn (n - 12) buf) (le_decode (skipn (n - 12) body))
    else DecCorrupt.

Definition dec_result_eqb (a b : dec_result) : bool :=
  match a, b with
  | DecOk p s, DecOk p' s' => list_eqb p p' && N.eqb s s'
  | DecTruncated, DecTruncated => true
  | DecCorrupt, DecCorrupt => true
  | _, _ => false
  end.
