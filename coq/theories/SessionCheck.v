(* Correspondence of the L2 session model with recorded histories of the real client.
   A history is what the harness observed: per API call the operation, every call the
   client made into the environment with the answer it got, the return value, the
   requests that completed, the exchange-channel events and the Online signal. *)
From Coq Require Export ZArith.
From RecordUpdate Require Import RecordUpdate.
From MQ Require Export Session.

Inductive ans :=
| AKeys (ks : list N) | AVal (v : option (list N)) | ADone | AFail
| ADial (ok : bool)
| AWr (n : N) (r : wres)
| ARd (r : rans)
| ANone.

Inductive ev := Ev (q : req) (a : ans).

Record stepobs := mkStep {
  so_op : op;
  so_evs : list ev;
  so_ret : retv;
  so_done : list (N * err * list (list N));   (* completed requests, ascending request id *)
  so_xev : list (N * option err);             (* exchange events in channel order per exchange, ascending id *)
  so_online : bool;                            (* Online() is released after the step *)
  so_store : option store                      (* Some m: before this call the environment rewrote the
                                                  Persistence content to m (damage, seeding) *)
}.

Inductive histcase :=
| Hist (cf : scfg) (cid : list N) (init_evs : list ev) (init_ret : err) (steps : list stepobs).

(* ---------- decidable equalities ---------- *)

Definition listN_eq_dec : forall a b : list N, {a = b} + {a <> b} := list_eq_dec N.eq_dec.
Definition req_eq_dec : forall a b : req, {a = b} + {a <> b}.
Proof. decide equality; try apply N.eq_dec; try apply listN_eq_dec; apply Bool.bool_dec. Defined.
Definition retv_eq_dec : forall a b : retv, {a = b} + {a <> b}.
Proof. decide equality; try apply N.eq_dec; try apply listN_eq_dec. Defined.
Definition done_eq_dec : forall a b : N * err * list (list N), {a = b} + {a <> b}.
Proof. decide equality; try apply (list_eq_dec listN_eq_dec). decide equality; apply N.eq_dec. Defined.
Definition xev_eq_dec : forall a b : N * option err, {a = b} + {a <> b}.
Proof. decide equality; try apply N.eq_dec. decide equality; apply N.eq_dec. Defined.

Definition eqb_of {A} (d : forall a b : A, {a = b} + {a <> b}) (a b : A) : bool :=
  if d a b then true else false.

(* ---------- tapes from events ---------- *)

Fixpoint tapes_of (evs : list ev) (w : world) : world :=
  match evs with
  | [] => w
  | Ev q a :: r =>
    let w := tapes_of r w in
    match q, a with
    | QList, AKeys ks => w <| t_st ::= cons (SKeys ks) |> <| t_stf ::= cons false |>
    | QList, AFail => w <| t_st ::= cons SFail |> <| t_stf ::= cons true |>
    | QLoad _, AVal v => w <| t_st ::= cons (SVal v) |> <| t_stf ::= cons false |>
    | QLoad _, AFail => w <| t_st ::= cons SFail |> <| t_stf ::= cons true |>
    | QSave _ _, ADone => w <| t_st ::= cons SDone |> <| t_stf ::= cons false |>
    | QSave _ _, AFail => w <| t_st ::= cons SFail |> <| t_stf ::= cons true |>
    | QDelete _, ADone => w <| t_st ::= cons SDone |> <| t_stf ::= cons false |>
    | QDelete _, AFail => w <| t_st ::= cons SFail |> <| t_stf ::= cons true |>
    | QDial, ADial ok => w <| t_dial ::= cons ok |>
    | QWrite _ [], _ => w
    | QWrite _ _, AWr n r => w <| t_wr ::= cons (n, r) |>
    | QRead _ _ _, ARd r => w <| t_rd ::= cons r |>
    | _, _ => w
    end
  end.
Definition empty_world : world := mkWorld [] [] None [] [] [] [].
(* map mode: the model keeps the Persistence content itself *)
Definition map_world (m : store) : world := mkWorld [] [] (Some m) [] [] [] [].
Definition store_of (w : world) : store := match w_store w with Some m => m | None => [] end.
Definition reqs_of (evs : list ev) : list req := map (fun e => match e with Ev q _ => q end) evs.

Definition tapes_empty (w : world) : bool :=
  match t_stf w, t_dial w, t_wr w, t_rd w with [], [], [], [] => true | _, _, _, _ => false end.

(* insertion sort of completions by request id, exchange events grouped by id (stable) *)
Fixpoint ins_done (x : N * err * list (list N)) (l : list (N * err * list (list N))) :=
  match l with
  | [] => [x]
  | y :: r => if fst (fst x) <? fst (fst y) then x :: l else y :: ins_done x r
  end.
Definition sort_done l := fold_right ins_done [] l.
Fixpoint ins_xev (x : N * option err) (l : list (N * option err)) :=
  match l with
  | [] => [x]
  | y :: r => if fst x <=? fst y then x :: l else y :: ins_xev x r
  end.
(* k_xev is newest first; folding from the right end keeps per-exchange order *)
Definition sort_xev (newest_first : list (N * option err)) := fold_right ins_xev [] (rev newest_first).

(* ---------- running one observed step through the model ---------- *)

Inductive verdict := Agree | Disagree (what : N).   (* 1 script, 2 requests, 3 return, 4 completions, 5 exchanges, 6 online, 7 tapes left *)

Definition check_step (cm : client * store) (s : stepobs) : (client * store) * verdict :=
  let '(c, m) := cm in
  let m := match so_store s with Some m' => m' | None => m end in
  match step c (so_op s) (tapes_of (so_evs s) (map_world m)) with
  | None => (cm, Disagree 1)
  | Some ((c', r), w) =>
    let c' := (c', store_of w) in
    let c'k := fst c' in
    if negb (eqb_of (list_eq_dec req_eq_dec) (rev (w_log w)) (reqs_of (so_evs s))) then (c', Disagree 2) else
    if negb (eqb_of retv_eq_dec r (so_ret s)) then (c', Disagree 3) else
    if negb (eqb_of (list_eq_dec done_eq_dec) (sort_done (k_done c'k)) (so_done s)) then (c', Disagree 4) else
    if negb (eqb_of (list_eq_dec xev_eq_dec) (sort_xev (k_xev c'k)) (so_xev s)) then (c', Disagree 5) else
    if negb (Bool.eqb (k_online c'k) (so_online s)) then (c', Disagree 6) else
    if negb (tapes_empty w) then (c', Disagree 7) else
    (c', Agree)
  end.

Fixpoint check_steps (c : client * store) (l : list stepobs) (i : N) : option (N * N) :=
  match l with
  | [] => None
  | s :: r => match check_step c s with
              | (c', Agree) => check_steps c' r (i + 1)
              | (_, Disagree k) => Some (i, k)
              end
  end.

(* first disagreement: (step index, what); step index 0 is InitSession *)
Definition hist_check (h : histcase) : option (N * N) :=
  match h with
  | Hist cf cid ievs iret steps =>
    match op_init cf cid (tapes_of ievs (map_world [])) with
    | None => Some (0, 1)
    | Some ((oc, r), w) =>
      if negb (eqb_of (list_eq_dec req_eq_dec) (rev (w_log w)) (reqs_of ievs)) then Some (0, 2) else
      if negb (eqb_of retv_eq_dec r (RetErr iret)) then Some (0, 3) else
      match oc with
      | None => match steps with [] => None | _ => Some (0, 3) end
      | Some c => check_steps (c, store_of w) steps 1
      end
    end
  end.

Definition hist_agree (h : histcase) : bool :=
  match hist_check h with None => true | Some _ => false end.

Fixpoint idx_filter {A} (f : A -> bool) (l : list A) (i : N) : list N :=
  match l with
  | [] => []
  | x :: r => if f x then idx_filter f r (i + 1) else i :: idx_filter f r (i + 1)
  end.
