(* L4: POSIX-level model of mqtt.go `fileSystem` (FileSystem, file, spoolFile, Load, Save,
   Delete, List).  Definitions only (executable).

   A directory is a finite map from file names (byte strings) to files; the store issues
   system calls on it.  A process stop is a prefix of the system-call list, where a data
   write may additionally be cut after any number of bytes (FSProofs.stop_prefix).

   Limits of the model (see also props/C19.v):
   * files are addressed by name, also through the descriptor of Save; that is exact as
     long as nobody else renames/unlinks `<key>.spool` between Save's creat and close, i.e.
     for at most one Save per key at a time (two concurrent Saves of ONE key share the one
     spool name; the property does not claim anything for that);
   * "process stop" = the process issues no further system call.  Power loss / kernel crash
     (which may drop unflushed data) is outside; the [flushed] bit only records whether an
     fsync covered the content, it never changes what a later read returns;
   * only regular files with names chosen by the store are claimed faithful
     ([store_dir]); sub-directories, symbolic links, permissions are not modelled. *)
From MQ Require Export Bytes.

Definition fname := list N.

(* content, and whether all of it was covered by an fsync since the last change *)
Record file := mkfile { fdata : list N ; fflushed : bool }.

Definition dir := list (fname * file).

Definition name_eqb (a b : fname) : bool := list_eqb a b.

Fixpoint lookup (n : fname) (d : dir) : option file :=
  match d with
  | [] => None
  | (m, f) :: r => if name_eqb n m then Some f else lookup n r
  end.

Fixpoint remove_name (n : fname) (d : dir) : dir :=
  match d with
  | [] => []
  | (m, f) :: r => if name_eqb n m then remove_name n r else (m, f) :: remove_name n r
  end.

Definition bind_name (n : fname) (f : file) (d : dir) : dir := (n, f) :: remove_name n d.

(* ---- names: fmt.Sprintf("%s%05x", dir, key) and "%s%05x.spool" ---- *)

Definition hexdigit (v : N) : N := if v <? 10 then 48 + v else 87 + v.   (* '0'-'9' 'a'-'f' *)

Fixpoint hex_go (fuel : nat) (k : N) (acc : list N) : list N :=
  match fuel with
  | O => acc
  | S f => if k <? 16 then hexdigit k :: acc
           else hex_go f (k / 16) (hexdigit (k mod 16) :: acc)
  end.

(* %x : no leading zeros, "0" for zero; the fuel exceeds the number of digits *)
Definition hex_of (k : N) : list N := hex_go (5 + N.to_nat (N.size k)) k [].

(* %05x : zero padding up to a minimum width of 5 *)
Definition key_name (k : N) : fname :=
  let h := hex_of k in rep (5 - length h) 48 ++ h.

Definition spool_suffix : list N := [46; 115; 112; 111; 111; 108].     (* ".spool" *)
Definition spool_name (k : N) : fname := key_name k ++ spool_suffix.

(* ---- strconv.ParseUint(name, 16, 17) on a 5 character name ----
   Digits: '0'-'9', and letters through lower(c), so 'A'-'F' are accepted like 'a'-'f'.
   No sign, no prefix, no underscore (base is explicit).  Five digits cannot overflow 64
   bits, so the only range error is a value above 2^17-1. *)
Definition hexval (c : N) : option N :=
  if (48 <=? c) && (c <=? 57) then Some (c - 48)
  else if (97 <=? c) && (c <=? 102) then Some (c - 87)
  else if (65 <=? c) && (c <=? 70) then Some (c - 55)
  else None.

Fixpoint parse_hex_from (acc : N) (s : list N) : option N :=
  match s with
  | [] => Some acc
  | c :: r => match hexval c with
              | Some v => parse_hex_from (acc * 16 + v) r
              | None => None
              end
  end.

Definition key_limit : N := 131072.   (* 1 << 17 *)

(* the filter of List: len(name) == 5 and ParseUint succeeds *)
Definition parse_key (n : fname) : option N :=
  if Nat.eqb (length n) 5 then
    match parse_hex_from 0 n with
    | Some v => if v <? key_limit then Some v else None
    | None => None
    end
  else None.

(* ---- system calls ---- *)

Inductive syscall :=
| Creat (n : fname)                 (* openat(n, O_CREAT|O_TRUNC with O_RDWR or O_WRONLY, any mode) *)
| Write (n : fname) (b : list N)    (* the bytes the kernel accepted, appended at the offset *)
| Fsync (n : fname)
| Close (n : fname)
| Rename (a b : fname)              (* renameat(a, b) *)
| Unlink (n : fname)                (* unlinkat(n, 0) *)
| Rmdir (n : fname).                (* unlinkat(n, AT_REMOVEDIR): second half of os.Remove *)

(* effect of a successful system call *)
Definition apply (d : dir) (c : syscall) : dir :=
  match c with
  | Creat n => bind_name n (mkfile [] false) d
  | Write n b => match lookup n d with
                 | Some f => bind_name n (mkfile (fdata f ++ b) false) d
                 | None => d
                 end
  | Fsync n => match lookup n d with
               | Some f => bind_name n (mkfile (fdata f) true) d
               | None => d
               end
  | Close _ => d
  | Rename a b => match lookup a d with
                  | Some f => bind_name b f (remove_name a d)
                  | None => d
                  end
  | Unlink n => remove_name n d
  | Rmdir _ => d                    (* no directories inside the store directory *)
  end.

Definition run (d : dir) (l : list syscall) : dir := fold_left apply l d.

(* names a call reads or changes *)
Definition touches (c : syscall) : list fname :=
  match c with
  | Creat n | Write n _ | Fsync n | Close n | Unlink n | Rmdir n => [n]
  | Rename a b => [a; b]
  end.

(* ---- the operations ---- *)

(* os.ReadFile(dir.file(key)); not-exist is (nil, nil) *)
Definition load (k : N) (d : dir) : option (list N) :=
  match lookup (key_name k) d with Some f => Some (fdata f) | None => None end.

(* Readdirnames + the name filter (order = directory order; compare as sets) *)
Fixpoint list_keys (d : dir) : list N :=
  match d with
  | [] => []
  | (n, _) :: r => match parse_key n with
                   | Some k => k :: list_keys r
                   | None => list_keys r
                   end
  end.

(* where a Save goes wrong *)
Inductive fault :=
| NoFault
| CreatFails
| WriteFails (i : nat) (n : nat)  (* buffer i (from 0): n bytes are accepted, in any number of
                                     partial writes, then the kernel refuses *)
| FsyncFails
| CloseFails                      (* the result of f.Close() is dropped by Save *)
| RenameFails.

(* an attempted system call and whether it succeeded; a failed call has no effect *)
Definition attempt := (syscall * bool)%type.

(* value.WriteTo(f): net.Buffers falls back to one f.Write per buffer (also for an empty
   buffer); f.Write repeats the write system call until everything is accepted or an
   error comes back. *)
Fixpoint write_atts (sp : fname) (bufs : list (list N)) (wf : option (nat * nat))
  : list attempt * bool :=
  match bufs with
  | [] => ([], true)
  | b :: r =>
      match wf with
      | Some (O, n) =>
          ((if Nat.ltb 0 n then [(Write sp (firstn n b), true)] else [])
             ++ [(Write sp (skipn n b), false)], false)
      | Some (S i, n) =>
          let (t, ok) := write_atts sp r (Some (i, n)) in ((Write sp b, true) :: t, ok)
      | None =>
          let (t, ok) := write_atts sp r None in ((Write sp b, true) :: t, ok)
      end
  end.

Definition is_fsync_fault (f : fault) := match f with FsyncFails => true | _ => false end.
Definition is_close_fault (f : fault) := match f with CloseFails => true | _ => false end.
Definition is_rename_fault (f : fault) := match f with RenameFails => true | _ => false end.
Definition write_fault (f : fault) : option (nat * nat) :=
  match f with WriteFails i n => Some (i, n) | _ => None end.

(* fileSystem.Save, statement by statement ("inverse error checks"):
     f, err := os.Create(spool); if err != nil { return err }
     _, err = value.WriteTo(f)
     if err == nil { err = f.Sync() }
     f.Close()
     if err == nil { err = os.Rename(spool, file) }
     if err == nil { return nil }
     os.Remove(spool)          -- unlink, and rmdir when that failed
     return err
   [leak]: the cleanup unlink fails too ("AND file leak").
   Result: the attempts in order, and whether Save returns nil. *)
Definition save_atts (k : N) (bufs : list (list N)) (f : fault) (leak : bool)
  : list attempt * bool :=
  let sp := spool_name k in
  let kn := key_name k in
  match f with
  | CreatFails => ([(Creat sp, false)], false)
  | _ =>
      let (w, wok) := write_atts sp bufs (write_fault f) in
      let ok1 := wok && negb (is_fsync_fault f) in
      let ok2 := ok1 && negb (is_rename_fault f) in
      ([(Creat sp, true)] ++ w
         ++ (if wok then [(Fsync sp, negb (is_fsync_fault f))] else [])
         ++ [(Close sp, negb (is_close_fault f))]
         ++ (if ok1 then [(Rename sp kn, negb (is_rename_fault f))] else [])
         ++ (if ok2 then []
             else if leak then [(Unlink sp, false); (Rmdir sp, false)]
                  else [(Unlink sp, true)]),
       ok2)
  end.

Fixpoint effects (l : list attempt) : list syscall :=
  match l with
  | [] => []
  | (c, true) :: r => c :: effects r
  | (_, false) :: r => effects r
  end.

(* the system calls of Save that take effect, in order *)
Definition save_calls (k : N) (bufs : list (list N)) (f : fault) (leak : bool) : list syscall :=
  effects (fst (save_atts k bufs f leak)).
Definition save_ok (k : N) (bufs : list (list N)) (f : fault) (leak : bool) : bool :=
  snd (save_atts k bufs f leak).

(* fileSystem.Delete: os.Remove(file) = unlink, then rmdir if that failed; os.Remove reports
   the error of rmdir unless that is ENOTDIR (then the one of unlink), and Delete turns
   not-exist into nil.  [present]: the key file exists; [fails]: unlink fails for another
   reason than not-exist.  With the file absent rmdir says ENOENT, so Delete returns nil
   whatever unlink said. *)
Definition delete_atts (k : N) (present : bool) (fails : bool) : list attempt :=
  let kn := key_name k in
  if fails || negb present then [(Unlink kn, false); (Rmdir kn, false)]
  else [(Unlink kn, true)].
Definition delete_ok (present : bool) (fails : bool) : bool := negb (fails && present).
Definition delete_calls (k : N) : list syscall := [Unlink (key_name k)].

(* ---- computable stop points (used by the case checker; FSProofs relates them to
   stop_prefix) ---- *)

(* stop after the first i calls *)
Definition cut_calls (i : nat) (l : list syscall) : list syscall := firstn i l.

(* RLIMIT_FSIZE = lim: data goes through until a write would cross the limit; that write
   is cut at the limit (a write of nothing never trips the limit) *)
Fixpoint cut_bytes (lim : nat) (l : list syscall) : list syscall :=
  match l with
  | [] => []
  | Write n b :: r =>
      if Nat.leb (length b) lim then Write n b :: cut_bytes (lim - length b) r
      else [Write n (firstn lim b)]
  | c :: r => c :: cut_bytes lim r
  end.

(* the same limit with SIGXFSZ ignored (the Go runtime's default): the write fails with
   EFBIG after the part below the limit was accepted *)
Fixpoint fsize_fault (lim : nat) (bufs : list (list N)) (i : nat) : fault :=
  match bufs with
  | [] => NoFault
  | b :: r => if Nat.leb (length b) lim then fsize_fault (lim - length b) r (S i)
              else WriteFails i lim
  end.

(* ---- the discipline of a Save, as a scanner over system calls (FSDiscipline proves that
   every trace it accepts is atomic at every stop point; C19Check applies it to the calls
   strace recorded).  [sp_cont]: content of the spool file when the scanner knows it;
   [sp_sync]: an fsync covers all of it. ---- *)

Record dst := mkdst { sp_cont : option (list N) ; sp_sync : bool }.

Definition dst0 : dst := mkdst None false.

Definition touchesb (n : fname) (c : syscall) : bool := existsb (name_eqb n) (touches c).

Definition cont_is (s : dst) (new : list N) : bool :=
  match sp_cont s with Some x => list_eqb x new | None => false end.

Definition dstep (kn sp : fname) (new : list N) (s : dst) (c : syscall) : option dst :=
  if touchesb kn c then
    match c with
    | Rename a b =>
        if name_eqb a sp && name_eqb b kn && sp_sync s && cont_is s new
        then Some (mkdst None false) else None
    | Close _ | Rmdir _ => Some s
    | _ => None
    end
  else if touchesb sp c then
    match c with
    | Creat _ => Some (mkdst (Some []) false)
    | Write _ b => Some (mkdst (option_map (fun x => x ++ b) (sp_cont s)) false)
    | Fsync _ => Some (mkdst (sp_cont s) true)
    | Close _ | Rmdir _ => Some s
    | _ => Some (mkdst None false)
    end
  else Some s.

Fixpoint disciplined (kn sp : fname) (new : list N) (s : dst) (l : list syscall) : bool :=
  match l with
  | [] => true
  | c :: r => match dstep kn sp new s c with
              | Some s' => disciplined kn sp new s' r
              | None => false
              end
  end.

(* the scanner's final state: [Some true] = the rename happened *)
Fixpoint renamed_in (kn sp : fname) (l : list syscall) : bool :=
  match l with
  | [] => false
  | Rename a b :: r => (name_eqb a sp && name_eqb b kn) || renamed_in kn sp r
  | _ :: r => renamed_in kn sp r
  end.

