(* L3 progress: bounded-progress theorems about the synchronisation monitor [Sync.v].

   SyncProofs.v proves SAFETY for every accepted faithful trace.  This file proves PROGRESS: from every
   reachable monitor state a Close / Disconnect call, the read routine, a persisted publish and a
   termCallbacks goroutine reach their return point within a bounded number of further events, every one
   of which is ENABLED in the monitor ([step] accepts it), none of which is a new API call ([ESpawn]).

   Shape of the statements.  [must_return r i n g st] is a bounded game: in every round there is a
   DESIGNATED goroutine j (the target i itself when it can move, otherwise the goroutine it transitively
   waits for: holder of connSem, of a seqSem, of writeSem, or the abort goroutine) that has an enabled
   event, and WHATEVER enabled faithful event j performs (every outcome of an I/O gate, of a context
   check, of a select) either leaves the state unchanged (the one stutter of the monitor: [ECtx false] at
   [P_have]) or leads to a state where the game is won in n-1 rounds.  [close_returns] etc. follow: there
   is a schedule of at most n enabled events after which goroutine i has returned.

   ENVIRONMENT ASSUMPTIONS, and where they are built into the monitor:
   (E1) every I/O gate returns: the events [EIO _] (conn.Write in W_hold/P_hold/R_ackhold/D_io WvConn;
        Load+Dial in R_dial; the handshake in R_hs; the resends in R_resend1/2; Save in P_have) and the
        dial outcome [ECtx true] at R_dial are enabled in every state: the monitor has no state "stuck in
        I/O".  In the client this holds because writes carry PauseTimeout deadlines, and because the
        waiter closes the connection first: Close at K_sel takes [EDefault] = conn.Close() BEFORE it
        blocks on writeSem at K_recv2 (client.go "may interrupt write"), Disconnect at D_sel/EQuit the
        same, toOffline at R_off/EDefault the same ("interrupt write"), and the abort goroutine closes the
        dialled connection when the context is cancelled (A_sel/ECtx true) so the handshake gate R_hs
        returns.  Without deadlines and with a peer that never reads nor resets, (E1) is an assumption.
   (E2) a goroutine started by a go statement eventually runs: [EStart KAbort] for a pending abort
        goroutine is a move of the schedule.
   (E3) nobody else grabs a token the designated goroutine is about to receive: the schedule runs only the
        designated goroutine (Go's FIFO receive queues are not modelled; with an unbounded supply of new
        publishers no bound could hold otherwise).
   Not assumed: that [quit] fires (Disconnect with a nil quit returns), that the context check at P_have
   or R_ctxchk sees the cancellation.
   Where (E1) rests on a deadline only (nobody closes the connection first): the wait of Disconnect at D_sel
   for a writer (quit is the documented way out), the waits of connect at R_failw/R_wsem and of
   submitPersisted at P_wsem, and R_dial with a Dialer that ignores its context.

   Main results (r = id of the ReadSlices goroutine, as in SyncProofs.v):
     Reach, XInv                     reachability with the ghost of the trace; five more invariants (abort_live
                                     counts the abort goroutine; done/abort/ctx facts behind the faithfulness
                                     of the moves chosen)
     hw, tw, Phi, Mu                 weight of a program point, potential of a state; Phi_bound: Phi <= 39
     L_dec / holder_step             ALL outcomes: every event of a goroutine with positive weight decreases it
     mover_dec                       ALL outcomes of the designated goroutine decrease the potential
     w_free s_free a_free c_free     a taken token: its holder, or whoever that one waits for (lock order
                                     connSem < seqSem1 < seqSem2 < writeSem, then the abort goroutine), can move
     progress, holder_progress       every goroutine inside a call has a designated goroutine that can move
     must_return_all                 the game is won from every reachable state (bound Mu <= 39 + 7)
     close_returns disconnect_returns read_routine_returns persist_returns term_goroutine_ends
     abort_goroutine_ends            schedules of at most 45 46 42 45 42 39 enabled events
     close_must_return ...           the same in game form
     tokens_released                 all four semaphores free again within 39 events
     request_settles                 Publish-like requests: returned, or at the designed connPending wait
     blocked_waits_for               what a blocked goroutine waits for, and that it is another goroutine
     read_routine_never_self_blocked C10
     f6_pinned_close_never_returns   the pinned F6 skeleton: Close blocked for ever
   The lock order of SyncProofs ([lock_order], [wait_for_acyclic]) is what makes the nesting
   c_free -> s_free -> w_free well founded; here it appears as the weights. *)
From Coq Require Import NArith List Bool Lia Arith.
From MQ Require Import Sync SyncProofs.
Import ListNotations.
Local Open Scope nat_scope.

(* ================= 0. reachability with the ghost of the trace ================= *)

Section Reach.
Variable r : N.

Definition Reach (g : ghost) (st : state) : Prop :=
  exists tr, faithful r ghost0 tr = true /\ run init_state tr = Some st /\ ghost_run r ghost0 tr = g.

Lemma faithful_snoc tr : forall g o, faithful r g (tr ++ [o]) = faithful r g tr && faithful_step r (ghost_run r g tr) o.
Proof.
  induction tr as [|a tr IH]; cbn; intros g o.
  - now rewrite andb_true_r.
  - rewrite IH. now rewrite andb_assoc.
Qed.
Lemma ghost_run_snoc tr : forall g o, ghost_run r g (tr ++ [o]) = ghost_step r (ghost_run r g tr) o.
Proof. induction tr as [|a tr IH]; cbn; intros g o; [reflexivity|apply IH]. Qed.
Lemma run_snoc tr : forall st st1 o st', run st tr = Some st1 -> step st1 o = Some st' -> run st (tr ++ [o]) = Some st'.
Proof.
  induction tr as [|a tr IH]; cbn; intros st st1 o st' H1 H2.
  - injection H1 as <-. now rewrite H2.
  - destruct (step st a) as [st2|]; [|discriminate]. eapply IH; eauto.
Qed.
Lemma run_app tr1 : forall st st1 tr2, run st tr1 = Some st1 -> run st (tr1 ++ tr2) = run st1 tr2.
Proof.
  induction tr1 as [|a tr IH]; cbn; intros st st1 tr2 H1.
  - now injection H1 as <-.
  - destruct (step st a) as [st2|]; [|discriminate]. eapply IH; eauto.
Qed.

Lemma Reach_init : Reach ghost0 init_state.
Proof. exists []. repeat split. Qed.
Lemma Reach_step g st o st' : Reach g st -> faithful_step r g o = true -> step st o = Some st' ->
  Reach (ghost_step r g o) st'.
Proof.
  intros (tr & Hf & Hr & Hg) Hfo Hs. exists (tr ++ [o]). repeat split.
  - rewrite faithful_snoc, Hf, Hg. exact Hfo.
  - eapply run_snoc; eauto.
  - now rewrite ghost_run_snoc, Hg.
Qed.
Lemma Reach_reachable g st : Reach g st -> reachable r st.
Proof. intros (tr & Hf & Hr & _). exists tr. auto. Qed.
Lemma reachable_Reach st : reachable r st -> exists g, Reach g st.
Proof. intros (tr & Hf & Hr). exists (ghost_run r ghost0 tr), tr. auto. Qed.
Lemma Reach_inv g st : Reach g st -> SInv r g st.
Proof. intros (tr & Hf & Hr & <-). now apply reachable_inv. Qed.
Lemma Reach_wfk g st : Reach g st -> WfK st.
Proof. intros (tr & Hf & Hr & _). eapply reachable_wfk; eauto. Qed.

End Reach.

(* ================= 1. more invariants (needed only for progress) ================= *)

Definition aErrLike (s : shared) : bool := match abort s with AErr | AClosedErr => true | _ => false end.
Definition atAsend (t : thread) : bool := match t_pc t with A_send => true | _ => false end.
(* the abort goroutine of the current dialAndConnect is still there, or it has closed the abort channel *)
Definition liveP (s : shared) : bool := abort_live s || negb (aOpen s).

Record XInv (g : ghost) (st : state) : Prop := {
  x_live : nA st = b2n (abort_live (sh st));
  x_inH : forall j u, find_thread (threads st) j = Some u -> rd u = true -> inH u = true -> liveP (sh st) = true;
  x_dl : dlast g = true -> done_closed (sh st) = true;
  x_seen : rseen g = true -> ctx (sh st) = true;
  x_aerr : aErrLike (sh st) = true -> ctx (sh st) = true;
  x_asend : forall j u, find_thread (threads st) j = Some u -> atAsend u = true -> ctx (sh st) = true
}.

Lemma X_live s t e s' t' ks : tstep s t e = Some (s', t', ks) -> panicked s' = false ->
  (abort_live s' = abort_live s /\ b2n (liveA t') + cntk ks = b2n (liveA t))
  \/ (abort_live s' = true /\ liveA t = false /\ liveA t' = false /\ cntk ks = 1 /\ rd t = true /\ deep t = true /\ inH t = false)
  \/ (abort_live s' = false /\ liveA t = true /\ liveA t' = false /\ cntk ks = 0).
Proof. intros H. tstep_cases H; cbn; intros Hp; try discriminate Hp; auto 10. Qed.

Lemma X_liveP s t e s' t' ks : tstep s t e = Some (s', t', ks) -> panicked s' = false ->
  liveP s = true \/ (inH t = false /\ inH t' = true) -> liveP s' = true.
Proof.
  intros H. tstep_cases H; unfold liveP, aOpen; cbn; intros Hp; try discriminate Hp;
  intros [Hl|[H1 H2]]; try discriminate; try exact Hl; try reflexivity; try (now rewrite orb_true_r).
Qed.

Lemma X_dl s t e s' t' ks : tstep s t e = Some (s', t', ks) -> is_closedone e = true -> panicked s' = false ->
  done_closed s' = true.
Proof. intros H. tstep_cases H; cbn; intros; try discriminate; auto. Qed.

Lemma X_seen s t e s' t' ks : tstep s t e = Some (s', t', ks) -> sees e = true ->
  (aErrLike s = true -> ctx s = true) -> ctx s' = true.
Proof. intros H. tstep_cases H; unfold aErrLike; cbn; intros; try discriminate; auto. Qed.

Lemma X_aerr s t e s' t' ks : tstep s t e = Some (s', t', ks) -> panicked s' = false ->
  (aErrLike s = true -> ctx s = true) -> (atAsend t = true -> ctx s = true) ->
  aErrLike s' = true -> ctx s' = true.
Proof. intros H. tstep_cases H; unfold aErrLike, atAsend; cbn; intros; try discriminate; auto. Qed.

Lemma X_asend s t e s' t' ks : tstep s t e = Some (s', t', ks) ->
  (atAsend t = true -> ctx s = true) -> atAsend t' = true -> ctx s' = true.
Proof. intros H. tstep_cases H; unfold atAsend; cbn; intros; try discriminate; auto. Qed.

Lemma step_tstep st i e t s' t' ks :
  match e with ESpawn _ | EStart _ => false | _ => true end = true ->
  find_thread (threads st) i = Some t -> tstep (sh st) t e = Some (s', t', ks) ->
  step st (mkObs i e) = Some (mkState s' (set_thread (threads st) i t') (pending st ++ ks)).
Proof.
  intros He Hf Ht. destruct e; try discriminate He; unfold step; cbn [o_ev o_tid]; rewrite Hf, Ht; reflexivity.
Qed.

Lemma set_thread_same l i t : find_thread l i = Some t -> set_thread l i t = l.
Proof.
  induction l as [|[j u] l IH]; cbn; [discriminate|].
  destruct (N.eqb j i) eqn:E.
  - intros [= ->]. apply N.eqb_eq in E. now subst.
  - intros H. now rewrite IH.
Qed.

Section XStep.
Variable r : N.

Lemma xinv_tstep g st i t e s' t' ks :
  SInv r g st -> XInv g st -> find_thread (threads st) i = Some t -> tstep (sh st) t e = Some (s', t', ks) ->
  ghost_ok (N.eqb i r) g e = true ->
  XInv (ghost_next (N.eqb i r) g e) (mkState s' (set_thread (threads st) i t') (pending st ++ ks)).
Proof.
  intros I X Hf Hs Hg.
  pose proof (tstep_preserves r g st i t e s' t' ks I Hf Hs Hg) as I'.
  pose proof (inv_panic _ _ _ I') as Hp. cbn [sh] in Hp.
  destruct X as [Xl Xh Xd Xs Xa Xn].
  destruct (inv_t _ _ _ I i t Hf) as [_ Hrd].
  assert (Hsend : atAsend t = true -> ctx (sh st) = true) by (intros H; eapply Xn; eauto).
  constructor; cbn [sh threads pending].
  - (* live *)
    unfold nA in *. cbn [threads pending]. rewrite (cnt_set_eq _ _ _ _ _ Hf), cntk_app.
    pose proof (cnt_found liveA _ _ _ Hf) as B.
    destruct (X_live _ _ _ _ _ _ Hs Hp) as [(E1 & E2)|[(E1 & E2 & E3 & E4 & E5 & E6 & E7)|(E1 & E2 & E3 & E4)]].
    + rewrite E1. lia.
    + rewrite E1, E2, E3, E4 in *. cbn.
      assert (cnt liveA (threads st) + cntk (pending st) = 0) as Z.
      { pose proof (inv_r _ _ _ I) as Ir. rewrite <- (Hrd E5) in Ir. rewrite Hf in Ir. unfold rinv in Ir.
        rewrite E5 in Ir. destruct Ir as (D1 & _ & _ & D4). apply D4; auto. }
      lia.
    + rewrite E1, E2, E3, E4 in *. cbn. destruct (inv_a _ _ _ I) as [A1 _]. unfold nA in A1. cbn in B. lia.
  - (* inH *)
    intros j u Hj Hr Hh. destruct (N.eq_dec j i) as [->|Hne].
    + rewrite find_set_same in Hj. injection Hj as <-.
      eapply X_liveP; try eassumption. destruct (inH t) eqn:Et; [left|right; auto].
      eapply Xh; eauto. unfold rd in *. now rewrite <- (tstep_kind _ _ _ _ _ _ Hs).
    + rewrite find_set_other in Hj by assumption.
      eapply X_liveP; try eassumption. left. eapply Xh; eauto.
  - (* dlast *)
    unfold ghost_next. destruct (N.eqb i r) eqn:Ei; cbn.
    + intros Hd. eapply X_dl; eauto.
    + intros Hd. specialize (Xd Hd).
      assert (rd t = false) as Hnr.
      { destruct (rd t) eqn:Er; [|reflexivity]. specialize (Hrd eq_refl). subst i. now rewrite N.eqb_refl in Ei. }
      destruct (L_nonreader _ _ _ _ _ _ Hs Hnr) as (D1 & _). now rewrite D1.
  - (* seen *)
    unfold ghost_next. destruct (N.eqb i r); cbn.
    + intros Hd. apply orb_true_iff in Hd. destruct Hd as [Hd|Hd].
      * eapply L_ctx_mono; eauto.
      * eapply X_seen; eauto.
    + intros Hd. eapply L_ctx_mono; eauto.
  - (* aerr *) eapply X_aerr; eauto.
  - (* asend *)
    intros j u Hj Hu. destruct (N.eq_dec j i) as [->|Hne].
    + rewrite find_set_same in Hj. injection Hj as <-. eapply X_asend; eauto.
    + rewrite find_set_other in Hj by assumption. eapply L_ctx_mono; eauto.
Qed.

Lemma xinv_replace g g' st i nt p' :
  XInv g st ->
  match find_thread (threads st) i with Some t => restartable t = true | None => True end ->
  inH nt = false -> atAsend nt = false ->
  b2n (liveA nt) + cntk p' = cntk (pending st) ->
  rseen g' = rseen g -> (dlast g' = true -> dlast g = true) ->
  XInv g' (mkState (sh st) (set_thread (threads st) i nt) p').
Proof.
  intros [Xl Xh Xd Xs Xa Xn] Hold H1 H2 Hc Hg1 Hg2.
  constructor; cbn [sh threads pending]; auto.
  - rewrite <- Xl. unfold nA; cbn [threads pending]. destruct (find_thread (threads st) i) as [t|] eqn:Ef.
    + rewrite (cnt_set_eq _ _ _ _ _ Ef). destruct (restartable_quiet t Hold) as [_ ->]. cbn. lia.
    + rewrite cnt_set_none by assumption. lia.
  - intros j u Hj Hr Hh. destruct (N.eq_dec j i) as [->|Hne].
    + rewrite find_set_same in Hj. injection Hj as <-. congruence.
    + rewrite find_set_other in Hj by assumption. eauto.
  - rewrite Hg1. exact Xs.
  - intros j u Hj Hu. destruct (N.eq_dec j i) as [->|Hne].
    + rewrite find_set_same in Hj. injection Hj as <-. congruence.
    + rewrite find_set_other in Hj by assumption. eauto.
Qed.

Lemma xinv_step g st o st' :
  SInv r g st -> XInv g st -> faithful_step r g o = true -> step st o = Some st' -> XInv (ghost_step r g o) st'.
Proof.
  intros I X Hg Hs. destruct o as [i e]. unfold faithful_step, ghost_step in *. cbn [o_tid o_ev] in *.
  assert (Hother : (match e with ESpawn _ | EStart _ => false | _ => true end) = true ->
     XInv (ghost_next (N.eqb i r) g e) st').
  { intros He. assert (step st (mkObs i e) =
      match find_thread (threads st) i with
      | None => None
      | Some t => match tstep (sh st) t e with
                  | None => None
                  | Some (s', t', ks) => Some (mkState s' (set_thread (threads st) i t') (pending st ++ ks))
                  end end) as E by (destruct e; try discriminate He; reflexivity).
    rewrite E in Hs. destruct (find_thread (threads st) i) as [t|] eqn:Ef; [|discriminate].
    destruct (tstep (sh st) t e) as [[[s' t'] ks]|] eqn:Et; [|discriminate].
    injection Hs as <-. eapply xinv_tstep; eassumption. }
  assert (Hgh : forall k0, (e = ESpawn k0 \/ e = EStart k0) ->
     rseen (ghost_next (N.eqb i r) g e) = rseen g /\ (dlast (ghost_next (N.eqb i r) g e) = true -> dlast g = true)).
  { intros k0 [->| ->]; unfold ghost_next; destruct (N.eqb i r); cbn; split; auto using orb_false_r; discriminate. }
  destruct e; try (apply Hother; reflexivity); clear Hother; match goal with k : kind |- _ => rename k into k0 end.
  - (* ESpawn *)
    unfold step in Hs. cbn [o_ev o_tid] in Hs. destruct (Hgh k0 (or_introl eq_refl)) as [G1 G2].
    assert (Hk : isKAbort k0 = false /\ inH (new_thread k0) = false /\ atAsend (new_thread k0) = false /\
                 liveA (new_thread k0) = false /\
                 match find_thread (threads st) i with Some t => restartable t = true | None => True end /\
                 st' = mkState (sh st) (set_thread (threads st) i (new_thread k0)) (pending st)).
    { destruct k0; try discriminate Hs; repeat (split; [reflexivity|]);
      (destruct (find_thread (threads st) i) as [t|]; [destruct (restartable t); [|discriminate Hs]|]);
      injection Hs as <-; auto. }
    destruct Hk as (_ & K1 & K2 & K3 & Hold & ->).
    apply xinv_replace with (g := g); auto. rewrite K3. reflexivity.
  - (* EStart *)
    unfold step in Hs. cbn [o_ev o_tid] in Hs. destruct (Hgh k0 (or_intror eq_refl)) as [G1 G2].
    destruct (find_thread (threads st) i) as [t|] eqn:Ef; [discriminate|].
    destruct (remove_kind k0 (pending st)) as [p1|] eqn:Er; [|discriminate]. injection Hs as <-.
    apply xinv_replace with (g := g); auto.
    + now rewrite Ef.
    + destruct k0; reflexivity.
    + destruct k0; reflexivity.
    + rewrite (remove_kind_cntk _ _ _ Er). destruct k0; reflexivity.
Qed.

Lemma xinv_init : XInv ghost0 init_state.
Proof. constructor; cbn; try discriminate; auto. Qed.

Lemma run_xinv tr : forall g st st', SInv r g st -> XInv g st -> faithful r g tr = true -> run st tr = Some st' ->
  XInv (ghost_run r g tr) st'.
Proof.
  induction tr as [|o tr IH]; cbn; intros g st st' I X Hf Hr.
  - now injection Hr as <-.
  - apply andb_true_iff in Hf. destruct Hf as [Hf1 Hf2].
    destruct (step st o) as [st1|] eqn:Es; [|discriminate].
    eapply IH; [| |exact Hf2|exact Hr].
    + eapply step_preserves; eassumption.
    + eapply xinv_step; eassumption.
Qed.

Lemma Reach_xinv g st : Reach r g st -> XInv g st.
Proof. intros (tr & Hf & Hr & <-). eapply run_xinv; eauto using init_inv, xinv_init. Qed.

End XStep.

(* ================= 2. enabled, blocked, and the potential ================= *)

Definition enabled (st : state) (i : N) (e : ev) : Prop := exists st', step st (mkObs i e) = Some st'.

(* events of the schedules considered: no new API call; the only goroutine start needed is that of a
   pending abort goroutine *)
Definition okev (e : ev) : bool := match e with ESpawn _ => false | EStart k => isKAbort k | _ => true end.
Definition nospawn (e : ev) : bool := match e with ESpawn _ | EStart _ => false | _ => true end.

Definition returned (st : state) (i : N) : Prop :=
  exists t, find_thread (threads st) i = Some t /\ restartable t = true.

(* [hw]: upper bound on the number of OWN events a goroutine performs from this point until it has given
   back / closed every token it holds (for the abort goroutine: until it has ended), on any path *)
Definition hw (t : thread) : nat :=
  match t_pc t with
  | W_hold _ => 3 | W_io => 1 | W_unlock _ => 2
  | P_have => 5 | P_wsem => 4 | P_hold _ => 3 | P_io => 1 | P_unlock _ => 2 | P_release => 1
  | R_ctxchk => 19 | R_dial => 18 | R_hs => 12 | R_abortrecv _ => 11
  | R_failw => 3 | R_faildown => 2 | R_failcs => 1
  | R_seq1 => 10 | R_seq2 => 9 | R_wsem => 8 | R_cssend => 7 | R_resend1 => 6 | R_seq1back _ => 5
  | R_resend2 => 4 | R_seq2back _ => 3 | R_resendfail => 1 | R_online => 1
  | R_ackhold _ => 2 | R_ackio => 1 | R_ackunlock _ => 1 | R_offput => 1
  | T_closeseq => 2 | T_closeq => 1
  | A_sel => 3 | A_send => 2 | A_close => 1
  | K_sel => 4 | K_recv2 => 3 | K_closew => 2 | K_closec => 1
  | D_sel => 5 | D_quitrecv => 3 | D_io => 3 | D_closew => 2 | D_closec => 1
  | _ => 0
  end.
(* [tw]: own events of a call before it holds its first token *)
Definition tw (t : thread) : nat :=
  match t_pc t with
  | K_cancel => 6 | K_csem => 5 | D_cancel => 7 | D_csem => 6
  | R_off => 3 | R_offwait => 2 | R_term => 1 | P_seq => 6 | T_seq => 3 | _ => 0
  end.
Definition dn (s : shared) : nat := b2n (negb (done_closed s)).

Fixpoint sumw (f : thread -> nat) (l : list (N * thread)) : nat :=
  match l with [] => 0 | it :: rest => f (snd it) + sumw f rest end.

Lemma sumw_set_some f l i t0 t : find_thread l i = Some t0 ->
  sumw f (set_thread l i t) + f t0 = sumw f l + f t.
Proof.
  induction l as [|[k u] l IH]; cbn; [discriminate|].
  destruct (N.eqb k i) eqn:E; cbn.
  - intros [= ->]. lia.
  - intros H. specialize (IH H). lia.
Qed.
Lemma sumw_set_none f l i t : find_thread l i = None -> sumw f (set_thread l i t) = sumw f l + f t.
Proof.
  induction l as [|[k u] l IH]; cbn; [lia|].
  destruct (N.eqb k i) eqn:E; cbn; [discriminate|]. intros H. specialize (IH H). lia.
Qed.

(* potential of a state; and of a state relative to the goroutine i whose return is awaited *)
Definition Phi (st : state) : nat := sumw hw (threads st) + 4 * cntk (pending st) + dn (sh st).
Definition twi (st : state) (i : N) : nat :=
  match find_thread (threads st) i with Some t => tw t | None => 0 end.
Definition Mu (st : state) (i : N) : nat := Phi st + twi st i.

(* static, ALL outcomes: every accepted event of a goroutine with positive weight strictly decreases its
   weight (plus the weight of what it spawns), except the one stutter of the monitor *)
Lemma L_dec s t e s' t' ks : tstep s t e = Some (s', t', ks) -> panicked s' = false -> 0 < hw t + tw t ->
  (e = ECtx false /\ t_pc t = P_have /\ s' = s /\ t' = t /\ ks = []) \/
  hw t' + tw t' + 4 * cntk ks + dn s' < hw t + tw t + dn s.
Proof.
  intros H. tstep_cases H; unfold dn; cbn; intros Hp Hpos; try discriminate Hp; try lia; auto;
  try (right; match goal with |- context [negb ?b] => destruct b end; cbn; lia).
  all: left; repeat split.
Qed.
Lemma hw_tw_excl t : 0 < hw t -> tw t = 0.
Proof. destruct t as [k p hc]; destruct p; cbn; intros; try lia. Qed.

Lemma step_cases st j e st' : step st (mkObs j e) = Some st' ->
  (exists k, e = ESpawn k) \/
  (exists k p', e = EStart k /\ find_thread (threads st) j = None /\ remove_kind k (pending st) = Some p' /\
                st' = mkState (sh st) (set_thread (threads st) j (new_thread k)) p') \/
  (nospawn e = true /\ exists t s' t' ks, find_thread (threads st) j = Some t /\
     tstep (sh st) t e = Some (s', t', ks) /\
     st' = mkState s' (set_thread (threads st) j t') (pending st ++ ks)).
Proof.
  intros Hs.
  assert (Hother : nospawn e = true ->
    exists t s' t' ks, find_thread (threads st) j = Some t /\
     tstep (sh st) t e = Some (s', t', ks) /\
     st' = mkState s' (set_thread (threads st) j t') (pending st ++ ks)).
  { intros He. assert (step st (mkObs j e) =
      match find_thread (threads st) j with
      | None => None
      | Some t => match tstep (sh st) t e with
                  | None => None
                  | Some (s', t', ks) => Some (mkState s' (set_thread (threads st) j t') (pending st ++ ks))
                  end end) as E by (destruct e; try discriminate He; reflexivity).
    rewrite E in Hs. destruct (find_thread (threads st) j) as [t|] eqn:Ef; [|discriminate].
    destruct (tstep (sh st) t e) as [[[s' t'] ks]|] eqn:Et; [|discriminate].
    injection Hs as <-. eauto 8. }
  destruct e; try (right; right; split; [reflexivity|apply Hother; reflexivity]); clear Hother.
  - left. eexists; reflexivity.
  - right. left. unfold step in Hs. cbn [o_ev o_tid] in Hs.
    destruct (find_thread (threads st) j) as [t|] eqn:Ef; [discriminate|].
    destruct (remove_kind k (pending st)) as [p'|] eqn:Er; [|discriminate]. injection Hs as <-.
    exists k, p'. repeat split; auto.
Qed.

Lemma step_keeps st j e st' i t : step st (mkObs j e) = Some st' -> okev e = true ->
  find_thread (threads st) i = Some t ->
  exists t', find_thread (threads st') i = Some t' /\ t_kind t' = t_kind t /\ (i <> j -> t' = t).
Proof.
  intros Hs Ho Hi.
  destruct (step_cases _ _ _ _ Hs) as [(k & ->)|[(k & p' & -> & Hn & _ & ->)|(_ & u & s' & u' & ks & Hj & Ht & ->)]].
  - discriminate Ho.
  - cbn [threads]. assert (i <> j) by (intros ->; congruence).
    rewrite find_set_other by assumption. eauto.
  - cbn [threads]. destruct (N.eq_dec i j) as [->|Hne].
    + rewrite find_set_same. rewrite Hi in Hj. injection Hj as <-.
      exists u'. repeat split; [eapply tstep_kind; eauto|congruence].
    + rewrite find_set_other by assumption. eauto.
Qed.

Lemma cntk_remove k l l' : remove_kind k l = Some l' -> cntk l = b2n (isKAbort k) + cntk l'.
Proof. apply remove_kind_cntk. Qed.

Section Progress.
Variable r : N.

(* the goroutine that moves: one with positive weight, or the awaited one before its first token, or a
   fresh goroutine id (for the start of a pending abort goroutine) *)
Definition mover (st : state) (i j : N) : Prop :=
  match find_thread (threads st) j with
  | Some t => 0 < hw t \/ (j = i /\ 0 < tw t)
  | None => True
  end.

(* ALL outcomes: whatever the mover does, the potential strictly decreases (or nothing happened) *)
Lemma mover_dec g st i j e st' : Reach r g st -> mover st i j -> okev e = true ->
  faithful_step r g (mkObs j e) = true -> step st (mkObs j e) = Some st' ->
  (st' = st /\ e = ECtx false /\ exists t, find_thread (threads st) j = Some t /\ t_pc t = P_have) \/ Mu st' i < Mu st i.
Proof.
  intros HR Hm Ho Hf Hs.
  pose proof (Reach_inv _ _ _ (Reach_step r g st _ st' HR Hf Hs)) as I'.
  pose proof (inv_panic _ _ _ I') as Hp.
  unfold mover in Hm.
  destruct (step_cases _ _ _ _ Hs) as [(k & ->)|[(k & p' & -> & Hn & Hrm & ->)|(_ & t & s' & t' & ks & Hj & Ht & ->)]].
  - discriminate Ho.
  - right. cbn in Ho. destruct k; try discriminate Ho.
    unfold Mu, Phi, twi. cbn [threads pending sh].
    rewrite (sumw_set_none _ _ _ _ Hn), (cntk_remove _ _ _ Hrm). cbn.
    destruct (N.eq_dec i j) as [->|Hne].
    + rewrite find_set_same, Hn. cbn. lia.
    + rewrite find_set_other by assumption. lia.
  - rewrite Hj in Hm. cbn [sh] in Hp.
    assert (0 < hw t + tw t) as Hpos by (destruct Hm as [?|[_ ?]]; lia).
    destruct (L_dec _ _ _ _ _ _ Ht Hp Hpos) as [(-> & Hpc & -> & -> & ->)|Hd].
    + left. split; [|split; [reflexivity|eauto]]. rewrite (set_thread_same _ _ _ Hj), app_nil_r. now destruct st.
    + right. unfold Mu, Phi, twi. cbn [threads pending sh]. rewrite cntk_app.
      pose proof (sumw_set_some hw _ _ _ t' Hj) as E.
      destruct (N.eq_dec i j) as [->|Hne].
      * rewrite find_set_same, Hj. lia.
      * rewrite find_set_other by assumption.
        destruct Hm as [Hm|[-> _]]; [|congruence]. pose proof (hw_tw_excl _ Hm). lia.
Qed.

(* the bounded game *)
Fixpoint must_return (i : N) (n : nat) (g : ghost) (st : state) : Prop :=
  returned st i \/
  match n with
  | 0 => False
  | S n' => exists j,
      (exists e st', okev e = true /\ faithful_step r g (mkObs j e) = true /\ step st (mkObs j e) = Some st' /\
                     must_return i n' (ghost_step r g (mkObs j e)) st') /\
      (forall e st', okev e = true -> faithful_step r g (mkObs j e) = true -> step st (mkObs j e) = Some st' ->
                     st' = st \/ must_return i n' (ghost_step r g (mkObs j e)) st')
  end.

Lemma must_return_mono i n : forall m g st, n <= m -> must_return i n g st -> must_return i m g st.
Proof.
  induction n as [|n IH]; intros m g st Hle H.
  - destruct H as [H|[]]. destruct m; left; exact H.
  - destruct H as [H|(j & (e & st' & H1 & H2 & H3 & H4) & Hall)]; [destruct m; left; exact H|].
    destruct m as [|m]; [lia|]. right. exists j. split.
    + exists e, st'. repeat split; auto. apply IH; [lia|exact H4].
    + intros e0 st0 A B C. destruct (Hall e0 st0 A B C) as [?|?]; [now left|right]. apply IH; [lia|assumption].
Qed.

(* a won game yields a schedule *)
Lemma must_return_schedule i n : forall g st, must_return i n g st ->
  exists evs st', length evs <= n /\ forallb (fun o => okev (o_ev o)) evs = true /\
    faithful r g evs = true /\ run st evs = Some st' /\ returned st' i.
Proof.
  induction n as [|n IH]; intros g st H.
  - destruct H as [H|[]]. exists [], st. cbn. auto.
  - destruct H as [H|(j & (e & st' & H1 & H2 & H3 & H4) & _)].
    + exists [], st. cbn. repeat split; auto; lia.
    + destruct (IH _ _ H4) as (evs & st2 & L & A & B & C & D).
      exists (mkObs j e :: evs), st2. cbn. rewrite H3, H2, H1, A. repeat split; auto; lia.
Qed.

End Progress.

(* ================= 3. an enabled decreasing move exists ================= *)

Definition notstut (t : thread) (e : ev) : bool :=
  match t_pc t, e with P_have, ECtx false => false | _, _ => true end.

(* events that are faithful whoever performs them *)
Definition gsafe (e : ev) : bool :=
  match e with ESpawn _ | ECtx false | ECloseDone => false | _ => true end.
Lemma gsafe_ok e b g : gsafe e = true -> ghost_ok b g e = true.
Proof. destruct e; cbn; try discriminate; try reflexivity. destruct canceled; [reflexivity|discriminate]. Qed.

Lemma W_static s t e s' t' ks : tstep s t e = Some (s', t', ks) -> holdsW t = true ->
  nospawn e = true /\ gsafe e = true /\ 0 < hw t /\ notstut t e = true.
Proof. intros H. tstep_cases H; cbn; intros; try discriminate; repeat split; lia. Qed.

Lemma fresh_tid (l : list (N * thread)) : exists j, find_thread l j = None.
Proof.
  assert (forall l : list (N * thread), exists m, forall j, (m <= j)%N -> find_thread l j = None) as H.
  { clear. induction l as [|[k u] l (m & Hm)]; cbn.
    - exists 0%N. reflexivity.
    - exists (N.max m (k + 1)). intros j Hj.
      destruct (N.eqb k j) eqn:E; [apply N.eqb_eq in E; lia|]. apply Hm. lia. }
  destruct (H l) as (m & Hm). exists m. apply Hm. lia.
Qed.

Lemma cntk_pos_remove l : 1 <= cntk l -> exists l', remove_kind KAbort l = Some l'.
Proof.
  induction l as [|k l IH]; cbn; [lia|]. destruct (kind_eqb k KAbort) eqn:E; [eauto|].
  intros H. assert (isKAbort k = false) by (destruct k as [|[]| |[]| | |]; cbn in *; congruence).
  rewrite H0 in H. cbn in H. destruct (IH H) as (l' & ->). eauto.
Qed.

Section Moves.
Variable r : N.

Definition good (g : ghost) (st : state) (i : N) : Prop :=
  exists j e st', mover st i j /\ okev e = true /\ faithful_step r g (mkObs j e) = true /\
                  step st (mkObs j e) = Some st' /\ Mu st' i < Mu st i.

Lemma good_tstep g st i j t e s' t' ks : Reach r g st -> find_thread (threads st) j = Some t ->
  (0 < hw t \/ (j = i /\ 0 < tw t)) -> tstep (sh st) t e = Some (s', t', ks) ->
  nospawn e = true -> ghost_ok (N.eqb j r) g e = true -> notstut t e = true -> good g st i.
Proof.
  intros HR Hj Hw Ht He Hg Hn.
  assert (okev e = true) as Ho by (destruct e; try discriminate He; reflexivity).
  pose proof (step_tstep st j e t s' t' ks He Hj Ht) as Hs.
  assert (mover st i j) as Hm by (unfold mover; now rewrite Hj).
  eexists j, e, _. repeat split; try eassumption.
  destruct (mover_dec r g st i j e _ HR Hm Ho Hg Hs) as [(_ & -> & u & Hu & Hpc)|H]; [|exact H].
  exfalso. rewrite Hj in Hu. injection Hu as <-. unfold notstut in Hn. rewrite Hpc in Hn. discriminate.
Qed.

Lemma holder_slot_w g st j t : SInv r g st -> find_thread (threads st) j = Some t -> holdsW t = true ->
  writesem (sh st) = WEmpty.
Proof.
  intros I Hj Hh. pose proof (inv_w _ _ _ I) as Iw. pose proof (cnt_found holdsW _ _ _ Hj) as B.
  rewrite Hh in B. cbn in B. unfold wcount_ok in Iw. destruct (writesem (sh st)); try lia; reflexivity.
Qed.
Lemma holder_slot_c g st j t : SInv r g st -> find_thread (threads st) j = Some t -> holdsC t = true ->
  connsem (sh st) = CEmpty.
Proof.
  intros I Hj Hh. pose proof (inv_c _ _ _ I) as Iw. pose proof (cnt_found holdsC _ _ _ Hj) as B.
  rewrite Hh in B. cbn in B. unfold ccount_ok in Iw. destruct (connsem (sh st)); try lia; reflexivity.
Qed.
Lemma holder_slot_s g st j t l : SInv r g st -> find_thread (threads st) j = Some t -> holdsS l t = true ->
  get_seq (sh st) l = SEmpty.
Proof.
  intros I Hj Hh. pose proof (inv_s _ _ _ I l) as Iw. pose proof (cnt_found (holdsS l) _ _ _ Hj) as B.
  rewrite Hh in B. cbn in B. unfold scount_ok in Iw. destruct (get_seq (sh st) l); try lia; reflexivity.
Qed.

(* writeSem is taken: its holder can move *)
Lemma w_free g st i : Reach r g st -> writesem (sh st) = WEmpty -> good g st i.
Proof.
  intros HR Hw. pose proof (Reach_inv _ _ _ HR) as I.
  pose proof (inv_w _ _ _ I) as Iw. unfold wcount_ok in Iw. rewrite Hw in Iw.
  destruct (cnt_pos_find holdsW _ (inv_nodup _ _ _ I)) as (j & tj & Hj & Hh); [lia|].
  destruct (w_holder_enabled r st j tj (Reach_reachable _ _ _ HR) Hj Hh) as (e & s' & t' & ks & Ht).
  destruct (W_static _ _ _ _ _ _ Ht Hh) as (A & B & C & D).
  eapply good_tstep; eauto using gsafe_ok.
Qed.


(* exhibit the event E of goroutine j (hypotheses HR : Reach, Hj : find_thread) *)
Ltac ev HR Hj E :=
  eapply (good_tstep _ _ _ _ _ E _ _ _ HR Hj);
  [ first [left; cbn; lia | right; split; [reflexivity|cbn; lia]]
  | cbv; reflexivity | reflexivity | try reflexivity | reflexivity ].

(* a seqSem is taken: its holder, or the holder of writeSem it waits for, can move *)
Lemma s_free_aux l g st i : Reach r g st -> get_seq (sh st) l = SEmpty ->
  (l = false -> get_seq (sh st) true = SEmpty -> good g st i) -> good g st i.
Proof.
  intros HR Hs HS2. pose proof (Reach_inv _ _ _ HR) as I. pose proof (Reach_wfk _ _ _ HR) as W.
  pose proof (inv_s _ _ _ I l) as Is. unfold scount_ok in Is. rewrite Hs in Is.
  destruct (cnt_pos_find (holdsS l) _ (inv_nodup _ _ _ I)) as (j & tj & Hj & Hh); [lia|].
  pose proof (W j tj Hj) as Hk.
  pose proof (holder_slot_w _ _ _ _ I Hj) as FW.
  pose proof (w_free g st i HR) as WF.
  destruct st as [s ths pend]. destruct s as [cs ws s1 s2 q1 q2 cx dc ab al pk]. cbn [sh threads pending] in *.
  cbn in FW, WF, Hs, HS2.
  destruct tj as [k p hc]. destruct k, p; try discriminate Hk; cbn in Hh; try discriminate Hh;
  try (apply WF, FW; reflexivity).
  - (* P_have *) ev HR Hj (EIO false).
  - (* P_wsem *) destruct ws as [v| |]; [destruct v; ev HR Hj (ERecvW true WvPend) || ev HR Hj (ERecvW true WvDown) || ev HR Hj (ERecvW true WvConn)
                                        |apply WF; reflexivity|ev HR Hj (ERecvW false WvPend)].
  - (* P_release *) destruct l, level; try discriminate Hh; cbn in Hs; subst; [ev HR Hj (ESendS true)|ev HR Hj (ESendS false)].
  - (* R_seq2 *) destruct l; [discriminate Hh|]. destruct s2; [ev HR Hj (ERecvSAny true)|apply HS2; reflexivity|ev HR Hj (ERecvSAny true)].
  - (* R_wsem *) destruct ws as [v| |]; [ev HR Hj ERecvWAny|apply WF; reflexivity|ev HR Hj ERecvWAny].
  - (* T_closeseq *) destruct l, level; try discriminate Hh; cbn in Hs; subst; [ev HR Hj (ECloseS true)|ev HR Hj (ECloseS false)].
Qed.

Lemma s_free l g st i : Reach r g st -> get_seq (sh st) l = SEmpty -> good g st i.
Proof.
  intros HR Hs. destruct l.
  - apply (s_free_aux true); auto. discriminate.
  - apply (s_free_aux false); auto. intros _ H2. apply (s_free_aux true); auto. discriminate.
Qed.


(* the read routine waits for the abort goroutine of its dialAndConnect: that goroutine (or its start) can move *)
Lemma a_free g st i j u hs : Reach r g st -> find_thread (threads st) j = Some u -> rd u = true ->
  t_pc u = R_abortrecv hs -> done_closed (sh st) = true -> abort (sh st) = AEmpty -> good g st i.
Proof.
  intros HR Hj Hr Hpc Hd Ha. pose proof (Reach_inv _ _ _ HR) as I. pose proof (Reach_wfk _ _ _ HR) as W.
  pose proof (Reach_xinv _ _ _ HR) as X.
  assert (inH u = true) as Hh by (unfold inH; now rewrite Hpc).
  pose proof (x_inH _ _ X j u Hj Hr Hh) as L. unfold liveP, aOpen in L. rewrite Ha in L. cbn in L.
  rewrite orb_false_r in L. pose proof (x_live _ _ X) as N1. rewrite L in N1. cbn in N1. unfold nA in N1.
  destruct (cnt liveA (threads st)) as [|n] eqn:Ec.
  - (* not started yet *)
    destruct (cntk_pos_remove (pending st)) as (p' & Hrm); [lia|].
    destruct (fresh_tid (threads st)) as (a & Hf).
    assert (step st (mkObs a (EStart KAbort)) = Some (mkState (sh st) (set_thread (threads st) a (new_thread KAbort)) p')) as Hs.
    { unfold step. cbn [o_ev o_tid]. now rewrite Hf, Hrm. }
    assert (mover st i a) as Hm by (unfold mover; now rewrite Hf).
    eexists a, (EStart KAbort), _. repeat split; try eassumption; try reflexivity.
    destruct (mover_dec r g st i a (EStart KAbort) _ HR Hm eq_refl eq_refl Hs) as [(_ & E & _)|H]; [discriminate E|exact H].
  - destruct (cnt_pos_find liveA _ (inv_nodup _ _ _ I)) as (a & ta & Hfa & Hl); [lia|].
    pose proof (W a ta Hfa) as Hk.
    destruct st as [s ths pend]. destruct s as [cs ws s1 s2 q1 q2 cx dc ab al pk]. cbn [sh threads pending] in *.
    cbn in Hd, Ha. subst dc ab.
    destruct ta as [k p hc]. destruct k, p; try discriminate Hk; try discriminate Hl.
    + ev HR Hfa ERecvDone.
    + ev HR Hfa ESendA.
    + ev HR Hfa ECloseA.
Qed.

(* connSem is taken: its holder, or whoever that one waits for, can move *)
Lemma c_free g st i : Reach r g st -> connsem (sh st) = CEmpty -> good g st i.
Proof.
  intros HR Hc. pose proof (Reach_inv _ _ _ HR) as I. pose proof (Reach_wfk _ _ _ HR) as W.
  pose proof (Reach_xinv _ _ _ HR) as X.
  pose proof (inv_c _ _ _ I) as Ic. unfold ccount_ok in Ic. rewrite Hc in Ic.
  destruct (cnt_pos_find holdsC _ (inv_nodup _ _ _ I)) as (j & tj & Hj & Hh); [lia|].
  pose proof (W j tj Hj) as Hk.
  pose proof (holder_slot_w _ _ _ _ I Hj) as FW.
  pose proof (w_free g st i HR) as WF.
  pose proof (s_free false g st i HR) as SF1. pose proof (s_free true g st i HR) as SF2.
  pose proof (a_free g st i j tj) as AF. specialize (fun hs => AF hs HR Hj).
  pose proof (x_seen _ _ X) as Xs. pose proof (x_dl _ _ X) as Xd.
  destruct st as [s ths pend]. destruct s as [cs ws s1 s2 q1 q2 cx dc ab al pk]. cbn [sh threads pending] in *.
  cbn in FW, WF, SF1, SF2, Hc, AF, Xs, Xd. subst cs.
  destruct tj as [k p hc]. destruct k, p; try discriminate Hk; try discriminate Hh;
  try (apply WF, FW; reflexivity).
  - (* R_ctxchk *) destruct cx.
    + ev HR Hj (ECtx true).
    + ev HR Hj (ECtx false). cbn. destruct (rseen g); [specialize (Xs eq_refl); discriminate|now rewrite andb_false_r].
  - (* R_dial *) ev HR Hj (EIO false).
  - (* R_hs *) ev HR Hj (EIO true).
  - (* R_abortrecv *) destruct dc.
    + destruct ab; [eapply AF; reflexivity|ev HR Hj (ERecvA true)|ev HR Hj (ERecvA false)|ev HR Hj (ERecvA true)].
    + ev HR Hj ECloseDone. cbn. destruct (dlast g); [specialize (Xd eq_refl); discriminate|now rewrite andb_false_r].
  - (* R_failw *) destruct ws as [v| |]; [ev HR Hj ERecvWAny|apply WF; reflexivity|ev HR Hj ERecvWAny].
  - (* R_failcs *) destruct hc; [ev HR Hj (ESendC true)|ev HR Hj (ESendC false)].
  - (* R_seq1 *) destruct s1; [ev HR Hj (ERecvSAny false)|apply SF1; reflexivity|ev HR Hj (ERecvSAny false)].
  - (* R_seq2 *) destruct s2; [ev HR Hj (ERecvSAny true)|apply SF2; reflexivity|ev HR Hj (ERecvSAny true)].
  - (* R_wsem *) destruct ws as [v| |]; [ev HR Hj ERecvWAny|apply WF; reflexivity|ev HR Hj ERecvWAny].
  - (* K_sel *) ev HR Hj EDefault.
  - (* K_recv2 *) destruct ws as [v| |]; [ev HR Hj ERecvWAny|apply WF; reflexivity|ev HR Hj ERecvWAny].
  - (* K_closec *) ev HR Hj ECloseC.
  - (* D_sel *) destruct ws as [v| |]; [destruct v; [ev HR Hj (ERecvW true WvPend)|ev HR Hj (ERecvW true WvDown)|ev HR Hj (ERecvW true WvConn)]
                                        |apply WF; reflexivity|ev HR Hj EQuit].
  - (* D_quitrecv *) destruct ws as [v| |]; [ev HR Hj ERecvWAny|apply WF; reflexivity|ev HR Hj ERecvWAny].
  - (* D_closec *) ev HR Hj ECloseC.
Qed.


(* MAIN STEP: a goroutine inside a call (not a Publish-like request) has not returned: then some goroutine
   - the awaited one, or the one it transitively waits for - has an enabled faithful event that
   decreases the potential *)
Lemma progress g st i t : Reach r g st -> find_thread (threads st) i = Some t -> restartable t = false ->
  t_kind t <> KWrite -> good g st i.
Proof.
  intros HR Hi Hnr Hkw. pose proof (Reach_inv _ _ _ HR) as I. pose proof (Reach_wfk _ _ _ HR) as W.
  pose proof (Reach_xinv _ _ _ HR) as X.
  pose proof (W i t Hi) as Hk.
  pose proof (holder_slot_w _ _ _ _ I Hi) as FW.
  pose proof (holder_slot_c _ _ _ _ I Hi) as FC.
  pose proof (fun l => holder_slot_s _ _ _ _ l I Hi) as FS.
  pose proof (w_free g st i HR) as WF. pose proof (c_free g st i HR) as CF.
  pose proof (fun l => s_free l g st i HR) as SF.
  destruct (inv_t _ _ _ I i t Hi) as [Hti _]. destruct (tinv_split _ _ _ Hti) as (_ & _ & _ & _ & HtA).
  pose proof (x_seen _ _ X) as Xs. pose proof (x_dl _ _ X) as Xd.
  pose proof (inv_r _ _ _ I) as Ir. pose proof (cnt_found liveA _ _ _ Hi) as BA.
  destruct st as [s ths pend]. destruct s as [cs ws s1 s2 q1 q2 cx dc ab al pk]. cbn [sh threads pending] in *.
  cbn in FW, FC, FS, WF, CF, SF, Xs, Xd. unfold tA, aEmpty, aOpen in HtA. cbn in HtA. unfold nA in Ir. cbn [sh threads pending] in Ir.
  destruct t as [k p hc]. destruct k, p; try discriminate Hk; try discriminate Hnr; try (exfalso; apply Hkw; reflexivity);
  try (apply WF, FW; reflexivity); try (apply CF, FC; reflexivity).
  - (* P_seq *) destruct level.
    + destruct s2; [ev HR Hi (ERecvS true true)|apply (SF true); reflexivity|ev HR Hi (ERecvS true false)].
    + destruct s1; [ev HR Hi (ERecvS false true)|apply (SF false); reflexivity|ev HR Hi (ERecvS false false)].
  - apply (SF level), FS. cbn. apply eqb_reflx.
  - apply (SF level), FS. cbn. apply eqb_reflx.
  - apply (SF level), FS. cbn. apply eqb_reflx.
  - (* R_off *) ev HR Hi EDefault.
  - (* R_offwait *) destruct ws as [v| |]; [ev HR Hi (ERecvW true WvPend)|apply WF; reflexivity|ev HR Hi (ERecvW false WvPend)].
  - (* R_term *) ev HR Hi ERet.
  - (* T_seq *) destruct level.
    + destruct s2; [ev HR Hi (ERecvS true true)|apply (SF true); reflexivity|ev HR Hi (ERecvS true false)].
    + destruct s1; [ev HR Hi (ERecvS false true)|apply (SF false); reflexivity|ev HR Hi (ERecvS false false)].
  - apply (SF level), FS. cbn. apply eqb_reflx.
  - (* T_closeq *) destruct level; [destruct q2; ev HR Hi (ECloseQ true)|destruct q1; ev HR Hi (ECloseQ false)].
  - (* A_sel *) destruct cx; [ev HR Hi (ECtx true)|]. destruct dc; [ev HR Hi ERecvDone|].
    cbn in BA. assert (rseen g = false) as Hrs by (destruct (rseen g); [specialize (Xs eq_refl); discriminate|reflexivity]).
    unfold rinv in Ir. destruct (find_thread ths r) as [u|] eqn:Hr; [|specialize (Ir Hrs); lia].
    pose proof (W r u Hr) as Hku. cbn in Hku.
    destruct (rd u) eqn:Eu; [|specialize (Ir Hrs); lia].
    destruct Ir as (_ & _ & _ & Ir). specialize (Ir Hrs).
    destruct u as [ku pu hcu]. destruct ku; try discriminate Eu.
    destruct pu; try discriminate Hku; try (specialize (Ir eq_refl); lia).
    + ev HR Hr (EIO true).
    + ev HR Hr ECloseDone. cbn. destruct (dlast g); [specialize (Xd eq_refl); discriminate|now rewrite andb_false_r].
  - (* A_send *) destruct ab; try discriminate HtA. ev HR Hi ESendA.
  - (* A_close *) destruct ab; ev HR Hi ECloseA.
  - (* K_cancel *) ev HR Hi ECancel.
  - (* K_csem *) destruct cs as [h| |]; [destruct h; [ev HR Hi (ERecvC true true)|ev HR Hi (ERecvC true false)]
                                        |apply CF; reflexivity|ev HR Hi (ERecvC false false)].
  - (* D_cancel *) ev HR Hi ECancel.
  - (* D_csem *) destruct cs as [h| |]; [destruct h; [ev HR Hi (ERecvC true true)|ev HR Hi (ERecvC true false)]
                                        |apply CF; reflexivity|ev HR Hi (ERecvC false false)].
Qed.


(* ================= 4. the game is won from every reachable state ================= *)

Theorem must_return_all i : forall n g st t, Reach r g st -> find_thread (threads st) i = Some t ->
  t_kind t <> KWrite -> Mu st i <= n -> must_return r i n g st.
Proof.
  induction n as [|n IH]; intros g st t HR Hi Hk Hn.
  - destruct (restartable t) eqn:Er; [left; exists t; auto|].
    destruct (progress g st i t HR Hi Er Hk) as (j & e & st' & _ & _ & _ & _ & Hlt). lia.
  - destruct (restartable t) eqn:Er; [left; exists t; auto|]. right.
    destruct (progress g st i t HR Hi Er Hk) as (j & e & st' & Hm & Ho & Hf & Hs & Hlt).
    exists j. split.
    + exists e, st'. repeat split; auto.
      destruct (step_keeps _ _ _ _ _ _ Hs Ho Hi) as (t' & Hi' & Hk' & _).
      apply (IH _ _ t'); auto; [eapply Reach_step; eauto|congruence|lia].
    + intros e0 st0 A B C.
      destruct (mover_dec r g st i j e0 st0 HR Hm A B C) as [(-> & _)|Hd]; [now left|right].
      destruct (step_keeps _ _ _ _ _ _ C A Hi) as (t' & Hi' & Hk' & _).
      apply (IH _ _ t'); auto; [eapply Reach_step; eauto|congruence|lia].
Qed.

End Moves.

(* ================= 5. the potential is bounded by a constant ================= *)

Lemma find_thread_key l j u : find_thread l j = Some u -> In j (map fst l).
Proof.
  induction l as [|[k v] l IH]; cbn; [discriminate|].
  destruct (N.eqb k j) eqn:E; [left; now apply N.eqb_eq|right; auto].
Qed.

Lemma hw_bound t : wfk t = true ->
  hw t <= 19 * b2n (holdsC t) + 5 * b2n (holdsS false t) + 5 * b2n (holdsS true t) + 3 * b2n (holdsW t)
          + 3 * b2n (liveA t) + b2n (atCloseq false t) + b2n (atCloseq true t).
Proof.
  destruct t as [k p hc]. destruct k as [|[]| |[]| | |], p; cbn; intros H; try discriminate H; lia.
Qed.

Lemma sumw_bound l : NoDup (map fst l) -> (forall j u, find_thread l j = Some u -> wfk u = true) ->
  sumw hw l <= 19 * cnt holdsC l + 5 * cnt (holdsS false) l + 5 * cnt (holdsS true) l + 3 * cnt holdsW l
               + 3 * cnt liveA l + cnt (atCloseq false) l + cnt (atCloseq true) l.
Proof.
  induction l as [|[k u] l IH]; cbn; [lia|]. intros Hnd Hw. inversion Hnd as [|? ? Hnin Hnd']; subst.
  assert (wfk u = true) as Hu by (apply (Hw k); now rewrite N.eqb_refl).
  pose proof (hw_bound u Hu).
  assert (forall j v, find_thread l j = Some v -> wfk v = true) as Hw'.
  { intros j v Hj. apply (Hw j). destruct (N.eqb k j) eqn:E; [|exact Hj].
    apply N.eqb_eq in E. subst. exfalso. apply Hnin. eapply find_thread_key; eauto. }
  specialize (IH Hnd' Hw'). lia.
Qed.

Section Bounds.
Variable r : N.

Theorem Phi_bound g st : Reach r g st -> Phi st <= 39.
Proof.
  intros HR. pose proof (Reach_inv _ _ _ HR) as I. pose proof (Reach_wfk _ _ _ HR) as W.
  pose proof (sumw_bound _ (inv_nodup _ _ _ I) W) as B.
  pose proof (ccount_le1 _ _ (inv_c _ _ _ I)). pose proof (wcount_le1 _ _ (inv_w _ _ _ I)).
  pose proof (scount_le1 _ _ _ (inv_s _ _ _ I false)). pose proof (scount_le1 _ _ _ (inv_s _ _ _ I true)).
  destruct (inv_a _ _ _ I) as [A _]. unfold nA in A.
  assert (forall l, cnt (atCloseq l) (threads st) <= 1) as Q.
  { intros l. pose proof (inv_q _ _ _ I l) as Iq. unfold qcount_ok in Iq. destruct (get_seq (sh st) l); lia. }
  pose proof (Q false). pose proof (Q true).
  unfold Phi, dn. destruct (negb (done_closed (sh st))); cbn [b2n]; lia.
Qed.

Lemma tw_bound t : wfk t = true ->
  tw t <= match t_kind t with KClose => 6 | KDisc => 7 | KPersist _ => 6 | KRead | KTerm _ => 3 | _ => 0 end.
Proof. destruct t as [k p hc]. destruct k, p; cbn; intros H; try discriminate H; lia. Qed.

Lemma Mu_bound g st i t : Reach r g st -> find_thread (threads st) i = Some t ->
  Mu st i <= 39 + match t_kind t with KClose => 6 | KDisc => 7 | KPersist _ => 6 | KRead | KTerm _ => 3 | _ => 0 end.
Proof.
  intros HR Hi. pose proof (Phi_bound _ _ HR). pose proof (tw_bound t (Reach_wfk _ _ _ HR i t Hi)).
  unfold Mu, twi. rewrite Hi. lia.
Qed.

Lemma Reach_run evs : forall g st st', Reach r g st -> faithful r g evs = true -> run st evs = Some st' ->
  Reach r (ghost_run r g evs) st'.
Proof.
  induction evs as [|o evs IH]; cbn; intros g st st' HR Hf Hr.
  - now injection Hr as <-.
  - apply andb_true_iff in Hf. destruct Hf as [F1 F2]. destruct (step st o) as [st1|] eqn:Es; [|discriminate].
    eapply IH; [|exact F2|exact Hr]. eapply Reach_step; eauto.
Qed.

Lemma run_keeps evs : forall st st' i t, forallb (fun o => okev (o_ev o)) evs = true -> run st evs = Some st' ->
  find_thread (threads st) i = Some t -> exists t', find_thread (threads st') i = Some t' /\ t_kind t' = t_kind t.
Proof.
  induction evs as [|[j e] evs IH]; cbn; intros st st' i t Ho Hr Hi.
  - injection Hr as <-. eauto.
  - apply andb_true_iff in Ho. destruct Ho as [O1 O2].
    destruct (step st (mkObs j e)) as [st1|] eqn:Es; [|discriminate].
    destruct (step_keeps _ _ _ _ _ _ Es O1 Hi) as (t1 & H1 & K1 & _).
    destruct (IH _ _ _ _ O2 Hr H1) as (t' & H' & K'). exists t'. split; [exact H'|congruence].
Qed.

(* the goroutine i has finished the call / the goroutine has ended *)
Definition finished (st : state) (i : N) (k : kind) : Prop :=
  exists t, find_thread (threads st) i = Some t /\ t_kind t = k /\ restartable t = true.

Lemma finished_pc st i k : WfK st -> finished st i k ->
  exists t, find_thread (threads st) i = Some t /\ t_kind t = k /\
    t_pc t = match k with KRead => R_idle | KTerm _ => T_done | KAbort => A_done | _ => Done end.
Proof.
  intros W (t & Hi & Hk & Hr). exists t. repeat split; auto. pose proof (W i t Hi) as Hw.
  destruct t as [k0 p hc]. cbn in Hk. subst k0. destruct k, p; try discriminate Hw; try discriminate Hr; reflexivity.
Qed.

(* schedules: existential form, for every kind of call except the Publish-like requests *)
Theorem returns_within st i t : reachable r st -> find_thread (threads st) i = Some t -> t_kind t <> KWrite ->
  exists evs st',
    length evs <= 39 + match t_kind t with KClose => 6 | KDisc => 7 | KPersist _ => 6 | KRead | KTerm _ => 3 | _ => 0 end /\
    forallb (fun o => okev (o_ev o)) evs = true /\
    run st evs = Some st' /\ reachable r st' /\ finished st' i (t_kind t).
Proof.
  intros HR0 Hi Hk. destruct (reachable_Reach r st HR0) as (g & HR).
  pose proof (must_return_all r i _ g st t HR Hi Hk (Mu_bound _ _ _ _ HR Hi)) as Hm.
  destruct (must_return_schedule r i _ g st Hm) as (evs & st' & L & A & B & C & (t' & D1 & D2)).
  exists evs, st'. repeat split; auto.
  - eapply Reach_reachable. eapply Reach_run; eauto.
  - destruct (run_keeps _ _ _ _ _ A C Hi) as (t2 & H2 & K2). rewrite D1 in H2. injection H2 as <-.
    exists t'. auto.
Qed.

End Bounds.

(* ================= 6. the named corollaries ================= *)

Section Corollaries.
Variable r : N.

Definition at_pc (st : state) (i : N) (k : kind) (p : pc) : Prop :=
  exists t, find_thread (threads st) i = Some t /\ t_kind t = k /\ t_pc t = p.

Lemma returns_pc st i t n : reachable r st -> find_thread (threads st) i = Some t -> t_kind t <> KWrite ->
  39 + match t_kind t with KClose => 6 | KDisc => 7 | KPersist _ => 6 | KRead | KTerm _ => 3 | _ => 0 end <= n ->
  exists evs st', length evs <= n /\ forallb (fun o => okev (o_ev o)) evs = true /\
    run st evs = Some st' /\ reachable r st' /\
    at_pc st' i (t_kind t)
      match t_kind t with KRead => R_idle | KTerm _ => T_done | KAbort => A_done | _ => Done end.
Proof.
  intros HR Hi Hk Hn. destruct (returns_within r st i t HR Hi Hk) as (evs & st' & L & A & B & C & D).
  exists evs, st'. repeat split; auto; [lia|].
  destruct C as (tr & Hf & Hr). apply (finished_pc st' i (t_kind t)); auto. eapply reachable_wfk; eauto.
Qed.

(* C12: Close returns within 45 enabled events, from every reachable state, whatever the other goroutines
   are doing (no new API call is needed, no quit, no cooperation of the application) *)
Theorem close_returns st i t : reachable r st -> find_thread (threads st) i = Some t -> t_kind t = KClose ->
  exists evs st', length evs <= 45 /\ forallb (fun o => okev (o_ev o)) evs = true /\
    run st evs = Some st' /\ reachable r st' /\ at_pc st' i KClose Done.
Proof.
  intros HR Hi Hk. destruct (returns_pc st i t 45 HR Hi) as (evs & st' & H); [congruence|rewrite Hk; lia|].
  rewrite Hk in H. eauto.
Qed.

(* C12: Disconnect returns within 46 enabled events; [EQuit] is enabled but never needed (quit may be nil) *)
Theorem disconnect_returns st i t : reachable r st -> find_thread (threads st) i = Some t -> t_kind t = KDisc ->
  exists evs st', length evs <= 46 /\ forallb (fun o => okev (o_ev o)) evs = true /\
    run st evs = Some st' /\ reachable r st' /\ at_pc st' i KDisc Done.
Proof.
  intros HR Hi Hk. destruct (returns_pc st i t 46 HR Hi) as (evs & st' & H); [congruence|rewrite Hk; lia|].
  rewrite Hk in H. eauto.
Qed.

(* C10: the read routine is back at the top of ReadSlices (connect / toOffline / its own write / termCallbacks
   finished) within 42 enabled events *)
Theorem read_routine_returns st i t : reachable r st -> find_thread (threads st) i = Some t -> t_kind t = KRead ->
  exists evs st', length evs <= 42 /\ forallb (fun o => okev (o_ev o)) evs = true /\
    run st evs = Some st' /\ reachable r st' /\ at_pc st' i KRead R_idle.
Proof.
  intros HR Hi Hk. destruct (returns_pc st i t 42 HR Hi) as (evs & st' & H); [congruence|rewrite Hk; lia|].
  rewrite Hk in H. eauto.
Qed.

(* a persisted publish (submitPersisted) returns within 45 enabled events *)
Theorem persist_returns st i t l : reachable r st -> find_thread (threads st) i = Some t -> t_kind t = KPersist l ->
  exists evs st', length evs <= 45 /\ forallb (fun o => okev (o_ev o)) evs = true /\
    run st evs = Some st' /\ reachable r st' /\ at_pc st' i (KPersist l) Done.
Proof.
  intros HR Hi Hk. destruct (returns_pc st i t 45 HR Hi) as (evs & st' & H); [congruence|rewrite Hk; lia|].
  rewrite Hk in H. eauto.
Qed.

(* no goroutine leak: the termCallbacks goroutines and the abort goroutine end *)
Theorem term_goroutine_ends st i t l : reachable r st -> find_thread (threads st) i = Some t -> t_kind t = KTerm l ->
  exists evs st', length evs <= 42 /\ forallb (fun o => okev (o_ev o)) evs = true /\
    run st evs = Some st' /\ reachable r st' /\ at_pc st' i (KTerm l) T_done.
Proof.
  intros HR Hi Hk. destruct (returns_pc st i t 42 HR Hi) as (evs & st' & H); [congruence|rewrite Hk; lia|].
  rewrite Hk in H. eauto.
Qed.
Theorem abort_goroutine_ends st i t : reachable r st -> find_thread (threads st) i = Some t -> t_kind t = KAbort ->
  exists evs st', length evs <= 39 /\ forallb (fun o => okev (o_ev o)) evs = true /\
    run st evs = Some st' /\ reachable r st' /\ at_pc st' i KAbort A_done.
Proof.
  intros HR Hi Hk. destruct (returns_pc st i t 39 HR Hi) as (evs & st' & H); [congruence|rewrite Hk; lia|].
  rewrite Hk in H. eauto.
Qed.

(* the game form (ALL outcomes of the designated goroutine), with the constant bounds *)
Theorem close_must_return g st i t : Reach r g st -> find_thread (threads st) i = Some t -> t_kind t = KClose ->
  must_return r i 45 g st.
Proof.
  intros HR Hi Hk. apply (must_return_all r i 45 g st t HR Hi); [congruence|].
  pose proof (Mu_bound r g st i t HR Hi) as B. rewrite Hk in B. exact B.
Qed.
Theorem disconnect_must_return g st i t : Reach r g st -> find_thread (threads st) i = Some t -> t_kind t = KDisc ->
  must_return r i 46 g st.
Proof.
  intros HR Hi Hk. apply (must_return_all r i 46 g st t HR Hi); [congruence|].
  pose proof (Mu_bound r g st i t HR Hi) as B. rewrite Hk in B. exact B.
Qed.
Theorem read_routine_must_return g st i t : Reach r g st -> find_thread (threads st) i = Some t -> t_kind t = KRead ->
  must_return r i 42 g st.
Proof.
  intros HR Hi Hk. apply (must_return_all r i 42 g st t HR Hi); [congruence|].
  pose proof (Mu_bound r g st i t HR Hi) as B. rewrite Hk in B. exact B.
Qed.

End Corollaries.

(* ================= 7. holders of tokens ================= *)

(* ALL outcomes: every accepted (non-panicking) event of a goroutine that holds a token - or of a live abort
   goroutine - brings it strictly nearer to having released everything; its weight is at most 19 *)
Theorem holder_step s t e s' t' ks : tstep s t e = Some (s', t', ks) -> panicked s' = false -> 0 < hw t ->
  (e = ECtx false /\ t_pc t = P_have /\ s' = s /\ t' = t /\ ks = []) \/
  hw t' + 4 * cntk ks + dn s' < hw t + dn s.
Proof.
  intros H Hp Hw. pose proof (hw_tw_excl _ Hw) as E.
  assert (0 < hw t + tw t) as Hpos by lia.
  destruct (L_dec _ _ _ _ _ _ H Hp Hpos) as [?|?]; [now left|right; lia].
Qed.
Lemma holds_weight x t : wfk t = true -> holds x t = true -> 0 < hw t.
Proof.
  destruct t as [k p hc]. destruct x as [|l|]; cbn; destruct k as [|[]| |[]| | |], p; cbn; intros H1 H2;
  try discriminate H1; try discriminate H2; try lia; destruct l; discriminate H2.
Qed.
Lemma weight_le t : wfk t = true -> hw t <= 19.
Proof. destruct t as [k p hc]. destruct k, p; cbn; intros H; try discriminate H; lia. Qed.

Section Holders.
Variable r : N.

(* a goroutine with positive weight is never stuck for good: it, or the one it waits for, can move *)
Theorem holder_progress g st j t : Reach r g st -> find_thread (threads st) j = Some t -> 0 < hw t -> good r g st j.
Proof.
  intros HR Hj Hw. pose proof (Reach_wfk _ _ _ HR j t Hj) as Hk.
  assert (restartable t = false) as Hnr by (destruct t as [k p hc]; destruct p; cbn in *; try lia; reflexivity).
  destruct (t_kind t) eqn:Ek; try (apply (progress r g st j t HR Hj Hnr); congruence).
  apply w_free; [exact HR|]. apply (holder_slot_w r g st j t (Reach_inv _ _ _ HR) Hj).
  destruct t as [k p hc]. cbn in Ek. subst k. destruct p; try discriminate Hk; cbn in *; try lia; reflexivity.
Qed.

Definition all_free (s : shared) : Prop :=
  connsem s <> CEmpty /\ writesem s <> WEmpty /\ seq1 s <> SEmpty /\ seq2 s <> SEmpty.

Lemma release_aux : forall n g st, Reach r g st -> Phi st <= n ->
  exists evs st', length evs <= n /\ forallb (fun o => okev (o_ev o)) evs = true /\ faithful r g evs = true /\
    run st evs = Some st' /\ all_free (sh st').
Proof.
  induction n as [|n IH]; intros g st HR Hn.
  all: assert (all_free (sh st) \/ exists i, find_thread (threads st) i = None /\ good r g st i) as [Hfree|(i & Hi & Hg)].
  1,4: destruct (fresh_tid (threads st)) as (i & Hi);
       destruct (connsem (sh st)) eqn:Ec; [|right; exists i; split; [exact Hi|now apply c_free]|];
       (destruct (writesem (sh st)) eqn:Ew; [|right; exists i; split; [exact Hi|now apply w_free]|]);
       (destruct (seq1 (sh st)) eqn:E1; [|right; exists i; split; [exact Hi|now apply (s_free r false)]|]);
       (destruct (seq2 (sh st)) eqn:E2; [|right; exists i; split; [exact Hi|now apply (s_free r true)]|]);
       left; unfold all_free; rewrite Ec, Ew, E1, E2; repeat split; discriminate.
  1,3: exists [], st; cbn; split; [lia|]; repeat (split; [reflexivity|]); exact Hfree.
  all: destruct Hg as (j & e & st' & Hm & Ho & Hf & Hs & Hlt); unfold Mu in Hlt; unfold twi at 2 in Hlt; rewrite Hi in Hlt.
  - lia.
  - assert (Phi st' <= n) as Hn' by lia.
    destruct (IH _ st' (Reach_step r g st _ st' HR Hf Hs) Hn') as (evs & st2 & L & A & B & C & D).
    exists (mkObs j e :: evs), st2. cbn. rewrite Hs, Hf, Ho, A. split; [lia|]. repeat (split; [reflexivity || assumption|]). exact D.
Qed.

(* item 2: all four semaphores are available again within 39 enabled events of their holders (and of the
   goroutines those wait for): nobody keeps a token for ever *)
Theorem tokens_released st : reachable r st ->
  exists evs st', length evs <= 39 /\ forallb (fun o => okev (o_ev o)) evs = true /\
    run st evs = Some st' /\ reachable r st' /\ all_free (sh st').
Proof.
  intros HR0. destruct (reachable_Reach r st HR0) as (g & HR).
  destruct (release_aux 39 g st HR (Phi_bound r g st HR)) as (evs & st' & L & A & B & C & D).
  exists evs, st'. split; [exact L|]. split; [exact A|]. split; [exact C|]. split; [|exact D].
  eapply Reach_reachable. eapply Reach_run; eauto.
Qed.

End Holders.

(* ================= 8. Publish-like requests (lockWrite) ================= *)

(* A request waits, by design, while writeSem holds connPending and the client is not closed (W_wait with
   the context alive: until Online, a tick, or its quit).  Everything else is bounded: within 43 enabled
   events - none of them the request's own quit - it has returned, or it sits at that designed wait. *)
Definition tw' (t : thread) : nat := match t_pc t with W_lock => 4 | W_wait => 1 | _ => 0 end.
Definition isQuit (e : ev) : bool := match e with EQuit => true | _ => false end.
Definition noquit (i : N) (o : obs) : bool := negb (N.eqb (o_tid o) i && isQuit (o_ev o)).

Definition request_settled (st : state) (i : N) : Prop :=
  exists t, find_thread (threads st) i = Some t /\ t_kind t = KWrite /\
            (t_pc t = Done \/ (t_pc t = W_wait /\ ctx (sh st) = false)).

Section Requests.
Variable r : N.

Lemma own_step g st i t e s' t' ks : Reach r g st -> find_thread (threads st) i = Some t ->
  tstep (sh st) t e = Some (s', t', ks) -> nospawn e = true -> ghost_ok (N.eqb i r) g e = true ->
  let st' := mkState s' (set_thread (threads st) i t') (pending st ++ ks) in
  step st (mkObs i e) = Some st' /\ faithful_step r g (mkObs i e) = true /\
  Reach r (ghost_step r g (mkObs i e)) st' /\
  find_thread (threads st') i = Some t' /\
  Phi st' + hw t + dn (sh st) = Phi st + hw t' + 4 * cntk ks + dn s'.
Proof.
  intros HR Hi Ht He Hg st'. pose proof (step_tstep st i e t s' t' ks He Hi Ht) as Hs.
  repeat split; auto.
  - eapply Reach_step; eauto.
  - apply find_set_same.
  - unfold Phi, st'. cbn [sh threads pending]. rewrite cntk_app.
    pose proof (sumw_set_some hw _ _ _ t' Hi). lia.
Qed.

Lemma request_aux i : forall n g st t, Reach r g st -> find_thread (threads st) i = Some t -> t_kind t = KWrite ->
  Phi st + tw' t <= n ->
  exists evs st', length evs <= n /\ forallb (fun o => okev (o_ev o) && noquit i o) evs = true /\
    faithful r g evs = true /\ run st evs = Some st' /\ request_settled st' i.
Proof.
  induction n as [|n IH]; intros g st t HR Hi Hk Hn.
  all: pose proof (Reach_wfk _ _ _ HR i t Hi) as Hw;
       pose proof (holder_slot_w r g st i t (Reach_inv _ _ _ HR) Hi) as FW;
       pose proof (w_free r g st i HR) as WF;
       assert (Hstop : forall m, (t_pc t = Done \/ (t_pc t = W_wait /\ ctx (sh st) = false)) ->
          exists evs st', length evs <= m /\ forallb (fun o => okev (o_ev o) && noquit i o) evs = true /\
            faithful r g evs = true /\ run st evs = Some st' /\ request_settled st' i)
         by (intros m Hd; exists [], st; cbn; repeat split; auto; [lia|exists t; auto]).
  - (* no budget: must be settled already *)
    assert (forall l j u, find_thread l j = Some u -> hw u <= sumw hw l) as S.
    { clear. induction l as [|[k v] l IHl]; cbn; [discriminate|]. intros j u. destruct (N.eqb k j); [intros [= ->]; lia|].
      intros H. specialize (IHl _ _ H). lia. }
    specialize (S _ _ _ Hi). unfold Phi in Hn.
    destruct t as [k p hc]. cbn in Hk. subst k. destruct p; try discriminate Hw; cbn in Hn, S; try lia.
    apply Hstop. left. reflexivity.
  - assert (Hgo : forall e s' t' ks, tstep (sh st) t e = Some (s', t', ks) -> nospawn e = true -> gsafe e = true ->
              isQuit e = false -> t_kind t' = KWrite ->
              hw t' + tw' t' + 4 * cntk ks + dn s' < hw t + tw' t + dn (sh st) ->
              exists evs st', length evs <= S n /\ forallb (fun o => okev (o_ev o) && noquit i o) evs = true /\
                faithful r g evs = true /\ run st evs = Some st' /\ request_settled st' i).
    { intros e s' t' ks Ht He Hg Hq Hk' Hlt.
      destruct (own_step g st i t e s' t' ks HR Hi Ht He (gsafe_ok _ _ _ Hg)) as (Hs & Hf & HR' & Hi' & HP).
      assert (Phi (mkState s' (set_thread (threads st) i t') (pending st ++ ks)) + tw' t' <= n) as Hn' by lia.
      destruct (IH _ _ t' HR' Hi' Hk' Hn') as (evs & st2 & L & A & B & C & D).
      exists (mkObs i e :: evs), st2. cbn [length forallb faithful run o_ev o_tid]. rewrite Hs, Hf, A.
      assert (okev e = true) as -> by (destruct e; try discriminate He; reflexivity).
      unfold noquit. cbn [o_ev o_tid]. rewrite Hq, andb_false_r. cbn. repeat split; auto; lia. }
    destruct st as [s ths pend]. destruct s as [cs ws s1 s2 q1 q2 cx dc ab al pk]. cbn [sh threads pending] in *.
    cbn in FW, WF.
    destruct t as [k p hc]. cbn in Hk. subst k. destruct p; try discriminate Hw; cbn [tw' hw t_pc] in Hn.
    + (* W_lock *) destruct ws as [v| |].
      * destruct v; [eapply (Hgo (ERecvW true WvPend))|eapply (Hgo (ERecvW true WvDown))|eapply (Hgo (ERecvW true WvConn))];
        try (cbv; reflexivity); unfold dn; cbn; lia.
      * (* taken: the holder moves *)
        destruct (WF eq_refl) as (j & e & st' & Hm & Ho & Hf & Hs & Hlt).
        assert (j <> i) as Hne.
        { intros ->. unfold mover in Hm. cbn [threads] in Hm. rewrite Hi in Hm. cbn in Hm. lia. }
        destruct (step_keeps _ _ _ _ _ _ Hs Ho Hi) as (t' & Hi' & Hk' & Hsame). specialize (Hsame (not_eq_sym Hne)). subst t'.
        unfold Mu, twi in Hlt. cbn [threads] in Hlt. rewrite Hi, Hi' in Hlt.
        assert (Phi st' + tw' {| t_kind := KWrite; t_pc := W_lock; t_hasconn := hc |} <= n) as Hn' by (cbn; cbn in Hn, Hlt; lia).
        destruct (IH _ st' _ (Reach_step r g _ _ st' HR Hf Hs) Hi' eq_refl Hn') as (evs & st2 & L & A & B & C & D).
        exists (mkObs j e :: evs), st2. cbn [length forallb faithful run o_ev o_tid]. rewrite Hs, Hf, Ho, A.
        unfold noquit. cbn [o_ev o_tid]. apply N.eqb_neq in Hne. rewrite Hne. cbn. repeat split; auto; lia.
      * eapply (Hgo (ERecvW false WvPend)); try (cbv; reflexivity); unfold dn; cbn; lia.
    + (* W_hold *) specialize (FW eq_refl). subst ws.
      destruct v; [eapply (Hgo (ESendW WvPend))|eapply (Hgo (ESendW WvDown))|eapply (Hgo (EIO true))];
      try (cbv; reflexivity); unfold dn; cbn; lia.
    + (* W_wait *) destruct cx; [|apply Hstop; right; auto].
      eapply (Hgo (ECtx true)); try (cbv; reflexivity); unfold dn; cbn; lia.
    + (* W_unlock *) specialize (FW eq_refl). subst ws.
      destruct ok; [eapply (Hgo (ESendW WvConn))|eapply (Hgo (ESendW WvPend))]; try (cbv; reflexivity); unfold dn; cbn; lia.
    + apply Hstop. left. reflexivity.
Qed.

Theorem request_settles st i t : reachable r st -> find_thread (threads st) i = Some t -> t_kind t = KWrite ->
  exists evs st', length evs <= 43 /\ forallb (fun o => okev (o_ev o) && noquit i o) evs = true /\
    run st evs = Some st' /\ reachable r st' /\ request_settled st' i.
Proof.
  intros HR0 Hi Hk. destruct (reachable_Reach r st HR0) as (g & HR).
  assert (tw' t <= 4) as B by (destruct t as [k p hc]; destruct p; cbn; lia).
  pose proof (Phi_bound r g st HR) as P.
  destruct (request_aux i 43 g st t HR Hi Hk) as (evs & st' & L & A & F & C & D); [lia|].
  exists evs, st'. split; [exact L|]. split; [exact A|]. split; [exact C|]. split; [|exact D].
  eapply Reach_reachable. eapply Reach_run; eauto.
Qed.

End Requests.

(* ================= 9. what a blocked goroutine waits for ================= *)

Definition slot_empty (s : shared) (x : res) : Prop :=
  match x with RC => connsem s = CEmpty | RS l => get_seq s l = SEmpty | RW => writesem s = WEmpty end.

Section Blocked.
Variable r : N.

(* an event the goroutine can perform now without leaving the faithful traces (in particular without panic) *)
Definition enabledF (g : ghost) (st : state) (i : N) (e : ev) : Prop :=
  faithful_step r g (mkObs i e) = true /\ enabled st i e.
Definition blocked (g : ghost) (st : state) (i : N) : Prop :=
  exists t, find_thread (threads st) i = Some t /\ restartable t = false /\ forall e, ~ enabledF g st i e.

(* the three ways of being blocked: on a token held by ANOTHER goroutine (a wait-for edge of SyncProofs, whose
   target has positive weight, hence can move or waits itself for a token of higher rank); the read routine on
   the abort channel while the abort goroutine is still there; the abort goroutine on ctx/done while the read
   routine is in the handshake *)
Definition waits_for (st : state) (i : N) (t : thread) : Prop :=
  (exists x j tj, waitsOn t x = true /\ slot_empty (sh st) x /\ j <> i /\
      find_thread (threads st) j = Some tj /\ holds x tj = true /\ 0 < hw tj)
  \/ (exists hs, t_kind t = KRead /\ t_pc t = R_abortrecv hs /\ done_closed (sh st) = true /\
        abort (sh st) = AEmpty /\ abort_live (sh st) = true)
  \/ (t_kind t = KAbort /\ t_pc t = A_sel /\ ctx (sh st) = false /\ done_closed (sh st) = false /\
        exists u, find_thread (threads st) r = Some u /\ rd u = true /\ inH u = true).

Lemma holder_of g st x : Reach r g st -> slot_empty (sh st) x ->
  exists j tj, find_thread (threads st) j = Some tj /\ holds x tj = true /\ 0 < hw tj.
Proof.
  intros HR Hx. pose proof (Reach_inv _ _ _ HR) as I. pose proof (Reach_wfk _ _ _ HR) as W.
  assert (1 <= cnt (holds x) (threads st)) as Hc.
  { destruct x as [|l|]; cbn in Hx.
    - pose proof (inv_c _ _ _ I) as H. unfold ccount_ok in H. rewrite Hx in H. change (holds RC) with holdsC. lia.
    - pose proof (inv_s _ _ _ I l) as H. unfold scount_ok in H. rewrite Hx in H. change (holds (RS l)) with (holdsS l). lia.
    - pose proof (inv_w _ _ _ I) as H. unfold wcount_ok in H. rewrite Hx in H. change (holds RW) with holdsW. lia. }
  destruct (cnt_pos_find _ _ (inv_nodup _ _ _ I) Hc) as (j & tj & Hj & Hh).
  exists j, tj. repeat split; auto. eapply holds_weight; eauto.
Qed.

Lemma wait_case g st i t x : Reach r g st -> find_thread (threads st) i = Some t ->
  waitsOn t x = true -> slot_empty (sh st) x -> waits_for st i t.
Proof.
  intros HR Hi Hw Hx. destruct (holder_of g st x HR Hx) as (j & tj & Hj & Hh & Hp).
  left. exists x, j, tj. repeat split; auto.
  intros ->. rewrite Hi in Hj. injection Hj as <-. pose proof (lock_order t x x Hw Hh). lia.
Qed.

Ltac en Hb Hi E :=
  exfalso; apply (Hb E); split;
  [ try reflexivity
  | eexists; eapply step_tstep; [reflexivity|exact Hi|cbv; reflexivity] ].

Theorem blocked_waits_for g st i t : Reach r g st -> find_thread (threads st) i = Some t ->
  restartable t = false -> (forall e, ~ enabledF g st i e) -> waits_for st i t.
Proof.
  intros HR Hi Hnr Hb. pose proof (Reach_inv _ _ _ HR) as I. pose proof (Reach_wfk _ _ _ HR) as W.
  pose proof (Reach_xinv _ _ _ HR) as X.
  pose proof (W i t Hi) as Hk.
  pose proof (holder_slot_w _ _ _ _ _ I Hi) as FW.
  pose proof (holder_slot_c _ _ _ _ _ I Hi) as FC.
  pose proof (fun l => holder_slot_s _ _ _ _ _ l I Hi) as FS.
  pose proof (fun x => wait_case g st i t x HR Hi) as WC.
  destruct (inv_t _ _ _ I i t Hi) as [Hti Hrd]. destruct (tinv_split _ _ _ Hti) as (_ & _ & _ & _ & HtA).
  pose proof (x_seen _ _ X) as Xs. pose proof (x_dl _ _ X) as Xd.
  assert (Xh : forall hs, rd t = true -> t_pc t = R_abortrecv hs -> liveP (sh st) = true).
  { intros hs H1 H2. apply (x_inH _ _ X i t Hi H1). unfold inH. now rewrite H2. }
  pose proof (inv_r _ _ _ I) as Ir. pose proof (cnt_found liveA _ _ _ Hi) as BA.
  unfold faithful_step in Hb. cbn [o_tid o_ev] in Hb.
  destruct st as [s ths pend]. destruct s as [cs ws s1 s2 q1 q2 cx dc ab al pk]. cbn [sh threads pending] in *.
  cbn in FW, FC, FS, WC, Xs, Xd, Xh. unfold tA, aEmpty, aOpen in HtA. cbn in HtA. unfold nA in Ir. cbn [sh threads pending] in Ir.
  destruct t as [k p hc]. destruct k, p; try discriminate Hk; try discriminate Hnr.
  - (* W_lock *) en Hb Hi EQuit.
  - (* W_hold *) specialize (FW eq_refl). subst ws. destruct v; [en Hb Hi (ESendW WvPend)|en Hb Hi (ESendW WvDown)|en Hb Hi (EIO true)].
  - (* W_wait *) en Hb Hi EWake.
  - (* W_unlock *) specialize (FW eq_refl). subst ws. destruct ok; [en Hb Hi (ESendW WvConn)|en Hb Hi (ESendW WvPend)].
  - (* P_seq *) destruct level.
    + destruct s2; [en Hb Hi (ERecvS true true)|apply (WC (RS true)); reflexivity|en Hb Hi (ERecvS true false)].
    + destruct s1; [en Hb Hi (ERecvS false true)|apply (WC (RS false)); reflexivity|en Hb Hi (ERecvS false false)].
  - (* P_have *) en Hb Hi (EIO false).
  - (* P_wsem *) en Hb Hi EDefault.
  - (* P_hold *) specialize (FW eq_refl). subst ws. destruct v; [en Hb Hi (ESendW WvPend)|en Hb Hi (ESendW WvDown)|en Hb Hi (EIO true)].
  - (* P_unlock *) specialize (FW eq_refl). subst ws. destruct ok; [en Hb Hi (ESendW WvConn)|en Hb Hi (ESendW WvPend)].
  - (* P_release *) pose proof (FS level) as F. cbn in F. rewrite eqb_reflx in F. specialize (F eq_refl).
    destruct level; cbn in F; subst; [en Hb Hi (ESendS true)|en Hb Hi (ESendS false)].
  - (* R_ctxchk *) destruct cx; [en Hb Hi (ECtx true)|]. en Hb Hi (ECtx false).
    cbn. destruct (rseen g); [specialize (Xs eq_refl); discriminate|now rewrite andb_false_r].
  - (* R_dial *) en Hb Hi (EIO false).
  - (* R_hs *) en Hb Hi (EIO true).
  - (* R_abortrecv *) destruct dc.
    + destruct ab; [|en Hb Hi (ERecvA true)|en Hb Hi (ERecvA false)|en Hb Hi (ERecvA true)].
      right. left. exists hs_ok. repeat split; auto.
      specialize (Xh hs_ok eq_refl eq_refl). unfold liveP, aOpen in Xh. cbn in Xh. now rewrite orb_false_r in Xh.
    + en Hb Hi ECloseDone. cbn. destruct (dlast g); [specialize (Xd eq_refl); discriminate|now rewrite andb_false_r].
  - (* R_failw *) destruct ws as [v| |]; [en Hb Hi ERecvWAny|apply (WC RW); reflexivity|en Hb Hi ERecvWAny].
  - (* R_faildown *) specialize (FW eq_refl). subst ws. en Hb Hi (ESendW WvDown).
  - (* R_failcs *) specialize (FC eq_refl). subst cs. destruct hc; [en Hb Hi (ESendC true)|en Hb Hi (ESendC false)].
  - (* R_seq1 *) destruct s1; [en Hb Hi (ERecvSAny false)|apply (WC (RS false)); reflexivity|en Hb Hi (ERecvSAny false)].
  - (* R_seq2 *) destruct s2; [en Hb Hi (ERecvSAny true)|apply (WC (RS true)); reflexivity|en Hb Hi (ERecvSAny true)].
  - (* R_wsem *) destruct ws as [v| |]; [en Hb Hi ERecvWAny|apply (WC RW); reflexivity|en Hb Hi ERecvWAny].
  - (* R_cssend *) specialize (FC eq_refl). subst cs. en Hb Hi (ESendC true).
  - (* R_resend1 *) en Hb Hi (EIO true).
  - (* R_seq1back *) specialize (FS false eq_refl). cbn in FS. subst s1. en Hb Hi (ESendS false).
  - (* R_resend2 *) en Hb Hi (EIO true).
  - (* R_seq2back *) specialize (FS true eq_refl). cbn in FS. subst s2. en Hb Hi (ESendS true).
  - (* R_resendfail *) specialize (FW eq_refl). subst ws. en Hb Hi (ESendW WvDown).
  - (* R_online *) specialize (FW eq_refl). subst ws. en Hb Hi (ESendW WvConn).
  - (* R_ackhold *) specialize (FW eq_refl). subst ws. destruct v; [en Hb Hi (ESendW WvPend)|en Hb Hi (ESendW WvDown)|en Hb Hi (EIO true)].
  - (* R_ackunlock *) specialize (FW eq_refl). subst ws. destruct ok; [en Hb Hi (ESendW WvConn)|en Hb Hi (ESendW WvPend)].
  - (* R_off *) en Hb Hi EDefault.
  - (* R_offwait *) destruct ws as [v| |]; [en Hb Hi (ERecvW true WvPend)|apply (WC RW); reflexivity|en Hb Hi (ERecvW false WvPend)].
  - (* R_offput *) specialize (FW eq_refl). subst ws. en Hb Hi (ESendW WvPend).
  - (* R_term *) en Hb Hi ERet.
  - (* T_seq *) destruct level.
    + destruct s2; [en Hb Hi (ERecvS true true)|apply (WC (RS true)); reflexivity|en Hb Hi (ERecvS true false)].
    + destruct s1; [en Hb Hi (ERecvS false true)|apply (WC (RS false)); reflexivity|en Hb Hi (ERecvS false false)].
  - (* T_closeseq *) destruct level; [destruct s2; en Hb Hi (ECloseS true)|destruct s1; en Hb Hi (ECloseS false)].
  - (* T_closeq *) destruct level; [destruct q2; en Hb Hi (ECloseQ true)|destruct q1; en Hb Hi (ECloseQ false)].
  - (* A_sel *) destruct cx; [en Hb Hi (ECtx true)|]. destruct dc; [en Hb Hi ERecvDone|].
    right. right. repeat split; auto.
    cbn in BA. assert (rseen g = false) as Hrs by (destruct (rseen g); [specialize (Xs eq_refl); discriminate|reflexivity]).
    unfold rinv in Ir. destruct (find_thread ths r) as [u|] eqn:Hr; [|specialize (Ir Hrs); lia].
    destruct (rd u) eqn:Eu; [|specialize (Ir Hrs); lia].
    destruct Ir as (_ & _ & _ & Ir). specialize (Ir Hrs).
    exists u. repeat split; auto. destruct (inH u); [reflexivity|specialize (Ir eq_refl); lia].
  - (* A_send *) destruct ab; try discriminate HtA. en Hb Hi ESendA.
  - (* A_close *) destruct ab; en Hb Hi ECloseA.
  - (* K_cancel *) en Hb Hi ECancel.
  - (* K_csem *) destruct cs as [h| |]; [destruct h; [en Hb Hi (ERecvC true true)|en Hb Hi (ERecvC true false)]
                                        |apply (WC RC); reflexivity|en Hb Hi (ERecvC false false)].
  - (* K_sel *) en Hb Hi EDefault.
  - (* K_recv2 *) destruct ws as [v| |]; [en Hb Hi ERecvWAny|apply (WC RW); reflexivity|en Hb Hi ERecvWAny].
  - (* K_closew *) destruct ws; en Hb Hi ECloseW.
  - (* K_closec *) destruct cs; en Hb Hi ECloseC.
  - (* D_cancel *) en Hb Hi ECancel.
  - (* D_csem *) destruct cs as [h| |]; [destruct h; [en Hb Hi (ERecvC true true)|en Hb Hi (ERecvC true false)]
                                        |apply (WC RC); reflexivity|en Hb Hi (ERecvC false false)].
  - (* D_sel *) en Hb Hi EQuit.
  - (* D_quitrecv *) destruct ws as [v| |]; [en Hb Hi ERecvWAny|apply (WC RW); reflexivity|en Hb Hi ERecvWAny].
  - (* D_io *) en Hb Hi (EIO true).
  - (* D_closew *) destruct ws; en Hb Hi ECloseW.
  - (* D_closec *) destruct cs; en Hb Hi ECloseC.
Qed.

(* C10: a blocked read routine waits for ANOTHER goroutine, and that goroutine (or the one it waits for) has
   an enabled event: the read routine never waits on something only it can provide *)
Theorem read_routine_never_self_blocked g st i t : Reach r g st -> find_thread (threads st) i = Some t ->
  t_kind t = KRead -> restartable t = false -> (forall e, ~ enabledF g st i e) ->
  waits_for st i t /\
  exists j e st', j <> i /\ okev e = true /\ faithful_step r g (mkObs j e) = true /\
                  step st (mkObs j e) = Some st' /\ Mu st' i < Mu st i.
Proof.
  intros HR Hi Hk Hnr Hb. split; [eapply blocked_waits_for; eauto|].
  destruct (progress r g st i t HR Hi Hnr) as (j & e & st' & Hm & Ho & Hf & Hs & Hlt); [congruence|].
  exists j, e, st'. repeat split; auto. intros ->. apply (Hb e). split; [exact Hf|]. exists st'. exact Hs.
Qed.

End Blocked.

(* ================= 10. the pinned F6 skeleton: Close does NOT return ================= *)

(* Before 4a528a0 dialAndConnect ended the hand-shake with the abort goroutine by an unbuffered SEND
   [done <- struct{}{}] instead of [close(done)]: a rendezvous that needs the abort goroutine at its select
   (A_sel) as partner.  In the state reached by the F6 schedule - Close cancelled during the handshake, the
   abort goroutine took the ctx case, sent ErrClosed and ended - there is no partner and none can ever
   appear; the read routine keeps connSem; and then Close stays at K_csem whatever all other goroutines do
   (new API calls included).  With close(done) ([ECloseDone], always enabled) [close_returns] applies to
   the same state. *)
Definition done_partner (st : state) : Prop :=
  (exists j u, find_thread (threads st) j = Some u /\ t_pc u = A_sel) \/ In KAbort (pending st).

Definition tr_f6_prefix : list obs :=
  [ob 1 (ESpawn KRead); ob 1 (ERecvC true false); ob 1 (ECtx false); ob 1 (EIO true);
   ob 2 (EStart KAbort);
   ob 3 (ESpawn KClose); ob 3 ECancel;
   ob 2 (ECtx true); ob 2 ESendA; ob 2 ECloseA;
   ob 1 (EIO false)].

Definition st_f6 : state :=
  mkState (mkShared CEmpty (WFull WvPend) SFull SFull false false true false AClosedErr false false)
          [(1%N, mkThread KRead (R_abortrecv false) false); (2%N, mkThread KAbort A_done false);
           (3%N, mkThread KClose K_csem false)] [].

Lemma f6_state : run init_state tr_f6_prefix = Some st_f6 /\ faithful 1 ghost0 tr_f6_prefix = true.
Proof. vm_compute. split; reflexivity. Qed.

Lemma F6_static s t e s' t' ks : tstep s t e = Some (s', t', ks) -> holdsC t = false -> connsem s = CEmpty ->
  connsem s' = CEmpty /\ holdsC t' = false /\ ~ In KAbort ks /\ (t_pc t' = A_sel -> t_pc t = A_sel) /\ t_pc t <> K_csem.
Proof.
  intros H. tstep_cases H; cbn; intros H1 H2; try discriminate H1; try discriminate H2;
  repeat split; auto; try discriminate; try tauto; intros [E|[E|[]]]; discriminate E.
Qed.

Definition J6 (st : state) : Prop :=
  connsem (sh st) = CEmpty /\ ~ In KAbort (pending st) /\
  (forall j u, find_thread (threads st) j = Some u -> j <> 1%N -> holdsC u = false /\ t_pc u <> A_sel) /\
  find_thread (threads st) 1%N = Some (mkThread KRead (R_abortrecv false) false) /\
  find_thread (threads st) 3%N = Some (mkThread KClose K_csem false).

Ltac fs6 :=
  match goal with
  | Hf : find_thread (set_thread _ ?j _) ?j0 = Some _ |- _ =>
    let Hd := fresh "Hd" in
    destruct (N.eq_dec j0 j) as [->|Hd];
    [rewrite find_set_same in Hf; injection Hf as <-|rewrite find_set_other in Hf by assumption]
  end.

Lemma J6_step st o st' : J6 st -> o_tid o <> 1%N -> step st o = Some st' -> J6 st'.
Proof.
  intros (Jc & Jp & Jt & J1 & J3) Hne Hs. destruct o as [j e]. cbn [o_tid] in Hne.
  assert (Hnew : forall k p', k <> KAbort -> (forall x, In x p' -> In x (pending st)) ->
            match find_thread (threads st) j with Some t => restartable t = true | None => True end ->
            J6 (mkState (sh st) (set_thread (threads st) j (new_thread k)) p')).
  { intros k p' Hk Hp Hold.
    assert (j <> 3%N) as H3 by (intros ->; rewrite J3 in Hold; discriminate Hold).
    repeat split; cbn [sh threads pending] in *; auto.
    - fs6; [destruct k; try congruence; reflexivity|eapply Jt; eauto].
    - fs6; [destruct k; try congruence; discriminate|eapply Jt; eauto].
    - rewrite find_set_other by congruence. exact J1.
    - rewrite find_set_other by congruence. exact J3. }
  destruct (step_cases _ _ _ _ Hs) as [(k & ->)|[(k & p' & -> & Hn & Hrm & ->)|(_ & t & s' & t' & ks & Hj & Ht & ->)]].
  - unfold step in Hs. cbn [o_ev o_tid] in Hs.
    destruct k; try discriminate Hs;
    (destruct (find_thread (threads st) j) as [t|] eqn:Ef; [destruct (restartable t) eqn:Er; [|discriminate Hs]|]);
    injection Hs as <-; apply Hnew; auto; try discriminate; rewrite Ef; auto.
  - apply Hnew.
    + intros ->. apply Jp. eapply remove_kind_has; eauto.
    + eapply remove_kind_in; eauto.
    + now rewrite Hn.
  - destruct (Jt j t Hj Hne) as [Hc Ha].
    destruct (F6_static _ _ _ _ _ _ Ht Hc Jc) as (A & B & C & D & E).
    assert (j <> 3%N) as H3 by (intros ->; rewrite J3 in Hj; injection Hj as <-; apply E; reflexivity).
    repeat split; cbn [sh threads pending] in *; auto.
    + intros Hin. apply in_app_or in Hin. tauto.
    + fs6; [assumption|eapply Jt; eauto].
    + fs6; [auto|eapply Jt; eauto].
    + rewrite find_set_other by congruence. exact J1.
    + rewrite find_set_other by congruence. exact J3.
Qed.

Example f6_pinned_close_never_returns : forall evs st',
  (forall o, In o evs -> o_tid o <> 1%N) -> run st_f6 evs = Some st' ->
  find_thread (threads st') 3%N = Some (mkThread KClose K_csem false) /\ ~ done_partner st'.
Proof.
  assert (J6 st_f6) as J0.
  { unfold J6, st_f6. cbn [sh threads pending connsem]. split; [reflexivity|]. split; [intros []|].
    split; [|split; reflexivity].
    intros j u Hj Hn. cbn [find_thread] in Hj. destruct (N.eqb 1 j) eqn:E1; [apply N.eqb_eq in E1; congruence|].
    destruct (N.eqb 2 j); [injection Hj as <-; split; [reflexivity|discriminate]|].
    destruct (N.eqb 3 j); [injection Hj as <-; split; [reflexivity|discriminate]|discriminate]. }
  intros evs. revert J0. generalize st_f6. induction evs as [|o evs IH]; cbn; intros st J st' Hno Hr.
  - injection Hr as <-. destruct J as (Jc & Jp & Jt & J1 & J3). split; [exact J3|].
    intros [(j & u & Hj & Hu)|Hin]; [|contradiction].
    destruct (N.eq_dec j 1) as [->|Hd]; [rewrite J1 in Hj; injection Hj as <-; discriminate Hu|].
    destruct (Jt j u Hj Hd) as [_ H]. contradiction.
  - destruct (step st o) as [st1|] eqn:Es; [|discriminate].
    apply (IH st1); auto. eapply J6_step; eauto.
Qed.

(* the same state in the current skeleton: Close returns (within the general bound; the concrete schedule is
   the rest of [tr_f6]) *)
Example f6_current_close_returns :
  exists evs st', length evs <= 45 /\ forallb (fun o => okev (o_ev o)) evs = true /\
    run st_f6 evs = Some st' /\ reachable 1 st' /\ at_pc st' 3 KClose Done.
Proof.
  destruct f6_state as [Hr Hf].
  apply (close_returns 1 st_f6 3 (mkThread KClose K_csem false)); [exists tr_f6_prefix; auto|reflexivity|reflexivity].
Qed.
