(* L3: the synchronisation skeleton of the client at channel-operation granularity
   (client.go: connSem, writeSem, the two seqSem, the queues, the context, the
   done/abort hand-shake of dialAndConnect) as a monitor automaton over events.
   An event is one channel operation (or I/O gate) performed by one goroutine, as the
   verif hooks record it.  [step] says which events are possible in a state; the
   invariants (SyncProofs.v) hold after every accepted event sequence, for any number
   of goroutines of each kind and any schedule.  Definitions only (executable: recorded
   traces of the real client are replayed through [run]). *)
From Coq Require Import ZArith.
From RecordUpdate Require Import RecordUpdate.
From MQ Require Export Bytes.

(* ---------- channels ---------- *)

Inductive wval := WvPend | WvDown | WvConn.       (* content of writeSem *)
Inductive wslot := WFull (v : wval) | WEmpty | WClosed.
Inductive cslot := CFull (has_conn : bool) | CEmpty | CClosed.   (* connSem: nil or a connection *)
Inductive sslot := SFull | SEmpty | SClosed.      (* seqSem *)
Inductive aslot := AEmpty | AErr | AClosedEmpty | AClosedErr.   (* abort chan (cap 1): empty, holds ErrClosed, closed (drained / still holding) *)

Record shared := mkShared {
  connsem : cslot;
  writesem : wslot;
  seq1 : sslot; seq2 : sslot;
  qclosed1 : bool; qclosed2 : bool;
  ctx : bool;                (* canceled *)
  done_closed : bool;        (* done channel of the current dialAndConnect *)
  abort : aslot;             (* abort channel of the current dialAndConnect *)
  abort_live : bool;         (* the abort goroutine of the current dialAndConnect exists and has not finished *)
  panicked : bool            (* some goroutine hit a Go channel panic *)
}.
#[export] Instance eta_shared : Settable _ := settable! mkShared
  <connsem; writesem; seq1; seq2; qclosed1; qclosed2; ctx; done_closed; abort; abort_live; panicked>.

Definition init_shared : shared :=
  mkShared (CFull false) (WFull WvPend) SFull SFull false false false false AEmpty false false.

(* ---------- goroutines ---------- *)

(* where a goroutine is; each constructor is a point between two channel operations *)
Inductive pc :=
(* write / writeBuffers (Publish, Subscribe, ...): lockWrite loop, transfer, unlock *)
| W_lock                      (* select { quit | writeSem } *)
| W_hold (v : wval)           (* received v from writeSem *)
| W_wait                      (* connPending seen and put back: select { ctx | Online | tick } *)
| W_io                        (* holds the connection: writing *)
| W_unlock (ok : bool)        (* about to send conn / connPending back *)
(* submitPersisted of one level: seqSem, persist, writeBuffersNoWait, seqSem back *)
| P_seq                       (* about to receive seqSem *)
| P_have                      (* holds seq: ctx check, ErrMax check, Save, enqueue *)
| P_wsem                      (* about to receive writeSem (blocking) *)
| P_hold (v : wval)
| P_io
| P_unlock (ok : bool)
| P_release                   (* deferred: send seq back *)
(* the read routine *)
| R_idle                      (* between two ReadSlices calls; or about to read *)
| R_csem                      (* connect: about to receive connSem *)
| R_ctxchk                    (* holds connSem: context check *)
| R_dial
| R_hs                        (* handshake I/O, abort goroutine running *)
| R_abortrecv (hs_ok : bool)  (* about to close(done), then to receive from abort *)
| R_failw                     (* connect failed: about to receive writeSem *)
| R_faildown                  (* about to send connDown *)
| R_failcs                    (* about to send previousConn to connSem *)
| R_seq1 | R_seq2             (* about to receive the sequence semaphores *)
| R_wsem                      (* about to receive writeSem (lock write in sequence locks) *)
| R_cssend                    (* about to send conn to connSem *)
| R_resend1 | R_seq1back (ok : bool) | R_resend2 | R_seq2back (ok : bool)
| R_resendfail                (* close conn, send connDown *)
| R_online                    (* signals, send conn to writeSem *)
| R_ack                       (* writeNoWait: about to receive writeSem *)
| R_ackhold (v : wval) | R_ackio | R_ackunlock (ok : bool)
| R_off                       (* toOffline: select { writeSem | default } *)
| R_offwait                   (* default taken, conn closed: about to receive writeSem *)
| R_offput                    (* about to send connPending *)
| R_term                      (* ReadSlices returned ErrClosed: termCallbacks spawns T1 T2 and joins *)
(* termCallbacks goroutine of one level *)
| T_seq | T_closeseq | T_closeq | T_done
(* abort goroutine of dialAndConnect *)
| A_sel | A_send | A_close | A_done
(* Close *)
| K_cancel | K_csem | K_sel | K_deflt | K_recv2 | K_closew | K_closec
(* Disconnect *)
| D_cancel | D_csem | D_sel | D_quitrecv | D_io | D_closew | D_closec
| Done.                        (* returned *)

Inductive kind := KWrite | KPersist (level : bool) | KRead | KTerm (level : bool) | KAbort | KClose | KDisc.

Record thread := mkThread { t_kind : kind; t_pc : pc; t_hasconn : bool (* local: previousConn / conn non-nil *) }.

Record state := mkState {
  sh : shared;
  threads : list (N * thread);
  pending : list kind         (* goroutines started by a go statement that have not run yet *)
}.

(* ---------- events ---------- *)

Inductive ev :=
| ESpawn (k : kind)                       (* an API call starts in this goroutine *)
| EStart (k : kind)                       (* a goroutine started by a go statement runs its first instruction *)
| ERecvW (ok : bool) (v : wval)           (* received from writeSem: ok=false means closed *)
| ERecvWAny                                (* received from writeSem, value and ok discarded by the code *)
| ERecvSAny (level : bool)                 (* received from a seqSem, value and ok discarded by the code *)
| EOffline                                 (* toOffline starts *)
| ESendW (v : wval)
| ECloseW
| ERecvC (ok : bool) (has_conn : bool)
| ESendC (has_conn : bool)
| ECloseC
| ERecvS (level : bool) (ok : bool)
| ESendS (level : bool)
| ECloseS (level : bool)
| ECloseQ (level : bool)
| ECancel                                  (* c.cancel() *)
| ECtx (canceled : bool)                   (* context check, or the ctx.Done case of a select *)
| EQuit                                    (* the quit case of a select fired *)
| EDefault                                 (* the default case of a select *)
| EWake                                    (* lockWrite: Online or the ticker fired *)
| EIO (ok : bool)                          (* a blocking I/O gate (write, dial, handshake, resend, save) finished *)
| ECloseDone | ERecvDone
| ESendA | ECloseA | ERecvA (got_err : bool)
| ETerm                                    (* termCallbacks starts: spawns the two level goroutines *)
| ERet.                                    (* the call returns / the goroutine ends *)

(* ---------- semantics ---------- *)

Definition setpc (t : thread) (p : pc) : thread := mkThread (t_kind t) p (t_hasconn t).
Definition panic (s : shared) : shared := s <| panicked := true |>.

(* send on writeSem: panics when closed; the slot must be empty (capacity 1, protocol: only the holder sends) *)
Definition send_w (s : shared) (v : wval) : option shared :=
  match writesem s with
  | WEmpty => Some (s <| writesem := WFull v |>)
  | WClosed => Some (panic s)
  | WFull _ => None                        (* would block: the hooks never see a completed send here *)
  end.
Definition recv_w (s : shared) (ok : bool) (v : wval) : option shared :=
  match writesem s, ok with
  | WFull v', true => if match v, v' with WvPend, WvPend | WvDown, WvDown | WvConn, WvConn => true | _, _ => false end
                      then Some (s <| writesem := WEmpty |>) else None
  | WClosed, false => Some s
  | _, _ => None
  end.
Definition recv_w_any (s : shared) : option shared :=
  match writesem s with
  | WFull _ => Some (s <| writesem := WEmpty |>)
  | WClosed => Some s
  | WEmpty => None
  end.
Definition send_c (s : shared) (hc : bool) : option shared :=
  match connsem s with
  | CEmpty => Some (s <| connsem := CFull hc |>)
  | CClosed => Some (panic s)
  | CFull _ => None
  end.
Definition recv_c (s : shared) (ok hc : bool) : option shared :=
  match connsem s, ok with
  | CFull hc', true => if Bool.eqb hc hc' then Some (s <| connsem := CEmpty |>) else None
  | CClosed, false => Some s
  | _, _ => None
  end.
Definition get_seq (s : shared) (l : bool) : sslot := if l then seq2 s else seq1 s.
Definition set_seq (s : shared) (l : bool) (x : sslot) : shared :=
  if l then s <| seq2 := x |> else s <| seq1 := x |>.
Definition send_s (s : shared) (l : bool) : option shared :=
  match get_seq s l with
  | SEmpty => Some (set_seq s l SFull)
  | SClosed => Some (panic s)
  | SFull => None
  end.
Definition recv_s (s : shared) (l ok : bool) : option shared :=
  match get_seq s l, ok with
  | SFull, true => Some (set_seq s l SEmpty)
  | SClosed, false => Some s
  | _, _ => None
  end.

Definition recv_s_any (s : shared) (l : bool) : option shared :=
  match get_seq s l with
  | SFull => Some (set_seq s l SEmpty)
  | SClosed => Some s
  | SEmpty => None
  end.

(* one event of thread t in shared state s: new shared state, new pc, goroutines spawned *)
Definition tstep (s : shared) (t : thread) (e : ev) : option (shared * thread * list kind) :=
  let stay (s' : option shared) (p : pc) :=
    match s' with Some s' => Some (s', setpc t p, []) | None => None end in
  match t_kind t, t_pc t, e with
  (* ---- write (lockWrite + writeTo) ---- *)
  | KWrite, W_lock, EQuit => Some (s, setpc t Done, [])
  | KWrite, W_lock, ERecvW true v => stay (recv_w s true v) (W_hold v)
  | KWrite, W_lock, ERecvW false v => stay (recv_w s false v) Done               (* ErrClosed *)
  | KWrite, W_hold WvDown, ESendW WvDown => stay (send_w s WvDown) Done           (* ErrDown *)
  | KWrite, W_hold WvPend, ESendW WvPend => stay (send_w s WvPend) W_wait
  | KWrite, W_hold WvConn, EIO ok => Some (s, setpc t (W_unlock ok), [])
  | KWrite, W_wait, ECtx true => if ctx s then Some (s, setpc t Done, []) else None
  | KWrite, W_wait, EWake => Some (s, setpc t W_lock, [])
  | KWrite, W_unlock true, ESendW WvConn => stay (send_w s WvConn) Done
  | KWrite, W_unlock false, ESendW WvPend => stay (send_w s WvPend) Done
  (* ---- submitPersisted ---- *)
  | KPersist l, P_seq, ERecvS l' true => if Bool.eqb l l' then stay (recv_s s l true) P_have else None
  | KPersist l, P_seq, ERecvS l' false => if Bool.eqb l l' then stay (recv_s s l false) Done else None
  | KPersist l, P_have, ECtx c => if c then (if ctx s then Some (s, setpc t P_release, []) else None)
                                  else Some (s, setpc t P_have, [])
  | KPersist l, P_have, EIO false => Some (s, setpc t P_release, [])              (* ErrMax or Save error *)
  | KPersist l, P_have, EIO true =>                                              (* saved and enqueued *)
      if (if l then qclosed2 s else qclosed1 s) then Some (panic s, setpc t P_release, [])
      else Some (s, setpc t P_wsem, [])
  | KPersist l, P_wsem, EDefault => Some (s, setpc t P_release, [])               (* backlog: no write now *)
  | KPersist l, P_wsem, ERecvW true v => stay (recv_w s true v) (P_hold v)
  | KPersist l, P_wsem, ERecvW false v => stay (recv_w s false v) P_release
  | KPersist l, P_hold WvDown, ESendW WvDown => stay (send_w s WvDown) P_release
  | KPersist l, P_hold WvPend, ESendW WvPend => stay (send_w s WvPend) P_release
  | KPersist l, P_hold WvConn, EIO ok => Some (s, setpc t (P_unlock ok), [])
  | KPersist l, P_unlock true, ESendW WvConn => stay (send_w s WvConn) P_release
  | KPersist l, P_unlock false, ESendW WvPend => stay (send_w s WvPend) P_release
  | KPersist l, P_release, ESendS l' => if Bool.eqb l l' then stay (send_s s l) Done else None
  (* ---- read routine: connect ---- *)
  | KRead, R_idle, ERecvC ok hc =>                                   (* ReadSlices with readConn = nil *)
      match recv_c s ok hc with
      | Some s' => if ok then Some (s', mkThread KRead R_ctxchk hc, []) else Some (s', setpc t R_idle, [])
      | None => None
      end
  | KRead, R_ctxchk, ECtx c =>
      if c then (if ctx s then Some (s, setpc t R_failcs, []) else None) else Some (s, setpc t R_dial, [])
  | KRead, R_dial, EIO false => Some (s, setpc t R_failw, [])        (* Load or Dial failed *)
  | KRead, R_dial, ECtx true => if ctx s then Some (s, setpc t R_failcs, []) else None   (* dial interrupted: context.Canceled *)
  | KRead, R_dial, EIO true =>                                       (* dialed: the abort goroutine starts *)
      Some (s <| done_closed := false |> <| abort := AEmpty |> <| abort_live := true |>, setpc t R_hs, [KAbort])
  | KRead, R_hs, EIO ok => Some (s, setpc t (R_abortrecv ok), [])    (* handshake finished one way or the other *)
  | KRead, R_abortrecv hs, ECloseDone =>
      if done_closed s then Some (panic s, setpc t (R_abortrecv hs), [])
      else Some (s <| done_closed := true |>, setpc t (R_abortrecv hs), [])
  | KRead, R_abortrecv hs, ERecvA got =>
      if negb (done_closed s) then None else
      match abort s, got with
      | AErr, true => Some (s <| abort := AEmpty |>, setpc t R_failw, [])       (* aborted: ErrClosed takes the error path *)
      | AClosedErr, true => Some (s <| abort := AClosedEmpty |>, setpc t R_failw, [])
      | AClosedEmpty, false => Some (s, setpc t (if hs then R_seq1 else R_failw), [])
      | _, _ => None
      end
  | KRead, R_failw, ERecvWAny => stay (recv_w_any s) R_faildown                  (* no ok check in the code *)
  | KRead, R_faildown, ESendW WvDown => stay (send_w s WvDown) R_failcs
  | KRead, R_failcs, ESendC hc => if Bool.eqb hc (t_hasconn t) then stay (send_c s hc) R_idle else None
  (* the sequence semaphores are received without an ok check *)
  | KRead, R_seq1, ERecvSAny false => stay (recv_s_any s false) R_seq2
  | KRead, R_seq2, ERecvSAny true => stay (recv_s_any s true) R_wsem
  | KRead, R_wsem, ERecvWAny => stay (recv_w_any s) R_cssend
  | KRead, R_cssend, ESendC true => stay (send_c s true) R_resend1
  | KRead, R_resend1, EIO ok => Some (s, setpc t (R_seq1back ok), [])
  | KRead, R_seq1back ok, ESendS false => stay (send_s s false) (if ok then R_resend2 else R_seq2back false)
  | KRead, R_resend2, EIO ok => Some (s, setpc t (R_seq2back ok), [])
  | KRead, R_seq2back ok, ESendS true => stay (send_s s true) (if ok then R_online else R_resendfail)
  | KRead, R_resendfail, ESendW WvDown => stay (send_w s WvDown) R_idle
  | KRead, R_online, ESendW WvConn => stay (send_w s WvConn) R_idle
  (* ---- read routine: own writes (acknowledgements) ---- *)
  | KRead, R_idle, ERecvW true v => stay (recv_w s true v) (R_ackhold v)
  | KRead, R_idle, ERecvW false v => stay (recv_w s false v) R_idle             (* ErrClosed from writeNoWait *)
  | KRead, R_ackhold WvDown, ESendW WvDown => stay (send_w s WvDown) R_idle
  | KRead, R_ackhold WvPend, ESendW WvPend => stay (send_w s WvPend) R_idle
  | KRead, R_ackhold WvConn, EIO ok => Some (s, setpc t (R_ackunlock ok), [])
  | KRead, R_ackunlock true, ESendW WvConn => stay (send_w s WvConn) R_idle
  | KRead, R_ackunlock false, ESendW WvPend => stay (send_w s WvPend) R_idle
  (* ---- read routine: toOffline ---- *)
  | KRead, R_idle, EOffline => Some (s, setpc t R_off, [])                      (* a read or write failed: toOffline *)
  | KRead, R_off, ERecvW true v => match writesem s with
                                   | WFull _ => Some (s <| writesem := WEmpty |>, setpc t R_offput, [])
                                   | _ => None end                               (* value discarded *)
  | KRead, R_off, ERecvW false v => stay (recv_w s false v) R_idle              (* closed: return *)
  | KRead, R_off, EDefault => Some (s, setpc t R_offwait, [])
  | KRead, R_offwait, ERecvW true v => match writesem s with
                                       | WFull _ => Some (s <| writesem := WEmpty |>, setpc t R_offput, [])
                                       | _ => None end
  | KRead, R_offwait, ERecvW false v => stay (recv_w s false v) R_idle
  | KRead, R_offput, ESendW WvPend => stay (send_w s WvPend) R_idle
  (* ---- read routine: termCallbacks (only after an ErrClosed, hence with the context canceled) ---- *)
  | KRead, R_idle, ETerm => if ctx s then Some (s, setpc t R_term, [KTerm false; KTerm true]) else None
  | KRead, R_term, ERet => Some (s, setpc t R_idle, [])
  (* ---- termCallbacks goroutines ---- *)
  | KTerm l, T_seq, ERecvS l' true => if Bool.eqb l l' then stay (recv_s s l true) T_closeseq else None
  | KTerm l, T_seq, ERecvS l' false => if Bool.eqb l l' then stay (recv_s s l false) T_done else None
  | KTerm l, T_closeseq, ECloseS l' =>
      if Bool.eqb l l' then
        match get_seq s l with
        | SClosed => Some (panic s, setpc t T_closeq, [])
        | _ => Some (set_seq s l SClosed, setpc t T_closeq, [])
        end else None
  | KTerm l, T_closeq, ECloseQ l' =>
      if Bool.eqb l l' then
        (if (if l then qclosed2 s else qclosed1 s) then Some (panic s, setpc t T_done, [])
         else Some ((if l then s <| qclosed2 := true |> else s <| qclosed1 := true |>), setpc t T_done, []))
      else None
  (* ---- abort goroutine ---- *)
  | KAbort, A_sel, ECtx true => if ctx s then Some (s, setpc t A_send, []) else None
  | KAbort, A_sel, ERecvDone => if done_closed s then Some (s, setpc t A_close, []) else None
  | KAbort, A_send, ESendA =>
      match abort s with
      | AEmpty => Some (s <| abort := AErr |>, setpc t A_close, [])
      | AErr => None
      | _ => Some (panic s, setpc t A_close, [])
      end
  | KAbort, A_close, ECloseA =>
      match abort s with
      | AEmpty => Some (s <| abort := AClosedEmpty |> <| abort_live := false |>, setpc t A_done, [])
      | AErr => Some (s <| abort := AClosedErr |> <| abort_live := false |>, setpc t A_done, [])
      | _ => Some (panic s, setpc t A_done, [])
      end
  (* ---- Close ---- *)
  | KClose, K_cancel, ECancel => Some (s <| ctx := true |>, setpc t K_csem, [])
  | KClose, K_csem, ERecvC ok hc =>
      match recv_c s ok hc with
      | Some s' => if ok then Some (s', mkThread KClose K_sel hc, []) else Some (s', setpc t Done, [])
      | None => None
      end
  | KClose, K_sel, ERecvW true v => stay (recv_w s true v) K_closew
  | KClose, K_sel, EDefault => Some (s, setpc t K_recv2, [])
  | KClose, K_recv2, ERecvWAny => stay (recv_w_any s) K_closew
  | KClose, K_closew, ECloseW =>
      match writesem s with
      | WClosed => Some (panic s, setpc t K_closec, [])
      | _ => Some (s <| writesem := WClosed |>, setpc t K_closec, [])
      end
  | KClose, K_closec, ECloseC =>
      match connsem s with
      | CClosed => Some (panic s, setpc t Done, [])
      | _ => Some (s <| connsem := CClosed |>, setpc t Done, [])
      end
  (* ---- Disconnect ---- *)
  | KDisc, D_cancel, ECancel => Some (s <| ctx := true |>, setpc t D_csem, [])
  | KDisc, D_csem, ERecvC ok hc =>
      match recv_c s ok hc with
      | Some s' => if ok then Some (s', mkThread KDisc D_sel hc, []) else Some (s', setpc t Done, [])
      | None => None
      end
  | KDisc, D_sel, EQuit => Some (s, setpc t D_quitrecv, [])
  | KDisc, D_quitrecv, ERecvWAny => stay (recv_w_any s) D_closew
  | KDisc, D_sel, ERecvW true WvConn => stay (recv_w s true WvConn) D_io
  | KDisc, D_sel, ERecvW true v => stay (recv_w s true v) D_closew
  | KDisc, D_io, EIO _ => Some (s, setpc t D_closew, [])
  | KDisc, D_closew, ECloseW =>
      match writesem s with
      | WClosed => Some (panic s, setpc t D_closec, [])
      | _ => Some (s <| writesem := WClosed |>, setpc t D_closec, [])
      end
  | KDisc, D_closec, ECloseC =>
      match connsem s with
      | CClosed => Some (panic s, setpc t Done, [])
      | _ => Some (s <| connsem := CClosed |>, setpc t Done, [])
      end
  | _, _, _ => None
  end.

Definition start_pc (k : kind) : pc :=
  match k with
  | KWrite => W_lock | KPersist _ => P_seq | KRead => R_idle | KTerm _ => T_seq
  | KAbort => A_sel | KClose => K_cancel | KDisc => D_cancel
  end.
Definition new_thread (k : kind) : thread := mkThread k (start_pc k) false.

Fixpoint find_thread (l : list (N * thread)) (i : N) : option thread :=
  match l with [] => None | (j, t) :: r => if j =? i then Some t else find_thread r i end.
Fixpoint set_thread (l : list (N * thread)) (i : N) (t : thread) : list (N * thread) :=
  match l with
  | [] => [(i, t)]
  | (j, t') :: r => if j =? i then (i, t) :: r else (j, t') :: set_thread r i t
  end.

(* an observed event: goroutine i did e *)
Record obs := mkObs { o_tid : N; o_ev : ev }.

Definition kind_eqb (a b : kind) : bool :=
  match a, b with
  | KWrite, KWrite | KRead, KRead | KAbort, KAbort | KClose, KClose | KDisc, KDisc => true
  | KPersist l, KPersist l' | KTerm l, KTerm l' => Bool.eqb l l'
  | _, _ => false
  end.
Fixpoint remove_kind (k : kind) (l : list kind) : option (list kind) :=
  match l with
  | [] => None
  | x :: r => if kind_eqb x k then Some r
              else match remove_kind k r with Some r' => Some (x :: r') | None => None end
  end.
Definition restartable (t : thread) : bool :=
  match t_pc t with Done | R_idle | T_done | A_done => true | _ => false end.

Definition step (st : state) (o : obs) : option state :=
  match o_ev o with
  | ESpawn k =>
    (* an API call from the application: any number of them, at any time, in a fresh goroutine or in
       one whose previous call returned *)
    match k with
    | KWrite | KPersist _ | KRead | KClose | KDisc =>
      match find_thread (threads st) (o_tid o) with
      | None => Some (mkState (sh st) (set_thread (threads st) (o_tid o) (new_thread k)) (pending st))
      | Some t => if restartable t then Some (mkState (sh st) (set_thread (threads st) (o_tid o) (new_thread k)) (pending st))
                  else None
      end
    | _ => None
    end
  | EStart k =>
    match find_thread (threads st) (o_tid o), remove_kind k (pending st) with
    | None, Some p' => Some (mkState (sh st) (set_thread (threads st) (o_tid o) (new_thread k)) p')
    | _, _ => None
    end
  | e =>
    match find_thread (threads st) (o_tid o) with
    | None => None
    | Some t =>
      match tstep (sh st) t e with
      | None => None
      | Some (s', t', ks) => Some (mkState s' (set_thread (threads st) (o_tid o) t') (pending st ++ ks))
      end
    end
  end.

Definition init_state : state := mkState init_shared [] [].

Fixpoint run (st : state) (tr : list obs) : option state :=
  match tr with
  | [] => Some st
  | o :: r => match step st o with Some st' => run st' r | None => None end
  end.

(* index of the first event the monitor does not accept *)
Fixpoint first_reject (st : state) (tr : list obs) (i : N) : option N :=
  match tr with
  | [] => None
  | o :: r => match step st o with Some st' => first_reject st' r (i + 1) | None => Some i end
  end.
