(* L1: a whole inbound stream read packet by packet with the client's read loops
   (Reader.v), the way readSlices uses them: peekPacket, skip the previous body, and for
   a PUBLISH beyond the buffer the big-message path (read, leave unread, or skip as a
   duplicate).  Definitions only. *)
From MQ Require Export Bytes Spec Reader.

(* a PUBLISH whose body exceeds the buffer is served as a BigMessage *)
Definition is_big (cap head size : N) : bool := (head / 16 =? 3) && (cap <? size).
(* number of body bytes peekPacket asks bufio for *)
Definition peek_len (cap head size : N) : N := if is_big cap head size then cap else size.

(* onPUBLISH's slicing of c.peek: (topic, packet identifier or 0, offset of the message) *)
Definition pub_split (head : N) (p : list N) : option (list N * N * N) :=
  match p with
  | a :: b :: r =>
    let tl := a * 256 + b in
    if len r <? tl then None else
    let topic := firstn (N.to_nat tl) r in
    if (head / 2) mod 4 =? 0 then Some (topic, 0, 2 + tl)
    else match skipn (N.to_nat tl) r with
         | c :: d :: _ => Some (topic, c * 256 + d, 4 + tl)
         | _ => None
         end
  | _ => None
  end.

(* what the application does with a BigMessage *)
Inductive big_mode :=
| BigRead      (* ReadAll *)
| BigSkip      (* left unread: the next ReadSlices discards the remainder *)
| BigDup.      (* duplicate (errDupe): the whole body is discarded at once *)

Inductive stream_end :=
| EndTimeout                       (* a deadline expiry ended the run *)
| EndScript                        (* the script of conn.Read answers is exhausted *)
| EndEOF
| EndErr (e : rerror) (proto : bool)
| EndBadPublish                    (* topic/identifier of a big PUBLISH not within the buffer *)
| EndFuel.

Definition end_of_err (e : rerror) (proto : bool) : stream_end :=
  match e with ETimeout => EndTimeout | ENoTape => EndScript | _ => EndErr e proto end.

(* one packet as seen by the consumer: first byte, announced body size, body bytes seen *)
Definition sobs : Type := N * N * list N.

Fixpoint read_stream (fuel : nat) (pause : bool) (mode : big_mode) (s : rst)
  : list sobs * stream_end * rst :=
  match fuel with
  | O => ([], EndFuel, s)
  | S f =>
    match peek_packet pause s with
    | (PkOk head body, s1) =>
      (* the following call skips the packet: c.bufr.Discard(len(c.peek)) *)
      let s2 := snd (bufio_discard 1 s1 (len body) 0) in
      let '(l, e, s3) := read_stream f pause mode s2 in
      ((head, len body, body) :: l, e, s3)
    | (PkBig head size p, s1) =>
      match mode with
      | BigDup =>
        (* c.peek = nil; c.discard(payloadSize) *)
        match client_discard pause s1 size with
        | (None, s2) =>
          let '(l, e, s3) := read_stream f pause mode s2 in ((head, size, []) :: l, e, s3)
        | (Some e, s2) => ([], end_of_err e false, s2)
        end
      | _ =>
        match pub_split head p with
        | None => ([], EndBadPublish, s1)
        | Some (_, _, i) =>
          (* beforeMessage := readBufSize - len(partialMessage); c.bufr.Discard(beforeMessage) *)
          let before := rcap s1 - (len p - i) in
          let s2 := snd (bufio_discard 1 s1 before 0) in
          match mode with
          | BigRead =>
            match read_all pause s2 (size - before) with
            | (inl content, s3) =>
              let '(l, e, s4) := read_stream f pause mode s3 in
              ((head, size, firstn (N.to_nat i) p ++ content) :: l, e, s4)
            | (inr e, s3) => ([], end_of_err e false, s3)
            end
          | _ =>
            match client_discard pause s2 (size - before) with
            | (None, s3) =>
              let '(l, e, s4) := read_stream f pause mode s3 in
              ((head, size, firstn (N.to_nat i) p) :: l, e, s4)
            | (Some e, s3) => ([], end_of_err e false, s3)
            end
          end
        end
      end
    | (PkErr e proto, s1) => ([], end_of_err e proto, s1)
    | (PkBrokerTerm, s1) => ([], EndEOF, s1)
    end
  end.

(* the reference: the same observations computed from the byte stream alone *)
Definition expect_obs (cap : N) (mode : big_mode) (hb : N * list N) : sobs :=
  let '(head, body) := hb in
  if is_big cap head (len body) then
    match mode with
    | BigDup => (head, len body, [])
    | BigRead => (head, len body, body)
    | BigSkip =>
      match pub_split head (firstn (N.to_nat cap) body) with
      | Some (_, _, i) => (head, len body, firstn (N.to_nat i) body)
      | None => (head, len body, [])
      end
    end
  else (head, len body, body).

(* the stream is exactly this list of framed packets *)
Fixpoint framed (l : list (N * list N)) (p : list N) : Prop :=
  match l with
  | [] => p = []
  | (h, body) :: l' => exists rest, frame_packet p = Some (h, body, rest) /\ framed l' rest
  end.

(* the reader can serve the packet: a body beyond the buffer must be a PUBLISH whose topic
   and identifier lie within the first buffer-load *)
Definition servable (cap : N) (mode : big_mode) (hb : N * list N) : Prop :=
  let '(head, body) := hb in
  peek_len cap head (len body) <= cap /\
  (is_big cap head (len body) = true -> mode <> BigDup ->
   exists t id i, pub_split head (firstn (N.to_nat cap) body) = Some (t, id, i) /\ i <= cap).
