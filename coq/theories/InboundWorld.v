(* C04 / C07, broker side: the closed loop  conforming SENDING broker + connection + client
   (exactly-once RECEPTION).  Mirror image of BrokerWorld.v (C03).

   Session.v / InboundProofs.v prove what ONE handler call of the client does (marker
   look-up in on_publish, marker Save before the PUBREC write in the flush at the start of
   ReadSlices, marker Delete before the PUBCOMP write in on_pubrel, pendingAck kept when a
   write fails).  This file closes the loop with a small transition system [istep] over

     - the client, reduced to what decides exactly-once reception:
         [i_marks]  the identifiers with a reception marker (key id + 65536) in the Persistence,
         [i_owed]   pendingAck (Session.k_pack): nothing, or ONE PUBREC/PUBCOMP still to write,
       the Persistence survives a process stop, pendingAck does not ([I_restart]);
     - ONE current connection: FIFO queues [i_b2c], [i_c2b]; nothing is lost, duplicated or
       reordered on a live connection; on [I_break] (and on every failed client write) both
       queues are emptied: what was written but not processed by the peer is lost, nothing of
       an old connection is processed once the next one exists;
     - a conforming broker as QoS 2 SENDER (MQTT 3.1.1 section 4.3.3, figure 4.3 sender), any number of
       messages in flight, each under its own identifier, [i_out]:
         new message: pick an identifier that is NOT in flight, store (id, BRec), send PUBLISH;
         PUBREC id  : BRec -> BComp, send PUBREL id;  in BComp: send PUBREL again or ignore
                      (both allowed, [I_broker_rec_again]/[I_broker_rec_ignore]);
         PUBCOMP id : in BComp the cycle ends, the identifier is free for a NEW message;
                      in any other state the packet is ignored ([I_broker_comp_stale]; a broker that
                      closes the connection instead is [I_break]);
         reconnect  : resend, in order, PUBLISH (DUP) for BRec and PUBREL for BComp entries.
       The broker decides on the identifier only.
     - ghost data: every message the broker ever starts gets the next number [i_next]; all four
       packets of its handshake carry it next to the identifier (the client copies it from the
       PUBLISH into its PUBREC and from the PUBREL into its PUBCOMP) but nobody looks at it.
       A number identifies a delivery cycle.  [i_deliv]: numbers returned by ReadSlices, newest
       first.  [i_lost]: numbers x for which a process stop hit the window between the return of
       x and the marker Save of the NEXT ReadSlices call (pendingAck = PUBREC of x, no marker
       yet): the BUG(pascaldekloe) comment in client.go, readSlices ("Save errors from
       Persistence can cause duplicate reception ... only in a follow-up with AdoptSession");
       the same window is open, without any Save error, to a process stop between two
       ReadSlices calls.

   Steps of the client and the facts of Session.v/InboundProofs.v they are read off from:
     I_deliver       on_publish, marker absent: message returned, pendingAck := PUBREC id,
                     NOTHING written, NO marker yet (on_publish_once_per_cycle,
                     on_publish_enqueues_own_ack, read_slices_delivery_no_ack)
     I_dupe(_fail)   on_publish, marker present: not returned; PUBREC written at once, or kept
                     in pendingAck + toOffline when the write fails (dupe_gets_pubrec(_big))
     I_flush         next ReadSlices, first thing: marker Save (PUBREC only), then the write,
                     pendingAck cleared (flush_acks_first, outcome "written completely")
     I_flush_fail    ... Save done, write failed: pendingAck kept, toOffline
     I_save_fail     ... Save failed: nothing written, pendingAck kept, still online
     I_pubrel(_fail) on_pubrel: marker Delete, then PUBCOMP written, or kept in pendingAck +
                     toOffline (on_pubrel_answers); a failing Delete/Load is [I_break]
     I_restart       new process: pendingAck empty (op_adopt_sat: fresh_pack), AdoptSession
                     skips the keys with bit 16 (Session.adopt_scan), so [i_marks] stays
     I_break/I_reconnect   toOffline/connect keep pendingAck (to_offline_sat, connect_sat)
   These facts are proved about Session.v; that the slim machine below is the projection of
   Session.step is NOT proved here (no refinement proof), the step shapes are read off.
   QoS 0/1 traffic is not in the model: it never touches a marker; a PUBACK in pendingAck only
   delays the client's next step.

   Theorems (every reachable state, every interleaving, Break and Restart at any point):
     inbound_inv               the invariant [IInv] (structure: [LInv] over the [line])
     once_per_cycle            (a) count x returned <= 1 + count x in [i_lost]
     once_unless_window        (a) x not in [i_lost] -> returned at most once
     no_window_nodup           (a) i_lost = [] -> NoDup i_deliv
     lost_only_by_restart      (a) [i_lost] grows only by Restart with PUBREC x pending, no marker
     lost_was_delivered        (a) ... and x had been returned
     delivered_only_by_deliver (a, C07) a message is returned only by [I_deliver]: nothing written,
                               no marker saved, exactly its PUBREC left pending
     owed_blocks_reading, owed_kept_until_written   (C07) pending acknowledgement first, kept
     pubrec_only_for_delivered (C07) PUBREC x written or pending -> x was returned
     marker_means_in_flight    (b) marker id -> the broker holds id, and that message was returned
     new_cycle_no_marker       (b) identifier not in flight at the broker -> no marker
     new_step_no_marker        (b) ... in particular at every [LNew] step
     fresh_never_dupe          (b) a PUBLISH of a message not yet returned never finds a marker
     retransmission_is_dupe    (b') a PUBLISH of a returned message finds the marker (x not in i_lost)
     broker_knows_pubrec, pubrec_is_current   the broker never reads a PUBREC for an unknown
                               identifier or for another message than the one it holds
     stale_pubcomp_harmless    a PUBCOMP that meets a broker in BComp is the current message's
     good_step_measure         (c) every progress step decreases [imu]
     new_step_measure          (c) a new message adds 5
     progress_enabled          (c) imu <> 0 -> a progress step is enabled
     quiescent_complete        (c) no progress step enabled -> [complete]
     complete_exactly_once     (c) complete, x not in i_lost -> x < i_next returned exactly once
     good_run_bound / good_run_complete / good_run_exists   (c) fault-free runs
     retransmission_once, identifier_reuse_returned, window_second_delivery,
     restart_after_flush_once  concrete traces ([iexec], [iexec_sound])
     m3c04b_loses_message      section 8: the seeded change M3-C04b breaks [new_cycle_no_marker]
     clean_session_restart_loses_message   section 8: so does a broker that drops its session
   Section 9, the at-least-once analogue in brief:
     qos1_ack_only_after_delivery, qos1_delivery_leaves_ack_pending   (C07 for PUBACK)
     qos1_at_least_once / qos1_acked_were_delivered   when the broker never reuses an identifier
     qos1_reuse_loses_message  with immediate identifier reuse at-least-once FAILS in the closed
                               loop (a second PUBACK of a retransmission acknowledges the next
                               message under the same identifier): a property of MQTT QoS 1,
                               not of this client.                                              *)
From Coq Require Import ZArith ZifyN ZifyNat ZifyBool Lia List Bool.
Import ListNotations.
Local Open Scope N_scope.

(* ================================================================== *)
(* 1. The world                                                        *)

(* packets; second component = ghost number of the message (delivery cycle) *)
Inductive down := DPub (id x : N) | DRel (id x : N).      (* broker to client *)
Inductive up := URec (id x : N) | UComp (id x : N).       (* client to broker *)

Inductive bph := BRec | BComp.       (* PUBLISH sent, PUBREC awaited / PUBREL sent, PUBCOMP awaited *)
Record ent := mkE { e_id : N; e_x : N; e_ph : bph }.

Record iworld := mkI {
  i_marks : list N;          (* client, Persistence: identifiers with a reception marker *)
  i_owed : option up;        (* client, volatile: pendingAck *)
  i_on : bool;               (* a connection exists *)
  i_b2c : list down;
  i_c2b : list up;
  i_out : list ent;          (* broker session: messages in flight, in order *)
  i_next : N;                (* ghost: number of the next message *)
  i_deliv : list N;          (* ghost: numbers returned by ReadSlices, newest first *)
  i_lost : list N            (* ghost: process stops between return and marker Save *)
}.

Definition memb (id : N) (l : list N) : bool := existsb (N.eqb id) l.
Definition mark_add (id : N) (l : list N) : list N := if memb id l then l else id :: l.
Definition mark_del (id : N) (l : list N) : list N := remove N.eq_dec id l.
(* the flush saves a marker for a PUBREC only (pendingAck[0]>>4 == typePUBREC) *)
Definition save_marker (u : up) (l : list N) : list N :=
  match u with URec id _ => mark_add id l | UComp _ _ => l end.

Fixpoint cur (id : N) (out : list ent) : option ent :=
  match out with
  | [] => None
  | e :: r => if e_id e =? id then Some e else cur id r
  end.
Definition advance (id : N) (out : list ent) : list ent :=
  map (fun e => if e_id e =? id then mkE (e_id e) (e_x e) BComp else e) out.
Definition drop (id : N) (out : list ent) : list ent :=
  filter (fun e => negb (e_id e =? id)) out.
Definition resend_ent (e : ent) : down :=
  match e_ph e with BRec => DPub (e_id e) (e_x e) | BComp => DRel (e_id e) (e_x e) end.
Definition resend (out : list ent) : list down := map resend_ent out.

(* what a process stop does to the ghost list *)
Definition lost_after (mk : list N) (ow : option up) (ls : list N) : list N :=
  match ow with
  | Some (URec id x) => if memb id mk then ls else x :: ls
  | _ => ls
  end.

Inductive ilabel :=
| LNew | LDeliver | LDupe | LDupeFail | LPubrel | LPubrelFail | LFlush | LFlushFail | LSaveFail
| LBrokerRec | LBrokerRecAgain | LBrokerRecIgnore | LBrokerRecUnknown | LBrokerComp | LBrokerCompStale
| LBreak | LReconnect | LRestart.

Inductive istep : iworld -> ilabel -> iworld -> Prop :=
(* the broker starts a new message under an identifier that is not in flight *)
| I_new_on : forall mk ow b2c c2b out nx dl ls id,
    0 < id < 65536 -> cur id out = None ->
    istep (mkI mk ow true b2c c2b out nx dl ls) LNew
          (mkI mk ow true (b2c ++ [DPub id nx]) c2b (out ++ [mkE id nx BRec]) (nx + 1) dl ls)
| I_new_off : forall mk ow b2c c2b out nx dl ls id,
    0 < id < 65536 -> cur id out = None ->
    istep (mkI mk ow false b2c c2b out nx dl ls) LNew
          (mkI mk ow false b2c c2b (out ++ [mkE id nx BRec]) (nx + 1) dl ls)
(* the client reads the oldest packet (only with pendingAck empty: the flush comes first) *)
| I_deliver : forall mk q c2b out nx dl ls id x, ~ In id mk ->
    istep (mkI mk None true (DPub id x :: q) c2b out nx dl ls) LDeliver
          (mkI mk (Some (URec id x)) true q c2b out nx (x :: dl) ls)
| I_dupe : forall mk q c2b out nx dl ls id x, In id mk ->
    istep (mkI mk None true (DPub id x :: q) c2b out nx dl ls) LDupe
          (mkI mk None true q (c2b ++ [URec id x]) out nx dl ls)
| I_dupe_fail : forall mk q c2b out nx dl ls id x, In id mk ->
    istep (mkI mk None true (DPub id x :: q) c2b out nx dl ls) LDupeFail
          (mkI mk (Some (URec id x)) false [] [] out nx dl ls)
| I_pubrel : forall mk q c2b out nx dl ls id x,
    istep (mkI mk None true (DRel id x :: q) c2b out nx dl ls) LPubrel
          (mkI (mark_del id mk) None true q (c2b ++ [UComp id x]) out nx dl ls)
| I_pubrel_fail : forall mk q c2b out nx dl ls id x,
    istep (mkI mk None true (DRel id x :: q) c2b out nx dl ls) LPubrelFail
          (mkI (mark_del id mk) (Some (UComp id x)) false [] [] out nx dl ls)
(* the next ReadSlices call, first thing: marker Save (PUBREC only), then the write *)
| I_flush : forall mk u b2c c2b out nx dl ls,
    istep (mkI mk (Some u) true b2c c2b out nx dl ls) LFlush
          (mkI (save_marker u mk) None true b2c (c2b ++ [u]) out nx dl ls)
| I_flush_fail : forall mk u on b2c c2b out nx dl ls,
    istep (mkI mk (Some u) on b2c c2b out nx dl ls) LFlushFail
          (mkI (save_marker u mk) (Some u) false [] [] out nx dl ls)
| I_save_fail : forall mk id x on b2c c2b out nx dl ls,
    istep (mkI mk (Some (URec id x)) on b2c c2b out nx dl ls) LSaveFail
          (mkI mk (Some (URec id x)) on b2c c2b out nx dl ls)
(* the broker reads the oldest packet; it looks at the identifier only *)
| I_broker_rec : forall mk ow on b2c q out nx dl ls id x e,
    cur id out = Some e -> e_ph e = BRec ->
    istep (mkI mk ow on b2c (URec id x :: q) out nx dl ls) LBrokerRec
          (mkI mk ow on (b2c ++ [DRel id (e_x e)]) q (advance id out) nx dl ls)
| I_broker_rec_again : forall mk ow on b2c q out nx dl ls id x e,
    cur id out = Some e -> e_ph e = BComp ->
    istep (mkI mk ow on b2c (URec id x :: q) out nx dl ls) LBrokerRecAgain
          (mkI mk ow on (b2c ++ [DRel id (e_x e)]) q out nx dl ls)
| I_broker_rec_ignore : forall mk ow on b2c q out nx dl ls id x e,
    cur id out = Some e -> e_ph e = BComp ->
    istep (mkI mk ow on b2c (URec id x :: q) out nx dl ls) LBrokerRecIgnore
          (mkI mk ow on b2c q out nx dl ls)
| I_broker_rec_unknown : forall mk ow on b2c q out nx dl ls id x,
    cur id out = None ->
    istep (mkI mk ow on b2c (URec id x :: q) out nx dl ls) LBrokerRecUnknown
          (mkI mk ow on b2c q out nx dl ls)
| I_broker_comp : forall mk ow on b2c q out nx dl ls id x e,
    cur id out = Some e -> e_ph e = BComp ->
    istep (mkI mk ow on b2c (UComp id x :: q) out nx dl ls) LBrokerComp
          (mkI mk ow on b2c q (drop id out) nx dl ls)
| I_broker_comp_stale : forall mk ow on b2c q out nx dl ls id x,
    (forall e, cur id out = Some e -> e_ph e = BRec) ->
    istep (mkI mk ow on b2c (UComp id x :: q) out nx dl ls) LBrokerCompStale
          (mkI mk ow on b2c q out nx dl ls)
(* the connection breaks (any time, any side): everything in flight is lost *)
| I_break : forall mk ow on b2c c2b out nx dl ls,
    istep (mkI mk ow on b2c c2b out nx dl ls) LBreak
          (mkI mk ow false [] [] out nx dl ls)
(* connect (session present): the broker resends what is not acknowledged, in order *)
| I_reconnect : forall mk ow b2c c2b out nx dl ls,
    istep (mkI mk ow false b2c c2b out nx dl ls) LReconnect
          (mkI mk ow true (resend out) [] out nx dl ls)
(* the client process stops (any time); a new one adopts the session from the Persistence *)
| I_restart : forall mk ow on b2c c2b out nx dl ls,
    istep (mkI mk ow on b2c c2b out nx dl ls) LRestart
          (mkI mk None false [] [] out nx dl (lost_after mk ow ls)).

Definition iinit : iworld := mkI [] None false [] [] [] 0 [] [].

Inductive ireach : iworld -> Prop :=
| ir_init : ireach iinit
| ir_step : forall w l w', ireach w -> istep w l w' -> ireach w'.

(* ================================================================== *)
(* 2. Lists                                                            *)

Lemma memb_in id l : memb id l = true <-> In id l.
Proof.
  unfold memb. rewrite existsb_exists. split.
  - intros (y & Hin & E). apply N.eqb_eq in E. subst. exact Hin.
  - intros H. exists id. split; [exact H|apply N.eqb_refl].
Qed.

Lemma in_mark_add a id l : In a (mark_add id l) <-> a = id \/ In a l.
Proof.
  unfold mark_add. destruct (memb id l) eqn:E.
  - apply memb_in in E. split; [auto|]. intros [->|H]; assumption.
  - cbn [In]. split; intros [H|H]; auto.
Qed.

Lemma in_mark_del a id l : In a (mark_del id l) <-> In a l /\ a <> id.
Proof.
  unfold mark_del. split.
  - apply in_remove.
  - intros [H1 H2]. apply in_in_remove; assumption.
Qed.

Lemma in_save_marker a u l : In a l -> In a (save_marker u l).
Proof. destruct u; cbn [save_marker]; [|auto]. intros H. apply in_mark_add. auto. Qed.

Lemma nodup_snoc {A} (l : list A) a : NoDup l -> ~ In a l -> NoDup (l ++ [a]).
Proof.
  induction l as [|b l IH]; intros Hn Hi; cbn [app].
  - constructor; [intros []|constructor].
  - inversion Hn as [|? ? Hb Hl]; subst. constructor.
    + intros H. apply in_app_or in H. destruct H as [H|[<-|[]]]; [auto|]. apply Hi. left. reflexivity.
    + apply IH; [exact Hl|]. intros H. apply Hi. right. exact H.
Qed.

Lemma cur_some id out e : cur id out = Some e -> In e out /\ e_id e = id.
Proof.
  induction out as [|a r IH]; cbn [cur]; [discriminate|].
  destruct (e_id a =? id) eqn:E.
  - intros H. inversion H; subst. apply N.eqb_eq in E. split; [left; reflexivity|exact E].
  - intros H. destruct (IH H). split; [right|]; assumption.
Qed.

Lemma cur_none id out : cur id out = None -> forall e, In e out -> e_id e <> id.
Proof.
  induction out as [|a r IH]; cbn [cur]; [intros _ e []|].
  destruct (e_id a =? id) eqn:E; [discriminate|]. apply N.eqb_neq in E.
  intros H e [<-|Hin]; [exact E|exact (IH H e Hin)].
Qed.

Lemma ent_unique out : NoDup (map e_id out) -> forall e1 e2,
  In e1 out -> In e2 out -> e_id e1 = e_id e2 -> e1 = e2.
Proof.
  induction out as [|a r IH]; intros Hn e1 e2 H1 H2 E; [destruct H1|].
  cbn [map] in Hn. inversion Hn as [|? ? Ha Hr]; subst.
  destruct H1 as [<-|H1], H2 as [<-|H2].
  - reflexivity.
  - exfalso. apply Ha. rewrite E. apply in_map. exact H2.
  - exfalso. apply Ha. rewrite <- E. apply in_map. exact H1.
  - exact (IH Hr _ _ H1 H2 E).
Qed.

Lemma ent_unique_x out : NoDup (map e_x out) -> forall e1 e2,
  In e1 out -> In e2 out -> e_x e1 = e_x e2 -> e1 = e2.
Proof.
  induction out as [|a r IH]; intros Hn e1 e2 H1 H2 E; [destruct H1|].
  cbn [map] in Hn. inversion Hn as [|? ? Ha Hr]; subst.
  destruct H1 as [<-|H1], H2 as [<-|H2].
  - reflexivity.
  - exfalso. apply Ha. rewrite E. apply in_map. exact H2.
  - exfalso. apply Ha. rewrite <- E. apply in_map. exact H1.
  - exact (IH Hr _ _ H1 H2 E).
Qed.

Lemma cur_of_in out e : NoDup (map e_id out) -> In e out -> cur (e_id e) out = Some e.
Proof.
  intros Hn Hin. destruct (cur (e_id e) out) as [e'|] eqn:E.
  - destruct (cur_some _ _ _ E) as [Hin' Hid]. f_equal. exact (ent_unique _ Hn _ _ Hin' Hin Hid).
  - exfalso. exact (cur_none _ _ E e Hin eq_refl).
Qed.

Lemma advance_ids id out : map e_id (advance id out) = map e_id out.
Proof.
  unfold advance. rewrite map_map. apply map_ext. intros e. destruct (e_id e =? id); reflexivity.
Qed.
Lemma advance_xs id out : map e_x (advance id out) = map e_x out.
Proof.
  unfold advance. rewrite map_map. apply map_ext. intros e. destruct (e_id e =? id); reflexivity.
Qed.

(* an entry of [advance id out] comes from an entry of [out] with the same identifier and
   number; BRec entries were BRec before *)
Lemma in_advance_back id out i x p : In (mkE i x p) (advance id out) ->
  exists p', In (mkE i x p') out /\ (p = BRec -> p' = BRec) /\ (i <> id -> p' = p) /\
             (p' <> p -> i = id).
Proof.
  unfold advance. rewrite in_map_iff. intros ([i0 x0 p0] & E & Hin). cbn [e_id e_x] in E.
  destruct (i0 =? id) eqn:Ei.
  - apply N.eqb_eq in Ei. inversion E; subst. exists p0. split; [exact Hin|].
    split; [discriminate|]. split; [intros H; contradiction H; reflexivity|reflexivity].
  - inversion E; subst. exists p. split; [exact Hin|]. repeat split; auto. intros H; contradiction H; reflexivity.
Qed.

Lemma in_advance_other id out e : In e out -> e_id e <> id -> In e (advance id out).
Proof.
  intros Hin Hne. unfold advance. apply in_map_iff. exists e. split; [|exact Hin].
  apply N.eqb_neq in Hne. rewrite Hne. reflexivity.
Qed.

Lemma in_advance_hit id out x p : In (mkE id x p) out -> In (mkE id x BComp) (advance id out).
Proof.
  intros Hin. unfold advance. apply in_map_iff. exists (mkE id x p). split; [|exact Hin].
  cbn [e_id e_x]. rewrite N.eqb_refl. reflexivity.
Qed.

Lemma in_advance_comp id out i x : In (mkE i x BComp) out -> In (mkE i x BComp) (advance id out).
Proof.
  intros Hin. destruct (N.eq_dec i id) as [->|Hne].
  - eapply in_advance_hit; eassumption.
  - apply in_advance_other; assumption.
Qed.

Lemma in_advance_ex id out i x p : In (mkE i x p) out -> exists p', In (mkE i x p') (advance id out).
Proof.
  intros Hin. destruct (N.eq_dec i id) as [->|Hne].
  - exists BComp. eapply in_advance_hit; eassumption.
  - exists p. apply in_advance_other; assumption.
Qed.

Lemma in_drop id out e : In e (drop id out) <-> In e out /\ e_id e <> id.
Proof.
  unfold drop. rewrite filter_In. rewrite negb_true_iff, N.eqb_neq. tauto.
Qed.

Lemma nodup_map_filter {A} (f : A -> N) (g : A -> bool) l :
  NoDup (map f l) -> NoDup (map f (filter g l)).
Proof.
  induction l as [|a l IH]; cbn [map filter]; [auto|]. intros Hn.
  inversion Hn as [|? ? Ha Hl]; subst. destruct (g a); cbn [map]; [|auto].
  constructor; [|auto]. intros H. apply Ha. apply in_map_iff in H. destruct H as (b & E & Hb).
  apply filter_In in Hb. apply in_map_iff. exists b. tauto.
Qed.

Lemma in_resend_pub out id x : In (DPub id x) (resend out) <-> In (mkE id x BRec) out.
Proof.
  unfold resend. rewrite in_map_iff. split.
  - intros ([i y p] & E & Hin). unfold resend_ent in E. cbn [e_ph e_id e_x] in E.
    destruct p; inversion E; subst. exact Hin.
  - intros Hin. exists (mkE id x BRec). split; [reflexivity|exact Hin].
Qed.
Lemma in_resend_rel out id x : In (DRel id x) (resend out) <-> In (mkE id x BComp) out.
Proof.
  unfold resend. rewrite in_map_iff. split.
  - intros ([i y p] & E & Hin). unfold resend_ent in E. cbn [e_ph e_id e_x] in E.
    destruct p; inversion E; subst. exact Hin.
  - intros Hin. exists (mkE id x BComp). split; [reflexivity|exact Hin].
Qed.

(* ================================================================== *)
(* 3. The line: everything in flight, in causal order                  *)

(* key of a packet: identifier and position in the life of the identifier (2x for the PUBLISH
   of message x and its PUBREC, 2x+1 for the PUBREL and its PUBCOMP) *)
Definition uk (u : up) : N * N :=
  match u with URec id x => (id, 2 * x) | UComp id x => (id, 2 * x + 1) end.
Definition dk (d : down) : N * N :=
  match d with DPub id x => (id, 2 * x) | DRel id x => (id, 2 * x + 1) end.
Definition e_rank (e : ent) : N :=
  match e_ph e with BRec => 2 * e_x e | BComp => 2 * e_x e + 1 end.
Definition ek (e : ent) : N * N := (e_id e, e_rank e).

Definition ol (o : option up) : list up := match o with Some u => [u] | None => [] end.

(* oldest first: what the broker will read, what the client still has to write, what the client
   will read.  A client step moves a packet's key to the left without changing the list. *)
Definition line (w : iworld) : list (N * N) :=
  map uk (i_c2b w) ++ map uk (ol (i_owed w)) ++ map dk (i_b2c w).

Fixpoint ksorted (l : list (N * N)) : Prop :=
  match l with
  | [] => True
  | k :: r => (forall k', In k' r -> fst k' = fst k -> snd k <= snd k') /\ ksorted r
  end.

Lemma ksorted_snoc l k : ksorted l ->
  (forall k', In k' l -> fst k' = fst k -> snd k' <= snd k) -> ksorted (l ++ [k]).
Proof.
  induction l as [|a l IH]; cbn [app ksorted]; intros Hs Hk.
  - split; [intros k' []|exact I].
  - destruct Hs as [Ha Hl]. split.
    + intros k' Hin E. apply in_app_or in Hin. destruct Hin as [Hin|[<-|[]]]; [exact (Ha _ Hin E)|].
      apply Hk; [left; reflexivity|symmetry; exact E].
    + apply IH; [exact Hl|]. intros k' Hin. apply Hk. right. exact Hin.
Qed.

Lemma ksorted_app_r l1 l2 : ksorted (l1 ++ l2) -> ksorted l2.
Proof. induction l1 as [|a l IH]; cbn [app ksorted]; [auto|]. intros [_ H]. exact (IH H). Qed.

Lemma ksorted_cross l1 l2 : ksorted (l1 ++ l2) ->
  forall a b, In a l1 -> In b l2 -> fst b = fst a -> snd a <= snd b.
Proof.
  induction l1 as [|c l IH]; cbn [app ksorted]; intros Hs a b Ha Hb E; [destruct Ha|].
  destruct Hs as [Hc Hl]. destruct Ha as [<-|Ha].
  - apply Hc; [apply in_or_app; right; exact Hb|exact E].
  - exact (IH Hl _ _ Ha Hb E).
Qed.

(* r is at most the broker's own position for the identifier *)
Definition bnd (out : list ent) (nx : N) (k : N * N) : Prop :=
  snd k < 2 * nx /\ forall e, In e out -> e_id e = fst k -> snd k <= e_rank e.

Record LInv (ln : list (N * N)) (out : list ent) (nx : N) : Prop := mkL {
  l_ids : NoDup (map e_id out);
  l_xs : NoDup (map e_x out);
  l_xlt : forall e, In e out -> e_x e < nx;
  l_sort : ksorted ln;
  l_bnd : forall k, In k ln -> bnd out nx k;
  (* a PUBLISH or PUBREC in flight belongs to the message the broker holds under that identifier *)
  l_ev : forall id x, In (id, 2 * x) ln -> exists ph, In (mkE id x ph) out;
  (* while the broker awaits PUBCOMP, every PUBREL/PUBCOMP in flight is the one of that message *)
  l_od : forall id x x', In (id, 2 * x' + 1) ln -> In (mkE id x BComp) out -> x' = x
}.

Lemma linv_init : LInv [] [] 0.
Proof.
  constructor; cbn; try (constructor; fail); try (intros; contradiction).
Qed.

Lemma linv_pop k r out nx : LInv (k :: r) out nx -> LInv r out nx.
Proof.
  intros [H1 H1' H2 H3 H4 H5 H6]. constructor; try assumption.
  - exact (proj2 H3).
  - intros k' Hin. apply H4. right. exact Hin.
  - intros id x Hin. apply H5. right. exact Hin.
  - intros id x x' Hin. apply H6. right. exact Hin.
Qed.

Lemma linv_nil ln out nx : LInv ln out nx -> LInv [] out nx.
Proof.
  intros [H1 H1' H2 H3 H4 H5 H6]. constructor; try assumption; cbn; try (intros; contradiction). exact I.
Qed.

Lemma linv_sub1 ln out nx k : LInv ln out nx -> In k ln -> LInv [k] out nx.
Proof.
  intros [H1 H1' H2 H3 H4 H5 H6] Hin. constructor; try assumption.
  - cbn. split; [intros k' []|exact I].
  - intros k' [<-|[]]. exact (H4 _ Hin).
  - intros id x [E|[]]. subst k. exact (H5 _ _ Hin).
  - intros id x x' [E|[]]. subst k. exact (H6 _ _ _ Hin).
Qed.

(* the broker writes the packet of its own state for entry e *)
Lemma linv_push ln out nx e : LInv ln out nx -> In e out -> LInv (ln ++ [ek e]) out nx.
Proof.
  intros [H1 H1' H2 H3 H4 H5 H6] He. constructor; try assumption.
  - apply ksorted_snoc; [exact H3|]. intros k' Hin E. destruct (H4 _ Hin) as [_ Hb].
    cbn [ek fst snd] in *. apply Hb; [exact He|symmetry; exact E].
  - intros k Hin. apply in_app_or in Hin. destruct Hin as [Hin|[<-|[]]]; [exact (H4 _ Hin)|].
    split; cbn [ek fst snd].
    + pose proof (H2 _ He). unfold e_rank. destruct (e_ph e); lia.
    + intros e' He' E. rewrite (ent_unique _ H1 _ _ He' He E). lia.
  - intros id x Hin. apply in_app_or in Hin. destruct Hin as [Hin|[E|[]]]; [exact (H5 _ _ Hin)|].
    destruct e as [i y p]. unfold ek, e_rank in E. cbn [e_id e_x e_ph] in E.
    apply pair_equal_spec in E. destruct E as [Ei Er]. subst i. destruct p.
    + exists BRec. replace x with y by lia. exact He.
    + lia.
  - intros id x x' Hin Hc. apply in_app_or in Hin. destruct Hin as [Hin|[E|[]]]; [exact (H6 _ _ _ Hin Hc)|].
    unfold ek in E. apply pair_equal_spec in E. destruct E as [Ei Er].
    pose proof (ent_unique _ H1 _ _ He Hc Ei) as ->. unfold e_rank in Er. cbn [e_ph e_x] in Er. lia.
Qed.

Lemma linv_push_list l : forall ln out nx, LInv ln out nx -> incl l out ->
  LInv (ln ++ map ek l) out nx.
Proof.
  induction l as [|e l IH]; intros ln out nx HL Hi; cbn [map].
  - rewrite app_nil_r. exact HL.
  - change (ek e :: map ek l) with ([ek e] ++ map ek l). rewrite app_assoc. apply IH.
    + apply linv_push; [exact HL|]. apply Hi. left. reflexivity.
    + intros a Ha. apply Hi. right. exact Ha.
Qed.

Lemma dk_resend out : map dk (resend out) = map ek out.
Proof.
  unfold resend. rewrite map_map. apply map_ext. intros [i x p]. destruct p; reflexivity.
Qed.

(* a new message under an identifier that is not in flight *)
Lemma linv_new ln out nx id : LInv ln out nx -> cur id out = None ->
  LInv ln (out ++ [mkE id nx BRec]) (nx + 1).
Proof.
  intros [H1 H1' H2 H3 H4 H5 H6] Hc. pose proof (cur_none _ _ Hc) as Hn. constructor.
  - rewrite map_app. cbn [map e_id]. apply nodup_snoc; [exact H1|].
    intros Hin. apply in_map_iff in Hin. destruct Hin as (e & E & He). exact (Hn e He E).
  - rewrite map_app. cbn [map e_x]. apply nodup_snoc; [exact H1'|].
    intros Hin. apply in_map_iff in Hin. destruct Hin as (e & E & He). pose proof (H2 e He). lia.
  - intros e He. apply in_app_or in He. destruct He as [He|[<-|[]]]; [pose proof (H2 e He); lia|cbn; lia].
  - exact H3.
  - intros k Hin. destruct (H4 k Hin) as [Hlt Hb]. split; [lia|].
    intros e He E. apply in_app_or in He. destruct He as [He|[<-|[]]]; [exact (Hb e He E)|].
    unfold e_rank. cbn [e_ph e_x]. lia.
  - intros i x Hin. destruct (H5 i x Hin) as (ph & Hp). exists ph. apply in_or_app. left. exact Hp.
  - intros i x x' Hin Hp. apply in_app_or in Hp. destruct Hp as [Hp|[E|[]]]; [exact (H6 _ _ _ Hin Hp)|].
    inversion E.
Qed.

(* PUBREC id read in state BRec *)
Lemma linv_advance id x r out nx e : LInv ((id, 2 * x) :: r) out nx ->
  cur id out = Some e -> e_ph e = BRec ->
  e = mkE id x BRec /\ LInv r (advance id out) nx.
Proof.
  intros HL Hc Hp. destruct (cur_some _ _ _ Hc) as [He Hid].
  pose proof HL as [H1 H1' H2 H3 H4 H5 H6].
  destruct (H5 id x (or_introl eq_refl)) as (ph & Hx).
  pose proof (ent_unique _ H1 _ _ He Hx Hid) as E. subst e. cbn [e_ph] in Hp. subst ph.
  split; [reflexivity|].
  (* after the head only keys (id, 2x) of this identifier *)
  assert (Hev : forall k, In k r -> fst k = id -> snd k = 2 * x).
  { intros k Hin E. destruct H3 as [Hh _]. specialize (Hh k Hin E). cbn [snd] in Hh.
    destruct (H4 k (or_intror Hin)) as [_ Hb]. specialize (Hb _ Hx (eq_sym E)).
    unfold e_rank in Hb. cbn [e_ph e_x] in Hb. lia. }
  constructor.
  - rewrite advance_ids. exact H1.
  - rewrite advance_xs. exact H1'.
  - intros [i y p] Hin. destruct (in_advance_back _ _ _ _ _ Hin) as (p' & Hin' & _). exact (H2 _ Hin').
  - exact (proj2 H3).
  - intros k Hin. destruct (H4 k (or_intror Hin)) as [Hlt Hb]. split; [exact Hlt|].
    intros [i y p] Hin' E. destruct (in_advance_back _ _ _ _ _ Hin') as (p' & Ho & Hbr & _ & Hd).
    specialize (Hb _ Ho E). unfold e_rank in *. cbn [e_ph e_x] in *.
    destruct p, p'; try lia. specialize (Hbr eq_refl). discriminate.
  - intros i y Hin. destruct (H5 i y (or_intror Hin)) as (ph & Hy). eapply in_advance_ex. exact Hy.
  - intros i y y' Hin Hy. destruct (in_advance_back _ _ _ _ _ Hy) as (p' & Ho & _ & Hne & Hd).
    destruct (N.eq_dec i id) as [->|Hn].
    + specialize (Hev _ Hin eq_refl). cbn [snd] in Hev. lia.
    + rewrite (Hne Hn) in Ho. exact (H6 _ _ _ (or_intror Hin) Ho).
Qed.

(* PUBCOMP id read in state BComp *)
Lemma linv_drop id x r out nx e : LInv ((id, 2 * x + 1) :: r) out nx ->
  cur id out = Some e -> e_ph e = BComp ->
  e = mkE id x BComp /\ LInv r (drop id out) nx.
Proof.
  intros HL Hc Hp. destruct (cur_some _ _ _ Hc) as [He Hid].
  pose proof HL as [H1 H1' H2 H3 H4 H5 H6].
  destruct e as [i y p]. cbn [e_id e_ph] in *. subst i p.
  pose proof (H6 id y x (or_introl eq_refl) He) as ->.
  split; [reflexivity|]. constructor.
  - apply nodup_map_filter. exact H1.
  - apply nodup_map_filter. exact H1'.
  - intros e Hin. apply in_drop in Hin. apply H2, Hin.
  - exact (proj2 H3).
  - intros k Hin. destruct (H4 k (or_intror Hin)) as [Hlt Hb]. split; [exact Hlt|].
    intros e Hin' E. apply in_drop in Hin'. exact (Hb _ (proj1 Hin') E).
  - intros i x Hin. destruct (H5 i x (or_intror Hin)) as (ph & Hx). exists ph. apply in_drop.
    split; [exact Hx|]. cbn [e_id]. intros ->.
    pose proof (ent_unique _ H1 _ _ Hx He eq_refl) as E. inversion E; subst.
    destruct H3 as [Hh _]. specialize (Hh _ Hin eq_refl). cbn [snd] in Hh. lia.
  - intros i x x' Hin Hx. apply in_drop in Hx. exact (H6 _ _ _ (or_intror Hin) (proj1 Hx)).
Qed.

(* ================================================================== *)
(* 4. The invariant                                                    *)

Definition cl (w : iworld) : list up := i_c2b w ++ ol (i_owed w).

(* the client holds the evidence that it returned message x under identifier id *)
Definition covered (w : iworld) (id x : N) : Prop :=
  In id (i_marks w) \/ i_owed w = Some (URec id x).

(* on a live connection something is under way for every entry of the broker *)
Definition witness (w : iworld) (e : ent) : Prop :=
  match e_ph e with
  | BRec => In (DPub (e_id e) (e_x e)) (i_b2c w) \/ In (URec (e_id e) (e_x e)) (cl w)
  | BComp => In (DRel (e_id e) (e_x e)) (i_b2c w) \/ In (UComp (e_id e) (e_x e)) (cl w)
  end.

Definition cnt (l : list N) (x : N) : nat := count_occ N.eq_dec l x.

Record IInv (w : iworld) : Prop := mkIInv {
  iv_l : LInv (line w) (i_out w) (i_next w);
  iv_off : i_on w = false -> i_b2c w = [] /\ i_c2b w = [];
  iv_dlt : forall x, In x (i_deliv w) -> x < i_next w;
  iv_lostd : forall x, In x (i_lost w) -> In x (i_deliv w);
  (* a marker belongs to the message in flight under that identifier, and that was returned *)
  iv_M : forall id, In id (i_marks w) ->
           exists x ph, In (mkE id x ph) (i_out w) /\ In x (i_deliv w);
  (* with a marker present every PUBREL on its way to the client is the current one *)
  iv_M3 : forall id x, In id (i_marks w) -> In (DRel id x) (i_b2c w) -> In (mkE id x BComp) (i_out w);
  (* once the PUBCOMP of the current message is written or pending, the marker is gone *)
  iv_C1 : forall id x, In (UComp id x) (cl w) -> In (mkE id x BComp) (i_out w) -> ~ In id (i_marks w);
  iv_G : forall x, (cnt (i_deliv w) x <= 1 + cnt (i_lost w) x)%nat;
  (* as long as a PUBLISH of x can still arrive, x was not returned (beyond the lost ones)
     or the client holds the evidence *)
  iv_SA : forall id x ph, In (mkE id x ph) (i_out w) -> ph = BRec \/ In (DPub id x) (i_b2c w) ->
            (cnt (i_deliv w) x <= cnt (i_lost w) x)%nat \/ covered w id x;
  iv_E : forall x, x < i_next w -> In x (i_deliv w) \/ exists id, In (mkE id x BRec) (i_out w);
  iv_R : forall id x, In (URec id x) (cl w) -> In x (i_deliv w);
  iv_P : i_on w = true -> forall e, In e (i_out w) -> witness w e
}.

Lemma in_line_d w d : In d (i_b2c w) -> In (dk d) (line w).
Proof. intros H. unfold line. apply in_or_app. right. apply in_or_app. right. apply in_map. exact H. Qed.
Lemma in_line_u w u : In u (cl w) -> In (uk u) (line w).
Proof.
  unfold cl, line. intros H. apply in_app_or in H. destruct H as [H|H].
  - apply in_or_app. left. apply in_map. exact H.
  - apply in_or_app. right. apply in_or_app. left. apply in_map. exact H.
Qed.

Section Derived.
  Variable w : iworld.
  Hypothesis HL : LInv (line w) (i_out w) (i_next w).

  Lemma pub_current id x : In (DPub id x) (i_b2c w) -> exists ph, In (mkE id x ph) (i_out w).
  Proof. intros H. apply (l_ev _ _ _ HL). exact (in_line_d _ _ H). Qed.
  Lemma rec_current id x : In (URec id x) (cl w) -> exists ph, In (mkE id x ph) (i_out w).
  Proof. intros H. apply (l_ev _ _ _ HL). exact (in_line_u _ _ H). Qed.
  Lemma rel_current id x x' : In (DRel id x') (i_b2c w) -> In (mkE id x BComp) (i_out w) -> x' = x.
  Proof. intros H. apply (l_od _ _ _ HL). exact (in_line_d _ _ H). Qed.
  Lemma comp_current id x x' : In (UComp id x') (cl w) -> In (mkE id x BComp) (i_out w) -> x' = x.
  Proof. intros H. apply (l_od _ _ _ HL). exact (in_line_u _ _ H). Qed.
  Lemma d_bnd d e : In d (i_b2c w) -> In e (i_out w) -> e_id e = fst (dk d) -> snd (dk d) <= e_rank e.
  Proof. intros H. apply (l_bnd _ _ _ HL). exact (in_line_d _ _ H). Qed.
  Lemma u_bnd u e : In u (cl w) -> In e (i_out w) -> e_id e = fst (uk u) -> snd (uk u) <= e_rank e.
  Proof. intros H. apply (l_bnd _ _ _ HL). exact (in_line_u _ _ H). Qed.
  Lemma ent_uniq e1 e2 : In e1 (i_out w) -> In e2 (i_out w) -> e_id e1 = e_id e2 -> e1 = e2.
  Proof. apply ent_unique. exact (l_ids _ _ _ HL). Qed.
  Lemma ent_uniq_x e1 e2 : In e1 (i_out w) -> In e2 (i_out w) -> e_x e1 = e_x e2 -> e1 = e2.
  Proof. apply ent_unique_x. exact (l_xs _ _ _ HL). Qed.
  (* the client's part of the line precedes what it still has to read *)
  Lemma u_before_d u d : In u (cl w) -> In d (i_b2c w) -> fst (dk d) = fst (uk u) -> snd (uk u) <= snd (dk d).
  Proof.
    intros Hu Hd. pose proof (l_sort _ _ _ HL) as Hs. unfold line in Hs. rewrite app_assoc in Hs.
    apply (ksorted_cross _ _ Hs).
    - rewrite <- map_app. apply in_map. exact Hu.
    - apply in_map. exact Hd.
  Qed.
  Lemma c2b_before_owed u' u : In u' (i_c2b w) -> i_owed w = Some u -> fst (uk u) = fst (uk u') ->
    snd (uk u') <= snd (uk u).
  Proof.
    intros Hu Ho. pose proof (l_sort _ _ _ HL) as Hs. unfold line in Hs.
    apply (ksorted_cross _ _ Hs).
    - apply in_map. exact Hu.
    - apply in_or_app. left. rewrite Ho. left. reflexivity.
  Qed.
  Lemma b2c_sorted : ksorted (map dk (i_b2c w)).
  Proof.
    pose proof (l_sort _ _ _ HL) as Hs. unfold line in Hs.
    apply ksorted_app_r in Hs. apply ksorted_app_r in Hs. exact Hs.
  Qed.
End Derived.

Lemma iinv_init : IInv iinit.
Proof.
  constructor; cbn; try (intros; contradiction); try (intros; lia); auto.
  apply linv_init.
Qed.

Ltac iproj := cbn [i_marks i_owed i_on i_b2c i_c2b i_out i_next i_deliv i_lost ol] in *.
Ltac iopen H :=
  let HL := fresh "HL" in
  pose proof (iv_l _ H) as HL;
  destruct H as [_ Hoff Hdlt Hlostd HM HM3 HC1 HG HSA HE HR HP];
  unfold witness, covered, cl in *; iproj.

Lemma cnt_cons_le l x y : (cnt l y <= cnt (x :: l) y)%nat.
Proof. unfold cnt. cbn [count_occ]. destruct (N.eq_dec x y); lia. Qed.
Lemma cnt_zero l x : ~ In x l -> cnt l x = 0%nat.
Proof. apply count_occ_not_In. Qed.
Lemma cnt_cons_eq l x : cnt (x :: l) x = S (cnt l x).
Proof. unfold cnt. apply count_occ_cons_eq. reflexivity. Qed.
Lemma cnt_cons_neq l x y : x <> y -> cnt (x :: l) y = cnt l y.
Proof. unfold cnt. apply count_occ_cons_neq. Qed.

(* ---- every step keeps the invariant ---- *)

Ltac in_app_cases H := repeat (apply in_app_or in H; destruct H as [H|H]).

Lemma step_deliver mk q c2b out nx dl ls id x :
  IInv (mkI mk None true (DPub id x :: q) c2b out nx dl ls) -> ~ In id mk ->
  IInv (mkI mk (Some (URec id x)) true q c2b out nx (x :: dl) ls).
Proof.
  intros H Hnm. iopen H.
  destruct (pub_current _ HL id x (or_introl eq_refl)) as (ph & Hcur). iproj.
  constructor; unfold witness, covered, cl; iproj.
  - exact HL.
  - discriminate.
  - intros x' [<-|Hx]; [exact (l_xlt _ _ _ HL _ Hcur)|auto].
  - intros x' Hx. right. auto.
  - intros i Hi. destruct (HM i Hi) as (y & p & H1 & H2). exists y, p. split; [exact H1|right; exact H2].
  - intros i y Hi Hd. apply HM3; [exact Hi|right; exact Hd].
  - intros i y Hu. apply (HC1 i y). in_app_cases Hu.
    + apply in_or_app. left. exact Hu.
    + destruct Hu as [Hu|[]]. discriminate.
  - intros x'. destruct (N.eq_dec x x') as [<-|Hne].
    + rewrite cnt_cons_eq.
      destruct (HSA id x ph Hcur (or_intror (or_introl eq_refl))) as [Hc|[Hc|Hc]];
        [lia|contradiction|discriminate].
    + rewrite cnt_cons_neq by exact Hne. apply HG.
  - intros i y p Hi Hh.
    destruct (HSA i y p Hi) as [Hc|[Hc|Hc]]; [destruct Hh; [left|right; right]; assumption| | |discriminate].
    + destruct (N.eq_dec x y) as [<-|Hne].
      * right. right. pose proof (ent_uniq_x _ HL _ _ Hi Hcur eq_refl) as E. inversion E. reflexivity.
      * left. rewrite cnt_cons_neq by exact Hne. exact Hc.
    + right. left. exact Hc.
  - intros x' Hx. destruct (HE x' Hx) as [Hd|Hd]; [left; right; exact Hd|right; exact Hd].
  - intros i y Hu. in_app_cases Hu.
    + right. apply (HR i y). apply in_or_app. left. exact Hu.
    + destruct Hu as [Hu|[]]. inversion Hu. left. reflexivity.
  - intros _ e He. specialize (HP eq_refl e He). destruct (e_ph e).
    + destruct HP as [[Hp|Hp]|Hp].
      * right. apply in_or_app. right. left. inversion Hp. reflexivity.
      * left. exact Hp.
      * right. rewrite app_nil_r in Hp. apply in_or_app. left. exact Hp.
    + destruct HP as [[Hp|Hp]|Hp].
      * discriminate.
      * left. exact Hp.
      * right. rewrite app_nil_r in Hp. apply in_or_app. left. exact Hp.
Qed.

Lemma dupe_delivered mk ow on q c2b out nx dl ls id x :
  IInv (mkI mk ow on (DPub id x :: q) c2b out nx dl ls) -> In id mk -> In x dl.
Proof.
  intros H Hm. iopen H.
  destruct (pub_current _ HL id x (or_introl eq_refl)) as (ph & Hcur). iproj.
  destruct (HM id Hm) as (y & p & H1 & H2).
  pose proof (ent_uniq _ HL _ _ H1 Hcur eq_refl) as E. inversion E; subst. exact H2.
Qed.

Lemma step_dupe mk q c2b out nx dl ls id x :
  IInv (mkI mk None true (DPub id x :: q) c2b out nx dl ls) -> In id mk ->
  IInv (mkI mk None true q (c2b ++ [URec id x]) out nx dl ls).
Proof.
  intros H Hm. pose proof (dupe_delivered _ _ _ _ _ _ _ _ _ _ _ H Hm) as Hdel. iopen H.
  constructor; unfold witness, covered, cl; iproj.
  - unfold line in *. iproj. cbn [map app dk] in HL. cbn [map app].
    rewrite map_app, <- app_assoc. exact HL.
  - discriminate.
  - exact Hdlt.
  - exact Hlostd.
  - exact HM.
  - intros i y Hi Hd. apply HM3; [exact Hi|right; exact Hd].
  - intros i y Hu. apply (HC1 i y). rewrite app_nil_r in *. in_app_cases Hu.
    + exact Hu.
    + destruct Hu as [Hu|[]]. discriminate.
  - exact HG.
  - intros i y p Hi Hh. apply (HSA i y p Hi). destruct Hh; [left|right; right]; assumption.
  - exact HE.
  - intros i y Hu. rewrite app_nil_r in *. in_app_cases Hu.
    + apply (HR i y). exact Hu.
    + destruct Hu as [Hu|[]]. inversion Hu; subst. exact Hdel.
  - intros _ e He. specialize (HP eq_refl e He). rewrite app_nil_r in *. destruct (e_ph e).
    + destruct HP as [[Hp|Hp]|Hp].
      * right. apply in_or_app. right. left. inversion Hp. reflexivity.
      * left. exact Hp.
      * right. apply in_or_app. left. exact Hp.
    + destruct HP as [[Hp|Hp]|Hp].
      * discriminate.
      * left. exact Hp.
      * right. apply in_or_app. left. exact Hp.
Qed.

Lemma step_dupe_fail mk q c2b out nx dl ls id x :
  IInv (mkI mk None true (DPub id x :: q) c2b out nx dl ls) -> In id mk ->
  IInv (mkI mk (Some (URec id x)) false [] [] out nx dl ls).
Proof.
  intros H Hm. pose proof (dupe_delivered _ _ _ _ _ _ _ _ _ _ _ H Hm) as Hdel. iopen H.
  constructor; unfold witness, covered, cl; iproj.
  - apply (linv_sub1 _ _ _ (id, 2 * x) HL). unfold line. iproj. cbn [map app dk].
    apply in_or_app. right. left. reflexivity.
  - auto.
  - exact Hdlt.
  - exact Hlostd.
  - exact HM.
  - intros i y _ [].
  - intros i y [Hu|[]]. discriminate.
  - exact HG.
  - intros i y p Hi [Hh|[]]. destruct (HSA i y p Hi (or_introl Hh)) as [Hc|[Hc|Hc]]; [auto|auto|discriminate].
  - exact HE.
  - intros i y [Hu|[]]. inversion Hu; subst. exact Hdel.
  - discriminate.
Qed.

(* a PUBREL at the head of b2c: if a marker is present it is the current message's, the broker
   awaits PUBCOMP and no PUBLISH of it follows *)
Lemma pubrel_facts mk ow on q c2b out nx dl ls id x :
  IInv (mkI mk ow on (DRel id x :: q) c2b out nx dl ls) -> In id mk ->
  In (mkE id x BComp) out /\ ~ In (DPub id x) q.
Proof.
  intros H Hm. iopen H. pose proof (HM3 id x Hm (or_introl eq_refl)) as Hc. split; [exact Hc|].
  intros Hq. pose proof (b2c_sorted _ HL) as Hs. iproj. cbn [map dk ksorted] in Hs.
  destruct Hs as [Hs _]. specialize (Hs (dk (DPub id x)) (in_map dk _ _ Hq) eq_refl).
  cbn [dk snd] in Hs. lia.
Qed.

Lemma step_pubrel mk q c2b out nx dl ls id x :
  IInv (mkI mk None true (DRel id x :: q) c2b out nx dl ls) ->
  IInv (mkI (mark_del id mk) None true q (c2b ++ [UComp id x]) out nx dl ls).
Proof.
  intros H. pose proof (pubrel_facts _ _ _ _ _ _ _ _ _ _ _ H) as Hf. iopen H.
  constructor; unfold witness, covered, cl; iproj.
  - unfold line in *. iproj. cbn [map app dk] in HL. cbn [map app].
    rewrite map_app, <- app_assoc. exact HL.
  - discriminate.
  - exact Hdlt.
  - exact Hlostd.
  - intros i Hi. apply in_mark_del in Hi. apply HM, Hi.
  - intros i y Hi Hd. apply in_mark_del in Hi. apply HM3; [apply Hi|right; exact Hd].
  - intros i y Hu Hc Hi. apply in_mark_del in Hi. destruct Hi as [Hi Hne].
    rewrite app_nil_r in *. in_app_cases Hu.
    + exact (HC1 i y Hu Hc Hi).
    + destruct Hu as [Hu|[]]. inversion Hu; subst. contradiction Hne; reflexivity.
  - exact HG.
  - intros i y p Hi Hh.
    destruct (HSA i y p Hi) as [Hc|[Hc|Hc]]; [destruct Hh; [left|right; right]; assumption| | |discriminate].
    + left. exact Hc.
    + destruct (N.eq_dec i id) as [->|Hne].
      * exfalso. destruct (Hf Hc) as [Hcur Hnq].
        pose proof (ent_uniq _ HL _ _ Hi Hcur eq_refl) as E. inversion E; subst.
        destruct Hh as [Hh|Hh]; [discriminate|contradiction].
      * right. left. apply in_mark_del. split; assumption.
  - exact HE.
  - intros i y Hu. rewrite app_nil_r in *. in_app_cases Hu.
    + apply (HR i y). exact Hu.
    + destruct Hu as [Hu|[]]. discriminate.
  - intros _ e He. specialize (HP eq_refl e He). rewrite app_nil_r in *. destruct (e_ph e).
    + destruct HP as [[Hp|Hp]|Hp].
      * discriminate.
      * left. exact Hp.
      * right. apply in_or_app. left. exact Hp.
    + destruct HP as [[Hp|Hp]|Hp].
      * right. apply in_or_app. right. left. inversion Hp. reflexivity.
      * left. exact Hp.
      * right. apply in_or_app. left. exact Hp.
Qed.

Lemma step_pubrel_fail mk q c2b out nx dl ls id x :
  IInv (mkI mk None true (DRel id x :: q) c2b out nx dl ls) ->
  IInv (mkI (mark_del id mk) (Some (UComp id x)) false [] [] out nx dl ls).
Proof.
  intros H. pose proof (pubrel_facts _ _ _ _ _ _ _ _ _ _ _ H) as Hf. iopen H.
  constructor; unfold witness, covered, cl; iproj.
  - apply (linv_sub1 _ _ _ (id, 2 * x + 1) HL). unfold line. iproj. cbn [map app dk].
    apply in_or_app. right. left. reflexivity.
  - auto.
  - exact Hdlt.
  - exact Hlostd.
  - intros i Hi. apply in_mark_del in Hi. apply HM, Hi.
  - intros i y _ [].
  - intros i y [Hu|[]] Hc Hi. apply in_mark_del in Hi. inversion Hu; subst. destruct Hi as [_ Hne].
    contradiction Hne; reflexivity.
  - exact HG.
  - intros i y p Hi [Hh|[]]. destruct (HSA i y p Hi (or_introl Hh)) as [Hc|[Hc|Hc]]; [auto| |discriminate].
    destruct (N.eq_dec i id) as [->|Hne].
    + exfalso. destruct (Hf Hc) as [Hcur _].
      pose proof (ent_uniq _ HL _ _ Hi Hcur eq_refl) as E. inversion E; subst. discriminate.
    + right. left. apply in_mark_del. split; assumption.
  - exact HE.
  - intros i y [Hu|[]]. discriminate.
  - discriminate.
Qed.

(* the flush: what the marker Save of a pending PUBREC may rely on *)
Lemma flush_facts mk on b2c c2b out nx dl ls id x :
  IInv (mkI mk (Some (URec id x)) on b2c c2b out nx dl ls) ->
  (exists ph, In (mkE id x ph) out) /\ In x dl /\
  (forall y, In (DRel id y) b2c -> In (mkE id y BComp) out) /\
  (forall y, In (UComp id y) c2b -> ~ In (mkE id y BComp) out).
Proof.
  intros H. iopen H.
  assert (Hin : In (URec id x) (cl (mkI mk (Some (URec id x)) on b2c c2b out nx dl ls))).
  { unfold cl. iproj. apply in_or_app. right. left. reflexivity. }
  destruct (rec_current _ HL id x Hin) as (ph & Hcur). iproj.
  split; [exists ph; exact Hcur|]. split; [apply (HR id x); apply in_or_app; right; left; reflexivity|].
  split.
  - intros y Hd. pose proof (u_before_d _ HL _ _ Hin Hd eq_refl) as H1.
    pose proof (d_bnd _ HL _ _ Hd Hcur eq_refl) as H2. unfold e_rank in H2. cbn [uk dk snd e_ph e_x] in *.
    destruct ph; [lia|]. replace y with x by lia. exact Hcur.
  - intros y Hu Hc. pose proof (ent_uniq _ HL _ _ Hc Hcur eq_refl) as E. inversion E; subst.
    pose proof (c2b_before_owed _ HL _ _ Hu eq_refl eq_refl) as H1. cbn [uk snd] in H1. lia.
Qed.

Lemma marks_after_flush mk on b2c c2b out nx dl ls u :
  IInv (mkI mk (Some u) on b2c c2b out nx dl ls) ->
  (forall id, In id (save_marker u mk) -> exists x ph, In (mkE id x ph) out /\ In x dl) /\
  (forall id x, In (UComp id x) (c2b ++ [u]) -> In (mkE id x BComp) out -> ~ In id (save_marker u mk)) /\
  (forall id x, In id (save_marker u mk) -> In (DRel id x) b2c -> In (mkE id x BComp) out).
Proof.
  intros H. destruct u as [id x|id x]; cbn [save_marker].
  - destruct (flush_facts _ _ _ _ _ _ _ _ _ _ H) as ((ph & Hcur) & Hdel & Hrel & Hcomp). iopen H.
    split; [|split].
    + intros i Hi. apply in_mark_add in Hi. destruct Hi as [->|Hi]; [|exact (HM i Hi)].
      exists x, ph. split; assumption.
    + intros i y Hu Hc Hi. apply in_mark_add in Hi. destruct Hi as [->|Hi]; [|exact (HC1 i y Hu Hc Hi)].
      in_app_cases Hu; [exact (Hcomp y Hu Hc)|]. destruct Hu as [Hu|[]]. discriminate.
    + intros i y Hi Hd. apply in_mark_add in Hi. destruct Hi as [->|Hi]; [exact (Hrel y Hd)|exact (HM3 i y Hi Hd)].
  - iopen H. split; [exact HM|]. split; [exact HC1|exact HM3].
Qed.

Lemma step_flush mk u b2c c2b out nx dl ls :
  IInv (mkI mk (Some u) true b2c c2b out nx dl ls) ->
  IInv (mkI (save_marker u mk) None true b2c (c2b ++ [u]) out nx dl ls).
Proof.
  intros H. destruct (marks_after_flush _ _ _ _ _ _ _ _ _ H) as (Hm1 & Hm2 & Hm3). iopen H.
  constructor; unfold witness, covered, cl; iproj; try rewrite app_nil_r.
  - unfold line in *. iproj. cbn [map app] in *. rewrite map_app, <- app_assoc. exact HL.
  - discriminate.
  - exact Hdlt.
  - exact Hlostd.
  - exact Hm1.
  - exact Hm3.
  - exact Hm2.
  - exact HG.
  - intros i y p Hi Hh. destruct (HSA i y p Hi Hh) as [Hc|[Hc|Hc]]; [auto| |].
    + right. left. apply in_save_marker. exact Hc.
    + right. left. inversion Hc. cbn [save_marker]. apply in_mark_add. left. reflexivity.
  - exact HE.
  - exact HR.
  - intros _ e He. exact (HP eq_refl e He).
Qed.

Lemma step_flush_fail mk u on b2c c2b out nx dl ls :
  IInv (mkI mk (Some u) on b2c c2b out nx dl ls) ->
  IInv (mkI (save_marker u mk) (Some u) false [] [] out nx dl ls).
Proof.
  intros H. destruct (marks_after_flush _ _ _ _ _ _ _ _ _ H) as (Hm1 & Hm2 & Hm3). iopen H.
  constructor; unfold witness, covered, cl; iproj.
  - apply (linv_sub1 _ _ _ (uk u) HL). unfold line. iproj. cbn [map app].
    apply in_or_app. right. left. reflexivity.
  - auto.
  - exact Hdlt.
  - exact Hlostd.
  - exact Hm1.
  - intros i y _ [].
  - intros i y Hu. apply Hm2. apply in_or_app. right. exact Hu.
  - exact HG.
  - intros i y p Hi [Hh|[]]. destruct (HSA i y p Hi (or_introl Hh)) as [Hc|[Hc|Hc]]; [auto| |auto].
    right. left. apply in_save_marker. exact Hc.
  - exact HE.
  - intros i y Hu. apply (HR i y). apply in_or_app. right. exact Hu.
  - discriminate.
Qed.

Lemma step_new_on mk ow b2c c2b out nx dl ls id :
  IInv (mkI mk ow true b2c c2b out nx dl ls) -> cur id out = None ->
  IInv (mkI mk ow true (b2c ++ [DPub id nx]) c2b (out ++ [mkE id nx BRec]) (nx + 1) dl ls).
Proof.
  intros H Hc. iopen H. constructor; unfold witness, covered, cl; iproj.
  - unfold line in *. iproj. rewrite map_app, !app_assoc. cbn [map dk].
    change (id, 2 * nx) with (ek (mkE id nx BRec)). apply linv_push.
    + rewrite <- app_assoc. apply linv_new; assumption.
    + apply in_or_app. right. left. reflexivity.
  - discriminate.
  - intros x Hx. specialize (Hdlt x Hx). lia.
  - exact Hlostd.
  - intros i Hi. destruct (HM i Hi) as (y & p & H1 & H2). exists y, p. split; [apply in_or_app; left; exact H1|exact H2].
  - intros i y Hi Hd. apply in_or_app. left. in_app_cases Hd; [exact (HM3 i y Hi Hd)|].
    destruct Hd as [Hd|[]]. discriminate.
  - intros i y Hu Hc'. in_app_cases Hc'; [exact (HC1 i y Hu Hc')|]. destruct Hc' as [Hc'|[]]. discriminate.
  - exact HG.
  - intros i y p Hi Hh. in_app_cases Hi.
    + apply (HSA i y p Hi). destruct Hh as [Hh|Hh]; [left; exact Hh|]. in_app_cases Hh; [right; exact Hh|].
      destruct Hh as [Hh|[]]. inversion Hh; subst. pose proof (l_xlt _ _ _ HL _ Hi). cbn [e_x] in *. lia.
    + destruct Hi as [Hi|[]]. inversion Hi; subst. left. rewrite cnt_zero; [lia|].
      intros Hd. specialize (Hdlt _ Hd). lia.
  - intros x Hx. destruct (N.eq_dec x nx) as [->|Hne].
    + right. exists id. apply in_or_app. right. left. reflexivity.
    + destruct (HE x ltac:(lia)) as [Hd|(i & Hd)]; [left; exact Hd|right]. exists i. apply in_or_app. left. exact Hd.
  - exact HR.
  - intros _ e He. in_app_cases He.
    + specialize (HP eq_refl e He). destruct (e_ph e); (destruct HP as [Hp|Hp]; [left; apply in_or_app; left; exact Hp|right; exact Hp]).
    + destruct He as [<-|[]]. cbn [e_ph e_id e_x]. left. apply in_or_app. right. left. reflexivity.
Qed.

Lemma step_new_off mk ow b2c c2b out nx dl ls id :
  IInv (mkI mk ow false b2c c2b out nx dl ls) -> cur id out = None ->
  IInv (mkI mk ow false b2c c2b (out ++ [mkE id nx BRec]) (nx + 1) dl ls).
Proof.
  intros H Hc. iopen H. constructor; unfold witness, covered, cl; iproj.
  - unfold line in *. iproj. apply linv_new; assumption.
  - exact Hoff.
  - intros x Hx. specialize (Hdlt x Hx). lia.
  - exact Hlostd.
  - intros i Hi. destruct (HM i Hi) as (y & p & H1 & H2). exists y, p. split; [apply in_or_app; left; exact H1|exact H2].
  - intros i y Hi Hd. apply in_or_app. left. exact (HM3 i y Hi Hd).
  - intros i y Hu Hc'. in_app_cases Hc'; [exact (HC1 i y Hu Hc')|]. destruct Hc' as [Hc'|[]]. discriminate.
  - exact HG.
  - intros i y p Hi Hh. in_app_cases Hi.
    + apply (HSA i y p Hi Hh).
    + destruct Hi as [Hi|[]]. inversion Hi; subst. left. rewrite cnt_zero; [lia|].
      intros Hd. specialize (Hdlt _ Hd). lia.
  - intros x Hx. destruct (N.eq_dec x nx) as [->|Hne].
    + right. exists id. apply in_or_app. right. left. reflexivity.
    + destruct (HE x ltac:(lia)) as [Hd|(i & Hd)]; [left; exact Hd|right]. exists i. apply in_or_app. left. exact Hd.
  - exact HR.
  - discriminate.
Qed.

Lemma live_c2b mk ow on b2c u q out nx dl ls :
  IInv (mkI mk ow on b2c (u :: q) out nx dl ls) -> on = true.
Proof.
  intros H. destruct on; [reflexivity|]. destruct (iv_off _ H eq_refl) as [_ E]. discriminate.
Qed.

(* the broker reads a PUBREC: the identifier is known and it is the current message's *)
Lemma rec_head_facts mk ow on b2c q out nx dl ls id x :
  IInv (mkI mk ow on b2c (URec id x :: q) out nx dl ls) ->
  exists e, cur id out = Some e /\ e_id e = id /\ e_x e = x /\ In e out /\ In x dl.
Proof.
  intros H. iopen H.
  assert (Hin : In (URec id x) (cl (mkI mk ow on b2c (URec id x :: q) out nx dl ls))).
  { unfold cl. iproj. left. reflexivity. }
  destruct (rec_current _ HL id x Hin) as (ph & Hcur). iproj.
  exists (mkE id x ph). split; [|split; [reflexivity|split; [reflexivity|split; [exact Hcur|]]]].
  - apply (cur_of_in out (mkE id x ph) (l_ids _ _ _ HL) Hcur).
  - apply (HR id x). left. reflexivity.
Qed.

Lemma step_broker_rec mk ow on b2c q out nx dl ls id x e :
  IInv (mkI mk ow on b2c (URec id x :: q) out nx dl ls) ->
  cur id out = Some e -> e_ph e = BRec ->
  IInv (mkI mk ow on (b2c ++ [DRel id (e_x e)]) q (advance id out) nx dl ls).
Proof.
  intros H Hc Hp. pose proof (live_c2b _ _ _ _ _ _ _ _ _ _ H) as ->.
  destruct (rec_head_facts _ _ _ _ _ _ _ _ _ _ _ H) as (e' & Hc' & _ & _ & _ & Hdel).
  iopen H.
  assert (HL' : LInv ((id, 2 * x) :: map uk q ++ map uk (ol ow) ++ map dk b2c) out nx) by exact HL.
  destruct (linv_advance _ _ _ _ _ _ HL' Hc Hp) as [-> HLa]. cbn [e_x].
  assert (Hcur : In (mkE id x BRec) out) by (apply (cur_some _ _ _ Hc)).
  constructor; unfold witness, covered, cl; iproj.
  - unfold line. iproj. rewrite map_app, !app_assoc. cbn [map dk].
    change (id, 2 * x + 1) with (ek (mkE id x BComp)). apply linv_push.
    + rewrite <- app_assoc. exact HLa.
    + eapply in_advance_hit. exact Hcur.
  - discriminate.
  - exact Hdlt.
  - exact Hlostd.
  - intros i Hi. destruct (HM i Hi) as (y & p & H1 & H2).
    destruct (in_advance_ex id _ _ _ _ H1) as (p' & H1'). exists y, p'. split; assumption.
  - intros i y Hi Hd. in_app_cases Hd.
    + apply in_advance_comp. exact (HM3 i y Hi Hd).
    + destruct Hd as [Hd|[]]. inversion Hd; subst. eapply in_advance_hit. exact Hcur.
  - intros i y Hu Hy. destruct (in_advance_back _ _ _ _ _ Hy) as (p' & Ho & _ & _ & Hd).
    destruct p'.
    + (* it was this entry: no PUBCOMP of it can be under way *)
      specialize (Hd ltac:(discriminate)). subst i.
      pose proof (ent_uniq _ HL _ _ Ho Hcur eq_refl) as E. inversion E; subst.
      assert (Hin : In (UComp id x) (cl (mkI mk ow true b2c (URec id x :: q) out nx dl ls))).
      { unfold cl. iproj. right. exact Hu. }
      pose proof (u_bnd _ HL _ _ Hin Hcur eq_refl) as Hb. unfold e_rank in Hb. cbn [uk snd e_ph e_x] in Hb. lia.
    + apply (HC1 i y); [right; exact Hu|exact Ho].
  - exact HG.
  - intros i y p Hi Hh. destruct (in_advance_back _ _ _ _ _ Hi) as (p' & Ho & Hbr & _ & _).
    apply (HSA i y p' Ho). destruct Hh as [Hh|Hh]; [left; exact (Hbr Hh)|].
    in_app_cases Hh; [right; exact Hh|]. destruct Hh as [Hh|[]]. discriminate.
  - intros y Hy. destruct (HE y Hy) as [Hd|(i & Hd)]; [left; exact Hd|].
    destruct (N.eq_dec i id) as [->|Hne].
    + left. pose proof (ent_uniq _ HL _ _ Hd Hcur eq_refl) as E. inversion E; subst. exact Hdel.
    + right. exists i. apply in_advance_other; assumption.
  - intros i y Hu. apply (HR i y). right. exact Hu.
  - intros _ [i y p] He. destruct (in_advance_back _ _ _ _ _ He) as (p' & Ho & _ & Hne & Hd).
    cbn [e_ph e_id e_x]. destruct (N.eq_dec i id) as [->|Hn].
    + pose proof (ent_uniq _ HL _ _ Ho Hcur eq_refl) as E. inversion E; subst.
      assert (Ep : p = BComp).
      { unfold advance in He. apply in_map_iff in He. destruct He as (e0 & E0 & He0).
        destruct (e_id e0 =? id) eqn:Ei; [inversion E0; reflexivity|]. apply N.eqb_neq in Ei.
        subst e0. cbn [e_id] in Ei. contradiction Ei; reflexivity. }
      subst p. left. apply in_or_app. right. left. reflexivity.
    + rewrite (Hne Hn) in Ho. specialize (HP eq_refl _ Ho). cbn [e_ph e_id e_x] in HP.
      destruct p; (destruct HP as [Hq|[Hq|Hq]];
        [left; apply in_or_app; left; exact Hq|inversion Hq; subst; contradiction Hn; reflexivity|right; exact Hq]).
Qed.

Lemma step_broker_again mk ow on b2c q out nx dl ls id x e (resend_it : bool) :
  IInv (mkI mk ow on b2c (URec id x :: q) out nx dl ls) ->
  cur id out = Some e -> e_ph e = BComp ->
  IInv (mkI mk ow on (if resend_it then b2c ++ [DRel id (e_x e)] else b2c) q out nx dl ls).
Proof.
  intros H Hc Hp. pose proof (live_c2b _ _ _ _ _ _ _ _ _ _ H) as ->.
  destruct (rec_head_facts _ _ _ _ _ _ _ _ _ _ _ H) as (e' & Hc' & _ & Hx & _ & Hdel).
  rewrite Hc in Hc'. inversion Hc'; subst e'. clear Hc'.
  destruct (cur_some _ _ _ Hc) as [He Hid]. destruct e as [i y p]. cbn [e_id e_x e_ph] in *. subst i y p.
  iopen H.
  assert (HL' : LInv ((id, 2 * x) :: map uk q ++ map uk (ol ow) ++ map dk b2c) out nx) by exact HL.
  apply linv_pop in HL'.
  assert (Hsub : forall d, In d (if resend_it then b2c ++ [DRel id x] else b2c) -> In d b2c \/ d = DRel id x).
  { intros d Hd. destruct resend_it; [|left; exact Hd]. in_app_cases Hd; [left; exact Hd|].
    destruct Hd as [<-|[]]. right. reflexivity. }
  assert (Hsup : forall d, In d b2c -> In d (if resend_it then b2c ++ [DRel id x] else b2c)).
  { intros d Hd. destruct resend_it; [apply in_or_app; left|]; exact Hd. }
  constructor; unfold witness, covered, cl; iproj.
  - unfold line. iproj. destruct resend_it; [|exact HL'].
    rewrite map_app, !app_assoc. cbn [map dk].
    change (id, 2 * x + 1) with (ek (mkE id x BComp)). apply linv_push; [|exact He].
    rewrite <- app_assoc. exact HL'.
  - discriminate.
  - exact Hdlt.
  - exact Hlostd.
  - exact HM.
  - intros i y Hi Hd. destruct (Hsub _ Hd) as [Hd'|Hd']; [exact (HM3 i y Hi Hd')|]. inversion Hd'; subst. exact He.
  - intros i y Hu. apply (HC1 i y). right. exact Hu.
  - exact HG.
  - intros i y p Hi Hh. apply (HSA i y p Hi). destruct Hh as [Hh|Hh]; [left; exact Hh|].
    destruct (Hsub _ Hh) as [Hd'|Hd']; [right; exact Hd'|discriminate].
  - exact HE.
  - intros i y Hu. apply (HR i y). right. exact Hu.
  - intros _ e He'. specialize (HP eq_refl e He'). destruct e as [i y p]. cbn [e_ph e_id e_x] in *.
    destruct p; (destruct HP as [Hp|[Hp|Hp]]; [left; apply Hsup; exact Hp| |right; exact Hp]).
    + inversion Hp; subst. pose proof (ent_uniq _ HL _ _ He' He eq_refl) as E. inversion E.
    + discriminate.
Qed.

Lemma no_unknown_rec mk ow on b2c q out nx dl ls id x :
  IInv (mkI mk ow on b2c (URec id x :: q) out nx dl ls) -> cur id out <> None.
Proof.
  intros H. destruct (rec_head_facts _ _ _ _ _ _ _ _ _ _ _ H) as (e & Hc & _). congruence.
Qed.

Lemma step_broker_comp mk ow on b2c q out nx dl ls id x e :
  IInv (mkI mk ow on b2c (UComp id x :: q) out nx dl ls) ->
  cur id out = Some e -> e_ph e = BComp ->
  IInv (mkI mk ow on b2c q (drop id out) nx dl ls).
Proof.
  intros H Hc Hp. pose proof (live_c2b _ _ _ _ _ _ _ _ _ _ H) as ->. iopen H.
  assert (HL' : LInv ((id, 2 * x + 1) :: map uk q ++ map uk (ol ow) ++ map dk b2c) out nx) by exact HL.
  destruct (linv_drop _ _ _ _ _ _ HL' Hc Hp) as [-> HLd].
  assert (Hcur : In (mkE id x BComp) out) by (apply (cur_some _ _ _ Hc)).
  assert (Hnm : ~ In id mk) by (apply (HC1 id x); [left; reflexivity|exact Hcur]).
  constructor; unfold witness, covered, cl; iproj.
  - exact HLd.
  - discriminate.
  - exact Hdlt.
  - exact Hlostd.
  - intros i Hi. destruct (HM i Hi) as (y & p & H1 & H2). exists y, p. split; [|exact H2].
    apply in_drop. split; [exact H1|]. cbn [e_id]. intros ->. contradiction.
  - intros i y Hi Hd. apply in_drop. split; [exact (HM3 i y Hi Hd)|]. cbn [e_id]. intros ->. contradiction.
  - intros i y Hu Hy. apply in_drop in Hy. apply (HC1 i y); [right; exact Hu|apply Hy].
  - exact HG.
  - intros i y p Hi Hh. apply in_drop in Hi. exact (HSA i y p (proj1 Hi) Hh).
  - intros y Hy. destruct (HE y Hy) as [Hd|(i & Hd)]; [left; exact Hd|right]. exists i.
    apply in_drop. split; [exact Hd|]. cbn [e_id]. intros ->.
    pose proof (ent_uniq _ HL _ _ Hd Hcur eq_refl) as E. inversion E.
  - intros i y Hu. apply (HR i y). right. exact Hu.
  - intros _ e He. apply in_drop in He. destruct He as [He Hne]. specialize (HP eq_refl e He).
    destruct (e_ph e); (destruct HP as [Hq|[Hq|Hq]]; [left; exact Hq| |right; exact Hq]).
    + discriminate.
    + inversion Hq; subst. contradiction Hne; reflexivity.
Qed.

Lemma step_broker_stale mk ow on b2c q out nx dl ls id x :
  IInv (mkI mk ow on b2c (UComp id x :: q) out nx dl ls) ->
  (forall e, cur id out = Some e -> e_ph e = BRec) ->
  IInv (mkI mk ow on b2c q out nx dl ls).
Proof.
  intros H Hst. pose proof (live_c2b _ _ _ _ _ _ _ _ _ _ H) as ->. iopen H.
  assert (HL' : LInv ((id, 2 * x + 1) :: map uk q ++ map uk (ol ow) ++ map dk b2c) out nx) by exact HL.
  apply linv_pop in HL'.
  constructor; unfold witness, covered, cl; iproj.
  - exact HL'.
  - discriminate.
  - exact Hdlt.
  - exact Hlostd.
  - exact HM.
  - exact HM3.
  - intros i y Hu. apply (HC1 i y). right. exact Hu.
  - exact HG.
  - exact HSA.
  - exact HE.
  - intros i y Hu. apply (HR i y). right. exact Hu.
  - intros _ e He. specialize (HP eq_refl e He). destruct e as [i y p]. cbn [e_ph e_id e_x] in *.
    destruct p; (destruct HP as [Hp|[Hp|Hp]]; [left; exact Hp| |right; exact Hp]).
    + discriminate.
    + inversion Hp; subst. pose proof (cur_of_in out _ (l_ids _ _ _ HL) He) as Hc. cbn [e_id] in Hc.
      specialize (Hst _ Hc). discriminate.
Qed.

Lemma linv_owed w : LInv (line w) (i_out w) (i_next w) -> LInv (map uk (ol (i_owed w))) (i_out w) (i_next w).
Proof.
  intros HL. destruct (i_owed w) as [u|] eqn:E; cbn [ol map].
  - apply (linv_sub1 _ _ _ _ HL). unfold line. rewrite E. apply in_or_app. right. left. reflexivity.
  - exact (linv_nil _ _ _ HL).
Qed.

Lemma step_break mk ow on b2c c2b out nx dl ls :
  IInv (mkI mk ow on b2c c2b out nx dl ls) -> IInv (mkI mk ow false [] [] out nx dl ls).
Proof.
  intros H. pose proof (linv_owed _ (iv_l _ H)) as HLo. iopen H.
  constructor; unfold witness, covered, cl; iproj.
  - unfold line. iproj. cbn [map app]. rewrite app_nil_r. exact HLo.
  - auto.
  - exact Hdlt.
  - exact Hlostd.
  - exact HM.
  - intros i y _ [].
  - intros i y Hu. apply (HC1 i y). apply in_or_app. right. exact Hu.
  - exact HG.
  - intros i y p Hi [Hh|[]]. exact (HSA i y p Hi (or_introl Hh)).
  - exact HE.
  - intros i y Hu. apply (HR i y). apply in_or_app. right. exact Hu.
  - discriminate.
Qed.

Lemma step_reconnect mk ow b2c c2b out nx dl ls :
  IInv (mkI mk ow false b2c c2b out nx dl ls) -> IInv (mkI mk ow true (resend out) [] out nx dl ls).
Proof.
  intros H. pose proof (linv_owed _ (iv_l _ H)) as HLo. iopen H.
  destruct (Hoff eq_refl) as [-> ->].
  constructor; unfold witness, covered, cl; iproj.
  - unfold line. iproj. cbn [map app]. rewrite dk_resend. apply linv_push_list; [exact HLo|apply incl_refl].
  - discriminate.
  - exact Hdlt.
  - exact Hlostd.
  - exact HM.
  - intros i y _ Hd. apply in_resend_rel. exact Hd.
  - exact HC1.
  - exact HG.
  - intros i y p Hi Hh. apply (HSA i y p Hi). left. destruct Hh as [Hh|Hh]; [exact Hh|].
    apply in_resend_pub in Hh. pose proof (ent_uniq _ HL _ _ Hi Hh eq_refl) as E. inversion E. reflexivity.
  - exact HE.
  - exact HR.
  - intros _ [i y p] He. cbn [e_ph e_id e_x]. destruct p; left; [apply in_resend_pub|apply in_resend_rel]; exact He.
Qed.

Lemma cnt_lost_after mk ow ls x : (cnt ls x <= cnt (lost_after mk ow ls) x)%nat.
Proof.
  unfold lost_after. destruct ow as [[i y|i y]|]; try lia. destruct (memb i mk); [lia|apply cnt_cons_le].
Qed.

Lemma step_restart mk ow on b2c c2b out nx dl ls :
  IInv (mkI mk ow on b2c c2b out nx dl ls) ->
  IInv (mkI mk None false [] [] out nx dl (lost_after mk ow ls)).
Proof.
  intros H. iopen H. constructor; unfold witness, covered, cl; iproj.
  - unfold line. iproj. cbn [map app]. exact (linv_nil _ _ _ HL).
  - auto.
  - exact Hdlt.
  - intros x Hx. unfold lost_after in Hx. destruct ow as [[i y|i y]|]; try (apply Hlostd; exact Hx).
    destruct (memb i mk); [apply Hlostd; exact Hx|]. destruct Hx as [<-|Hx]; [|apply Hlostd; exact Hx].
    apply (HR i y). apply in_or_app. right. left. reflexivity.
  - exact HM.
  - intros i y _ [].
  - intros i y [].
  - intros x. specialize (HG x). pose proof (cnt_lost_after mk ow ls x). lia.
  - intros i y p Hi [Hh|[]]. destruct (HSA i y p Hi (or_introl Hh)) as [Hc|[Hc|Hc]].
    + left. pose proof (cnt_lost_after mk ow ls y). lia.
    + right. left. exact Hc.
    + subst ow. unfold lost_after. destruct (memb i mk) eqn:Em.
      * right. left. apply memb_in. exact Em.
      * left. rewrite cnt_cons_eq. specialize (HG y). lia.
  - exact HE.
  - intros i y [].
  - discriminate.
Qed.

Theorem iinv_step : forall w l w', IInv w -> istep w l w' -> IInv w'.
Proof.
  intros w l w' HI H. destruct H.
  - apply step_new_on; assumption.
  - apply step_new_off; assumption.
  - apply step_deliver; assumption.
  - apply step_dupe; assumption.
  - apply step_dupe_fail with (q := q) (c2b := c2b); assumption.
  - apply step_pubrel; assumption.
  - apply step_pubrel_fail with (q := q) (c2b := c2b); assumption.
  - apply step_flush; assumption.
  - apply step_flush_fail with (on := on) (b2c := b2c) (c2b := c2b); assumption.
  - exact HI.
  - eapply step_broker_rec; eassumption.
  - apply (step_broker_again mk ow on b2c q out nx dl ls id x e true); assumption.
  - apply (step_broker_again mk ow on b2c q out nx dl ls id x e false); assumption.
  - exfalso. exact (no_unknown_rec _ _ _ _ _ _ _ _ _ _ _ HI H).
  - eapply step_broker_comp; eassumption.
  - eapply step_broker_stale; eassumption.
  - eapply step_break; eassumption.
  - eapply step_reconnect; eassumption.
  - eapply step_restart; eassumption.
Qed.

Theorem inbound_inv : forall w, ireach w -> IInv w.
Proof.
  induction 1 as [|w l w' _ IH Hs].
  - exact iinv_init.
  - exact (iinv_step _ _ _ IH Hs).
Qed.

(* ================================================================== *)
(* 5. (a) (b): at most once per cycle, identifier reuse                *)

(* (a) x is returned at most once, plus once for every process stop that hit the window of x *)
Theorem once_per_cycle : forall w x, ireach w ->
  (cnt (i_deliv w) x <= 1 + cnt (i_lost w) x)%nat.
Proof. intros w x H. apply iv_G, inbound_inv, H. Qed.

Theorem once_unless_window : forall w x, ireach w -> ~ In x (i_lost w) -> (cnt (i_deliv w) x <= 1)%nat.
Proof. intros w x H Hn. pose proof (once_per_cycle w x H). rewrite (cnt_zero _ _ Hn) in *. lia. Qed.

Theorem no_window_nodup : forall w, ireach w -> i_lost w = [] -> NoDup (i_deliv w).
Proof.
  intros w H E. apply (NoDup_count_occ N.eq_dec). intros x.
  apply (once_unless_window w x H). rewrite E. intros [].
Qed.

(* the ghost list grows only by a process stop with the PUBREC of x pending and no marker yet *)
Theorem lost_only_by_restart : forall w l w', istep w l w' -> i_lost w' <> i_lost w ->
  l = LRestart /\ exists id x, i_owed w = Some (URec id x) /\ ~ In id (i_marks w) /\
                               i_lost w' = x :: i_lost w.
Proof.
  intros w l w' H Hne. destruct H; iproj; try (contradiction Hne; reflexivity).
  split; [reflexivity|]. unfold lost_after in *. destruct ow as [[i y|i y]|]; try (contradiction Hne; reflexivity).
  destruct (memb i mk) eqn:Em; [contradiction Hne; reflexivity|].
  exists i, y. split; [reflexivity|]. split; [|reflexivity]. rewrite <- memb_in. congruence.
Qed.

Theorem lost_was_delivered : forall w x, ireach w -> In x (i_lost w) -> In x (i_deliv w).
Proof. intros w x H. apply iv_lostd, inbound_inv, H. Qed.

(* a message is returned only by the delivery step: PUBLISH at the head, no marker, nothing
   pending; the step writes nothing and leaves exactly the PUBREC of that message pending (C07) *)
Theorem delivered_only_by_deliver : forall w l w', istep w l w' -> i_deliv w' <> i_deliv w ->
  l = LDeliver /\ exists id x q, i_b2c w = DPub id x :: q /\ ~ In id (i_marks w) /\ i_owed w = None /\
    i_deliv w' = x :: i_deliv w /\ i_owed w' = Some (URec id x) /\ i_c2b w' = i_c2b w /\
    i_marks w' = i_marks w.
Proof.
  intros w l w' H Hne. destruct H; iproj; try (contradiction Hne; reflexivity).
  split; [reflexivity|]. exists id, x, q. auto 10.
Qed.

(* C07: while an acknowledgement is pending the client reads nothing; the pending
   acknowledgement is kept until it is written by LFlush (or the process stops) *)
Definition is_read (l : ilabel) : bool :=
  match l with LDeliver | LDupe | LDupeFail | LPubrel | LPubrelFail => true | _ => false end.

Theorem owed_blocks_reading : forall w l w', istep w l w' -> i_owed w <> None -> is_read l = false.
Proof. intros w l w' H Hn. destruct H; iproj; try reflexivity; contradiction Hn; reflexivity. Qed.

Theorem owed_kept_until_written : forall w l w' u, istep w l w' -> i_owed w = Some u ->
  i_owed w' = Some u \/ (l = LFlush /\ i_c2b w' = i_c2b w ++ [u] /\ i_marks w' = save_marker u (i_marks w)) \/
  l = LRestart.
Proof.
  intros w l w' u H E. destruct H; iproj; try discriminate E; auto.
  inversion E; subst. right. left. auto.
Qed.

(* the marker is saved before the PUBREC is on the wire: a PUBREC in c2b implies ... *)
Theorem pubrec_only_for_delivered : forall w id x, ireach w -> In (URec id x) (cl w) -> In x (i_deliv w).
Proof. intros w id x H. apply iv_R, inbound_inv, H. Qed.

(* (b) a marker exists only for an identifier in flight at the broker, and the message in
   flight under it has been returned *)
Theorem marker_means_in_flight : forall w id, ireach w -> In id (i_marks w) ->
  exists e, cur id (i_out w) = Some e /\ e_id e = id /\ In (e_x e) (i_deliv w).
Proof.
  intros w id H Hm. pose proof (inbound_inv _ H) as HI.
  destruct (iv_M _ HI id Hm) as (x & ph & H1 & H2). exists (mkE id x ph).
  split; [|split; [reflexivity|exact H2]].
  apply (cur_of_in _ (mkE id x ph) (l_ids _ _ _ (iv_l _ HI)) H1).
Qed.

Theorem new_cycle_no_marker : forall w id, ireach w -> cur id (i_out w) = None -> ~ In id (i_marks w).
Proof.
  intros w id H Hc Hm. destruct (marker_means_in_flight w id H Hm) as (e & Hc' & _). congruence.
Qed.

Theorem new_step_no_marker : forall w w', ireach w -> istep w LNew w' ->
  exists id, i_out w' = i_out w ++ [mkE id (i_next w) BRec] /\ ~ In id (i_marks w) /\ i_marks w' = i_marks w.
Proof.
  intros w w' H Hs. pose proof (new_cycle_no_marker w) as Hn.
  inversion Hs; subst; iproj; exists id; (split; [reflexivity|split; [|reflexivity]]); apply (Hn id H); assumption.
Qed.

(* a PUBLISH of a message that was not returned yet never finds a marker: it is returned *)
Theorem fresh_never_dupe : forall w id x q, ireach w -> i_b2c w = DPub id x :: q ->
  ~ In x (i_deliv w) -> ~ In id (i_marks w).
Proof.
  intros w id x q H Hq Hn Hm. apply Hn. destruct w as [mk ow on b2c c2b out nx dl ls]. iproj. subst b2c.
  exact (dupe_delivered _ _ _ _ _ _ _ _ _ _ _ (inbound_inv _ H) Hm).
Qed.

(* and a PUBLISH of a message that was returned finds the marker, unless a process stop hit its
   window: the retransmission is recognised *)
Theorem retransmission_is_dupe : forall w id x q, ireach w -> i_b2c w = DPub id x :: q ->
  i_owed w = None -> In x (i_deliv w) -> ~ In x (i_lost w) -> In id (i_marks w).
Proof.
  intros w id x q H Hq Ho Hd Hl. pose proof (inbound_inv _ H) as HI.
  assert (Hin : In (DPub id x) (i_b2c w)) by (rewrite Hq; left; reflexivity).
  destruct (pub_current _ (iv_l _ HI) id x Hin) as (ph & Hcur).
  destruct (iv_SA _ HI id x ph Hcur (or_intror Hin)) as [Hc|[Hc|Hc]].
  - rewrite (cnt_zero _ _ Hl) in Hc. unfold cnt in Hc.
    pose proof (proj1 (count_occ_In N.eq_dec _ _) Hd). lia.
  - exact Hc.
  - congruence.
Qed.

(* the broker's view *)
Theorem broker_knows_pubrec : forall w w', ireach w -> ~ istep w LBrokerRecUnknown w'.
Proof.
  intros w w' H Hs. pose proof (inbound_inv _ H) as HI. inversion Hs; subst.
  exact (no_unknown_rec _ _ _ _ _ _ _ _ _ _ _ HI H0).
Qed.

Theorem pubrec_is_current : forall w id x q, ireach w -> i_c2b w = URec id x :: q ->
  exists e, cur id (i_out w) = Some e /\ e_x e = x.
Proof.
  intros w id x q H Hq. destruct w as [mk ow on b2c c2b out nx dl ls]. iproj. subst c2b.
  destruct (rec_head_facts _ _ _ _ _ _ _ _ _ _ _ (inbound_inv _ H)) as (e & Hc & _ & Hx & _). eauto.
Qed.

(* a PUBCOMP that meets a broker awaiting PUBCOMP is the one of the current message; a PUBCOMP
   of an older cycle (a repeated PUBREL is answered twice) only ever meets BRec or no entry *)
Theorem stale_pubcomp_harmless : forall w id x q e, ireach w -> i_c2b w = UComp id x :: q ->
  cur id (i_out w) = Some e -> e_ph e = BComp -> e_x e = x.
Proof.
  intros w id x q e H Hq Hc Hp. pose proof (inbound_inv _ H) as HI.
  destruct (cur_some _ _ _ Hc) as [He Hid]. destruct e as [i y p]. cbn [e_id e_ph e_x] in *. subst i p.
  symmetry. apply (comp_current _ (iv_l _ HI) id y x); [|exact He].
  unfold cl. rewrite Hq. left. reflexivity.
Qed.

(* ================================================================== *)
(* 6. (c): exactly once when the faults stop                           *)

Definition wt_d (d : down) : N := match d with DPub _ _ => 5 | DRel _ _ => 2 end.
Definition wt_u (u : up) : N := match u with URec _ _ => 3 | UComp _ _ => 1 end.
Definition wt_e (e : ent) : N := match e_ph e with BRec => 5 | BComp => 2 end.
Fixpoint sum_d (l : list down) : N := match l with [] => 0 | d :: r => wt_d d + sum_d r end.
Fixpoint sum_u (l : list up) : N := match l with [] => 0 | u :: r => wt_u u + sum_u r end.
Fixpoint sum_e (l : list ent) : N := match l with [] => 0 | e :: r => wt_e e + sum_e r end.

(* remaining work, an upper bound of the number of steps still to be taken: a PUBLISH in flight
   needs at most 5 more steps (return, flush, broker, PUBREL read, broker), a pending
   acknowledgement one more than the same acknowledgement on the wire; offline: one Reconnect
   plus what the broker will resend *)
Definition imu (w : iworld) : N :=
  match i_owed w with Some u => 1 + wt_u u | None => 0 end +
  (if i_on w then sum_d (i_b2c w) + sum_u (i_c2b w) else 1 + sum_e (i_out w)).

Definition is_progress (l : ilabel) : bool :=
  match l with
  | LDeliver | LDupe | LPubrel | LFlush | LBrokerRec | LBrokerRecAgain | LBrokerRecIgnore
  | LBrokerRecUnknown | LBrokerComp | LBrokerCompStale | LReconnect => true
  | LNew | LDupeFail | LPubrelFail | LFlushFail | LSaveFail | LBreak | LRestart => false
  end.

Lemma sum_d_app l1 l2 : sum_d (l1 ++ l2) = sum_d l1 + sum_d l2.
Proof. induction l1; cbn [app sum_d]; lia. Qed.
Lemma sum_u_app l1 l2 : sum_u (l1 ++ l2) = sum_u l1 + sum_u l2.
Proof. induction l1; cbn [app sum_u]; lia. Qed.
Lemma sum_e_app l1 l2 : sum_e (l1 ++ l2) = sum_e l1 + sum_e l2.
Proof. induction l1; cbn [app sum_e]; lia. Qed.
Lemma sum_d_resend out : sum_d (resend out) = sum_e out.
Proof.
  induction out as [|[i x p] r IH]; cbn [resend map sum_d sum_e]; [reflexivity|].
  unfold resend in IH. rewrite IH. destruct p; reflexivity.
Qed.

Theorem good_step_measure : forall w l w', IInv w -> istep w l w' -> is_progress l = true ->
  imu w' < imu w.
Proof.
  intros w l w' HI H Hl. destruct H; try discriminate Hl;
    try (pose proof (live_c2b _ _ _ _ _ _ _ _ _ _ HI) as Hon; subst on);
    unfold imu; iproj;
    rewrite ?sum_d_app, ?sum_u_app, ?sum_d_resend; cbn [sum_d sum_u wt_d wt_u]; try lia.
Qed.

Theorem new_step_measure : forall w w', istep w LNew w' -> imu w' = imu w + 5.
Proof.
  intros w w' H. inversion H; subst; unfold imu; iproj;
    rewrite ?sum_d_app, ?sum_e_app; cbn [sum_d sum_e wt_d wt_e e_ph]; lia.
Qed.

Theorem progress_enabled : forall w, imu w <> 0 -> exists l w', is_progress l = true /\ istep w l w'.
Proof.
  intros [mk ow on b2c c2b out nx dl ls] Hmu. destruct on.
  2:{ eexists LReconnect, _. split; [reflexivity|]. apply I_reconnect. }
  destruct ow as [u|].
  { eexists LFlush, _. split; [reflexivity|]. apply I_flush. }
  destruct b2c as [|[id x|id x] q].
  - destruct c2b as [|[id x|id x] q].
    + exfalso. apply Hmu. reflexivity.
    + destruct (cur id out) as [e|] eqn:Hc.
      * destruct (e_ph e) eqn:Hp.
        -- eexists LBrokerRec, _. split; [reflexivity|]. eapply I_broker_rec; eassumption.
        -- eexists LBrokerRecIgnore, _. split; [reflexivity|]. eapply I_broker_rec_ignore; eassumption.
      * eexists LBrokerRecUnknown, _. split; [reflexivity|]. apply I_broker_rec_unknown. exact Hc.
    + destruct (cur id out) as [e|] eqn:Hc.
      * destruct (e_ph e) eqn:Hp.
        -- eexists LBrokerCompStale, _. split; [reflexivity|]. apply I_broker_comp_stale.
           intros e' E. rewrite Hc in E. inversion E; subst. exact Hp.
        -- eexists LBrokerComp, _. split; [reflexivity|]. eapply I_broker_comp; eassumption.
      * eexists LBrokerCompStale, _. split; [reflexivity|]. apply I_broker_comp_stale. intros e' E. rewrite Hc in E. discriminate.
  - destruct (in_dec N.eq_dec id mk) as [Hm|Hm].
    + eexists LDupe, _. split; [reflexivity|]. apply I_dupe. exact Hm.
    + eexists LDeliver, _. split; [reflexivity|]. apply I_deliver. exact Hm.
  - eexists LPubrel, _. split; [reflexivity|]. apply I_pubrel.
Qed.

(* nothing left to do for broker, connection and client (New and the failures are the
   environment's moves) *)
Definition quiescent (w : iworld) : Prop := forall l w', istep w l w' -> is_progress l = false.

(* every message the broker ever started went through the whole handshake and was returned;
   no marker, no identifier in flight *)
Definition complete (w : iworld) : Prop :=
  i_on w = true /\ i_b2c w = [] /\ i_c2b w = [] /\ i_owed w = None /\ i_out w = [] /\ i_marks w = [] /\
  (forall x, In x (i_deliv w) <-> x < i_next w) /\
  (forall x, (cnt (i_deliv w) x <= 1 + cnt (i_lost w) x)%nat).

Lemma quiescent_imu w : quiescent w -> imu w = 0.
Proof.
  intros Hq. destruct (N.eq_dec (imu w) 0) as [E|NE]; [exact E|].
  destruct (progress_enabled w NE) as (l & w' & Hl & Hs). rewrite (Hq _ _ Hs) in Hl. discriminate.
Qed.

Lemma sum_d_zero l : sum_d l = 0 -> l = [].
Proof. destruct l as [|[] r]; cbn [sum_d wt_d]; [reflexivity|lia|lia]. Qed.
Lemma sum_u_zero l : sum_u l = 0 -> l = [].
Proof. destruct l as [|[] r]; cbn [sum_u wt_u]; [reflexivity|lia|lia]. Qed.

Lemma imu_zero w : imu w = 0 -> i_on w = true /\ i_b2c w = [] /\ i_c2b w = [] /\ i_owed w = None.
Proof.
  unfold imu. destruct (i_owed w) as [u|]; [destruct u; cbn [wt_u]; lia|].
  destruct (i_on w); [|lia]. intros H. split; [reflexivity|].
  split; [apply sum_d_zero; lia|]. split; [apply sum_u_zero; lia|reflexivity].
Qed.

Lemma imu_zero_complete w : IInv w -> imu w = 0 -> complete w.
Proof.
  intros HI H. destruct (imu_zero w H) as (Hon & Hb & Hc & Ho).
  assert (Hout : i_out w = []).
  { destruct (i_out w) as [|e r] eqn:E; [reflexivity|]. exfalso.
    pose proof (iv_P _ HI Hon e) as Hw. rewrite E in Hw. specialize (Hw (or_introl eq_refl)).
    unfold witness, cl in Hw. rewrite Hb, Hc, Ho in Hw. cbn in Hw. destruct (e_ph e); tauto. }
  split; [exact Hon|]. split; [exact Hb|]. split; [exact Hc|]. split; [exact Ho|]. split; [exact Hout|].
  split.
  { destruct (i_marks w) as [|id r] eqn:E; [reflexivity|]. exfalso.
    destruct (iv_M _ HI id) as (x & ph & H1 & _); [rewrite E; left; reflexivity|]. rewrite Hout in H1. exact H1. }
  split; [|exact (iv_G _ HI)].
  intros x. split; [apply (iv_dlt _ HI)|]. intros Hx. destruct (iv_E _ HI x Hx) as [Hd|(id & Hd)]; [exact Hd|].
  rewrite Hout in Hd. destruct Hd.
Qed.

Theorem quiescent_complete : forall w, ireach w -> quiescent w -> complete w.
Proof. intros w H Hq. apply imu_zero_complete; [apply inbound_inv, H|apply quiescent_imu, Hq]. Qed.

Theorem complete_exactly_once : forall w x, complete w -> ~ In x (i_lost w) ->
  cnt (i_deliv w) x = if x <? i_next w then 1%nat else 0%nat.
Proof.
  intros w x (_ & _ & _ & _ & _ & _ & Hiff & Hg) Hl. specialize (Hg x). rewrite (cnt_zero _ _ Hl) in Hg.
  destruct (N.ltb_spec x (i_next w)) as [Hlt|Hge].
  - apply Hiff in Hlt. pose proof (proj1 (count_occ_In N.eq_dec _ _) Hlt). unfold cnt in *. lia.
  - apply cnt_zero. intros Hin. apply Hiff in Hin. lia.
Qed.

(* fault-free runs: p progress steps and a new messages; no Break, no Restart, no failing
   Persistence or write *)
Inductive frun : iworld -> nat -> nat -> iworld -> Prop :=
| fr_nil : forall w, frun w 0 0 w
| fr_prog : forall w l w1 p a w2, is_progress l = true -> istep w l w1 -> frun w1 p a w2 ->
    frun w (S p) a w2
| fr_new : forall w w1 p a w2, istep w LNew w1 -> frun w1 p a w2 -> frun w p (S a) w2.

Lemma frun_reach w p a w' : ireach w -> frun w p a w' -> ireach w'.
Proof. intros H Hr. induction Hr; eauto using ir_step. Qed.

(* no process stop hits a window in a fault-free run *)
Lemma frun_lost w p a w' : frun w p a w' -> i_lost w' = i_lost w.
Proof.
  intros Hr. induction Hr as [w|w l w1 p a w2 Hl Hs Hr IH|w w1 p a w2 Hs Hr IH]; [reflexivity| |].
  - rewrite IH. destruct (list_eq_dec N.eq_dec (i_lost w1) (i_lost w)) as [E|NE]; [exact E|].
    destruct (lost_only_by_restart _ _ _ Hs NE) as [-> _]. discriminate.
  - rewrite IH. destruct (list_eq_dec N.eq_dec (i_lost w1) (i_lost w)) as [E|NE]; [exact E|].
    destruct (lost_only_by_restart _ _ _ Hs NE) as [E _]. discriminate.
Qed.

(* the number of progress steps of a fault-free run is bounded by the measure: at most
   imu + 5 per new message *)
Theorem good_run_bound : forall w p a w', ireach w -> frun w p a w' ->
  imu w' + N.of_nat p <= imu w + 5 * N.of_nat a.
Proof.
  intros w p a w' H Hr. induction Hr as [w|w l w1 p a w2 Hl Hs Hr IH|w w1 p a w2 Hs Hr IH].
  - lia.
  - pose proof (good_step_measure _ _ _ (inbound_inv _ H) Hs Hl). specialize (IH (ir_step _ _ _ H Hs)). lia.
  - pose proof (new_step_measure _ _ Hs). specialize (IH (ir_step _ _ _ H Hs)). lia.
Qed.

Theorem good_run_complete : forall w p a w', ireach w -> frun w p a w' -> quiescent w' -> complete w'.
Proof. intros w p a w' H Hr Hq. apply quiescent_complete; [exact (frun_reach _ _ _ _ H Hr)|exact Hq]. Qed.

(* and such a run exists from every reachable state: without further faults every handshake
   finishes within imu steps, every message is returned, every marker is removed *)
Theorem good_run_exists : forall w, ireach w ->
  exists p w', frun w p 0 w' /\ complete w' /\ N.of_nat p <= imu w /\ i_lost w' = i_lost w.
Proof.
  intros w H. remember (N.to_nat (imu w)) as k eqn:Ek.
  assert (Hk : (N.to_nat (imu w) <= k)%nat) by lia. clear Ek. revert w H Hk.
  induction k as [|k IH]; intros w H Hk.
  - exists 0%nat, w. split; [constructor|]. split; [|split; [lia|reflexivity]].
    apply imu_zero_complete; [apply inbound_inv, H|lia].
  - destruct (N.eq_dec (imu w) 0) as [E|NE].
    + exists 0%nat, w. split; [constructor|]. split; [|split; [lia|reflexivity]].
      apply imu_zero_complete; [apply inbound_inv, H|exact E].
    + destruct (progress_enabled w NE) as (l & w1 & Hl & Hs).
      pose proof (good_step_measure _ _ _ (inbound_inv _ H) Hs Hl) as Hm.
      destruct (IH w1 (ir_step _ _ _ H Hs) ltac:(lia)) as (p & w' & Hr & Hc & Hp & Hlost).
      exists (S p), w'. split; [eapply fr_prog; eassumption|]. split; [exact Hc|]. split; [lia|].
      rewrite Hlost. pose proof (frun_lost _ _ _ _ (fr_prog _ _ _ _ _ _ Hl Hs (fr_nil w1))) as E. exact E.
Qed.

(* ================================================================== *)
(* 7. Executable stepper (for concrete traces)                         *)

Inductive iaction :=
| ANew (id : N)            (* the broker starts a message under id *)
| AClient                  (* the client reads the oldest packet; its write succeeds *)
| AClientFail              (* ... its write fails (duplicate PUBLISH or PUBREL) *)
| AFlush | AFlushFail | ASaveFail
| ABroker (again : bool)   (* the broker reads the oldest packet; again: repeat PUBREL for a repeated PUBREC *)
| ABreak | AReconnect | ARestart.

Definition iexec (w : iworld) (a : iaction) : option iworld :=
  let '(mkI mk ow on b2c c2b out nx dl ls) := w in
  match a with
  | ANew id =>
    if (0 <? id) && (id <? 65536) then
      match cur id out with
      | None => Some (mkI mk ow on (if on then b2c ++ [DPub id nx] else b2c) c2b
                          (out ++ [mkE id nx BRec]) (nx + 1) dl ls)
      | Some _ => None
      end
    else None
  | AClient =>
    match ow, on, b2c with
    | None, true, DPub id x :: q =>
      if memb id mk then Some (mkI mk None true q (c2b ++ [URec id x]) out nx dl ls)
      else Some (mkI mk (Some (URec id x)) true q c2b out nx (x :: dl) ls)
    | None, true, DRel id x :: q =>
      Some (mkI (mark_del id mk) None true q (c2b ++ [UComp id x]) out nx dl ls)
    | _, _, _ => None
    end
  | AClientFail =>
    match ow, on, b2c with
    | None, true, DPub id x :: q =>
      if memb id mk then Some (mkI mk (Some (URec id x)) false [] [] out nx dl ls) else None
    | None, true, DRel id x :: q =>
      Some (mkI (mark_del id mk) (Some (UComp id x)) false [] [] out nx dl ls)
    | _, _, _ => None
    end
  | AFlush =>
    match ow, on with
    | Some u, true => Some (mkI (save_marker u mk) None true b2c (c2b ++ [u]) out nx dl ls)
    | _, _ => None
    end
  | AFlushFail =>
    match ow with
    | Some u => Some (mkI (save_marker u mk) (Some u) false [] [] out nx dl ls)
    | None => None
    end
  | ASaveFail =>
    match ow with
    | Some (URec _ _) => Some w
    | _ => None
    end
  | ABroker again =>
    match c2b with
    | URec id x :: q =>
      match cur id out with
      | Some e =>
        match e_ph e with
        | BRec => Some (mkI mk ow on (b2c ++ [DRel id (e_x e)]) q (advance id out) nx dl ls)
        | BComp => Some (mkI mk ow on (if again then b2c ++ [DRel id (e_x e)] else b2c) q out nx dl ls)
        end
      | None => Some (mkI mk ow on b2c q out nx dl ls)
      end
    | UComp id x :: q =>
      match cur id out with
      | Some e =>
        match e_ph e with
        | BComp => Some (mkI mk ow on b2c q (drop id out) nx dl ls)
        | BRec => Some (mkI mk ow on b2c q out nx dl ls)
        end
      | None => Some (mkI mk ow on b2c q out nx dl ls)
      end
    | [] => None
    end
  | ABreak => Some (mkI mk ow false [] [] out nx dl ls)
  | AReconnect => if on then None else Some (mkI mk ow true (resend out) [] out nx dl ls)
  | ARestart => Some (mkI mk None false [] [] out nx dl (lost_after mk ow ls))
  end.

Lemma iexec_sound w a w' : iexec w a = Some w' -> exists l, istep w l w'.
Proof.
  destruct w as [mk ow on b2c c2b out nx dl ls]. destruct a; cbn [iexec].
  - destruct ((0 <? id) && (id <? 65536)) eqn:Hr; [|discriminate].
    apply andb_true_iff in Hr. destruct Hr as [H1 H2]. apply N.ltb_lt in H1, H2.
    destruct (cur id out) eqn:Hc; [discriminate|]. intros E. inversion E; subst w'. exists LNew.
    destruct on; [apply I_new_on|apply I_new_off]; auto.
  - destruct ow; [discriminate|]. destruct on; [|discriminate].
    destruct b2c as [|[id x|id x] q]; [discriminate| |].
    + destruct (memb id mk) eqn:Em; intros E; inversion E; subst w'.
      * exists LDupe. apply I_dupe. apply memb_in. exact Em.
      * exists LDeliver. apply I_deliver. rewrite <- memb_in. congruence.
    + intros E; inversion E; subst w'. exists LPubrel. apply I_pubrel.
  - destruct ow; [discriminate|]. destruct on; [|discriminate].
    destruct b2c as [|[id x|id x] q]; [discriminate| |].
    + destruct (memb id mk) eqn:Em; [|discriminate]. intros E; inversion E; subst w'.
      exists LDupeFail. apply I_dupe_fail. apply memb_in. exact Em.
    + intros E; inversion E; subst w'. exists LPubrelFail. apply I_pubrel_fail.
  - destruct ow as [u|]; [|discriminate]. destruct on; [|discriminate].
    intros E; inversion E; subst w'. exists LFlush. apply I_flush.
  - destruct ow as [u|]; [|discriminate]. intros E; inversion E; subst w'. exists LFlushFail. apply I_flush_fail.
  - destruct ow as [[id x|id x]|]; try discriminate. intros E; inversion E; subst w'.
    exists LSaveFail. apply I_save_fail.
  - destruct c2b as [|[id x|id x] q]; [discriminate| |].
    + destruct (cur id out) as [e|] eqn:Hc.
      * destruct (e_ph e) eqn:Hp; intros E; inversion E; subst w'.
        -- exists LBrokerRec. eapply I_broker_rec; eassumption.
        -- destruct again.
           ++ exists LBrokerRecAgain. eapply I_broker_rec_again; eassumption.
           ++ exists LBrokerRecIgnore. eapply I_broker_rec_ignore; eassumption.
      * intros E; inversion E; subst w'. exists LBrokerRecUnknown. apply I_broker_rec_unknown. exact Hc.
    + destruct (cur id out) as [e|] eqn:Hc.
      * destruct (e_ph e) eqn:Hp; intros E; inversion E; subst w'.
        -- exists LBrokerCompStale. apply I_broker_comp_stale. intros e' E'. rewrite Hc in E'.
           inversion E'; subst. exact Hp.
        -- exists LBrokerComp. eapply I_broker_comp; eassumption.
      * intros E; inversion E; subst w'. exists LBrokerCompStale. apply I_broker_comp_stale.
        intros e' E'. rewrite Hc in E'. discriminate.
  - intros E; inversion E; subst w'. exists LBreak. apply I_break.
  - destruct on; [discriminate|]. intros E; inversion E; subst w'. exists LReconnect. apply I_reconnect.
  - intros E; inversion E; subst w'. exists LRestart. apply I_restart.
Qed.

Fixpoint irun (w : iworld) (l : list iaction) : option iworld :=
  match l with
  | [] => Some w
  | a :: r => match iexec w a with Some w' => irun w' r | None => None end
  end.

Lemma irun_reach l : forall w w', ireach w -> irun w l = Some w' -> ireach w'.
Proof.
  induction l as [|a r IH]; intros w w' H E; cbn [irun] in E.
  - inversion E. subst. exact H.
  - destruct (iexec w a) as [w1|] eqn:E1; [|discriminate].
    destruct (iexec_sound _ _ _ E1) as (lb & Hs). exact (IH _ _ (ir_step _ _ _ H Hs) E).
Qed.

(* A retransmission: PUBLISH 7 (message 0) is returned, the next ReadSlices saves the marker and
   writes PUBREC, the connection breaks before the broker reads it; after the reconnect the
   broker sends PUBLISH 7 again (DUP): the marker is found, the message is NOT returned again,
   PUBREC is written at once. *)
Definition retrans_trace : list iaction :=
  [AReconnect; ANew 7; AClient; AFlush; ABreak; AReconnect; AClient].

Example retransmission_once :
  exists w, irun iinit retrans_trace = Some w /\ ireach w /\
    i_deliv w = [0] /\ i_marks w = [7] /\ i_c2b w = [URec 7 0] /\ i_b2c w = [] /\ i_owed w = None /\
    i_out w = [mkE 7 0 BRec] /\ i_lost w = [].
Proof.
  eexists. split; [vm_compute; reflexivity|]. split.
  - apply (irun_reach retrans_trace iinit); [apply ir_init|vm_compute; reflexivity].
  - vm_compute. repeat split; reflexivity.
Qed.

(* ... the rest of the handshake: the PUBCOMP write fails (the PUBCOMP is kept and written by the
   next ReadSlices WITHOUT a marker Save: what the seeded change M3-C04b breaks), the broker
   repeats PUBREL on the new connection and gets a second PUBCOMP; it ends the cycle on the
   first one and uses the same identifier for a NEW message; the second PUBCOMP meets BRec and
   is ignored; the new message finds no marker and is returned. *)
Definition reuse_trace : list iaction :=
  retrans_trace ++ [ABroker true; AClientFail; AReconnect; AFlush; AClient; ABroker true;
                    ANew 7; ABroker true; AClient; AFlush].

Example identifier_reuse_returned :
  exists w, irun iinit reuse_trace = Some w /\ ireach w /\
    i_deliv w = [1; 0] /\ i_marks w = [7] /\ i_out w = [mkE 7 1 BRec] /\ i_lost w = [] /\
    i_c2b w = [URec 7 1].
Proof.
  eexists. split; [vm_compute; reflexivity|]. split.
  - apply (irun_reach reuse_trace iinit); [apply ir_init|vm_compute; reflexivity].
  - vm_compute. repeat split; reflexivity.
Qed.

(* The documented window: message 0 is returned, the process stops before the next ReadSlices
   call saved the marker (with or without a failing Save in between); the new process finds no
   marker and returns the retransmission a second time. *)
Definition window_trace : list iaction :=
  [AReconnect; ANew 7; AClient; ASaveFail; ARestart; AReconnect; AClient].

Example window_second_delivery :
  exists w, irun iinit window_trace = Some w /\ ireach w /\
    i_deliv w = [0; 0] /\ i_lost w = [0] /\ i_marks w = [] /\ i_owed w = Some (URec 7 0).
Proof.
  eexists. split; [vm_compute; reflexivity|]. split.
  - apply (irun_reach window_trace iinit); [apply ir_init|vm_compute; reflexivity].
  - vm_compute. repeat split; reflexivity.
Qed.

(* once the marker is saved, a process stop does no harm *)
Definition restart_after_flush_trace : list iaction :=
  [AReconnect; ANew 7; AClient; AFlushFail; ARestart; AReconnect; AClient;
   ABroker false; AClient; ABroker false].

Example restart_after_flush_once :
  exists w, irun iinit restart_after_flush_trace = Some w /\ complete w /\ i_deliv w = [0] /\ i_lost w = [].
Proof.
  eexists. split; [vm_compute; reflexivity|]. split; [|split; vm_compute; reflexivity].
  apply imu_zero_complete; [|vm_compute; reflexivity]. apply inbound_inv.
  apply (irun_reach restart_after_flush_trace iinit); [apply ir_init|vm_compute; reflexivity].
Qed.

(* ================================================================== *)
(* 8. The boundary: what identifier reuse rests on                     *)

(* [new_cycle_no_marker] needs that the flush saves a marker for a PUBREC ONLY.  The seeded
   change M3-C04b (marker Save for every pending acknowledgement that is not a PUBACK) is this
   flush: *)
Definition flush_m3c04b (w : iworld) : option iworld :=
  match i_owed w, i_on w with
  | Some u, true =>
    Some (mkI (mark_add (match u with URec id _ | UComp id _ => id end) (i_marks w)) None true
              (i_b2c w) (i_c2b w ++ [u]) (i_out w) (i_next w) (i_deliv w) (i_lost w))
  | _, _ => None
  end.

(* PUBCOMP write failed, reconnect, the changed flush writes the PUBCOMP and re-saves the marker;
   the broker ends the cycle, the connection breaks before the repeated PUBREL is read; the
   identifier is used for a new message, which now finds the stale marker: acknowledged with
   PUBREC but never returned *)
Example m3c04b_loses_message :
  exists w w1 w2, irun iinit [AReconnect; ANew 7; AClient; AFlush; ABroker false; AClientFail; AReconnect] = Some w /\
    ireach w /\ flush_m3c04b w = Some w1 /\
    irun w1 [ABroker false; ABreak; AReconnect; ANew 7; AClient] = Some w2 /\
    i_deliv w2 = [0] /\ i_c2b w2 = [URec 7 1] /\ i_out w2 = [mkE 7 1 BRec] /\ i_b2c w2 = [].
Proof.
  eexists. eexists. eexists. split; [vm_compute; reflexivity|]. split.
  - apply (irun_reach [AReconnect; ANew 7; AClient; AFlush; ABroker false; AClientFail; AReconnect] iinit);
      [apply ir_init|vm_compute; reflexivity].
  - split; [vm_compute; reflexivity|]. split; [vm_compute; reflexivity|]. vm_compute. repeat split; reflexivity.
Qed.

(* [i_out] survives every step: the world has no step in which the broker forgets its session.
   That is an assumption about the set-up: a process restarted with Config.CleanSession = true
   (or a broker that answers CONNACK without session-present: Client.InNewSession) meets a
   broker without the stored messages, while the markers stay in the Persistence (AdoptSession
   skips the keys with bit 16, nothing else removes them).  With that extra step
   [new_cycle_no_marker] fails and the NEXT message under the identifier is acknowledged but
   never returned - a loss, where the sending side (BrokerWorld.clean_session_restart_duplicates)
   gets a duplicate: *)
Definition session_wiped (w : iworld) : iworld :=
  mkI (i_marks w) (i_owed w) (i_on w) (i_b2c w) (i_c2b w) [] (i_next w) (i_deliv w) (i_lost w).

Definition clean_trace : list iaction := [AReconnect; ANew 7; AClient; AFlush; ABreak; ARestart].

Example clean_session_restart_loses_message :
  exists w w', irun iinit clean_trace = Some w /\ ireach w /\
    irun (session_wiped w) [AReconnect; ANew 7; AClient; ABroker false; AClient; ABroker false] = Some w' /\
    i_deliv w' = [0] /\ i_next w' = 2 /\ i_out w' = [] /\ i_b2c w' = [] /\ i_c2b w' = [] /\ i_owed w' = None.
Proof.
  eexists. eexists. split; [vm_compute; reflexivity|]. split.
  - apply (irun_reach clean_trace iinit); [apply ir_init|vm_compute; reflexivity].
  - split; [vm_compute; reflexivity|]. vm_compute. repeat split; reflexivity.
Qed.

(* ================================================================== *)
(* 9. The at-least-once analogue, in brief                             *)

(* No marker: every PUBLISH is returned (duplicates allowed), pendingAck := PUBACK, written by
   the next ReadSlices call first thing.  The broker discards the message it holds under the
   identifier when a PUBACK with that identifier arrives.  [reuse]: the broker may use an
   identifier again as soon as it is free (true) or never again (false).  Packets and entries
   are pairs (identifier, ghost message number). *)
Record qworld := mkQ {
  q_owed : option (N * N); q_on : bool; q_b2c : list (N * N); q_c2b : list (N * N);
  q_out : list (N * N); q_hist : list (N * N); q_deliv : list N; q_acked : list N
}.

Definition olp (o : option (N * N)) : list (N * N) := match o with Some p => [p] | None => [] end.
Definition has_id (id : N) (p : N * N) : bool := fst p =? id.

Inductive qstep (reuse : bool) : qworld -> qworld -> Prop :=
| Q_new : forall ow on b2c c2b out hist dl ak id,
    ~ In id (map fst out) -> (reuse = false -> ~ In id (map fst hist)) ->
    qstep reuse (mkQ ow on b2c c2b out hist dl ak)
      (mkQ ow on (if on then b2c ++ [(id, N.of_nat (length hist))] else b2c) c2b
           (out ++ [(id, N.of_nat (length hist))]) (hist ++ [(id, N.of_nat (length hist))]) dl ak)
| Q_deliver : forall p q c2b out hist dl ak,
    qstep reuse (mkQ None true (p :: q) c2b out hist dl ak) (mkQ (Some p) true q c2b out hist (snd p :: dl) ak)
| Q_flush : forall p b2c c2b out hist dl ak,
    qstep reuse (mkQ (Some p) true b2c c2b out hist dl ak) (mkQ None true b2c (c2b ++ [p]) out hist dl ak)
| Q_flush_fail : forall p on b2c c2b out hist dl ak,
    qstep reuse (mkQ (Some p) on b2c c2b out hist dl ak) (mkQ (Some p) false [] [] out hist dl ak)
| Q_broker_ack : forall ow on b2c p q out hist dl ak,
    qstep reuse (mkQ ow on b2c (p :: q) out hist dl ak)
      (mkQ ow on b2c q (filter (fun e => negb (has_id (fst p) e)) out) hist dl
           (map snd (filter (has_id (fst p)) out) ++ ak))
| Q_break : forall ow on b2c c2b out hist dl ak,
    qstep reuse (mkQ ow on b2c c2b out hist dl ak) (mkQ ow false [] [] out hist dl ak)
| Q_reconnect : forall ow b2c c2b out hist dl ak,
    qstep reuse (mkQ ow false b2c c2b out hist dl ak) (mkQ ow true out [] out hist dl ak)
| Q_restart : forall ow on b2c c2b out hist dl ak,
    qstep reuse (mkQ ow on b2c c2b out hist dl ak) (mkQ None false [] [] out hist dl ak).

Definition qinit : qworld := mkQ None false [] [] [] [] [] [].
Inductive qreach (reuse : bool) : qworld -> Prop :=
| qr_init : qreach reuse qinit
| qr_step : forall w w', qreach reuse w -> qstep reuse w w' -> qreach reuse w'.

(* C07, both regimes: a PUBACK (pending or written) exists only for a message that was returned;
   returning a message writes nothing and leaves exactly its PUBACK pending; nothing is read
   while it is pending *)
Theorem qos1_ack_only_after_delivery : forall reuse w p, qreach reuse w ->
  In p (q_c2b w ++ olp (q_owed w)) -> In (snd p) (q_deliv w).
Proof.
  intros reuse w p H. revert p. induction H as [|w w' _ IH Hs]; [intros p []|].
  destruct Hs; cbn [q_c2b q_owed q_deliv olp] in *; intros p0 Hin.
  - destruct on; apply IH; exact Hin.
  - apply in_app_or in Hin. destruct Hin as [Hin|[<-|[]]]; [right; apply IH; apply in_or_app; left; exact Hin|left; reflexivity].
  - apply IH. rewrite app_nil_r in Hin. exact Hin.
  - apply IH. apply in_or_app. right. exact Hin.
  - apply IH. right. exact Hin.
  - apply IH. apply in_or_app. right. exact Hin.
  - apply IH. apply in_or_app. right. exact Hin.
  - destruct Hin.
Qed.

Theorem qos1_delivery_leaves_ack_pending : forall reuse w w', qstep reuse w w' -> q_deliv w' <> q_deliv w ->
  exists p q, q_owed w = None /\ q_b2c w = p :: q /\ q_deliv w' = snd p :: q_deliv w /\
              q_owed w' = Some p /\ q_c2b w' = q_c2b w.
Proof.
  intros reuse w w' H Hne. destruct H; cbn [q_deliv q_owed q_b2c q_c2b] in *; try (contradiction Hne; reflexivity).
  exists p, q. auto.
Qed.

(* at-least-once when identifiers are not used again: what the broker discards was returned *)
Record QInv (w : qworld) : Prop := mkQInv {
  qv_ids : NoDup (map fst (q_hist w));
  qv_out : incl (q_out w) (q_hist w);
  qv_b2c : incl (q_b2c w) (q_hist w);
  qv_cl : incl (q_c2b w ++ olp (q_owed w)) (q_hist w);
  qv_ack : incl (q_acked w) (q_deliv w)
}.

Lemma fst_unique (l : list (N * N)) : NoDup (map fst l) -> forall p1 p2, In p1 l -> In p2 l ->
  fst p1 = fst p2 -> p1 = p2.
Proof.
  induction l as [|a r IH]; intros Hn p1 p2 H1 H2 E; [destruct H1|].
  cbn [map] in Hn. inversion Hn as [|? ? Ha Hr]; subst.
  destruct H1 as [<-|H1], H2 as [<-|H2].
  - reflexivity.
  - exfalso. apply Ha. rewrite E. apply in_map. exact H2.
  - exfalso. apply Ha. rewrite <- E. apply in_map. exact H1.
  - exact (IH Hr _ _ H1 H2 E).
Qed.

Theorem qos1_at_least_once : forall w, qreach false w -> QInv w.
Proof.
  intros w H. induction H as [|w w' Hr IH Hs].
  - constructor; cbn; try (intros x []). constructor.
  - pose proof (fun p => qos1_ack_only_after_delivery false w p Hr) as Hack.
    destruct IH as [I1 I2 I3 I4 I5].
    destruct Hs; cbn [q_owed q_on q_b2c q_c2b q_out q_hist q_deliv q_acked olp] in *; constructor;
      cbn [q_owed q_on q_b2c q_c2b q_out q_hist q_deliv q_acked olp].
    + rewrite map_app. apply nodup_snoc; [exact I1|]. apply H0. reflexivity.
    + intros e He. apply in_app_or in He. destruct He as [He|He]; apply in_or_app; [left; apply I2|right]; exact He.
    + intros e He. destruct on; [apply in_app_or in He; destruct He as [He|He]|]; apply in_or_app;
        [left; apply I3; exact He|right; exact He|left; apply I3; exact He].
    + intros e He. apply in_or_app. left. apply I4. exact He.
    + exact I5.
    + exact I1.
    + exact I2.
    + intros e He. apply I3. right. exact He.
    + intros e He. apply in_app_or in He. destruct He as [He|[<-|[]]].
      * apply I4. apply in_or_app. left. exact He.
      * apply I3. left. reflexivity.
    + intros x Hx. right. apply I5. exact Hx.
    + exact I1.
    + exact I2.
    + exact I3.
    + intros e He. apply I4. rewrite app_nil_r in He. exact He.
    + exact I5.
    + exact I1.
    + exact I2.
    + intros e [].
    + intros e He. apply I4. apply in_or_app. right. exact He.
    + exact I5.
    + exact I1.
    + intros e He. apply filter_In in He. apply I2, He.
    + exact I3.
    + intros e He. apply I4. right. exact He.
    + intros x Hx. apply in_app_or in Hx. destruct Hx as [Hx|Hx]; [|apply I5; exact Hx].
      apply in_map_iff in Hx. destruct Hx as (e & <- & He). apply filter_In in He. destruct He as [He Hid].
      unfold has_id in Hid. apply N.eqb_eq in Hid.
      assert (e = p).
      { apply (fst_unique _ I1); [apply I2; exact He|apply I4; left; reflexivity|exact Hid]. }
      subst e. apply Hack. left. reflexivity.
    + exact I1.
    + exact I2.
    + intros e [].
    + intros e He. apply I4. apply in_or_app. right. exact He.
    + exact I5.
    + exact I1.
    + exact I2.
    + exact I2.
    + intros e He. apply I4. apply in_or_app. right. exact He.
    + exact I5.
    + exact I1.
    + exact I2.
    + intros e [].
    + intros e [].
    + exact I5.
Qed.

Theorem qos1_acked_were_delivered : forall w x, qreach false w -> In x (q_acked w) -> In x (q_deliv w).
Proof. intros w x H. apply (qv_ack _ (qos1_at_least_once w H)). Qed.

(* With immediate identifier reuse at-least-once is NOT a property of the closed loop, for any
   client that acknowledges every PUBLISH it returns (as MQTT demands): message 0 is returned
   twice (original and retransmission), hence acknowledged twice on one connection; the broker
   frees identifier 7 on the first PUBACK, uses it for message 1, and takes the second PUBACK
   for message 1; the connection breaks before the client reads message 1: discarded by the
   broker, never returned.  (The exactly-once handshake has no such trace:
   [stale_pubcomp_harmless], [broker_knows_pubrec], [good_run_exists].) *)
Example qos1_reuse_loses_message :
  exists w, qreach true w /\ In 1 (q_acked w) /\ ~ In 1 (q_deliv w) /\ q_out w = [] /\ q_b2c w = [].
Proof.
  pose proof (qr_init true) as R. unfold qinit in R.
  assert (Hd : forall P : Prop, true = false -> P) by (intros; discriminate).
  pose proof (qr_step true _ _ R (Q_reconnect true _ _ _ _ _ _ _)) as R1. clear R.
  pose proof (qr_step true _ _ R1 (Q_new true None true [] [] [] [] [] [] 7 (fun h => h) (Hd _))) as R2. clear R1. cbv in R2.
  pose proof (qr_step true _ _ R2 (Q_deliver true _ _ _ _ _ _ _)) as R3. clear R2. cbv in R3.
  pose proof (qr_step true _ _ R3 (Q_flush_fail true _ _ _ _ _ _ _ _)) as R4. clear R3.
  pose proof (qr_step true _ _ R4 (Q_reconnect true _ _ _ _ _ _ _)) as R5. clear R4.
  pose proof (qr_step true _ _ R5 (Q_flush true _ _ _ _ _ _ _)) as R6. clear R5. cbv in R6.
  pose proof (qr_step true _ _ R6 (Q_deliver true _ _ _ _ _ _ _)) as R7. clear R6. cbv in R7.
  pose proof (qr_step true _ _ R7 (Q_flush true _ _ _ _ _ _ _)) as R8. clear R7. cbv in R8.
  pose proof (qr_step true _ _ R8 (Q_broker_ack true _ _ _ _ _ _ _ _ _)) as R9. clear R8. cbv in R9.
  pose proof (qr_step true _ _ R9 (Q_new true None true [] [(7, 0)] [] [(7, 0)] [0; 0] [0] 7 (fun h => h) (Hd _))) as R10. clear R9. cbv in R10.
  pose proof (qr_step true _ _ R10 (Q_broker_ack true _ _ _ _ _ _ _ _ _)) as R11. clear R10. cbv in R11.
  pose proof (qr_step true _ _ R11 (Q_break true _ _ _ _ _ _ _ _)) as R12. clear R11.
  eexists. split; [exact R12|]. cbn. split; [auto|]. split; [|auto]. intros [H|[H|[]]]; discriminate.
Qed.
