(* Proofs about the error-tree classifiers of ErrTree.v. *)
From MQ Require Import Bytes ErrTree.

(* ---- nested induction principle for gerr (list (option gerr) inside) ---- *)
Lemma gerr_nested_ind :
  forall P : gerr -> Prop,
    (forall id, P (Sentinel id)) ->
    P (Wrap1 None) ->
    (forall i, P i -> P (Wrap1 (Some i))) ->
    (forall ws, (forall i, In (Some i) ws -> P i) -> P (WrapN ws)) ->
    (forall c, P (ConnRet c)) ->
    P SubErr ->
    (forall id, P (Opaque id)) ->
    forall e, P e.
Proof.
  intros P HS HW1n HW1 HWN HC HSub HO.
  fix F 1.
  intros [id | [i|] | ws | c | | id].
  - apply HS.
  - apply HW1, F.
  - apply HW1n.
  - apply HWN.
    induction ws as [|o r IH]; intros i Hin.
    + destruct Hin.
    + destruct Hin as [Heq | Hin].
      * destruct o as [j|]; [|discriminate].
        injection Heq as <-. apply F.
      * apply IH, Hin.
  - apply HC.
  - apply HSub.
  - apply HO.
Qed.

(* ---- the declarative relation: x occurs in the wrap/join tree e ---- *)
Inductive occurs (x : gerr) : gerr -> Prop :=
| occ_refl : occurs x x
| occ_wrap1 : forall i, occurs x i -> occurs x (Wrap1 (Some i))
| occ_wrapN : forall ws i, In (Some i) ws -> occurs x i -> occurs x (WrapN ws).

Lemma occurs_inv : forall x e, occurs x e ->
  x = e \/ (exists i, e = Wrap1 (Some i) /\ occurs x i)
        \/ (exists ws i, e = WrapN ws /\ In (Some i) ws /\ occurs x i).
Proof.
  intros x e H. destruct H.
  - left; reflexivity.
  - right; left; eauto.
  - right; right; eauto.
Qed.

Lemma occurs_trans : forall x y z, occurs x y -> occurs y z -> occurs x z.
Proof.
  intros x y z Hxy Hyz. induction Hyz.
  - exact Hxy.
  - apply occ_wrap1, IHHyz.
  - eapply occ_wrapN; eauto.
Qed.

Lemma occurs_sentinel_leaf : forall x id, occurs x (Sentinel id) -> x = Sentinel id.
Proof.
  intros x id H. apply occurs_inv in H.
  destruct H as [H | [(i & H & _) | (ws & i & H & _)]]; [exact H | discriminate | discriminate].
Qed.

Lemma occurs_wrap1_some : forall t i, occurs (Sentinel t) (Wrap1 (Some i)) <-> occurs (Sentinel t) i.
Proof.
  intros t i; split; intro H.
  - apply occurs_inv in H.
    destruct H as [H | [(j & H & Ho) | (ws & j & H & _)]]; try discriminate.
    injection H as ->. exact Ho.
  - apply occ_wrap1, H.
Qed.

Lemma occurs_wrap1_none : forall t, ~ occurs (Sentinel t) (Wrap1 None).
Proof.
  intros t H. apply occurs_inv in H.
  destruct H as [H | [(j & H & _) | (ws & j & H & _)]]; discriminate.
Qed.

Lemma occurs_wrapN : forall t ws,
  occurs (Sentinel t) (WrapN ws) <-> exists i, In (Some i) ws /\ occurs (Sentinel t) i.
Proof.
  intros t ws; split; intro H.
  - apply occurs_inv in H.
    destruct H as [H | [(j & H & _) | (ws' & j & H & Hin & Ho)]]; try discriminate.
    injection H as ->. eauto.
  - destruct H as (i & Hin & Ho). eapply occ_wrapN; eauto.
Qed.

Lemma occurs_leaf_other : forall t e,
  match e with ConnRet _ | SubErr | Opaque _ => True | _ => False end ->
  ~ occurs (Sentinel t) e.
Proof.
  intros t e He H. apply occurs_inv in H.
  destruct H as [H | [(j & H & _) | (ws' & j & H & _)]]; subst e; try discriminate; exact He.
Qed.

(* ---- the stack ---- *)
Lemma pop_last_app : forall A (l : list A) x, pop_last (l ++ [x]) = Some (l, x).
Proof.
  induction l as [|y r IH]; intro x; cbn.
  - reflexivity.
  - rewrite IH. reflexivity.
Qed.

Lemma pop_last_none : forall A (l : list A), pop_last l = None -> l = [].
Proof.
  intros A [|x r]; cbn; [reflexivity|].
  destruct (pop_last r) as [[r' y]|]; discriminate.
Qed.

Lemma pop_last_some : forall A (l l' : list A) x, pop_last l = Some (l', x) -> l = l' ++ [x].
Proof.
  induction l as [|y r IH]; intros l' x; cbn.
  - discriminate.
  - destruct (pop_last r) as [[r' z]|] eqn:E.
    + intro H; injection H as <- <-. rewrite (IH r' z eq_refl). reflexivity.
    + intro H; injection H as <- <-. apply pop_last_none in E. subst r. reflexivity.
Qed.

Lemma lsize_app : forall a b, lsize (a ++ b) = (lsize a + lsize b)%nat.
Proof. induction a as [|o r IH]; intro b; cbn [lsize app]; [reflexivity|rewrite IH; lia]. Qed.

Lemma gsize_wrapN : forall ws, gsize (WrapN ws) = S (lsize ws).
Proof.
  intro ws. cbn [gsize]. f_equal.
  induction ws as [|[i|] r IH]; cbn [lsize osize]; [reflexivity| |]; rewrite IH; reflexivity.
Qed.

Lemma gsize_pos : forall e, (1 <= gsize e)%nat.
Proof. intros [id | [i|] | ws | c | | id]; cbn [gsize]; lia. Qed.

Lemma osize_pos : forall o, (1 <= osize o)%nat.
Proof. intros [e|]; cbn [osize]; [apply gsize_pos|lia]. Qed.

(* a target occurs in the current error or in some entry of the stack *)
Definition occ_stack (t : N) (err : option gerr) (more : list (option gerr)) : Prop :=
  (exists e, err = Some e /\ occurs (Sentinel t) e)
  \/ (exists i, In (Some i) more /\ occurs (Sentinel t) i).

Lemma matches_any_iff : forall e targets,
  matches_any e targets = true <-> exists t, In t targets /\ e = Sentinel t.
Proof.
  intros e targets; split.
  - destruct e; cbn [matches_any]; try discriminate.
    intro H. apply existsb_exists in H. destruct H as (t & Hin & Heq).
    apply N.eqb_eq in Heq. subst. eauto.
  - intros (t & Hin & ->). cbn [matches_any]. apply existsb_exists.
    exists t; split; [exact Hin|apply N.eqb_refl].
Qed.

(* The loop invariant: with enough fuel the loop answers, and it answers true
   exactly when a target occurs in `err` or in an entry of `more`. *)
Lemma nnia_loop_spec : forall fuel targets err more,
  (osize err + lsize more <= fuel)%nat ->
  exists b, nnia_loop fuel targets err more = Some b
            /\ (b = true <-> exists t, In t targets /\ occ_stack t err more).
Proof.
  induction fuel as [|f IH]; intros targets err more Hf.
  - pose proof (osize_pos err). lia.
  - (* the pop part, shared by all fall-through paths *)
    assert (Hpop : forall m, (lsize m <= f)%nat ->
      exists b, match pop_last m with
                | None => Some false
                | Some (more', e') => nnia_loop f targets e' more'
                end = Some b
                /\ (b = true <-> exists t, In t targets /\
                                   exists i, In (Some i) m /\ occurs (Sentinel t) i)).
    { intros m Hm. destruct (pop_last m) as [[m' e']|] eqn:E.
      - apply pop_last_some in E. subst m. rewrite lsize_app in Hm. cbn [lsize] in Hm.
        destruct (IH targets e' m') as (b & Hb & Hiff); [lia|].
        exists b; split; [exact Hb|]. rewrite Hiff. split.
        + intros (t & Hin & [(e & -> & Ho) | (i & Hi & Ho)]); exists t; split; auto.
          * exists e; split; [apply in_or_app; right; left; reflexivity|exact Ho].
          * exists i; split; [apply in_or_app; left; exact Hi|exact Ho].
        + intros (t & Hin & i & Hi & Ho); exists t; split; auto.
          apply in_app_or in Hi. destruct Hi as [Hi | [Hi | []]].
          * right; eauto.
          * left; eauto.
      - apply pop_last_none in E. subst m. exists false; split; [reflexivity|].
        split; [discriminate|]. intros (t & _ & i & [] & _). }
    cbn [nnia_loop].
    destruct err as [e|].
    + cbn [osize] in Hf.
      destruct (matches_any e targets) eqn:Em.
      * exists true; split; [reflexivity|]. split; [intros _|reflexivity].
        apply matches_any_iff in Em. destruct Em as (t & Hin & ->).
        exists t; split; [exact Hin|]. left. exists (Sentinel t); split; [reflexivity|apply occ_refl].
      * assert (Hnot : forall t, In t targets -> e <> Sentinel t).
        { intros t Hin ->. assert (matches_any (Sentinel t) targets = true) as X
            by (apply matches_any_iff; eauto). congruence. }
        destruct e as [id | [i|] | ws | c | | id].
        -- (* Sentinel, not a target *)
           destruct (Hpop more) as (b & Hb & Hiff); [pose proof (gsize_pos (Sentinel id)); cbn in *; lia|].
           exists b; split; [exact Hb|]. rewrite Hiff. split.
           ++ intros (t & Hin & Hex). exists t; split; [exact Hin|right; exact Hex].
           ++ intros (t & Hin & [(e & He & Ho) | Hex]); [|eauto].
              injection He as <-. apply occurs_sentinel_leaf in Ho.
              exfalso. apply (Hnot t Hin). symmetry; exact Ho.
        -- (* Unwrap() error, non-nil: continue *)
           cbn [gsize] in Hf.
           destruct (IH targets (Some i) more) as (b & Hb & Hiff); [cbn [osize]; lia|].
           exists b; split; [exact Hb|]. rewrite Hiff. split.
           ++ intros (t & Hin & [(e & He & Ho) | Hex]); exists t; split; auto.
              ** injection He as <-. left. exists (Wrap1 (Some i)); split; [reflexivity|].
                 apply occurs_wrap1_some, Ho.
              ** right; exact Hex.
           ++ intros (t & Hin & [(e & He & Ho) | Hex]); exists t; split; auto.
              ** injection He as <-. left. exists i; split; [reflexivity|].
                 apply occurs_wrap1_some, Ho.
              ** right; exact Hex.
        -- (* Unwrap() error returning nil *)
           cbn [gsize] in Hf.
           destruct (Hpop more) as (b & Hb & Hiff); [lia|].
           exists b; split; [exact Hb|]. rewrite Hiff. split.
           ++ intros (t & Hin & Hex). exists t; split; [exact Hin|right; exact Hex].
           ++ intros (t & Hin & [(e & He & Ho) | Hex]); [|eauto].
              injection He as <-. exfalso. exact (occurs_wrap1_none t Ho).
        -- (* Unwrap() []error *)
           rewrite gsize_wrapN in Hf.
           destruct (Hpop (more ++ ws)) as (b & Hb & Hiff); [rewrite lsize_app; lia|].
           exists b; split; [exact Hb|]. rewrite Hiff. split.
           ++ intros (t & Hin & i & Hi & Ho). exists t; split; [exact Hin|].
              apply in_app_or in Hi. destruct Hi as [Hi|Hi].
              ** right; eauto.
              ** left. exists (WrapN ws); split; [reflexivity|]. apply occurs_wrapN; eauto.
           ++ intros (t & Hin & [(e & He & Ho) | (i & Hi & Ho)]); exists t; split; auto.
              ** injection He as <-. apply occurs_wrapN in Ho. destruct Ho as (i & Hi & Ho).
                 exists i; split; [apply in_or_app; right; exact Hi|exact Ho].
              ** exists i; split; [apply in_or_app; left; exact Hi|exact Ho].
        -- destruct (Hpop more) as (b & Hb & Hiff); [cbn [gsize] in Hf; lia|].
           exists b; split; [exact Hb|]. rewrite Hiff. split.
           ++ intros (t & Hin & Hex). exists t; split; [exact Hin|right; exact Hex].
           ++ intros (t & Hin & [(e & He & Ho) | Hex]); [|eauto].
              injection He as <-. exfalso. exact (occurs_leaf_other t (ConnRet c) I Ho).
        -- destruct (Hpop more) as (b & Hb & Hiff); [cbn [gsize] in Hf; lia|].
           exists b; split; [exact Hb|]. rewrite Hiff. split.
           ++ intros (t & Hin & Hex). exists t; split; [exact Hin|right; exact Hex].
           ++ intros (t & Hin & [(e & He & Ho) | Hex]); [|eauto].
              injection He as <-. exfalso. exact (occurs_leaf_other t SubErr I Ho).
        -- destruct (Hpop more) as (b & Hb & Hiff); [cbn [gsize] in Hf; lia|].
           exists b; split; [exact Hb|]. rewrite Hiff. split.
           ++ intros (t & Hin & Hex). exists t; split; [exact Hin|right; exact Hex].
           ++ intros (t & Hin & [(e & He & Ho) | Hex]); [|eauto].
              injection He as <-. exfalso. exact (occurs_leaf_other t (Opaque id) I Ho).
    + (* a nil entry popped from the stack *)
      cbn [osize] in Hf.
      destruct (Hpop more) as (b & Hb & Hiff); [lia|].
      exists b; split; [exact Hb|]. rewrite Hiff. split.
      * intros (t & Hin & Hex). exists t; split; [exact Hin|right; exact Hex].
      * intros (t & Hin & [(e & He & _) | Hex]); [discriminate|eauto].
Qed.

(* termination: fuel_of e iterations are enough, for every tree and target list *)
Lemma nnia_fuel_enough : forall e targets,
  exists b, nnia_loop (fuel_of e) targets (Some e) [] = Some b.
Proof.
  intros e targets.
  destruct (nnia_loop_spec (fuel_of e) targets (Some e) []) as (b & Hb & _).
  - cbn [osize lsize]. unfold fuel_of. lia.
  - eauto.
Qed.

(* ... and more fuel does not change the answer *)
Lemma nnia_fuel_irrelevant : forall e targets fuel,
  (fuel_of e <= fuel)%nat ->
  nnia_loop fuel targets (Some e) [] = Some (non_nil_is_any e targets).
Proof.
  intros e targets fuel Hf.
  destruct (nnia_loop_spec (fuel_of e) targets (Some e) []) as (b & Hb & Hiff);
    [cbn [osize lsize]; unfold fuel_of; lia|].
  destruct (nnia_loop_spec fuel targets (Some e) []) as (b' & Hb' & Hiff');
    [cbn [osize lsize]; unfold fuel_of in Hf; lia|].
  unfold non_nil_is_any. rewrite Hb, Hb'. f_equal.
  destruct b, b'; try reflexivity; exfalso.
  - assert (false = true) by (apply Hiff', Hiff; reflexivity). discriminate.
  - assert (false = true) by (apply Hiff, Hiff'; reflexivity). discriminate.
Qed.

Theorem is_any_iff : forall e targets,
  non_nil_is_any e targets = true <-> exists t, In t targets /\ occurs (Sentinel t) e.
Proof.
  intros e targets.
  destruct (nnia_loop_spec (fuel_of e) targets (Some e) []) as (b & Hb & Hiff);
    [cbn [osize lsize]; unfold fuel_of; lia|].
  unfold non_nil_is_any. rewrite Hb. rewrite Hiff. split.
  - intros (t & Hin & [(e' & He & Ho) | (i & [] & _)]). injection He as <-. eauto.
  - intros (t & Hin & Ho). exists t; split; [exact Hin|]. left; eauto.
Qed.

(* ---- the flattening specification ---- *)
Lemma nodes_wrapN : forall ws,
  nodes (WrapN ws) = WrapN ws :: flat_map (fun o => match o with Some i => nodes i | None => [] end) ws.
Proof.
  intro ws. cbn [nodes]. f_equal.
  induction ws as [|[i|] r IH]; cbn [flat_map]; [reflexivity| |]; rewrite IH; reflexivity.
Qed.

Lemma in_nodes_iff : forall x e, In x (nodes e) <-> occurs x e.
Proof.
  intros x e. revert x. induction e using gerr_nested_ind; intro x.
  - cbn. split; [intros [<-|[]]; apply occ_refl|].
    intro Ho. left. symmetry. apply occurs_sentinel_leaf, Ho.
  - cbn. split; [intros [<-|[]]; apply occ_refl|].
    intro Ho. apply occurs_inv in Ho.
    destruct Ho as [Ho | [(j & Hj & _) | (ws & j & Hj & _)]]; try discriminate. left; auto.
  - cbn [nodes]. split.
    + intros [<-|Hin]; [apply occ_refl|]. apply occ_wrap1, IHe, Hin.
    + intro Ho. apply occurs_inv in Ho.
      destruct Ho as [Ho | [(j & Hj & Ho) | (ws & j & Hj & _)]]; try discriminate.
      * left; auto.
      * injection Hj as ->. right. apply IHe, Ho.
  - rewrite nodes_wrapN. split.
    + intros [<-|Hin]; [apply occ_refl|].
      apply in_flat_map in Hin. destruct Hin as ([i|] & Hi & Hx); [|destruct Hx].
      eapply occ_wrapN; [exact Hi|]. apply (H i Hi), Hx.
    + intro Ho. apply occurs_inv in Ho.
      destruct Ho as [Ho | [(j & Hj & _) | (ws' & j & Hj & Hin & Ho)]]; try discriminate.
      * left; auto.
      * injection Hj as <-. right. apply in_flat_map. exists (Some j); split; [exact Hin|].
        apply (H j Hin), Ho.
  - cbn. split; [intros [<-|[]]; apply occ_refl|].
    intro Ho. apply occurs_inv in Ho.
    destruct Ho as [Ho | [(j & Hj & _) | (ws & j & Hj & _)]]; try discriminate. left; auto.
  - cbn. split; [intros [<-|[]]; apply occ_refl|].
    intro Ho. apply occurs_inv in Ho.
    destruct Ho as [Ho | [(j & Hj & _) | (ws & j & Hj & _)]]; try discriminate. left; auto.
  - cbn. split; [intros [<-|[]]; apply occ_refl|].
    intro Ho. apply occurs_inv in Ho.
    destruct Ho as [Ho | [(j & Hj & _) | (ws & j & Hj & _)]]; try discriminate. left; auto.
Qed.

Lemma in_sentinels_of : forall t e, In t (sentinels_of e) <-> occurs (Sentinel t) e.
Proof.
  intros t e. unfold sentinels_of. rewrite in_flat_map. split.
  - intros (n & Hn & Ht). destruct n; try (destruct Ht; fail).
    destruct Ht as [<-|[]]. apply in_nodes_iff, Hn.
  - intro Ho. exists (Sentinel t); split; [apply in_nodes_iff, Ho|left; reflexivity].
Qed.

Lemma mem_N_iff : forall x l, mem_N x l = true <-> In x l.
Proof.
  intros x l. unfold mem_N. rewrite existsb_exists. split.
  - intros (y & Hy & He). apply N.eqb_eq in He. subst; exact Hy.
  - intro H. exists x; split; [exact H|apply N.eqb_refl].
Qed.

Lemma spec_is_any_iff : forall e targets,
  spec_is_any e targets = true <-> exists t, In t targets /\ occurs (Sentinel t) e.
Proof.
  intros e targets. unfold spec_is_any. rewrite existsb_exists. split.
  - intros (t & Hs & Hm). exists t; split; [apply mem_N_iff, Hm|apply in_sentinels_of, Hs].
  - intros (t & Hin & Ho). exists t; split; [apply in_sentinels_of, Ho|apply mem_N_iff, Hin].
Qed.

(* the stack loop of the package and the flattening specification agree *)
Theorem non_nil_is_any_spec : forall e targets, non_nil_is_any e targets = spec_is_any e targets.
Proof.
  intros e targets.
  destruct (non_nil_is_any e targets) eqn:A, (spec_is_any e targets) eqn:B; try reflexivity.
  - apply is_any_iff in A. apply spec_is_any_iff in A. congruence.
  - apply spec_is_any_iff in B. apply is_any_iff in B. congruence.
Qed.

(* ---- errors.Is ---- *)
Lemma go_is_wrapN : forall t ws,
  go_is t (WrapN ws) = existsb (fun o => match o with Some i => go_is t i | None => false end) ws.
Proof.
  intros t ws. cbn [go_is].
  induction ws as [|[i|] r IH]; cbn [existsb]; [reflexivity| |].
  - rewrite IH. destruct (go_is t i); reflexivity.
  - rewrite IH. reflexivity.
Qed.

Theorem go_is_iff : forall t e, go_is t e = true <-> occurs (Sentinel t) e.
Proof.
  intros t e. induction e using gerr_nested_ind.
  - cbn [go_is]. rewrite N.eqb_eq. split.
    + intros ->. apply occ_refl.
    + intro Ho. apply occurs_sentinel_leaf in Ho. injection Ho as ->. reflexivity.
  - cbn [go_is]. split; [discriminate|]. intro Ho. exfalso. exact (occurs_wrap1_none t Ho).
  - cbn [go_is]. rewrite IHe. symmetry. apply occurs_wrap1_some.
  - rewrite go_is_wrapN, existsb_exists, occurs_wrapN. split.
    + intros ([i|] & Hin & Hg); [|discriminate]. exists i; split; [exact Hin|]. apply (H i Hin), Hg.
    + intros (i & Hin & Ho). exists (Some i); split; [exact Hin|]. apply (H i Hin), Ho.
  - cbn [go_is]. split; [discriminate|]. intro Ho. exfalso. exact (occurs_leaf_other t (ConnRet c) I Ho).
  - cbn [go_is]. split; [discriminate|]. intro Ho. exfalso. exact (occurs_leaf_other t SubErr I Ho).
  - cbn [go_is]. split; [discriminate|]. intro Ho. exfalso. exact (occurs_leaf_other t (Opaque id) I Ho).
Qed.

(* errors.Is with one target = nonNilIsAny with that single target *)
Corollary go_is_non_nil_is_any : forall t e, go_is t e = non_nil_is_any e [t].
Proof.
  intros t e.
  destruct (go_is t e) eqn:A, (non_nil_is_any e [t]) eqn:B; try reflexivity.
  - apply go_is_iff in A. assert (non_nil_is_any e [t] = true) as X
      by (apply is_any_iff; exists t; split; [left; reflexivity|exact A]). congruence.
  - apply is_any_iff in B. destruct B as (t' & [<-|[]] & Ho). apply go_is_iff in Ho. congruence.
Qed.

(* ---- errors.As ---- *)
Fixpoint first_as (ty : gerr -> bool) (l : list (option gerr)) : option gerr :=
  match l with
  | [] => None
  | None :: r => first_as ty r
  | Some i :: r => match go_as ty i with Some x => Some x | None => first_as ty r end
  end.

Lemma go_as_unfold : forall ty e,
  go_as ty e = if ty e then Some e else
               match e with
               | Wrap1 (Some i) => go_as ty i
               | WrapN ws => first_as ty ws
               | _ => None
               end.
Proof.
  intros ty e. destruct e as [id | [i|] | ws | c | | id]; cbn [go_as]; try reflexivity.
  destruct (ty (WrapN ws)); [reflexivity|].
  induction ws as [|[i|] r IH]; cbn [first_as]; [reflexivity| |].
  - rewrite IH. reflexivity.
  - exact IH.
Qed.

Lemma first_as_some : forall ty ws x,
  (forall i, In (Some i) ws -> forall y, go_as ty i = Some y -> ty y = true /\ occurs y i) ->
  first_as ty ws = Some x ->
  ty x = true /\ exists i, In (Some i) ws /\ occurs x i.
Proof.
  intros ty ws x. induction ws as [|[i|] r IH]; intros H; cbn [first_as].
  - discriminate.
  - destruct (go_as ty i) as [y|] eqn:G.
    + intro Hx; injection Hx as <-.
      destruct (H i (or_introl eq_refl) y G) as (Hty & Ho).
      split; [exact Hty|]. exists i; split; [left; reflexivity|exact Ho].
    + intro Hx. destruct IH as (Hty & j & Hj & Ho); [intros j Hj; apply H; right; exact Hj|exact Hx|].
      split; [exact Hty|]. exists j; split; [right; exact Hj|exact Ho].
  - intro Hx. destruct IH as (Hty & j & Hj & Ho); [intros j Hj; apply H; right; exact Hj|exact Hx|].
    split; [exact Hty|]. exists j; split; [right; exact Hj|exact Ho].
Qed.

Lemma first_as_none : forall ty ws,
  first_as ty ws = None -> forall i, In (Some i) ws -> go_as ty i = None.
Proof.
  intros ty ws. induction ws as [|[i|] r IH]; cbn [first_as]; intros Hn j Hj.
  - destruct Hj.
  - destruct (go_as ty i) eqn:G; [discriminate|].
    destruct Hj as [Hj|Hj]; [injection Hj as <-; exact G|apply IH; assumption].
  - destruct Hj as [Hj|Hj]; [discriminate|apply IH; assumption].
Qed.

(* what errors.As finds has the target type and occurs in the tree *)
Lemma go_as_some : forall ty e x, go_as ty e = Some x -> ty x = true /\ occurs x e.
Proof.
  intros ty e. induction e using gerr_nested_ind; intro x; rewrite go_as_unfold;
    (destruct (ty _) eqn:T; [intro Hx; injection Hx as <-; split; [exact T|apply occ_refl]|]);
    try discriminate.
  - intro Hx. destruct (IHe x Hx) as (Hty & Ho). split; [exact Hty|apply occ_wrap1, Ho].
  - intro Hx. destruct (first_as_some ty ws x H Hx) as (Hty & i & Hi & Ho).
    split; [exact Hty|]. eapply occ_wrapN; eauto.
Qed.

(* errors.As finds nothing only when no node of the target type occurs *)
Lemma go_as_none : forall ty e, go_as ty e = None -> forall x, occurs x e -> ty x = false.
Proof.
  intros ty e. induction e using gerr_nested_ind; rewrite go_as_unfold;
    (destruct (ty _) eqn:T; [discriminate|]); intros Hn x Ho; apply occurs_inv in Ho;
    destruct Ho as [Ho | [(j & Hj & Ho) | (ws' & j & Hj & Hin & Ho)]]; try discriminate;
    try (subst x; exact T).
  - injection Hj as <-. apply IHe; assumption.
  - injection Hj as <-. apply (H j Hin); [|exact Ho]. eapply first_as_none; eauto.
Qed.

Theorem go_as_found_iff : forall ty e,
  (exists x, go_as ty e = Some x) <-> exists x, occurs x e /\ ty x = true.
Proof.
  intros ty e. split.
  - intros (x & Hx). apply go_as_some in Hx. destruct Hx; eauto.
  - intros (x & Ho & Hty). destruct (go_as ty e) eqn:G; [eauto|].
    rewrite (go_as_none ty e G x Ho) in Hty. discriminate.
Qed.

Theorem has_sub_err_iff : forall e, has_sub_err e = true <-> occurs SubErr e.
Proof.
  intro e. unfold has_sub_err. split.
  - destruct (go_as is_suberr_ty e) as [x|] eqn:G; [|discriminate]. intros _.
    apply go_as_some in G. destruct G as (Hty & Ho). destruct x; try discriminate. exact Ho.
  - intro Ho. destruct (go_as is_suberr_ty e) eqn:G; [reflexivity|].
    pose proof (go_as_none _ _ G SubErr Ho). discriminate.
Qed.

Lemma spec_has_sub_err_iff : forall e, spec_has_sub_err e = true <-> occurs SubErr e.
Proof.
  intro e. unfold spec_has_sub_err. rewrite existsb_exists. split.
  - intros (x & Hin & Hty). destruct x; try discriminate. apply in_nodes_iff, Hin.
  - intro Ho. exists SubErr; split; [apply in_nodes_iff, Ho|reflexivity].
Qed.

(* IsConnectionRefused: the FIRST connectReturn in pre-order decides *)
Theorem is_conn_refused_sound : forall e,
  is_conn_refused e = true -> exists c, c <> 0 /\ occurs (ConnRet c) e.
Proof.
  intro e. unfold is_conn_refused.
  destruct (go_as is_connret_ty e) as [x|] eqn:G; [|discriminate].
  apply go_as_some in G. destruct G as (_ & Ho).
  destruct x; try discriminate. intro Hc. exists code; split; [|exact Ho].
  intros ->. discriminate.
Qed.

Theorem is_conn_refused_complete : forall e,
  (exists c, occurs (ConnRet c) e) -> (forall c, occurs (ConnRet c) e -> c <> 0) ->
  is_conn_refused e = true.
Proof.
  intros e (c & Ho) Hnz. unfold is_conn_refused.
  destruct (go_as is_connret_ty e) as [x|] eqn:G.
  - apply go_as_some in G. destruct G as (Hty & Hox). destruct x; try discriminate.
    specialize (Hnz code Hox). destruct (N.eqb_spec code 0); [contradiction|reflexivity].
  - pose proof (go_as_none _ _ G (ConnRet c) Ho). discriminate.
Qed.

Theorem is_conn_refused_none : forall e,
  (forall c, ~ occurs (ConnRet c) e) -> is_conn_refused e = false.
Proof.
  intros e Hno. destruct (is_conn_refused e) eqn:R; [|reflexivity].
  apply is_conn_refused_sound in R. destruct R as (c & _ & Ho). exfalso. exact (Hno c Ho).
Qed.

(* ---- IsDeny / IsEnd ---- *)
Lemma is_deny_iff : forall e, is_deny e = true <-> exists t, In t deny_ids /\ occurs (Sentinel t) e.
Proof. intro e. apply is_any_iff. Qed.
Lemma is_end_iff : forall e, is_end e = true <-> exists t, In t end_ids /\ occurs (Sentinel t) e.
Proof. intro e. apply is_any_iff. Qed.

Lemma deny_end_ids_disjoint : forall t, In t deny_ids -> In t end_ids -> False.
Proof.
  intros t Hd He. apply mem_N_iff in He.
  repeat (destruct Hd as [<-|Hd]; [vm_compute in He; discriminate|]). destruct Hd.
Qed.

(* For every tree in which a deny sentinel and an end sentinel do not occur
   together, IsDeny and IsEnd are not both true. *)
Theorem deny_end_disjoint : forall e,
  ~ (exists d n, In d deny_ids /\ In n end_ids /\ occurs (Sentinel d) e /\ occurs (Sentinel n) e) ->
  ~ (is_deny e = true /\ is_end e = true).
Proof.
  intros e Hno (Hd & He). apply is_deny_iff in Hd. apply is_end_iff in He.
  destruct Hd as (d & Hd & Hod). destruct He as (n & Hn & Hon).
  apply Hno. exists d, n. auto.
Qed.

(* and the converse: when both kinds occur, both classifiers fire (so the
   hypothesis above is necessary) *)
Theorem deny_end_both : forall e d n,
  In d deny_ids -> In n end_ids -> occurs (Sentinel d) e -> occurs (Sentinel n) e ->
  is_deny e = true /\ is_end e = true.
Proof.
  intros e d n Hd Hn Hod Hon. split; [apply is_deny_iff|apply is_end_iff]; eauto.
Qed.

(* ---- the error values the package itself constructs ----------------------

   Read off /repo/{mqtt,request,client}.go (every errors.New / fmt.Errorf /
   errors.Join outside the tests):

   * bare sentinels: ErrClosed ErrDown ErrCanceled (lockWrite), ErrMax (startTx),
     ErrBreak (toOffline: `ack <- ErrBreak`), errSubscribeNone, errUnsubscribeNone,
     the stringCheck/topicCheck errors;
   * `fmt.Errorf("%w; <text>", X)` / `fmt.Errorf("%w: <text>", X)` with exactly one
     %w: a *fmt.wrapError, `Unwrap() error` = X, where X is a sentinel, or the
     error of c.write/c.writeBuffers/lockWrite, or an earlier such wrap
     (errPacketIDZero, errGot..., "…not send", "…in limbo", "…not confirmed",
     "…enqueued", "…unavailable", "…request denied", "…CONNECT not confirmed");
   * `errors.Join(ErrSubmit, err)` in write/writeBuffers/writeBuffersNoWait, err
     being what writeTo/writeBuffersTo returned: the error of
     conn.SetWriteDeadline, conn.Write or net.Buffers.WriteTo — values of the
     net.Conn the application's Dialer supplied.  The package wraps no connection
     of its own, so such an error contains no sentinel of this package (in
     particular not ErrClosed: connClosedErrors are net.ErrClosed and
     io.ErrClosedPipe, foreign values).  ASSUMPTION (about the application):
     its net.Conn and Persistence do not return this package's sentinel values;
   * foreign errors passed through or wrapped: Persistence errors, read errors,
     errBrokerTerm = fmt.Errorf("… (%w)", io.EOF), `fmt.Errorf("%w, AND file leak:
     %w", err, removeErr)` (two os errors), `fmt.Errorf("%w; record %#x not
     deleted: %w", err, key, delErr)` (decodeValue error + Persistence error),
     texts without %w, *BigMessage, connectReturn values, SubscribeError: all
     trees without any sentinel of the package.

   Hence: *)
Definition sentinel_free (e : gerr) : Prop := forall s, ~ occurs (Sentinel s) e.

Inductive lib_err : gerr -> Prop :=
| lib_sentinel : forall s, lib_err (Sentinel s)
| lib_foreign : forall x, sentinel_free x -> lib_err x
| lib_submit : forall x, sentinel_free x ->
    lib_err (WrapN [Some (Sentinel ErrSubmit); Some x])       (* errors.Join(ErrSubmit, err) *)
| lib_wrap : forall e, lib_err e -> lib_err (Wrap1 (Some e)). (* fmt.Errorf("%w; ...", e) *)

(* a library-built error carries at most one sentinel of the package *)
Lemma lib_err_one_sentinel : forall e, lib_err e ->
  forall s1 s2, occurs (Sentinel s1) e -> occurs (Sentinel s2) e -> s1 = s2.
Proof.
  intros e H. induction H; intros s1 s2 H1 H2.
  - apply occurs_sentinel_leaf in H1, H2. congruence.
  - exfalso. exact (H s1 H1).
  - apply occurs_wrapN in H1, H2.
    destruct H1 as (i1 & [E1|[E1|[]]] & O1); injection E1 as <-;
      [|exfalso; exact (H _ O1)].
    destruct H2 as (i2 & [E2|[E2|[]]] & O2); injection E2 as <-;
      [|exfalso; exact (H _ O2)].
    apply occurs_sentinel_leaf in O1, O2. congruence.
  - apply (proj1 (occurs_wrap1_some _ _)) in H1. apply (proj1 (occurs_wrap1_some _ _)) in H2. eauto.
Qed.

Theorem lib_deny_end_disjoint : forall e, lib_err e -> ~ (is_deny e = true /\ is_end e = true).
Proof.
  intros e Hl. apply deny_end_disjoint. intros (d & n & Hd & Hn & Hod & Hon).
  assert (d = n) by (eapply lib_err_one_sentinel; eauto). subst n.
  exact (deny_end_ids_disjoint d Hd Hn).
Qed.

(* ---- Backoff ---- *)
Lemma in_deny_and_end : forall t, In t deny_and_end_ids <-> In t deny_ids \/ In t end_ids.
Proof. intro t. unfold deny_and_end_ids. apply in_app_iff. Qed.

Lemma deny_and_end_split : forall e,
  non_nil_is_any e deny_and_end_ids = is_deny e || is_end e.
Proof.
  intro e.
  destruct (non_nil_is_any e deny_and_end_ids) eqn:A.
  - apply is_any_iff in A. destruct A as (t & Hin & Ho). apply in_deny_and_end in Hin.
    symmetry. apply orb_true_iff. destruct Hin; [left; apply is_deny_iff|right; apply is_end_iff]; eauto.
  - destruct (is_deny e) eqn:D.
    + apply is_deny_iff in D. destruct D as (t & Hin & Ho).
      assert (non_nil_is_any e deny_and_end_ids = true) as X
        by (apply is_any_iff; exists t; split; [apply in_deny_and_end; left; exact Hin|exact Ho]).
      congruence.
    + destruct (is_end e) eqn:E; [|reflexivity].
      apply is_end_iff in E. destruct E as (t & Hin & Ho).
      assert (non_nil_is_any e deny_and_end_ids = true) as X
        by (apply is_any_iff; exists t; split; [apply in_deny_and_end; right; exact Hin|exact Ho]).
      congruence.
Qed.

(* exactly what the code does *)
Theorem backoff_nil_iff : forall o,
  backoff_class o = BNil <->
  o = None \/ exists e, o = Some e /\
    (is_deny e = true \/ is_end e = true
     \/ (occurs SubErr e /\ ~ occurs (Sentinel ErrMax) e)).
Proof.
  intros [e|]; cbn [backoff_class].
  - rewrite deny_and_end_split.
    destruct (is_deny e) eqn:D; cbn [orb].
    { split; [intros _; right; exists e; auto|reflexivity]. }
    destruct (is_end e) eqn:E.
    { split; [intros _; right; exists e; auto|reflexivity]. }
    destruct (go_is ErrMax e) eqn:M.
    + split; [discriminate|].
      intros [H|(e' & He & Hc)]; [discriminate|]. injection He as <-.
      destruct Hc as [H|[H|(_ & H)]]; [congruence|congruence|].
      apply go_is_iff in M. contradiction.
    + destruct (has_sub_err e) eqn:S.
      * split; [intros _|reflexivity]. right; exists e; split; [reflexivity|].
        right; right. split; [apply has_sub_err_iff, S|].
        intro Ho. apply go_is_iff in Ho. congruence.
      * split; [discriminate|].
        intros [H|(e' & He & Hc)]; [discriminate|]. injection He as <-.
        destruct Hc as [H|[H|(H & _)]]; [congruence|congruence|].
        apply has_sub_err_iff in H. congruence.
  - split; [intros _; left; reflexivity|reflexivity].
Qed.

(* the documented reading, valid whenever ErrMax and a SubscribeError do not
   occur in one value (true of everything the package builds, see below) *)
Theorem backoff_nil_iff_permanent : forall o,
  (forall e, o = Some e -> ~ (occurs (Sentinel ErrMax) e /\ occurs SubErr e)
                          \/ is_deny e = true \/ is_end e = true) ->
  (backoff_class o = BNil <->
   o = None \/ exists e, o = Some e /\ (is_deny e = true \/ is_end e = true \/ occurs SubErr e)).
Proof.
  intros o Hmix. rewrite backoff_nil_iff. split.
  - intros [H|(e & He & [H|[H|(H & _)]])]; [left; exact H| | |]; right; exists e; auto.
  - intros [H|(e & He & [H|[H|H]])]; [left; exact H| | |]; right; exists e; split; auto.
    destruct (Hmix e He) as [Hno|[Hd|Hn]]; auto.
    right; right; split; [exact H|]. intro Hm. apply Hno; auto.
Qed.

(* the documented reading fails for a value holding both: the code answers with
   the ErrMax timer although a SubscribeError is inside *)
Example backoff_mixed_counterexample :
  let e := WrapN [Some (Sentinel ErrMax); Some SubErr] in
  backoff_class (Some e) = BSharedTimer /\ has_sub_err e = true
  /\ is_deny e = false /\ is_end e = false.
Proof. vm_compute. repeat split. Qed.

Lemma lib_err_no_max_with_sub : forall e, lib_err e ->
  ~ (occurs (Sentinel ErrMax) e /\ occurs SubErr e).
Proof.
  intros e H. induction H; intros (Hm & Hs).
  - apply occurs_inv in Hs.
    destruct Hs as [Hs | [(j & Hj & _) | (ws & j & Hj & _)]]; discriminate.
  - exact (H _ Hm).
  - apply occurs_wrapN in Hm. destruct Hm as (i & [E|[E|[]]] & Ho); injection E as <-.
    + apply occurs_sentinel_leaf in Ho. discriminate.
    + exact (H _ Ho).
  - apply IHlib_err. split; [exact (proj1 (occurs_wrap1_some _ _) Hm)|].
    apply occurs_inv in Hs.
    destruct Hs as [Hs | [(j & Hj & Ho) | (ws & j & Hj & _)]]; try discriminate.
    injection Hj as <-. exact Ho.
Qed.

Theorem lib_backoff_nil_iff_permanent : forall e, lib_err e ->
  (backoff_class (Some e) = BNil <-> is_deny e = true \/ is_end e = true \/ occurs SubErr e).
Proof.
  intros e Hl.
  rewrite (backoff_nil_iff_permanent (Some e)).
  - split.
    + intros [H|(e' & He & H)]; [discriminate|]. injection He as <-. exact H.
    + intro H. right; exists e; auto.
  - intros e' He. injection He as <-. left. apply lib_err_no_max_with_sub, Hl.
Qed.

(* the other two answers of Backoff *)
Theorem backoff_timer_iff : forall e,
  backoff_class (Some e) = BSharedTimer <->
  is_deny e = false /\ is_end e = false /\ occurs (Sentinel ErrMax) e.
Proof.
  intro e. cbn [backoff_class]. rewrite deny_and_end_split.
  destruct (is_deny e); cbn [orb]; [split; [discriminate|intros (H & _); discriminate]|].
  destruct (is_end e); [split; [discriminate|intros (_ & H & _); discriminate]|].
  destruct (go_is ErrMax e) eqn:M.
  - apply go_is_iff in M. split; auto.
  - split.
    + destruct (has_sub_err e); discriminate.
    + intros (_ & _ & Ho). apply go_is_iff in Ho. congruence.
Qed.

(* ---- ReadBackoff ---- *)
Theorem read_backoff_nil_iff_closed : forall o big,
  read_backoff_class o big = RNil <->
  big = false /\ exists e, o = Some e /\ occurs (Sentinel ErrClosed) e.
Proof.
  intros [e|] big; cbn [read_backoff_class].
  - destruct big.
    + split; [discriminate|intros (H & _); discriminate].
    + destruct (go_is ErrClosed e) eqn:G.
      * apply go_is_iff in G. split; [intros _; split; [reflexivity|eauto]|reflexivity].
      * split; [discriminate|]. intros (_ & e' & He & Ho). injection He as <-.
        apply go_is_iff in Ho. congruence.
  - split; [discriminate|]. intros (_ & e & He & _). discriminate.
Qed.

Theorem read_backoff_closed_chan_iff : forall o big,
  read_backoff_class o big = RClosedChan <-> o = None \/ big = true.
Proof.
  intros [e|] big; cbn [read_backoff_class].
  - destruct big; [split; auto|].
    destruct (go_is ErrClosed e); (split; [discriminate|intros [H|H]; discriminate]).
  - split; auto.
Qed.
